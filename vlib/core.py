"""Core of the bluetoe verification machinery.

A *component* (comp/<name>.py) ties one Lean model (lean/BluetoeModel/<Comp>/) to one C++ harness
(harness/<name>.cpp) that includes the real headers of the repository under test, and declares,
per property, the theorems that decide it and a `run` function that performs the correspondence
check and the search for failing inputs.  This module provides everything the components share:

  * building the Lean library + driver (`lake build`, file-locked),
  * the proof audit (`#print axioms` on the registered theorems, source grep),
  * building harnesses from the *current working tree* of the repository (content-hash cache),
  * running harness and model driver on the same operation lines and comparing them,
  * delta-debugging of disagreeing / failing operation sequences,
  * known-findings handling, replay files, evidence files, VIOLATION lines, exit status.
"""
import fcntl
import hashlib
import importlib
import json
import os
import random
import re
import subprocess
import sys
import time

VERIF = os.path.dirname(os.path.dirname(os.path.abspath(__file__)))
REPO = os.environ.get("VERIF_REPO", "/repo")
LEAN_DIR = os.path.join(VERIF, "lean")
CACHE = os.path.join(VERIF, ".cache")
GUARD = "TORSTENROBITZKI_BLUETOE_VERIF"

ALLOWED_AXIOMS = {"propext", "Quot.sound", "Classical.choice"}
FORBIDDEN_TOKENS = re.compile(
    r"\bsorry\b|\badmit\b|^\s*axiom\s|\bnative_decide\b|\bbv_decide\b|\bimplemented_by\b|\bunsafe\s|maxHeartbeats\s+0\b|\bextern\b",
    re.M)

COMPONENTS = [
    "whitelist", "ring", "notifq", "pduring", "lldata", "l2capsdu", "chanmap", "connev", "instants",
    "adv", "advdata", "llctrl", "l2cap", "sm", "crypto", "boot", "csc",
    "atthandles", "attdisc", "attaccess", "attwq", "cccd", "attnotify",
]


def log(*a):
    print(*a, file=sys.stderr, flush=True)


# --------------------------------------------------------------------------------------------
# component registry
# --------------------------------------------------------------------------------------------
def load_components():
    comps = {}
    sys.path.insert(0, VERIF)
    for name in COMPONENTS:
        if os.path.exists(os.path.join(VERIF, "comp", name + ".py")):
            comps[name] = importlib.import_module("comp." + name)
    # components not in the static list are found as well
    for f in sorted(os.listdir(os.path.join(VERIF, "comp"))):
        if f.endswith(".py") and not f.startswith("_") and f[:-3] not in comps:
            comps[f[:-3]] = importlib.import_module("comp." + f[:-3])
    return comps


def find_property(pid):
    for name, mod in load_components().items():
        if pid in getattr(mod, "PROPS", {}):
            return mod, mod.PROPS[pid]
    return None, None


# --------------------------------------------------------------------------------------------
# processes
# --------------------------------------------------------------------------------------------
def run_proc(cmd, input_text=None, timeout=600, cwd=None, env=None):
    e = dict(os.environ)
    e.setdefault("ASAN_OPTIONS", "detect_leaks=0:abort_on_error=0:exitcode=99")
    e.setdefault("UBSAN_OPTIONS", "print_stacktrace=1:halt_on_error=1:exitcode=98")
    if env:
        e.update(env)
    try:
        p = subprocess.run(cmd, input=input_text, capture_output=True, text=True, timeout=timeout,
                           cwd=cwd, env=e, errors="replace")
        return p.returncode, p.stdout, p.stderr
    except subprocess.TimeoutExpired as ex:
        out = ex.stdout or ""
        if isinstance(out, bytes):
            out = out.decode(errors="replace")
        return -9, out, "TIMEOUT after %ss" % timeout


class Lock:
    def __init__(self, path):
        self.path = path

    def __enter__(self):
        os.makedirs(os.path.dirname(self.path), exist_ok=True)
        self.f = open(self.path, "w")
        fcntl.flock(self.f, fcntl.LOCK_EX)

    def __exit__(self, *a):
        fcntl.flock(self.f, fcntl.LOCK_UN)
        self.f.close()


# --------------------------------------------------------------------------------------------
# Lean: build + audit
# --------------------------------------------------------------------------------------------
def lake_build(targets):
    """build the model library and the given driver executables; returns (ok, log)"""
    with Lock(os.path.join(CACHE, "lake.lock")):
        rc, out, err = run_proc(["lake", "build", "BluetoeModel"] + list(targets), cwd=LEAN_DIR, timeout=3000)
    return rc == 0, (out + err)[-4000:]


def strip_lean_comments(src):
    # remove /- ... -/ (nested) and -- comments; string literals are rare in the model sources
    out, depth, i = [], 0, 0
    while i < len(src):
        if src.startswith("/-", i):
            depth += 1
            i += 2
        elif depth and src.startswith("-/", i):
            depth -= 1
            i += 2
        elif depth:
            if src[i] == "\n":
                out.append("\n")
            i += 1
        elif src.startswith("--", i):
            while i < len(src) and src[i] != "\n":
                i += 1
        else:
            out.append(src[i])
            i += 1
    return "".join(out)


def lean_source_grep(module_dirs):
    """forbidden tokens in the component's Lean sources (comments discarded)"""
    hits = []
    for d in module_dirs:
        base = os.path.join(LEAN_DIR, d)
        paths = []
        if os.path.isdir(base):
            for root, _, files in os.walk(base):
                paths += [os.path.join(root, f) for f in files if f.endswith(".lean")]
        elif os.path.exists(base + ".lean"):
            paths.append(base + ".lean")
        for p in sorted(paths):
            code = strip_lean_comments(open(p).read())
            for m in FORBIDDEN_TOKENS.finditer(code):
                line = code.count("\n", 0, m.start()) + 1
                hits.append("%s:%d: %s" % (os.path.relpath(p, VERIF), line, m.group(0).strip()))
    return hits


def audit_theorems(imports, theorems):
    """#print axioms for every theorem. Returns dict name -> {'ok':bool,'axioms':[...],'msg':str}"""
    os.makedirs(CACHE, exist_ok=True)
    path = os.path.join(CACHE, "audit_%d.lean" % os.getpid())
    with open(path, "w") as f:
        for imp in imports:
            f.write("import %s\n" % imp)
        for t in theorems:
            f.write("#print axioms %s\n" % t)
    rc, out, err = run_proc(["lake", "env", "lean", path], cwd=LEAN_DIR, timeout=900)
    os.unlink(path)
    text = out + err
    res = {}
    for t in theorems:
        short = t
        m = re.search(r"'%s' depends on axioms: \[([^\]]*)\]" % re.escape(short), text, re.S)
        if m:
            ax = [a.strip() for a in m.group(1).replace("\n", " ").split(",") if a.strip()]
            bad = [a for a in ax if a not in ALLOWED_AXIOMS]
            res[t] = {"ok": not bad, "axioms": ax, "msg": "" if not bad else "non-standard axioms: %s" % bad}
        elif re.search(r"'%s' does not depend on any axioms" % re.escape(short), text):
            res[t] = {"ok": True, "axioms": [], "msg": ""}
        else:
            msg = [l for l in text.splitlines() if short.split(".")[-1] in l or "error" in l][:3]
            res[t] = {"ok": False, "axioms": [], "msg": "not found / not checked: " + " | ".join(msg)[:300]}
    return res


# --------------------------------------------------------------------------------------------
# harness build (from the repository's current working tree)
# --------------------------------------------------------------------------------------------
_REPO_HASH = None


def repo_hash():
    """content hash of every source file of the repository under test (not of build output)"""
    global _REPO_HASH
    if _REPO_HASH is None:
        h = hashlib.sha256()
        for top in ("bluetoe", "tests", "examples"):
            for root, dirs, files in os.walk(os.path.join(REPO, top)):
                dirs.sort()
                for f in sorted(files):
                    if f.endswith((".hpp", ".cpp", ".h", ".c", ".hh", ".inc")):
                        p = os.path.join(root, f)
                        h.update(os.path.relpath(p, REPO).encode())
                        with open(p, "rb") as fh:
                            h.update(fh.read())
        _REPO_HASH = h.hexdigest()
    return _REPO_HASH


DEFAULT_INCLUDES = ["", "bluetoe", "bluetoe/link_layer/include", "bluetoe/utility/include", "bluetoe/sm/include"]
DEFAULT_FLAGS = ["-O1", "-g", "-fsanitize=address,undefined", "-fno-sanitize-recover=all", "-fno-omit-frame-pointer", "-w"]


def build_harness(spec):
    """spec: dict(src=..., repo_srcs=[repo relative .cpp/.c], includes=[repo relative dirs],
    abs_includes=[...], flags=[...], std='c++11', c_srcs=[repo relative C files], defines=[...]).
    Returns (path or None, log)."""
    src = os.path.join(VERIF, spec["src"])
    h = hashlib.sha256()
    h.update(repo_hash().encode())
    h.update(json.dumps(spec, sort_keys=True, default=str).encode())
    for root, _, files in os.walk(os.path.join(VERIF, "harness")):
        for f in sorted(files):
            if f.endswith((".cpp", ".hpp", ".h", ".c")):
                with open(os.path.join(root, f), "rb") as fh:
                    h.update(f.encode() + fh.read())
    key = h.hexdigest()[:20]
    name = os.path.splitext(os.path.basename(src))[0]
    outdir = os.path.join(CACHE, "harness")
    os.makedirs(outdir, exist_ok=True)
    exe = os.path.join(outdir, "%s_%s" % (name, key))
    with Lock(os.path.join(CACHE, "harness_%s.lock" % name)):
        if os.path.exists(exe):
            os.utime(exe)
            return exe, "cached"
        # drop stale binaries of the same harness, but keep the three most recently used ones: a
        # concurrent check against another tree (or an earlier state of the tree) may still run them
        old = sorted((f for f in os.listdir(outdir) if f.startswith(name + "_") and not f.endswith((".tmp", ".build"))),
                     key=lambda f: os.path.getmtime(os.path.join(outdir, f)), reverse=True)
        for f in old[3:]:
            try:
                os.unlink(os.path.join(outdir, f))
            except OSError:
                pass
        incs = []
        for i in DEFAULT_INCLUDES + list(spec.get("includes", [])):
            incs += ["-I", os.path.join(REPO, i) if i else REPO]
        for i in spec.get("abs_includes", []):
            incs += ["-I", os.path.join(VERIF, i)]
        incs += ["-I", os.path.join(VERIF, "harness")]
        flags = list(spec.get("flags", DEFAULT_FLAGS)) + ["-D" + GUARD] + ["-D" + d for d in spec.get("defines", [])]
        objs, logs = [], []
        tmp = exe + ".build"
        os.makedirs(tmp, exist_ok=True)
        for c in spec.get("c_srcs", []):
            o = os.path.join(tmp, os.path.basename(c) + ".o")
            cmd = ["gcc", "-c", "-O1", "-g", "-w"] + ["-D" + d for d in spec.get("c_defines", [])] + incs + [os.path.join(REPO, c), "-o", o]
            rc, out, err = run_proc(cmd, timeout=600)
            logs.append(err[-2000:])
            if rc != 0:
                return None, "C compile failed: %s\n%s" % (c, err[-3000:])
            objs.append(o)
        cmd = (["g++", "-std=" + spec.get("std", "c++11")] + flags + incs + [src]
               + [os.path.join(REPO, s) for s in spec.get("repo_srcs", [])]
               + [os.path.join(VERIF, s) for s in spec.get("verif_srcs", [])]
               + objs + ["-o", exe + ".tmp"] + list(spec.get("ldflags", [])))
        rc, out, err = run_proc(cmd, timeout=1800)
        subprocess.run(["rm", "-rf", tmp])
        if rc != 0:
            return None, "harness build failed (%s):\n%s" % (" ".join(cmd[:6]) + " ...", err[-6000:])
        os.rename(exe + ".tmp", exe)
        return exe, "built"


# --------------------------------------------------------------------------------------------
# running sessions through harness and model
# --------------------------------------------------------------------------------------------
def run_sessions(exe, sessions, timeout=900, env=None):
    """sessions: list of list of op lines; every session must begin with an op that resets all
    state. Returns list of per-session dicts {out: [lines], crash: None | str}. A crash (sanitizer
    abort, assertion) ends only the session it occurs in; the remaining sessions are re-run in a
    fresh process."""
    results = [None] * len(sessions)
    start = 0
    while start < len(sessions):
        lines, index = [], []
        for si in range(start, len(sessions)):
            for op in sessions[si]:
                lines.append(op)
                index.append(si)
        rc, out, err = run_proc([exe], "\n".join(lines) + "\n", timeout=timeout, env=env)
        outs = out.split("\n")
        if outs and outs[-1] == "":
            outs.pop()
        n = len(outs)
        pos = 0
        crashed_at = None
        for si in range(start, len(sessions)):
            k = len(sessions[si])
            if pos + k <= n:
                results[si] = {"out": outs[pos:pos + k], "crash": None}
                pos += k
            else:
                crashed_at = si
                got = outs[pos:n]
                results[si] = {"out": got, "crash": classify_crash(rc, err, len(got))}
                break
        if crashed_at is None:
            if rc != 0 and start < len(sessions):
                # died after the last line was answered (e.g. at exit): attribute to last session
                results[len(sessions) - 1]["crash"] = classify_crash(rc, err, len(results[len(sessions) - 1]["out"]))
            break
        start = crashed_at + 1
    return results


def classify_crash(rc, err, at):
    kind = "exit=%s" % rc
    m = re.search(r"ERROR: AddressSanitizer: ([\w-]+)", err)
    if m:
        kind = "ASAN " + m.group(1)
    elif "runtime error:" in err:
        m = re.search(r"runtime error: ([^\n]{0,80})", err)
        kind = "UBSAN " + (m.group(1) if m else "")
    elif "Assertion" in err:
        m = re.search(r"Assertion `([^']{0,80})' failed", err)
        kind = "ASSERT " + (m.group(1) if m else "")
    elif "TIMEOUT" in err:
        kind = "TIMEOUT"
    elif rc in (-11, 139):
        kind = "SEGV"
    return "%s @op %d" % (kind, at)


def compare_sessions(sessions, impl, model, proj=None):
    """returns list of disagreements {session, op_index, op, impl, model}; `proj(op, line)`
    canonicalises / projects a result line before comparison (None = compare verbatim).  A crash
    of the implementation counts as a disagreement at the crashing op (the model never crashes)."""
    dis = []
    for si, ops in enumerate(sessions):
        a, b = impl[si], model[si]
        if b["crash"]:
            dis.append({"session": si, "op_index": len(b["out"]), "op": ops[min(len(b["out"]), len(ops) - 1)],
                        "impl": None, "model": "MODEL DRIVER FAILED: " + b["crash"]})
            continue
        hit = None
        for k, op in enumerate(ops):
            x = a["out"][k] if k < len(a["out"]) else "<crash: %s>" % a["crash"]
            y = b["out"][k] if k < len(b["out"]) else "<missing>"
            px, py = (proj(op, x), proj(op, y)) if proj and k < len(a["out"]) else (x, y)
            if px != py:
                hit = {"session": si, "op_index": k, "op": op, "impl": x, "model": y}
                break
        if hit:
            dis.append(hit)
    return dis


def ddmin(ops, fails, keep_first=1, budget=60):
    """delta debugging on a list of op lines; `fails(ops)` re-runs and says whether the failure
    is still there. The first `keep_first` lines (the reset) are always kept."""
    head, body = ops[:keep_first], ops[keep_first:]
    n = 2
    calls = 0
    while len(body) >= 2 and calls < budget:
        chunk = max(1, len(body) // n)
        reduced = False
        for i in range(0, len(body), chunk):
            cand = body[:i] + body[i + chunk:]
            calls += 1
            if cand != body and fails(head + cand):
                body = cand
                n = max(n - 1, 2)
                reduced = True
                break
            if calls >= budget:
                break
        if not reduced:
            if chunk == 1:
                break
            n = min(len(body), n * 2)
    return head + body


# --------------------------------------------------------------------------------------------
# the per-check context handed to a component's run()
# --------------------------------------------------------------------------------------------
class Ctx:
    def __init__(self, comp, pid, tier, seed):
        self.comp, self.pid, self.tier, self.seed = comp, pid, tier, seed
        self.rng = random.Random((seed * 1000003) ^ int(hashlib.sha256(pid.encode()).hexdigest()[:8], 16))
        self.harness_exe = {}
        self.model_exe = None
        self.notes = []

    @property
    def thorough(self):
        return self.tier == "thorough"

    def harness(self, key="default"):
        return self.harness_exe[key]

    def run_impl(self, sessions, key="default", timeout=1800, env=None):
        return run_sessions(self.harness_exe[key], sessions, timeout=timeout, env=env)

    def run_model(self, sessions, timeout=1800, exe=None):
        return run_sessions(exe or self.model_exe, sessions, timeout=timeout)

    def run_pair(self, sessions, proj=None, key="default"):
        impl = self.run_impl(sessions, key)
        model = self.run_model(sessions)
        return impl, model, compare_sessions(sessions, impl, model, proj)

    def shrink_disagreement(self, ops, proj=None, key="default", keep_first=1):
        def fails(cand):
            i, m, d = self.run_pair([cand], proj, key)
            return bool(d)
        return ddmin(ops, fails, keep_first)

    def shrink(self, ops, fails, keep_first=1, budget=60):
        """generic delta debugging: `fails(ops) -> bool` re-runs whatever exhibits the failure"""
        return ddmin(ops, fails, keep_first, budget)

    def corpus(self, suffix=".ops"):
        """sessions stored under corpus/<pid>/ (run first)"""
        d = os.path.join(VERIF, "corpus", self.pid)
        res = []
        if os.path.isdir(d):
            for f in sorted(os.listdir(d)):
                if f.endswith(suffix):
                    ops = [l.rstrip("\n") for l in open(os.path.join(d, f)) if l.strip() and not l.startswith("#")]
                    res.append((f, ops))
        return res


class Result:
    """what a component's run() returns"""

    def __init__(self):
        self.evaluations = 0            # op lines / cases executed on the implementation
        self.sessions = 0               # histories compared implementation vs model
        self.distinct = set()           # distinct non-trivial cases (hashable descriptors)
        self.rule = ""
        self.samples = []
        self.distribution = {}          # generator / branch distribution for the evidence
        self.disagreements = []         # [{ops:[...], op_index, op, impl, model}]
        self.failures = []              # [{key, what, ops:[...] | input}]  property monitor hits
        self.exhaustive = False
        self.extra = {}

    def count(self, bucket, k=1):
        self.distribution[bucket] = self.distribution.get(bucket, 0) + k


# --------------------------------------------------------------------------------------------
# known findings
# --------------------------------------------------------------------------------------------
def load_known():
    """KNOWN_FINDINGS.json plus per-component files findings.d/*.json (same format); committed,
    never written at run time"""
    res = {"findings": [], "fixed": []}
    paths = [os.path.join(VERIF, "KNOWN_FINDINGS.json")]
    d = os.path.join(VERIF, "findings.d")
    if os.path.isdir(d):
        paths += [os.path.join(d, f) for f in sorted(os.listdir(d)) if f.endswith(".json")]
    for p in paths:
        if os.path.exists(p):
            j = json.load(open(p))
            res["findings"] += j.get("findings", [])
            res["fixed"] += j.get("fixed", [])
    return res


# --------------------------------------------------------------------------------------------
# main entry
# --------------------------------------------------------------------------------------------
def check(pid, tier, seed, replay=None):
    t0 = time.time()
    comp, prop = find_property(pid)
    if comp is None:
        print("unknown property %s" % pid)
        return 2
    os.makedirs(os.path.join(VERIF, "evidence"), exist_ok=True)
    os.makedirs(os.path.join(VERIF, "replays"), exist_ok=True)
    ctx = Ctx(comp, pid, tier, seed)
    violations = []   # (replay_path, suffix)
    known_lines = []
    theorems = list(prop.get("theorems", []))
    witnesses = list(prop.get("witnesses", []))
    obligations = theorems + witnesses
    audit = {}
    proof_problems = []

    # 1. Lean build + audit ---------------------------------------------------------------
    drivers = [comp.DRIVER] if getattr(comp, "DRIVER", None) else []
    drivers += list(getattr(comp, "EXTRA_DRIVERS", []))
    ok, blog = lake_build(drivers)
    if not ok:
        proof_problems.append("lake build failed: " + blog[-1500:])
    else:
        if drivers:
            ctx.model_exe = os.path.join(LEAN_DIR, ".lake", "build", "bin", drivers[0])
        audit = audit_theorems(prop.get("imports", [comp.LEAN_MODULE + ".Props"]), obligations)
        for t, r in audit.items():
            if not r["ok"]:
                proof_problems.append("theorem %s: %s" % (t, r["msg"]))
        for hit in lean_source_grep(getattr(comp, "LEAN_DIRS", [comp.LEAN_MODULE.replace(".", "/")])):
            proof_problems.append("forbidden token " + hit)
        if ctx.thorough and prop.get("leanchecker", True):
            for mod in prop.get("imports", [comp.LEAN_MODULE + ".Props"]):
                rc, out, err = run_proc(["lake", "env", "leanchecker", mod], cwd=LEAN_DIR, timeout=1800)
                if rc != 0:
                    proof_problems.append("leanchecker %s failed: %s" % (mod, (out + err)[-300:]))
                else:
                    ctx.notes.append("leanchecker %s: ok" % mod)

    # 2. harness build ---------------------------------------------------------------------
    build_problems = []
    specs = getattr(comp, "HARNESS", {})
    if "src" in specs:
        specs = {"default": specs}
    wanted = prop.get("harness_keys", list(specs.keys()))
    for key in wanted:
        exe, hlog = build_harness(specs[key])
        if exe is None:
            build_problems.append("harness %s: %s" % (key, hlog))
        else:
            ctx.harness_exe[key] = exe

    # 3. correspondence + monitor -------------------------------------------------------------
    res = Result()
    run_error = None
    if not build_problems and (ctx.model_exe is not None or prop.get("run_without_model")):
        try:
            if replay:
                res = prop["replay"](ctx, replay) if "replay" in prop else prop["run"](ctx, replay_path=replay)
            else:
                res = prop["run"](ctx)
        except Exception as ex:  # a crash of the machinery is reported, never hidden
            import traceback
            run_error = "check machinery failed: %s\n%s" % (ex, traceback.format_exc()[-2500:])

    # 4. verdict ---------------------------------------------------------------------------
    known = load_known()
    known_keys = {f["key"]: f for f in known.get("findings", []) if f.get("property") == pid}
    seen_known = {}
    new_failures = []
    for f in res.failures:
        if f["key"] in known_keys:
            seen_known.setdefault(f["key"], f)
        else:
            new_failures.append(f)
    for k, f in sorted(seen_known.items()):
        line = "KNOWN-FINDING: property=%s %s [%s]" % (pid, known_keys[k]["what"], k)
        known_lines.append(line)
        print(line)

    def write_replay(name, payload):
        p = os.path.join(VERIF, "replays", "%s_%s_seed%d.json" % (pid, name, seed))
        with open(p, "w") as fh:
            json.dump(payload, fh, indent=1, default=str)
        return p

    # distinct new failures by key -> one VIOLATION line each (first example as replay)
    by_key = {}
    for f in new_failures:
        by_key.setdefault(f["key"], f)
    for k, f in sorted(by_key.items()):
        p = write_replay("fail_" + re.sub(r"[^A-Za-z0-9_.-]+", "_", k)[:60],
                         {"property": pid, "kind": "failing-input", "key": k, "what": f.get("what"),
                          "ops": f.get("ops"), "input": f.get("input"), "observed": f.get("observed"),
                          "repo": REPO, "seed": seed, "tier": tier})
        violations.append((p, ""))
    unexplained = []
    if res.disagreements:
        d = res.disagreements[0]
        unexplained.append(("correspondence", {"property": pid, "kind": "correspondence-broken",
                            "correspondence": "%s <-> %s" % (getattr(comp, "HARNESS_DESC", comp.NAME), comp.LEAN_MODULE),
                            "first_disagreement": d, "count": len(res.disagreements),
                            "all": res.disagreements[:20], "seed": seed, "tier": tier, "repo": REPO}))
    if proof_problems:
        unexplained.append(("proof", {"property": pid, "kind": "proof-obligation-broken",
                            "problems": proof_problems, "theorems": obligations}))
    if build_problems:
        unexplained.append(("build", {"property": pid, "kind": "harness-build-failed", "problems": build_problems}))
    if run_error:
        unexplained.append(("machinery", {"property": pid, "kind": "machinery-error", "error": run_error}))
    for name, payload in unexplained:
        p = write_replay(name, payload)
        # a broken proof / correspondence with a concrete failing input found is reported through
        # that input above; without one the brief demands the no-failing-input-found suffix
        violations.append((p, "" if by_key else " no-failing-input-found"))

    for p, suffix in violations:
        print("VIOLATION property=%s replay=%s%s" % (pid, p, suffix))

    # 5. evidence ----------------------------------------------------------------------------
    wall = time.time() - t0
    discharged = sum(1 for t in obligations if audit.get(t, {}).get("ok"))
    axioms = sorted({a for r in audit.values() for a in r.get("axioms", [])})
    level = prop.get("level", "proof")
    level_detail = level
    if level not in ("exploration", "fault_enumeration", "model_checking", "proof", "translation_validation", "other"):
        level = "proof"   # "partial"/"proof-partial": part of the property is proved, the rest is stated in level_text
    cov = {
        "obligations": len(obligations),
        "discharged": discharged,
        "checker_cmd": "cd lean && lake build BluetoeModel && lake env lean <#print axioms of the theorems below>"
                       + ("; lake env leanchecker <module>" if ctx.thorough else ""),
        "trusted_base": ["Lean 4.33.0 kernel", "axioms used by the audited theorems: %s" % (axioms or "none"),
                         "hand-written model %s tied to the code by the correspondence check (differential, see rule)" % comp.LEAN_MODULE,
                         "g++ 12 + ASan/UBSan semantics for the harness"] + list(prop.get("trusted", [])),
        "theorems": theorems,
        "witness_theorems": witnesses,
        "axioms_per_theorem": {t: audit.get(t, {}).get("axioms") for t in obligations},
        "evaluations": int(res.evaluations),
        "distinct_nontrivial": len(res.distinct),
        "traces_validated_against_impl": int(res.sessions),
        "disagreements": len(res.disagreements),
        "rule": res.rule or prop.get("rule", ""),
        "samples": res.samples[:8] if res.samples else ["<no sample: run did not execute>"],
        "distribution": res.distribution,
        "exhaustive": bool(res.exhaustive),
        "level_detail": level_detail,
        "known_findings_seen": sorted(seen_known.keys()),
        "notes": ctx.notes,
        "repo": REPO,
    }
    cov.update(res.extra)
    # schema hygiene: components may put free text into extra keys that the schema types
    if not isinstance(cov.get("exhaustive"), bool):
        cov["exhaustive_note"] = cov.get("exhaustive")
        cov["exhaustive"] = bool(res.exhaustive) or bool(cov["exhaustive_note"])
    for k in ("evaluations", "distinct_nontrivial", "states", "transitions", "traces_validated_against_impl", "obligations", "discharged", "programs", "disagreements_checked"):
        if k in cov and not isinstance(cov[k], int):
            cov[k + "_note"] = cov[k]
            cov[k] = int(cov[k]) if str(cov[k]).isdigit() else 0
    for k in ("explanation", "rule", "checker_cmd"):
        if k in cov and not isinstance(cov[k], str):
            cov[k] = str(cov[k])
    if "samples" in cov and not isinstance(cov["samples"], list):
        cov["samples"] = [cov["samples"]]
    if "trusted_base" in cov and not isinstance(cov["trusted_base"], list):
        cov["trusted_base"] = [str(cov["trusted_base"])]
    ev = {
        "property_id": pid, "tier": tier, "seed": seed, "level": level, "coverage": cov,
        "assumptions": list(prop.get("assumptions", [])),
        "wall_s": round(wall, 2), "violations": len(violations),
    }
    # evidence/ holds runs against /repo itself; runs against another tree (VERIF_REPO=...: seeded
    # changes, scratch worktrees) write to .cache/evidence_alt/ so they can never be mistaken for it
    evdir = os.path.join(VERIF, "evidence") if os.path.realpath(REPO) == "/repo" else os.path.join(CACHE, "evidence_alt")
    os.makedirs(evdir, exist_ok=True)
    with open(os.path.join(evdir, pid + ".json"), "w") as fh:
        json.dump(ev, fh, indent=1, default=str)
    log("[%s] tier=%s seed=%d evals=%d sessions=%d distinct=%d disagreements=%d failures=%d(new %d) proofs=%d/%d wall=%.1fs"
        % (pid, tier, seed, res.evaluations, res.sessions, len(res.distinct), len(res.disagreements),
           len(res.failures), len(new_failures), discharged, len(obligations), wall))
    return 1 if violations else 0
