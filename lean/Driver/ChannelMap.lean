import BluetoeModel.Util.Proto
import BluetoeModel.ChannelMap.Model
open BluetoeModel.Util BluetoeModel.ChannelMap

/-
  new                   fresh channel_map object
  reset <map10hex> <hop>   reset( map, hop )  -> 1 | 0
  remap <map10hex>         reset( map )       -> 1 | 0
  chan <index>             data_channel       -> n | uninit | assert
  table                    data_channel(0..36) -> 37 numbers | uninit
  hop                      hop_
-/

def resStr (s : State) : Res → State × String
  | .oob => (s, "oob")
  | .rejected s' => (s', "0")
  | .ok s' => (s', "1")

def drvStep (s : State) (ws : List String) : State × String :=
  match ws with
  | ["new"] => (init, "ok")
  | ["reset", m, h] =>
      match parseHex m, h.toNat? with
      | some map, some hop => if map.length = 5 then resStr s (reset s map hop) else (s, "bad-op")
      | _, _ => (s, "bad-op")
  | ["remap", m] =>
      match parseHex m with
      | some map => if map.length = 5 then resStr s (resetMap s map) else (s, "bad-op")
      | _ => (s, "bad-op")
  | ["chan", i] =>
      match i.toNat? with
      | some idx =>
          if idx < numChannels then
            match dataChannel s idx with
            | some c => (s, toString c)
            | none => (s, "uninit")
          else (s, "assert")
      | none => (s, "bad-op")
  | ["table"] =>
      match s.table with
      | some t => (s, " ".intercalate (t.map toString))
      | none => (s, "uninit")
  | ["hop"] => (s, toString s.hop)
  | _ => (s, "bad-op")

def main : IO Unit := lineLoop drvStep init
