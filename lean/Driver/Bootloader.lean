import BluetoeModel.Util.Proto
import BluetoeModel.Bootloader.Model
open BluetoeModel.Util BluetoeModel.Bootloader

def effStr : Effect → String
  | .readMem a n => s!"readMem {a} {n}"
  | .startFlash a n v => s!"startFlash {a} {n} {digest v}"
  | .checksum a n => s!"checksum {a} {n}"
  | .publicRead a n => s!"publicRead {a} {n}"
  | .run a => s!"run {a}"
  | .reset => "reset"

def pduStr : Pdu → String
  | .cp v => "cp " ++ toHex v
  | .data v => "data " ++ toHex v
  | .progress => "progress"
  | .nothing => "-"

def outStr (o : Out) : String :=
  if o.oob then "oob" else
  let res := match o.res with
    | none => "none"
    | some 0 => "ok"
    | some c => "err " ++ hexByte (UInt8.ofNat c)
  let effs := if o.effs.isEmpty then "-" else ",".intercalate (o.effs.map effStr)
  res ++ " ; " ++ effs ++ " ; " ++ pduStr o.pdu

def config : String → Option Cfg
  | "0" => some { page := 16, regions := [(0x1008, 0x1020)] }
  | "1" => some { page := 16, regions := [(0x1000, 0x1040), (0x2000, 0x2020)] }
  | "2" => some { page := 1024, regions := [(0x10000, 0x10800)] }
  | _ => none

def parseOp : List String → Option Op
  | ["ctrl", h] => (parseHex h).map Op.ctrl
  | ["data", h] => (parseHex h).map Op.data
  | ["endflash"] => some Op.endflash
  | ["output"] => some Op.output
  | _ => none

def drvStep (st : Cfg × Sys) (ws : List String) : (Cfg × Sys) × String :=
  match ws with
  | ["reset", c] => match config c with
      | some cfg => ((cfg, Sys.init), "ok")
      | none => (st, "bad-op")
  | _ => match parseOp ws with
      | some op =>
        let bad : Bool := match op with
          | .ctrl v => v.length > 20
          | .data v => v.length > 20
          | _ => false
        if bad then (st, "bad-op") else
        let (s', o) := step st.1 st.2 op
        ((st.1, s'), outStr o)
      | none => (st, "bad-op")

def main : IO Unit := lineLoop drvStep ({ page := 16, regions := [(0x1008, 0x1020)] }, Sys.init)
