import BluetoeModel.Util.Proto
import BluetoeModel.Cccd.Parse
open BluetoeModel.Util BluetoeModel.Cccd

def drvStep (s : Option State) (ws : List String) : Option State × String :=
  match ws with
  | "reset" :: _ :: rest =>
      match parseSpec rest with
      | some sp => (some (State.init sp.decl sp.mem), sp.describe)
      | none => (s, "bad-op")
  | _ =>
    match s with
    | none => (s, "bad-op")
    | some st =>
      match ws with
      | ["mem"] => (s, memStr st)
      | _ => match parseOp ws with
          | some op => let (st', o) := step st op; (some st', outStr o)
          | none => (s, "bad-op")

def main : IO Unit := lineLoop drvStep none
