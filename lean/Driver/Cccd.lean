import BluetoeModel.Util.Proto
import BluetoeModel.Cccd.Parse
import BluetoeModel.Cccd.Shape
open BluetoeModel.Util BluetoeModel.Cccd

def drvStep (s : Option State) (ws : List String) : Option State × String :=
  match ws with
  | "reset" :: _ :: rest =>
      match parseSpec rest with
      | some sp =>
          -- the precondition of `cccd_never_oob`, evaluated on the real table
          if declWF sp.decl sp.mem then (some (State.init sp.decl sp.mem), sp.describe)
          else (s, "MODEL-TABLE-NOT-WF")
      | none => (s, "bad-op")
  | _ =>
    match s with
    | none => (s, "bad-op")
    | some st =>
      match ws with
      | ["mem"] => (s, memStr st)
      | _ => match parseOp ws with
          | some op => let (st', o) := step st op; (some st', outStr o)
          | none => (s, "bad-op")

def main : IO Unit := lineLoop drvStep none
