import BluetoeModel.Util.Proto
import BluetoeModel.ConnEvents.Model
open BluetoeModel.Util BluetoeModel.ConnEvents

/- line protocol: see harness/connev.cpp -/

structure Drv where
  cfg  : Cfg
  st   : St
  dead : Bool
  lastEventTime : Nat := 0   -- harness bookkeeping for the honest radio (`hresched`)
  configs : List Cfg := []   -- non-empty: a peripheral_latency_configuration_set<> (cfg 100..102)
  cur : Nat := 0             -- current_configuration_

def cfgOf (n : Nat) : Cfg :=
  if n = 32 then ⟨false, false, false, false, false, true⟩
  else ⟨n.testBit 0, n.testBit 1, n.testBit 2, n.testBit 3, n.testBit 4, false⟩

def eventsOf (n : Nat) : Events :=
  ⟨n.testBit 0, n.testBit 1, n.testBit 2, n.testBit 3, n.testBit 4, n.testBit 5⟩

/-- cfg 100 = set< ignored, strict_plus >, 101 = set< strict, ignored, default >, 102 = set< strict, strict_plus > -/
def setOf (n : Nat) : List Cfg :=
  if n = 100 then [cfgOf 32, cfgOf 20] else if n = 101 then [cfgOf 17, cfgOf 32, cfgOf 31] else [cfgOf 17, cfgOf 20]

def stStr (c : Cfg) (s : St) : String :=
  s!"{s.channelIndex} {s.eventCounter} {s.timeSince} " ++ (if c.pendingTx then toString s.lastLatency else "-")

def nats (ws : List String) : Option (List Nat) :=
  ws.mapM fun w => match w.toNat? with
    | some n => if n < 4294967296 then some n else none
    | none => none

def optNat : Option Nat → String
  | some n => toString n
  | none => "assert"

/-- configuration used for printing: a set always has `last_latency_` -/
def showCfg (d : Drv) : Cfg := if d.configs.isEmpty then d.cfg else asDisarmable d.cfg

def doReset (d : Drv) : Option St :=
  if d.configs.isEmpty then resetState d.cfg d.st else resetStateSet d.configs d.cur d.st

def doPlan (d : Drv) (l : Nat) (e : Events) (i : Nat) (p : Option Nat) : Option St :=
  if d.configs.isEmpty then planNext d.cfg d.st l e i p else planNextSet d.configs d.cur d.st l e i p

def doResched (d : Drv) (rc : Bool × Nat) (i : Nat) : Option Resched :=
  if d.configs.isEmpty then reschedule d.cfg d.st rc i else rescheduleSet d.configs d.cur d.st rc i

def stateful (d : Drv) (r : Option St) : Drv × String :=
  match r with
  | some s => ({ d with st := s }, stStr (showCfg d) s)
  | none => ({ d with dead := true }, "assert")

def reschedStr (d : Drv) (ok now i : Nat) (showNow : Bool) : Drv × String :=
  match doResched d (ok = 1, now) i with
  | some r => ({ d with st := r.st },
      s!"{if r.ret then 1 else 0} {if r.disarm then 1 else 0} {r.pulled} " ++ stStr (showCfg d) r.st
        ++ (if showNow then s!" {now}" else ""))
  | none => ({ d with dead := true }, "assert")

def drvStep (d : Drv) (ws : List String) : Drv × String :=
  match ws with
  | [] => (d, "bad-op")
  | op :: args =>
    match nats args with
    | none => (d, "bad-op")
    | some a =>
      match op, a with
      | "ppm", [u, p] => (d, toString (ppm u p))
      | "add", [x, y] => (d, optNat (dtAdd x y))
      | "sub", [x, y] => (d, optNat (dtSub x y))
      | "mul", [x, y] => (d, optNat (dtMul x y))
      | "div", [x, y] => (d, optNat (dtDiv x y))
      | "cfg", [n] =>
          if n ≤ 32 then ({ cfg := cfgOf n, st := init, dead := false }, "ok")
          else if 100 ≤ n ∧ n ≤ 102 then
            ({ cfg := setCfg (setOf n) 0, st := init, dead := false, configs := setOf n, cur := 0 }, "ok")
          else (d, "bad-op")
      | "select", [k] =>
          if d.dead then (d, "dead")
          else if k < d.configs.length then ({ d with cur := k, cfg := setCfg d.configs k }, "ok") else (d, "bad-op")
      | "reset", [] => if d.dead then (d, "dead") else stateful { d with lastEventTime := 0 } (doReset d)
      | "plan", [l, e, i, p, inst] =>
          if d.dead then (d, "dead")
          else if l ≤ 65535 ∧ e < 64 ∧ p < 2 ∧ inst ≤ 65535 then
            stateful { d with lastEventTime := 0 } (doPlan d l (eventsOf e) i (if p = 1 then some inst else none))
          else (d, "bad-op")
      | "timeout", [i] =>
          if d.dead then (d, "dead")
          else match planAfterTimeout d.st i with
            | some s => ({ d with st := s, lastEventTime := d.st.timeSince }, stStr (showCfg d) s)
            | none => ({ d with dead := true }, "assert")
      | "hresched", [ok, pm, i] =>
          if d.dead then (d, "dead")
          else if ok < 2 ∧ pm ≤ 1000 then
            let planned := d.st.timeSince
            let now := if planned ≥ d.lastEventTime then d.lastEventTime + pm * (planned - d.lastEventTime) / 1000
                       else d.lastEventTime
            if now < 4294967296 then reschedStr d ok now i true else (d, "bad-op")
          else (d, "bad-op")
      | "resched", [ok, now, i] =>
          if d.dead then (d, "dead")
          else if ok < 2 then reschedStr d ok now i false
          else (d, "bad-op")
      | _, _ => (d, "bad-op")

def main : IO Unit := lineLoop drvStep { cfg := cfgOf 0, st := init, dead := true }
