import Std.Data.HashMap
import BluetoeModel.Util.Proto
import BluetoeModel.Ring.Model
/-!
  Line-protocol driver for the ring model (C30); the protocol is described in harness/ring.cpp.

  The harness can only switch threads in front of a shared access, so its scheduling *quantum*
  is one model step, except that the purely local branch step `br` is glued to the `ldW` step
  before it.  The theorems are about the finer model (every interleaving of single steps).
-/
open BluetoeModel.Util BluetoeModel.Ring

def pcOf (s : State) : Tid → PC
  | .prod => s.ppc
  | .cons => s.cpc

def raceNow (s : State) : Bool :=
  !s.pTodo.isEmpty && s.ppc == .data && s.cTodo != 0 && s.cpc == .data && s.pWrite == s.cRead

/-- one scheduler quantum of thread `t`: the new state and the token the harness prints -/
def quantum (s : State) (t : Tid) : State × String :=
  if s.done t then (s, "x") else
  let entered := pcOf s t == .ldR
  let s1 := step s t
  let s2 := if pcOf s1 t == .br then step s1 t else s1
  let ev : String :=
    match t with
    | .prod =>
      if s2.pRes.length > s.pRes.length then
        (if s2.pRes.getLast? == some true then "P1" else "P0")
      else if entered then "Pi" else "."
    | .cons =>
      if s2.cRes.length > s.cRes.length then
        (match s2.cRes.getLast? with
         | some (some v) => "C" ++ toString v
         | _ => "C-")
      else if entered then "Ci" else "."
  (s2, ev ++ (if raceNow s2 then "!" else "") ++ (if s2.oob then "#" else ""))

/-- run thread `t` until it has finished (`fuel` bounds the number of quanta) -/
def finish (t : Tid) : Nat → State → List String → State × List String
  | 0, s, acc => (s, acc)
  | fuel + 1, s, acc =>
    if s.done t then (s, acc) else
      let (s', tok) := quantum s t
      finish t fuel s' (tok :: acc)

/-- sequential drain: `try_pop` until it fails, at most `cap + 2` times -/
def drain : Nat → State → List Val → List Val
  | 0, _, acc => acc.reverse
  | n + 1, s, acc =>
    let (s', _) := finish .cons 8 { s with cTodo := 1, cpc := .ldR } []
    match s'.cRes.getLast? with
    | some (some v) => drain n s' (v :: acc)
    | _ => acc.reverse

def drainStr (s : State) : String :=
  let vs := drain (s.cap + 2) s []
  "d:" ++ (if vs.isEmpty then "-" else ",".intercalate (vs.map toString))

def parseArgs (w : String) : Option (List Val) :=
  if w == "-" then some []
  else (w.splitOn ",").mapM (fun x => match x.toNat? with
    | some v => if v ≤ 1000000 then some v else none
    | none => none)

def parseSched (w : String) : Option (List Tid) :=
  if w == "-" then some []
  else w.toList.mapM (fun c => if c == 'p' then some Tid.prod else if c == 'c' then some Tid.cons else none)

def validCap (n : Nat) : Bool := n == 1 || n == 2 || n == 3 || n == 4 || n == 7

def fuelFor (s : State) : Nat := 5 * (s.pTodo.length + s.cTodo) + 5

def runOp (cap : Nat) (args : List Val) (pops : Nat) (sched : List Tid) : String :=
  let s0 := init cap args pops
  let (s1, toks) := sched.foldl (fun (st : State × List String) t =>
    let (s', tok) := quantum st.1 t; (s', tok :: st.2)) (s0, [])
  let (s2, toks) := finish .prod (fuelFor s1) s1 ("/" :: toks)
  let (s3, toks) := finish .cons (fuelFor s2) s2 toks
  " ".intercalate ((drainStr s3 :: toks).reverse)

abbrev Histo := Std.HashMap String (Nat × String)

def isEvent (t : String) : Bool := t != "." && t != "x" && t != "/"

def schedStr (rev : List Tid) : String :=
  if rev.isEmpty then "-" else
  String.ofList (rev.reverse.map (fun t => if t == Tid.prod then 'p' else 'c'))

/-- depth-first enumeration of every complete schedule (producer first) -/
def enumAll : Nat → State → List String → List Tid → Histo × Nat → Histo × Nat
  | 0, _, _, _, acc => acc
  | fuel + 1, s, toks, sched, (h, n) =>
    if s.done .prod && s.done .cons then
      let key := " ".intercalate ((drainStr s :: toks).reverse)
      let h' := match h[key]? with
        | some (k, first) => h.insert key (k + 1, first)
        | none => h.insert key (1, schedStr sched)
      (h', n + 1)
    else
      let acc1 := if s.done .prod then (h, n) else
        let (s', tok) := quantum s .prod
        enumAll fuel s' (if isEvent tok then tok :: toks else toks) (.prod :: sched) (h, n)
      if s.done .cons then acc1 else
        let (s', tok) := quantum s .cons
        enumAll fuel s' (if isEvent tok then tok :: toks else toks) (.cons :: sched) acc1

def enumOp (cap : Nat) (args : List Val) (pops : Nat) (pre : List Tid) : String :=
  let s0 := init cap args pops
  -- replay the prefix; scheduling a finished thread is an error
  let r : Option (State × List String × List Tid) :=
    pre.foldl (fun st t => match st with
      | none => none
      | some (s, toks, sched) =>
        if s.done t then none else
          let (s', tok) := quantum s t
          some (s', (if isEvent tok then tok :: toks else toks), t :: sched)) (some (s0, [], []))
  match r with
  | none => "bad-prefix"
  | some (s, toks, sched) =>
    let (h, n) := enumAll (fuelFor s0 + 1) s toks sched (({} : Histo), 0)
    let entries := h.toList.toArray.qsort (fun a b => a.1 < b.1)
    entries.foldl (fun out (k, (c, first)) => out ++ " | " ++ k ++ "*" ++ toString c ++ "@" ++ first)
      ("n=" ++ toString n)

def drvStep (u : Unit) (ws : List String) : Unit × String :=
  match ws with
  | [op, c, a, p, sc] =>
    match c.toNat?, parseArgs a, p.toNat?, parseSched sc with
    | some cap, some args, some pops, some sched =>
      if !validCap cap || pops > 64 || args.length > 64 then (u, "bad-op")
      else if op == "run" then (u, runOp cap args pops sched)
      else if op == "enum" then (u, enumOp cap args pops sched)
      else (u, "bad-op")
    | _, _, _, _ => (u, "bad-op")
  | _ => (u, "bad-op")

def main : IO Unit := lineLoop drvStep ()
