import BluetoeModel.Util.Proto
import BluetoeModel.AttHandles.Model
import BluetoeModel.AttHandles.Parse
open BluetoeModel.Util BluetoeModel.AttHandles

def idxStr : Option Nat → String
  | some i => toString i
  | none => "inv"

/-- run-length encoding `v*n,v*n,…` of `f lo … f hi` -/
def rle (f : Nat → String) (lo n : Nat) : String := Id.run do
  let mut out : String := ""
  let mut cur : String := ""
  let mut run : Nat := 0
  for k in [0:n] do
    let v := f (lo + k)
    if run != 0 && v == cur then
      run := run + 1
    else
      if run != 0 then out := out ++ cur ++ "*" ++ toString run ++ ","
      cur := v
      run := 1
  return out ++ cur ++ "*" ++ toString run

def drvStep (d : ServerDecl) (ws : List String) : ServerDecl × String :=
  match ws with
  | "server" :: _ :: rest =>
      match parseDecl rest with
      | some d' => (d', "ok " ++ toString (nAttrs d'))
      | none => (d, "bad-op")
  | ["hbi", i] => match i.toNat? with
      | some k => if k < 100000 then (d, toString (handleByIndex d k)) else (d, "bad-op")
      | none => (d, "bad-op")
  | ["fibh", h] => match h.toNat? with
      | some k => if k ≤ 0xffff then (d, idxStr (firstIndexByHandle d k)) else (d, "bad-op")
      | none => (d, "bad-op")
  | ["ibh", h] => match h.toNat? with
      | some k => if k ≤ 0xffff then (d, idxStr (indexByHandle d k)) else (d, "bad-op")
      | none => (d, "bad-op")
  | ["sweep", a, b] => match a.toNat?, b.toNat? with
      | some x, some y =>
          if x ≤ y && y ≤ 0xffff then
            (d, "f " ++ rle (fun h => idxStr (firstIndexByHandle d h)) x (y - x + 1)
              ++ " i " ++ rle (fun h => idxStr (indexByHandle d h)) x (y - x + 1))
          else (d, "bad-op")
      | _, _ => (d, "bad-op")
  | ["acc", hs] => match hs.toNat? with
      | some h =>
          if h ≤ 0xffff then
            let err := fun (op : UInt8) (code : UInt8) => toHex [0x01, op, lo h, hi h, code]
            let rd := match accessIndex d h with
              | none => "inv"
              | some i => match (attrs d)[i]? with
                  | some a => (match a.value with
                      | some v => "ok:" ++ toHex (v.take 22)
                      | none => "err@" ++ hex16 h)
                  | none => "model-oob"
            let wr := match accessIndex d h with
              | none => "inv"
              | some _ => "acc@" ++ hex16 h
            let fi := if h = 0 then err 0x04 0x01 else match findInfoIndex d h with
              | none => err 0x04 0x0A
              | some i => match (attrs d)[i]? with
                  | some a => toHex ([0x05, if a.uuid.is128 then 0x02 else 0x01, lo (handleByIndex d i), hi (handleByIndex d i)] ++ a.uuid.bytes)
                  | none => "model-oob"
            (d, "r:" ++ rd ++ " b:" ++ rd ++ " w:" ++ wr ++ " f:" ++ fi)
          else (d, "bad-op")
      | none => (d, "bad-op")
  | ["attr", i] => match i.toNat? with
      | some k => match (attrs d)[k]? with
          | some a =>
              let (rc, v) := a.readStr
              (d, toString (handleByIndex d k) ++ " " ++ hex16 a.uuid.attr16 ++ " " ++ rc ++ " " ++ v)
          | none => (d, "bad-op")
      | none => (d, "bad-op")
  | _ => (d, "bad-op")

def main : IO Unit := lineLoop drvStep []
