import BluetoeModel.Util.Proto
import BluetoeModel.L2capSdu.Model
open BluetoeModel.Util BluetoeModel.L2capSdu

def rxState (s : S) : String :=
  let cap := s.cfg.cap
  let inv := s.rx.used ≤ cap && s.rx.size ≤ cap && s.rx.used + s.rx.size ≤ cap
  s!" rs={s.rx.size} ru={s.rx.used} inv={boolStr inv}"

def txState (s : S) : String := s!" ts={s.tx.size} tu={s.tx.used}"

def sentStr (old new : S) : String :=
  let l := new.tx.sent.drop old.tx.sent.length
  " tx=" ++ (if l.isEmpty then "-" else ",".intercalate (l.map toHex))

def gotStr : Got → String
  | .none => "none"
  | .pdu p => "pdu " ++ toHex p
  | .sdu p => "sdu " ++ toHex p

def render (old new : S) : Out → String
  | .ok => "ok"
  | .next g cb => gotStr g ++ s!" q={new.rx.rxq.length} cb={cb}" ++ rxState new ++ sentStr old new
  | .free u => (if u then "underflow" else "ok") ++ s!" q={new.rx.rxq.length}" ++ rxState new
  | .send a => (if a then "ok" else "full") ++ sentStr old new ++ txState new
  | .pump g => s!"got={g}" ++ sentStr old new ++ txState new

def configs : List (Nat × Nat) := [(24, 0), (24, 1), (65, 1), (100, 1), (247, 0)]

def parseOp (c : Cfg) : List String → Option Op
  | ["rx", h] => do
      let p ← parseHex h
      if p.length < c.llOverhead then none else some (.rx p)
  | ["next"] => some .next
  | ["free"] => some .free
  | ["maxtx", n] => n.toNat?.map .maxTx
  | ["bufs", n] => n.toNat?.map .bufs
  | ["send", h] => do
      let f ← parseHex h
      let len ← l2capLen? f
      if f.length - 4 > c.mtu || len > c.mtu then none else some (.send f)
  | ["pump", n] => n.toNat?.map .pump
  | ["llsend", h] => do
      let p ← parseHex h
      if p.length < c.llOverhead then none else some (.llsend p)
  | _ => none

def drvStep1 (s : S) (ws : List String) : S × String :=
  match ws with
  | ["reset", m, o, x] =>
      match m.toNat?, o.toNat?, x.toNat? with
      | some m, some o, some x =>
          if configs.contains (m, o) then (S.init { mtu := m, ovh := o } x, "ok") else (s, "bad-op")
      | _, _, _ => (s, "bad-op")
  | _ =>
    if s.rx.oob || s.tx.fault then (s, "OOB") else
    match parseOp s.cfg ws with
    | some op =>
        let (s', o) := step s op
        if s'.rx.oob || s'.tx.fault then (s', "OOB")
        else
          let str := match op, o with
            | .send _, .send false => "busy"
            | _, _ => render s s' o
          (s', str)
    | none => (s, "bad-op")

def drvStep (s : S) (ws : List String) : S × String :=
  match ws with
  | ["take"] =>
      -- what the link layer does: next, and free if something was handed out
      let (s1, o1) := drvStep1 s ["next"]
      if o1.startsWith "none" || o1 == "OOB" then (s1, o1)
      else let (s2, o2) := drvStep1 s1 ["free"]; (s2, o1 ++ " | " ++ o2)
  | _ => drvStep1 s ws

def main : IO Unit := lineLoop drvStep (S.init { mtu := 65, ovh := 0 } 29)
