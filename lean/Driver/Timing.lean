import BluetoeModel.Util.Proto
import BluetoeModel.Timing.Model
open BluetoeModel.Util BluetoeModel.Timing

def phaseStr : Phase → String
  | .advertising => "advertising"
  | .connecting => "connecting"
  | .connected => "connected"
  | .changed => "changed"

/-- same format as `state_line()` of harness/timing.cpp; `sched` after an op that did not schedule
    anything is reported by the harness relative to the op, see `advLine` -/
def stateLine (s : LL) : String :=
  if s.phase = .advertising then s!"adv reason={s.reason} sched={if s.advSched then 1 else 0}"
  else
    let inst := match s.pending with
      | some (_, i) => s!" inst={i}"
      | none => ""
    s!"st={phaseStr s.phase} E={s.counter} ts={s.timeSince} ws={s.tp.winSize} wo={s.tp.winOffset} iv={s.tp.interval} lat={s.tp.latency} to={s.tp.timeoutUs} sca={s.sca} proc={s.proc} pend={if s.pending.isSome then 1 else 0}{inst} win={s.win.1},{s.win.2.1},{s.win.2.2}"

def nats (ws : List String) : Option (List Nat) := ws.mapM (·.toNat?)

def cfgOf (n : Nat) : BluetoeModel.ConnEvents.Cfg :=
  { pendingTx := false, unacked := false, rxNotEmpty := false, txNotEmpty := false, rxMoreData := false,
    listenAlways := n % 2 = 1 }

def apply (st : Option LL) (applicable : LL → Bool) (op : Op) : Option LL × String :=
  match st with
  | some s =>
      if applicable s then
        match step s op with
        | some s' => (some s', stateLine s')
        | none => (none, "assert")
      else (st, "bad-op")
  | none => (st, "bad-op")

def drvStep (st : Option LL) (ws : List String) : Option LL × String :=
  match ws with
  | ["reset", c] =>
      match c.toNat? with
      | some n => if n < 4 then let s := init (cfgOf n) (if n / 2 = 1 then 20 else 500); (some s, stateLine s) else (st, "bad-op")
      | none => (st, "bad-op")
  | "connect" :: args =>
      match nats args with
      | some [ws, wo, iv, lat, to, sca, hop] =>
          if ws > 0xff ∨ wo > 0xffff ∨ iv > 0xffff ∨ lat > 0xffff ∨ to > 0xffff ∨ sca > 7 ∨ hop < 5 ∨ hop > 16 then (st, "bad-op")
          else match st with
            | some s =>
                if s.phase ≠ .advertising then (st, "bad-op")
                else if !s.advSched then (st, "stalled")
                else apply st (fun _ => true) (.connect ⟨ws, wo, iv, lat, to⟩ sca)
            | none => (st, "bad-op")
      | _ => (st, "bad-op")
  | "upd" :: args =>
      match nats args with
      | some [ws, wo, iv, lat, to, d] =>
          if ws > 0xff ∨ wo > 0xffff ∨ iv > 0xffff ∨ lat > 0xffff ∨ to > 0xffff ∨ d > 0xffff then (st, "bad-op")
          else apply st (fun s => s.phase ≠ .advertising && s.pending.isNone) (.upd ⟨ws, wo, iv, lat, to⟩ d)
      | _ => (st, "bad-op")
  | ["ev"] => apply st (fun s => s.phase ≠ .advertising) .ev
  | ["to"] => apply st (fun s => s.phase ≠ .advertising) .lost
  | ["proc", u] =>
      match u.toNat? with
      | some n => if n ≤ 0xffffffff then apply st (fun s => s.phase ≠ .advertising) (.setProc n) else (st, "bad-op")
      | none => (st, "bad-op")
  | _ => (st, "bad-op")

def main : IO Unit := lineLoop drvStep none
