import BluetoeModel.Util.Proto
import BluetoeModel.PduRing.Model
open BluetoeModel.Util BluetoeModel.PduRing

structure DrvState where
  L : Layout
  r : Ring

def outStr : Out → String
  | .alloc none => "none"
  | .alloc (some o) => toString o
  | .pushed o f e => s!"{o} {f} {e}"
  | .full => "none"
  | .peek none => "none"
  | .peek (some (o, n, bytes)) => s!"{o} {n} {toHex bytes}"
  | .popped f e => s!"{f} {e}"
  | .more b => boolStr b

def parseOp : List String → Option Op
  | ["alloc", n] => n.toNat?.map Op.alloc
  | ["push", n, d] => do
      let k ← n.toNat?
      let bytes ← parseHex d
      pure (Op.push k bytes)
  | ["peek"] => some Op.peek
  | ["pop"] => some Op.pop
  | ["more"] => some Op.more
  | _ => none

def layoutOf : Nat → Option Layout
  | 0 => some ⟨0⟩     -- default_pdu_layout
  | 1 => some ⟨1⟩     -- test::layout_with_overhead<1>
  | 2 => some ⟨1⟩     -- nrf_details::encrypted_pdu_layout
  | 3 => some ⟨3⟩     -- test::layout_with_overhead<3>
  | _ => none

def drvStep (s : DrvState) (ws : List String) : DrvState × String :=
  match ws with
  | ["reset", n, l, f] =>
      match n.toNat?, l.toNat?.bind layoutOf, f.toNat? with
      | some size, some L, some fill =>
          if fill < 256 then
            match reset size (List.replicate size (UInt8.ofNat fill)) with
            | some r => ({ L := L, r := r }, "ok")
            | none => (s, "ub")
          else (s, "bad-op")
      | _, _, _ => (s, "bad-op")
  | ["mem"] => (s, toHex s.r.mem)
  | _ =>
      match parseOp ws with
      | none => (s, "bad-op")
      | some op =>
          match step s.L s.r op with
          | .ok r' o => ({ s with r := r' }, outStr o)
          | .pre => (s, "pre")
          | .ub => (s, "ub")

def main : IO Unit :=
  lineLoop drvStep { L := ⟨0⟩, r := { size := 29, mem := List.replicate 29 0, front := 0, end_ := 0 } }
