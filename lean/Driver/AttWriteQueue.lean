import BluetoeModel.Util.Proto
import BluetoeModel.Cccd.Parse
import BluetoeModel.AttWriteQueue.Model
import BluetoeModel.Cccd.Shape
open BluetoeModel.Util BluetoeModel.Cccd BluetoeModel.AttWriteQueue

def queueStr (s : BluetoeModel.AttWriteQueue.State) : String :=
  match s.base.decl.queueSize with
  | none => "none"
  | some _ =>
      let owner := match s.queue.owner with | none => "-" | some c => toString c
      s!"owner={owner} end={s.queue.buf.length} data={toHex s.queue.buf}"

def drvStep (s : Option BluetoeModel.AttWriteQueue.State) (ws : List String) :
    Option BluetoeModel.AttWriteQueue.State × String :=
  match ws with
  | "reset" :: _ :: rest =>
      match parseSpec rest with
      | some sp =>
          -- the precondition of `never_oob` / `queue_representation`, evaluated on the real table
          if declWF sp.decl sp.mem then (some (BluetoeModel.AttWriteQueue.State.init sp.decl sp.mem), sp.describe)
          else (s, "MODEL-TABLE-NOT-WF")
      | none => (s, "bad-op")
  | _ =>
    match s with
    | none => (s, "bad-op")
    | some st =>
      match ws with
      | ["mem"] => (s, memStr st.base)
      | ["q"] => (s, queueStr st)
      | _ => match parseOp ws with
          | some op => let (st', o) := BluetoeModel.AttWriteQueue.step st op; (some st', outStr o)
          | none => (s, "bad-op")

def main : IO Unit := lineLoop drvStep none
