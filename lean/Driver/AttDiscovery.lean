import BluetoeModel.Util.Proto
import BluetoeModel.AttHandles.Model
import BluetoeModel.AttHandles.Parse
import BluetoeModel.AttDiscovery.Model
open BluetoeModel.Util BluetoeModel.AttHandles BluetoeModel.AttDiscovery

def tableStr (db : Db) : String :=
  " ".intercalate (db.tbl.map (fun p =>
    let (rc, v) := p.2.readStr
    toString p.1 ++ ":" ++ hex16 p.2.uuid.attr16 ++ ":" ++ rc ++ ":" ++ v))

def drvStep (db : Db) (ws : List String) : Db × String :=
  match ws with
  | "server" :: _ :: rest =>
      match parseDecl rest with
      | some d => (ofDecl d, "ok " ++ toString (nAttrs d))
      | none => (db, "bad-op")
  | ["table"] => (db, tableStr db)
  | ["pdu", m, hex] =>
      match m.toNat?, parseHex hex with
      | some mtu, some pdu =>
          if 23 ≤ mtu && mtu ≤ 300 && !pdu.isEmpty then
            match discover db mtu pdu with
            | some r => (db, toHex r)
            | none => (db, "model-oob")
          else (db, "bad-op")
      | _, _ => (db, "bad-op")
  | _ => (db, "bad-op")

def main : IO Unit := lineLoop drvStep ⟨[], []⟩
