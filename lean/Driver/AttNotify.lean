import BluetoeModel.Util.Proto
import BluetoeModel.AttNotify.Model
open BluetoeModel.Util BluetoeModel.AttNotify
open BluetoeModel.NotifQueue (Kind)

/-! line protocol of the attnotify component, see harness/attnotify.cpp -/

def splitNat (sep : String) (s : String) : Option (List Nat) :=
  if s == "-" then some [] else (s.splitOn sep).mapM String.toNat?

def parseChar (s : String) : Option CharDecl :=
  match (s.splitOn "/").mapM String.toNat? with
  | some [uuid, cell, size, r, n, i, extra] =>
    some { uuid, cell, size, readable := r != 0, notify := n != 0, indicate := i != 0, extra }
  | _ => none

def parseService (s : String) : Option ServiceDecl :=
  match s.splitOn ":" with
  | [uuid, nsvc, prio, chars] => do
    let u ← uuid.toNat?
    let n ← nsvc.toNat?
    let p ← splitNat "." prio
    let cs ← if chars == "-" then some [] else (chars.splitOn "|").mapM parseChar
    pure { uuid := u, nSvcAttrs := n, prio := p, chars := cs }
  | _ => none

def parseDecl : List String → Option ServerDecl
  | mtu :: prio :: handles :: svcs => do
    let m ← mtu.toNat?
    let p ← splitNat "," prio
    let h ← splitNat "," handles
    let ss ← svcs.mapM parseService
    pure { services := ss, prio := p, mtu := m, handles := h }
  | _ => none

def natList (l : List Nat) : String := if l.isEmpty then "-" else ",".intercalate (l.map toString)

def ndStr : Option NotifData → String
  | some nd => s!"{nd.attrIndex}:{nd.cccdIndex}"
  | none => "x"

def tableStr (d : ServerDecl) : String :=
  let wcp := withCccdPosition d
  let srt := (List.range (sorted d).length).map fun i =>
    let nd := findByIndex d i
    let h := match d.handles[nd.attrIndex]? with | some h => toString h | none => "x"
    let p := match (cccdIndices d)[i]? with | some p => toString p | none => "x"
    s!"{p}:{nd.attrIndex}:{h}"
  let vals := wcp.map fun e => ndStr (findByValue d e.char.cell)
  let uuids := wcp.map fun e => ndStr ((findCharByUuid d e.char.uuid).bind (findByType d))
  let flagIdx := wcp.map fun e => cccdFlagIndex d e.cccdPos
  let lay := (attrLayout d).map fun p => p.2 + 1
  let j (l : List String) := if l.isEmpty then "-" else ",".intercalate l
  s!"n={wcp.length} sizes={natList (numbers d)} sorted={j srt} val={j vals} uuid={j uuids} flag={natList flagIdx} layout={natList lay}"

structure Drv where
  decl : ServerDecl
  st   : State

def outStr : Out → String
  | .bool b => boolStr b
  | .pdu p => toHex p
  | .ok => "ok"
  | .nat n => toString n
  | .bad => "bad-op"
  | .oob => "OOB"

def parseKind (s : String) : Option Kind :=
  if s == "n" then some .notification else if s == "i" then some .indication else none

def parseOp : List String → Option Op
  | ["sub", c, p, v] => do pure (.subscribe (← c.toNat?) (← p.toNat?) (← v.toNat?))
  | ["mtu", c, m] => do pure (.mtu (← c.toNat?) (← m.toNat?))
  | ["set", cell, hex] => do pure (.setCell (← cell.toNat?) (← parseHex hex))
  | ["nv", c, cell, k] => do pure (.request (← c.toNat?) (.byValue (← cell.toNat?)) (← parseKind k))
  | ["nu", c, u, k] => do pure (.request (← c.toNat?) (.byUuid (← u.toNat?)) (← parseKind k))
  | ["out", c, size] => do pure (.output (← c.toNat?) (← size.toNat?))
  | ["conf", c] => do pure (.confirm (← c.toNat?))
  | _ => none

def drvStep (s : Drv) (ws : List String) : Drv × String :=
  match ws with
  | ["reset", _] => ({ s with st := State.init s.decl [] 0 }, "ok")
  | "def" :: rest =>
    match parseDecl rest with
    | some d => ({ decl := d, st := State.init d [] 2 }, "ok")
    | none => (s, "bad-op")
  | "cells" :: rest =>
    match rest.mapM parseHex with
    | some cs => ({ s with st := State.init s.decl cs 2 }, "ok")
    | none => (s, "bad-op")
  | ["table"] => (s, tableStr s.decl)
  | _ =>
    match parseOp ws with
    | some op => let (st', o) := step s.decl s.st op; ({ s with st := st' }, outStr o)
    | none => (s, "bad-op")

def main : IO Unit :=
  lineLoop drvStep { decl := { services := [], prio := [], mtu := 23, handles := [] }, st := State.init default [] 0 }
