import BluetoeModel.Util.Proto
import BluetoeModel.LlData.Model
open BluetoeModel.Util BluetoeModel.LlData

/-! line protocol driver for the `lldata` component; see harness/lldata.cpp for the op list.
    Ops that allocate carry the outcome observed on the real rings as a last word `a=0|1`
    (the rings are abstracted, see Model.lean). -/

def pduBytes (x : Pdu) : List UInt8 :=
  let b0 := x.llid % 4 + (if x.nesn then 4 else 0) + (if x.sn then 8 else 0)
            + (if x.md then 16 else 0) + 32 * (x.rfu % 8)
  UInt8.ofNat b0 :: UInt8.ofNat x.body.length :: x.body

def pduHex (x : Pdu) : String := toHex (pduBytes x)

def parsePdu (s : String) : Option Pdu :=
  match parseHex s with
  | some (b0 :: b1 :: body) =>
      let n := b0.toNat
      if b1.toNat = body.length then
        some { llid := n % 4, nesn := n / 4 % 2 = 1, sn := n / 8 % 2 = 1, md := n / 16 % 2 = 1,
               rfu := n / 32, body := body }
      else none
  | _ => none

def parseFault : String → Option Fault
  | "ok" => some .ok | "lost" => some .lost | "crc" => some .crc | "mic" => some .mic
  | _ => none

def parseAlloc : List String → Bool × List String
  | ws => match ws.getLast? with
    | some "a=0" => (false, ws.dropLast)
    | some "a=1" => (true, ws.dropLast)
    | _ => (true, ws)

def optPdu : Option Pdu → String
  | some r => pduHex r
  | none => "none"

def cnt (p : P) : String := s!"rc={p.rxCnt} tc={p.txCnt}"

def sysStep (s : Sys) (ws0 : List String) : Sys × String :=
  let (a, ws) := parseAlloc ws0
  match ws with
  | ["reset", _] => (Sys.init, "ok")
  | ["tx", llid, body] =>
      match llid.toNat?, parseHex body with
      | some l, some b =>
          if l < 4 ∧ b ≠ [] then (s.step (.tx (l, b) a), if a then "ok" else "full") else (s, "bad-op")
      | _, _ => (s, "bad-op")
  | ["free"] =>
      match nextReceived s.p with
      | none => (s, "none")
      | some x => (s.step .free, pduHex x)
  | ["stop"] => (s.step .stop, "ok")
  | ["pending"] => (s, boolStr (pendingOutgoing s.p))
  | ["nt"] => let (p', r) := nextTransmit s.p; ({ s with p := p' }, s!"r={pduHex r} {cnt p'}")
  | ["state"] =>
      let p := s.p
      (s, s!"sn={boolStr p.sn} nesn={boolStr p.nesn} ne={boolStr p.nextEmpty} es={boolStr (p.nextEmpty && p.emptySn)} st={boolStr p.stopped}")
  | ["rx", f, pdu] =>
      match parseFault f, parsePdu pdu with
      | some f, some x =>
          let (p', r) := radioEvent s.p f a x
          ({ s with p := p' }, s!"a={boolStr a} r={optPdu r} {cnt p'}")
      | _, _ => (s, "bad-op")
  | ["ev", f1, f2, llid, body] =>
      match parseFault f1, parseBool f2, llid.toNat?, parseHex body with
      | some f1, some f2, some l, some b =>
          if l < 4 then
            let x := (cSend s.c (l, b)).2
            let r := (radioEvent s.p f1 a x).2
            let s' := s.step (.ev (l, b) f1 f2 a)
            (s', s!"a={boolStr a} c={pduHex x} r={optPdu r} {cnt s'.p} cs={boolStr s'.c.sn}{boolStr s'.c.nesn} cd={s'.c.done.length} cg={s'.c.got.length}")
          else (s, "bad-op")
      | _, _, _, _ => (s, "bad-op")
  | ["cnt", n, k] =>
      -- counter::increment applied k times to the 40 bit value n, then counter::copy_to
      match n.toNat?, k.toNat? with
      | some n, some k =>
          if n < 1099511627776 ∧ k ≤ 64 then
            let c0 : Counter := { low := n % 4294967296, high := n / 4294967296 }
            let c := (List.range k).foldl (fun c _ => c.increment) c0
            (s, toHex (c.bytes.map UInt8.ofNat))
          else (s, "bad-op")
      | _, _ => (s, "bad-op")
  | _ => (s, "bad-op")

/-! ### harness key "nrf52": the CCM configuration of the nRF52 binding next to the buffer -/

structure Drv where
  sys : Sys
  ccm : Ccm
  enc : Bool      -- an `enc` op was seen since `reset`: exchanges report the nonces

def Drv.init : Drv := { sys := Sys.init, ccm := Ccm.init, enc := false }

def nonceStr : Option Nonce → String
  | none => "plain"
  | some (c, d, iv) => s!"{toHex (c.map UInt8.ofNat)}:{d}:{toHex (iv.map UInt8.ofNat)}"

def applyN (n : Nat) (f : Ccm → Ccm) (h : Ccm) : Ccm := (List.range n).foldl (fun h _ => f h) h

/-- the answer PDU in an `rx` / `ev` output line (`r=<hex>` or `r=none`) -/
def answerLen (line : String) : Option Nat :=
  match (line.splitOn " ").filter (·.startsWith "r=") with
  | w :: _ =>
      match parseHex ((w.drop 2).toString) with
      | some (_ :: len :: _) => some len.toNat
      | _ => none
  | [] => none

def drvStep (d : Drv) (ws0 : List String) : Drv × String :=
  match ws0 with
  | ["enc", "setup", ivm, ivs] =>
      match parseHex ivm, parseHex ivs with
      | some a, some b =>
          if a.length = 4 ∧ b.length = 4 then
            let h := d.ccm.setup (a.map (·.toNat)) (b.map (·.toNat))
            ({ d with ccm := h, enc := true }, s!"iv={toHex (h.iv.map UInt8.ofNat)}")
          else (d, "bad-op")
      | _, _ => (d, "bad-op")
  | ["enc", "rx"] => ({ d with ccm := d.ccm.configure true false, enc := true }, "ok")
  | ["enc", "rxtx"] => ({ d with ccm := d.ccm.configure true true, enc := true }, "ok")
  | ["enc", "tx"] => ({ d with ccm := d.ccm.configure false true, enc := true }, "ok")
  | ["enc", "off"] => ({ d with ccm := d.ccm.configure false false, enc := true }, "ok")
  | _ =>
      let exchange := match ws0 with
        | "rx" :: _ => true
        | "ev" :: _ => true
        | _ => false
      let (s', line) := sysStep d.sys ws0
      if line = "bad-op" then (d, line)
      else
        let isReset := match ws0 with
          | "reset" :: _ => true
          | _ => false
        if isReset then ({ Drv.init with sys := s' }, line)
        else
          -- src: nrf52.hpp radio_interrupt_handler: configure_receive_train before the reception,
          -- the counter callbacks from received() / acknowledge(), configure_final_transmit( answer )
          let (h1, rn) := if exchange then d.ccm.receiveTrain else (d.ccm, none)
          let h2 := applyN (s'.p.txCnt - d.sys.p.txCnt) Ccm.incTx (applyN (s'.p.rxCnt - d.sys.p.rxCnt) Ccm.incRx h1)
          if exchange then
            match answerLen line with
            | some len =>
                let (h3, tn) := h2.finalTransmit len
                ({ d with sys := s', ccm := h3 }, if d.enc then s!"{line} rn={nonceStr rn} tn={nonceStr tn}" else line)
            | none => ({ d with sys := s', ccm := h2 }, if d.enc then s!"{line} rn={nonceStr rn} tn=-" else line)
          else ({ d with sys := s', ccm := h2 }, line)

def main : IO Unit := lineLoop drvStep Drv.init
