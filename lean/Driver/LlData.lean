import BluetoeModel.Util.Proto
import BluetoeModel.LlData.Model
open BluetoeModel.Util BluetoeModel.LlData

/-! line protocol driver for the `lldata` component; see harness/lldata.cpp for the op list.
    Ops that allocate carry the outcome observed on the real rings as a last word `a=0|1`
    (the rings are abstracted, see Model.lean). -/

def pduBytes (x : Pdu) : List UInt8 :=
  let b0 := x.llid % 4 + (if x.nesn then 4 else 0) + (if x.sn then 8 else 0)
            + (if x.md then 16 else 0) + 32 * (x.rfu % 8)
  UInt8.ofNat b0 :: UInt8.ofNat x.body.length :: x.body

def pduHex (x : Pdu) : String := toHex (pduBytes x)

def parsePdu (s : String) : Option Pdu :=
  match parseHex s with
  | some (b0 :: b1 :: body) =>
      let n := b0.toNat
      if b1.toNat = body.length then
        some { llid := n % 4, nesn := n / 4 % 2 = 1, sn := n / 8 % 2 = 1, md := n / 16 % 2 = 1,
               rfu := n / 32, body := body }
      else none
  | _ => none

def parseFault : String → Option Fault
  | "ok" => some .ok | "lost" => some .lost | "crc" => some .crc | "mic" => some .mic
  | _ => none

def parseAlloc : List String → Bool × List String
  | ws => match ws.getLast? with
    | some "a=0" => (false, ws.dropLast)
    | some "a=1" => (true, ws.dropLast)
    | _ => (true, ws)

def optPdu : Option Pdu → String
  | some r => pduHex r
  | none => "none"

def cnt (p : P) : String := s!"rc={p.rxCnt} tc={p.txCnt}"

def drvStep (s : Sys) (ws0 : List String) : Sys × String :=
  let (a, ws) := parseAlloc ws0
  match ws with
  | ["reset", _] => (Sys.init, "ok")
  | ["tx", llid, body] =>
      match llid.toNat?, parseHex body with
      | some l, some b =>
          if l < 4 ∧ b ≠ [] then (s.step (.tx (l, b) a), if a then "ok" else "full") else (s, "bad-op")
      | _, _ => (s, "bad-op")
  | ["free"] =>
      match nextReceived s.p with
      | none => (s, "none")
      | some x => (s.step .free, pduHex x)
  | ["stop"] => (s.step .stop, "ok")
  | ["pending"] => (s, boolStr (pendingOutgoing s.p))
  | ["nt"] => let (p', r) := nextTransmit s.p; ({ s with p := p' }, s!"r={pduHex r} {cnt p'}")
  | ["state"] =>
      let p := s.p
      (s, s!"sn={boolStr p.sn} nesn={boolStr p.nesn} ne={boolStr p.nextEmpty} es={boolStr (p.nextEmpty && p.emptySn)} st={boolStr p.stopped}")
  | ["rx", f, pdu] =>
      match parseFault f, parsePdu pdu with
      | some f, some x =>
          let (p', r) := radioEvent s.p f a x
          ({ s with p := p' }, s!"a={boolStr a} r={optPdu r} {cnt p'}")
      | _, _ => (s, "bad-op")
  | ["ev", f1, f2, llid, body] =>
      match parseFault f1, parseBool f2, llid.toNat?, parseHex body with
      | some f1, some f2, some l, some b =>
          if l < 4 then
            let x := (cSend s.c (l, b)).2
            let r := (radioEvent s.p f1 a x).2
            let s' := s.step (.ev (l, b) f1 f2 a)
            (s', s!"a={boolStr a} c={pduHex x} r={optPdu r} {cnt s'.p} cs={boolStr s'.c.sn}{boolStr s'.c.nesn} cd={s'.c.done.length} cg={s'.c.got.length}")
          else (s, "bad-op")
      | _, _, _, _ => (s, "bad-op")
  | ["cnt", n, k] =>
      -- counter::increment applied k times to the 40 bit value n, then counter::copy_to
      match n.toNat?, k.toNat? with
      | some n, some k =>
          if n < 1099511627776 ∧ k ≤ 64 then
            let c0 : Counter := { low := n % 4294967296, high := n / 4294967296 }
            let c := (List.range k).foldl (fun c _ => c.increment) c0
            (s, toHex (c.bytes.map UInt8.ofNat))
          else (s, "bad-op")
      | _, _ => (s, "bad-op")
  | _ => (s, "bad-op")

def main : IO Unit := lineLoop drvStep Sys.init
