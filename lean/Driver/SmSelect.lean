import BluetoeModel.Util.Proto
import BluetoeModel.SmSelect.Model
open BluetoeModel.Util BluetoeModel.SmSelect

def cfgIo : Nat → Option LocalIo
  | 0 => some ⟨.noInput, .noOutput⟩
  | 1 => some ⟨.yesNo, .noOutput⟩
  | 2 => some ⟨.keyboard, .noOutput⟩
  | 3 => some ⟨.noInput, .numeric⟩
  | 4 => some ⟨.yesNo, .numeric⟩
  | 5 => some ⟨.keyboard, .numeric⟩
  | _ => none

def mgrOf : Nat → Option Mgr
  | 0 => some .legacy | 1 => some .lesc | 2 => some .combined | _ => none

def tkOf : Nat → Option Tk
  | 0 => some .zero | 1 => some .passkey | 2 => some .oobData | 3 => some .wrong | _ => none

def userOf : Nat → Option User
  | 0 => some .silent | 1 => some .yesAtOnce | 2 => some .noAtOnce | 3 => some .yesBeforeCheck
  | 4 => some .yesAfterCheck | 5 => some .noBeforeCheck | 6 => some .noAfterCheck | _ => none

def rspStr (r : Nat × Nat × Nat) : String := s!"{r.1} {r.2.1} {r.2.2}"

def selStr : Sel → String
  | .rej c => s!"rej {c}"
  | .legacy a r => s!"legacy {a.toNat} {rspStr r}"
  | .lesc a r => s!"lesc {a.toNat} {rspStr r}"

def failStr : Fail → String
  | .none => "-"
  | .req c => s!"req:{c}"
  | .random c => s!"random:{c}"
  | .dhkey c => s!"dhkey:{c}"
  | .dhkeyWait => "dhkey:wait"

/-- the option sets the harness instantiates: the OOB callback option is present everywhere
    except in the three <manager, no IO, no MITM> instantiations -/
def instantiated (c : Config) (cfg : Nat) : Bool :=
  c.compiles && (c.oobOpt || (cfg == 0 && !c.mitm))

def config? (a : List Nat) : Option (Config × Nat) :=
  match a with
  | m :: cfg :: mitm :: oobopt :: _ => do
      let mgr ← mgrOf m
      let io ← cfgIo cfg
      if mitm > 1 || oobopt > 1 then none
      let c : Config := { mgr := mgr, io := io, mitm := mitm == 1, oobOpt := oobopt == 1 }
      if instantiated c cfg then some (c, cfg) else none
  | _ => none

def outcomeStr (o : Outcome) (status : Status) (oobq : Nat) : String :=
  s!"{selStr o.sel} done={boolStr o.rest.done} status={status.toNat} early=0 asked={boolStr o.rest.asked} shown={boolStr o.rest.shown} kbd={boolStr o.rest.kbd} oobq={oobq} chk=1 fail={failStr o.rest.fail}"

/-- the session ops: several pairings on one connection object -/
def sessionStep (st : Option (Config × Conn)) (op : String) (a : List Nat) : Option (Option (Config × Conn) × String) :=
  match op, a with
  | "open", [_, _, _, _] =>
      match config? a with
      | some (c, _) => some (some (c, Conn.fresh), s!"ok status={(Conn.fresh.reported c.mgr).toNat}")
      | none => some (st, "bad-op")
  | "step", [cbhas, io, oob, auth, tk, user] =>
      match st, tkOf tk, userOf user with
      | some (c, k), some t, some u =>
          if cbhas > 1 || io > 255 || oob > 255 || auth > 255 then some (st, "bad-op")
          else
            let r := stepPair c k (cbhas == 1) io oob auth t u
            some (some (c, r.1), outcomeStr r.2.1 (r.1.reported c.mgr) r.2.2)
      | _, _, _ => some (st, "bad-op")
  | "peerfail", [] =>
      match st with
      | some (c, k) =>
          let k' := stepH c k .peerFail
          some (some (c, k'), s!"rsp=0507 status={(k'.reported c.mgr).toNat}")
      | none => some (st, "bad-op")
  | "reset", [] =>
      match st with
      | some (c, k) =>
          let k' := stepH c k .reset
          some (some (c, k'), s!"status={(k'.reported c.mgr).toNat}")
      | none => some (st, "bad-op")
  | _, _ => none

def drvStep (st : Option (Config × Conn)) (ws : List String) : Option (Config × Conn) × String :=
  match (match ws with
         | op :: rest => (rest.mapM String.toNat?).bind (sessionStep st op)
         | [] => none) with
  | some r => r
  | none =>
  let out : String :=
    match ws with
    | [] => "bad-op"
    | op :: rest =>
      match rest.mapM String.toNat? with
      | none => "bad-op"
      | some a =>
        match op, a with
        | "mat", [cfg, io] =>
            match cfgIo cfg with
            | some l => if io < 256 then
                s!"{(getIoCapabilities l).toNat} {(selectLegacy l io).toNat} {(selectLesc l io).toNat}"
              else "bad-op"
            | none => "bad-op"
        | "compiles", [m, cfg] =>
            match mgrOf m, cfgIo cfg with
            | some mgr, some io => boolStr (Config.compiles { mgr := mgr, io := io, mitm := false, oobOpt := false })
            | _, _ => "0"
        | "req", [_, _, _, _, cbhas, io, oob, auth] =>
            match config? a with
            | some (c, _) =>
                if cbhas > 1 || io > 255 || oob > 255 || auth > 255 then "bad-op"
                else selStr (handlePairingRequest c (cbhas == 1) io oob auth)
            | none => "bad-op"
        | "pair", [_, _, _, _, cbhas, io, oob, auth, tk, user] =>
            match config? a, tkOf tk, userOf user with
            | some (c, _), some t, some u =>
                if cbhas > 1 || io > 255 || oob > 255 || auth > 255 then "bad-op"
                else
                  let o := pair c (cbhas == 1) io oob auth t u
                  outcomeStr o o.status (oobQueries c)
            | _, _, _ => "bad-op"
        | _, _ => "bad-op"
  (st, out)

def main : IO Unit := lineLoop drvStep none
