import BluetoeModel.Util.Proto
import BluetoeModel.AttAccess.Model
open BluetoeModel.Util BluetoeModel.AttAccess

/-! line protocol driver for the attaccess model; same ops as harness/attaccess.cpp plus
    `def <S> <table>` / `defcells <cells>` (the harness answers `ok` to both) that hand the
    attribute table dumped from the real templates and the initial memory to the model -/

structure DState where
  tables    : List (String × Server)
  initCells : List Bytes
  srv       : Server
  cells     : List Bytes
  conns     : List Conn

def freshConn (srv : Server) : Conn := ⟨23, List.replicate srv.ntf.length 0, false, 0⟩

def parseEnc (s : String) : Option EncOpt :=
  match s.toList with
  | [a, b, c] => some ⟨a == '1', b == '1', c == '1'⟩
  | _ => none

def hexNat (s : String) : Option Nat := (parseHex s).map (fun bs => bs.foldl (fun n b => n * 256 + b.toNat) 0)

def pb (s : String) : Bool := s == "1"

def parseKind : List String → Option Kind
  | ["S", u, n] => do some (.service (← parseHex u) (← n.toNat?))
  | ["D", u, a, b, c, d, au] => do some (.charDecl (← parseHex u) (pb a) (pb b) (pb c) (pb d) (← au.toNat?))
  | ["B", cell, size, r, w, _, _] => do some (.bound (← cell.toNat?) (← size.toNat?) (pb r) (pb w))
  | ["F", v, r, _, _, _] => do some (.fixed (← parseHex v) (pb r))
  | ["C", v, _, _, nr, _] => do some (.cstring (← parseHex v) (pb nr))
  | ["H", rk, wk, cell, _, _, _, nr, _] => do some (.handler (← rk.toNat?) (← wk.toNat?) (← cell.toNat?) (pb nr))
  | ["N", pos] => do some (.cccd (← pos.toNat?))
  | ["U", v] => do some (.userDesc (← parseHex v))
  | ["X", v] => do some (.descriptor (← parseHex v))
  | _ => none

def parseAttr (s : String) : Option Attr :=
  match s.splitOn "," with
  | _h :: uuid :: se :: ce :: _req :: rest => do
      some ⟨← hexNat uuid, ← parseKind rest, ← parseEnc se, ← parseEnc ce⟩
  | _ => none

def field (ws : List String) (key : String) : Option String :=
  ws.findSome? (fun w => if w.startsWith (key ++ "=") then some ((w.drop (key.length + 1)).toString) else none)

def parseServer (ws : List String) : Option Server := do
  let mtu ← (← field ws "mtu").toNat?
  let enc ← parseEnc (← field ws "enc")
  let ntfS ← field ws "ntf"
  let ntf ← if ntfS == "-" then some [] else (ntfS.splitOn ",").mapM (·.toNat?)
  let attrs ← ((← field ws "attrs").splitOn "|").mapM parseAttr
  some ⟨mtu, enc, attrs, ntf⟩

def parseCells (ws : List String) : Option (List Bytes) :=
  ws.foldlM (fun (acc : List Bytes) w =>
    match w.splitOn "=" with
    | [i, h] => do
        let i ← i.toNat?
        let b ← parseHex h
        let acc := if acc.length ≤ i then acc ++ List.replicate (i + 1 - acc.length) [] else acc
        some (acc.set i b)
    | _ => none) []

def respStr : Resp → String
  | .pdu b => toHex b
  | .oobRead => "MODEL-OOB-READ"
  | .oobWrite => "MODEL-OOB-WRITE"
  | .assertFail => "MODEL-ASSERT"

def memStr (cells : List Bytes) (c : Conn) : String :=
  let rec go (i : Nat) : List Bytes → String
    | [] => ""
    | b :: rest => (if b.isEmpty then "" else toString i ++ "=" ++ toHex b ++ " ") ++ go (i + 1) rest
  go 0 cells ++ "cccd=" ++ (if c.cccd.isEmpty then "-" else String.join (c.cccd.map toString))

def encOfNat (n : Nat) : EncOpt := ⟨n == 1, n == 2, n == 3⟩

def encTable : String :=
  String.join ((List.range 64).map fun i =>
    boolStr (requiresEnc (encOfNat (i / 16)) ⟨0, .cccd 0, encOfNat (i / 4 % 4), encOfNat (i % 4)⟩))

def tableStr (srv : Server) : String :=
  String.join (srv.attrs.map fun a =>
    match a.kind with
    | .service _ _ => "0"
    | _ => boolStr (requiresEnc srv.enc a))

def drvStep (s : DState) (ws : List String) : DState × String :=
  match ws with
  | "def" :: name :: rest =>
      match parseServer rest with
      | some srv =>
        -- the hypothesis of the C01 safety theorems is checked on every table dumped from the real templates
        if TableWF srv then ({ s with tables := (name, srv) :: s.tables.filter (·.1 != name) }, "ok")
        else (s, "MODEL-TABLE-NOT-WF")
      | none => (s, "bad-table")
  | "defcells" :: rest =>
      match parseCells rest with
      | some c => ({ s with initCells := c }, "ok")
      | none => (s, "bad-cells")
  | ["reset", name] =>
      match s.tables.find? (·.1 == name) with
      | some (_, srv) =>
        if StateWF srv s.initCells (freshConn srv) then
          ({ s with srv := srv, cells := s.initCells, conns := List.replicate 3 (freshConn srv) }, "ok")
        else (s, "MODEL-STATE-NOT-WF")
      | none => (s, "bad-op")
  | ["table"] => (s, tableStr s.srv)
  | ["enctable"] => (s, encTable)
  | ["sec", c, e, p] =>
      match c.toNat?, parseBool e, p.toNat? with
      | some c, some e, some p =>
        if c < 3 ∧ p < 4 then
          ({ s with conns := s.conns.modify c (fun k => { k with encrypted := e, pairing := p }) }, "ok")
        else (s, "bad-op")
      | _, _, _ => (s, "bad-op")
  | ["pdu", c, n, h] =>
      match c.toNat?, n.toNat?, parseHex h with
      | some c, some n, some p =>
        match s.conns[c]? with
        | some k =>
          if n < 23 ∨ n > 4096 ∨ p.isEmpty then (s, "bad-op")
          else
            let o := l2capInput Handlers.std s.srv s.cells k p n
            ({ s with cells := o.cells, conns := s.conns.set c o.conn }, respStr o.resp)
        | none => (s, "bad-op")
      | _, _, _ => (s, "bad-op")
  | ["ntf", c, pos, t, n] =>
      match c.toNat?, pos.toNat?, n.toNat? with
      | some c, some pos, some n =>
        match s.conns[c]? with
        | some k =>
          if pos ≥ s.srv.ntf.length ∨ n > 4096 ∨ (t != "n" ∧ t != "i") then (s, "bad-op")
          else (s, respStr (l2capOutput Handlers.std s.srv s.cells k (t == "i") pos n))
        | none => (s, "bad-op")
      | _, _, _ => (s, "bad-op")
  | ["setcell", i, h] =>
      match i.toNat?, parseHex h with
      | some i, some v =>
        match s.cells[i]? with
        | some old => if old.isEmpty ∨ old.length ≠ v.length then (s, "bad-op") else ({ s with cells := s.cells.set i v }, "ok")
        | none => (s, "bad-op")
      | _, _ => (s, "bad-op")
  | ["mem", c] =>
      match c.toNat?.bind (s.conns[·]?) with
      | some k => (s, memStr s.cells k)
      | none => (s, "bad-op")
  | ["mtu", c] =>
      match c.toNat?.bind (s.conns[·]?) with
      | some k => (s, toString k.clientMtu ++ " " ++ toString (negotiatedMtu s.srv k))
      | none => (s, "bad-op")
  | _ => (s, "bad-op")

def main : IO Unit :=
  let srv : Server := ⟨23, ⟨false, false, false⟩, [], []⟩
  lineLoop drvStep ⟨[], [], srv, [], List.replicate 3 (freshConn srv)⟩
