import BluetoeModel.Util.Proto
import BluetoeModel.Instants.Model
open BluetoeModel.Util BluetoeModel.Instants

def hexNat (n : Nat) : String :=
  String.ofList ((Nat.toDigits 16 n))

def stateLine (s : LL) : String :=
  if !s.up then s!"adv reason={s.reason}"
  else
    let ch := match dataChannel s.map s.hop s.chIdx with
      | some c => toString c
      | none => "oob"
    let inst := if s.pending.isSome then s!" inst={s.instant}" else ""
    s!"E={s.counter} ch={ch} pend={if s.pending.isSome then 1 else 0}{inst} rxw={if s.rxq.isEmpty then 0 else 1} map={hexNat s.map} int={s.interval} lat={s.latency} sto={s.timeout} phy={s.phyRx}/{s.phyTx} chg={if s.changed then 1 else 0}"

def parsePdu (w : String) : Option Pdu := do
  let bs ← parseHex w
  match bs with
  | h :: l :: body =>
      if l.toNat = body.length ∧ body.length ≤ 27 then some ⟨h.toNat % 4, body.map (·.toNat)⟩ else none
  | _ => none

def parsePdus : List String → Option (List Pdu)
  | [] => some []
  | w :: ws => do
      let p ← parsePdu w
      let ps ← parsePdus ws
      pure (p :: ps)

def nats (ws : List String) : Option (List Nat) := ws.mapM (·.toNat?)

/-- CONNECT_IND parameters `adv_received` accepts (interval 24) -/
def acceptable (lat counter hop t : Nat) : Bool :=
  lat ≤ 499 && counter ≤ 0xffff && 5 ≤ hop && hop ≤ 16 && 10 ≤ t && t ≤ 3200
    && decide (t * 10000 > (lat + 1) * 2 * 30000)

def drvStep (st : Option LL) (ws : List String) : Option LL × String :=
  match ws with
  | "reset" :: args =>
      match nats args with
      | some (cfg :: lat :: counter :: hop :: rest) =>
          let timeout := match rest with
            | [t] => some t
            | [] => some 3200
            | _ => none
          match timeout with
          | some t =>
              if cfg > 1 ∨ !acceptable lat counter hop t then (st, "bad-op")
              else let s := init (cfg == 1) lat counter hop t; (some s, stateLine s)
          | none => (st, "bad-op")
      | _ => (st, "bad-op")
  | "connect" :: args =>
      match st, nats args with
      | some s, some [lat, counter, hop, t] =>
          if s.up ∨ !acceptable lat counter hop t then (st, "bad-op")
          else let s' := step s (.connect lat counter hop t); (some s', stateLine s')
      | _, _ => (st, "bad-op")
  | ["disconnect"] =>
      match st with
      | some s => let s' := step s .disconnect; (some s', stateLine s')
      | none => (st, "bad-op")
  | "ev" :: args =>
      match st, parsePdus args with
      | some s, some pdus =>
          let pdus := if pdus.isEmpty then [⟨1, []⟩] else pdus
          let s' := step s (.ev pdus false); (some s', stateLine s')
      | _, _ => (st, "bad-op")
  | ["to"] =>
      match st with
      | some s => let s' := step s .lost; (some s', stateLine s')
      | none => (st, "bad-op")
  | ["cancel"] =>
      match st with
      | some s => let s' := step s (.cancel 1); (some s', stateLine s')
      | none => (st, "bad-op")
  | "plan" :: args =>
      match nats args with
      | some [cfg, counter, chidx, lat, flags, pend, inst] =>
          if cfg > 32 then (st, "bad-op") else
          let s0 := init false 0 0 5
          let s := { s0 with counter := counter % W, chIdx := chidx % 37, latency := lat % W,
                             pending := if pend ≠ 0 then some (.phy 1 1) else none, instant := inst % W }
          let s' := planNext s (listenDecision cfg flags)
          (st, s!"{s'.counter} {s'.chIdx}")
      | _ => (st, "bad-op")
  | _ => (st, "bad-op")

def main : IO Unit := lineLoop drvStep none
