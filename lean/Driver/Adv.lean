import BluetoeModel.Util.Proto
import BluetoeModel.Adv.Model
open BluetoeModel.Util BluetoeModel.Adv

def cfgOf : Nat → Option Cfg
  | 0 => some { varMap := false, varInterval := false, fixedMs := 100, autoStart := true, types := [.undirected] }
  | 1 => some { varMap := true, varInterval := true, fixedMs := 100, autoStart := false, types := [.undirected] }
  | 2 => some { varMap := true, varInterval := false, fixedMs := 30, autoStart := true, types := [.undirected] }
  | 3 => some { varMap := false, varInterval := true, fixedMs := 100, autoStart := false, types := [.undirected] }
  | 4 => some { varMap := true, varInterval := true, fixedMs := 100, autoStart := false,
                types := [.undirected, .directed, .scannable, .nonconn] }
  | 5 => some { varMap := false, varInterval := false, fixedMs := 100, autoStart := true, types := [.directed] }
  | 6 => some { varMap := false, varInterval := false, fixedMs := 100, autoStart := true, types := [.scannable] }
  | 7 => some { varMap := false, varInterval := false, fixedMs := 100, autoStart := true, types := [.nonconn] }
  | _ => none

/-- the harness' mock link layer starts with the random address c0:ff:ee:11:22:33 -/
def defaultLocal : Nat := 2 * 0xc0ffee112233 + 1

/-- PDU type code of the advertising PDU `fill_advertising_data( selected_ )` builds:
    ADV_IND 0, ADV_DIRECT_IND 1, ADV_NONCONN_IND 2, ADV_SCAN_IND 6 (the harnesses read it from the PDU
    handed to the radio) -/
def pduTypeCode (s : St) : Nat :=
  match s.cfg.types[s.selected]? with
  | some .undirected => 0
  | some .directed => 1
  | some .nonconn => 2
  | some .scannable => 6
  | none => 15

/-- `s` = the state after the step: the PDU that was scheduled is of the type `selected_` names -/
def schedStr (s : St) : Option (Nat × Nat) → String
  | none => "-"
  | some (c, d) => s!"s {c} {d} t{pduTypeCode s}"

def outStr (st : St) : Out → String
  | .ok => "ok"
  | .bad => "bad-op"
  | .ub => "ub"
  | .bool b => boolStr b
  | .sched s => schedStr st s
  | .recv none s => "rej " ++ schedStr st s
  | .recv (some a) s => s!"acc {a} " ++ schedStr st s
  | .scan v f => s!"v={boolStr v} f={boolStr f}"

/-- addresses are cut to 48 bits + flag as `make_addr` of the harness does -/
def normAddr (a : Nat) : Nat := a % (2 ^ 49)

def pad36 (bs : List UInt8) : List UInt8 := (bs ++ List.replicate 36 0).take 36

def parseOp : List String → Option Op
  | ["add", c] => c.toNat?.map Op.add
  | ["remove", c] => c.toNat?.map Op.remove
  | ["interval", m] => m.toNat?.bind fun v => if v ≤ 100000 then some (Op.interval v) else none
  | ["start"] => some Op.start
  | ["startn", n] => n.toNat?.bind fun v => if v ≤ 1000000 then some (Op.startn v) else none
  | ["stop"] => some Op.stop
  | ["llstart"] => some Op.llstart
  | ["llstop"] => some Op.llstop
  | ["timeout"] => some Op.timeout
  | ["dirty"] => some Op.dirty
  | ["change", t] => t.toNat?.map Op.change
  | ["direct", a] => a.toNat?.map fun v => Op.direct (normAddr v)
  | ["local", a] => a.toNat?.map fun v => Op.localAddr (normAddr v)
  | ["filter", b] => (parseBool b).map Op.filter
  | ["wladd", a] => a.toNat?.map fun v => Op.wladd (normAddr v)
  | ["wlremove", a] => a.toNat?.map fun v => Op.wlremove (normAddr v)
  | ["scanfilter", b] => (parseBool b).map Op.scanfilter
  | ["scanreq", h] => (parseHex h).map Op.scanreq
  | ["recv", h] => (parseHex h).map Op.recv
  | ["recvfull", h] => (parseHex h).bind fun bs => if bs.length < 2 then none else some (Op.recv (pad36 bs))
  | _ => none

def drvStep (s : St) (ws : List String) : St × String :=
  match ws with
  | ["reset", n] => match n.toNat?.bind cfgOf with
      | some c => (init c defaultLocal, "ok")
      | none => (s, "bad-op")
  | ["nrfscan", h] =>
      -- harness/adv/nrf_scan.cpp: the PDU is placed in the zeroed 36 octet receive buffer of the nRF52 radio
      match parseHex h with
      | some bs => if bs.length < 2 ∨ bs.length > 36 then (s, "bad-op") else (s, "n=" ++ boolStr (nrfAnswers s (pad36 bs)))
      | none => (s, "bad-op")
  | _ => match parseOp ws with
      | some op => let (s', o) := step s op; (s', outStr s' o)
      | none => (s, "bad-op")

def main : IO Unit :=
  match cfgOf 0 with
  | some c => lineLoop drvStep (init c defaultLocal)
  | none => pure ()
