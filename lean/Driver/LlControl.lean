import BluetoeModel.Util.Proto
import BluetoeModel.LlControl.Model
open BluetoeModel.Util BluetoeModel.LlControl

def pduStr (p : Pdu) : String := toHex (UInt8.ofNat p.llid :: p.body)

def hex2 (b : UInt8) : String := hexByte b

def eventStr : Event → String
  | .requested => "requested"
  | .attemptTimeout => "attempt_timeout"
  | .established => "established"
  | .changed => "changed"
  | .closed r => "closed:" ++ hex2 r
  | .version v => "version:" ++ hex2 (v.getD 0 0) ++ hex2 (v.getD 2 0) ++ hex2 (v.getD 1 0)
      ++ hex2 (v.getD 4 0) ++ hex2 (v.getD 3 0)
  | .rejected c => "rejected:" ++ hex2 c
  | .unknown o => "unknown:" ++ hex2 o
  | .features f => "features:" ++ toHex f
  | .phy a b => "phy:" ++ hex2 a ++ hex2 b

def phaseStr : Phase → String
  | .advertising => "advertising"
  | .connecting => "connecting"
  | .connected => "connected"
  | .disconnecting => "disconnecting"
  | .connectionChanged => "changed"

def joinOr (l : List String) : String := if l.isEmpty then "-" else ",".intercalate l

def outStr (s : State) (o : Out) : String :=
  if o.bad then "bad-op" else
  "tx=" ++ joinOr (o.tx.map pduStr) ++ " cb=" ++ joinOr (o.cbs.map eventStr)
    ++ " st=" ++ phaseStr s.phase
    ++ " enc=" ++ boolStr s.sec.encrypted ++ " rxe=" ++ boolStr s.sec.rxEnc ++ " txe=" ++ boolStr s.sec.txEnc
    ++ (match o.r with | some b => " r=" ++ boolStr b | none => "")

def parsePdu (w : String) : Option Pdu :=
  match parseHex w with
  | some (l :: body) => if body.length ≤ 27 then some { llid := l.toNat % 4, body := body } else none
  | _ => none

def parsePdus : List String → Option (List Pdu)
  | [] => some []
  | w :: ws => do
    let p ← parsePdu w
    let ps ← parsePdus ws
    pure (p :: ps)

def u8? (s : String) : Option UInt8 := s.toNat?.map (fun n => UInt8.ofNat (n % 256))

def parseOp : List String → Option Op
  | ["key", e, r] => do
    let e ← e.toNat?
    let r ← r.toNat?
    if e > 0xffff then none else pure (Op.key e r)
  | ["connect", i, t] => do
    let i ← i.toNat?
    let t ← t.toNat?
    if i > 0xffff ∨ t > 0xffff then none else pure (Op.connect i t)
  | "ev" :: ws => (parsePdus ws).map Op.ev
  | ["to"] => some Op.timeout
  | ["adv"] => some Op.adv
  | ["api", "disconnect"] => some (Op.apiDisconnect 0x16)
  | ["api", "disconnect", r] => (u8? r).map Op.apiDisconnect
  | ["api", "version"] => some Op.apiVersion
  | ["api", "param", a, b, c, d] => do
    pure (Op.apiParam (← a.toNat?) (← b.toNat?) (← c.toNat?) (← d.toNat?))
  | ["api", "paramll", a, b, c, d] => do
    pure (Op.apiParamLl (← a.toNat?) (← b.toNat?) (← c.toNat?) (← d.toNat?))
  | ["api", "phy", t, r] => do
    pure (Op.apiPhy (← u8? t) (← u8? r))
  | _ => none

def drvStep (st : Option State) (ws : List String) : Option State × String :=
  match ws with
  | ["reset", "0"] =>
    let s := init { security := true, phy2m := true }
    (some s, outStr s {})
  | ["reset", "1"] =>
    let s := init { security := false, phy2m := false }
    (some s, outStr s {})
  | _ =>
    match st, parseOp ws with
    | some s, some op =>
      let (s', o) := step s op
      (some s', outStr s' o)
    | _, _ => (st, "bad-op")

def main : IO Unit := lineLoop drvStep none
