import BluetoeModel.Util.Proto
import BluetoeModel.NotifQueue.Model
import BluetoeModel.NotifQueue.Irq
import BluetoeModel.NotifQueue.Fine
open BluetoeModel.Util BluetoeModel.NotifQueue

def configs : List (List Nat) := [[1], [2], [5], [1, 1], [1, 3], [3, 1], [4, 4, 1], [1, 2]]

def entryStr : Option (Kind × Nat) → String
  | none => "e"
  | some (.notification, i) => s!"n{i}"
  | some (.indication, i) => s!"i{i}"

def outStr : Out → String
  | .bool b => boolStr b
  | .entry e => entryStr e
  | .unit => "ok"
  | .oob => "oob"

def levelStr : Level → String
  | .gen g => s!"{toHex (g.bytes.map UInt8.ofNat)}/{g.next}"
  | .single st => s!"{toHex [UInt8.ofNat st]}/0"

def rawStr (q : Queue) : String :=
  " ".intercalate (q.levels.map levelStr) ++ (if q.outstanding.isSome then " out=1" else " out=0")

def outcomeStr (o : Outcome) : String :=
  let p := match o.pres with | some true => "1" | some false => "0" | none => "x"
  let rest := drain o.q (2 * totalLevels o.q.levels + 1)
  let r := if rest.isEmpty then "-" else ",".intercalate (rest.map fun x => entryStr (some x))
  s!"p{p}:{entryStr o.deq}:{r}" ++ (if o.oob then ":oob" else "")

def insertSorted (x : String) : List String → List String
  | [] => [x]
  | y :: ys => if x < y then x :: y :: ys else if x == y then y :: ys else y :: insertSorted x ys

/-- all distinct outcomes of one dequeue interrupted by `prod` at any access point -/
def irqOutcomes (q : Queue) (prod : Kind × Nat) (atomic : Bool) : String :=
  let n := irqAccesses q
  let outs := (List.range (n + 1)).foldl (fun acc k => insertSorted (outcomeStr (irqRun q prod k atomic).1) acc) []
  " ".intercalate outs

def fineOutcomeStr : Option FOutcome → String
  | none => "oob"
  | some o =>
    let rest := drain o.q (2 * totalLevels o.q.levels + 1)
    let r := if rest.isEmpty then "-" else ",".intercalate (rest.map fun x => entryStr (some x))
    s!"p{if o.pres then "1" else "0"}:{entryStr o.deq}:{r}"

/-- all distinct outcomes of one dequeue and one producer call over ALL schedules `k1 ≤ k2` at
    access granularity with atomic read-modify-writes (Fine.lean); `diag`: only `k1 = k2` -/
def fineOutcomes (q : Queue) (prod : Kind × Nat) (diag : Bool) : String :=
  let n := fineAccesses q
  let outs := (List.range (n + 1)).foldl (fun acc k2 =>
    (List.range (k2 + 1)).foldl (fun acc k1 =>
      if diag && k1 != k2 then acc else insertSorted (fineOutcomeStr (fineRun q prod k1 k2)) acc) acc) []
  " ".intercalate outs

def drvStep (q : Queue) (ws : List String) : Queue × String :=
  match ws with
  | ["reset", n] =>
    match n.toNat? with
    | some k => match configs[k]? with
      | some c => (Queue.init c, "ok")
      | none => (q, "bad-op")
    | none => (q, "bad-op")
  | ["qn", i] => match i.toNat? with
    | some i => let (q', o) := q.step (.queue .notification i); (q', outStr o)
    | none => (q, "bad-op")
  | ["qi", i] => match i.toNat? with
    | some i => let (q', o) := q.step (.queue .indication i); (q', outStr o)
    | none => (q, "bad-op")
  | ["deq"] => let (q', o) := q.step .deq; (q', outStr o)
  | ["conf"] => let (q', o) := q.step .conf; (q', outStr o)
  | ["clear"] => let (q', o) := q.step .clear; (q', outStr o)
  | ["raw"] => (q, rawStr q)
  | ["irq", p, i] =>
    match i.toNat?, (if p == "qn" then some Kind.notification else if p == "qi" then some Kind.indication else none) with
    | some i, some k => (q, irqOutcomes q (k, i) false)
    | _, _ => (q, "bad-op")
  | ["irqatomic", p, i] =>
    match i.toNat?, (if p == "qn" then some Kind.notification else if p == "qi" then some Kind.indication else none) with
    | some i, some k => (q, irqOutcomes q (k, i) true)
    | _, _ => (q, "bad-op")
  | ["irqfine", p, i] =>
    match i.toNat?, (if p == "qn" then some Kind.notification else if p == "qi" then some Kind.indication else none) with
    | some i, some k => (q, fineOutcomes q (k, i) false)
    | _, _ => (q, "bad-op")
  | ["irqfinediag", p, i] =>
    match i.toNat?, (if p == "qn" then some Kind.notification else if p == "qi" then some Kind.indication else none) with
    | some i, some k => (q, fineOutcomes q (k, i) true)
    | _, _ => (q, "bad-op")
  | ["confpdu", h] => match parseHex h with
    | some (b :: bs) => let (q', r) := handleValueConfirmation q (b :: bs); (q', toHex r)
    | _ => (q, "bad-op")
  | ["stress", _] => (q, "stress")
  | _ => (q, "bad-op")

def main : IO Unit := lineLoop drvStep (Queue.init [2])
