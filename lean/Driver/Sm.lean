import BluetoeModel.Util.Proto
import BluetoeModel.Sm.Model
open BluetoeModel.Util BluetoeModel.Sm

/-! Line-protocol driver for the security manager model.  The tool box is instantiated with the
    same deterministic stand-in functions as the mock tool box of harness/sm.cpp. -/

def expand : Nat → Nat → Bytes
  | 0, _ => []
  | n + 1, h =>
      let h' := (h * 1664525 + 1013904223) % 4294967296
      UInt8.ofNat (h' / 65536) :: expand n h'

def mix (tag : Nat) (data : Bytes) : Bytes :=
  expand 16 (data.foldl (fun h b => (h * 16777619 + b.toNat + 1) % 4294967296) tag)

def ctr4 (c : Nat) : Bytes := le32 c

def read64 (b : Bytes) : Nat := read32 b + 4294967296 * read32 (b.drop 4)

def standIn : Crypto where
  c1 k r p1 p2 := mix 1 (k ++ r ++ p1 ++ p2)
  s1 k sr mr := mix 2 (k ++ sr ++ mr)
  f4 u v x z := mix 3 (u ++ v ++ x ++ [z])
  f5 dh n1 n2 a1 a2 := (mix 4 (dh ++ n1 ++ n2 ++ a1 ++ a2), mix 5 (dh ++ n1 ++ n2 ++ a1 ++ a2))
  f6 k n1 n2 r io a1 a2 := mix 6 (k ++ n1 ++ n2 ++ r ++ io ++ a1 ++ a2)
  g2 u v x y := read32 (mix 7 (u ++ v ++ x ++ y))
  p256 priv pub := mix 8 (priv ++ pub) ++ mix 9 (priv ++ pub)
  validKey pk := ((pk.getD 0 0 ^^^ pk.getD 63 0) &&& 0x03) != 0x03
  srand c := mix 10 (ctr4 c)
  passkey c := le32 (read32 (mix 11 (ctr4 c)) % 1000000) ++ List.replicate 12 0
  keys c := (mix 12 (ctr4 c) ++ mix 13 (ctr4 c) ++ mix 14 (ctr4 c) ++ mix 15 (ctr4 c),
             mix 16 (ctr4 c) ++ mix 17 (ctr4 c))
  nonce c := mix 18 (ctr4 c)
  newBond c :=
    let r := mix 20 (ctr4 c)
    { key := mix 19 (ctr4 c), rand := read64 r, ediv := (r.getD 8 0).toNat + 256 * (r.getD 9 0).toNat }

def stateName : PState → String
  | .idle => "idle" | .completed => "completed" | .userWait => "user_wait"
  | .userFailed => "user_failed" | .userSuccess => "user_success"
  | .legacyRequested => "legacy_requested" | .legacyConfirmed => "legacy_confirmed"
  | .lescRequested => "lesc_requested" | .lescKeysExchanged => "lesc_keys_exchanged"
  | .lescConfirmSend => "lesc_confirm_send" | .lescRandomExchanged => "lesc_random_exchanged"
  | .userWaitVerified => "user_wait_dhkey_verified"

def parseCfg (v io bond : String) : Option Cfg := do
  let variant ← match v with
    | "legacy" => some Variant.legacy | "lesc" => some Variant.lesc | "both" => some Variant.both
    | _ => none
  let (input, display) ← match io with
    | "none" => some (InputCap.none, false) | "yesno" => some (InputCap.yesNo, false)
    | "kbd" => some (InputCap.keyboard, false) | "disp" => some (InputCap.none, true)
    | "dispyn" => some (InputCap.yesNo, true) | "dispkbd" => some (InputCap.keyboard, true)
    | _ => none
  -- keyboard configurations do not compile with the LESC managers
  if variant ≠ .legacy ∧ input = .keyboard then none
  let b ← parseBool bond
  -- the harness builds managers without bonding data base for `none` and `dispyn` only
  if !b ∧ io ≠ "none" ∧ io ≠ "dispyn" then none
  pure { variant := variant, input := input, display := display, bonding := b,
         localAddr := [0xb6, 0xb5, 0xb4, 0xb3, 0xb2, 0xb1, 0],
         remoteAddr := [0xa6, 0xa5, 0xa4, 0xa3, 0xa2, 0xa1, 1] }

def parseOp : List String → Option Op
  | ["pdu", h] => (parseHex h).map Op.pdu
  | ["out"] => some Op.out
  | ["enc", b] => (parseBool b).map Op.enc
  | ["user", "async"] => some (Op.user .async)
  | ["user", "sync1"] => some (Op.user .syncYes)
  | ["user", "sync0"] => some (Op.user .syncNo)
  | ["answer", b] => (parseBool b).map Op.answer
  | ["kbd", n] => n.toNat?.bind fun k => if k < 4294967296 then some (Op.kbd k) else none
  | ["oob", a, d] => do
      let av ← parseBool a
      let bs ← parseHex d
      if bs.length = 16 then some (Op.oob av bs) else none
  | ["findkey", e, r] => do
      let ev ← e.toNat?
      let rv ← r.toNat?
      if ev < 65536 ∧ rv < 18446744073709551616 then some (Op.findKey ev rv) else none
  | ["conn"] => some Op.conn
  | _ => none

def outStr (op : Op) (s : St) : Out → String
  | .rsp b d =>
      "rsp=" ++ toHex b ++ " st=" ++ stateName s.st ++ " disp=" ++
        (match d with | some n => toString n | none => "-")
  | .ok => match op with
      | .answer _ => "ok st=" ++ stateName s.st
      | _ => "ok"
  | .illegal => "illegal"
  | .key k => "key=" ++ (match k with | some b => toHex b | none => "-") ++ " st=" ++ stateName s.st

def defaultCfg : Cfg :=
  { variant := .legacy, input := .none, display := false, bonding := false,
    localAddr := [0xb6, 0xb5, 0xb4, 0xb3, 0xb2, 0xb1, 0],
    remoteAddr := [0xa6, 0xa5, 0xa4, 0xa3, 0xa2, 0xa1, 1] }

def drvStep (cs : Option (Cfg × St)) (ws : List String) : Option (Cfg × St) × String :=
  match ws with
  | ["reset", v, io, bond, fill] =>
      match parseCfg v io bond, parseHex fill with
      | some cfg, some [_] => (some (cfg, init), "ok")
      | _, _ => (cs, "bad-op")
  | _ =>
      match cs, parseOp ws with
      | some (cfg, s), some op =>
          let r := step standIn cfg s op
          (some (cfg, r.1), outStr op r.1 r.2)
      | _, _ => (cs, "bad-op")

def main : IO Unit := lineLoop drvStep none
