import BluetoeModel.Util.Proto
import BluetoeModel.Crypto.Passkey
open BluetoeModel.Util BluetoeModel.Crypto

/-- `passkey <rng>`: "<passkey16> <consumed>" | "exhausted <consumed>" -/
def passkeyOp (rng : List UInt8) : String :=
  match Passkey.createPasskey rng with
  | some (pk, rest) => toHex pk ++ " " ++ toString (rng.length - rest.length)
  | none => "exhausted " ++ toString rng.length

/-- `passkeyscan <b2>`: create_passkey on the 65536 RNG streams `b0 b1 b2 00 00 00`; statistics of
    the values returned from the first draw (see harness/crypto.cpp); `hist` counts every passkey -/
def passkeyScan (hist0 : Array Nat) (b2 : UInt8) : Array Nat × String := Id.run do
  let mut hist := hist0
  let mut seen : Array Bool := Array.replicate 1000000 false
  let mut first := 0
  let mut second := 0
  let mut out := 0
  let mut distinct := 0
  for t in [0:65536] do
    match Passkey.createPasskey [UInt8.ofNat (t % 256), UInt8.ofNat (t / 256), b2, 0, 0, 0] with
    | some (pk, rest) =>
      if rest.length == 3 then
        let v := Passkey.leNat pk
        first := first + 1
        if v > 999999 then out := out + 1
        else
          hist := hist.modify v (· + 1)
          if !seen[v]! then
            seen := seen.set! v true
            distinct := distinct + 1
      else second := second + 1
    | none => pure ()
  return (hist, s!"first={first} second={second} outofrange={out} distinct={distinct}")

def passkeyHist (hist : Array Nat) : String :=
  let mn := hist.foldl min 4294967295
  let mx := hist.foldl max 0
  s!"min={mn} max={mx}"

def drvStep (hist : Array Nat) (ws : List String) : Array Nat × String :=
  match ws with
  | ["reset"] => (Array.replicate 1000000 0, "ok")
  | ["passkey", r] => match parseHex r with
      | some rng => (hist, passkeyOp rng)
      | none => (hist, "bad-op")
  | ["passkeyscan", b] => match parseHex b with
      | some [b2] => passkeyScan hist b2
      | _ => (hist, "bad-op")
  | ["passkeyhist"] => (hist, passkeyHist hist)
  | _ => (hist, "bad-op")

def main : IO Unit := lineLoop drvStep (Array.replicate 1000000 0)
