import BluetoeModel.Util.Proto
import BluetoeModel.Crypto.Passkey
import BluetoeModel.Crypto.Model
import BluetoeModel.Crypto.Spec
import BluetoeModel.Crypto.Aes
open BluetoeModel.Util BluetoeModel.Crypto

/-- the block cipher of the driver: AES-128 -/
def E : Cipher := Aes.aes

def optHex : Option Bytes → String
  | some b => toHex b
  | none => "oob"

def lens (args : List Bytes) (ns : List Nat) : Bool := args.map List.length == ns

/-- toolbox model ops; byte strings in memory order, same protocol as harness/crypto.cpp -/
def toolboxOp (op : String) (a : List Bytes) : Option String :=
  match op, a with
  | "aes", [k, d] => if lens a [16, 16] then some (toHex (aesLe E k d)) else none
  | "xor", [x, y] => if lens a [16, 16] then some (toHex (xor x y)) else none
  | "shl", [x] => if lens a [16] then some (toHex (leftShift x)) else none
  | "k1", [k] => if lens a [16] then some (toHex (k1 E k)) else none
  | "k2", [k] => if lens a [16] then some (toHex (k2 E k)) else none
  | "c1", [k, r, p1, p2] => if lens a [16, 16, 16, 16] then some (toHex (c1 E k r p1 p2)) else none
  | "s1", [k, sr, mr] => if lens a [16, 16, 16] then some (toHex (s1 E k sr mr)) else none
  | "f4", [u, v, k, [z]] => if lens a [32, 32, 16, 1] then some (optHex (f4 E u v k z)) else none
  | "f5", [dh, nc, np, ac, ap] =>
      if lens a [32, 16, 16, 7, 7] then
        match f5 E dh nc np (ac.take 6) (ac.drop 6 != [0]) (ap.take 6) (ap.drop 6 != [0]) with
        | some (m, l) => some (toHex m ++ ":" ++ toHex l)
        | none => some "oob"
      else none
  | "f5key", [dh] => if lens a [32] then some (optHex (f5key E dh)) else none
  | "f5cmac", [k, b] => if lens a [16, 64] then some (optHex (f5cmac E k b)) else none
  | "f6", [k, n1, n2, r, io, ac, ap] =>
      if lens a [16, 16, 16, 16, 3, 7, 7] then
        some (optHex (f6 E k n1 n2 r io (ac.take 6) (ac.drop 6 != [0]) (ap.take 6) (ap.drop 6 != [0])))
      else none
  | "g2", [u, v, x, y] =>
      if lens a [32, 32, 16, 16] then
        match g2 E u v x y with
        | some n => some (toString n)
        | none => some "oob"
      else none
  | "validpk", [pk] =>
      if lens a [64] then
        match isValidPublicKey pk with
        | some b => some (boolStr b)
        | none => some "oob"
      else none
  -- specification side (octets most significant first), to test the definitions in Spec.lean
  | "spec_aes", [k, d] => some (toHex (E k d))
  | "spec_subkeys", [k] => let (a, b) := Spec.subkeys E k; some (toHex a ++ ":" ++ toHex b)
  | "spec_cmac", [k, m] => some (toHex (Spec.cmac E k m))
  | "spec_c1", [k, r, p1, p2] => some (toHex (Spec.c1 E k r p1 p2))
  | "spec_s1", [k, r1, r2] => some (toHex (Spec.s1 E k r1 r2))
  | "spec_f4", [u, v, x, [z]] => some (toHex (Spec.f4 E u v x z))
  | "spec_f5", [w, n1, n2, a1, a2] => let (m, l) := Spec.f5 E w n1 n2 a1 a2; some (toHex m ++ ":" ++ toHex l)
  | "spec_f6", [w, n1, n2, r, io, a1, a2] => some (toHex (Spec.f6 E w n1 n2 r io a1 a2))
  | "spec_g2", [u, v, x, y] => some (toString (Spec.g2 E u v x y))
  | _, _ => none

def parseArgs : List String → Option (List Bytes)
  | [] => some []
  | w :: ws => do
      let b ← parseHex w
      let r ← parseArgs ws
      pure (b :: r)

/-- `passkey <rng>`: "<passkey16> <consumed>" | "exhausted <consumed>" -/
def passkeyOp (rng : List UInt8) : String :=
  match Passkey.createPasskey rng with
  | some (pk, rest) => toHex pk ++ " " ++ toString (rng.length - rest.length)
  | none => "exhausted " ++ toString rng.length

/-- `passkeyscan <b2>`: create_passkey on the 65536 RNG streams `b0 b1 b2 00 00 00`; statistics of
    the values returned from the first draw (see harness/crypto.cpp); `hist` counts every passkey -/
def passkeyScan (hist0 : Array Nat) (b2 : UInt8) : Array Nat × String := Id.run do
  let mut hist := if hist0.size == 1000000 then hist0 else Array.replicate 1000000 0
  let mut seen : Array Bool := Array.replicate 1000000 false
  let mut first := 0
  let mut second := 0
  let mut out := 0
  let mut distinct := 0
  for t in [0:65536] do
    match Passkey.createPasskey [UInt8.ofNat (t % 256), UInt8.ofNat (t / 256), b2, 0, 0, 0] with
    | some (pk, rest) =>
      if rest.length == 3 then
        let v := Passkey.leNat pk
        first := first + 1
        if v > 999999 then out := out + 1
        else
          hist := hist.modify v (· + 1)
          if !seen[v]! then
            seen := seen.set! v true
            distinct := distinct + 1
      else second := second + 1
    | none => pure ()
  return (hist, s!"first={first} second={second} outofrange={out} distinct={distinct}")

def passkeyHist (hist0 : Array Nat) : String :=
  let hist := if hist0.size == 1000000 then hist0 else Array.replicate 1000000 0
  let mn := hist.foldl min 4294967295
  let mx := hist.foldl max 0
  s!"min={mn} max={mx}"

def drvStep (hist : Array Nat) (ws : List String) : Array Nat × String :=
  match ws with
  | ["reset"] => (#[], "ok")   -- the histogram is allocated by the first passkeyscan
  | ["passkey", r] => match parseHex r with
      | some rng => (hist, passkeyOp rng)
      | none => (hist, "bad-op")
  | ["passkeyscan", b] => match parseHex b with
      | some [b2] => passkeyScan hist b2
      | _ => (hist, "bad-op")
  | ["passkeyhist"] => (hist, passkeyHist hist)
  | op :: args => match parseArgs args with
      | some a => match toolboxOp op a with
          | some r => (hist, r)
          | none => (hist, "bad-op")
      | none => (hist, "bad-op")
  | _ => (hist, "bad-op")

def main : IO Unit := lineLoop drvStep #[]
