import BluetoeModel.Util.Proto
import BluetoeModel.AdvData.Model
open BluetoeModel.Util BluetoeModel.AdvData

/-! `server k key=value…` carries the declaration (comp/advdata.py holds the table):
    name=<hex|-|none> app=<n> adva=<0|1> s16=<n,n|-> s128=<hex,hex|-> gap=<0|1> nolist=<0|1>
    l16=<n,n|-|none> l128=<hex,…|-|none> range=<min,max|none> cadv=<hex|-|none> cscan=<hex|-|none> -/

def lookup (kv : List (String × String)) (k : String) : Option String := (kv.find? (·.1 == k)).map (·.2)

def natList (s : String) : Option (List Nat) :=
  if s == "-" then some [] else (s.splitOn ",").mapM (·.toNat?)

def hexList (s : String) : Option (List (List UInt8)) :=
  if s == "-" then some [] else (s.splitOn ",").mapM parseHex

def optField {α} (p : String → Option α) (s : String) : Option (Option α) :=
  if s == "none" then some none else (p s).map some

def parseDecl (ws : List String) : Option Decl := do
  let kv := ws.filterMap fun w => match w.splitOn "=" with | [k, v] => some (k, v) | _ => none
  let name ← optField parseHex (← lookup kv "name")
  let app ← (← lookup kv "app").toNat?
  let adva ← parseBool (← lookup kv "adva")
  let s16 ← natList (← lookup kv "s16")
  let s128 ← hexList (← lookup kv "s128")
  let gap ← parseBool (← lookup kv "gap")
  let nolist ← parseBool (← lookup kv "nolist")
  let l16 ← optField natList (← lookup kv "l16")
  let l128 ← optField hexList (← lookup kv "l128")
  let range ← optField (fun s => match s.splitOn "," with
      | [a, b] => do pure ((← a.toNat?), (← b.toNat?))
      | _ => none) (← lookup kv "range")
  let cadv ← optField parseHex (← lookup kv "cadv")
  let cscan ← optField parseHex (← lookup kv "cscan")
  pure { name := name, appearance := app, advAppearance := adva, svc16 := s16, svc128 := s128, gap := gap,
         noList := nolist, list16 := l16, list128 := l128, range := range, customAdv := cadv, customScan := cscan }

def showOut : Option (List UInt8) → String
  | none => "oob"
  | some bs => s!"{bs.length} {toHex bs}"

def emptyDecl : Decl :=
  { name := none, appearance := 0, advAppearance := false, svc16 := [], svc128 := [], gap := true, noList := false,
    list16 := none, list128 := none, range := none, customAdv := none, customScan := none }

def drvStep (d : Decl) (ws : List String) : Decl × String :=
  match ws with
  | "server" :: _ :: rest => match parseDecl rest with
      | some d' => (d', "ok")
      | none => (d, "bad-op")
  | ["adv", n] => match n.toNat? with
      | some k => if k ≤ 64 then (d, showOut (advData d k)) else (d, "bad-op")
      | none => (d, "bad-op")
  | ["scan", n] => match n.toNat? with
      | some k => if k ≤ 64 then (d, showOut (scanRsp d k)) else (d, "bad-op")
      | none => (d, "bad-op")
  -- runtime_custom_*: `set_runtime_custom_…_data` keeps at most 31 octets
  | ["setadv", h] => match parseHex h, d.customAdv with
      | some bs, some _ => ({ d with customAdv := some (bs.take 31) }, "ok")
      | _, _ => (d, "bad-op")
  | ["setscan", h] => match parseHex h, d.customScan with
      | some bs, some _ => ({ d with customScan := some (bs.take 31) }, "ok")
      | _, _ => (d, "bad-op")
  | _ => (d, "bad-op")

def main : IO Unit := lineLoop drvStep emptyDecl
