import BluetoeModel.Util.Proto
import BluetoeModel.L2cap.Model
open BluetoeModel.Util BluetoeModel.L2cap

def statusNum : Status → Nat
  | .idle => 0 | .queued => 1 | .transmitted => 2

def sigStr (s : S) : String := s!" sig={statusNum s.sig.status}/{s.sig.ident}"

def txStr (l : List Bytes) : String :=
  " tx=" ++ (if l.isEmpty then "-" else ",".intercalate (l.map toHex))

def delStr (l : List (Nat × Bytes)) : String :=
  " del=" ++ (if l.isEmpty then "-" else ";".intercalate (l.map fun (c, p) => s!"{c}:{toHex p}"))

def parseOp : List String → Option Op
  | ["bufs", n] => n.toNat?.map .bufs
  | ["mode", c, m] => do
      let c ← c.toNat?; let m ← m.toNat?
      if (c == 4 || c == 6) && m < 3 then some (.mode c m) else none
  | ["queue", c, h] => do
      let c ← c.toNat?; let p ← parseHex h
      if (c == 4 || c == 6) && !p.isEmpty then some (.queue c p) else none
  | ["in", h] => (parseHex h).map .input
  | ["out"] => some .output
  | ["cpu", a, b, c, d] => do
      let a ← a.toNat?; let b ← b.toNat?; let c ← c.toNat?; let d ← d.toNat?
      if a < 65536 && b < 65536 && c < 65536 && d < 65536 then some (.request a b c d) else none
  | _ => none

def drvStep (s : S) (ws : List String) : S × String :=
  match ws with
  | ["reset"] => (S.init, "ok")
  | _ => match parseOp ws with
    | some op =>
        let (s', o) := step s op
        let str := match o with
          | .ok => "ok"
          | .input r => s!"consumed={boolStr r.consumed}" ++ delStr r.dels ++ txStr r.tx ++ sigStr s'
          | .output tx => "out" ++ delStr [] ++ txStr tx ++ sigStr s'
          | .request a => boolStr a ++ delStr [] ++ txStr [] ++ sigStr s'
        (s', str)
    | none => (s, "bad-op")

def main : IO Unit := lineLoop drvStep S.init
