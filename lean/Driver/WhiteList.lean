import BluetoeModel.Util.Proto
import BluetoeModel.WhiteList.Model
open BluetoeModel.Util BluetoeModel.WhiteList

def outStr : Out → String
  | .bool b => boolStr b
  | .nat n => toString n
  | .unit => "ok"

def parseOp : List String → Option Op
  | ["add", a] => a.toNat?.map Op.add
  | ["remove", a] => a.toNat?.map Op.remove
  | ["clear"] => some Op.clear
  | ["isin", a] => a.toNat?.map Op.isIn
  | ["free"] => some Op.free
  | ["setconn", b] => (parseBool b).map Op.setConn
  | ["setscan", b] => (parseBool b).map Op.setScan
  | ["getconn"] => some Op.getConn
  | ["getscan"] => some Op.getScan
  | ["connin", a] => a.toNat?.map Op.connIn
  | ["scanin", a] => a.toNat?.map Op.scanIn
  | _ => none

def drvStep (w : WL) (ws : List String) : WL × String :=
  match ws with
  | ["reset", n] => match n.toNat? with
      | some k => (init (k % 100), "ok")   -- 10x = radio-backed list of size x (forwarding)
      | none => (w, "bad-op")
  | _ => match parseOp ws with
      | some op => let (w', o) := step w op; (w', outStr o)
      | none => (w, "bad-op")

def main : IO Unit := lineLoop drvStep (init 8)
