import BluetoeModel.Util.Proto
import BluetoeModel.Csc.Model
open BluetoeModel.Util BluetoeModel.Csc

def outStr : Out → String
  | .ok => "ok"
  | .err c => "err " ++ hexByte c
  | .ind v => toHex v
  | .nothing => "-"
  | .uninit => "uninit"
  | .wheel c v => toString c ++ " " ++ toString v

def parseOp : List String → Option Op
  | ["write", h] => (parseHex h).map Op.write
  | ["confirm"] => some Op.confirm
  | ["output"] => some Op.output
  | ["ack"] => some Op.ack
  | ["cccd", b] => (parseBool b).map Op.cccd
  | ["wheel"] => some Op.wheel
  | ["reconnect"] => some Op.reconnect
  | _ => none

def config : String → Option (List UInt8)
  | "0" => some []          -- one location: no_sensor_position_handler
  | "1" => some [1, 2, 3]
  | "2" => some [1, 5]
  | _ => none

def drvStep (s : Sys) (ws : List String) : Sys × String :=
  match ws with
  | ["reset", c] => match config c with
      | some locs => (Sys.init locs, "ok")
      | none => (s, "bad-op")
  | _ => match parseOp ws with
      | some (.write v) => if v.length ≤ 20 then let (s', o) := step s (.write v); (s', outStr o) else (s, "bad-op")
      | some op => let (s', o) := step s op; (s', outStr o)
      | none => (s, "bad-op")

def main : IO Unit := lineLoop drvStep (Sys.init [])
