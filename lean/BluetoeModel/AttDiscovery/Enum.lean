import BluetoeModel.AttDiscovery.Lemmas
/-!
  The client side of the GATT discovery sub-procedures (Core spec Vol 3 Part G 4.4.1, 4.4.2, 4.6.1,
  4.7.1): send the request for `start … e`, take the returned items, repeat with
  `start := (last returned handle / end group handle) + 1`, stop at an Error Response.

  `clientLoop` is that loop; `clientLoop_complete` proves, for ANY responder `ask` that answers
  every request with a non-empty *prefix* of the matching items behind `start`, that the loop
  returns exactly the matching items — each once, in ascending order.  `Enum*.lean` instantiate
  `ask` with the four modelled handlers.

  The loop consumes the *items* of a response (`Reply.items`), not its bytes: for every handler a
  `*_view` theorem states `handler (req …) = some (encode (reply))`, i.e. the response bytes are the
  encoding of exactly these items.  The client's byte parser is not modelled.
-/
namespace BluetoeModel.AttDiscovery
open BluetoeModel.AttHandles

/-- what a client takes from one response: Attribute Not Found, or the listed items and the
    handle the next request starts with, or any other response (error: procedure aborted) -/
inductive Reply (α : Type) where
  | notFound
  | items (l : List α) (next : Nat)
  | other
deriving Repr

/-- the sub-procedure loop (`fuel` requests at most; `e + 1 - start` always suffice, see
    `clientLoop_complete`).  A client never sends a request with start > end. -/
def clientLoop {α : Type} (ask : Nat → Reply α) (e : Nat) : Nat → Nat → List α
  | 0, _ => []
  | fuel + 1, s =>
      if e < s then []
      else match ask s with
        | .items l next => l ++ clientLoop ask e fuel next
        | _ => []

/-- the items of a key-sorted list `M` whose key lies in `s … e` -/
def rangeOf {α : Type} (key : α → Nat) (M : List α) (s e : Nat) : List α :=
  M.filter (fun m => decide (s ≤ key m) && decide (key m ≤ e))

/-- a responder that always returns a non-empty prefix of what lies behind `s`, and a next
    starting handle behind the returned items but not behind anything else -/
def PrefixResponder {α : Type} (key : α → Nat) (M : List α) (ask : Nat → Reply α) (e : Nat) : Prop :=
  ∀ s, 0 < s → s ≤ e →
    (rangeOf key M s e = [] ∧ ask s = .notFound) ∨
    ∃ l next, ask s = .items l next ∧ l ≠ [] ∧ l <+: rangeOf key M s e ∧ s < next ∧
      (∀ x ∈ l, key x < next) ∧ (∀ m ∈ M, next ≤ key m ∨ ∃ x ∈ l, key m ≤ key x)

theorem rangeOf_nil_of_lt {α : Type} (key : α → Nat) (M : List α) (s e : Nat) (h : e < s) :
    rangeOf key M s e = [] := by
  unfold rangeOf
  rw [List.filter_eq_nil_iff]
  intro a _
  simp only [Bool.and_eq_true, decide_eq_true_eq]
  omega

/-- splitting the range behind a returned prefix -/
theorem rangeOf_split {α : Type} (key : α → Nat) (M : List α)
    (hM : M.Pairwise (fun a b => key a < key b)) (s e next : Nat) (l : List α)
    (hp : l <+: rangeOf key M s e) (hsn : s ≤ next)
    (h1 : ∀ x ∈ l, key x < next) (h2 : ∀ m ∈ M, next ≤ key m ∨ ∃ x ∈ l, key m ≤ key x) :
    rangeOf key M s e = l ++ rangeOf key M next e := by
  obtain ⟨r, hr⟩ := hp
  have hsorted : (l ++ r).Pairwise (fun a b => key a < key b) := by
    rw [hr]; exact List.Pairwise.sublist List.filter_sublist hM
  have hlr := (List.pairwise_append.mp hsorted).2.2
  -- the range behind `next` is the old range filtered by `next ≤ key`
  have hnext : rangeOf key M next e = (rangeOf key M s e).filter (fun m => decide (next ≤ key m)) := by
    unfold rangeOf
    rw [List.filter_filter]
    apply List.filter_congr
    intro m _
    rw [Bool.eq_iff_iff]
    simp only [Bool.and_eq_true, decide_eq_true_eq]
    omega
  rw [hnext, ← hr, List.filter_append]
  have hl : l.filter (fun m => decide (next ≤ key m)) = [] := by
    rw [List.filter_eq_nil_iff]
    intro x hx
    have := h1 x hx
    simp only [decide_eq_true_eq]; omega
  have hrr : r.filter (fun m => decide (next ≤ key m)) = r := by
    rw [List.filter_eq_self]
    intro m hm
    have hmM : m ∈ M := by
      have : m ∈ rangeOf key M s e := by rw [← hr]; exact List.mem_append_right _ hm
      exact (List.mem_filter.mp this).1
    rcases h2 m hmM with h | ⟨x, hx, hle⟩
    · simp only [decide_eq_true_eq]; exact h
    · have := hlr x hx m hm
      omega
  rw [hl, hrr, List.nil_append]

/-- **the loop enumerates everything exactly once**: against a prefix responder the client loop
    returns exactly the items of `M` in `s … e` (`M` is strictly ascending, so: every matching item
    once, in ascending order), using at most `e + 1 - s` requests -/
theorem clientLoop_complete {α : Type} (key : α → Nat) (M : List α)
    (hM : M.Pairwise (fun a b => key a < key b)) (ask : Nat → Reply α) (e : Nat)
    (hask : PrefixResponder key M ask e) :
    ∀ fuel s, 0 < s → e + 1 - s ≤ fuel → clientLoop ask e fuel s = rangeOf key M s e := by
  intro fuel
  induction fuel with
  | zero =>
    intro s _ hf
    simp only [clientLoop]
    exact (rangeOf_nil_of_lt key M s e (by omega)).symm
  | succ fuel ih =>
    intro s h0 hf
    simp only [clientLoop]
    by_cases hes : e < s
    · rw [if_pos hes]; exact (rangeOf_nil_of_lt key M s e hes).symm
    · rw [if_neg hes]
      rcases hask s h0 (by omega) with ⟨hn, ha⟩ | ⟨l, next, ha, _, hp, hsn, h1, h2⟩
      · rw [ha, hn]
      · rw [ha]
        simp only
        rw [ih next (by omega) (by omega)]
        exact (rangeOf_split key M hM s e next l hp (by omega) h1 h2).symm

/-- `last + 1` for the handle-valued sub-procedures -/
def nextAfter {α : Type} (key : α → Nat) (l : List α) : Nat :=
  match l.getLast? with
  | some x => key x + 1
  | none => 0

/-- in a key-sorted list every key is at most the key of the last element -/
theorem le_getLast {α : Type} (key : α → Nat) (l : List α)
    (hs : l.Pairwise (fun a b => key a < key b)) (hne : l ≠ []) :
    ∃ last, l.getLast? = some last ∧ last ∈ l ∧ ∀ x ∈ l, key x ≤ key last := by
  refine ⟨l.getLast hne, List.getLast?_eq_some_getLast hne, List.getLast_mem hne, ?_⟩
  intro x hx
  have hsplit := List.dropLast_concat_getLast hne
  rw [← hsplit] at hs hx
  rcases List.mem_append.mp hx with h | h
  · exact Nat.le_of_lt ((List.pairwise_append.mp hs).2.2 x h _ (by simp))
  · simp only [List.mem_singleton] at h; rw [h]; exact Nat.le_refl _

/-- the side conditions of `PrefixResponder` for `next = last returned handle + 1` -/
theorem nextAfter_ok {α : Type} (key : α → Nat) (M : List α)
    (hM : M.Pairwise (fun a b => key a < key b)) (s e : Nat) (l : List α)
    (hne : l ≠ []) (hp : l <+: rangeOf key M s e) :
    s < nextAfter key l ∧ (∀ x ∈ l, key x < nextAfter key l) ∧
      (∀ m ∈ M, nextAfter key l ≤ key m ∨ ∃ x ∈ l, key m ≤ key x) := by
  have hsub : l.Sublist M := hp.sublist.trans List.filter_sublist
  obtain ⟨last, hlast, hmem, hle⟩ := le_getLast key l (List.Pairwise.sublist hsub hM) hne
  have hs : s ≤ key last := by
    have := (List.mem_filter.mp (hp.sublist.subset hmem)).2
    simp only [Bool.and_eq_true, decide_eq_true_eq] at this
    exact this.1
  have hn : nextAfter key l = key last + 1 := by unfold nextAfter; rw [hlast]
  rw [hn]
  refine ⟨by omega, fun x hx => by have := hle x hx; omega, fun m _ => ?_⟩
  by_cases h : key last + 1 ≤ key m
  · exact Or.inl h
  · exact Or.inr ⟨last, hmem, by omega⟩

end BluetoeModel.AttDiscovery
