import BluetoeModel.AttDiscovery.EnumAttr
/-!
  C03 completeness and the C02 enumeration sentence for the two service discoveries
  (Read By Group Type «Primary Service», Find By Type Value «Primary Service»).

  `primaries db` is the specification: the declared services whose declaration attribute has the
  type «Primary Service», in declaration order, each as the group a client must be told
  (first handle, handle of the service's last attribute, service UUID) + its UUID width.
  The loops of the handlers are proved to output exactly `groupCut` / `rangeCut` of the primaries
  in the requested handle range: a prefix that ends only at a UUID size change or when the MTU is
  used up — nothing is skipped.
-/
namespace BluetoeModel.AttDiscovery
open BluetoeModel.AttHandles

/-- the service list describes the table: every service has its declaration attribute, together
    they are the whole table, and a «Primary Service» declaration can be read -/
structure Db.SvcWF (db : Db) : Prop where
  pos      : ∀ s ∈ db.services, 0 < s.nAttrs
  total    : sumAttrs db.services = db.tbl.length
  readable : ∀ p ∈ db.tbl, p.2.uuid = .u16 uuidPrimary → p.2.value ≠ none

/-- per service (table index of its declaration, service): collect what `f` yields -/
def cands {β : Type} (f : Nat → Svc → Option β) : Nat → List Svc → List β
  | _, [] => []
  | i, s :: ss => (f i s).toList ++ cands f (i + s.nAttrs) ss

/-- the group reported for the service whose declaration is table entry `i`, if it is primary -/
def groupAt (db : Db) (i : Nat) (svc : Svc) : Option (Group × Bool) :=
  match db.tbl[i]? with
  | some decl =>
      if decl.2.uuid = .u16 uuidPrimary then
        match decl.2.value with
        | some v => some (⟨decl.1, hbi db (i + svc.nAttrs - 1), v⟩, svc.is128)
        | none => none
      else none
  | none => none

/-- **all declared primary services**, in declaration (= handle) order -/
def primaries (db : Db) : List (Group × Bool) := cands (groupAt db) 0 db.services

def gfirst (x : Group × Bool) : Nat := x.1.first

/-! ### generic facts about `cands` -/

theorem cands_filter {β : Type} (f g : Nat → Svc → Option β) (p : β → Bool)
    (h : ∀ i s, g i s = (f i s).filter p) (i : Nat) (l : List Svc) :
    cands g i l = (cands f i l).filter p := by
  induction l generalizing i with
  | nil => rfl
  | cons s ss ih =>
    simp only [cands, List.filter_append, ih, h]
    congr 1
    cases f i s with
    | none => rfl
    | some x => by_cases hp : p x = true <;> simp [Option.filter, Option.toList, hp]

theorem mem_cands {β : Type} (f : Nat → Svc → Option β) (i : Nat) (l : List Svc) (y : β)
    (hy : y ∈ cands f i l) :
    ∃ j svc, i ≤ j ∧ j + svc.nAttrs ≤ i + sumAttrs l ∧ svc ∈ l ∧ f j svc = some y := by
  induction l generalizing i with
  | nil => cases hy
  | cons s ss ih =>
    simp only [cands, List.mem_append] at hy
    rcases hy with hy | hy
    · refine ⟨i, s, Nat.le_refl _, by simp only [sumAttrs]; omega, by simp, ?_⟩
      cases hf : f i s with
      | none => rw [hf] at hy; cases hy
      | some x => rw [hf] at hy; simp [Option.toList] at hy; rw [hy]
    · obtain ⟨j, svc, h1, h2, h3, h4⟩ := ih _ hy
      exact ⟨j, svc, by omega, by simp only [sumAttrs]; omega, by simp [h3], h4⟩

theorem pairwise_total {α : Type} (R : α → α → Prop) (l : List α) (h : l.Pairwise R) (a b : α)
    (ha : a ∈ l) (hb : b ∈ l) : a = b ∨ R a b ∨ R b a := by
  induction l with
  | nil => cases ha
  | cons x t ih =>
    have hx := (List.pairwise_cons.mp h).1
    have ht := (List.pairwise_cons.mp h).2
    rcases List.mem_cons.mp ha with rfl | ha' <;> rcases List.mem_cons.mp hb with rfl | hb'
    · exact Or.inl rfl
    · exact Or.inr (Or.inl (hx b hb'))
    · exact Or.inr (Or.inr (hx a ha'))
    · exact ih ht ha' hb'

/-- side conditions of `PrefixResponder` for groups: `next` = end group handle of the last
    returned group + 1 -/
theorem nextAfterGroup_ok {α : Type} (fst lst : α → Nat) (M : List α)
    (hM : M.Pairwise (fun a b => lst a < fst b)) (hfl : ∀ m ∈ M, fst m ≤ lst m)
    (s e : Nat) (l : List α) (hne : l ≠ []) (hp : l <+: rangeOf fst M s e) :
    s < nextAfter lst l ∧ (∀ x ∈ l, fst x < nextAfter lst l) ∧
      (∀ m ∈ M, nextAfter lst l ≤ fst m ∨ ∃ x ∈ l, fst m ≤ fst x) := by
  have hsubset : ∀ x ∈ l, x ∈ M := fun x hx => (List.mem_filter.mp (hp.sublist.subset hx)).1
  have hlast := List.getLast?_eq_some_getLast hne
  have hmem := List.getLast_mem hne
  have hn : nextAfter lst l = lst (l.getLast hne) + 1 := by unfold nextAfter; rw [hlast]
  have hs : s ≤ fst (l.getLast hne) := by
    have := (List.mem_filter.mp (hp.sublist.subset hmem)).2
    simp only [Bool.and_eq_true, decide_eq_true_eq] at this
    exact this.1
  have hL := hfl _ (hsubset _ hmem)
  rw [hn]
  refine ⟨by omega, ?_, ?_⟩
  · intro x hx
    rcases pairwise_total _ M hM x (l.getLast hne) (hsubset x hx) (hsubset _ hmem) with h | h | h
    · rw [h]; omega
    · have := hfl x (hsubset x hx); omega
    · -- the last element cannot lie before x
      exfalso
      have hsorted : l.Pairwise (fun a b => lst a < fst b) :=
        List.Pairwise.sublist (hp.sublist.trans List.filter_sublist) hM
      have hsplit := List.dropLast_concat_getLast hne
      rw [← hsplit] at hsorted hx
      rcases List.mem_append.mp hx with hx' | hx'
      · have := (List.pairwise_append.mp hsorted).2.2 x hx' _ (List.mem_singleton.mpr rfl)
        have := hfl x (hsubset x (by rw [← hsplit]; exact List.mem_append_left _ hx'))
        omega
      · simp only [List.mem_singleton] at hx'
        rw [hx'] at h; omega
  · intro m hm
    rcases pairwise_total _ M hM m (l.getLast hne) hm (hsubset _ hmem) with h | h | h
    · exact Or.inr ⟨_, hmem, by rw [h]; exact Nat.le_refl _⟩
    · have := hfl m hm
      exact Or.inr ⟨_, hmem, by omega⟩
    · exact Or.inl (by omega)

/-! ### the primaries are ordered: each group ends before the next begins -/

theorem groupAt_some (db : Db) (i : Nat) (svc : Svc) (x : Group × Bool) (h : groupAt db i svc = some x) :
    ∃ decl, db.tbl[i]? = some decl ∧ decl.2.uuid = .u16 uuidPrimary ∧ decl.2.value = some x.1.value ∧
      x.1.first = decl.1 ∧ x.1.last = hbi db (i + svc.nAttrs - 1) ∧ x.2 = svc.is128 := by
  unfold groupAt at h
  cases hd : db.tbl[i]? with
  | none => rw [hd] at h; cases h
  | some decl =>
    rw [hd] at h
    simp only at h
    split at h
    · rename_i hu
      cases hv : decl.2.value with
      | none => rw [hv] at h; cases h
      | some v =>
        rw [hv] at h
        cases h
        exact ⟨decl, rfl, hu, hv, rfl, rfl, rfl⟩
    · cases h

theorem tbl_lt (db : Db) (hs : Sorted db.tbl) (i j : Nat) (p q : Nat × Attr)
    (hp : db.tbl[i]? = some p) (hq : db.tbl[j]? = some q) (hij : i < j) : p.1 < q.1 := by
  obtain ⟨hi, rfl⟩ := List.getElem?_eq_some_iff.mp hp
  obtain ⟨hj, rfl⟩ := List.getElem?_eq_some_iff.mp hq
  exact List.pairwise_iff_getElem.mp hs i j hi hj hij

theorem tbl_le (db : Db) (hs : Sorted db.tbl) (i j : Nat) (p q : Nat × Attr)
    (hp : db.tbl[i]? = some p) (hq : db.tbl[j]? = some q) (hij : i ≤ j) : p.1 ≤ q.1 := by
  rcases Nat.lt_or_eq_of_le hij with h | h
  · exact Nat.le_of_lt (tbl_lt db hs i j p q hp hq h)
  · subst h; rw [hp] at hq; cases hq; exact Nat.le_refl _

/-- first ≤ last for the group of a service that lies inside the table -/
theorem groupAt_first_le_last (db : Db) (hs : Sorted db.tbl) (i : Nat) (svc : Svc) (x : Group × Bool)
    (h : groupAt db i svc = some x) (hn : 0 < svc.nAttrs) (hb : i + svc.nAttrs ≤ db.tbl.length) :
    x.1.first ≤ x.1.last := by
  obtain ⟨decl, hd, _, _, hf, hl, _⟩ := groupAt_some db i svc x h
  have hlt : i + svc.nAttrs - 1 < db.tbl.length := by omega
  have hg := List.getElem?_eq_getElem hlt
  rw [hf, hl, hbi_eq hg]
  exact tbl_le db hs i _ _ _ hd hg (by omega)

theorem cands_groupAt_sorted (db : Db) (hs : Sorted db.tbl) (i : Nat) (l : List Svc)
    (hpos : ∀ s ∈ l, 0 < s.nAttrs) (hb : i + sumAttrs l ≤ db.tbl.length) :
    (cands (groupAt db) i l).Pairwise (fun a b => a.1.last < b.1.first) ∧
      ∀ m ∈ cands (groupAt db) i l, m.1.first ≤ m.1.last := by
  induction l generalizing i with
  | nil => exact ⟨List.Pairwise.nil, fun m hm => by cases hm⟩
  | cons s ss ih =>
    have hsn := hpos s (by simp)
    simp only [sumAttrs] at hb
    obtain ⟨ih1, ih2⟩ := ih (i + s.nAttrs) (fun t ht => hpos t (by simp [ht])) (by omega)
    simp only [cands]
    constructor
    · rw [List.pairwise_append]
      refine ⟨?_, ih1, ?_⟩
      · cases groupAt db i s with
        | none => exact List.Pairwise.nil
        | some x => exact List.pairwise_singleton _ _
      · intro a ha b hb'
        cases hf : groupAt db i s with
        | none => rw [hf] at ha; cases ha
        | some x =>
          rw [hf] at ha
          simp only [Option.toList, List.mem_singleton] at ha
          subst ha
          obtain ⟨_, _, _, _, _, hl, _⟩ := groupAt_some db i s a hf
          obtain ⟨j, svc, hj1, _, _, hj4⟩ := mem_cands _ _ _ _ hb'
          obtain ⟨declj, hdj, _, _, hfj, _, _⟩ := groupAt_some db j svc b hj4
          have hlt : i + s.nAttrs - 1 < db.tbl.length := by omega
          have hg := List.getElem?_eq_getElem hlt
          rw [hl, hfj, hbi_eq hg]
          exact tbl_lt db hs _ j _ _ hg hdj (by omega)
    · intro m hm
      rcases List.mem_append.mp hm with hm | hm
      · cases hf : groupAt db i s with
        | none => rw [hf] at hm; cases hm
        | some x =>
          rw [hf] at hm
          simp only [Option.toList, List.mem_singleton] at hm
          subst hm
          exact groupAt_first_le_last db hs i s m hf hsn (by omega)
      · exact ih2 m hm

/-! ### index interval ↔ handle range -/

theorem firstIndex_iff (db : Db) (hs : Sorted db.tbl) (s si : Nat) (hf : firstIndex db s = some si)
    (i : Nat) (p : Nat × Attr) (hp : db.tbl[i]? = some p) : si ≤ i ↔ s ≤ p.1 := by
  unfold firstIndex at hf
  simp only at hf
  split at hf
  case isFalse => cases hf
  case isTrue hlt =>
  have hsi := Option.some.inj hf
  have := key_lt_iff hs s i p hp
  omega

theorem lastIndex_iff (db : Db) (hs : Sorted db.tbl) (e li : Nat) (hl : lastIndex db e = some li)
    (i : Nat) (p : Nat × Attr) (hp : db.tbl[i]? = some p) : i ≤ li ↔ p.1 ≤ e := by
  have hi : i < db.tbl.length := (List.getElem?_eq_some_iff.mp hp).1
  have hk := key_lt_iff hs e i p hp
  unfold lastIndex firstIndex at hl
  simp only at hl
  by_cases hm : db.tbl.countP (fun p => decide (p.1 < e)) < db.tbl.length
  · rw [if_pos hm] at hl
    simp only at hl
    have hgm := List.getElem?_eq_getElem hm
    have hge : e ≤ (db.tbl[db.tbl.countP (fun p => decide (p.1 < e))]'hm).1 := by
      have := (not_congr (key_lt_iff hs e _ _ hgm)).mpr (by omega)
      omega
    rw [hbi_eq hgm] at hl
    by_cases heq : (db.tbl[db.tbl.countP (fun p => decide (p.1 < e))]'hm).1 = e
    · rw [if_pos heq] at hl
      have hli := Option.some.inj hl
      constructor
      · intro h
        rcases Nat.lt_or_eq_of_le h with h' | h'
        · have := hk.mpr (by omega); omega
        · have : i = db.tbl.countP (fun p => decide (p.1 < e)) := by omega
          subst this
          rw [hgm] at hp; cases hp; omega
      · intro h
        rcases Nat.lt_or_ge li i with h' | h'
        · exfalso
          have := tbl_lt db hs _ i _ p hgm hp (by omega)
          omega
        · exact h'
    · rw [if_neg heq] at hl
      split at hl
      · cases hl
      · rename_i hm0
        have hli := Option.some.inj hl
        constructor
        · intro h
          have := hk.mpr (by omega); omega
        · intro h
          rcases Nat.lt_or_ge li i with h' | h'
          · exfalso
            have := tbl_le db hs _ i _ p hgm hp (by omega)
            omega
          · exact h'
  · rw [if_neg hm] at hl
    simp only at hl
    split at hl
    · cases hl
    · have hli := Option.some.inj hl
      have := hk.mpr (by omega)
      omega

theorem checkRange_ok_first (db : Db) (pdu : List UInt8) (op : UInt8) (a b s e si : Nat)
    (h : checkRange db pdu op a b = .ok s e si) : firstIndex db s = some si := by
  unfold checkRange at h
  split at h
  · cases h
  · simp only at h
    split at h
    · cases h
    · split at h
      · cases h
      · rename_i si' hf
        split at h
        · cases h
        · cases h; exact hf

end BluetoeModel.AttDiscovery
