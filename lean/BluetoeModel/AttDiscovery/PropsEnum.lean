import BluetoeModel.AttDiscovery.EnumAttr
/-!
  # C02, last sentence — "Repeating the request from the handle after the last returned one
  # eventually enumerates every matching attribute exactly once."

  `clientLoop ask e fuel s` (Enum.lean) is the client: request `s … e`, take the items, continue
  behind the last one, stop at an Error Response.  `ask*` are the modelled handlers seen through
  `*_view` (response bytes = encoding of the items the loop consumes).

  Find Information and Read By Type do NOT restart at a UUID / value size change: they skip the
  entry and continue behind it (pinned by the repository's tests; known findings).  The sentence is
  therefore false in general (`*_enumerate_full`, `*_witness`); it is proved under the *precise*
  per-request condition `FindInformationNoSkip` / `ReadByTypeNoSkip` ("the selection loop returns a
  prefix") and, as corollaries, under the conditions a user can check on a declaration: one UUID
  size / all values of the type readable and of one length.  The excluded cases are exactly the
  witnesses: another UUID size before the last returned entry, an unreadable matching value, a
  matching value of another length.  Read By Group Type / Find By Type Value stop where they cannot
  continue, so they need no such condition (EnumGroup.lean / the C03 theorems below).
-/
namespace BluetoeModel.AttDiscovery
open BluetoeModel.AttHandles

/-! ### Find Information -/

/-- **enumerate_all, Find Information**: the loop returns exactly the attributes in `s … e`
    (`inRange` = the table entries in range, strictly ascending: each once, in order) -/
theorem find_information_enumerate_all (db : Db) (hw : db.WF) (mtu e s fuel : Nat) (hm : 23 ≤ mtu)
    (he : e ≤ 0xFFFF) (h0 : 0 < s) (hf : e + 1 - s ≤ fuel) (hns : FindInformationNoSkip db mtu e) :
    clientLoop (askFindInformation db mtu e) e fuel s = inRange db s e :=
  clientLoop_complete (fun p : Nat × Attr => p.1) db.tbl hw.sorted _ e
    (findInformation_prefixResponder db hw mtu e hm he hns) fuel s h0 hf

/-- … in particular when all attributes up to `e` have UUIDs of one size -/
theorem find_information_enumerate_uniform (db : Db) (hw : db.WF) (mtu e s fuel : Nat) (b : Bool)
    (hm : 23 ≤ mtu) (he : e ≤ 0xFFFF) (h0 : 0 < s) (hf : e + 1 - s ≤ fuel)
    (hu : ∀ p ∈ inRange db 1 e, is16 p.2 = b) :
    clientLoop (askFindInformation db mtu e) e fuel s = inRange db s e :=
  find_information_enumerate_all db hw mtu e s fuel hm he h0 hf (findInformationNoSkip_of_uniform db mtu e b hu)

/-- a table whose attributes all have 16 bit types (handles with a gap) -/
def exDb16 : Db :=
  { tbl := [ (1, ⟨.u16 0x2800, some [0x0F, 0x18]⟩), (2, ⟨.u16 0x2803, some [0x02, 3, 0, 0x19, 0x2A]⟩),
             (3, ⟨.u16 0x2A19, some [100]⟩), (0x10, ⟨.u16 0x2800, some [0x15, 0x18]⟩),
             (0x11, ⟨.u16 0x2803, some [0x02, 0x12, 0, 0x56, 0x2A]⟩), (0x12, ⟨.u16 0x2A56, some [1]⟩),
             (0x13, ⟨.u16 0x2803, some [0x02, 0x14, 0, 0x56, 0x2A]⟩), (0x14, ⟨.u16 0x2A56, some [2]⟩) ],
    services := [⟨3, false⟩, ⟨5, false⟩] }

theorem exDb16_WF : exDb16.WF := ⟨by decide, by unfold Sorted; decide, by decide⟩

-- non-vacuity: the hypotheses hold for exDb16 (8 attributes, MTU 23 = 5 per response: two requests)
example : ∀ p ∈ inRange exDb16 1 0xFFFF, is16 p.2 = true := by decide
example : clientLoop (askFindInformation exDb16 23 0xFFFF) 0xFFFF 3 1 = exDb16.tbl := by decide

/-- full strength: the loop over Find Information enumerates every attribute, for every table -/
def find_information_enumerate_full : Prop :=
  ∀ (db : Db), db.WF → ∀ (mtu e s : Nat), 23 ≤ mtu → e ≤ 0xFFFF → 0 < s →
    clientLoop (askFindInformation db mtu e) e (e + 1 - s) s = inRange db s e

/-- `exDb`: handles 1, 2 (16 bit types), 3 (128 bit type), 0x10 …: the first response lists
    1, 2, 0x10, 0x11, 0x12 — handle 3 is skipped and the loop continues at 0x13 -/
theorem find_information_enumerate_witness : ¬ find_information_enumerate_full := by
  intro h
  have := h exDb exDb_WF 23 0x14 1 (by decide) (by decide) (by decide)
  revert this
  decide

/-- the excluded case is exactly "an entry of the other UUID size before the last returned one" -/
theorem find_information_noskip_fails_witness : ¬ FindInformationNoSkip exDb 23 0x14 := by
  intro h
  have := h 1 (1, ⟨.u16 0x2801, some [0x34, 0x12]⟩) (by decide) (by decide) (by decide)
  revert this
  decide

/-! ### Read By Type -/

/-- **enumerate_all, Read By Type**: the loop returns exactly the handles of the attributes in
    `s … e` whose type matches, ascending, each once -/
theorem read_by_type_enumerate_all (db : Db) (hw : db.WF) (mtu e s fuel : Nat) (ty : List UInt8)
    (hty : ty.length = 2 ∨ ty.length = 16) (he : e ≤ 0xFFFF) (h0 : 0 < s) (hf : e + 1 - s ≤ fuel)
    (hns : ReadByTypeNoSkip db mtu e ty) :
    clientLoop (askReadByType db mtu e ty) e fuel s = (matching db ty s e).map (·.1) := by
  have hsortedM : ((db.tbl.filter (fun p => (mkFilter ty).matches p.2)).map (·.1)).Pairwise
      (fun a b => id a < id b) := by
    rw [List.pairwise_map]
    exact List.Pairwise.sublist List.filter_sublist hw.sorted
  rw [clientLoop_complete id _ hsortedM _ e (readByType_prefixResponder db hw mtu e ty hty he hns) fuel s h0 hf]
  unfold rangeOf matching inRange
  rw [List.filter_map, List.filter_filter, List.filter_filter]
  congr 1
  apply List.filter_congr
  intro p _
  simp only [Function.comp, id]
  rw [Bool.and_comm]

/-- … in particular when every attribute of that type up to `e` is readable and their values have
    one length -/
theorem read_by_type_enumerate_uniform (db : Db) (hw : db.WF) (mtu e s fuel d : Nat) (ty : List UInt8)
    (hty : ty.length = 2 ∨ ty.length = 16) (hm : 23 ≤ mtu) (he : e ≤ 0xFFFF) (h0 : 0 < s)
    (hf : e + 1 - s ≤ fuel)
    (hu : ∀ p ∈ matching db ty 1 e, ∃ v, p.2.value = some v ∧ v.length = d) :
    clientLoop (askReadByType db mtu e ty) e fuel s = (matching db ty s e).map (·.1) :=
  read_by_type_enumerate_all db hw mtu e s fuel ty hty he h0 hf (readByTypeNoSkip_of_uniform db mtu e d ty hm hu)

-- non-vacuity: characteristic declarations of exDb16 (5 byte values, MTU 23 = 3 per response)
example : ∀ p ∈ matching exDb16 [0x03, 0x28] 1 0xFFFF, ∃ v, p.2.value = some v ∧ v.length = 5 := by
  intro p hp
  have hm : matching exDb16 [0x03, 0x28] 1 0xFFFF =
      [(2, ⟨.u16 0x2803, some [0x02, 3, 0, 0x19, 0x2A]⟩), (0x11, ⟨.u16 0x2803, some [0x02, 0x12, 0, 0x56, 0x2A]⟩),
       (0x13, ⟨.u16 0x2803, some [0x02, 0x14, 0, 0x56, 0x2A]⟩)] := by decide
  rw [hm] at hp
  simp only [List.mem_cons, List.not_mem_nil, or_false] at hp
  rcases hp with rfl | rfl | rfl <;> exact ⟨_, rfl, rfl⟩
example : clientLoop (askReadByType exDb16 23 0xFFFF [0x03, 0x28]) 0xFFFF 3 1 = [2, 0x11, 0x13] := by decide

/-- full strength: the loop over Read By Type enumerates every attribute of the type -/
def read_by_type_enumerate_full : Prop :=
  ∀ (db : Db), db.WF → ∀ (mtu e s : Nat) (ty : List UInt8), 23 ≤ mtu → e ≤ 0xFFFF → 0 < s →
    (ty.length = 2 ∨ ty.length = 16) →
    clientLoop (askReadByType db mtu e ty) e (e + 1 - s) s = (matching db ty s e).map (·.1)

/-- excluded case 1, an unreadable matching value: `exDb` 0x12 and 0x14 have type 0x2A56, 0x12
    refuses the read — the loop returns only 0x14 -/
theorem read_by_type_enumerate_unreadable_witness : ¬ read_by_type_enumerate_full := by
  intro h
  have := h exDb exDb_WF 23 0x14 0x10 [0x56, 0x2A] (by decide) (by decide) (by decide) (by decide)
  revert this
  decide

/-- three values of one type with lengths 1, 2, 1 -/
def exDbSizes : Db :=
  { tbl := [ (1, ⟨.u16 0x2800, some [0x15, 0x18]⟩),
             (2, ⟨.u16 0x2803, some [0x02, 3, 0, 0x56, 0x2A]⟩), (3, ⟨.u16 0x2A56, some [1]⟩),
             (4, ⟨.u16 0x2803, some [0x02, 5, 0, 0x56, 0x2A]⟩), (5, ⟨.u16 0x2A56, some [2, 3]⟩),
             (6, ⟨.u16 0x2803, some [0x02, 7, 0, 0x56, 0x2A]⟩), (7, ⟨.u16 0x2A56, some [4]⟩) ],
    services := [⟨7, false⟩] }

theorem exDbSizes_WF : exDbSizes.WF := ⟨by decide, by unfold Sorted; decide, by decide⟩

/-- excluded case 2, a matching value of another length: the first response lists 3 and 7, handle 5
    (2 bytes) is skipped and never returned -/
theorem read_by_type_enumerate_size_witness : ¬ read_by_type_enumerate_full := by
  intro h
  have := h exDbSizes exDbSizes_WF 23 7 1 [0x56, 0x2A] (by decide) (by decide) (by decide) (by decide)
  revert this
  decide

theorem read_by_type_noskip_fails_witness :
    ¬ ReadByTypeNoSkip exDbSizes 23 7 [0x56, 0x2A] ∧ ¬ ReadByTypeNoSkip exDb 23 0x14 [0x56, 0x2A] := by
  constructor
  · intro h
    have := (h 1 (by decide) (by decide)).1
    revert this
    decide
  · intro h
    have := (h 0x10 (by decide) (by decide)).1
    revert this
    decide

end BluetoeModel.AttDiscovery
