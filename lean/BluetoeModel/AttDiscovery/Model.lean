import BluetoeModel.AttHandles.Model
/-!
  Model of the ATT discovery request handlers of `bluetoe::server<>` over an attribute *table*
  (so the theorems are parametric in any strictly ascending table; `AttHandles` shows that the
  table computed from a declaration is one).  The handlers are modelled as they are AFTER the
  fixes `fixes/attdisc-01-end-handle-in-gap`, `-02-secondary-services`, `-03-read-by-type-0x0001`.

    src: bluetoe/server.hpp  check_size_and_handle_range, last_handle_index,
         handle_find_information_request / collect_handle_uuid_tuples,
         handle_read_by_type_request / all_attributes / details::collect_attributes,
         handle_read_by_group_type_request / details::collect_primary_services,
         handle_find_by_type_value_request / all_services_by_group / details::services_by_group /
         details::value_filter / details::collect_find_by_type_groups, error_response
    src: bluetoe/service.hpp service::read_primary_service_response
    src: bluetoe/filter.hpp  uuid_filter

  Each handler is `encode ∘ select`: `select` is the loop of the C++ handler returning the chosen
  table entries, `encode` writes them the way the loop body does.  Index computations that would
  leave the table in C++ (`mapped - 1` with `mapped = 0`, `attribute_at( n )`) yield `none`;
  Props.lean proves that `none` is never produced for a well-formed table.
-/
namespace BluetoeModel.AttDiscovery
open BluetoeModel.AttHandles

/-- `for_< services >::each` sees, per service, its attribute count and UUID width -/
structure Svc where
  nAttrs : Nat
  is128  : Bool
deriving Repr, DecidableEq

structure Db where
  tbl      : List (Nat × Attr)      -- (handle_by_index( i ), attribute_at( i )) for all i
  services : List Svc
deriving Repr

/-! ### handle mapping on the table (see AttHandles.first_index_count for the bridge) -/

-- src: handle_index_mapping::first_index_by_handle — least index with handle ≥ h
def firstIndex (db : Db) (h : Nat) : Option Nat :=
  let k := db.tbl.countP (fun p => decide (p.1 < h))
  if k < db.tbl.length then some k else none

-- src: handle_index_mapping::handle_by_index (0 = invalid_attribute_handle behind the table)
def hbi (db : Db) (i : Nat) : Nat :=
  match db.tbl[i]? with
  | some p => p.1
  | none => 0

def read16 (pdu : List UInt8) (i : Nat) : Nat :=
  match pdu[i]?, pdu[i + 1]? with
  | some a, some b => a.toNat + 256 * b.toNat
  | _, _ => 0          -- never used: every caller has checked the PDU length before

-- src: server::error_response (out_size ≥ 23 ≥ 5 always holds in l2cap_input)
def errorRsp (op : UInt8) (handle : Nat) (code : UInt8) : List UInt8 :=
  [0x01, op, lo handle, hi handle, code]

def errInvalidHandle : UInt8 := 0x01
def errInvalidPdu : UInt8 := 0x04
def errAttributeNotFound : UInt8 := 0x0A
def errUnsupportedGroupType : UInt8 := 0x10

inductive Checked where
  | err (rsp : List UInt8)
  | ok (startHandle endHandle startIndex : Nat)
deriving Repr

-- src: server::check_size_and_handle_range< A, B > (fixed: an empty range is Attribute Not Found)
def checkRange (db : Db) (pdu : List UInt8) (op : UInt8) (a b : Nat) : Checked :=
  if pdu.length ≠ a ∧ pdu.length ≠ b then .err (errorRsp op 0 errInvalidPdu)
  else
    let s := read16 pdu 1
    let e := read16 pdu 3
    if s = 0 ∨ s > e then .err (errorRsp op s errInvalidHandle)
    else match firstIndex db s with
      | none => .err (errorRsp op s errAttributeNotFound)
      | some si =>
          if hbi db si > e then .err (errorRsp op s errAttributeNotFound) else .ok s e si

-- src: server::last_handle_index (fixed: steps back when the ending handle is not an attribute)
def lastIndex (db : Db) (e : Nat) : Option Nat :=
  match firstIndex db e with
  | none => if db.tbl.length = 0 then none else some (db.tbl.length - 1)
  | some m => if hbi db m = e then some m else if m = 0 then none else some (m - 1)

/-- table entries with index `si … li` -/
def slice (db : Db) (si li : Nat) : List (Nat × Attr) := (db.tbl.drop si).take (li + 1 - si)

/-! ### Find Information -/

def is16 (a : Attr) : Bool := !a.uuid.is128

-- src: server::collect_handle_uuid_tuples (the loop; `room` = out_end - out)
def selectTuples (only16 : Bool) : Nat → List (Nat × Attr) → List (Nat × Attr)
  | _, [] => []
  | room, p :: rest =>
      let sz := if only16 then 4 else 18
      if room < sz then []
      else if only16 == is16 p.2 then p :: selectTuples only16 (room - sz) rest
      else selectTuples only16 room rest

/-- loop body: handle + UUID.  `write_128bit_uuid` takes the 16 bytes out of the preceding
    characteristic declaration; the model takes them from the entry's type (equal by
    `AttHandles.char_decl_names_value_handle`, and compared with the real bytes by the check) -/
def encodeTuples (l : List (Nat × Attr)) : List UInt8 :=
  l.flatMap (fun p => [lo p.1, hi p.1] ++ p.2.uuid.bytes)

-- src: server::handle_find_information_request
def findInformation (db : Db) (mtu : Nat) (pdu : List UInt8) : Option (List UInt8) :=
  match checkRange db pdu 0x04 5 5 with
  | .err r => some r
  | .ok _ e si =>
      match db.tbl[si]?, lastIndex db e with
      | some first, some li =>
          let only16 := is16 first.2
          some ([0x05, if only16 then 0x01 else 0x02] ++
            encodeTuples (selectTuples only16 (mtu - 2) (slice db si li)))
      | _, _ => none

/-! ### Read By Type -/

inductive TypeFilter where
  | t16 (v : Nat)
  | t128                    -- a 128 bit type that is not representable as 16 bit
deriving Repr, DecidableEq

/-- the first 12 bytes of the Bluetooth base UUID, little endian -/
def baseUuid12 : List UInt8 := [0xFB, 0x34, 0x9B, 0x5F, 0x80, 0x00, 0x00, 0x80, 0x00, 0x10, 0x00, 0x00]

-- src: filter.hpp:uuid_filter::uuid_filter / representable_as_16bit_uuid
def mkFilter (ty : List UInt8) : TypeFilter :=
  if ty.length = 16 then
    if ty.take 12 = baseUuid12 ∧ ty[14]? = some 0 ∧ ty[15]? = some 0 then .t16 (read16 ty 12) else .t128
  else .t16 (read16 ty 0)

-- src: filter.hpp:uuid_filter::operator() — no attribute implements compare_128bit_uuid, so a real
-- 128 bit filter never matches; (fixed) internal_128bit_uuid = 1 is not a 16 bit type
def TypeFilter.matches : TypeFilter → Attr → Bool
  | .t128, _ => false
  | .t16 v, a => match a.uuid with
      | .u16 x => x != 1 && x == v
      | .u128 _ => false

-- src: details::collect_attributes::operator() applied to the filtered attributes in index order
def selectAttrs : Nat → Option Nat → List (Nat × Attr) → List (Nat × List UInt8)
  | _, _, [] => []
  | room, size, p :: rest =>
      if room < 2 then selectAttrs room size rest
      else
        let maxData := min room 255 - 2
        match p.2.value with
        | none => selectAttrs room size rest                      -- access ≠ success: skipped
        | some v =>
            let data := v.take maxData
            let sz := match size with | some s => s | none => data.length + 2
            if data.length + 2 = sz then (p.1, data) :: selectAttrs (room - sz) (some sz) rest
            else selectAttrs room (some sz) rest

def encodeAttrs (l : List (Nat × List UInt8)) : List UInt8 :=
  l.flatMap (fun p => [lo p.1, hi p.1] ++ p.2)

-- src: server::handle_read_by_type_request + all_attributes
def readByType (db : Db) (mtu : Nat) (pdu : List UInt8) : Option (List UInt8) :=
  match checkRange db pdu 0x08 7 21 with
  | .err r => some r
  | .ok s e si =>
      match lastIndex db e with
      | none => none
      | some li =>
          let f := mkFilter (pdu.drop 5)
          let sel := selectAttrs (mtu - 2) none ((slice db si li).filter (fun p => f.matches p.2))
          match sel with
          | [] => some (errorRsp 0x08 s errAttributeNotFound)
          | p :: _ => some ([0x09, UInt8.ofNat (p.2.length + 2)] ++ encodeAttrs sel)

/-! ### Read By Group Type -/

structure Group where
  first : Nat
  last  : Nat
  value : List UInt8
deriving Repr, DecidableEq

structure GState where
  out     : List Group
  room    : Nat
  index   : Nat
  stopped : Bool
  is128   : Option Bool          -- none = `first_` still set
deriving Repr

-- src: details::collect_primary_services::each + service::read_primary_service_response
def groupEach (db : Db) (si li : Nat) (st : GState) (svc : Svc) : Option GState :=
  match db.tbl[st.index]? with
  | none => none                                         -- attribute_at behind the table
  | some decl =>
      let next := st.index + svc.nAttrs
      if !st.stopped && si ≤ st.index && st.index ≤ li && decl.2.uuid == .u16 uuidPrimary then
        let (is128, stopped) := match st.is128 with
          | none => (svc.is128, st.stopped)
          | some b => (b, b != svc.is128)
        let sz := if is128 then 20 else 6
        if is128 == svc.is128 && sz ≤ st.room then
          match decl.2.value with
          | some v => some { out := st.out ++ [⟨decl.1, hbi db (next - 1), v⟩], room := st.room - sz,
                             index := next, stopped := stopped, is128 := some is128 }
          | none => some { st with index := next, stopped := stopped, is128 := some is128 }
        else some { st with index := next, stopped := stopped, is128 := some is128 }
      else some { st with index := next }

def groupLoop (db : Db) (si li : Nat) : GState → List Svc → Option GState
  | st, [] => some st
  | st, svc :: rest => match groupEach db si li st svc with
      | some st' => groupLoop db si li st' rest
      | none => none

def encodeGroups (l : List Group) : List UInt8 :=
  l.flatMap (fun g => [lo g.first, hi g.first, lo g.last, hi g.last] ++ g.value)

-- src: server::handle_read_by_group_type_request
def readByGroupType (db : Db) (mtu : Nat) (pdu : List UInt8) : Option (List UInt8) :=
  match checkRange db pdu 0x10 7 21 with
  | .err r => some r
  | .ok s e si =>
      if pdu.length = 21 ∨ read16 pdu 5 ≠ uuidPrimary then some (errorRsp 0x10 s errUnsupportedGroupType)
      else match lastIndex db e, firstIndex db 1 with
        | some li, some i0 =>
            match groupLoop db si li ⟨[], mtu - 2, i0, false, none⟩ db.services with
            | none => none
            | some st => match st.out, st.is128 with
                | [], _ => some (errorRsp 0x10 s errAttributeNotFound)
                | _, none => none
                | out, some b => some ([0x11, if b then 20 else 6] ++ encodeGroups out)
        | _, _ => none

/-! ### Find By Type Value -/

structure FState where
  out   : List (Nat × Nat)
  room  : Nat
  index : Nat
  found : Bool
deriving Repr

-- src: details::services_by_group::each + value_filter (fixed: primary only) + collect_find_by_type_groups
def findEach (db : Db) (si : Nat) (ei : Option Nat) (val : List UInt8) (st : FState) (svc : Svc) :
    Option FState :=
  let next := st.index + svc.nAttrs
  let inRange := si ≤ st.index && (match ei with | some e => st.index ≤ e | none => true)
  if inRange then
    match db.tbl[st.index]? with
    | none => none
    | some decl =>
        if decl.2.uuid == .u16 uuidPrimary && decl.2.value == some val then
          if 4 ≤ st.room then
            some { out := st.out ++ [(decl.1, hbi db (next - 1))], room := st.room - 4, index := next, found := true }
          else some { st with index := next }
        else some { st with index := next }
  else some { st with index := next }

def findLoop (db : Db) (si : Nat) (ei : Option Nat) (val : List UInt8) : FState → List Svc → Option FState
  | st, [] => some st
  | st, svc :: rest => match findEach db si ei val st svc with
      | some st' => findLoop db si ei val st' rest
      | none => none

def encodeRanges (l : List (Nat × Nat)) : List UInt8 :=
  l.flatMap (fun g => [lo g.1, hi g.1, lo g.2, hi g.2])

-- src: details::services_by_group::services_by_group (ending index with its own step back;
-- `none` = invalid_attribute_index = "no upper limit")
def groupEndIndex (db : Db) (e : Nat) : Option (Option Nat) :=
  match firstIndex db e with
  | none => some none
  | some m => if hbi db m = e then some (some m) else if m = 0 then none else some (some (m - 1))

-- src: server::handle_find_by_type_value_request + all_services_by_group
def findByTypeValue (db : Db) (mtu : Nat) (pdu : List UInt8) : Option (List UInt8) :=
  match checkRange db pdu 0x06 9 23 with
  | .err r => some r
  | .ok s e si =>
      if read16 pdu 5 ≠ uuidPrimary then some (errorRsp 0x06 s errUnsupportedGroupType)
      else match groupEndIndex db e with
        | none => none
        | some ei =>
            match findLoop db si ei (pdu.drop 7) ⟨[], mtu - 1, 0, false⟩ db.services with
            | none => none
            | some st =>
                if st.found then some ([0x07] ++ encodeRanges st.out)
                else some (errorRsp 0x06 s errAttributeNotFound)

/-! ### dispatch (the four discovery opcodes of server::l2cap_input) -/

def discover (db : Db) (mtu : Nat) (pdu : List UInt8) : Option (List UInt8) :=
  match pdu with
  | [] => none
  | op :: _ =>
      if op = 0x04 then findInformation db mtu pdu
      else if op = 0x06 then findByTypeValue db mtu pdu
      else if op = 0x08 then readByType db mtu pdu
      else if op = 0x10 then readByGroupType db mtu pdu
      else none

/-- the table view of a declaration -/
def ofDecl (d : ServerDecl) : Db :=
  { tbl := table d, services := d.map (fun s => ⟨s.nAttrs, s.uuid.is128⟩) }

end BluetoeModel.AttDiscovery
