import BluetoeModel.AttDiscovery.PropsGroup
import BluetoeModel.AttDiscovery.PropsFind
/-!
  # Bridge: the service list of every declaration partitions its table (`Db.SvcWF (ofDecl d)`)

  The completeness / enumeration theorems of C02 and C03 are stated over a table `db` with a service
  list that partitions it (`Db.SvcWF`).  Up to here `Db.SvcWF` was shown per example only.  This file
  derives it for the table view `ofDecl d` of **every** server declaration `d`, so that the theorems
  hold for every declared server, not only for tables that happen to be handed in with the invariant:

  * `pos`      — every service has at least its declaration attribute (`number_of_attributes ≥ 1`);
  * `total`    — the per-service attribute counts add up to the length of the table
                 (`server::number_of_attributes = Σ service::number_of_attributes`);
  * `readable` — an attribute of type «Primary Service» can be read.  The service declaration
                 attributes always can; the only other attribute that may carry that type is the value
                 of a characteristic *declared with UUID 0x2800* — a declaration the library does not
                 forbid.  `NoFakePrimary d` (decidable) excludes exactly: a characteristic whose value
                 type is 0x2800 **and** whose value is not readable.  Nothing else is assumed.

  The `_decl` corollaries restate the C03 completeness theorems directly over declarations.
-/
namespace BluetoeModel.AttDiscovery
open BluetoeModel.AttHandles

/-- no characteristic is declared with the value type «Primary Service» and an unreadable value -/
def NoFakePrimary (d : ServerDecl) : Prop :=
  ∀ s ∈ d, ∀ c ∈ s.chars, c.uuid = .u16 uuidPrimary → c.readable = true

instance (d : ServerDecl) : Decidable (NoFakePrimary d) := by unfold NoFakePrimary; infer_instance

/-! ### `total` -/

theorem sumAttrs_ofDecl (d : ServerDecl) :
    sumAttrs (d.map (fun s => (⟨s.nAttrs, s.uuid.is128⟩ : Svc))) = nAttrs d := by
  induction d with
  | nil => rfl
  | cons s ss ih => simp only [List.map_cons, sumAttrs, nAttrs, ih]

theorem length_renderFrom (d : ServerDecl) (k : Nat) (l : List Proto) :
    (renderFrom d k l).length = l.length := by
  induction l generalizing k with
  | nil => rfl
  | cons p l ih => simp only [renderFrom, List.length_cons, ih]

theorem length_table (d : ServerDecl) : (table d).length = nAttrs d := by
  unfold table attrs
  rw [List.length_zip, handles_length, length_renderFrom, length_protoAttrs, Nat.min_self]

/-! ### `readable` -/

/-- a prototype attribute that is rendered readable whenever it is rendered with type 0x2800 -/
def ProtoOk : Proto → Prop
  | .charValue c => c.uuid = .u16 uuidPrimary → c.readable = true
  | _ => True

theorem render_readable (d : ServerDecl) (i : Nat) (p : Proto) (hp : ProtoOk p)
    (hu : (render d i p).uuid = .u16 uuidPrimary) : (render d i p).value ≠ none := by
  cases p with
  | svcDecl s => simp [render]
  | incl u =>
    simp only [render] at hu
    split at hu <;> simp [uuidInclude, uuidPrimary] at hu
  | charDecl c => simp [render, uuidCharacteristic, uuidPrimary] at hu
  | charValue c =>
    simp only [render] at hu ⊢
    have := hp hu
    simp [this]
  | cccd => simp [render, uuidCccd, uuidPrimary] at hu
  | userDesc t => simp [render, uuidUserDesc, uuidPrimary] at hu
  | desc u v => simp [render]

theorem mem_renderFrom (d : ServerDecl) (k : Nat) (l : List Proto) (a : Attr)
    (ha : a ∈ renderFrom d k l) : ∃ i p, p ∈ l ∧ a = render d i p := by
  induction l generalizing k with
  | nil => cases ha
  | cons p l ih =>
    simp only [renderFrom, List.mem_cons] at ha
    rcases ha with h | h
    · exact ⟨k, p, List.mem_cons_self, h⟩
    · obtain ⟨i, q, hq, he⟩ := ih (k + 1) h
      exact ⟨i, q, List.mem_cons_of_mem _ hq, he⟩

theorem charProto_ok (c : CharDecl) (hc : c.uuid = .u16 uuidPrimary → c.readable = true) :
    ∀ p ∈ charProto c, ProtoOk p := by
  intro p hp
  simp only [charProto, List.mem_cons, List.mem_append, List.mem_map] at hp
  rcases hp with h | h | h
  · subst h; trivial
  · subst h; exact hc
  · rcases h with (h | h) | h
    · split at h
      · simp only [List.mem_singleton] at h; subst h; trivial
      · cases h
    · split at h
      · simp only [List.mem_singleton] at h; subst h; trivial
      · cases h
    · obtain ⟨x, _, hx⟩ := h; subst hx; trivial

theorem charsProto_ok (cs : List CharDecl)
    (hc : ∀ c ∈ cs, c.uuid = .u16 uuidPrimary → c.readable = true) :
    ∀ p ∈ charsProto cs, ProtoOk p := by
  induction cs with
  | nil => intro p hp; cases hp
  | cons c cs ih =>
    intro p hp
    simp only [charsProto, List.mem_append] at hp
    rcases hp with h | h
    · exact charProto_ok c (hc c List.mem_cons_self) p h
    · exact ih (fun c' hc' => hc c' (List.mem_cons_of_mem _ hc')) p h

theorem protoAttrs_ok (d : ServerDecl) (h : NoFakePrimary d) : ∀ p ∈ protoAttrs d, ProtoOk p := by
  induction d with
  | nil => intro p hp; cases hp
  | cons s ss ih =>
    intro p hp
    simp only [protoAttrs, svcProto, List.mem_append, List.mem_cons, List.mem_map] at hp
    rcases hp with (h1 | h1 | h1) | h1
    · subst h1; trivial
    · obtain ⟨u, _, hu⟩ := h1; subst hu; trivial
    · exact charsProto_ok s.chars (h s List.mem_cons_self) p h1
    · exact ih (fun s' hs' => h s' (List.mem_cons_of_mem _ hs')) p h1

/-! ### the bridge -/

/-- **the service list of every declaration partitions its table** -/
theorem ofDecl_SvcWF (d : ServerDecl) (hf : NoFakePrimary d) : (ofDecl d).SvcWF := by
  refine ⟨?_, ?_, ?_⟩
  · intro s hs
    simp only [ofDecl, List.mem_map] at hs
    obtain ⟨sd, _, rfl⟩ := hs
    show 0 < sd.nAttrs
    simp only [ServiceDecl.nAttrs, ServiceDecl.nServiceAttrs]
    omega
  · show sumAttrs (d.map _) = (table d).length
    rw [sumAttrs_ofDecl, length_table]
  · intro p hp hu
    have hp' : p ∈ table d := hp
    have h2 : p.2 ∈ attrs d := (List.of_mem_zip (show (p.1, p.2) ∈ (handles d).zip (attrs d) from hp')).2
    obtain ⟨i, q, hq, he⟩ := mem_renderFrom d 0 _ _ h2
    rw [he] at hu ⊢
    exact render_readable d i q (protoAttrs_ok d hf q hq) hu

/-- the hypothesis is needed: a characteristic of type 0x2800 with an unreadable value breaks
    `readable` (and is not rejected by the library) — shown on a concrete declaration -/
def exFake : ServerDecl :=
  [{ uuid := .u16 0x180F, secondary := false, fixed := none, includes := [],
     chars := [{ uuid := .u16 uuidPrimary, props := 0x08, handles := .auto, hasCccd := false,
                 userDesc := none, descs := [], readable := false, value := [1] }] }]

example : ¬ NoFakePrimary exFake := by decide

/-! ### C03 completeness, stated over declarations -/

/-- **C03 completeness over every declared server (Read By Group Type)** -/
theorem read_by_group_complete_decl (d : ServerDecl) (hw : d.WF) (hi : NoIncludes d) (hf : NoFakePrimary d)
    (mtu s e : Nat) (hm : 23 ≤ mtu) (h0 : 0 < s) (hse : s ≤ e) (he : e ≤ 0xFFFF) :
    (rangeOf gfirst (primaries (ofDecl d)) s e = [] ∧
      readByGroupTypeV (ofDecl d) mtu (primaryReq s e) =
        some (.err (errorRsp 0x10 s errAttributeNotFound))) ∨
    (∃ hdr, readByGroupTypeV (ofDecl d) mtu (primaryReq s e) =
        some (.items hdr (groupCut (mtu - 2) false none (rangeOf gfirst (primaries (ofDecl d)) s e))) ∧
      groupCut (mtu - 2) false none (rangeOf gfirst (primaries (ofDecl d)) s e) ≠ []) :=
  read_by_group_complete (ofDecl d) (ofDecl_WF d hw hi) (ofDecl_SvcWF d hf) mtu s e hm h0 hse he

/-- **C03 completeness over every declared server (Find By Type Value), response bytes** -/
theorem find_by_type_value_complete_decl (d : ServerDecl) (hw : d.WF) (hi : NoIncludes d)
    (hf : NoFakePrimary d) (mtu s e : Nat) (val : List UInt8) (hv : val.length = 2 ∨ val.length = 16)
    (hm : 23 ≤ mtu) (h0 : 0 < s) (hse : s ≤ e) (he : e ≤ 0xFFFF) :
    findByTypeValue (ofDecl d) mtu (findReq s e val) =
      some (if rangeOf Prod.fst (serviceRanges (ofDecl d) val) s e = [] then
              errorRsp 0x06 s errAttributeNotFound
            else [0x07] ++ encodeRanges
              ((rangeOf Prod.fst (serviceRanges (ofDecl d) val) s e).take ((mtu - 1) / 4))) :=
  find_by_type_value_complete_bytes (ofDecl d) (ofDecl_WF d hw hi) (ofDecl_SvcWF d hf) mtu s e val hv hm
    h0 hse he

/-- the primary services of every declared server are reported in ascending handle order -/
theorem primaries_sorted_decl (d : ServerDecl) (hw : d.WF) (hi : NoIncludes d) (hf : NoFakePrimary d) :
    ((primaries (ofDecl d)).map (·.1)).Pairwise (fun a b => a.last < b.first) ∧
      ∀ m ∈ (primaries (ofDecl d)).map (·.1), m.first ≤ m.last :=
  primaries_sorted (ofDecl d) (ofDecl_WF d hw hi) (ofDecl_SvcWF d hf)

/-- non-vacuity: the example declaration of C04 meets all three hypotheses -/
example : exDecl.WF ∧ NoIncludes exDecl ∧ NoFakePrimary exDecl :=
  ⟨exDecl_WF, exDecl_noIncludes, by decide⟩

end BluetoeModel.AttDiscovery

namespace BluetoeModel.AttDiscovery
open BluetoeModel.AttHandles

/-- **"Discover All Primary Services" over every declared server**: the client loop returns every
    declared primary service in range exactly once, in order -/
theorem read_by_group_enumerate_all_decl (d : ServerDecl) (hw : d.WF) (hi : NoIncludes d)
    (hf : NoFakePrimary d) (mtu e s fuel : Nat) (hm : 23 ≤ mtu) (he : e ≤ 0xFFFF) (h0 : 0 < s)
    (hfu : e + 1 - s ≤ fuel) :
    clientLoop (askReadByGroupType (ofDecl d) mtu e) e fuel s =
      ((primaries (ofDecl d)).map (·.1)).filter (fun g => decide (s ≤ g.first) && decide (g.first ≤ e)) :=
  read_by_group_enumerate_all (ofDecl d) (ofDecl_WF d hw hi) (ofDecl_SvcWF d hf) mtu e s fuel hm he h0 hfu

/-- **"Discover Primary Service by Service UUID" over every declared server** -/
theorem find_by_type_value_enumerate_all_decl (d : ServerDecl) (hw : d.WF) (hi : NoIncludes d)
    (hf : NoFakePrimary d) (mtu e s fuel : Nat) (val : List UInt8)
    (hv : val.length = 2 ∨ val.length = 16) (hm : 23 ≤ mtu) (he : e ≤ 0xFFFF) (h0 : 0 < s)
    (hfu : e + 1 - s ≤ fuel) :
    clientLoop (askFindByTypeValue (ofDecl d) mtu e val) e fuel s =
      (serviceRanges (ofDecl d) val).filter (fun g => decide (s ≤ g.1) && decide (g.1 ≤ e)) :=
  find_by_type_value_enumerate_all (ofDecl d) (ofDecl_WF d hw hi) (ofDecl_SvcWF d hf) mtu e s fuel val hv
    hm he h0 hfu

end BluetoeModel.AttDiscovery
