import BluetoeModel.AttDiscovery.EnumFind
import BluetoeModel.AttDiscovery.PropsGroup
/-!
  Find By Type Value «Primary Service»: the specification `serviceRanges`, the handler's response
  as a function of it (`findByTypeValueV_spec`), and the handler as a `PrefixResponder` for the
  Discover-Primary-Service-by-UUID client loop.  Helper file of `PropsFind.lean`.
-/
namespace BluetoeModel.AttDiscovery
open BluetoeModel.AttHandles

/-- **the specification**: (first handle, handle of the last attribute) of every declared primary
    service (`primaries db`) whose UUID bytes are exactly `val`, in declaration (= handle) order -/
def serviceRanges (db : Db) (val : List UInt8) : List (Nat × Nat) :=
  (primaries db).filterMap (pairOf val)

theorem mem_serviceRanges (db : Db) (val : List UInt8) (a b : Nat) :
    (a, b) ∈ serviceRanges db val ↔
      ∃ x ∈ primaries db, x.1.value = val ∧ x.1.first = a ∧ x.1.last = b := by
  unfold serviceRanges
  rw [List.mem_filterMap]
  constructor
  · rintro ⟨x, hx, hp⟩
    unfold pairOf at hp
    split at hp
    · rename_i hv
      cases hp
      exact ⟨x, hx, hv, rfl, rfl⟩
    · cases hp
  · rintro ⟨x, hx, hv, rfl, rfl⟩
    exact ⟨x, hx, by simp [pairOf, hv]⟩

/-- membership in `cands`: the service at some position of the list (its declaration index = start
    index + attribute counts of the services before it) yields the element -/
theorem mem_cands_iff {β : Type} (f : Nat → Svc → Option β) (i : Nat) (l : List Svc) (y : β) :
    y ∈ cands f i l ↔ ∃ pre svc post, l = pre ++ svc :: post ∧ f (i + sumAttrs pre) svc = some y := by
  induction l generalizing i with
  | nil =>
    constructor
    · intro h; cases h
    · rintro ⟨pre, svc, post, h, _⟩
      cases pre <;> cases h
  | cons s ss ih =>
    simp only [cands, List.mem_append]
    constructor
    · rintro (h | h)
      · refine ⟨[], s, ss, rfl, ?_⟩
        cases hf : f i s with
        | none => rw [hf] at h; cases h
        | some x =>
          rw [hf] at h
          simp only [Option.toList, List.mem_singleton] at h
          simp only [sumAttrs, Nat.add_zero, hf, h]
      · obtain ⟨pre, svc, post, hl, hf⟩ := (ih _).mp h
        refine ⟨s :: pre, svc, post, by rw [hl]; rfl, ?_⟩
        simp only [sumAttrs]
        rw [← Nat.add_assoc]; exact hf
    · rintro ⟨pre, svc, post, hl, hf⟩
      cases pre with
      | nil =>
        left
        simp only [List.nil_append, List.cons.injEq] at hl
        obtain ⟨rfl, rfl⟩ := hl
        simp only [sumAttrs, Nat.add_zero] at hf
        rw [hf]; simp [Option.toList]
      | cons p pre' =>
        right
        simp only [List.cons_append, List.cons.injEq] at hl
        obtain ⟨rfl, rfl⟩ := hl
        refine (ih _).mpr ⟨pre', svc, post, rfl, ?_⟩
        simp only [sumAttrs] at hf
        rw [Nat.add_assoc]; exact hf

/-- what `serviceRanges` is, directly on table and service list -/
theorem serviceRanges_table (db : Db) (val : List UInt8) (a b : Nat) :
    (a, b) ∈ serviceRanges db val ↔
      ∃ pre svc post, db.services = pre ++ svc :: post ∧
        db.tbl[sumAttrs pre]? = some (a, ⟨.u16 uuidPrimary, some val⟩) ∧
        b = hbi db (sumAttrs pre + svc.nAttrs - 1) := by
  rw [mem_serviceRanges]
  constructor
  · rintro ⟨x, hx, hv, rfl, rfl⟩
    obtain ⟨pre, svc, post, hl, hf⟩ := (mem_cands_iff _ _ _ _).mp hx
    rw [Nat.zero_add] at hf
    obtain ⟨decl, hd, hu, hval, hfst, hlst, _⟩ := groupAt_some db _ svc x hf
    refine ⟨pre, svc, post, hl, ?_, hlst⟩
    rw [hd, hfst, ← hv]
    obtain ⟨h, u, v⟩ := decl
    simp only at hu hval
    rw [hu, hval]
  · rintro ⟨pre, svc, post, hl, hd, rfl⟩
    refine ⟨(⟨a, hbi db (sumAttrs pre + svc.nAttrs - 1), val⟩, svc.is128), ?_, rfl, rfl, rfl⟩
    refine (mem_cands_iff _ _ _ _).mpr ⟨pre, svc, post, hl, ?_⟩
    rw [Nat.zero_add]
    simp [groupAt, hd]

/-- Find By Type Value request for «Primary Service» with the attribute value `val` -/
def findReq (s e : Nat) (val : List UInt8) : List UInt8 :=
  req 0x06 s e (lo uuidPrimary :: hi uuidPrimary :: val)

/-- the response to a Find By Type Value «Primary Service» request, for every table -/
theorem findByTypeValueV_spec (db : Db) (hw : db.WF) (hsv : db.SvcWF) (mtu s e : Nat) (val : List UInt8)
    (hv : val.length = 2 ∨ val.length = 16) (hm : 23 ≤ mtu)
    (h0 : 0 < s) (hse : s ≤ e) (he : e ≤ 0xFFFF) :
    (rangeOf Prod.fst (serviceRanges db val) s e = [] ∧
      findByTypeValueV db mtu (findReq s e val) = some (.err (errorRsp 0x06 s errAttributeNotFound))) ∨
    (rangeOf Prod.fst (serviceRanges db val) s e ≠ [] ∧
      findByTypeValueV db mtu (findReq s e val) =
        some (.items [0x07] ((rangeOf Prod.fst (serviceRanges db val) s e).take ((mtu - 1) / 4)))) := by
  have hlen : (findReq s e val).length = 9 ∨ (findReq s e val).length = 23 := by
    simp only [findReq, req, List.length_cons]; omega
  have hty : ¬ read16 (findReq s e val) 5 ≠ uuidPrimary := by
    simp [findReq, req, read16, lo, hi, uuidPrimary]
  have hdrop : (findReq s e val).drop 7 = val := by simp [findReq, req]
  rcases range_check db hw 0x06 9 23 s e _ hlen h0 hse he with ⟨hn, hc⟩ | ⟨si, li, first, hc, hl, hg, hsl, hh⟩
  · left
    constructor
    · unfold rangeOf
      rw [List.filter_eq_nil_iff]
      intro p hp hin
      obtain ⟨a, b⟩ := p
      obtain ⟨x, hx, _, hfa, _⟩ := (mem_serviceRanges db val a b).mp hp
      obtain ⟨j, svc, _, _, _, hgj⟩ := mem_cands _ _ _ _ hx
      obtain ⟨decl, hd, _, _, hfst, _, _⟩ := groupAt_some db j svc x hgj
      have hmem : decl ∈ inRange db s e := by
        unfold inRange
        rw [List.mem_filter]
        refine ⟨List.mem_of_getElem? hd, ?_⟩
        rw [← hfst, hfa]
        exact hin
      rw [hn] at hmem
      cases hmem
    · simp only [findByTypeValueV]
      show (match checkRange db (req 0x06 s e (lo uuidPrimary :: hi uuidPrimary :: val)) 0x06 9 23 with
        | .err r => _ | .ok s e si => _) = _
      rw [hc]
  · have hfirst := checkRange_ok_first db _ _ _ _ _ _ _ hc
    obtain ⟨ei, hge, hei⟩ : ∃ ei, groupEndIndex db e = some ei ∧
        (ei = some li ∨ (ei = none ∧ li = db.tbl.length - 1)) := by
      rcases groupEndIndex_of_lastIndex db e li hl with h | ⟨h, hli⟩
      · exact ⟨some li, h, Or.inl rfl⟩
      · exact ⟨none, h, Or.inr ⟨rfl, hli⟩⟩
    obtain ⟨st', hrun, hout, hfo⟩ := findLoop_out db si ei val db.services
      ⟨[], mtu - 1, 0, false⟩ (by simp only [hsv.total]; omega) hsv.pos (by simp)
    have hcands : cands (candF db si ei val) 0 db.services = rangeOf Prod.fst (serviceRanges db val) s e := by
      rw [cands_filterMap (candG db si li) (candF db si ei val) (pairOf val)
            (candF_eq_candG db si li ei val hei),
          cands_filter (groupAt db) (candG db si li) _ (candG_eq_filter db hw.sorted s e si li hfirst hl)]
      unfold serviceRanges
      rw [rangeOf_filterMap_pairOf]
      rfl
    simp only [hcands, List.nil_append] at hout
    have hV : findByTypeValueV db mtu (findReq s e val) =
        if st'.found then some (.items [0x07] st'.out)
        else some (.err (errorRsp 0x06 s errAttributeNotFound)) := by
      simp only [findByTypeValueV]
      show (match checkRange db (req 0x06 s e (lo uuidPrimary :: hi uuidPrimary :: val)) 0x06 9 23 with
        | .err r => _ | .ok s e si => _) = _
      rw [hc]
      simp only
      rw [if_neg hty, hge, hdrop]
      simp only
      rw [hrun]
    cases hr : rangeOf Prod.fst (serviceRanges db val) s e with
    | nil =>
      left
      rw [hr] at hout
      have ho : st'.out = [] := by rw [hout]; exact List.take_nil
      have hf : st'.found = false := by
        cases hff : st'.found with
        | false => rfl
        | true => exact absurd ho (hfo.mp hff)
      refine ⟨rfl, ?_⟩
      rw [hV, hf]; rfl
    | cons x t =>
      right
      rw [hr] at hout
      have hk : (mtu - 1) / 4 = ((mtu - 1) / 4 - 1) + 1 := by omega
      have hso : st'.out ≠ [] := by rw [hout, hk]; simp
      have hf : st'.found = true := hfo.mpr hso
      refine ⟨by simp, ?_⟩
      rw [hV, hf, hout]; rfl

/-- the ranges are disjoint and ascending: each ends before the next begins, first ≤ last -/
theorem serviceRanges_sorted (db : Db) (hw : db.WF) (hsv : db.SvcWF) (val : List UInt8) :
    (serviceRanges db val).Pairwise (fun a b => a.2 < b.1) ∧ ∀ m ∈ serviceRanges db val, m.1 ≤ m.2 := by
  obtain ⟨h1, h2⟩ := primaries_sorted db hw hsv
  rw [List.pairwise_map] at h1
  constructor
  · unfold serviceRanges
    rw [List.pairwise_filterMap]
    refine List.Pairwise.imp ?_ h1
    intro a b hab p hp q hq
    unfold pairOf at hp hq
    split at hp <;> split at hq <;> simp only [Option.some.injEq, reduceCtorEq] at hp hq
    subst hp hq
    exact hab
  · intro m hm
    obtain ⟨a, b⟩ := m
    obtain ⟨x, hx, _, rfl, rfl⟩ := (mem_serviceRanges db val a b).mp hm
    exact h2 x.1 (List.mem_map.mpr ⟨x, hx, rfl⟩)

/-- one Find By Type Value request of the client loop (Discover Primary Service by Service UUID):
    the next request starts behind the group end handle of the last returned range -/
def askFindByTypeValue (db : Db) (mtu e : Nat) (val : List UInt8) (s : Nat) : Reply (Nat × Nat) :=
  View.reply 0x06 s id (nextAfter Prod.snd) (findByTypeValueV db mtu (findReq s e val))

theorem findByTypeValue_prefixResponder (db : Db) (hw : db.WF) (hsv : db.SvcWF) (mtu e : Nat)
    (val : List UInt8) (hv : val.length = 2 ∨ val.length = 16) (hm : 23 ≤ mtu) (he : e ≤ 0xFFFF) :
    PrefixResponder Prod.fst (serviceRanges db val) (askFindByTypeValue db mtu e val) e := by
  intro s h0 hse
  obtain ⟨hM, hfl⟩ := serviceRanges_sorted db hw hsv val
  rcases findByTypeValueV_spec db hw hsv mtu s e val hv hm h0 hse he with ⟨hn, hV⟩ | ⟨hne, hV⟩
  · left
    refine ⟨hn, ?_⟩
    simp [askFindByTypeValue, hV, View.reply]
  · right
    have hp : (rangeOf Prod.fst (serviceRanges db val) s e).take ((mtu - 1) / 4) <+:
        rangeOf Prod.fst (serviceRanges db val) s e := List.take_prefix _ _
    have hne' : (rangeOf Prod.fst (serviceRanges db val) s e).take ((mtu - 1) / 4) ≠ [] := by
      have hk : (mtu - 1) / 4 = ((mtu - 1) / 4 - 1) + 1 := by omega
      cases hr : rangeOf Prod.fst (serviceRanges db val) s e with
      | nil => exact absurd hr hne
      | cons x t => rw [hk]; simp
    obtain ⟨h1, h2, h3⟩ := nextAfterGroup_ok Prod.fst Prod.snd _ hM hfl s e _ hne' hp
    refine ⟨_, _, ?_, hne', hp, h1, h2, h3⟩
    simp only [askFindByTypeValue, hV, View.reply, id]

end BluetoeModel.AttDiscovery
