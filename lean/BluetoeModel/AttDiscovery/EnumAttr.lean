import BluetoeModel.AttDiscovery.Enum
import BluetoeModel.AttDiscovery.Props
/-!
  C02, last sentence, for Find Information and Read By Type: the client loop over the modelled
  handlers.  `*V` is the handler with its response kept structured (`View`); `*_view` proves that the
  handler's bytes are exactly the encoding of that view, for every PDU.
-/
namespace BluetoeModel.AttDiscovery
open BluetoeModel.AttHandles

/-- a response before encoding: an Error Response, or a header and the listed items -/
inductive View (α : Type) where
  | err (rsp : List UInt8)
  | items (hdr : List UInt8) (l : List α)

def View.bytes {α : Type} (enc : List α → List UInt8) : View α → List UInt8
  | .err r => r
  | .items hdr l => hdr ++ enc l

/-- what the client does with a response to a request that started at `s`: Attribute Not Found ends
    the sub-procedure, any other error aborts it, otherwise the items are taken -/
def View.reply {α β : Type} (op : UInt8) (s : Nat) (proj : List α → List β) (next : List α → Nat) :
    Option (View α) → Reply β
  | some (.err r) => if r = errorRsp op s errAttributeNotFound then .notFound else .other
  | some (.items _ l) => .items (proj l) (next l)
  | none => .other

/-! ### Find Information -/

-- src: server::handle_find_information_request (= `findInformation`, response not yet encoded)
def findInformationV (db : Db) (mtu : Nat) (pdu : List UInt8) : Option (View (Nat × Attr)) :=
  match checkRange db pdu 0x04 5 5 with
  | .err r => some (.err r)
  | .ok _ e si =>
      match db.tbl[si]?, lastIndex db e with
      | some first, some li =>
          let only16 := is16 first.2
          some (.items [0x05, if only16 then 0x01 else 0x02] (selectTuples only16 (mtu - 2) (slice db si li)))
      | _, _ => none

theorem findInformation_view (db : Db) (mtu : Nat) (pdu : List UInt8) :
    findInformation db mtu pdu = (findInformationV db mtu pdu).map (View.bytes encodeTuples) := by
  unfold findInformation findInformationV
  cases checkRange db pdu 0x04 5 5 with
  | err r => rfl
  | ok s e si =>
    simp only
    cases db.tbl[si]? <;> cases lastIndex db e <;> rfl

/-- one Find Information request of the client loop -/
def askFindInformation (db : Db) (mtu e : Nat) (s : Nat) : Reply (Nat × Attr) :=
  View.reply 0x04 s id (nextAfter (·.1)) (findInformationV db mtu (req 0x04 s e []))

/-- the precise condition under which no request of the loop leaves an attribute out: whatever
    handle a request starts with, the entries selected by `collect_handle_uuid_tuples` are a prefix
    of the range (no entry of the other UUID size before the last selected one) -/
def FindInformationNoSkip (db : Db) (mtu e : Nat) : Prop :=
  ∀ s first, 0 < s → s ≤ e → (inRange db s e).head? = some first →
    selectTuples (is16 first.2) (mtu - 2) (inRange db s e) <+: inRange db s e

theorem findInformation_prefixResponder (db : Db) (hw : db.WF) (mtu e : Nat) (hm : 23 ≤ mtu)
    (he : e ≤ 0xFFFF) (hns : FindInformationNoSkip db mtu e) :
    PrefixResponder (·.1) db.tbl (askFindInformation db mtu e) e := by
  intro s h0 hse
  have hR : rangeOf (·.1) db.tbl s e = inRange db s e := rfl
  rw [hR]
  rcases range_check db hw 0x04 5 5 s e [] (Or.inl rfl) h0 hse he with ⟨hn, hc⟩ | ⟨si, li, first, hc, hl, hg, hsl, hh⟩
  · left
    refine ⟨hn, ?_⟩
    simp [askFindInformation, findInformationV, hc, View.reply]
  · right
    have hsel : selectTuples (is16 first.2) (mtu - 2) (inRange db s e) ≠ [] := by
      cases hr : inRange db s e with
      | nil => rw [hr] at hh; cases hh
      | cons p t =>
        rw [hr] at hh; simp at hh; subst hh
        intro hnil
        have := selectTuples_head p t (mtu - 2) (by omega)
        rw [hnil] at this; cases this
    have hp := hns s first h0 hse hh
    obtain ⟨h1, h2, h3⟩ := nextAfter_ok (fun p : Nat × Attr => p.1) db.tbl hw.sorted s e _ hsel hp
    refine ⟨_, _, ?_, hsel, hp, h1, h2, h3⟩
    simp [askFindInformation, findInformationV, hc, hl, hg, hsl, View.reply]

/-! ### Read By Type -/

-- src: server::handle_read_by_type_request + all_attributes (= `readByType`, not yet encoded)
def readByTypeV (db : Db) (mtu : Nat) (pdu : List UInt8) : Option (View (Nat × List UInt8)) :=
  match checkRange db pdu 0x08 7 21 with
  | .err r => some (.err r)
  | .ok s e si =>
      match lastIndex db e with
      | none => none
      | some li =>
          let f := mkFilter (pdu.drop 5)
          let sel := selectAttrs (mtu - 2) none ((slice db si li).filter (fun p => f.matches p.2))
          match sel with
          | [] => some (.err (errorRsp 0x08 s errAttributeNotFound))
          | p :: _ => some (.items [0x09, UInt8.ofNat (p.2.length + 2)] sel)

theorem readByType_view (db : Db) (mtu : Nat) (pdu : List UInt8) :
    readByType db mtu pdu = (readByTypeV db mtu pdu).map (View.bytes encodeAttrs) := by
  unfold readByType readByTypeV
  cases checkRange db pdu 0x08 7 21 with
  | err r => rfl
  | ok s e si =>
    simp only
    cases lastIndex db e with
    | none => rfl
    | some li =>
      simp only
      generalize selectAttrs (mtu - 2) none _ = sel
      cases sel <;> rfl

/-- one Read By Type request of the client loop; the client keeps the attribute handles -/
def askReadByType (db : Db) (mtu e : Nat) (ty : List UInt8) (s : Nat) : Reply Nat :=
  View.reply 0x08 s (List.map (·.1)) (nextAfter (·.1)) (readByTypeV db mtu (req 0x08 s e ty))

/-- the attributes of the requested type -/
def matching (db : Db) (ty : List UInt8) (s e : Nat) : List (Nat × Attr) :=
  (inRange db s e).filter (fun p => (mkFilter ty).matches p.2)

/-- the precise condition: whatever handle a request starts with, `collect_attributes` selects a
    prefix of the matching attributes (none skipped for an unreadable value or another value size
    before the last selected one) and at least one if there is one -/
def ReadByTypeNoSkip (db : Db) (mtu e : Nat) (ty : List UInt8) : Prop :=
  ∀ s, 0 < s → s ≤ e →
    (selectAttrs (mtu - 2) none (matching db ty s e)).map (·.1) <+: (matching db ty s e).map (·.1) ∧
    (matching db ty s e ≠ [] → selectAttrs (mtu - 2) none (matching db ty s e) ≠ [])

theorem nextAfter_map {α : Type} (f : α → Nat) (l : List α) :
    nextAfter id (l.map f) = nextAfter f l := by
  unfold nextAfter
  rw [List.getLast?_map]
  cases l.getLast? <;> rfl

theorem readByType_prefixResponder (db : Db) (hw : db.WF) (mtu e : Nat) (ty : List UInt8)
    (hty : ty.length = 2 ∨ ty.length = 16) (he : e ≤ 0xFFFF)
    (hns : ReadByTypeNoSkip db mtu e ty) :
    PrefixResponder id ((db.tbl.filter (fun p => (mkFilter ty).matches p.2)).map (·.1))
      (askReadByType db mtu e ty) e := by
  intro s h0 hse
  have hsortedM : ((db.tbl.filter (fun p => (mkFilter ty).matches p.2)).map (·.1)).Pairwise
      (fun a b => id a < id b) := by
    rw [List.pairwise_map]
    exact List.Pairwise.sublist List.filter_sublist hw.sorted
  have hR : rangeOf id ((db.tbl.filter (fun p => (mkFilter ty).matches p.2)).map (·.1)) s e
      = (matching db ty s e).map (·.1) := by
    unfold rangeOf matching inRange
    rw [List.filter_map, List.filter_filter, List.filter_filter]
    congr 1
    apply List.filter_congr
    intro p _
    simp only [Function.comp, id]
    rw [Bool.and_comm]
  rw [hR]
  have hlen : (req 0x08 s e ty).length = 7 ∨ (req 0x08 s e ty).length = 21 := by
    simp only [req, List.length_cons]; omega
  have hdrop : (req 0x08 s e ty).drop 5 = ty := by simp [req]
  obtain ⟨hpre, hne⟩ := hns s h0 hse
  rcases range_check db hw 0x08 7 21 s e ty hlen h0 hse he with ⟨hn, hc⟩ | ⟨si, li, first, hc, hl, hg, hsl, hh⟩
  · left
    refine ⟨by simp [matching, hn], ?_⟩
    simp [askReadByType, readByTypeV, hc, View.reply]
  · have hv : readByTypeV db mtu (req 0x08 s e ty) =
        match selectAttrs (mtu - 2) none (matching db ty s e) with
        | [] => some (.err (errorRsp 0x08 s errAttributeNotFound))
        | p :: _ => some (.items [0x09, UInt8.ofNat (p.2.length + 2)]
                      (selectAttrs (mtu - 2) none (matching db ty s e))) := by
      simp only [readByTypeV, hc, hl, hsl, hdrop, matching]
    cases hsel : selectAttrs (mtu - 2) none (matching db ty s e) with
    | nil =>
      left
      have hmn : matching db ty s e = [] := by
        cases hmm : matching db ty s e with
        | nil => rfl
        | cons a b => exact absurd hsel (hne (by rw [hmm]; simp))
      refine ⟨by rw [hmn]; rfl, ?_⟩
      rw [hsel] at hv
      simp [askReadByType, hv, View.reply]
    | cons p t =>
      right
      rw [hsel] at hv hpre
      have hnil : (p :: t).map (·.1) ≠ [] := by simp
      have hp' : (p :: t).map (·.1) <+: rangeOf id
          ((db.tbl.filter (fun p => (mkFilter ty).matches p.2)).map (·.1)) s e := by rw [hR]; exact hpre
      obtain ⟨h1, h2, h3⟩ := nextAfter_ok id _ hsortedM s e _ hnil hp'
      rw [nextAfter_map] at h1 h2 h3
      refine ⟨_, _, ?_, hnil, hpre, h1, h2, h3⟩
      simp only [askReadByType, hv, View.reply]

/-! ### sufficient conditions for the two no-skip predicates -/

/-- all attributes up to `e` have UUIDs of one size -/
theorem findInformationNoSkip_of_uniform (db : Db) (mtu e : Nat) (b : Bool)
    (hu : ∀ p ∈ inRange db 1 e, is16 p.2 = b) : FindInformationNoSkip db mtu e := by
  intro s first h0 _ hh
  have hsub : ∀ q ∈ inRange db s e, q ∈ inRange db 1 e := by
    intro q hq
    unfold inRange at hq ⊢
    rw [List.mem_filter] at hq ⊢
    refine ⟨hq.1, ?_⟩
    have := hq.2
    simp only [Bool.and_eq_true, decide_eq_true_eq] at this ⊢
    omega
  have hf : is16 first.2 = b := hu first (hsub first (List.mem_of_mem_head? hh))
  rw [hf]
  exact selectTuples_prefix b _ _ (fun q hq => hu q (hsub q hq))

theorem selectAttrs_small (room : Nat) (size : Option Nat) (l : List (Nat × Attr)) (h : room < 2) :
    selectAttrs room size l = [] := by
  induction l with
  | nil => rfl
  | cons p t ih => simp only [selectAttrs]; rw [if_pos h]; exact ih

/-- once a value of length `d` does not have the size of the response's entries, no later value
    of length `d` has (the room does not change while entries are rejected) -/
theorem selectAttrs_reject (room sz d : Nat) (l : List (Nat × Attr))
    (hall : ∀ p ∈ l, ∃ v, p.2.value = some v ∧ v.length = d)
    (hne : min (min room 255 - 2) d + 2 ≠ sz) : selectAttrs room (some sz) l = [] := by
  induction l with
  | nil => rfl
  | cons p t ih =>
    by_cases hr : room < 2
    · exact selectAttrs_small _ _ _ hr
    · obtain ⟨v, hv, hd⟩ := hall p (by simp)
      simp only [selectAttrs]
      rw [if_neg hr, hv]
      simp only [List.length_take, hd]
      rw [if_neg hne]
      exact ih (fun q hq => hall q (by simp [hq]))

/-- all values readable and of one length: the selection is a prefix -/
theorem selectAttrs_prefix_uniform (room : Nat) (size : Option Nat) (d : Nat) (l : List (Nat × Attr))
    (hall : ∀ p ∈ l, ∃ v, p.2.value = some v ∧ v.length = d) :
    (selectAttrs room size l).map (·.1) <+: l.map (·.1) := by
  induction l generalizing room size with
  | nil => simp [selectAttrs]
  | cons p t ih =>
    have hall' : ∀ q ∈ t, ∃ v, q.2.value = some v ∧ v.length = d := fun q hq => hall q (by simp [hq])
    by_cases hr : room < 2
    · rw [selectAttrs_small _ _ _ hr]; exact List.nil_prefix
    · obtain ⟨v, hv, hd⟩ := hall p (by simp)
      simp only [selectAttrs]
      rw [if_neg hr, hv]
      simp only [List.length_take, hd]
      cases size with
      | none =>
        simp only [if_true, List.map_cons]
        exact (List.prefix_cons_inj p.1).mpr (ih _ _ hall')
      | some sz =>
        simp only
        by_cases heq : min (min room 255 - 2) d + 2 = sz
        · rw [if_pos heq]
          simp only [List.map_cons]
          exact (List.prefix_cons_inj p.1).mpr (ih _ _ hall')
        · rw [if_neg heq, selectAttrs_reject room _ d t hall' heq]
          exact List.nil_prefix

/-- every attribute of the requested type up to `e` is readable and all their values have one
    length `d` -/
theorem readByTypeNoSkip_of_uniform (db : Db) (mtu e d : Nat) (ty : List UInt8) (hm : 23 ≤ mtu)
    (hu : ∀ p ∈ matching db ty 1 e, ∃ v, p.2.value = some v ∧ v.length = d) :
    ReadByTypeNoSkip db mtu e ty := by
  intro s h0 _
  have hsub : ∀ q ∈ matching db ty s e, q ∈ matching db ty 1 e := by
    intro q hq
    unfold matching inRange at hq ⊢
    rw [List.mem_filter, List.mem_filter] at hq ⊢
    refine ⟨⟨hq.1.1, ?_⟩, hq.2⟩
    have := hq.1.2
    simp only [Bool.and_eq_true, decide_eq_true_eq] at this ⊢
    omega
  refine ⟨selectAttrs_prefix_uniform _ _ d _ (fun q hq => hu q (hsub q hq)), ?_⟩
  intro hne
  apply selectAttrs_ne_nil _ _ (by omega)
  cases hmm : matching db ty s e with
  | nil => exact absurd hmm hne
  | cons a t =>
    obtain ⟨v, hv, _⟩ := hu a (hsub a (by rw [hmm]; simp))
    exact ⟨a, by simp, by rw [hv]; rfl⟩

end BluetoeModel.AttDiscovery
