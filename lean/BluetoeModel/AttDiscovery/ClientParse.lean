import BluetoeModel.AttDiscovery.DeclBridge
/-!
  # The client's byte parser for the four discovery responses (closes the C02/C03 "byte parser" gap)

  The enumeration theorems are stated over the *item lists* (`View.items hdr l`) of which the
  handlers' response bytes are proved to be the encoding (`*_view`).  A real client sees bytes.  This
  file models the parser every GATT client runs over a discovery response — cut the payload into
  records of the announced size, read the little-endian handles — and proves

      parse (encode l) = some l

  for every item list the handlers can produce (records of one size, handles that fit 16 bit), so
  "the client is told exactly these items" follows from "the response is the encoding of these items".
  `chunks` rejects (returns `none`) a payload that is not a whole number of records — exactly what a
  client must do; nothing is defaulted.
-/
namespace BluetoeModel.AttDiscovery
open BluetoeModel.AttHandles

/-- cut `l` into records of `sz` bytes; `none` if `sz = 0` or a record is short (fuel = |l|) -/
def chunksF (sz : Nat) : Nat → List UInt8 → Option (List (List UInt8))
  | _, [] => some []
  | 0, _ :: _ => none
  | f + 1, x :: xs =>
      if sz = 0 ∨ (x :: xs).length < sz then none
      else (chunksF sz f ((x :: xs).drop sz)).map ((x :: xs).take sz :: ·)

def chunks (sz : Nat) (l : List UInt8) : Option (List (List UInt8)) := chunksF sz l.length l

theorem chunksF_flatten (sz : Nat) (hsz : 0 < sz) (xs : List (List UInt8))
    (hx : ∀ x ∈ xs, x.length = sz) (f : Nat) (hf : xs.length ≤ f) :
    chunksF sz f xs.flatten = some xs := by
  induction xs generalizing f with
  | nil => cases f <;> rfl
  | cons x xs ih =>
    have hxl : x.length = sz := hx x List.mem_cons_self
    cases f with
    | zero => simp at hf
    | succ f =>
      have hne : x ++ xs.flatten ≠ [] := by
        intro h
        have hx0 : x = [] := (List.append_eq_nil_iff.mp h).1
        rw [hx0] at hxl
        simp only [List.length_nil] at hxl
        omega
      rw [List.flatten_cons]
      cases hxs : x ++ xs.flatten with
      | nil => exact absurd hxs hne
      | cons y ys =>
        have hlen : (y :: ys).length = sz + xs.flatten.length := by
          rw [← hxs, List.length_append, hxl]
        have hcond : ¬ (sz = 0 ∨ (y :: ys).length < sz) := by omega
        simp only [chunksF, hcond, if_false]
        rw [← hxs]
        have hd : (x ++ xs.flatten).drop sz = xs.flatten := by
          rw [← hxl]; exact List.drop_left
        have ht : (x ++ xs.flatten).take sz = x := by
          rw [← hxl]; exact List.take_left
        rw [hd, ht, ih (fun a ha => hx a (List.mem_cons_of_mem _ ha)) f (by simpa using hf)]
        rfl

/-- **generic round trip**: records of one size `sz > 0`, each decoded by `dec` -/
theorem chunks_roundtrip {α : Type} (enc : α → List UInt8) (dec : List UInt8 → α) (sz : Nat)
    (hsz : 0 < sz) (l : List α) (hl : ∀ a ∈ l, (enc a).length = sz ∧ dec (enc a) = a) :
    (chunks sz (l.flatMap enc)).map (·.map dec) = some l := by
  have hflat : l.flatMap enc = (l.map enc).flatten := by
    rw [List.flatMap_def]
  unfold chunks
  rw [hflat, chunksF_flatten sz hsz (l.map enc)
    (by intro x hx; obtain ⟨a, ha, rfl⟩ := List.mem_map.mp hx; exact (hl a ha).1)]
  · simp only [Option.map_some, List.map_map]
    congr 1
    conv => rhs; rw [← List.map_id l]
    apply List.map_congr_left
    intro a ha
    exact (hl a ha).2
  · rw [List.length_map, List.length_flatten]
    have : ∀ x ∈ (l.map enc), x.length = sz := by
      intro x hx; obtain ⟨a, ha, rfl⟩ := List.mem_map.mp hx; exact (hl a ha).1
    have hsum : ((l.map enc).map List.length).sum = sz * l.length := by
      clear hflat
      induction l with
      | nil => simp
      | cons a l ih =>
        simp only [List.map_cons, List.sum_cons, List.length_cons]
        rw [ih (fun b hb => hl b (List.mem_cons_of_mem _ hb))
              (fun x hx => this x (by simp only [List.map_cons]; exact List.mem_cons_of_mem _ hx)),
            (hl a List.mem_cons_self).1, Nat.mul_succ]
        omega
    rw [hsum]
    exact Nat.le_mul_of_pos_left _ hsz

def le16 (l : List UInt8) (i : Nat) : Nat := read16 l i

/-! ### Find By Type Value Response: `07 (found handle, group end handle)*` -/

def decRange (c : List UInt8) : Nat × Nat := (le16 c 0, le16 c 2)

-- what a client does with a Find By Type Value Response
def parseFindByTypeValueRsp : List UInt8 → Option (List (Nat × Nat))
  | 0x07 :: rest => (chunks 4 rest).map (·.map decRange)
  | _ => none

theorem parse_encodeRanges (l : List (Nat × Nat)) (hl : ∀ g ∈ l, g.1 ≤ 0xFFFF ∧ g.2 ≤ 0xFFFF) :
    parseFindByTypeValueRsp ([0x07] ++ encodeRanges l) = some l := by
  show (chunks 4 (encodeRanges l)).map (·.map decRange) = some l
  unfold encodeRanges
  apply chunks_roundtrip _ _ 4 (by omega)
  intro g hg
  refine ⟨rfl, ?_⟩
  obtain ⟨h1, h2⟩ := hl g hg
  simp only [decRange, le16, read16, List.getElem?_cons_succ, List.getElem?_cons_zero]
  rw [lo_hi_roundtrip g.1 h1, lo_hi_roundtrip g.2 h2]

/-! ### Read By Group Type Response: `11 len (first, last, value[len-4])*` -/

def decGroup (c : List UInt8) : Group := ⟨le16 c 0, le16 c 2, c.drop 4⟩

def parseReadByGroupTypeRsp : List UInt8 → Option (List Group)
  | 0x11 :: len :: rest => (chunks len.toNat rest).map (·.map decGroup)
  | _ => none

theorem parse_encodeGroups (n : Nat) (hn : 4 + n < 256) (l : List Group)
    (hl : ∀ g ∈ l, g.first ≤ 0xFFFF ∧ g.last ≤ 0xFFFF ∧ g.value.length = n) :
    parseReadByGroupTypeRsp ([0x11, UInt8.ofNat (4 + n)] ++ encodeGroups l) = some l := by
  show (chunks (UInt8.ofNat (4 + n)).toNat (encodeGroups l)).map (·.map decGroup) = some l
  have hsz : (UInt8.ofNat (4 + n)).toNat = 4 + n := by
    simp only [UInt8.toNat_ofNat']; omega
  rw [hsz]
  unfold encodeGroups
  apply chunks_roundtrip _ _ (4 + n) (by omega)
  intro g hg
  obtain ⟨h1, h2, h3⟩ := hl g hg
  refine ⟨by simp [h3]; omega, ?_⟩
  simp only [decGroup, le16, read16, List.cons_append, List.nil_append, List.getElem?_cons_succ,
    List.getElem?_cons_zero, List.drop_succ_cons, List.drop_zero]
  rw [lo_hi_roundtrip g.first h1, lo_hi_roundtrip g.last h2]

/-! ### Read By Type Response: `09 len (handle, value[len-2])*` -/

def decAttr (c : List UInt8) : Nat × List UInt8 := (le16 c 0, c.drop 2)

def parseReadByTypeRsp : List UInt8 → Option (List (Nat × List UInt8))
  | 0x09 :: len :: rest => (chunks len.toNat rest).map (·.map decAttr)
  | _ => none

theorem parse_encodeAttrs (n : Nat) (hn : 2 + n < 256) (l : List (Nat × List UInt8))
    (hl : ∀ p ∈ l, p.1 ≤ 0xFFFF ∧ p.2.length = n) :
    parseReadByTypeRsp ([0x09, UInt8.ofNat (2 + n)] ++ encodeAttrs l) = some l := by
  show (chunks (UInt8.ofNat (2 + n)).toNat (encodeAttrs l)).map (·.map decAttr) = some l
  have hsz : (UInt8.ofNat (2 + n)).toNat = 2 + n := by
    simp only [UInt8.toNat_ofNat']; omega
  rw [hsz]
  unfold encodeAttrs
  apply chunks_roundtrip _ _ (2 + n) (by omega)
  intro p hp
  obtain ⟨h1, h2⟩ := hl p hp
  refine ⟨by simp [h2]; omega, ?_⟩
  simp only [decAttr, le16, read16, List.cons_append, List.nil_append, List.getElem?_cons_succ,
    List.getElem?_cons_zero, List.drop_succ_cons, List.drop_zero]
  rw [lo_hi_roundtrip p.1 h1]

/-! ### Find Information Response: `05 format (handle, uuid[2 | 16])*` -/

def decTuple (c : List UInt8) : Nat × List UInt8 := (le16 c 0, c.drop 2)

def parseFindInformationRsp : List UInt8 → Option (List (Nat × List UInt8))
  | 0x05 :: 0x01 :: rest => (chunks 4 rest).map (·.map decTuple)
  | 0x05 :: 0x02 :: rest => (chunks 18 rest).map (·.map decTuple)
  | _ => none

/-- what the client learns from a Find Information item: the handle and the type's bytes -/
def tupleSeen (p : Nat × Attr) : Nat × List UInt8 := (p.1, p.2.uuid.bytes)

theorem parse_encodeTuples (fmt : UInt8) (n : Nat) (hf : (fmt = 0x01 ∧ n = 2) ∨ (fmt = 0x02 ∧ n = 16))
    (l : List (Nat × Attr)) (hl : ∀ p ∈ l, p.1 ≤ 0xFFFF ∧ p.2.uuid.bytes.length = n) :
    parseFindInformationRsp ([0x05, fmt] ++ encodeTuples l) = some (l.map tupleSeen) := by
  have key : (chunks (2 + n) (encodeTuples l)).map (·.map decTuple) = some (l.map tupleSeen) := by
    have henc : encodeTuples l = (l.map tupleSeen).flatMap (fun q => [lo q.1, hi q.1] ++ q.2) := by
      unfold encodeTuples
      rw [List.flatMap_map]
      rfl
    rw [henc]
    apply chunks_roundtrip _ _ (2 + n) (by omega)
    intro q hq
    obtain ⟨p, hp, rfl⟩ := List.mem_map.mp hq
    obtain ⟨h1, h2⟩ := hl p hp
    refine ⟨by simp [tupleSeen, h2]; omega, ?_⟩
    simp only [decTuple, tupleSeen, le16, read16, List.cons_append, List.nil_append,
      List.getElem?_cons_succ, List.getElem?_cons_zero, List.drop_succ_cons, List.drop_zero]
    rw [lo_hi_roundtrip p.1 h1]
  rcases hf with ⟨rfl, rfl⟩ | ⟨rfl, rfl⟩
  · exact key
  · exact key

/-! ### end to end over declarations: what the client parses out of the handler's bytes -/

/-- every handle of the table fits 16 bit -/
def Db.Fits (db : Db) : Prop := ∀ p ∈ db.tbl, p.1 ≤ 0xFFFF

theorem hbi_le (db : Db) (hf : db.Fits) (i : Nat) : hbi db i ≤ 0xFFFF := by
  unfold hbi
  cases h : db.tbl[i]? with
  | none => simp
  | some p => exact hf p (List.mem_of_getElem? h)

theorem serviceRanges_fit (db : Db) (hf : db.Fits) (val : List UInt8) :
    ∀ g ∈ serviceRanges db val, g.1 ≤ 0xFFFF ∧ g.2 ≤ 0xFFFF := by
  intro g hg
  obtain ⟨pre, svc, post, _, ht, hb⟩ := (serviceRanges_spec db val g.1 g.2).mp hg
  constructor
  · exact hf _ (List.mem_of_getElem? ht)
  · rw [hb]; exact hbi_le db hf _

theorem ofDecl_Fits (d : ServerDecl) (hw : d.WF) (hi : NoIncludes d) : (ofDecl d).Fits := by
  intro p hp
  have hp' : (p.1, p.2) ∈ (handles d).zip (attrs d) := hp
  exact (handles_nonzero d hw hi p.1 (List.of_mem_zip hp').1).2

/-- **"Discover Primary Service by Service UUID", bytes in – parsed items out, for every declared
    server**: parsing the bytes the handler answers yields exactly the first `(mtu-1)/4` declared
    primary services with the requested UUID in range; the answer is not a Find By Type Value
    Response (nothing is parsed) iff there is none -/
theorem client_find_by_type_value_decl (d : ServerDecl) (hw : d.WF) (hi : NoIncludes d)
    (hf : NoFakePrimary d) (mtu s e : Nat) (val : List UInt8) (hv : val.length = 2 ∨ val.length = 16)
    (hm : 23 ≤ mtu) (h0 : 0 < s) (hse : s ≤ e) (he : e ≤ 0xFFFF) :
    (findByTypeValue (ofDecl d) mtu (findReq s e val)).bind parseFindByTypeValueRsp =
      if rangeOf Prod.fst (serviceRanges (ofDecl d) val) s e = [] then none
      else some ((rangeOf Prod.fst (serviceRanges (ofDecl d) val) s e).take ((mtu - 1) / 4)) := by
  rw [find_by_type_value_complete_decl d hw hi hf mtu s e val hv hm h0 hse he]
  by_cases hn : rangeOf Prod.fst (serviceRanges (ofDecl d) val) s e = []
  · simp only [hn, if_true, Option.bind_some]
    rfl
  · simp only [hn, if_false, Option.bind_some]
    apply parse_encodeRanges
    intro g hg
    have hg' : g ∈ serviceRanges (ofDecl d) val := by
      have := List.mem_of_mem_take hg
      unfold rangeOf at this
      exact (List.mem_filter.mp this).1
    exact serviceRanges_fit _ (ofDecl_Fits d hw hi) val g hg'

/-! ### rejection: a payload that is not a whole number of records is not parsed -/

example : parseFindByTypeValueRsp [0x07, 1, 0, 5, 0, 9] = none := by decide
example : parseFindByTypeValueRsp [0x07, 1, 0, 5, 0, 6, 0, 9, 0] = some [(1, 5), (6, 9)] := by decide
example : parseReadByGroupTypeRsp [0x11, 0, 1, 2] = none := by decide

end BluetoeModel.AttDiscovery
