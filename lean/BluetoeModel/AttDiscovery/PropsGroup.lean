import BluetoeModel.AttDiscovery.EnumGroupLoop
import BluetoeModel.AttDiscovery.PropsEnum
/-!
  # C03 completeness — "report exactly the declared primary services, with their correct handle
  # ranges" — and the C02 enumeration sentence for Read By Group Type «Primary Service»

  `primaries db` (EnumGroup.lean) are the declared primary services in declaration order, each as the
  group (first handle, handle of its last attribute, UUID) a client has to be told.
  `read_by_group_complete`: one response holds exactly `groupCut (mtu - 2)` of the primaries whose
  first handle lies in the requested range — by `groupCut_prefix` / `groupCut_head` a non-empty
  prefix that ends only at a service UUID of the other size or when the MTU is used up; Attribute
  Not Found is answered iff there is none.  `read_by_group_enumerate_all`: the client loop
  (continue behind the end group handle) therefore returns every primary service in range exactly
  once, in order, with NO uniformity condition (the handler stops at a size change instead of
  skipping).  Together with `read_by_group_only_primary` (soundness) this is "exactly".
  Find By Type Value: completeness and enumeration are in `PropsFind.lean`.
-/
namespace BluetoeModel.AttDiscovery
open BluetoeModel.AttHandles

theorem candG_eq_filter (db : Db) (hs : Sorted db.tbl) (s e si li : Nat)
    (hf : firstIndex db s = some si) (hl : lastIndex db e = some li) (i : Nat) (svc : Svc) :
    candG db si li i svc =
      (groupAt db i svc).filter (fun x => decide (s ≤ gfirst x) && decide (gfirst x ≤ e)) := by
  unfold candG
  cases hg : groupAt db i svc with
  | none => simp [Option.filter]
  | some x =>
    obtain ⟨decl, hd, _, _, hfst, _, _⟩ := groupAt_some db i svc x hg
    have h1 := firstIndex_iff db hs s si hf i decl hd
    have h2 := lastIndex_iff db hs e li hl i decl hd
    by_cases hin : si ≤ i ∧ i ≤ li
    · have : s ≤ gfirst x ∧ gfirst x ≤ e := by unfold gfirst; rw [hfst]; exact ⟨h1.mp hin.1, h2.mp hin.2⟩
      simp [Option.filter, hin, this]
    · have : ¬ (s ≤ gfirst x ∧ gfirst x ≤ e) := by
        unfold gfirst; rw [hfst]; intro h; exact hin ⟨h1.mpr h.1, h2.mpr h.2⟩
      rw [if_neg hin]
      simp only [Option.filter]
      rw [if_neg]
      simp only [Bool.and_eq_true, decide_eq_true_eq]
      exact this

def primaryReq (s e : Nat) : List UInt8 := req 0x10 s e [lo uuidPrimary, hi uuidPrimary]

/-- **C03 completeness, Read By Group Type**: the response lists exactly `groupCut` of the primary
    services whose first handle is in `s … e` — all of them up to a UUID size change / the MTU, in
    order, none skipped — and Attribute Not Found iff there is none -/
theorem read_by_group_complete (db : Db) (hw : db.WF) (hsv : db.SvcWF) (mtu s e : Nat) (hm : 23 ≤ mtu)
    (h0 : 0 < s) (hse : s ≤ e) (he : e ≤ 0xFFFF) :
    (rangeOf gfirst (primaries db) s e = [] ∧
      readByGroupTypeV db mtu (primaryReq s e) = some (.err (errorRsp 0x10 s errAttributeNotFound))) ∨
    (∃ hdr, readByGroupTypeV db mtu (primaryReq s e) =
        some (.items hdr (groupCut (mtu - 2) false none (rangeOf gfirst (primaries db) s e))) ∧
      groupCut (mtu - 2) false none (rangeOf gfirst (primaries db) s e) ≠ []) := by
  have hlen : (primaryReq s e).length = 7 ∨ (primaryReq s e).length = 21 := by simp [primaryReq, req]
  have hty : ¬ ((primaryReq s e).length = 21 ∨ read16 (primaryReq s e) 5 ≠ uuidPrimary) := by
    simp [primaryReq, req, read16, lo, hi, uuidPrimary]
  rcases range_check db hw 0x10 7 21 s e _ hlen h0 hse he with ⟨hn, hc⟩ | ⟨si, li, first, hc, hl, hg, hsl, hh⟩
  · left
    constructor
    · unfold rangeOf
      rw [List.filter_eq_nil_iff]
      intro x hx hin
      obtain ⟨j, svc, _, _, _, hgj⟩ := mem_cands _ _ _ _ hx
      obtain ⟨decl, hd, _, _, hfst, _, _⟩ := groupAt_some db j svc x hgj
      have hmem : decl ∈ inRange db s e := by
        unfold inRange
        rw [List.mem_filter]
        refine ⟨List.mem_of_getElem? hd, ?_⟩
        unfold gfirst at hin
        rw [hfst] at hin
        exact hin
      rw [hn] at hmem
      cases hmem
    · simp only [readByGroupTypeV]
      show (match checkRange db (req 0x10 s e [lo uuidPrimary, hi uuidPrimary]) 0x10 7 21 with
        | .err r => _ | .ok s e si => _) = _
      rw [hc]
  · have hfirst := checkRange_ok_first db _ _ _ _ _ _ _ hc
    obtain ⟨st', hrun, hout, hinv⟩ := groupLoop_out db si li hsv.readable db.services
      ⟨[], mtu - 2, 0, false, none⟩ (by simp only [hsv.total]; omega) hsv.pos
    have hcands : cands (candG db si li) 0 db.services = rangeOf gfirst (primaries db) s e := by
      rw [cands_filter (groupAt db) (candG db si li) _ (candG_eq_filter db hw.sorted s e si li hfirst hl)]
      rfl
    simp only [hcands, List.nil_append] at hout
    have hV : readByGroupTypeV db mtu (primaryReq s e) =
        match st'.out, st'.is128 with
        | [], _ => some (.err (errorRsp 0x10 s errAttributeNotFound))
        | _, none => none
        | out, some b => some (.items [0x11, if b then 20 else 6] out) := by
      simp only [readByGroupTypeV]
      show (match checkRange db (req 0x10 s e [lo uuidPrimary, hi uuidPrimary]) 0x10 7 21 with
        | .err r => _ | .ok s e si => _) = _
      rw [hc]
      simp only
      rw [if_neg hty, hl, firstIndex_one db hw]
      simp only
      rw [hrun]
      rfl
    cases hr : rangeOf gfirst (primaries db) s e with
    | nil =>
      left
      rw [hr] at hout
      have ho : st'.out = [] := by rw [hout]; rfl
      refine ⟨rfl, ?_⟩
      rw [hV, ho]
    | cons x t =>
      right
      obtain ⟨g, b⟩ := x
      have hne : groupCut (mtu - 2) false none ((g, b) :: t) ≠ [] := groupCut_head _ g b t (by omega)
      rw [hr] at hout
      have hso : st'.out ≠ [] := by rw [hout]; exact hne
      have hsome : st'.is128.isSome := by
        rcases hinv (Or.inl rfl) with h | h
        · exact absurd h hso
        · exact h
      cases hb : st'.is128 with
      | none => rw [hb] at hsome; cases hsome
      | some bb =>
        refine ⟨[0x11, if bb then 20 else 6], ?_, hne⟩
        rw [hV, hb, ← hout]
        cases hso' : st'.out with
        | nil => exact absurd hso' hso
        | cons a as => rfl

/-- one Read By Group Type request of the client loop (Discover All Primary Services): the next
    request starts behind the end group handle of the last group -/
def askReadByGroupType (db : Db) (mtu e : Nat) (s : Nat) : Reply Group :=
  View.reply 0x10 s id (nextAfter Group.last) (readByGroupTypeV db mtu (primaryReq s e))

theorem primaries_sorted (db : Db) (hw : db.WF) (hsv : db.SvcWF) :
    ((primaries db).map (·.1)).Pairwise (fun a b => a.last < b.first) ∧
      ∀ m ∈ (primaries db).map (·.1), m.first ≤ m.last := by
  obtain ⟨h1, h2⟩ := cands_groupAt_sorted db hw.sorted 0 db.services hsv.pos (by simp only [hsv.total]; omega)
  constructor
  · rw [List.pairwise_map]; exact h1
  · intro m hm
    obtain ⟨x, hx, rfl⟩ := List.mem_map.mp hm
    exact h2 x hx

theorem rangeOf_map_primaries (db : Db) (s e : Nat) :
    rangeOf Group.first ((primaries db).map (·.1)) s e = (rangeOf gfirst (primaries db) s e).map (·.1) := by
  unfold rangeOf
  rw [List.filter_map]
  rfl

theorem readByGroupType_prefixResponder (db : Db) (hw : db.WF) (hsv : db.SvcWF) (mtu e : Nat)
    (hm : 23 ≤ mtu) (he : e ≤ 0xFFFF) :
    PrefixResponder Group.first ((primaries db).map (·.1)) (askReadByGroupType db mtu e) e := by
  intro s h0 hse
  obtain ⟨hM, hfl⟩ := primaries_sorted db hw hsv
  rw [rangeOf_map_primaries]
  rcases read_by_group_complete db hw hsv mtu s e hm h0 hse he with ⟨hn, hv⟩ | ⟨hdr, hv, hne⟩
  · left
    refine ⟨by rw [hn]; rfl, ?_⟩
    simp [askReadByGroupType, hv, View.reply]
  · right
    have hp := groupCut_prefix (mtu - 2) false none (rangeOf gfirst (primaries db) s e)
    have hp' : groupCut (mtu - 2) false none (rangeOf gfirst (primaries db) s e) <+:
        rangeOf Group.first ((primaries db).map (·.1)) s e := by rw [rangeOf_map_primaries]; exact hp
    obtain ⟨h1, h2, h3⟩ := nextAfterGroup_ok Group.first Group.last _ hM hfl s e _ hne hp'
    refine ⟨_, _, ?_, hne, hp, h1, h2, h3⟩
    simp only [askReadByGroupType, hv, View.reply, id]

/-- **enumerate_all, Read By Group Type** (and C03 completeness of Discover All Primary Services):
    the loop returns exactly the declared primary services whose first handle lies in `s … e`,
    each once, in ascending order — for every table, MTU ≥ 23 and mix of UUID sizes -/
theorem read_by_group_enumerate_all (db : Db) (hw : db.WF) (hsv : db.SvcWF) (mtu e s fuel : Nat)
    (hm : 23 ≤ mtu) (he : e ≤ 0xFFFF) (h0 : 0 < s) (hf : e + 1 - s ≤ fuel) :
    clientLoop (askReadByGroupType db mtu e) e fuel s =
      ((primaries db).map (·.1)).filter (fun g => decide (s ≤ g.first) && decide (g.first ≤ e)) :=
  clientLoop_complete Group.first _
    (List.Pairwise.imp_of_mem (fun {a b} ha _ h => by
      have := (primaries_sorted db hw hsv).2 a ha; omega) (primaries_sorted db hw hsv).1)
    _ e (readByGroupType_prefixResponder db hw hsv mtu e hm he) fuel s h0 hf

/-- 16, 128, 16 bit primary services and a secondary one (handles with a gap) -/
def exDbMixed : Db :=
  { tbl := [ (1, ⟨.u16 0x2800, some [0x0F, 0x18]⟩), (2, ⟨.u16 0x2803, some [0x02, 3, 0, 0x19, 0x2A]⟩),
             (3, ⟨.u16 0x2A19, some [100]⟩),
             (0x10, ⟨.u16 0x2800, some u128ex⟩),
             (0x20, ⟨.u16 0x2801, some [0x34, 0x12]⟩),
             (0x30, ⟨.u16 0x2800, some [0x15, 0x18]⟩), (0x31, ⟨.u16 0x2803, some [0x02, 0x32, 0, 0x56, 0x2A]⟩),
             (0x32, ⟨.u16 0x2A56, none⟩) ],
    services := [⟨3, false⟩, ⟨1, true⟩, ⟨1, false⟩, ⟨3, false⟩] }

theorem exDbMixed_WF : exDbMixed.WF := ⟨by decide, by unfold Sorted; decide, by decide⟩
theorem exDbMixed_SvcWF : exDbMixed.SvcWF := ⟨by decide, by decide, by decide⟩

-- non-vacuity: three requests (size change twice), the secondary service at 0x20 is not reported
example : clientLoop (askReadByGroupType exDbMixed 23 0xFFFF) 0xFFFF 4 1 =
    [⟨1, 3, [0x0F, 0x18]⟩, ⟨0x10, 0x10, u128ex⟩, ⟨0x30, 0x32, [0x15, 0x18]⟩] := by decide
example : (primaries exDbMixed).map (·.1) =
    [⟨1, 3, [0x0F, 0x18]⟩, ⟨0x10, 0x10, u128ex⟩, ⟨0x30, 0x32, [0x15, 0x18]⟩] := by decide

end BluetoeModel.AttDiscovery
