import BluetoeModel.AttDiscovery.Model
/-!
  Helper lemmas for C02 / C03: on a table with strictly ascending handles, the index interval the
  handlers compute (`firstIndex` of the starting handle … `lastIndex` of the ending handle) is
  exactly the list of entries whose handle lies in the requested range.
-/
namespace BluetoeModel.AttDiscovery
open BluetoeModel.AttHandles



/-- strictly ascending handles -/
def Sorted (l : List (Nat × Attr)) : Prop := l.Pairwise (fun a b => a.1 < b.1)

/-- a well-formed table: at least one attribute, handles non-zero and strictly ascending
    (`AttHandles.handles_strict_mono`, `handles_nonzero` for the table of a declaration) -/
structure Db.WF (db : Db) : Prop where
  nonempty : db.tbl ≠ []
  sorted   : Sorted db.tbl
  pos      : ∀ p ∈ db.tbl, 0 < p.1

/-- the specification of "the attributes in the requested range", in ascending handle order -/
def inRange (db : Db) (s e : Nat) : List (Nat × Attr) :=
  db.tbl.filter (fun p => decide (s ≤ p.1) && decide (p.1 ≤ e))

theorem sorted_tail {p : Nat × Attr} {l : List (Nat × Attr)} (h : Sorted (p :: l)) : Sorted l :=
  (List.pairwise_cons.mp h).2

theorem sorted_head_lt {p : Nat × Attr} {l : List (Nat × Attr)} (h : Sorted (p :: l)) : ∀ q ∈ l, p.1 < q.1 :=
  (List.pairwise_cons.mp h).1

theorem sorted_filter {l : List (Nat × Attr)} (h : Sorted l) (f : Nat × Attr → Bool) : Sorted (l.filter f) :=
  List.Pairwise.sublist List.filter_sublist h

/-- S1: dropping the entries below `s` = keeping the entries with handle ≥ s -/
theorem drop_countP_lt {l : List (Nat × Attr)} (h : Sorted l) (s : Nat) :
    l.drop (l.countP (fun p => decide (p.1 < s))) = l.filter (fun p => decide (s ≤ p.1)) := by
  induction l with
  | nil => rfl
  | cons p t ih =>
    have ht := sorted_tail h
    have hlt := sorted_head_lt h
    rw [List.countP_cons, List.filter_cons]
    by_cases hp : p.1 < s
    · have : ¬ s ≤ p.1 := by omega
      simp only [hp, this, decide_true, decide_false, if_true]
      simp only [Bool.false_eq_true, if_false]
      rw [List.drop_succ_cons]; exact ih ht
    · have hs : s ≤ p.1 := by omega
      have hz : t.countP (fun q => decide (q.1 < s)) = 0 := by
        rw [List.countP_eq_zero]; intro q hq; have := hlt q hq; simp; omega
      have hall : t.filter (fun q => decide (s ≤ q.1)) = t := by
        rw [List.filter_eq_self]; intro q hq; have := hlt q hq; simp; omega
      simp [hp, hs, hz, hall]

/-- S2: the first `countP (· < t)` entries = the entries with handle < t -/
theorem take_countP_lt {l : List (Nat × Attr)} (h : Sorted l) (t : Nat) :
    l.take (l.countP (fun p => decide (p.1 < t))) = l.filter (fun p => decide (p.1 < t)) := by
  induction l with
  | nil => rfl
  | cons p r ih =>
    have ht := sorted_tail h
    have hlt := sorted_head_lt h
    rw [List.countP_cons, List.filter_cons]
    by_cases hp : p.1 < t
    · simp only [hp, decide_true, if_true]
      rw [List.take_succ_cons, ih ht]
    · have hz : r.countP (fun q => decide (q.1 < t)) = 0 := by
        rw [List.countP_eq_zero]; intro q hq; have := hlt q hq; simp; omega
      have hnone : r.filter (fun q => decide (q.1 < t)) = [] := by
        rw [List.filter_eq_nil_iff]; intro q hq; have := hlt q hq; simp; omega
      simp [hp, hz, hnone]

theorem countP_lt_mono (l : List (Nat × Attr)) {a b : Nat} (hab : a ≤ b) :
    l.countP (fun p => decide (p.1 < a)) ≤ l.countP (fun p => decide (p.1 < b)) := by
  induction l with
  | nil => simp
  | cons p t ih =>
    simp only [List.countP_cons]
    by_cases h1 : p.1 < a
    · have : p.1 < b := by omega
      simp [h1, this]; exact ih
    · by_cases h2 : p.1 < b <;> simp [h1, h2] <;> omega

/-- the index interval `[countP (· < s), countP (· ≤ e))` is the requested range -/
theorem slice_eq_inRange (db : Db) (hw : Sorted db.tbl) (s e : Nat) (hse : s ≤ e) :
    (db.tbl.drop (db.tbl.countP (fun p => decide (p.1 < s)))).take
        (db.tbl.countP (fun p => decide (p.1 < e + 1)) - db.tbl.countP (fun p => decide (p.1 < s)))
      = inRange db s e := by
  have hmono := countP_lt_mono db.tbl (show s ≤ e + 1 by omega)
  rw [List.take_drop]
  have e1 : db.tbl.countP (fun p => decide (p.1 < s)) +
      (db.tbl.countP (fun p => decide (p.1 < e + 1)) - db.tbl.countP (fun p => decide (p.1 < s)))
      = db.tbl.countP (fun p => decide (p.1 < e + 1)) := by omega
  rw [e1, take_countP_lt hw]
  -- the entries below s are all below e + 1
  have hc : (db.tbl.filter (fun p => decide (p.1 < e + 1))).countP (fun p => decide (p.1 < s))
      = db.tbl.countP (fun p => decide (p.1 < s)) := by
    rw [List.countP_filter]
    apply List.countP_congr
    intro p _
    simp; omega
  rw [← hc, drop_countP_lt (sorted_filter hw _), List.filter_filter]
  unfold inRange
  apply List.filter_congr
  intro p _
  rw [Bool.eq_iff_iff]
  simp only [Bool.and_eq_true, decide_eq_true_eq]
  omega

/-- element `i` of a sorted table is below `h` iff `i` is below the count -/
theorem key_lt_iff {l : List (Nat × Attr)} (hs : Sorted l) (h i : Nat) (p : Nat × Attr) (hp : l[i]? = some p) :
    p.1 < h ↔ i < l.countP (fun q => decide (q.1 < h)) := by
  induction l generalizing i with
  | nil => simp at hp
  | cons a l ih =>
    have ht := sorted_tail hs
    have hlt := sorted_head_lt hs
    rw [List.countP_cons]
    cases i with
    | zero =>
      simp at hp; subst hp
      by_cases ha : a.1 < h
      · simp [ha]
      · have : l.countP (fun q => decide (q.1 < h)) = 0 := by
          rw [List.countP_eq_zero]; intro q hq; have := hlt q hq; simp; omega
        simp [ha, this]
    | succ j =>
      simp only [List.getElem?_cons_succ] at hp
      have hmem : p ∈ l := List.mem_of_getElem? hp
      by_cases ha : a.1 < h
      · simp only [ha, decide_true, if_true]
        rw [ih ht j hp]; omega
      · have h0 : l.countP (fun q => decide (q.1 < h)) = 0 := by
          rw [List.countP_eq_zero]; intro q hq; have := hlt q hq; simp; omega
        have := hlt p hmem
        simp [ha, h0]; omega

theorem hbi_eq {db : Db} {i : Nat} {p : Nat × Attr} (h : db.tbl[i]? = some p) : hbi db i = p.1 := by
  simp [hbi, h]

/-- after a successful range check, `lastIndex` is the index of the last entry with handle ≤ e
    (in particular it never leaves the table), and the slice is the requested range, which is
    not empty and starts with the entry at the starting index -/
theorem range_ok (db : Db) (hw : db.WF) (s e si : Nat) (hse : s ≤ e)
    (hf : firstIndex db s = some si) (hle : hbi db si ≤ e) :
    ∃ li first, lastIndex db e = some li ∧ db.tbl[si]? = some first ∧
      slice db si li = inRange db s e ∧ (inRange db s e).head? = some first := by
  have hs := hw.sorted
  unfold firstIndex at hf
  simp only at hf
  split at hf
  case isFalse => cases hf
  case isTrue hlt =>
  have hsi := Option.some.inj hf
  -- c1 = si, c2 = number of entries with handle ≤ e
  have hget : db.tbl[si]? = some db.tbl[si] := List.getElem?_eq_getElem (hsi ▸ hlt)
  have hkey_ge : s ≤ (db.tbl[si]'(hsi ▸ hlt)).1 := by
    have := (not_congr (key_lt_iff hs s si _ hget)).mpr (by omega)
    omega
  rw [hbi_eq hget] at hle
  have hc12 : si < db.tbl.countP (fun p => decide (p.1 < e + 1)) :=
    (key_lt_iff hs (e + 1) si _ hget).mp (by omega)
  have hc2n : db.tbl.countP (fun p => decide (p.1 < e + 1)) ≤ db.tbl.length := List.countP_le_length
  have hme := countP_lt_mono db.tbl (show e ≤ e + 1 by omega)
  -- lastIndex = c2 - 1
  have hli : lastIndex db e = some (db.tbl.countP (fun p => decide (p.1 < e + 1)) - 1) := by
    unfold lastIndex firstIndex
    simp only
    by_cases hm : db.tbl.countP (fun p => decide (p.1 < e)) < db.tbl.length
    · rw [if_pos hm]
      simp only
      have hgm : db.tbl[db.tbl.countP (fun p => decide (p.1 < e))]? = some db.tbl[db.tbl.countP (fun p => decide (p.1 < e))] :=
        List.getElem?_eq_getElem hm
      have hge : e ≤ (db.tbl[db.tbl.countP (fun p => decide (p.1 < e))]'hm).1 := by
        have := (not_congr (key_lt_iff hs e _ _ hgm)).mpr (by omega)
        omega
      rw [hbi_eq hgm]
      by_cases heq : (db.tbl[db.tbl.countP (fun p => decide (p.1 < e))]'hm).1 = e
      · rw [if_pos heq]
        congr 1
        -- c2 = m + 1
        have h1 := (key_lt_iff hs (e + 1) _ _ hgm).mp (by omega)
        by_cases h2 : db.tbl.countP (fun p => decide (p.1 < e)) + 1 < db.tbl.countP (fun p => decide (p.1 < e + 1))
        · exfalso
          have hm1 : db.tbl.countP (fun p => decide (p.1 < e)) + 1 < db.tbl.length := by omega
          have hg1 := List.getElem?_eq_getElem hm1
          have hlt1 := (key_lt_iff hs (e + 1) _ _ hg1).mpr h2
          have := List.pairwise_iff_getElem.mp hs _ _ hm hm1 (by omega)
          omega
        · omega
      · rw [if_neg heq]
        have hgt : e < (db.tbl[db.tbl.countP (fun p => decide (p.1 < e))]'hm).1 := by omega
        have h1 := (not_congr (key_lt_iff hs (e + 1) _ _ hgm)).mp (by omega)
        have hmz : db.tbl.countP (fun p => decide (p.1 < e)) ≠ 0 := by omega
        rw [if_neg hmz]
        congr 1; omega
    · rw [if_neg hm]
      simp only
      have hn : db.tbl.length ≠ 0 := by omega
      rw [if_neg hn]
      congr 1; omega
  refine ⟨_, db.tbl[si]'(hsi ▸ hlt), hli, hget, ?_, ?_⟩
  · unfold slice
    have := slice_eq_inRange db hs s e hse
    rw [hsi] at this
    rw [← this]
    congr 1; omega
  · -- the range is the slice, whose head is entry si
    have := slice_eq_inRange db hs s e hse
    rw [hsi] at this
    rw [← this, List.head?_take, if_neg (by omega), List.head?_drop, hget]

/-! ### one step of the service loops: the output grows by at most one, checked, group -/

theorem groupEach_out (db : Db) (si li : Nat) (st st1 : GState) (svc : Svc)
    (he : groupEach db si li st svc = some st1) :
    st1.index = st.index + svc.nAttrs ∧
    (st1.out = st.out ∨ ∃ decl v, db.tbl[st.index]? = some decl ∧ si ≤ st.index ∧ st.index ≤ li ∧
        decl.2.uuid = .u16 uuidPrimary ∧ decl.2.value = some v ∧
        st1.out = st.out ++ [⟨decl.1, hbi db (st.index + svc.nAttrs - 1), v⟩]) := by
  unfold groupEach at he
  repeat' (first | split at he | (dsimp only at he; split at he))
  all_goals (cases he)
  all_goals first
    | exact ⟨rfl, Or.inl rfl⟩
    | (refine ⟨rfl, Or.inr ⟨_, _, ‹_›, ?_, ?_, ?_, ‹_›, rfl⟩⟩ <;> simp_all)

theorem findEach_out (db : Db) (si : Nat) (ei : Option Nat) (val : List UInt8) (st st1 : FState) (svc : Svc)
    (he : findEach db si ei val st svc = some st1) :
    st1.index = st.index + svc.nAttrs ∧
    (st1.out = st.out ∨ ∃ decl, db.tbl[st.index]? = some decl ∧ si ≤ st.index ∧
        (∀ x, ei = some x → st.index ≤ x) ∧
        decl.2.uuid = .u16 uuidPrimary ∧ decl.2.value = some val ∧
        st1.out = st.out ++ [(decl.1, hbi db (st.index + svc.nAttrs - 1))]) := by
  unfold findEach at he
  simp only at he
  repeat' (first | split at he | (dsimp only at he; split at he))
  all_goals (cases he)
  all_goals first
    | exact ⟨rfl, Or.inl rfl⟩
    | (refine ⟨rfl, Or.inr ⟨_, ‹_›, ?_, ?_, ?_, ?_, rfl⟩⟩ <;> simp_all)
end BluetoeModel.AttDiscovery
