import BluetoeModel.AttDiscovery.EnumGroupLoop
/-!
  The loop of `handle_find_by_type_value_request` (`findLoop`: `details::services_by_group::each` +
  `value_filter` + `collect_find_by_type_groups`) outputs exactly the first `room / 4` of its
  candidates: the (first handle, handle of the last attribute) of every service inside the index
  interval whose declaration attribute is «Primary Service» and whose value is the requested value
  (C03 completeness for one Find By Type Value request).  Nothing is skipped: once an entry does not
  fit (`room < 4`) no later one fits either, because every entry costs the same 4 bytes.
-/
namespace BluetoeModel.AttDiscovery
open BluetoeModel.AttHandles

/-- the range reported for a primary service (group, width) if its UUID bytes are the requested
    value: found attribute handle = first handle, group end handle = handle of the last attribute -/
def pairOf (val : List UInt8) (x : Group × Bool) : Option (Nat × Nat) :=
  if x.1.value = val then some (x.1.first, x.1.last) else none

-- src: details::services_by_group::each — `starting_index_ <= index_ && ( ending_index_ == invalid || index_ <= ending_index_ )`
def inIdx (si : Nat) (ei : Option Nat) (i : Nat) : Bool :=
  decide (si ≤ i) && (match ei with | some e => decide (i ≤ e) | none => true)

/-- the candidate of the service whose declaration is table entry `i` -/
def candF (db : Db) (si : Nat) (ei : Option Nat) (val : List UInt8) (i : Nat) (svc : Svc) : Option (Nat × Nat) :=
  if inIdx si ei i then (groupAt db i svc).bind (pairOf val) else none

theorem cands_filterMap {β γ : Type} (f : Nat → Svc → Option β) (f' : Nat → Svc → Option γ) (g : β → Option γ)
    (h : ∀ i s, f' i s = (f i s).bind g) (i : Nat) (l : List Svc) :
    cands f' i l = (cands f i l).filterMap g := by
  induction l generalizing i with
  | nil => rfl
  | cons s ss ih =>
    simp only [cands, List.filterMap_append, ih, h]
    congr 1
    cases f i s with
    | none => rfl
    | some x => cases hg : g x <;> simp [Option.toList, hg]

theorem take_cons_room {α : Type} (g : α) (t : List α) (room : Nat) (h : 4 ≤ room) :
    (g :: t).take (room / 4) = g :: t.take ((room - 4) / 4) := by
  have : room / 4 = (room - 4) / 4 + 1 := by omega
  rw [this, List.take_succ_cons]

theorem take_room_small {α : Type} (l : List α) (room : Nat) (h : ¬ 4 ≤ room) : l.take (room / 4) = [] := by
  have : room / 4 = 0 := by omega
  rw [this, List.take_zero]

/-- one step of the loop: the index advances by the service's attribute count, `found` says that
    something was written, and output + what the rest of the loop can still add is unchanged when the
    service's candidate is put in front of the remaining candidates -/
theorem findEach_step (db : Db) (si : Nat) (ei : Option Nat) (val : List UInt8) (st st1 : FState) (svc : Svc)
    (he : findEach db si ei val st svc = some st1) :
    st1.index = st.index + svc.nAttrs ∧
    ((st.found = true ↔ st.out ≠ []) → (st1.found = true ↔ st1.out ≠ [])) ∧
    ∀ t : List (Nat × Nat), st1.out ++ t.take (st1.room / 4) =
      st.out ++ ((candF db si ei val st.index svc).toList ++ t).take (st.room / 4) := by
  obtain ⟨out, room, index, found⟩ := st
  unfold findEach at he
  simp only at he
  change (if inIdx si ei index = true then _ else _) = some st1 at he
  by_cases hin : inIdx si ei index = true
  · rw [if_pos hin] at he
    cases hd : db.tbl[index]? with
    | none => rw [hd] at he; cases he
    | some decl =>
      rw [hd] at he
      simp only at he
      by_cases hu : decl.2.uuid = .u16 uuidPrimary
      · by_cases hv : decl.2.value = some val
        · have hc : candF db si ei val index svc = some (decl.1, hbi db (index + svc.nAttrs - 1)) := by
            simp [candF, hin, groupAt, hd, hu, hv, pairOf]
          rw [hc]
          simp only [hu, hv, beq_self_eq_true, Bool.and_self, if_true] at he
          by_cases hr : 4 ≤ room
          · rw [if_pos hr] at he
            cases he
            refine ⟨rfl, fun _ => by simp, fun t => ?_⟩
            simp only [Option.toList, List.singleton_append, List.append_assoc]
            rw [take_cons_room _ _ _ hr]
          · rw [if_neg hr] at he
            cases he
            refine ⟨rfl, id, fun t => ?_⟩
            simp only
            rw [take_room_small _ _ hr, take_room_small _ _ hr]
        · have hc : candF db si ei val index svc = none := by
            simp only [candF, hin, if_true, groupAt, hd, hu]
            cases hvv : decl.2.value with
            | none => rfl
            | some v =>
              have : v ≠ val := fun h => hv (by rw [hvv, h])
              simp [pairOf, this]
          have hv' : (decl.2.value == some val) = false := by simp [hv]
          rw [hc]
          simp only [hv', Bool.and_false, Bool.false_eq_true, if_false] at he
          cases he
          exact ⟨rfl, id, fun t => by simp [Option.toList]⟩
      · have hc : candF db si ei val index svc = none := by
          simp [candF, groupAt, hd, hu]
        have hu' : (decl.2.uuid == Uuid.u16 uuidPrimary) = false := by simp [hu]
        rw [hc]
        simp only [hu', Bool.false_and, Bool.false_eq_true, if_false] at he
        cases he
        exact ⟨rfl, id, fun t => by simp [Option.toList]⟩
  · rw [if_neg hin] at he
    cases he
    have hc : candF db si ei val index svc = none := by simp [candF, hin]
    rw [hc]
    exact ⟨rfl, id, fun t => by simp [Option.toList]⟩

theorem findEach_some (db : Db) (si : Nat) (ei : Option Nat) (val : List UInt8) (st : FState) (svc : Svc)
    (h : st.index < db.tbl.length) : ∃ st1, findEach db si ei val st svc = some st1 := by
  unfold findEach
  rw [List.getElem?_eq_getElem h]
  simp only
  repeat' split
  all_goals exact ⟨_, rfl⟩

/-- the loop never leaves the table and outputs exactly the first `room / 4` of its candidates;
    `found` ⇔ something was written -/
theorem findLoop_out (db : Db) (si : Nat) (ei : Option Nat) (val : List UInt8) (svcs : List Svc) :
    ∀ st : FState, st.index + sumAttrs svcs ≤ db.tbl.length → (∀ s ∈ svcs, 0 < s.nAttrs) →
    (st.found = true ↔ st.out ≠ []) →
    ∃ st', findLoop db si ei val st svcs = some st' ∧
      st'.out = st.out ++ (cands (candF db si ei val) st.index svcs).take (st.room / 4) ∧
      (st'.found = true ↔ st'.out ≠ []) := by
  induction svcs with
  | nil =>
    intro st _ _ hfo
    exact ⟨st, rfl, by simp [cands], hfo⟩
  | cons svc ss ih =>
    intro st hb hpos hfo
    simp only [sumAttrs] at hb
    have hn := hpos svc (by simp)
    obtain ⟨st1, he⟩ := findEach_some db si ei val st svc (by omega)
    obtain ⟨hidx, hf1, hstep⟩ := findEach_step db si ei val st st1 svc he
    obtain ⟨st', hrun, hout, hfo'⟩ := ih st1 (by rw [hidx]; omega) (fun s hs => hpos s (by simp [hs])) (hf1 hfo)
    refine ⟨st', by simp only [findLoop, he]; exact hrun, ?_, hfo'⟩
    rw [hout, hidx, hstep]
    simp only [cands]

/-! ### the handler's own ending index and the index interval -/

/-- `services_by_group`'s ending index agrees with `last_handle_index`: the same index, or
    "no upper limit" when the ending handle lies behind the table -/
theorem groupEndIndex_of_lastIndex (db : Db) (e li : Nat) (hl : lastIndex db e = some li) :
    groupEndIndex db e = some (some li) ∨
      (groupEndIndex db e = some none ∧ li = db.tbl.length - 1) := by
  unfold lastIndex at hl
  unfold groupEndIndex
  cases hfe : firstIndex db e with
  | none =>
    rw [hfe] at hl; simp only at hl
    split at hl
    · cases hl
    · right; exact ⟨rfl, (Option.some.inj hl).symm⟩
  | some m =>
    rw [hfe] at hl; simp only at hl ⊢
    split at hl
    · rename_i heq; rw [if_pos heq]; left; rw [Option.some.inj hl]
    · rename_i hne; rw [if_neg hne]
      split at hl
      · cases hl
      · rename_i hm0; rw [if_neg hm0]; left; rw [Option.some.inj hl]

/-- with that ending index the Find By Type Value candidate is the Read By Group Type candidate
    (same index interval) restricted to the requested value -/
theorem candF_eq_candG (db : Db) (si li : Nat) (ei : Option Nat) (val : List UInt8)
    (hei : ei = some li ∨ (ei = none ∧ li = db.tbl.length - 1)) (i : Nat) (svc : Svc) :
    candF db si ei val i svc = (candG db si li i svc).bind (pairOf val) := by
  unfold candF candG inIdx
  cases hg : groupAt db i svc with
  | none => simp
  | some x =>
    obtain ⟨decl, hd, _⟩ := groupAt_some db i svc x hg
    have hi : i < db.tbl.length := (List.getElem?_eq_some_iff.mp hd).1
    rcases hei with rfl | ⟨rfl, hli⟩
    · by_cases h : si ≤ i ∧ i ≤ li
      · simp [h.1, h.2]
      · rw [if_neg h]
        have : (decide (si ≤ i) && decide (i ≤ li)) = false := by
          rw [Bool.and_eq_false_iff]; simp only [decide_eq_false_iff_not]; omega
        simp [this]
    · by_cases h : si ≤ i
      · have : si ≤ i ∧ i ≤ li := ⟨h, by omega⟩
        simp [h, this]
      · have h' : ¬ (si ≤ i ∧ i ≤ li) := fun hh => h hh.1
        simp [h]

/-- filtering by the first handle commutes with selecting the requested value -/
theorem rangeOf_filterMap_pairOf (val : List UInt8) (l : List (Group × Bool)) (s e : Nat) :
    rangeOf Prod.fst (l.filterMap (pairOf val)) s e = (rangeOf gfirst l s e).filterMap (pairOf val) := by
  unfold rangeOf
  induction l with
  | nil => rfl
  | cons x t ih =>
    by_cases hv : x.1.value = val
    · have hp : pairOf val x = some (x.1.first, x.1.last) := by simp [pairOf, hv]
      rw [List.filterMap_cons_some hp, List.filter_cons, List.filter_cons]
      by_cases hr : (decide (s ≤ gfirst x) && decide (gfirst x ≤ e)) = true
      · have hr' : (decide (s ≤ (x.1.first, x.1.last).1) && decide ((x.1.first, x.1.last).1 ≤ e)) = true := hr
        rw [if_pos hr, if_pos hr', List.filterMap_cons_some hp, ih]
      · have hr' : ¬ (decide (s ≤ (x.1.first, x.1.last).1) && decide ((x.1.first, x.1.last).1 ≤ e)) = true := hr
        rw [if_neg hr, if_neg hr', ih]
    · have hp : pairOf val x = none := by simp [pairOf, hv]
      rw [List.filterMap_cons_none hp, List.filter_cons]
      split
      · rw [List.filterMap_cons_none hp, ih]
      · exact ih

/-! ### the handler -/

-- src: server::handle_find_by_type_value_request (= `findByTypeValue`, response not yet encoded)
def findByTypeValueV (db : Db) (mtu : Nat) (pdu : List UInt8) : Option (View (Nat × Nat)) :=
  match checkRange db pdu 0x06 9 23 with
  | .err r => some (.err r)
  | .ok s e si =>
      if read16 pdu 5 ≠ uuidPrimary then some (.err (errorRsp 0x06 s errUnsupportedGroupType))
      else match groupEndIndex db e with
        | none => none
        | some ei =>
            match findLoop db si ei (pdu.drop 7) ⟨[], mtu - 1, 0, false⟩ db.services with
            | none => none
            | some st =>
                if st.found then some (.items [0x07] st.out)
                else some (.err (errorRsp 0x06 s errAttributeNotFound))

theorem findByTypeValue_view (db : Db) (mtu : Nat) (pdu : List UInt8) :
    findByTypeValue db mtu pdu = (findByTypeValueV db mtu pdu).map (View.bytes encodeRanges) := by
  unfold findByTypeValue findByTypeValueV
  cases checkRange db pdu 0x06 9 23 with
  | err r => rfl
  | ok s e si =>
    simp only
    split
    · rfl
    · cases groupEndIndex db e with
      | none => rfl
      | some ei =>
        simp only
        cases findLoop db si ei (pdu.drop 7) _ db.services with
        | none => rfl
        | some st =>
          simp only
          cases st.found <;> rfl

end BluetoeModel.AttDiscovery
