import BluetoeModel.AttDiscovery.Lemmas
import BluetoeModel.AttHandles.Props
/-!
  # C02 — Discovery returns exactly the in-range matching attributes
  # C03 — Primary service discovery never reports secondary services

  C02: "For any server declaration (including fixed attribute handles with gaps), Find Information,
  Read By Type and Read By Group Type responses contain only attributes whose handles lie inside
  the requested start..end range and whose type matches, in ascending handle order, and 'Attribute
  Not Found' is returned only when no such attribute exists. Repeating the request from the handle
  after the last returned one eventually enumerates every matching attribute exactly once."

  C03: "For any server declaration, 'Discover All Primary Services' (Read By Group Type for
  «Primary Service») and 'Discover Primary Service by UUID' (Find By Type Value for «Primary
  Service») report exactly the declared primary services, with their correct handle ranges, and
  never a secondary service."

  The theorems are about the model of the FIXED handlers (fixes/attdisc-01 … 03) and hold for every
  table with non-zero strictly ascending handles (`Db.WF`), every start ≤ end, every MTU ≥ 23;
  `ofDecl_WF` instantiates them for the table of every well-formed declaration (C04).
  `inRange db s e` is the specification: the entries with `s ≤ handle ≤ e`, ascending.

  What is NOT true of the code and stays a known finding (witness theorems at the end):
  the enumeration sentence when UUID sizes / value sizes are mixed or a matching attribute is not
  readable, "Attribute Not Found only when no such attribute exists" for unreadable attributes, and
  Read By Type with a true 128 bit type.
-/
namespace BluetoeModel.AttDiscovery
open BluetoeModel.AttHandles

/-- a request PDU: opcode, starting handle, ending handle, parameters -/
def req (op : UInt8) (s e : Nat) (rest : List UInt8) : List UInt8 :=
  op :: lo s :: hi s :: lo e :: hi e :: rest

theorem read16_req (op : UInt8) (s e : Nat) (rest : List UInt8) (hs : s ≤ 0xFFFF) (he : e ≤ 0xFFFF) :
    read16 (req op s e rest) 1 = s ∧ read16 (req op s e rest) 3 = e := by
  constructor
  · simp only [read16, req, List.getElem?_cons_succ, List.getElem?_cons_zero]
    exact lo_hi_roundtrip s hs
  · simp only [read16, req, List.getElem?_cons_succ, List.getElem?_cons_zero]
    exact lo_hi_roundtrip e he

/-! ### the range check and the index interval (all four handlers) -/

theorem inRange_nil_of_none (db : Db) (s e : Nat) (h : firstIndex db s = none) : inRange db s e = [] := by
  unfold firstIndex at h
  simp only at h
  split at h
  · cases h
  · rename_i hn
    have hc : db.tbl.countP (fun p => decide (p.1 < s)) = db.tbl.length :=
      Nat.le_antisymm List.countP_le_length (by omega)
    have hall := List.countP_eq_length.mp hc
    unfold inRange
    rw [List.filter_eq_nil_iff]
    intro p hp
    have := hall p hp
    simp at this ⊢
    omega

theorem inRange_nil_of_gt (db : Db) (hs : Sorted db.tbl) (s e si : Nat)
    (h : firstIndex db s = some si) (hg : e < hbi db si) : inRange db s e = [] := by
  unfold firstIndex at h
  simp only at h
  split at h
  case isFalse => cases h
  case isTrue hlt =>
  have hsi := Option.some.inj h
  subst hsi
  have hget := List.getElem?_eq_getElem hlt
  rw [hbi_eq hget] at hg
  unfold inRange
  rw [List.filter_eq_nil_iff]
  intro p hp
  obtain ⟨i, hi, hpi⟩ := List.mem_iff_getElem.mp hp
  have hgi : db.tbl[i]? = some p := by rw [List.getElem?_eq_getElem hi, hpi]
  simp only [Bool.and_eq_true, decide_eq_true_eq, not_and, Nat.not_le]
  intro hsp
  have hnlt : ¬ i < db.tbl.countP (fun q => decide (q.1 < s)) := by
    intro hc; have := (key_lt_iff hs s i p hgi).mpr hc; omega
  rcases Nat.lt_or_eq_of_le (Nat.le_of_not_lt hnlt) with hlt' | heq
  · have := List.pairwise_iff_getElem.mp hs _ i hlt hi hlt'
    rw [hpi] at this; omega
  · subst heq
    rw [hpi] at hg; omega

/-- outcome of `check_size_and_handle_range` + `last_handle_index` for a well-formed request:
    either the requested range is empty and the answer is Attribute Not Found, or the index
    interval is exactly the requested range (never leaving the table) -/
theorem range_check (db : Db) (hw : db.WF) (op : UInt8) (a b : Nat) (s e : Nat) (rest : List UInt8)
    (hlen : (req op s e rest).length = a ∨ (req op s e rest).length = b)
    (h0 : 0 < s) (hse : s ≤ e) (he : e ≤ 0xFFFF) :
    (inRange db s e = [] ∧
      checkRange db (req op s e rest) op a b = .err (errorRsp op s errAttributeNotFound)) ∨
    (∃ si li first, checkRange db (req op s e rest) op a b = .ok s e si ∧ lastIndex db e = some li ∧
      db.tbl[si]? = some first ∧ slice db si li = inRange db s e ∧
      (inRange db s e).head? = some first) := by
  obtain ⟨r1, r3⟩ := read16_req op s e rest (by omega) he
  have hl : ¬ ((req op s e rest).length ≠ a ∧ (req op s e rest).length ≠ b) := by
    intro ⟨h1, h2⟩; rcases hlen with h | h <;> contradiction
  have hz : ¬ (s = 0 ∨ s > e) := by omega
  unfold checkRange
  rw [if_neg hl]
  simp only [r1, r3]
  rw [if_neg hz]
  cases hf : firstIndex db s with
  | none => exact Or.inl ⟨inRange_nil_of_none db s e hf, rfl⟩
  | some si =>
    simp only
    by_cases hg : hbi db si > e
    · rw [if_pos hg]
      exact Or.inl ⟨inRange_nil_of_gt db hw.sorted s e si hf hg, rfl⟩
    · rw [if_neg hg]
      obtain ⟨li, first, h1, h2, h3, h4⟩ := range_ok db hw s e si hse hf (by omega)
      exact Or.inr ⟨si, li, first, rfl, h1, h2, h3, h4⟩

/-! ### Find Information -/

theorem selectTuples_sublist (o : Bool) (room : Nat) (l : List (Nat × Attr)) :
    (selectTuples o room l).Sublist l := by
  induction l generalizing room with
  | nil => simp [selectTuples]
  | cons p t ih =>
    simp only [selectTuples]
    repeat' split
    all_goals first | exact List.nil_sublist _ | exact (ih _).cons_cons p | exact (ih _).cons p

theorem selectTuples_head (p : Nat × Attr) (t : List (Nat × Attr)) (room : Nat) (h : 18 ≤ room) :
    (selectTuples (is16 p.2) room (p :: t)).head? = some p := by
  simp only [selectTuples]
  have : ¬ room < (if is16 p.2 = true then 4 else 18) := by split <;> omega
  rw [if_neg this]
  simp

/-- when all entries have the UUID size of the first one, the selection is a prefix -/
theorem selectTuples_prefix (o : Bool) (room : Nat) (l : List (Nat × Attr))
    (hu : ∀ q ∈ l, is16 q.2 = o) : selectTuples o room l <+: l := by
  induction l generalizing room with
  | nil => simp [selectTuples]
  | cons p t ih =>
    have hp : (o == is16 p.2) = true := by simp [hu p (by simp)]
    simp only [selectTuples, hp, if_true]
    repeat' split
    all_goals first
      | exact List.nil_prefix
      | exact (List.prefix_cons_inj p).mpr (ih _ (fun q hq => hu q (by simp [hq])))

/-- **Find Information**: the answer is Attribute Not Found exactly when no attribute lies in the
    range; otherwise it lists entries of the range (`Sublist`: only in-range attributes, in
    ascending handle order, each with its own type) beginning with the first attribute of the
    range (so the next request, starting behind the last returned handle, makes progress). -/
theorem find_information_spec (db : Db) (hw : db.WF) (mtu s e : Nat) (hm : 23 ≤ mtu)
    (h0 : 0 < s) (hse : s ≤ e) (he : e ≤ 0xFFFF) :
    (inRange db s e = [] ∧
      findInformation db mtu (req 0x04 s e []) = some (errorRsp 0x04 s errAttributeNotFound)) ∨
    (∃ fmt sel, findInformation db mtu (req 0x04 s e []) = some ([0x05, fmt] ++ encodeTuples sel) ∧
      sel.Sublist (inRange db s e) ∧ sel.head? = (inRange db s e).head? ∧ sel ≠ []) := by
  rcases range_check db hw 0x04 5 5 s e [] (Or.inl rfl) h0 hse he with ⟨hn, hc⟩ | ⟨si, li, first, hc, hl, hg, hsl, hh⟩
  · left; exact ⟨hn, by simp [findInformation, hc]⟩
  · right
    refine ⟨(if is16 first.2 then 0x01 else 0x02), selectTuples (is16 first.2) (mtu - 2) (inRange db s e), ?_,
      selectTuples_sublist _ _ _, ?_, ?_⟩
    · simp [findInformation, hc, hl, hg, hsl]
    · cases hr : inRange db s e with
      | nil => rw [hr] at hh; cases hh
      | cons p t =>
        rw [hr] at hh; simp at hh; subst hh
        exact selectTuples_head p t _ (by omega)
    · cases hr : inRange db s e with
      | nil => rw [hr] at hh; cases hh
      | cons p t =>
        rw [hr] at hh; simp at hh; subst hh
        intro hnil
        have := selectTuples_head p t (mtu - 2) (by omega)
        rw [hnil] at this; cases this

/-- enumeration, uniform case: if all attributes in the range have the UUID size of the first one,
    the response is a *prefix* of the range — nothing before the last returned handle is left out,
    so repeating from last + 1 enumerates every attribute exactly once
    (`find_information_skips_witness` shows this fails for mixed UUID sizes) -/
theorem find_information_prefix_partial (db : Db) (mtu s e : Nat) (first : Nat × Attr)
    (hu : ∀ q ∈ inRange db s e, is16 q.2 = is16 first.2) :
    selectTuples (is16 first.2) (mtu - 2) (inRange db s e) <+: inRange db s e :=
  selectTuples_prefix _ _ _ hu

/-! ### Read By Type -/

theorem matches_t16 (v : Nat) (a : Attr) :
    (TypeFilter.t16 v).matches a = true ↔ a.uuid = .u16 v ∧ v ≠ 1 := by
  cases a with
  | mk u val =>
    cases u with
    | u16 x =>
      simp only [TypeFilter.matches, Bool.and_eq_true, bne_iff_ne, ne_eq, beq_iff_eq, Uuid.u16.injEq]
      constructor
      · intro h; obtain ⟨h1, h2⟩ := h; exact ⟨h2, h2 ▸ h1⟩
      · intro h; obtain ⟨h1, h2⟩ := h; exact ⟨h1 ▸ h2, h1⟩
    | u128 b => simp [TypeFilter.matches]

theorem mkFilter_16 (v : Nat) (hv : v ≤ 0xFFFF) : mkFilter [lo v, hi v] = .t16 v := by
  unfold mkFilter
  simp [read16]
  exact lo_hi_roundtrip v hv

theorem selectAttrs_sublist (room : Nat) (size : Option Nat) (l : List (Nat × Attr)) :
    ((selectAttrs room size l).map (·.1)).Sublist (l.map (·.1)) := by
  induction l generalizing room size with
  | nil => simp [selectAttrs]
  | cons p t ih =>
    simp only [selectAttrs, List.map_cons]
    repeat' split
    all_goals first
      | exact (ih _ _).cons _
      | (simp only [List.map_cons]; exact (ih _ _).cons_cons _)

/-- the first readable matching attribute is always returned (room ≥ 2 at the start) -/
theorem selectAttrs_ne_nil (room : Nat) (l : List (Nat × Attr)) (hr : 2 ≤ room)
    (hx : ∃ p ∈ l, p.2.value.isSome) : selectAttrs room none l ≠ [] := by
  induction l with
  | nil => obtain ⟨p, hp, _⟩ := hx; cases hp
  | cons p t ih =>
    simp only [selectAttrs]
    rw [if_neg (by omega)]
    cases hv : p.2.value with
    | none =>
      simp only
      apply ih
      obtain ⟨q, hq, hqv⟩ := hx
      rcases List.mem_cons.mp hq with rfl | hq
      · rw [hv] at hqv; cases hqv
      · exact ⟨q, hq, hqv⟩
    | some v => simp

/-- **Read By Type**: the returned handles are handles of in-range attributes whose type matches
    the filter, in ascending order; Attribute Not Found is answered when nothing in range matches
    and — partial: see `read_by_type_unreadable_witness` — never while a *readable* matching
    attribute exists. -/
theorem read_by_type_spec (db : Db) (hw : db.WF) (mtu s e : Nat) (ty : List UInt8)
    (hty : ty.length = 2 ∨ ty.length = 16) (hm : 23 ≤ mtu) (h0 : 0 < s) (hse : s ≤ e) (he : e ≤ 0xFFFF) :
    ∃ sel,
      (readByType db mtu (req 0x08 s e ty) =
        some (match sel with
              | [] => errorRsp 0x08 s errAttributeNotFound
              | p :: _ => [0x09, UInt8.ofNat (p.2.length + 2)] ++ encodeAttrs sel)) ∧
      (sel.map (·.1)).Sublist
        (((inRange db s e).filter (fun p => (mkFilter ty).matches p.2)).map (·.1)) ∧
      ((∃ p ∈ (inRange db s e).filter (fun p => (mkFilter ty).matches p.2), p.2.value.isSome) → sel ≠ []) := by
  have hlen : (req 0x08 s e ty).length = 7 ∨ (req 0x08 s e ty).length = 21 := by
    simp only [req, List.length_cons]; omega
  have hdrop : (req 0x08 s e ty).drop 5 = ty := by simp [req]
  rcases range_check db hw 0x08 7 21 s e ty hlen h0 hse he with ⟨hn, hc⟩ | ⟨si, li, first, hc, hl, hg, hsl, hh⟩
  · refine ⟨[], ?_, ?_, ?_⟩
    · simp [readByType, hc]
    · simp
    · rw [hn]; simp
  · refine ⟨selectAttrs (mtu - 2) none ((inRange db s e).filter (fun p => (mkFilter ty).matches p.2)), ?_,
      selectAttrs_sublist _ _ _, selectAttrs_ne_nil _ _ (by omega)⟩
    simp only [readByType, hc, hl, hsl, hdrop]
    generalize selectAttrs (mtu - 2) none _ = sel
    cases sel <;> rfl

/-! ### Read By Group Type / Find By Type Value (C03, and the range part of C02) -/

def sumAttrs : List Svc → Nat
  | [] => 0
  | s :: ss => s.nAttrs + sumAttrs ss

theorem sumAttrs_append (a b : List Svc) : sumAttrs (a ++ b) = sumAttrs a + sumAttrs b := by
  induction a with
  | nil => simp [sumAttrs]
  | cons x a ih => simp [sumAttrs, ih]; omega

/-- a reported group is the service at some position of the service list: its declaration
    attribute (index = sum of the attribute counts of the services before it) has the type
    «Primary Service», lies in the index interval of the request, carries the reported UUID, and
    the reported end is the handle of the last attribute of that service -/
def IsPrimaryAt (db : Db) (i0 si li : Nat) (first last : Nat) (value : List UInt8) : Prop :=
  ∃ pre svc post, db.services = pre ++ svc :: post ∧
    si ≤ i0 + sumAttrs pre ∧ i0 + sumAttrs pre ≤ li ∧
    db.tbl[i0 + sumAttrs pre]? = some (first, ⟨.u16 uuidPrimary, some value⟩) ∧
    last = hbi db (i0 + sumAttrs pre + svc.nAttrs - 1)

theorem groupLoop_sound (db : Db) (i0 si li : Nat) (pre rest : List Svc) (st st' : GState)
    (hsv : db.services = pre ++ rest) (hidx : st.index = i0 + sumAttrs pre)
    (hinv : ∀ g ∈ st.out, IsPrimaryAt db i0 si li g.first g.last g.value)
    (hrun : groupLoop db si li st rest = some st') :
    ∀ g ∈ st'.out, IsPrimaryAt db i0 si li g.first g.last g.value := by
  induction rest generalizing pre st with
  | nil => simp [groupLoop] at hrun; subst hrun; exact hinv
  | cons svc rest ih =>
    simp only [groupLoop] at hrun
    cases he : groupEach db si li st svc with
    | none => rw [he] at hrun; cases hrun
    | some st1 =>
      rw [he] at hrun
      simp only at hrun
      obtain ⟨hix, hout⟩ := groupEach_out db si li st st1 svc he
      refine ih (pre ++ [svc]) st1 (by simp [hsv]) ?_ ?_ hrun
      · rw [hix, hidx, sumAttrs_append]; simp only [sumAttrs]; omega
      · intro g hg
        rcases hout with ho | ⟨decl, v, hd, h1, h2, hu, hv, ho⟩
        · rw [ho] at hg; exact hinv g hg
        · rw [ho] at hg
          simp only [List.mem_append, List.mem_singleton] at hg
          rcases hg with hg | rfl
          · exact hinv g hg
          · refine ⟨pre, svc, rest, hsv, by omega, by omega, ?_, ?_⟩
            · rw [← hidx, hd]
              cases decl with
              | mk h a =>
                cases a with
                | mk u val =>
                  have hu' : u = .u16 uuidPrimary := hu
                  have hv' : val = some v := hv
                  subst hu' hv'; rfl
            · simp only; rw [hidx]

/-- **Read By Group Type «Primary Service»** (C03 + range part of C02): every reported group is a
    declared service whose declaration has the type «Primary Service» (never a secondary service),
    lies inside the requested range, and is reported with its UUID and the handle of its last
    attribute. -/
theorem read_by_group_only_primary (db : Db) (hw : db.WF) (mtu s e : Nat) (rsp : List UInt8)
    (h0 : 0 < s) (hse : s ≤ e) (he : e ≤ 0xFFFF)
    (hr : readByGroupType db mtu (req 0x10 s e [lo uuidPrimary, hi uuidPrimary]) = some rsp) :
    rsp = errorRsp 0x10 s errAttributeNotFound ∨
    ∃ sz groups i0 si li, rsp = [0x11, sz] ++ encodeGroups groups ∧ groups ≠ [] ∧
      slice db si li = inRange db s e ∧
      ∀ g ∈ groups, IsPrimaryAt db i0 si li g.first g.last g.value := by
  have hlen : (req 0x10 s e [lo uuidPrimary, hi uuidPrimary]).length = 7 ∨
      (req 0x10 s e [lo uuidPrimary, hi uuidPrimary]).length = 21 := by simp [req]
  have hty : ¬ ((req 0x10 s e [lo uuidPrimary, hi uuidPrimary]).length = 21 ∨
      read16 (req 0x10 s e [lo uuidPrimary, hi uuidPrimary]) 5 ≠ uuidPrimary) := by
    simp [req, read16, lo, hi, uuidPrimary]
  rcases range_check db hw 0x10 7 21 s e _ hlen h0 hse he with ⟨hn, hc⟩ | ⟨si, li, first, hc, hl, hg, hsl, hh⟩
  · left
    simp only [readByGroupType, hc] at hr
    exact (Option.some.inj hr).symm
  · simp only [readByGroupType, hc] at hr
    rw [if_neg hty, hl] at hr
    cases hf : firstIndex db 1 with
    | none => rw [hf] at hr; cases hr
    | some i0 =>
      rw [hf] at hr
      simp only at hr
      cases hloop : groupLoop db si li ⟨[], mtu - 2, i0, false, none⟩ db.services with
      | none => rw [hloop] at hr; cases hr
      | some st =>
        rw [hloop] at hr
        simp only at hr
        have hsound := groupLoop_sound db i0 si li [] db.services _ st (by simp) (by simp [sumAttrs])
          (by intro g hg; cases hg) hloop
        cases hout : st.out with
        | nil => rw [hout] at hr; left; exact (Option.some.inj hr).symm
        | cons g gs =>
          rw [hout] at hr
          cases hb : st.is128 with
          | none => rw [hb] at hr; cases hr
          | some b =>
            rw [hb] at hr
            right
            refine ⟨_, g :: gs, i0, si, li, (Option.some.inj hr).symm, by simp, hsl, ?_⟩
            rw [← hout]; exact hsound

theorem findLoop_sound (db : Db) (si : Nat) (ei : Option Nat) (li : Nat) (val : List UInt8)
    (hei : ∀ x, ei = some x → x = li) (hei' : ei = none → ∀ i, db.tbl[i]?.isSome → i ≤ li)
    (pre rest : List Svc) (st st' : FState)
    (hsv : db.services = pre ++ rest) (hidx : st.index = 0 + sumAttrs pre)
    (hinv : ∀ g ∈ st.out, IsPrimaryAt db 0 si li g.1 g.2 val)
    (hrun : findLoop db si ei val st rest = some st') :
    ∀ g ∈ st'.out, IsPrimaryAt db 0 si li g.1 g.2 val := by
  induction rest generalizing pre st with
  | nil => simp [findLoop] at hrun; subst hrun; exact hinv
  | cons svc rest ih =>
    simp only [findLoop] at hrun
    cases he : findEach db si ei val st svc with
    | none => rw [he] at hrun; cases hrun
    | some st1 =>
      rw [he] at hrun
      simp only at hrun
      obtain ⟨hix, hout⟩ := findEach_out db si ei val st st1 svc he
      refine ih (pre ++ [svc]) st1 (by simp [hsv]) ?_ ?_ hrun
      · rw [hix, hidx, sumAttrs_append]; simp only [sumAttrs]; omega
      · intro g hg
        rcases hout with ho | ⟨decl, hd, h1, h2, hu, hv, ho⟩
        · rw [ho] at hg; exact hinv g hg
        · rw [ho] at hg
          simp only [List.mem_append, List.mem_singleton] at hg
          rcases hg with hg | rfl
          · exact hinv g hg
          · have hle : st.index ≤ li := by
              cases hee : ei with
              | none => exact hei' hee _ (by rw [hd]; rfl)
              | some x => have := h2 x hee; have := hei x hee; omega
            refine ⟨pre, svc, rest, hsv, by omega, by omega, ?_, ?_⟩
            · rw [← hidx, hd]
              cases decl with
              | mk h a =>
                cases a with
                | mk u v =>
                  have hu' : u = .u16 uuidPrimary := hu
                  have hv' : v = some val := hv
                  subst hu' hv'; rfl
            · simp only; rw [hidx]

/-- **Find By Type Value «Primary Service»** (C03): every reported handle range belongs to a
    declared service whose declaration has the type «Primary Service» (never a secondary
    service) and the requested UUID, lies inside the requested range, and ends at the handle of
    the last attribute of that service. -/
theorem find_by_type_value_only_primary (db : Db) (hw : db.WF) (mtu s e : Nat) (val rsp : List UInt8)
    (hv : val.length = 2 ∨ val.length = 16) (h0 : 0 < s) (hse : s ≤ e) (he : e ≤ 0xFFFF)
    (hr : findByTypeValue db mtu (req 0x06 s e (lo uuidPrimary :: hi uuidPrimary :: val)) = some rsp) :
    rsp = errorRsp 0x06 s errAttributeNotFound ∨
    ∃ ranges si li, rsp = [0x07] ++ encodeRanges ranges ∧ slice db si li = inRange db s e ∧
      ∀ g ∈ ranges, IsPrimaryAt db 0 si li g.1 g.2 val := by
  have hlen : (req 0x06 s e (lo uuidPrimary :: hi uuidPrimary :: val)).length = 9 ∨
      (req 0x06 s e (lo uuidPrimary :: hi uuidPrimary :: val)).length = 23 := by
    simp only [req, List.length_cons]; omega
  have hty : ¬ read16 (req 0x06 s e (lo uuidPrimary :: hi uuidPrimary :: val)) 5 ≠ uuidPrimary := by
    simp [req, read16, lo, hi, uuidPrimary]
  have hdrop : (req 0x06 s e (lo uuidPrimary :: hi uuidPrimary :: val)).drop 7 = val := by simp [req]
  rcases range_check db hw 0x06 9 23 s e _ hlen h0 hse he with ⟨hn, hc⟩ | ⟨si, li, first, hc, hl, hg, hsl, hh⟩
  · left
    simp only [findByTypeValue, hc] at hr
    exact (Option.some.inj hr).symm
  · simp only [findByTypeValue, hc] at hr
    rw [if_neg hty, hdrop] at hr
    -- the handler's own ending index agrees with last_handle_index
    have hge : (groupEndIndex db e = some (some li)) ∨
        (groupEndIndex db e = some none ∧ li = db.tbl.length - 1) := by
      unfold lastIndex at hl
      unfold groupEndIndex
      cases hfe : firstIndex db e with
      | none =>
        rw [hfe] at hl; simp only at hl
        split at hl
        · cases hl
        · right; exact ⟨rfl, (Option.some.inj hl).symm⟩
      | some m =>
        rw [hfe] at hl; simp only at hl ⊢
        split at hl
        · rename_i heq; rw [if_pos heq]; left; rw [Option.some.inj hl]
        · rename_i hne; rw [if_neg hne]
          split at hl
          · cases hl
          · rename_i hm0; rw [if_neg hm0]; left; rw [Option.some.inj hl]
    rcases hge with hge | ⟨hge, hlast⟩
    · rw [hge] at hr
      simp only at hr
      cases hloop : findLoop db si (some li) val ⟨[], mtu - 1, 0, false⟩ db.services with
      | none => rw [hloop] at hr; cases hr
      | some st =>
        rw [hloop] at hr
        simp only at hr
        have hsound := findLoop_sound db si (some li) li val (by intro x hx; cases hx; rfl)
          (by intro h; cases h) [] db.services _ st (by simp) (by simp [sumAttrs])
          (by intro g hg; cases hg) hloop
        split at hr
        · right; exact ⟨st.out, si, li, (Option.some.inj hr).symm, hsl, hsound⟩
        · left; exact (Option.some.inj hr).symm
    · rw [hge] at hr
      simp only at hr
      cases hloop : findLoop db si none val ⟨[], mtu - 1, 0, false⟩ db.services with
      | none => rw [hloop] at hr; cases hr
      | some st =>
        rw [hloop] at hr
        simp only at hr
        have hsound := findLoop_sound db si none li val (by intro x hx; cases hx)
          (by
            intro _ i hi
            have : i < db.tbl.length := by
              rcases Nat.lt_or_ge i db.tbl.length with h | h
              · exact h
              · rw [List.getElem?_eq_none h] at hi; cases hi
            omega)
          [] db.services _ st (by simp) (by simp [sumAttrs]) (by intro g hg; cases hg) hloop
        split at hr
        · right; exact ⟨st.out, si, li, (Option.some.inj hr).symm, hsl, hsound⟩
        · left; exact (Option.some.inj hr).symm

/-! ### the table of a declaration is a well-formed table (bridge to C04) -/

theorem ofDecl_WF (d : ServerDecl) (hw : d.WF) (hi : NoIncludes d) : (ofDecl d).WF := by
  have hlen : (handles d).length = (attrs d).length := by
    rw [handles_length, attrs, ← length_protoAttrs d]
    generalize protoAttrs d = l
    generalize 0 = k
    induction l generalizing k with
    | nil => rfl
    | cons p l ih => simp only [renderFrom, List.length_cons]; rw [← ih (k + 1)]
  have hmap : (table d).map (·.1) = handles d := by
    unfold table
    rw [List.map_fst_zip (by omega)]
  have hne : handles d ≠ [] := by
    intro h
    have hl := handles_length d
    rw [h] at hl
    have hn := hw.nonempty
    cases hd : d with
    | nil => exact hn hd
    | cons s ss =>
      rw [hd] at hl
      simp [nAttrs, ServiceDecl.nAttrs, ServiceDecl.nServiceAttrs] at hl
      omega
  refine ⟨?_, ?_, ?_⟩
  · intro h
    have : (table d).map (·.1) = [] := by
      show ((ofDecl d).tbl).map (·.1) = []
      rw [h]; rfl
    rw [hmap] at this
    exact hne this
  · show Sorted (table d)
    unfold Sorted
    have := handles_strict_mono d hw hi
    rw [← hmap] at this
    exact List.pairwise_map.mp this
  · intro p hp
    have : p.1 ∈ handles d := by
      rw [← hmap]; exact List.mem_map_of_mem (f := (·.1)) hp
    exact (handles_nonzero d hw hi _ this).1

example : (ofDecl exDecl).WF := ofDecl_WF exDecl exDecl_WF exDecl_noIncludes

/-! ### non-vacuity: a table with a gap, a secondary service, 16 and 128 bit types -/

def u128ex : List UInt8 := [1, 2, 3, 4, 5, 6, 7, 8, 9, 10, 11, 12, 13, 14, 15, 16]

def exDb : Db :=
  { tbl := [ (1, ⟨.u16 0x2801, some [0x34, 0x12]⟩), (2, ⟨.u16 0x2803, some ([0x0A, 3, 0] ++ u128ex)⟩),
             (3, ⟨.u128 u128ex, some [7]⟩),
             (0x10, ⟨.u16 0x2800, some [0x35, 0x12]⟩), (0x11, ⟨.u16 0x2803, some [0x08, 0x12, 0, 0x56, 0x2A]⟩),
             (0x12, ⟨.u16 0x2A56, none⟩), (0x13, ⟨.u16 0x2803, some [0x0A, 0x14, 0, 0x56, 0x2A]⟩),
             (0x14, ⟨.u16 0x2A56, some [9]⟩) ],
    services := [⟨3, false⟩, ⟨5, false⟩] }

theorem exDb_WF : exDb.WF := ⟨by decide, by unfold Sorted; decide, by decide⟩

-- end handle inside the gap 4 … 0x0f: only the attributes up to handle 3 (fixed defect #2)
example : findInformation exDb 23 (req 0x04 2 0x0C []) = some [0x05, 0x01, 2, 0, 0x03, 0x28] := by decide
example : readByType exDb 23 (req 0x08 4 0x0F [0x00, 0x28]) = some (errorRsp 0x08 4 errAttributeNotFound) := by decide
-- the secondary service at 1 … 3 is not reported (fixed defect #4)
example : readByGroupType exDb 23 (req 0x10 1 0xFFFF [0x00, 0x28]) = some [0x11, 6, 0x10, 0, 0x14, 0, 0x35, 0x12] := by decide
example : findByTypeValue exDb 23 (req 0x06 1 0xFFFF [0x00, 0x28, 0x34, 0x12]) =
    some (errorRsp 0x06 1 errAttributeNotFound) := by decide

/-! ### what is false of the code: full statements and witnesses (known findings) -/

/-- full strength: the Find Information selection is always a prefix of the range -/
def find_information_prefix_full : Prop :=
  ∀ (db : Db), db.WF → ∀ (mtu s e : Nat) (first : Nat × Attr), 23 ≤ mtu →
    (inRange db s e).head? = some first →
    selectTuples (is16 first.2) (mtu - 2) (inRange db s e) <+: inRange db s e

/-- handles 1, 2 (16 bit types) are returned, 3 (128 bit type) is skipped, 0x10 follows: repeating
    from 0x11 never enumerates handle 3 -/
theorem find_information_skips_witness : ¬ find_information_prefix_full := by
  intro h
  have := h exDb exDb_WF 23 1 0x10 (1, ⟨.u16 0x2801, some [0x34, 0x12]⟩) (by decide) (by decide)
  revert this
  decide

/-- full strength: Read By Type answers Attribute Not Found only if no in-range attribute has the
    requested type -/
def read_by_type_not_found_full : Prop :=
  ∀ (db : Db), db.WF → ∀ (mtu s e : Nat) (ty : List UInt8), 23 ≤ mtu → 0 < s → s ≤ e → e ≤ 0xFFFF →
    readByType db mtu (req 0x08 s e ty) = some (errorRsp 0x08 s errAttributeNotFound) →
    ∀ p ∈ inRange db s e, p.2.uuid.bytes ≠ ty

/-- the only attribute of type 0x2A56 in 0x11 … 0x12 refuses the read: Attribute Not Found -/
theorem read_by_type_unreadable_witness : ¬ read_by_type_not_found_full := by
  intro h
  have := h exDb exDb_WF 23 0x11 0x12 [0x56, 0x2A] (by decide) (by decide) (by decide) (by decide) (by decide)
    (0x12, ⟨.u16 0x2A56, none⟩) (by decide)
  revert this
  decide

/-- a true 128 bit type never matches although attribute 3 has exactly that type -/
theorem read_by_type_128bit_witness : ¬ read_by_type_not_found_full := by
  intro h
  have := h exDb exDb_WF 23 1 0xFFFF u128ex (by decide) (by decide) (by decide) (by decide) (by decide)
    (3, ⟨.u128 u128ex, some [7]⟩) (by decide)
  revert this
  decide

/-- no attribute implements `compare_128bit_uuid`: the filter for a real 128 bit type is constantly false -/
theorem t128_never_matches (a : Attr) : TypeFilter.t128.matches a = false := rfl

/-- Read By Type skips the unreadable 0x12 and a value of a different size would be skipped the
    same way: the selection is not a prefix of the matching attributes -/
theorem read_by_type_skips_witness :
    (selectAttrs 21 none ((inRange exDb 0x10 0x14).filter (fun p => (TypeFilter.t16 0x2A56).matches p.2))).map (·.1)
      = [0x14] ∧
    ((inRange exDb 0x10 0x14).filter (fun p => (TypeFilter.t16 0x2A56).matches p.2)).map (·.1) = [0x12, 0x14] := by
  decide

end BluetoeModel.AttDiscovery
