import BluetoeModel.AttDiscovery.EnumFindLoop
/-!
  # C03 completeness and enumeration for Find By Type Value «Primary Service»
  # ("Discover Primary Service by Service UUID")

  C03: "… 'Discover Primary Service by UUID' (Find By Type Value for «Primary Service») report
  exactly the declared primary services, with their correct handle ranges, and never a secondary
  service."

  `serviceRanges db val` (EnumFindLoop.lean) is the specification: the (first handle, handle of the
  last attribute) of every declared primary service whose UUID bytes are exactly `val`, in
  declaration order (`serviceRanges_table` says what that is on table and service list).
  The comparison is the octet-wise one of `details::value_filter`: a 2 byte value can only equal a
  16 bit service UUID, a 16 byte value only a 128 bit one (the 128 bit Bluetooth-base form of a
  16 bit UUID does not match; see the example at the end).

  `find_by_type_value_complete`: for every table, range, value and MTU ≥ 23 one response holds
  exactly the first `(mtu - 1) / 4` of the matching services whose first handle is in range — a
  prefix, cut only by the MTU, nothing skipped — and Attribute Not Found iff there is none.
  `find_by_type_value_enumerate_all`: the client loop (continue behind the group end handle)
  returns every matching primary service in range exactly once, in order.
  With `find_by_type_value_only_primary` (Props.lean, soundness) this is "exactly".
  The full statements hold; no input had to be excluded (`find_by_type_value_other_type`,
  `find_by_type_value_other_length`: requests for another attribute type or with a value of another
  length are answered with an Error Response and list nothing).
-/
namespace BluetoeModel.AttDiscovery
open BluetoeModel.AttHandles

/-- what the specification `serviceRanges` lists: exactly the services of the service list whose
    declaration attribute has type «Primary Service» and the value `val`, as
    (handle of the declaration, handle of the service's last attribute) -/
theorem serviceRanges_spec (db : Db) (val : List UInt8) (a b : Nat) :
    (a, b) ∈ serviceRanges db val ↔
      ∃ pre svc post, db.services = pre ++ svc :: post ∧
        db.tbl[sumAttrs pre]? = some (a, ⟨.u16 uuidPrimary, some val⟩) ∧
        b = hbi db (sumAttrs pre + svc.nAttrs - 1) :=
  serviceRanges_table db val a b

/-- **C03 completeness, Find By Type Value**: the response lists exactly the first `(mtu - 1) / 4`
    of the primary services with the requested UUID whose first handle is in `s … e` — in order,
    none skipped, found handle = first handle, group end handle = handle of the last attribute —
    and Attribute Not Found iff there is none -/
theorem find_by_type_value_complete (db : Db) (hw : db.WF) (hsv : db.SvcWF) (mtu s e : Nat)
    (val : List UInt8) (hv : val.length = 2 ∨ val.length = 16) (hm : 23 ≤ mtu)
    (h0 : 0 < s) (hse : s ≤ e) (he : e ≤ 0xFFFF) :
    (rangeOf Prod.fst (serviceRanges db val) s e = [] ∧
      findByTypeValueV db mtu (findReq s e val) = some (.err (errorRsp 0x06 s errAttributeNotFound))) ∨
    (rangeOf Prod.fst (serviceRanges db val) s e ≠ [] ∧
      findByTypeValueV db mtu (findReq s e val) =
        some (.items [0x07] ((rangeOf Prod.fst (serviceRanges db val) s e).take ((mtu - 1) / 4)))) :=
  findByTypeValueV_spec db hw hsv mtu s e val hv hm h0 hse he

/-- the same for the response bytes of the modelled handler (`findByTypeValue_view`) -/
theorem find_by_type_value_complete_bytes (db : Db) (hw : db.WF) (hsv : db.SvcWF) (mtu s e : Nat)
    (val : List UInt8) (hv : val.length = 2 ∨ val.length = 16) (hm : 23 ≤ mtu)
    (h0 : 0 < s) (hse : s ≤ e) (he : e ≤ 0xFFFF) :
    findByTypeValue db mtu (findReq s e val) =
      some (if rangeOf Prod.fst (serviceRanges db val) s e = [] then errorRsp 0x06 s errAttributeNotFound
            else [0x07] ++ encodeRanges ((rangeOf Prod.fst (serviceRanges db val) s e).take ((mtu - 1) / 4))) := by
  rw [findByTypeValue_view]
  rcases find_by_type_value_complete db hw hsv mtu s e val hv hm h0 hse he with ⟨hn, hV⟩ | ⟨hne, hV⟩
  · rw [hV, if_pos hn]; rfl
  · rw [hV, if_neg hne]; rfl

/-- the reported ranges are disjoint and ascending -/
theorem find_by_type_value_ranges_sorted (db : Db) (hw : db.WF) (hsv : db.SvcWF) (val : List UInt8) :
    (serviceRanges db val).Pairwise (fun a b => a.2 < b.1) ∧ ∀ m ∈ serviceRanges db val, m.1 ≤ m.2 :=
  serviceRanges_sorted db hw hsv val

/-- **enumerate_all, Find By Type Value** (C03 completeness of Discover Primary Service by Service
    UUID): the loop returns exactly the declared primary services with the requested UUID whose
    first handle lies in `s … e`, each once, in ascending order — for every table and MTU ≥ 23 -/
theorem find_by_type_value_enumerate_all (db : Db) (hw : db.WF) (hsv : db.SvcWF) (mtu e s fuel : Nat)
    (val : List UInt8) (hv : val.length = 2 ∨ val.length = 16)
    (hm : 23 ≤ mtu) (he : e ≤ 0xFFFF) (h0 : 0 < s) (hf : e + 1 - s ≤ fuel) :
    clientLoop (askFindByTypeValue db mtu e val) e fuel s =
      (serviceRanges db val).filter (fun g => decide (s ≤ g.1) && decide (g.1 ≤ e)) :=
  clientLoop_complete Prod.fst _
    (List.Pairwise.imp_of_mem (fun {a b} ha _ h => by
      have := (serviceRanges_sorted db hw hsv val).2 a ha; omega) (serviceRanges_sorted db hw hsv val).1)
    _ e (findByTypeValue_prefixResponder db hw hsv mtu e val hv hm he) fuel s h0 hf

/-- a request for another attribute type never lists a range (Error Response: range errors first,
    else Unsupported Group Type) -/
theorem find_by_type_value_other_type (db : Db) (mtu s e ty : Nat) (val : List UInt8)
    (hty : ty ≤ 0xFFFF) (hne : ty ≠ uuidPrimary) :
    ∃ r, findByTypeValueV db mtu (req 0x06 s e (lo ty :: hi ty :: val)) = some (.err r) := by
  have h5 : read16 (req 0x06 s e (lo ty :: hi ty :: val)) 5 = ty := by
    simp only [read16, req, List.getElem?_cons_succ, List.getElem?_cons_zero]
    exact lo_hi_roundtrip ty hty
  unfold findByTypeValueV
  cases checkRange db (req 0x06 s e (lo ty :: hi ty :: val)) 0x06 9 23 with
  | err r => exact ⟨r, rfl⟩
  | ok s' e' si =>
    simp only
    rw [h5, if_pos hne]
    exact ⟨_, rfl⟩

/-- a value that is neither 2 nor 16 bytes long: Invalid PDU -/
theorem find_by_type_value_other_length (db : Db) (mtu s e : Nat) (val : List UInt8)
    (hv : val.length ≠ 2 ∧ val.length ≠ 16) :
    findByTypeValueV db mtu (findReq s e val) = some (.err (errorRsp 0x06 0 errInvalidPdu)) := by
  have hl : (findReq s e val).length ≠ 9 ∧ (findReq s e val).length ≠ 23 := by
    simp only [findReq, req, List.length_cons]; omega
  unfold findByTypeValueV checkRange
  rw [if_pos hl]

/-! ### non-vacuity -/

/-- seven primary services 0x180F (handles 1, 3, 4, 6, 7, 8, 9; the first with two attributes), a
    secondary service with the same UUID (5) and a primary one with another UUID (0x0A) -/
def exDbSame : Db :=
  { tbl := [ (1, ⟨.u16 0x2800, some [0x0F, 0x18]⟩), (2, ⟨.u16 0x2A19, some [100]⟩),
             (3, ⟨.u16 0x2800, some [0x0F, 0x18]⟩), (4, ⟨.u16 0x2800, some [0x0F, 0x18]⟩),
             (5, ⟨.u16 0x2801, some [0x0F, 0x18]⟩),
             (6, ⟨.u16 0x2800, some [0x0F, 0x18]⟩), (7, ⟨.u16 0x2800, some [0x0F, 0x18]⟩),
             (8, ⟨.u16 0x2800, some [0x0F, 0x18]⟩), (9, ⟨.u16 0x2800, some [0x0F, 0x18]⟩),
             (0x0A, ⟨.u16 0x2800, some [0x15, 0x18]⟩) ],
    services := [⟨2, false⟩, ⟨1, false⟩, ⟨1, false⟩, ⟨1, false⟩, ⟨1, false⟩, ⟨1, false⟩, ⟨1, false⟩,
                 ⟨1, false⟩, ⟨1, false⟩] }

theorem exDbSame_WF : exDbSame.WF := ⟨by decide, by unfold Sorted; decide, by decide⟩
theorem exDbSame_SvcWF : exDbSame.SvcWF := ⟨by decide, by decide, by decide⟩

-- the hypotheses of `find_by_type_value_complete` / `_enumerate_all` hold for `exDbSame`, MTU 23,
-- range 1 … 0xFFFF, value 0x180F; the response is cut by the MTU after five ranges
example : exDbSame.WF ∧ exDbSame.SvcWF ∧ ([0x0F, 0x18] : List UInt8).length = 2 ∧ 23 ≤ 23 ∧ 0 < 1 ∧
    1 ≤ 0xFFFF ∧ 0xFFFF ≤ 0xFFFF := ⟨exDbSame_WF, exDbSame_SvcWF, by decide⟩
example : serviceRanges exDbSame [0x0F, 0x18] = [(1, 2), (3, 3), (4, 4), (6, 6), (7, 7), (8, 8), (9, 9)] := by decide
example : findByTypeValueV exDbSame 23 (findReq 1 0xFFFF [0x0F, 0x18]) =
    some (.items [0x07] [(1, 2), (3, 3), (4, 4), (6, 6), (7, 7)]) := by rfl
example : findByTypeValue exDbSame 23 (findReq 1 0xFFFF [0x0F, 0x18]) =
    some [0x07, 1, 0, 2, 0, 3, 0, 3, 0, 4, 0, 4, 0, 6, 0, 6, 0, 7, 0, 7, 0] := by decide
-- second case of the theorem: nothing matches
example : rangeOf Prod.fst (serviceRanges exDbSame [0x34, 0x12]) 1 0xFFFF = [] ∧
    findByTypeValueV exDbSame 23 (findReq 1 0xFFFF [0x34, 0x12]) =
      some (.err (errorRsp 0x06 1 errAttributeNotFound)) := ⟨by decide, by rfl⟩
-- the loop: two requests, the secondary service at 5 and the other UUID at 0x0A are not reported
example : clientLoop (askFindByTypeValue exDbSame 23 0xFFFF [0x0F, 0x18]) 0xFFFF 3 1 =
    [(1, 2), (3, 3), (4, 4), (6, 6), (7, 7), (8, 8), (9, 9)] := by decide
example : clientLoop (askFindByTypeValue exDbSame 23 8 [0x0F, 0x18]) 8 7 2 =
    [(3, 3), (4, 4), (6, 6), (7, 7), (8, 8)] := by decide
-- 128 bit value against the table with mixed UUID sizes
example : clientLoop (askFindByTypeValue exDbMixed 23 0xFFFF u128ex) 0xFFFF 2 1 = [(0x10, 0x10)] := by decide
-- octet-wise comparison: the 128 bit Bluetooth-base form of 0x180F matches no 16 bit service UUID
example : serviceRanges exDbMixed (baseUuid12 ++ [0x0F, 0x18, 0, 0]) = [] := by decide
-- other type / other length (hypotheses of the two error theorems)
example : (0x2801 : Nat) ≤ 0xFFFF ∧ (0x2801 : Nat) ≠ uuidPrimary := by decide
example : ([1, 2, 3] : List UInt8).length ≠ 2 ∧ ([1, 2, 3] : List UInt8).length ≠ 16 := by decide

end BluetoeModel.AttDiscovery
