import BluetoeModel.AttDiscovery.EnumGroup
/-!
  The loop of `handle_read_by_group_type_request` outputs exactly `groupCut` of the primary
  services in the index interval (C03 completeness for one request).
-/
namespace BluetoeModel.AttDiscovery
open BluetoeModel.AttHandles

/-- what one Read By Group Type response holds of a list of primary services (group, 128 bit?):
    the first one fixes the entry size; the list ends at the first service of the other UUID size
    and when the next entry does not fit into the remaining room -/
def pickB (is128 : Option Bool) (b' : Bool) : Bool :=
  match is128 with
  | some b => b
  | none => b'

def groupCut : Nat → Bool → Option Bool → List (Group × Bool) → List Group
  | _, _, _, [] => []
  | room, stopped, is128, (g, b') :: t =>
      if stopped then []
      else
        let b := pickB is128 b'
        if b = b' then
          if (if b then 20 else 6) ≤ room then g :: groupCut (room - (if b then 20 else 6)) false (some b) t
          else groupCut room false (some b) t
        else []

theorem groupCut_stopped (room : Nat) (is128 : Option Bool) (l : List (Group × Bool)) :
    groupCut room true is128 l = [] := by
  cases l with
  | nil => rfl
  | cons x t => obtain ⟨g, b⟩ := x; simp [groupCut]

/-- the candidate of the service at index `i`: its group if it is primary and inside the index
    interval of the request -/
def candG (db : Db) (si li i : Nat) (svc : Svc) : Option (Group × Bool) :=
  if si ≤ i ∧ i ≤ li then groupAt db i svc else none

theorem groupEach_step (db : Db) (si li : Nat)
    (hread : ∀ p ∈ db.tbl, p.2.uuid = .u16 uuidPrimary → p.2.value ≠ none)
    (st st1 : GState) (svc : Svc) (he : groupEach db si li st svc = some st1) :
    st1.index = st.index + svc.nAttrs ∧ (st.is128.isSome → st1.is128.isSome) ∧
    (st1.out ≠ st.out → st1.is128.isSome) ∧
    ∀ t, st1.out ++ groupCut st1.room st1.stopped st1.is128 t =
      st.out ++ groupCut st.room st.stopped st.is128 ((candG db si li st.index svc).toList ++ t) := by
  obtain ⟨out, room, index, stopped, is128⟩ := st
  unfold groupEach at he
  simp only at he
  cases hd : db.tbl[index]? with
  | none => rw [hd] at he; cases he
  | some decl =>
    rw [hd] at he
    simp only at he
    have hmem := List.mem_of_getElem? hd
    cases stopped with
    | true =>
      simp at he; subst he
      refine ⟨rfl, id, by simp, ?_⟩
      intro t; simp [groupCut_stopped]
    | false =>
      by_cases hin : si ≤ index ∧ index ≤ li
      · by_cases hu : decl.2.uuid = .u16 uuidPrimary
        · obtain ⟨v, hv⟩ : ∃ v, decl.2.value = some v := by
            cases hv : decl.2.value with
            | none => exact absurd hv (hread decl hmem hu)
            | some v => exact ⟨v, rfl⟩
          have hc : candG db si li index svc = some (⟨decl.1, hbi db (index + svc.nAttrs - 1), v⟩, svc.is128) := by
            simp [candG, groupAt, hin, hd, hu, hv]
          rw [hc]
          simp only [hin.1, hin.2, hu, hv, decide_true, Bool.not_false, Bool.and_self, beq_self_eq_true, if_true] at he
          repeat' (first | split at he | (dsimp only at he; split at he))
          all_goals (cases he)
          all_goals (refine ⟨rfl, ?_, ?_, ?_⟩ <;> simp_all [groupCut, pickB, Option.toList])
          all_goals (intro t)
          all_goals first
            | (intro h; omega)
            | (cases hs : svc.is128 <;> simp_all [groupCut_stopped] <;> omega)
        · have hc : candG db si li index svc = none := by
            simp [candG, groupAt, hd, hu]
          have hu' : (decl.2.uuid == Uuid.u16 uuidPrimary) = false := by simp [hu]
          rw [hc]
          simp [hu'] at he; subst he
          exact ⟨rfl, id, by simp, fun t => by simp [Option.toList]⟩
      · have hc : candG db si li index svc = none := by simp [candG, hin]
        have hin' : (decide (si ≤ index) && decide (index ≤ li)) = false := by
          rw [Bool.and_eq_false_iff]; simp only [decide_eq_false_iff_not]; omega
        rw [hc]
        simp [hin'] at he; subst he
        exact ⟨rfl, id, by simp, fun t => by simp [Option.toList]⟩

theorem groupEach_some (db : Db) (si li : Nat) (st : GState) (svc : Svc) (h : st.index < db.tbl.length) :
    ∃ st1, groupEach db si li st svc = some st1 := by
  unfold groupEach
  rw [List.getElem?_eq_getElem h]
  simp only
  repeat' split
  all_goals exact ⟨_, rfl⟩

/-- the loop never leaves the table and outputs exactly `groupCut` of its candidates -/
theorem groupLoop_out (db : Db) (si li : Nat)
    (hread : ∀ p ∈ db.tbl, p.2.uuid = .u16 uuidPrimary → p.2.value ≠ none) (svcs : List Svc) :
    ∀ st : GState, st.index + sumAttrs svcs ≤ db.tbl.length → (∀ s ∈ svcs, 0 < s.nAttrs) →
    ∃ st', groupLoop db si li st svcs = some st' ∧
      st'.out = st.out ++ groupCut st.room st.stopped st.is128 (cands (candG db si li) st.index svcs) ∧
      ((st.out = [] ∨ st.is128.isSome) → (st'.out = [] ∨ st'.is128.isSome)) := by
  induction svcs with
  | nil =>
    intro st _ _
    refine ⟨st, rfl, ?_, id⟩
    simp [cands, groupCut]
  | cons svc ss ih =>
    intro st hb hpos
    simp only [sumAttrs] at hb
    have hn := hpos svc (by simp)
    obtain ⟨st1, he⟩ := groupEach_some db si li st svc (by omega)
    obtain ⟨hidx, hk1, hk2, hstep⟩ := groupEach_step db si li hread st st1 svc he
    obtain ⟨st', hrun, hout, hinv⟩ := ih st1 (by rw [hidx]; omega) (fun s hs => hpos s (by simp [hs]))
    refine ⟨st', by simp only [groupLoop, he]; exact hrun, ?_, ?_⟩
    · rw [hout, hidx, hstep]
      simp only [cands]
    · intro h
      apply hinv
      by_cases ho : st1.out = st.out
      · rcases h with h | h
        · left; rw [ho]; exact h
        · right; exact hk1 h
      · right; exact hk2 ho

theorem groupCut_small (room : Nat) (b : Bool) (l : List (Group × Bool))
    (h : room < (if b then 20 else 6)) : groupCut room false (some b) l = [] := by
  induction l with
  | nil => rfl
  | cons x t ih =>
    obtain ⟨g, b'⟩ := x
    simp only [groupCut, pickB]
    by_cases hb : b = b'
    · simp only [hb] at h ih ⊢
      simp only [Bool.false_eq_true, if_false, if_true]
      rw [if_neg (by omega)]
      exact ih
    · simp [hb]

/-- a response never leaves a service out: it is a prefix of the candidates -/
theorem groupCut_prefix (room : Nat) (stopped : Bool) (is128 : Option Bool) (l : List (Group × Bool)) :
    groupCut room stopped is128 l <+: l.map (·.1) := by
  induction l generalizing room stopped is128 with
  | nil => simp [groupCut]
  | cons x t ih =>
    obtain ⟨g, b'⟩ := x
    simp only [groupCut, List.map_cons]
    by_cases hs : stopped = true
    · rw [if_pos hs]; exact List.nil_prefix
    · rw [if_neg hs]
      generalize pickB is128 b' = b
      by_cases hb : b = b'
      · rw [if_pos hb]
        by_cases hr : (if b = true then 20 else 6) ≤ room
        · rw [if_pos hr]; exact (List.prefix_cons_inj g).mpr (ih _ _ _)
        · rw [if_neg hr, groupCut_small _ _ _ (by omega)]; exact List.nil_prefix
      · rw [if_neg hb]; exact List.nil_prefix

theorem groupCut_head (room : Nat) (g : Group) (b : Bool) (t : List (Group × Bool)) (h : 20 ≤ room) :
    groupCut room false none ((g, b) :: t) ≠ [] := by
  have h6 : 6 ≤ room := by omega
  cases b <;> simp [groupCut, pickB, h, h6]

/-! ### the handler -/

-- src: server::handle_read_by_group_type_request (= `readByGroupType`, response not yet encoded)
def readByGroupTypeV (db : Db) (mtu : Nat) (pdu : List UInt8) : Option (View Group) :=
  match checkRange db pdu 0x10 7 21 with
  | .err r => some (.err r)
  | .ok s e si =>
      if pdu.length = 21 ∨ read16 pdu 5 ≠ uuidPrimary then some (.err (errorRsp 0x10 s errUnsupportedGroupType))
      else match lastIndex db e, firstIndex db 1 with
        | some li, some i0 =>
            match groupLoop db si li ⟨[], mtu - 2, i0, false, none⟩ db.services with
            | none => none
            | some st => match st.out, st.is128 with
                | [], _ => some (.err (errorRsp 0x10 s errAttributeNotFound))
                | _, none => none
                | out, some b => some (.items [0x11, if b then 20 else 6] out)
        | _, _ => none

theorem readByGroupType_view (db : Db) (mtu : Nat) (pdu : List UInt8) :
    readByGroupType db mtu pdu = (readByGroupTypeV db mtu pdu).map (View.bytes encodeGroups) := by
  unfold readByGroupType readByGroupTypeV
  cases checkRange db pdu 0x10 7 21 with
  | err r => rfl
  | ok s e si =>
    simp only
    split
    · rfl
    · cases lastIndex db e <;> cases firstIndex db 1 <;> try rfl
      simp only
      cases groupLoop db si _ _ db.services with
      | none => rfl
      | some st =>
        simp only
        cases st.out <;> cases st.is128 <;> rfl

theorem firstIndex_one (db : Db) (hw : db.WF) : firstIndex db 1 = some 0 := by
  unfold firstIndex
  have hz : db.tbl.countP (fun p => decide (p.1 < 1)) = 0 := by
    rw [List.countP_eq_zero]
    intro p hp
    have := hw.pos p hp
    simp only [decide_eq_true_eq]; omega
  have hl : 0 < db.tbl.length := List.length_pos_iff.mpr hw.nonempty
  simp only [hz, hl, if_true]

end BluetoeModel.AttDiscovery
