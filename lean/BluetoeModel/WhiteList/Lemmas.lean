import BluetoeModel.WhiteList.Model
namespace BluetoeModel.WhiteList

theorem swapRemove_split_last (l₁ : List Addr) (a : Addr) (h : a ∉ l₁) :
    swapRemove (l₁ ++ [a]) a = l₁ := by
  unfold swapRemove
  have hi : List.idxOf a (l₁ ++ [a]) = l₁.length := by
    simp [List.idxOf_append, h]
  rw [hi]
  simp [List.getLastD]

theorem swapRemove_split_mid (l₁ l₂ : List Addr) (a z : Addr) (h : a ∉ l₁) :
    swapRemove (l₁ ++ a :: (l₂ ++ [z])) a = l₁ ++ z :: l₂ := by
  unfold swapRemove
  have hi : List.idxOf a (l₁ ++ a :: (l₂ ++ [z])) = l₁.length := by
    simp [List.idxOf_append, h]
  rw [hi]
  have : (l₁ ++ a :: (l₂ ++ [z])).getLastD 0 = z := by
    have : l₁ ++ a :: (l₂ ++ [z]) = (l₁ ++ a :: l₂) ++ [z] := by simp
    rw [this, List.getLastD_concat]
  rw [this]
  have : (l₁ ++ a :: (l₂ ++ [z])).set l₁.length z = (l₁ ++ z :: l₂) ++ [z] := by
    simp
  rw [this, List.dropLast_concat]

theorem mem_swapRemove (l : List Addr) (a b : Addr) (hn : l.Nodup) (ha : a ∈ l) :
    b ∈ swapRemove l a ↔ b ∈ l ∧ b ≠ a := by
  obtain ⟨l₁, l₂, rfl⟩ := List.append_of_mem ha
  have hn' := hn
  rw [List.nodup_append] at hn'
  obtain ⟨hn1, hn2, hdis⟩ := hn'
  have ha1 : a ∉ l₁ := fun h => hdis a h a (by simp) rfl
  have ha2 : a ∉ l₂ := (List.nodup_cons.mp hn2).1
  rcases List.eq_nil_or_concat l₂ with rfl | ⟨l₂', z, h2⟩
  all_goals try (rw [List.concat_eq_append] at h2; subst h2)
  · rw [swapRemove_split_last _ _ ha1]
    constructor
    · intro hb; exact ⟨by simp [hb], fun e => ha1 (e ▸ hb)⟩
    · rintro ⟨hb, hne⟩; simpa [hne] using hb
  · rw [swapRemove_split_mid _ _ _ _ ha1]
    simp only [List.mem_append, List.mem_cons, List.not_mem_nil, or_false] at *
    constructor
    · intro hb
      refine ⟨by rcases hb with h | h | h <;> simp [h], ?_⟩
      rintro rfl
      rcases hb with h | h | h
      · exact ha1 h
      · subst h; exact ha2 (by simp)
      · exact ha2 (by simp [h])
    · rintro ⟨hb, hne⟩
      rcases hb with h | h | h | h
      · exact Or.inl h
      · exact absurd h hne
      · exact Or.inr (Or.inr h)
      · exact Or.inr (Or.inl h)

theorem nodup_swapRemove (l : List Addr) (a : Addr) (hn : l.Nodup) (ha : a ∈ l) :
    (swapRemove l a).Nodup := by
  obtain ⟨l₁, l₂, rfl⟩ := List.append_of_mem ha
  have hn' := hn
  rw [List.nodup_append] at hn'
  obtain ⟨hn1, hn2, hdis⟩ := hn'
  have ha1 : a ∉ l₁ := fun h => hdis a h a (by simp) rfl
  rcases List.eq_nil_or_concat l₂ with rfl | ⟨l₂', z, h2⟩
  all_goals try (rw [List.concat_eq_append] at h2; subst h2)
  · rw [swapRemove_split_last _ _ ha1]; exact hn1
  · rw [swapRemove_split_mid _ _ _ _ ha1]
    have hp : (l₁ ++ z :: l₂').Perm (l₁ ++ (l₂' ++ [z])) := by
      apply List.Perm.append_left
      simpa using (List.perm_append_singleton z l₂').symm
    rw [hp.nodup_iff]
    have : (l₁ ++ a :: (l₂' ++ [z])).Perm (a :: (l₁ ++ (l₂' ++ [z]))) := List.perm_middle
    exact (List.nodup_cons.mp (this.nodup_iff.mp hn)).2

theorem length_swapRemove (l : List Addr) (a : Addr) (_ha : a ∈ l) :
    (swapRemove l a).length = l.length - 1 := by
  unfold swapRemove; simp

end BluetoeModel.WhiteList
