import BluetoeModel.WhiteList.Lemmas
/-!
  # C26 — White list behaves as a bounded set

  "For any sequence of add, remove, clear and query operations, both the software white list and
  the radio-backed white list behave like a set of at most N device addresses: adding is
  idempotent and fails only when full, removing deletes exactly the given address, and the filters
  accept an address exactly when filtering is off or the address is in the set."

  `Spec` (in Model.lean) *is* that sentence: a duplicate free list used as a set, `add` inserts
  unless present (idempotent) and fails iff `card = size ∧ a ∉ s`, `remove` erases exactly `a`,
  filters are `¬filter ∨ a ∈ s`.  The theorems below show that the model of the C++ array code
  produces, for **every** history and every capacity, exactly the outputs of `Spec`.
-/
namespace BluetoeModel.WhiteList

/-- simulation relation between the array implementation and the set specification -/
structure R (w : WL) (s : Spec) : Prop where
  size : w.size = s.size
  conn : w.connFilter = s.conn
  scan : w.scanFilter = s.scan
  mem  : ∀ b, b ∈ w.entries ↔ b ∈ s.elems
  nd₁  : w.entries.Nodup
  nd₂  : s.elems.Nodup
  le   : w.entries.length ≤ w.size

theorem R.length_eq {w : WL} {s : Spec} (h : R w s) : w.entries.length = s.elems.length :=
  ((List.perm_ext_iff_of_nodup h.nd₁ h.nd₂).mpr h.mem).length_eq

theorem R_init (n : Nat) : R (init n) (Spec.init n) :=
  ⟨rfl, rfl, rfl, fun _ => Iff.rfl, List.nodup_nil, List.nodup_nil, Nat.zero_le _⟩

/-- one step: same output, relation preserved -/
theorem step_refines (w : WL) (s : Spec) (h : R w s) (op : Op) :
    (step w op).2 = (Spec.step s op).2 ∧ R (step w op).1 (Spec.step s op).1 := by
  have hl := h.length_eq
  have hsz := h.size
  have hle := h.le
  cases op with
  | add a =>
    simp only [step, add, Spec.step, isIn, freeSize, List.contains_eq_mem]
    by_cases hin : a ∈ w.entries
    · have hin' : a ∈ s.elems := (h.mem a).mp hin
      simp [hin, hin', h]
    · have hin' : a ∉ s.elems := fun x => hin ((h.mem a).mpr x)
      by_cases hfull : w.size - w.entries.length = 0
      · have : ¬ s.elems.length < s.size := by omega
        simp [hin, hin', hfull, this, h]
      · have : s.elems.length < s.size := by omega
        simp only [hin, hin', hfull, this, decide_false, if_true, if_false,
          Bool.false_eq_true, true_and]
        refine ⟨h.size, h.conn, h.scan, ?_, ?_, ?_, ?_⟩
        · intro b; simp [h.mem b, or_comm]
        · rw [List.nodup_append]
          exact ⟨h.nd₁, by simp, fun x hx y hy => by
            simp at hy; subst hy; intro e; exact hin (e ▸ hx)⟩
        · exact List.nodup_cons.mpr ⟨hin', h.nd₂⟩
        · simp; omega
  | remove a =>
    simp only [step, remove, Spec.step, isIn, List.contains_eq_mem]
    by_cases hin : a ∈ w.entries
    · have hin' : a ∈ s.elems := (h.mem a).mp hin
      simp only [hin, hin', decide_true, if_true, true_and]
      refine ⟨h.size, h.conn, h.scan, ?_, nodup_swapRemove _ _ h.nd₁ hin, h.nd₂.erase a, ?_⟩
      · intro b
        rw [mem_swapRemove _ _ _ h.nd₁ hin, h.nd₂.mem_erase_iff, h.mem b, and_comm]
      · simp only [length_swapRemove _ _ hin]; omega
    · have hin' : a ∉ s.elems := fun x => hin ((h.mem a).mpr x)
      simp [hin, hin', h]
  | clear =>
    exact ⟨rfl, h.size, h.conn, h.scan, fun _ => Iff.rfl, List.nodup_nil, List.nodup_nil,
      Nat.zero_le _⟩
  | isIn a =>
    refine ⟨?_, h⟩
    simp only [step, Spec.step, isIn, List.contains_eq_mem, h.mem a]
  | free =>
    refine ⟨?_, h⟩
    simp only [step, Spec.step, freeSize, hl, hsz]
  | setConn b => exact ⟨rfl, h.size, rfl, h.scan, h.mem, h.nd₁, h.nd₂, h.le⟩
  | setScan b => exact ⟨rfl, h.size, h.conn, rfl, h.mem, h.nd₁, h.nd₂, h.le⟩
  | getConn => exact ⟨by simp [step, Spec.step, h.conn], h⟩
  | getScan => exact ⟨by simp [step, Spec.step, h.scan], h⟩
  | connIn a =>
    refine ⟨?_, h⟩
    simp only [step, Spec.step, connIn, isIn, List.contains_eq_mem, h.mem a, h.conn]
  | scanIn a =>
    refine ⟨?_, h⟩
    simp only [step, Spec.step, scanIn, isIn, List.contains_eq_mem, h.mem a, h.scan]

theorem run_refines (w : WL) (s : Spec) (h : R w s) (ops : List Op) :
    (run w ops).2 = (Spec.run s ops).2 ∧ R (run w ops).1 (Spec.run s ops).1 := by
  induction ops generalizing w s with
  | nil => exact ⟨rfl, h⟩
  | cons op ops ih =>
    obtain ⟨ho, hr⟩ := step_refines w s h op
    obtain ⟨ho', hr'⟩ := ih _ _ hr
    simp only [run, Spec.run]
    exact ⟨by rw [ho, ho'], hr'⟩

/-- **C26** (software white list): for every capacity `n` and every history `ops`, the outputs of
    the array implementation are the outputs of the "set of at most `n` addresses" specification. -/
theorem whitelist_refines_set (n : Nat) (ops : List Op) :
    (run (init n) ops).2 = (Spec.run (Spec.init n) ops).2 :=
  (run_refines _ _ (R_init n) ops).1

/-- the set never holds more than `n` addresses nor an address twice, in every reachable state -/
theorem whitelist_bounded_nodup (n : Nat) (ops : List Op) :
    (run (init n) ops).1.entries.length ≤ n ∧ (run (init n) ops).1.entries.Nodup := by
  have h := (run_refines _ _ (R_init n) ops).2
  have hs : ∀ (w : WL) (ops : List Op), (run w ops).1.size = w.size := by
    intro w ops
    induction ops generalizing w with
    | nil => rfl
    | cons op ops ih =>
      simp only [run]; rw [ih]
      cases op <;> simp [step, add, remove, clear] <;> (repeat' split) <;> rfl
  exact ⟨by have := h.le; rw [hs] at this; exact this, h.nd₁⟩

/-! Spec-level readings of the sentence (they hold by definition of `Spec.step`, stated so that a
    reader can see the specification says what the property says). -/

theorem spec_add_idempotent (s : Spec) (a : Addr) (h : a ∈ s.elems) :
    Spec.step s (.add a) = (s, .bool true) := by simp [Spec.step, h]

theorem spec_add_fails_iff_full (s : Spec) (a : Addr) :
    (Spec.step s (.add a)).2 = .bool false ↔ (a ∉ s.elems ∧ s.size ≤ s.elems.length) := by
  simp only [Spec.step]
  by_cases h : a ∈ s.elems
  · simp [h]
  · by_cases h2 : s.elems.length < s.size
    · simp [h, h2]
    · simp [h, h2]; omega

theorem spec_remove_exact (s : Spec) (a b : Addr) (hn : s.elems.Nodup) :
    b ∈ (Spec.step s (.remove a)).1.elems ↔ (b ∈ s.elems ∧ b ≠ a) := by
  simp only [Spec.step]; split
  · simp [hn.mem_erase_iff, and_comm]
  · constructor
    · intro hb; exact ⟨hb, fun e => by subst e; contradiction⟩
    · exact fun hb => hb.1

/-- non-vacuity: a concrete history on a list of capacity 2 that fills it, is refused a third
    address, removes the *first* entry (exercising the swap-with-last) and re-adds. -/
example : (run (init 2) [.add 3, .add 5, .add 7, .remove 3, .isIn 5, .isIn 3, .add 7, .free]).2 =
    [.bool true, .bool true, .bool false, .bool true, .bool true, .bool false, .bool true, .nat 0] := by
  decide

/-! ### radio-backed variant
  `white_list_implementation<Size, false, …>` forwards every call unchanged to `radio_*`.  Its
  model is the identity wrapper around whatever the radio implements; if the radio implements the
  software algorithm (as the reference `scheduled_radio` documentation demands: "a set of at most
  radio_maximum_white_list_entries"), the forwarding list refines the same specification. -/

/-- forwarding variant: each operation is handed to the radio's step function unchanged -/
def forwardStep {ρ : Type} (radioStep : ρ → Op → ρ × Out) (r : ρ) (op : Op) : ρ × Out := radioStep r op

theorem forward_refines_radio {ρ : Type} (radioStep : ρ → Op → ρ × Out) (r : ρ) (op : Op) :
    forwardStep radioStep r op = radioStep r op := rfl

end BluetoeModel.WhiteList
