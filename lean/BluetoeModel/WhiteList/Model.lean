/-
  Model of `white_list_implementation<Size, true, …>` (software white list) and of the
  radio-backed forwarding variant `white_list_implementation<Size, false, …>`.
  src: bluetoe/link_layer/include/bluetoe/white_list.hpp
-/
namespace BluetoeModel.WhiteList

/-- a device address: 48 address bits and the random flag, packed as `addr * 2 + random` -/
abbrev Addr := Nat

/-- `entries` is the live prefix `addresses_[0 .. Size - free_size_)`; slots behind it are dead -/
structure WL where
  size       : Nat
  entries    : List Addr
  connFilter : Bool
  scanFilter : Bool
deriving Repr, DecidableEq

-- src: white_list_implementation()
def init (n : Nat) : WL := { size := n, entries := [], connFilter := false, scanFilter := false }

-- src: white_list_free_size
def freeSize (w : WL) : Nat := w.size - w.entries.length

-- src: is_in_white_list (std::find over the live prefix)
def isIn (w : WL) (a : Addr) : Bool := w.entries.contains a

-- src: add_to_white_list
def add (w : WL) (a : Addr) : WL × Bool :=
  if isIn w a then (w, true)
  else if freeSize w = 0 then (w, false)
  else ({ w with entries := w.entries ++ [a] }, true)

/-- `*pos = *(end - 1); ++free_size_` with `pos` the first occurrence of `a` -/
def swapRemove (l : List Addr) (a : Addr) : List Addr :=
  (l.set (l.idxOf a) (l.getLastD 0)).dropLast

-- src: remove_from_white_list
def remove (w : WL) (a : Addr) : WL × Bool :=
  if isIn w a then ({ w with entries := swapRemove w.entries a }, true)
  else (w, false)

-- src: clear_white_list
def clear (w : WL) : WL := { w with entries := [] }

-- src: is_connection_request_in_filter / is_scan_request_in_filter
def connIn (w : WL) (a : Addr) : Bool := !w.connFilter || isIn w a
def scanIn (w : WL) (a : Addr) : Bool := !w.scanFilter || isIn w a

inductive Op where
  | add (a : Addr) | remove (a : Addr) | clear | isIn (a : Addr) | free
  | setConn (b : Bool) | setScan (b : Bool) | getConn | getScan
  | connIn (a : Addr) | scanIn (a : Addr)
deriving Repr, DecidableEq

inductive Out where
  | bool (b : Bool) | nat (n : Nat) | unit
deriving Repr, DecidableEq

def step (w : WL) : Op → WL × Out
  | .add a     => let (w', r) := add w a; (w', .bool r)
  | .remove a  => let (w', r) := remove w a; (w', .bool r)
  | .clear     => (clear w, .unit)
  | .isIn a    => (w, .bool (isIn w a))
  | .free      => (w, .nat (freeSize w))
  | .setConn b => ({ w with connFilter := b }, .unit)
  | .setScan b => ({ w with scanFilter := b }, .unit)
  | .getConn   => (w, .bool w.connFilter)
  | .getScan   => (w, .bool w.scanFilter)
  | .connIn a  => (w, .bool (connIn w a))
  | .scanIn a  => (w, .bool (scanIn w a))

/-- run a history, collecting the outputs -/
def run (w : WL) : List Op → WL × List Out
  | [] => (w, [])
  | op :: ops =>
      let (w', o) := step w op
      let (w'', os) := run w' ops
      (w'', o :: os)

/-! ### The specification: a set of at most `size` addresses (duplicate-free list as a set) -/

structure Spec where
  size  : Nat
  elems : List Addr
  conn  : Bool
  scan  : Bool
deriving Repr

def Spec.init (n : Nat) : Spec := { size := n, elems := [], conn := false, scan := false }

def Spec.step (s : Spec) : Op → Spec × Out
  | .add a     =>
      if a ∈ s.elems then (s, .bool true)                       -- idempotent
      else if s.elems.length < s.size then ({ s with elems := a :: s.elems }, .bool true)
      else (s, .bool false)                                      -- fails only when full
  | .remove a  =>
      if a ∈ s.elems then ({ s with elems := s.elems.erase a }, .bool true)
      else (s, .bool false)
  | .clear     => ({ s with elems := [] }, .unit)
  | .isIn a    => (s, .bool (decide (a ∈ s.elems)))
  | .free      => (s, .nat (s.size - s.elems.length))
  | .setConn b => ({ s with conn := b }, .unit)
  | .setScan b => ({ s with scan := b }, .unit)
  | .getConn   => (s, .bool s.conn)
  | .getScan   => (s, .bool s.scan)
  | .connIn a  => (s, .bool (!s.conn || decide (a ∈ s.elems)))
  | .scanIn a  => (s, .bool (!s.scan || decide (a ∈ s.elems)))

def Spec.run (s : Spec) : List Op → Spec × List Out
  | [] => (s, [])
  | op :: ops =>
      let (s', o) := Spec.step s op
      let (s'', os) := Spec.run s' ops
      (s'', o :: os)

end BluetoeModel.WhiteList
