/-
  Small-step model of `bluetoe::details::ring< S, T >` (single producer / single consumer ring
  with two `std::atomic_int` indices and `S + 1` slots).
  src: bluetoe/utility/include/bluetoe/ring.hpp

  Every shared-memory access of `try_push` / `try_pop` is one atomic step, in program order:

      try_push( in )                                try_pop( out )
        ldR   read  = read_ptr_.load()                ldR   read  = read_ptr_.load()
        ldW   write = write_ptr_.load()               ldW   write = write_ptr_.load()
              next  = ( write + 1 ) % length
        br    if ( next == read ) return false        br    if ( read == write ) return false
                                                            next = ( read + 1 ) % length
        data  data_[ write ] = in                     data  out = data_[ read ]
        st    write_ptr_.store( next ); return true   st    read_ptr_.store( next ); return true

  One producer thread executes a list of `try_push` calls, one consumer thread a number of
  `try_pop` calls; a schedule (`List Tid`) says which thread performs its next step.  Memory is
  sequentially consistent (the code uses the seq_cst defaults of `std::atomic_int`); the plain
  accesses to `data_` are steps of their own, and `no_slot_read_while_written` (Props.lean) shows
  that two conflicting plain accesses are never enabled together (data-race freedom), which is
  what makes the sequentially consistent reading of the C++ program legitimate.

  The indices are `int` in C++; they only ever hold values in `[0, S]`, the model uses `Nat`.
  A `data_` access outside `[0, S]` sets the explicit failure flag `oob` (`no_oob`: never taken).
-/
namespace BluetoeModel.Ring

abbrev Val := Nat

inductive Tid where
  | prod | cons
deriving Repr, DecidableEq

/-- program counter inside `try_push` / `try_pop` (the two functions have the same shape) -/
inductive PC where
  | ldR | ldW | br | data | st
deriving Repr, DecidableEq

structure State where
  /-- template parameter `S`; `length = S + 1` -/
  cap      : Nat
  -- shared memory ---------------------------------------------------------------------------
  readPtr  : Nat
  writePtr : Nat
  data     : List Val
  -- producer: pc, locals of try_push, remaining calls (arguments), results so far -----------
  ppc      : PC
  pRead    : Nat
  pWrite   : Nat
  pNext    : Nat
  pTodo    : List Val
  pRes     : List Bool
  -- consumer: pc, locals of try_pop, remaining calls, results so far -------------------------
  cpc      : PC
  cRead    : Nat
  cWrite   : Nat
  cNext    : Nat
  cOut     : Val
  cTodo    : Nat
  cRes     : List (Option Val)
  /-- set when `data_` would be indexed outside `[0, length)` -/
  oob      : Bool
  -- history variables (written only, nothing above depends on them) --------------------------
  /-- arguments of the successful pushes, in order (appended at the store of `write_ptr_`) -/
  pushed   : List Val
  /-- values of the successful pops, in order (appended at the store of `read_ptr_`) -/
  popped   : List Val
  /-- number of successful pops at the moment the running `try_push` loaded `read_ptr_` -/
  gpR      : Nat
  /-- number of pending elements at the moment the running `try_push` loaded `read_ptr_` -/
  gpPend   : Nat
  /-- number of successful pushes at the moment the running `try_pop` loaded `write_ptr_` -/
  gcW      : Nat
  /-- number of pending elements at the moment the running `try_pop` loaded `write_ptr_` -/
  gcPend   : Nat
deriving Repr, DecidableEq

/-- `length` -/
def State.len (s : State) : Nat := s.cap + 1

/-- pushed and not yet popped -/
def State.pending (s : State) : Nat := s.pushed.length - s.popped.length

-- src: ring::ring() — both indices 0, `length` value-initialised slots (0 marks "never written")
def init (cap : Nat) (pushes : List Val) (pops : Nat) : State :=
  { cap := cap, readPtr := 0, writePtr := 0, data := List.replicate (cap + 1) 0,
    ppc := .ldR, pRead := 0, pWrite := 0, pNext := 0, pTodo := pushes, pRes := [],
    cpc := .ldR, cRead := 0, cWrite := 0, cNext := 0, cOut := 0, cTodo := pops, cRes := [],
    oob := false, pushed := [], popped := [], gpR := 0, gpPend := 0, gcW := 0, gcPend := 0 }

-- src: ring::try_push, one atomic step of the producer
def stepProd (s : State) : State :=
  match s.pTodo with
  | [] => s                                             -- no call left: the thread has finished
  | v :: rest =>
    match s.ppc with
    | .ldR  => { s with pRead := s.readPtr, ppc := .ldW,
                        gpR := s.popped.length, gpPend := s.pending }
    | .ldW  => { s with pWrite := s.writePtr, pNext := (s.writePtr + 1) % s.len, ppc := .br }
    | .br   => if s.pNext = s.pRead
               then { s with ppc := .ldR, pTodo := rest, pRes := s.pRes ++ [false] }
               else { s with ppc := .data }
    | .data => if s.pWrite < s.data.length
               then { s with data := s.data.set s.pWrite v, ppc := .st }
               else { s with oob := true, ppc := .st }
    | .st   => { s with writePtr := s.pNext, ppc := .ldR, pTodo := rest,
                        pRes := s.pRes ++ [true], pushed := s.pushed ++ [v] }

-- src: ring::try_pop, one atomic step of the consumer
def stepCons (s : State) : State :=
  match s.cTodo with
  | 0 => s
  | n + 1 =>
    match s.cpc with
    | .ldR  => { s with cRead := s.readPtr, cpc := .ldW }
    | .ldW  => { s with cWrite := s.writePtr, cpc := .br,
                        gcW := s.pushed.length, gcPend := s.pending }
    | .br   => if s.cRead = s.cWrite
               then { s with cpc := .ldR, cTodo := n, cRes := s.cRes ++ [none] }
               else { s with cNext := (s.cRead + 1) % s.len, cpc := .data }
    | .data => match s.data[s.cRead]? with
               | some x => { s with cOut := x, cpc := .st }
               | none   => { s with oob := true, cpc := .st }
    | .st   => { s with readPtr := s.cNext, cpc := .ldR, cTodo := n,
                        cRes := s.cRes ++ [some s.cOut], popped := s.popped ++ [s.cOut] }

def step (s : State) : Tid → State
  | .prod => stepProd s
  | .cons => stepCons s

/-- run a schedule -/
def exec (s : State) : List Tid → State
  | [] => s
  | t :: ts => exec (step s t) ts

/-- states reachable from an initial state by some schedule -/
inductive Reachable (cap : Nat) (pushes : List Val) (pops : Nat) : State → Prop where
  | init : Reachable cap pushes pops (init cap pushes pops)
  | step {s : State} (t : Tid) : Reachable cap pushes pops s → Reachable cap pushes pops (step s t)

/-! ### Observable results (what the caller of `try_push` / `try_pop` sees) -/

/-- the arguments of the calls of `try_push` that returned `true`, in call order -/
def okPushes : List Val → List Bool → List Val
  | v :: vs, true :: bs  => v :: okPushes vs bs
  | _ :: vs, false :: bs => okPushes vs bs
  | _, _ => []

/-- the values delivered by the calls of `try_pop` that returned `true`, in call order -/
def okPops (res : List (Option Val)) : List Val := res.filterMap id

/-- a thread that has no call left -/
def State.done (s : State) : Tid → Bool
  | .prod => s.pTodo.isEmpty
  | .cons => s.cTodo == 0

/-- both threads are about to touch `data_` — the producer writing slot `pWrite`, the consumer
reading slot `cRead` -/
def State.bothAtData (s : State) : Prop :=
  s.pTodo ≠ [] ∧ s.ppc = .data ∧ s.cTodo ≠ 0 ∧ s.cpc = .data

end BluetoeModel.Ring
