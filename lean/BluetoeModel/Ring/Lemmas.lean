import BluetoeModel.Ring.Model
/-!
  Helper lemmas for C30: the modular arithmetic fact with a *variable* modulus (`omega` treats
  `x % (cap + 1)` as an opaque atom, so it is proved by hand once) and the inductive invariant of
  DESIGN.md Appendix A.1 together with its preservation by every step of either thread.
-/
namespace BluetoeModel.Ring

/-- the key arithmetic lemma: moving by less than a full turn changes the slot -/
theorem add_mod_ne (a d L : Nat) (hd : 0 < d) (hL : d < L) : (a + d) % L ≠ a % L := by
  intro h
  have hr : a % L < L := Nat.mod_lt _ (by omega)
  have h1 : (a + d) % L = (a % L + d) % L := by
    rw [Nat.add_mod, Nat.mod_eq_of_lt hL]
  rw [h1] at h
  by_cases hc : a % L + d < L
  · rw [Nat.mod_eq_of_lt hc] at h; omega
  · have h2 : (a % L + d) % L = a % L + d - L := by
      rw [Nat.mod_eq_sub_mod (by omega)]; exact Nat.mod_eq_of_lt (by omega)
    omega

/-- two different absolute positions less than `L` apart live in different slots -/
theorem mod_ne_of_close {a b L : Nat} (h1 : a < b) (h2 : b < a + L) : b % L ≠ a % L := by
  have := add_mod_ne a (b - a) L (by omega) (by omega)
  rwa [show a + (b - a) = b by omega] at this

/-- a full turn ends in the same slot -/
theorem mod_eq_of_turn {a b L : Nat} (h : b = a + L) : b % L = a % L := by
  subst h; exact Nat.add_mod_right a L

/--
  The inductive invariant (DESIGN.md A.1).  `R = popped.length` and `W = pushed.length` are the
  absolute numbers of successful pops / pushes, `L = cap + 1`.
-/
structure Inv (s : State) : Prop where
  dlen   : s.data.length = s.cap + 1
  rptr   : s.readPtr = s.popped.length % (s.cap + 1)
  wptr   : s.writePtr = s.pushed.length % (s.cap + 1)
  le     : s.popped.length ≤ s.pushed.length
  bound  : s.pushed.length ≤ s.popped.length + s.cap
  /-- every pending element sits in its slot -/
  cells  : ∀ i, s.popped.length ≤ i → i < s.pushed.length →
             s.data[i % (s.cap + 1)]? = s.pushed[i]?
  pop_eq : s.popped = s.pushed.take s.popped.length
  noob   : s.oob = false
  -- producer: `read` is a possibly stale copy (`gpR ≤ R`), `write` is exact
  p1 : s.ppc ≠ .ldR → s.gpR ≤ s.popped.length ∧ s.pRead = s.gpR % (s.cap + 1) ∧
         s.gpPend = s.pushed.length - s.gpR ∧ s.pushed.length ≤ s.gpR + s.cap
  p2 : s.ppc = .br ∨ s.ppc = .data ∨ s.ppc = .st →
         s.pWrite = s.pushed.length % (s.cap + 1) ∧ s.pNext = (s.pushed.length + 1) % (s.cap + 1)
  p3 : s.ppc = .data ∨ s.ppc = .st → s.pushed.length + 1 ≤ s.gpR + s.cap
  p4 : s.ppc = .st → s.data[s.pushed.length % (s.cap + 1)]? = s.pTodo.head?
  -- consumer: `read` is exact, `write` is a possibly stale copy (`gcW ≤ W`)
  c1 : s.cpc ≠ .ldR → s.cRead = s.popped.length % (s.cap + 1)
  c2 : s.cpc = .br ∨ s.cpc = .data ∨ s.cpc = .st →
         s.gcW ≤ s.pushed.length ∧ s.popped.length ≤ s.gcW ∧ s.cWrite = s.gcW % (s.cap + 1) ∧
         s.gcPend = s.gcW - s.popped.length
  c3 : s.cpc = .data ∨ s.cpc = .st →
         s.popped.length < s.pushed.length ∧ s.cNext = (s.popped.length + 1) % (s.cap + 1)
  c4 : s.cpc = .st → s.pushed[s.popped.length]? = some s.cOut

theorem inv_init (cap : Nat) (pushes : List Val) (pops : Nat) : Inv (init cap pushes pops) := by
  constructor <;> simp [init]

theorem inv_stepProd {s : State} (h : Inv s) : Inv (stepProd s) := by
  obtain ⟨dlen, rptr, wptr, le, bound, cells, pop_eq, noob, p1, p2, p3, p4, c1, c2, c3, c4⟩ := h
  unfold stepProd
  split
  · exact ⟨dlen, rptr, wptr, le, bound, cells, pop_eq, noob, p1, p2, p3, p4, c1, c2, c3, c4⟩
  · rename_i v rest hT
    split
    · -- ldR
      rename_i hpc
      refine ⟨dlen, rptr, wptr, le, bound, cells, pop_eq, noob, ?_, ?_, ?_, ?_, c1, c2, c3, c4⟩
      · intro _; exact ⟨Nat.le_refl _, rptr, rfl, bound⟩
      · simp
      · simp
      · simp
    · -- ldW
      rename_i hpc
      have q1 := p1 (by simp [hpc])
      refine ⟨dlen, rptr, wptr, le, bound, cells, pop_eq, noob, ?_, ?_, ?_, ?_, c1, c2, c3, c4⟩
      · intro _; exact q1
      · intro _; simp only [State.len]; rw [wptr]; exact ⟨rfl, by rw [Nat.mod_add_mod]⟩
      · simp
      · simp
    · -- br
      rename_i hpc
      have q1 := p1 (by simp [hpc])
      have q2 := p2 (by simp [hpc])
      split
      · refine ⟨dlen, rptr, wptr, le, bound, cells, pop_eq, noob, ?_, ?_, ?_, ?_, c1, c2, c3, c4⟩ <;> simp
      · rename_i hne
        refine ⟨dlen, rptr, wptr, le, bound, cells, pop_eq, noob, ?_, ?_, ?_, ?_, c1, c2, c3, c4⟩
        · intro _; exact q1
        · intro _; exact q2
        · intro _
          -- the full check passed although `read` may be stale: a slot is free
          false_or_by_contra
          rename_i hc
          apply hne
          rw [q2.2, q1.2.1]
          dsimp only at hc
          exact mod_eq_of_turn (by omega)
        · simp
    · -- data
      rename_i hpc
      have q1 := p1 (by simp [hpc])
      have q2 := p2 (by simp [hpc])
      have q3 := p3 (by simp [hpc])
      have hlt : s.pWrite < s.data.length := by
        rw [q2.1, dlen]; exact Nat.mod_lt _ (by omega)
      rw [if_pos hlt]
      refine ⟨by simpa using dlen, rptr, wptr, le, bound, ?_, pop_eq, noob, ?_, ?_, ?_, ?_,
        c1, c2, c3, c4⟩
      · intro i hi1 hi2
        dsimp only at hi1 hi2
        have hne : s.pushed.length % (s.cap + 1) ≠ i % (s.cap + 1) :=
          mod_ne_of_close hi2 (by omega)
        simp only
        rw [List.getElem?_set_ne (by rw [q2.1]; exact hne)]
        exact cells i hi1 hi2
      · intro _; exact q1
      · intro _; exact q2
      · intro _; exact q3
      · intro _
        simp only [hT, List.head?_cons]
        rw [← q2.1]
        simp [hlt]
    · -- st
      rename_i hpc
      have q1 := p1 (by simp [hpc])
      have q2 := p2 (by simp [hpc])
      have q3 := p3 (by simp [hpc])
      have q4 := p4 hpc
      rw [hT] at q4
      simp only [List.head?_cons] at q4
      refine ⟨dlen, rptr, ?_, ?_, ?_, ?_, ?_, noob, ?_, ?_, ?_, ?_, c1, ?_, ?_, ?_⟩
      · simp only [List.length_append, List.length_cons, List.length_nil]; exact q2.2
      · simp only [List.length_append, List.length_cons, List.length_nil]; omega
      · simp only [List.length_append, List.length_cons, List.length_nil]; omega
      · intro i hi1 hi2
        simp only [List.length_append, List.length_cons, List.length_nil] at hi2
        by_cases hi : i < s.pushed.length
        · rw [List.getElem?_append_left hi]; exact cells i hi1 hi
        · have : i = s.pushed.length := by omega
          subst this
          simp only [q4]
          simp
      · simp only
        rw [List.take_append_of_le_length le]
        exact pop_eq
      · simp
      · simp
      · simp
      · simp
      · intro hc
        have := c2 hc
        simp only [List.length_append, List.length_cons, List.length_nil]
        exact ⟨by omega, this.2⟩
      · intro hc
        have := c3 hc
        simp only [List.length_append, List.length_cons, List.length_nil]
        exact ⟨by omega, this.2⟩
      · intro hc
        have h3 := c3 (Or.inr hc)
        simp only
        rw [List.getElem?_append_left h3.1]
        exact c4 hc

theorem inv_stepCons {s : State} (h : Inv s) : Inv (stepCons s) := by
  obtain ⟨dlen, rptr, wptr, le, bound, cells, pop_eq, noob, p1, p2, p3, p4, c1, c2, c3, c4⟩ := h
  unfold stepCons
  split
  · exact ⟨dlen, rptr, wptr, le, bound, cells, pop_eq, noob, p1, p2, p3, p4, c1, c2, c3, c4⟩
  · rename_i n hT
    split
    · -- ldR
      rename_i hpc
      refine ⟨dlen, rptr, wptr, le, bound, cells, pop_eq, noob, p1, p2, p3, p4, ?_, ?_, ?_, ?_⟩
      · intro _; exact rptr
      · simp
      · simp
      · simp
    · -- ldW
      rename_i hpc
      have r1 := c1 (by simp [hpc])
      refine ⟨dlen, rptr, wptr, le, bound, cells, pop_eq, noob, p1, p2, p3, p4, ?_, ?_, ?_, ?_⟩
      · intro _; exact r1
      · intro _; exact ⟨Nat.le_refl _, le, wptr, rfl⟩
      · simp
      · simp
    · -- br
      rename_i hpc
      have r1 := c1 (by simp [hpc])
      have r2 := c2 (by simp [hpc])
      split
      · refine ⟨dlen, rptr, wptr, le, bound, cells, pop_eq, noob, p1, p2, p3, p4, ?_, ?_, ?_, ?_⟩ <;> simp
      · rename_i hne
        refine ⟨dlen, rptr, wptr, le, bound, cells, pop_eq, noob, p1, p2, p3, p4, ?_, ?_, ?_, ?_⟩
        · intro _; exact r1
        · intro _; exact r2
        · intro _
          simp only [State.len]
          refine ⟨?_, by rw [r1, Nat.mod_add_mod]⟩
          -- `read ≠ write` although `write` may be stale: an element is published
          false_or_by_contra
          rename_i hc
          apply hne
          rw [r1, r2.2.2.1]
          have : s.gcW = s.popped.length := by omega
          rw [this]
        · simp
    · -- data
      rename_i hpc
      have r1 := c1 (by simp [hpc])
      have r2 := c2 (by simp [hpc])
      have r3 := c3 (by simp [hpc])
      have hcell := cells s.popped.length (Nat.le_refl _) r3.1
      rw [← r1] at hcell
      have hsome : s.pushed[s.popped.length]? = some (s.pushed[s.popped.length]'r3.1) :=
        List.getElem?_eq_getElem r3.1
      rw [hsome] at hcell
      rw [hcell]
      refine ⟨dlen, rptr, wptr, le, bound, cells, pop_eq, noob, p1, p2, p3, p4, ?_, ?_, ?_, ?_⟩
      · intro _; exact r1
      · intro _; exact r2
      · intro _; exact r3
      · intro _; exact hsome
    · -- st
      rename_i hpc
      have r1 := c1 (by simp [hpc])
      have r2 := c2 (by simp [hpc])
      have r3 := c3 (by simp [hpc])
      have r4 := c4 hpc
      refine ⟨dlen, ?_, wptr, ?_, ?_, ?_, ?_, noob, ?_, p2, p3, p4, ?_, ?_, ?_, ?_⟩
      · simp only [List.length_append, List.length_cons, List.length_nil]; exact r3.2
      · simp only [List.length_append, List.length_cons, List.length_nil]; omega
      · simp only [List.length_append, List.length_cons, List.length_nil]; omega
      · intro i hi1 hi2
        simp only [List.length_append, List.length_cons, List.length_nil] at hi1
        exact cells i (by omega) hi2
      · simp only [List.length_append, List.length_cons, List.length_nil]
        rw [List.take_add_one, r4, ← pop_eq]
        simp
      · intro hc
        have := p1 hc
        simp only [List.length_append, List.length_cons, List.length_nil]
        exact ⟨by omega, this.2⟩
      · simp
      · simp
      · simp
      · simp

theorem inv_step {s : State} (h : Inv s) (t : Tid) : Inv (step s t) := by
  cases t
  · exact inv_stepProd h
  · exact inv_stepCons h

theorem inv_exec {s : State} (h : Inv s) (sched : List Tid) : Inv (exec s sched) := by
  induction sched generalizing s with
  | nil => exact h
  | cons t ts ih => exact ih (inv_step h t)

theorem inv_of_reachable {cap : Nat} {pushes : List Val} {pops : Nat} {s : State}
    (h : Reachable cap pushes pops s) : Inv s := by
  induction h with
  | init => exact inv_init cap pushes pops
  | step t _ ih => exact inv_step ih t

theorem reachable_exec {cap : Nat} {pushes : List Val} {pops : Nat} {s : State}
    (h : Reachable cap pushes pops s) (sched : List Tid) :
    Reachable cap pushes pops (exec s sched) := by
  induction sched generalizing s with
  | nil => exact h
  | cons t ts ih => exact ih (Reachable.step t h)

/-! ### The history variables are the observable results -/

theorem okPushes_snoc (vs : List Val) (bs : List Bool) (b : Bool) (h : bs.length < vs.length) :
    okPushes vs (bs ++ [b]) = okPushes vs bs ++ (if b then [vs[bs.length]] else []) := by
  induction vs generalizing bs with
  | nil => simp at h
  | cons v vs ih =>
    cases bs with
    | nil => cases b <;> cases vs <;> simp [okPushes]
    | cons c cs =>
      have := ih cs (by simpa using h)
      cases c <;> simp [okPushes, this]

/-- `pushed` / `popped` are functions of the results the two threads have seen so far -/
structure Obs (pushes : List Val) (pops : Nat) (s : State) : Prop where
  todo   : s.pTodo = pushes.drop s.pRes.length
  plen   : s.pRes.length ≤ pushes.length
  pushed : s.pushed = okPushes pushes s.pRes
  popped : s.popped = okPops s.cRes
  clen   : s.cRes.length + s.cTodo = pops

theorem obs_init (cap : Nat) (pushes : List Val) (pops : Nat) :
    Obs pushes pops (init cap pushes pops) := by
  constructor <;> simp [init, okPops]
  cases pushes <;> simp [okPushes]

theorem drop_eq_cons {α : Type} {l : List α} {n : Nat} {v : α} {rest : List α}
    (h : v :: rest = l.drop n) : ∃ hn : n < l.length, l[n] = v ∧ rest = l.drop (n + 1) := by
  have hn : n < l.length := by
    false_or_by_contra
    rw [List.drop_eq_nil_of_le (by omega)] at h
    cases h
  refine ⟨hn, ?_⟩
  rw [List.drop_eq_getElem_cons hn] at h
  injection h with h1 h2
  exact ⟨h1.symm, h2⟩

theorem obs_step {pushes : List Val} {pops : Nat} {s : State} (h : Obs pushes pops s) (t : Tid) :
    Obs pushes pops (step s t) := by
  obtain ⟨todo, plen, pushed, popped, clen⟩ := h
  cases t
  · simp only [step, stepProd]
    split
    · exact ⟨todo, plen, pushed, popped, clen⟩
    · rename_i v rest hT
      rw [hT] at todo
      obtain ⟨hn, hv, hrest⟩ := drop_eq_cons todo
      split
      · exact ⟨hT ▸ todo, plen, pushed, popped, clen⟩
      · exact ⟨hT ▸ todo, plen, pushed, popped, clen⟩
      · split
        · refine ⟨by simpa using hrest, by simp; omega, ?_, popped, clen⟩
          simp only; rw [okPushes_snoc _ _ _ hn]; simpa using pushed
        · exact ⟨hT ▸ todo, plen, pushed, popped, clen⟩
      · split
        · exact ⟨hT ▸ todo, plen, pushed, popped, clen⟩
        · exact ⟨hT ▸ todo, plen, pushed, popped, clen⟩
      · refine ⟨by simpa using hrest, by simp; omega, ?_, popped, clen⟩
        simp only; rw [okPushes_snoc _ _ _ hn, pushed, hv]; simp
  · simp only [step, stepCons]
    split
    · exact ⟨todo, plen, pushed, popped, clen⟩
    · rename_i n hT
      split
      · exact ⟨todo, plen, pushed, popped, clen⟩
      · exact ⟨todo, plen, pushed, popped, clen⟩
      · split
        · refine ⟨todo, plen, pushed, ?_, by simp; omega⟩
          simp only [okPops, List.filterMap_append]; simpa [okPops] using popped
        · exact ⟨todo, plen, pushed, popped, clen⟩
      · split
        · exact ⟨todo, plen, pushed, popped, clen⟩
        · exact ⟨todo, plen, pushed, popped, clen⟩
      · refine ⟨todo, plen, pushed, ?_, by simp; omega⟩
        simp only [okPops, List.filterMap_append]; simp [popped, okPops]

theorem obs_of_reachable {cap : Nat} {pushes : List Val} {pops : Nat} {s : State}
    (h : Reachable cap pushes pops s) : Obs pushes pops s := by
  induction h with
  | init => exact obs_init cap pushes pops
  | step t _ ih => exact obs_step ih t

/-- the capacity never changes -/
theorem cap_of_reachable {cap : Nat} {pushes : List Val} {pops : Nat} {s : State}
    (h : Reachable cap pushes pops s) : s.cap = cap := by
  induction h with
  | init => rfl
  | step t _ ih =>
    cases t
    · simp only [step, stepProd]; (repeat' split) <;> exact ih
    · simp only [step, stepCons]; (repeat' split) <;> exact ih

end BluetoeModel.Ring
