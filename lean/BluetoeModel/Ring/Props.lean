import BluetoeModel.Ring.Lemmas
/-!
  # C30 — The interrupt-safe ring is a lossless FIFO under any interleaving

  "With one producer and one consumer running in different contexts, every element whose push
  succeeded is popped exactly once and in push order, pop fails only when no pushed element is
  pending, and push fails only when the ring already holds its capacity, for every interleaving of
  the two sides."

  The theorems quantify over **every** capacity `cap` (`S`; also the degenerate `S = 0`), every
  list of `try_push` arguments, every number of `try_pop` calls and every schedule (`List Tid`) of
  the atomic steps of `Model.lean`.  Memory model: sequential consistency (the code uses the
  default `memory_order_seq_cst` of `std::atomic_int::load/store`); weaker orders are outside
  the model.  `no_slot_read_while_written` shows the plain `data_` accesses never conflict.
-/
namespace BluetoeModel.Ring

/--
  "every element whose push succeeded is popped exactly once and in push order":
  at every moment of every interleaving the values delivered by the successful `try_pop` calls
  are a prefix of the arguments of the successful `try_push` calls — nothing is lost, duplicated,
  reordered or invented.  Stated on what the two callers observe (`pRes`, `cRes`), not on history
  variables.
-/
theorem spsc_linearizable (cap : Nat) (pushes : List Val) (pops : Nat) (sched : List Tid) :
    okPops (exec (init cap pushes pops) sched).cRes
      <+: okPushes pushes (exec (init cap pushes pops) sched).pRes := by
  have hr := reachable_exec (Reachable.init (cap := cap) (pushes := pushes) (pops := pops)) sched
  have hi := inv_of_reachable hr
  have ho := obs_of_reachable hr
  rw [← ho.popped, ← ho.pushed, hi.pop_eq]
  exact List.take_prefix _ _

/-- the same for an arbitrary reachable state, on the history variables -/
theorem popped_prefix_pushed {cap : Nat} {pushes : List Val} {pops : Nat} {s : State}
    (h : Reachable cap pushes pops s) : s.popped <+: s.pushed := by
  rw [(inv_of_reachable h).pop_eq]; exact List.take_prefix _ _

/-- the history variables are exactly the observable results -/
theorem history_is_observable {cap : Nat} {pushes : List Val} {pops : Nat} {s : State}
    (h : Reachable cap pushes pops s) :
    s.pushed = okPushes pushes s.pRes ∧ s.popped = okPops s.cRes :=
  ⟨(obs_of_reachable h).pushed, (obs_of_reachable h).popped⟩

/--
  "exactly once" for the elements not yet popped: every pending element is still stored, in push
  order, in the slots from `read_ptr_` on, and the two indices are the push / pop counts modulo
  `length` — so the following pops deliver exactly these elements.
-/
theorem pending_elements_stored {cap : Nat} {pushes : List Val} {pops : Nat} {s : State}
    (h : Reachable cap pushes pops s) :
    s.readPtr = s.popped.length % s.len ∧ s.writePtr = s.pushed.length % s.len ∧
    s.pending ≤ s.cap ∧
    ∀ k, k < s.pending →
      s.data[(s.readPtr + k) % s.len]? = (s.pushed.drop s.popped.length)[k]? := by
  have hi := inv_of_reachable h
  refine ⟨hi.rptr, hi.wptr, ?_, ?_⟩
  · have := hi.bound; have := hi.le; simp only [State.pending]; omega
  · intro k hk
    simp only [State.pending] at hk
    simp only [State.len]
    rw [hi.rptr, Nat.mod_add_mod, List.getElem?_drop]
    exact hi.cells _ (by omega) (by omega)

/--
  "pop fails only when no pushed element is pending" at its linearisation point: whenever a
  `try_pop` is at its branch and about to return `false` (`read == write`), the number of pending
  elements at the moment it loaded `write_ptr_` (`gcPend`, recorded by `stepCons` at `ldW`) was 0.
-/
theorem pop_fails_only_if_empty {cap : Nat} {pushes : List Val} {pops : Nat} {s : State}
    (h : Reachable cap pushes pops s) (hpc : s.cpc = .br) (hfail : s.cRead = s.cWrite) :
    s.gcPend = 0 := by
  have hi := inv_of_reachable h
  have r1 := hi.c1 (by simp [hpc])
  have r2 := hi.c2 (by simp [hpc])
  have hb := hi.bound
  false_or_by_contra
  have hne : s.gcW % (s.cap + 1) ≠ s.popped.length % (s.cap + 1) :=
    mod_ne_of_close (by omega) (by omega)
  exact hne (by rw [← r2.2.2.1, ← r1, hfail])

/-- the same without history variables, at the load itself: if the value of `write_ptr_` the
consumer is about to load equals its `read` (so the pop will fail), nothing is pending -/
theorem pop_fails_only_if_empty_at_load {cap : Nat} {pushes : List Val} {pops : Nat} {s : State}
    (h : Reachable cap pushes pops s) (hpc : s.cpc = .ldW) (hfail : s.writePtr = s.cRead) :
    s.pushed = s.popped := by
  have hi := inv_of_reachable h
  have r1 := hi.c1 (by simp [hpc])
  have hb := hi.bound
  have hle := hi.le
  have hlen : s.pushed.length = s.popped.length := by
    false_or_by_contra
    have hne : s.pushed.length % (s.cap + 1) ≠ s.popped.length % (s.cap + 1) :=
      mod_ne_of_close (by omega) (by omega)
    exact hne (by rw [← hi.wptr, ← r1, hfail])
  rw [hi.pop_eq, ← hlen, List.take_length]

/-- `gcPend` is what the doc comment says: the pending count at the load of `write_ptr_` -/
theorem gcPend_spec (s : State) (hpc : s.cpc = .ldW) (hT : s.cTodo ≠ 0) :
    (stepCons s).gcPend = s.pending ∧ (stepCons s).cpc = .br ∧
    (stepCons s).cWrite = s.writePtr ∧ (stepCons s).cRead = s.cRead := by
  unfold stepCons
  cases hc : s.cTodo with
  | zero => exact absurd hc hT
  | succ n => simp [hpc]

/--
  "push fails only when the ring already holds its capacity" at its linearisation point: whenever a
  `try_push` is at its branch and about to return `false` (`next == read`), the number of pending
  elements at the moment it loaded `read_ptr_` (`gpPend`, recorded by `stepProd` at `ldR`) was `S`.
-/
theorem push_fails_only_if_full {cap : Nat} {pushes : List Val} {pops : Nat} {s : State}
    (h : Reachable cap pushes pops s) (hpc : s.ppc = .br) (hfail : s.pNext = s.pRead) :
    s.gpPend = s.cap := by
  have hi := inv_of_reachable h
  have q1 := hi.p1 (by simp [hpc])
  have q2 := hi.p2 (by simp [hpc])
  have hle := hi.le
  false_or_by_contra
  have hne : (s.pushed.length + 1) % (s.cap + 1) ≠ s.gpR % (s.cap + 1) :=
    mod_ne_of_close (by omega) (by omega)
  exact hne (by rw [← q2.2, ← q1.2.1, hfail])

/-- the same without history variables, for the shared state at the load of `read_ptr_` (in fact
in any reachable state): if the indices make the full check fail, exactly `S` elements are
pending -/
theorem push_fails_only_if_full_at_load {cap : Nat} {pushes : List Val} {pops : Nat} {s : State}
    (h : Reachable cap pushes pops s)
    (hfail : (s.writePtr + 1) % s.len = s.readPtr) : s.pending = s.cap := by
  have hi := inv_of_reachable h
  have hle := hi.le
  have hb := hi.bound
  simp only [State.pending]
  false_or_by_contra
  have hne : (s.pushed.length + 1) % (s.cap + 1) ≠ s.popped.length % (s.cap + 1) :=
    mod_ne_of_close (by omega) (by omega)
  apply hne
  rw [← hi.rptr, ← hfail, hi.wptr, State.len, Nat.mod_add_mod]

/-- `gpPend` is what the doc comment says: the pending count at the load of `read_ptr_` -/
theorem gpPend_spec (s : State) (hpc : s.ppc = .ldR) (hT : s.pTodo ≠ []) :
    (stepProd s).gpPend = s.pending ∧ (stepProd s).ppc = .ldW ∧
    (stepProd s).pRead = s.readPtr := by
  unfold stepProd
  cases hc : s.pTodo with
  | nil => exact absurd hc hT
  | cons v rest => simp [hpc]

/--
  No slot is read while it is written: the plain write `data_[ write ] = in` and the plain read
  `out = data_[ read ]` are never enabled on the same slot (the C++ program is data-race free).
-/
theorem no_slot_read_while_written {cap : Nat} {pushes : List Val} {pops : Nat} {s : State}
    (h : Reachable cap pushes pops s) (hb : s.bothAtData) : s.pWrite ≠ s.cRead := by
  obtain ⟨_, hp, _, hc⟩ := hb
  have hi := inv_of_reachable h
  have q2 := hi.p2 (by simp [hp])
  have r1 := hi.c1 (by simp [hc])
  have r3 := hi.c3 (by simp [hc])
  have hb := hi.bound
  rw [q2.1, r1]
  exact mod_ne_of_close r3.1 (by omega)

/-- `data_` is only ever indexed inside `[0, S]` (the `oob` branches of the model are dead) -/
theorem no_oob {cap : Nat} {pushes : List Val} {pops : Nat} {s : State}
    (h : Reachable cap pushes pops s) : s.oob = false :=
  (inv_of_reachable h).noob

/-- at most `S` elements are ever pending, and the indices stay in `[0, S]` -/
theorem indices_in_range {cap : Nat} {pushes : List Val} {pops : Nat} {s : State}
    (h : Reachable cap pushes pops s) : s.readPtr ≤ s.cap ∧ s.writePtr ≤ s.cap := by
  have hi := inv_of_reachable h
  have h1 : s.popped.length % (s.cap + 1) < s.cap + 1 := Nat.mod_lt _ (Nat.succ_pos s.cap)
  have h2 : s.pushed.length % (s.cap + 1) < s.cap + 1 := Nat.mod_lt _ (Nat.succ_pos s.cap)
  rw [hi.rptr, hi.wptr]
  omega

/-! ### Non-vacuity: concrete reachable states satisfying the hypotheses above -/

open Tid in
/-- S = 2, pushes 5 6 7 8 (the third fails: ring full), interleaved with 4 pops (the last fails) -/
example :
    let s := exec (init 2 [5, 6, 7, 8] 4)
      [prod, prod, prod, prod, prod,  prod, prod, prod, cons, cons, prod, prod,   -- push 5, push 6
       prod, cons, prod, prod,                                   -- push 7 fails (read stale: 0)
       cons, cons, cons,                                         -- pop 5
       prod, prod, prod, prod, prod,                             -- push 8
       cons, cons, cons, cons, cons, cons, cons, cons, cons, cons, cons, cons, cons]
    s.pRes = [true, true, false, true] ∧ s.cRes = [some 5, some 6, some 8, none] ∧
    okPushes [5, 6, 7, 8] s.pRes = [5, 6, 8] ∧ okPops s.cRes = [5, 6, 8] := by decide

open Tid in
/-- a failing pop at its branch (hypotheses of `pop_fails_only_if_empty`) -/
example : ∃ s, Reachable 1 [] 1 s ∧ s.cpc = .br ∧ s.cRead = s.cWrite :=
  ⟨exec (init 1 [] 1) [cons, cons], reachable_exec .init _, by decide⟩

open Tid in
/-- a consumer about to load a `write_ptr_` equal to its `read` -/
example : ∃ s, Reachable 1 [] 1 s ∧ s.cpc = .ldW ∧ s.writePtr = s.cRead :=
  ⟨exec (init 1 [] 1) [cons], reachable_exec .init _, by decide⟩

open Tid in
/-- a failing push at its branch, S = 1 with one element pending -/
example : ∃ s, Reachable 1 [5, 6] 0 s ∧ s.ppc = .br ∧ s.pNext = s.pRead ∧ s.gpPend = 1 :=
  ⟨exec (init 1 [5, 6] 0) [prod, prod, prod, prod, prod, prod, prod], reachable_exec .init _,
    by decide⟩

open Tid in
/-- a producer about to load a `read_ptr_` that makes the full check fail -/
example : ∃ s, Reachable 1 [5, 6] 0 s ∧ s.ppc = .ldR ∧ (s.writePtr + 1) % s.len = s.readPtr :=
  ⟨exec (init 1 [5, 6] 0) [prod, prod, prod, prod, prod], reachable_exec .init _, by decide⟩

open Tid in
/-- both threads at their `data_` access at the same time (on different slots: 1 and 0) -/
example : ∃ s, Reachable 2 [5, 6] 1 s ∧ s.bothAtData ∧ s.pWrite = 1 ∧ s.cRead = 0 :=
  ⟨exec (init 2 [5, 6] 1) [prod, prod, prod, prod, prod, prod, prod, prod, cons, cons, cons],
    reachable_exec .init _, by unfold State.bothAtData; decide⟩

open Tid in
/-- pending elements after a wrap-around of the indices (S = 1, third push lands in slot 0) -/
example :
    let s := exec (init 1 [5, 6, 7] 2)
      [prod, prod, prod, prod, prod, cons, cons, cons, cons, cons,
       prod, prod, prod, prod, prod, cons, cons, cons, cons, cons, prod, prod, prod, prod, prod]
    s.pending = 1 ∧ s.readPtr = 0 ∧ s.writePtr = 1 ∧ s.data = [7, 6] := by decide

end BluetoeModel.Ring
