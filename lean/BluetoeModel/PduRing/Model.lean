/-
  Model of `bluetoe::link_layer::pdu_ring_buffer<Size, Buffer, Layout>`.
  src: bluetoe/link_layer/include/bluetoe/ring_buffer.hpp
       bluetoe/link_layer/include/bluetoe/default_pdu_layout.hpp          (default_pdu_layout)
       bluetoe/bindings/nordic/include/bluetoe/nrf.hpp                    (encrypted_pdu_layout)
       tests/test_tools/test_layout.hpp                                   (layout_with_overhead<N>)

  Pointers are offsets into the storage (`buffer` = 0, `buffer + Size` = `size`), the storage
  is a `List UInt8`.  Every memory access of the C++ code is an explicit, checked access here:
  a function returns `none` where the C++ would read or write outside `[0, Size)` or fail one of
  its own `assert`s.  (`Props.lean` proves that `none` is never taken in a reachable state.)

  The model is the code after `fixes/pduring-01-pdu-length-truncation.patch`
  (`pdu_length( const P& )` returns `std::size_t`, not `std::uint8_t`).
-/
namespace BluetoeModel.PduRing

/-- A layout: `header()` is the little endian 16 bit word at the start of the PDU in all three
    layouts, they differ in `data_channel_pdu_memory_size( n ) = header_size + n + overhead`
    (default: overhead 0, nRF `encrypted_pdu_layout`: 1, `layout_with_overhead<N>`: N). -/
structure Layout where
  ov : Nat
deriving Repr, DecidableEq

-- src: default_pdu_layout::data_channel_pdu_memory_size / encrypted_pdu_layout::… / layout_with_overhead::…
def Layout.memSize (L : Layout) (payload : Nat) : Nat := 2 + L.ov + payload

/-- `end_`, `front_` as offsets; `mem` is the caller supplied storage (`buffer`), `size` = `Size` -/
structure Ring where
  size  : Nat
  mem   : List UInt8
  front : Nat
  end_  : Nat
deriving Repr, DecidableEq

-- src: bits.hpp read_16bit via Layout::header( const uint8_t* )
def read16? (mem : List UInt8) (o : Nat) : Option Nat :=
  match mem[o]?, mem[o + 1]? with
  | some a, some b => some (a.toNat + 256 * b.toNat)
  | _, _ => none

-- src: bits.hpp write_16bit via Layout::header( uint8_t*, uint16_t )
def write16? (mem : List UInt8) (o : Nat) (v : Nat) : Option (List UInt8) :=
  if o + 1 < mem.length then
    some ((mem.set o (UInt8.ofNat (v % 256))).set (o + 1) (UInt8.ofNat (v / 256 % 256)))
  else none

/-- the caller filling (part of) an allocated buffer: `data` is copied to offset `o` -/
def writeAt? (mem : List UInt8) (o : Nat) (data : List UInt8) : Option (List UInt8) :=
  if o + data.length ≤ mem.length then
    some (mem.take o ++ data ++ mem.drop (o + data.length))
  else none

-- src: pdu_ring_buffer::pdu_length( P* ) = Layout::data_channel_pdu_memory_size( Layout::header( p ) >> 8 )
def pduLength? (L : Layout) (mem : List UInt8) (o : Nat) : Option Nat :=
  (read16? mem o).map fun h => L.memSize (h / 256)

-- src: pdu_ring_buffer::reset (and the constructor); `wrap_mark` = 0
def reset (size : Nat) (mem0 : List UInt8) : Option Ring :=
  if mem0.length = size then
    (write16? mem0 0 0).map fun m => { size := size, mem := m, front := 0, end_ := 0 }
  else none

-- src: pdu_ring_buffer::alloc_front; `some o` = Buffer{ buffer + o, n }, `none` = Buffer{ 0, 0 }.
-- The pointer differences `end_ - front_`, `end_of_buffer - front_`, `end_ - buffer` are signed in
-- the C++; they are written additively here so that no truncated subtraction appears.
def allocFront (r : Ring) (n : Nat) : Option Nat :=
  if r.front < r.end_ ∧ r.front + n < r.end_ then some r.front
  else if r.end_ ≤ r.front then
    if r.front + n ≤ r.size then some r.front
    else if n < r.end_ then some 0
    else none
  else none

-- src: pdu_ring_buffer::push_front( buffer, Buffer{ buffer + o, n } )
def pushFront (L : Layout) (r : Ring) (o n : Nat) : Option Ring :=
  match pduLength? L r.mem o with                        -- assert( pdu.size >= pdu_length( pdu ) )
  | none => none
  | some len0 =>
    if n < len0 then none
    else
      let mem? := if r.front ≠ o ∧ r.front + 1 < r.size then write16? r.mem r.front 0 else some r.mem
      match mem? with
      | none => none
      | some mem' =>
        match pduLength? L mem' o with                   -- front_ = pdu.buffer + pdu_length( pdu )
        | none => none
        | some len =>
          some { r with mem := mem', front := o + len, end_ := if r.front = r.end_ then o else r.end_ }

-- src: pdu_ring_buffer::next_end; `some none` = Buffer{ 0, 0 }, `some (some (o, n))` = Buffer{ buffer + o, n }
def nextEnd (L : Layout) (r : Ring) : Option (Option (Nat × Nat)) :=
  if r.front = r.end_ then some none
  else (pduLength? L r.mem r.end_).map fun len => some (r.end_, len)

-- src: pdu_ring_buffer::pop_end
def popEnd (L : Layout) (r : Ring) : Option Ring :=
  match pduLength? L r.mem r.end_ with
  | none => none
  | some len =>
    let e := r.end_ + len
    if e = r.front then some { r with end_ := e }
    else if r.size ≤ e + 1 then some { r with end_ := 0 }
    else match r.mem[e + 1]? with
      | none => none
      | some b => some { r with end_ := if b = 0 then 0 else e }

-- src: pdu_ring_buffer::more_than_one
def moreThanOne (L : Layout) (r : Ring) : Option Bool :=
  if r.end_ = r.front then some false
  else (pduLength? L r.mem r.end_).map fun len => decide (r.end_ + len ≠ r.front)

/-- the bytes `[o, o + n)` of the storage as the caller of `next_end()` reads them -/
def readAt? (mem : List UInt8) (o n : Nat) : Option (List UInt8) :=
  if o + n ≤ mem.length then some ((mem.drop o).take n) else none

/-! ### operations as the link layer (`ll_data_pdu_buffer`) uses the ring -/

inductive Op where
  | alloc (n : Nat)                      -- alloc_front( n )
  | push (n : Nat) (data : List UInt8)   -- alloc_front( n ), fill the buffer with `data`, push_front
  | peek                                 -- next_end() and read the PDU
  | pop                                  -- pop_end()
  | more                                 -- more_than_one()
deriving Repr, DecidableEq

inductive Out where
  | alloc (o : Option Nat)
  | pushed (o front end_ : Nat)
  | full
  | peek (p : Option (Nat × Nat × List UInt8))
  | popped (front end_ : Nat)
  | more (b : Bool)
deriving Repr, DecidableEq

/-- `ok`: the call returned; `pre`: the caller violated a documented precondition of the ring's
    interface (the call is not made); `ub`: the ring itself accessed memory outside the storage
    or failed one of its asserts -/
inductive Res where
  | ok (r : Ring) (o : Out)
  | pre
  | ub
deriving Repr, DecidableEq

/-- documented preconditions of `alloc_front` + `push_front` for a buffer of `n` bytes that the
    caller fills with `data`: `n ≥ memory_size( 0 )`, the caller writes at least the header and
    stays inside the buffer, the length field is not 0 and the PDU fits into the buffer -/
def pushPre (L : Layout) (n : Nat) (data : List UInt8) : Bool :=
  match data[1]? with
  | none => false
  | some l => decide (L.memSize 0 ≤ n) && decide (data.length ≤ n) && decide (l ≠ 0) &&
              decide (L.memSize l.toNat ≤ n)

def step (L : Layout) (r : Ring) : Op → Res
  | .alloc n =>
      if n < L.memSize 0 then .pre else .ok r (.alloc (allocFront r n))
  | .push n data =>
      if !pushPre L n data then .pre
      else match allocFront r n with
        | none => .ok r .full
        | some o =>
          match writeAt? r.mem o data with
          | none => .ub
          | some m =>
            match pushFront L { r with mem := m } o n with
            | none => .ub
            | some r' => .ok r' (.pushed o r'.front r'.end_)
  | .peek =>
      match nextEnd L r with
      | none => .ub
      | some none => .ok r (.peek none)
      | some (some (o, n)) =>
        match readAt? r.mem o n with
        | none => .ub
        | some bytes => .ok r (.peek (some (o, n, bytes)))
  | .pop =>
      if r.front = r.end_ then .pre                     -- @pre next_end().size != 0
      else match popEnd L r with
        | none => .ub
        | some r' => .ok r' (.popped r'.front r'.end_)
  | .more =>
      match moreThanOne L r with
      | none => .ub
      | some b => .ok r (.more b)

end BluetoeModel.PduRing
