import BluetoeModel.PduRing.Model
/-!
  Helper lemmas for the PDU ring: memory accesses, the `Chain` predicate (consecutive PDUs stored
  in the storage) and its frame / append properties.
-/
namespace BluetoeModel.PduRing

abbrev Pdu := List UInt8

/-! ### memory primitives -/

theorem write16?_length {mem m : List UInt8} {o v : Nat} (h : write16? mem o v = some m) :
    m.length = mem.length := by
  unfold write16? at h
  split at h
  · cases h; simp
  · cases h

theorem write16?_get {mem m : List UInt8} {o v : Nat} (h : write16? mem o v = some m)
    (i : Nat) (h0 : i ≠ o) (h1 : i ≠ o + 1) : m[i]? = mem[i]? := by
  unfold write16? at h
  split at h
  · cases h
    rw [List.getElem?_set_ne (by omega), List.getElem?_set_ne (by omega)]
  · cases h

theorem write16?_zero_get1 {mem m : List UInt8} {o : Nat} (h : write16? mem o 0 = some m) :
    m[o + 1]? = some 0 := by
  unfold write16? at h
  split at h
  · cases h
    rw [List.getElem?_set_self (by simp; omega)]
    rfl
  · cases h

theorem write16?_isSome {mem : List UInt8} {o : Nat} (v : Nat) (h : o + 1 < mem.length) :
    ∃ m, write16? mem o v = some m := by
  unfold write16?
  simp [h]

theorem writeAt?_length {mem m data : List UInt8} {o : Nat} (h : writeAt? mem o data = some m) :
    m.length = mem.length := by
  unfold writeAt? at h
  split at h
  · cases h; simp; omega
  · cases h

theorem writeAt?_get_out {mem m data : List UInt8} {o : Nat} (h : writeAt? mem o data = some m)
    (i : Nat) (hi : i < o ∨ o + data.length ≤ i) : m[i]? = mem[i]? := by
  unfold writeAt? at h
  split at h
  next hb =>
    cases h
    rcases hi with hi | hi
    · rw [List.append_assoc, List.getElem?_append_left (by simp; omega), List.getElem?_take_of_lt hi]
    · rw [List.getElem?_append_right (by simp; omega), List.getElem?_drop]
      simp only [List.length_append, List.length_take]
      congr 1; omega
  · cases h

theorem writeAt?_get_in {mem m data : List UInt8} {o : Nat} (h : writeAt? mem o data = some m)
    (i : Nat) (hi : i < data.length) : m[o + i]? = data[i]? := by
  unfold writeAt? at h
  split at h
  next hb =>
    cases h
    rw [List.getElem?_append_left (by simp; omega), List.getElem?_append_right (by simp; omega)]
    simp only [List.length_take]
    congr 1; omega
  · cases h

theorem writeAt?_isSome {mem data : List UInt8} {o : Nat} (h : o + data.length ≤ mem.length) :
    ∃ m, writeAt? mem o data = some m := by
  unfold writeAt?; simp [h]

theorem pduLength?_eq (L : Layout) {mem : List UInt8} {o : Nat} {a b : UInt8}
    (h0 : mem[o]? = some a) (h1 : mem[o + 1]? = some b) :
    pduLength? L mem o = some (L.memSize b.toNat) := by
  unfold pduLength? read16?
  simp only [h0, h1, Option.map_some]
  have : a.toNat < 256 := a.toNat_lt
  congr 2; omega

theorem pduLength?_some {L : Layout} {mem : List UInt8} {o n : Nat} (h : pduLength? L mem o = some n) :
    ∃ a b, mem[o]? = some a ∧ mem[o + 1]? = some b ∧ n = L.memSize b.toNat := by
  unfold pduLength? read16? at h
  split at h
  next a b ha hb =>
    refine ⟨a, b, ha, hb, ?_⟩
    have : a.toNat < 256 := a.toNat_lt
    simp only [Option.map_some, Option.some.injEq] at h
    rw [← h]; congr 1; omega
  · cases h

end BluetoeModel.PduRing
