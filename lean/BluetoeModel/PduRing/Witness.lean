import BluetoeModel.PduRing.Model
/-!
  Witness for the defect repaired by `fixes/pduring-01-pdu-length-truncation.patch`:
  the *unpatched* `push_front` (with `std::uint8_t pdu_length( const P& )`) does not satisfy C18.
-/
namespace BluetoeModel.PduRing

-- src (unpatched): pdu_ring_buffer::push_front with `static std::uint8_t pdu_length( const P& pdu )`
def pushFrontU8 (L : Layout) (r : Ring) (o n : Nat) : Option Ring :=
  match pduLength? L r.mem o with
  | none => none
  | some len0 =>
    if n < len0 % 256 then none
    else
      let mem? := if r.front ≠ o ∧ r.front + 1 < r.size then write16? r.mem r.front 0 else some r.mem
      match mem? with
      | none => none
      | some mem' =>
        match pduLength? L mem' o with
        | none => none
        | some len =>
          some { r with mem := mem', front := o + len % 256, end_ := if r.front = r.end_ then o else r.end_ }

/-- the history `reset 300; alloc_front( 256 ); write a PDU with length field 254; push_front;
    next_end()` on the unpatched code -/
def unfixedHistory : Option (Option (Nat × Nat)) := do
  let r ← reset 300 (List.replicate 300 0xAA)
  let o ← allocFront r 256
  let m ← writeAt? r.mem o ([1, 254] ++ List.replicate 254 7)
  let r' ← pushFrontU8 ⟨0⟩ { r with mem := m } o 256
  nextEnd ⟨0⟩ r'

/-- the same history on the patched code -/
def fixedHistory : Option (Option (Nat × Nat)) := do
  let r ← reset 300 (List.replicate 300 0xAA)
  let o ← allocFront r 256
  let m ← writeAt? r.mem o ([1, 254] ++ List.replicate 254 7)
  let r' ← pushFront ⟨0⟩ { r with mem := m } o 256
  nextEnd ⟨0⟩ r'

set_option maxRecDepth 20000 in
/-- unpatched: the committed 256 byte PDU is lost — the ring is empty right after the commit -/
theorem unfixed_push_loses_pdu_witness : unfixedHistory = some none := by decide

set_option maxRecDepth 20000 in
/-- patched: `next_end` returns the PDU at offset 0 with its 256 bytes -/
theorem fixed_push_keeps_pdu : fixedHistory = some (some (0, 256)) := by decide

end BluetoeModel.PduRing
