import BluetoeModel.PduRing.Chain
/-!
  `next_end`, `pop_end`, `more_than_one` and `alloc_front` against the representation relation.
-/
namespace BluetoeModel.PduRing

theorem Rep.empty_iff {L : Layout} {r : Ring} {g : List (Nat × Pdu)} (h : Rep L r g) :
    r.front = r.end_ ↔ g = [] := by
  rcases h.shape with ⟨h1, _, h3⟩ | ⟨h1, _, h3⟩ | ⟨h1, g1, g2, p, hg, hg1, _⟩
  · exact ⟨fun _ => h3, fun _ => h1⟩
  · constructor
    · intro e; omega
    · intro e; subst e; simp only [Chain] at h3; omega
  · constructor
    · intro e; omega
    · intro e; subst hg; simp at e; exact absurd e.1 hg1

/-- the oldest PDU is where `end_` points to -/
theorem Rep.head {L : Layout} {r : Ring} {o : Nat} {p : Pdu} {g : List (Nat × Pdu)}
    (h : Rep L r ((o, p) :: g)) :
    o = r.end_ ∧ WF L p ∧ Seg r.mem r.end_ p ∧ r.front ≠ r.end_ ∧ r.end_ + p.length ≤ r.size := by
  have hlen := h.len
  rcases h.shape with ⟨_, _, h3⟩ | ⟨h1, h2, h3⟩ | ⟨h1, g1, g2, pw, hg, hg1, _, hc1, hpw, _, _⟩
  · cases h3
  · obtain ⟨ho, hw, hs, hc⟩ := h3
    have := hc.le
    exact ⟨ho, hw, hs, by omega, by omega⟩
  · cases g1 with
    | nil => exact absurd rfl hg1
    | cons x g1 =>
      simp only [List.cons_append, List.cons.injEq] at hg
      obtain ⟨hx, _⟩ := hg
      subst hx
      obtain ⟨ho, hw, hs, hc⟩ := hc1
      have := hc.le
      exact ⟨ho, hw, hs, by omega, by omega⟩

theorem nextEnd_rep_nil {L : Layout} {r : Ring} (h : Rep L r []) : nextEnd L r = some none := by
  have := h.empty_iff.mpr rfl
  unfold nextEnd; rw [if_pos this]

theorem nextEnd_rep_cons {L : Layout} {r : Ring} {o : Nat} {p : Pdu} {g : List (Nat × Pdu)}
    (h : Rep L r ((o, p) :: g)) :
    nextEnd L r = some (some (o, p.length)) ∧ readAt? r.mem o p.length = some p := by
  obtain ⟨ho, hw, hs, hne, hb⟩ := h.head
  obtain ⟨b, _, _, _, hpl⟩ := hs.head hw
  subst ho
  constructor
  · unfold nextEnd; rw [if_neg hne, hpl]; rfl
  · exact readAt?_seg hs (by rw [h.len]; exact hb)

theorem moreThanOne_rep {L : Layout} {r : Ring} {g : List (Nat × Pdu)} (h : Rep L r g) :
    moreThanOne L r = some (decide (2 ≤ g.length)) := by
  rcases h.shape with ⟨h1, _, h3⟩ | ⟨h1, h2, h3⟩ | ⟨h1, g1, g2, pw, hg, hg1, hg2, hc1, hpw, _, _⟩
  · subst h3; unfold moreThanOne; rw [if_pos h1.symm]; rfl
  · cases g with
    | nil => simp only [Chain] at h3; omega
    | cons x g =>
      obtain ⟨o, p⟩ := x
      obtain ⟨ho, hw, hs, hc⟩ := h3
      obtain ⟨b, _, _, _, hpl⟩ := hs.head hw
      unfold moreThanOne
      rw [if_neg (by omega), hpl]
      simp only [Option.map_some, List.length_cons]
      congr 1
      cases g with
      | nil => simp only [Chain] at hc; simp [hc]
      | cons y g => have := hc.lt (by simp); simp; omega
  · cases g1 with
    | nil => exact absurd rfl hg1
    | cons x g1 =>
      obtain ⟨o, p⟩ := x
      obtain ⟨ho, hw, hs, hc⟩ := hc1
      obtain ⟨b, _, _, _, hpl⟩ := hs.head hw
      unfold moreThanOne
      rw [if_neg (by omega), hpl]
      subst hg
      cases g2 with
      | nil => exact absurd rfl hg2
      | cons y g2 =>
        have h2 : ¬ (r.end_ + p.length = r.front) := by omega
        simp [h2]; omega

/-- `pop_end` on a non-empty ring drops exactly the oldest PDU, leaves the storage alone and
    re-establishes the representation (including the wrap of `end_` at the wrap point) -/
theorem popEnd_rep {L : Layout} {r : Ring} {o : Nat} {p : Pdu} {g : List (Nat × Pdu)}
    (h : Rep L r ((o, p) :: g)) :
    ∃ r', popEnd L r = some r' ∧ Rep L r' g ∧ r'.mem = r.mem ∧ r'.size = r.size ∧ r'.front = r.front := by
  have hlen := h.len
  rcases h.shape with ⟨_, _, h3⟩ | ⟨h1, h2, h3⟩ | ⟨h1, g1, g2, pw, hg, hg1, hg2, hc1, hpw, hmark, hc2⟩
  · cases h3
  · obtain ⟨ho, hw, hs, hc⟩ := h3
    obtain ⟨b, _, _, _, hpl⟩ := hs.head hw
    have hle := hc.le
    unfold popEnd
    rw [hpl]
    by_cases he : r.end_ + p.length = r.front
    · simp only [he, if_true]
      refine ⟨_, rfl, ⟨hlen, Or.inl ⟨rfl, h2, ?_⟩⟩, rfl, rfl, rfl⟩
      rw [he] at hc; exact hc.nil_of_eq
    · simp only [he, if_false]
      cases g with
      | nil => simp only [Chain] at hc; omega
      | cons y g =>
        obtain ⟨o', p'⟩ := y
        obtain ⟨ho', hw', hs', hc'⟩ := hc
        obtain ⟨b', hb', hb0', _, _⟩ := hs'.head hw'
        have := hw'.two_le
        have := hc'.le
        rw [if_neg (by omega), hb']
        simp only [hb0', if_false]
        exact ⟨_, rfl, ⟨hlen, Or.inr (Or.inl ⟨by simp; omega, h2, ho', hw', hs', hc'⟩)⟩, rfl, rfl, rfl⟩
  · cases g1 with
    | nil => exact absurd rfl hg1
    | cons x g1 =>
      simp only [List.cons_append, List.cons.injEq] at hg
      obtain ⟨hx, hg⟩ := hg
      subst hx
      obtain ⟨ho, hw, hs, hc⟩ := hc1
      obtain ⟨b, _, _, _, hpl⟩ := hs.head hw
      have hle := hc.le
      have hf2 := hc2.lt hg2
      have hfb := hc2.bound hg2
      unfold popEnd
      rw [hpl]
      simp only
      rw [if_neg (by omega)]
      cases g1 with
      | nil =>
        simp only [Chain] at hc
        simp only [List.nil_append] at hg
        subst hg
        rw [hc]
        rcases hmark with hm | hm
        · rw [if_pos hm]
          exact ⟨_, rfl, ⟨hlen, Or.inr (Or.inl ⟨by simp; omega, by simpa [hlen] using hfb, hc2⟩)⟩, rfl, rfl, rfl⟩
        · by_cases hsz : r.size ≤ pw + 1
          · rw [if_pos hsz]
            exact ⟨_, rfl, ⟨hlen, Or.inr (Or.inl ⟨by simp; omega, by simpa [hlen] using hfb, hc2⟩)⟩, rfl, rfl, rfl⟩
          · rw [if_neg hsz, hm]
            simp only [if_true]
            exact ⟨_, rfl, ⟨hlen, Or.inr (Or.inl ⟨by simp; omega, by simpa [hlen] using hfb, hc2⟩)⟩, rfl, rfl, rfl⟩
      | cons y g1 =>
        obtain ⟨o', p'⟩ := y
        obtain ⟨ho', hw', hs', hc'⟩ := hc
        obtain ⟨b', hb', hb0', _, _⟩ := hs'.head hw'
        have := hw'.two_le
        have := hc'.le
        rw [if_neg (by omega), hb']
        simp only [hb0', if_false]
        refine ⟨_, rfl, ⟨hlen, Or.inr (Or.inr ⟨by simp; omega, (o', p') :: g1, g2, pw, hg, by simp, hg2,
          ⟨ho', hw', hs', hc'⟩, hpw, hmark, hc2⟩)⟩, rfl, rfl, rfl⟩

/-! ### alloc_front -/

theorem allocFront_some {r : Ring} {n o : Nat} (h : allocFront r n = some o) :
    (r.front < r.end_ ∧ r.front + n < r.end_ ∧ o = r.front) ∨
    (r.end_ ≤ r.front ∧ r.front + n ≤ r.size ∧ o = r.front) ∨
    (r.end_ ≤ r.front ∧ r.size < r.front + n ∧ n < r.end_ ∧ o = 0) := by
  unfold allocFront at h
  split at h
  next hc => cases h; exact Or.inl ⟨hc.1, hc.2, rfl⟩
  next hc =>
    split at h
    next he =>
      split at h
      next hf => cases h; exact Or.inr (Or.inl ⟨he, hf, rfl⟩)
      next hf =>
        split at h
        next hb => cases h; exact Or.inr (Or.inr ⟨he, by omega, hb, rfl⟩)
        next => cases h
    next => cases h

end BluetoeModel.PduRing
