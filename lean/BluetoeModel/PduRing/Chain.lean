import BluetoeModel.PduRing.Lemmas
/-!
  `Seg`, `WF`, `Chain` and the representation relation `Rep` of the PDU ring (DESIGN Appendix A.2).
-/
namespace BluetoeModel.PduRing

/-- the storage holds the bytes `p` at offset `o` -/
def Seg (mem : List UInt8) (o : Nat) (p : Pdu) : Prop :=
  ∀ i, i < p.length → mem[o + i]? = p[i]?

/-- a committed PDU (in-memory image): length field `b ≠ 0` in byte 1 and exactly
    `data_channel_pdu_memory_size( b )` bytes long -/
def WF (L : Layout) (p : Pdu) : Prop :=
  ∃ b, p[1]? = some b ∧ b ≠ 0 ∧ p.length = L.memSize b.toNat

/-- consecutive PDUs from offset `a` up to offset `b`; the ghost list carries for every PDU the
    offset it was committed at and its bytes -/
def Chain (L : Layout) (mem : List UInt8) : Nat → Nat → List (Nat × Pdu) → Prop
  | a, b, [] => a = b
  | a, b, (o, p) :: g => o = a ∧ WF L p ∧ Seg mem a p ∧ Chain L mem (a + p.length) b g

/-- two extents do not intersect -/
def Disj (x y : Nat × Pdu) : Prop :=
  x.1 + x.2.length ≤ y.1 ∨ y.1 + y.2.length ≤ x.1

theorem WF.two_le {L : Layout} {p : Pdu} (h : WF L p) : 2 ≤ p.length := by
  obtain ⟨b, _, _, hl⟩ := h
  unfold Layout.memSize at hl; omega

theorem Seg.bound {mem : List UInt8} {o : Nat} {p : Pdu} (h : Seg mem o p) (hp : 0 < p.length) :
    o + p.length ≤ mem.length := by
  have := h (p.length - 1) (by omega)
  rw [List.getElem?_eq_getElem (by omega : p.length - 1 < p.length)] at this
  have hlt := (List.getElem?_eq_some_iff.mp this).1
  omega

theorem Seg.frame {mem mem' : List UInt8} {o : Nat} {p : Pdu} (h : Seg mem o p)
    (hf : ∀ i, o ≤ i → i < o + p.length → mem'[i]? = mem[i]?) : Seg mem' o p := by
  intro i hi
  rw [hf (o + i) (by omega) (by omega)]
  exact h i hi

/-- what the ring's own length computation reads at the start of a stored PDU -/
theorem Seg.head {L : Layout} {mem : List UInt8} {o : Nat} {p : Pdu} (hw : WF L p) (h : Seg mem o p) :
    ∃ b, mem[o + 1]? = some b ∧ b ≠ 0 ∧ p.length = L.memSize b.toNat ∧
      pduLength? L mem o = some p.length := by
  obtain ⟨b, hb, hb0, hl⟩ := hw
  have h2 : 2 ≤ p.length := by unfold Layout.memSize at hl; omega
  have h1 := h 1 (by omega)
  rw [hb] at h1
  have h0 := h 0 (by omega)
  rw [List.getElem?_eq_getElem (by omega : 0 < p.length)] at h0
  refine ⟨b, h1, hb0, hl, ?_⟩
  rw [hl]
  exact pduLength?_eq L h0 h1

theorem readAt?_seg {mem : List UInt8} {o : Nat} {p : Pdu} (h : Seg mem o p) (hb : o + p.length ≤ mem.length) :
    readAt? mem o p.length = some p := by
  unfold readAt?
  rw [if_pos hb]
  congr 1
  apply List.ext_getElem?
  intro i
  by_cases hi : i < p.length
  · rw [List.getElem?_take_of_lt hi, List.getElem?_drop]
    exact h i hi
  · rw [List.getElem?_eq_none (by simp; omega), List.getElem?_eq_none (by omega)]

theorem seg_of_readAt? {mem : List UInt8} {o n : Nat} {p : Pdu} (h : readAt? mem o n = some p) :
    Seg mem o p ∧ p.length = n := by
  unfold readAt? at h
  split at h
  next hb =>
    cases h
    have hl : ((mem.drop o).take n).length = n := by simp; omega
    refine ⟨?_, hl⟩
    intro i hi
    rw [hl] at hi
    rw [List.getElem?_take_of_lt hi, List.getElem?_drop]
  · cases h

theorem Chain.le {L : Layout} {mem : List UInt8} {a b : Nat} {g : List (Nat × Pdu)}
    (h : Chain L mem a b g) : a ≤ b := by
  induction g generalizing a with
  | nil => simp only [Chain] at h; omega
  | cons x g ih =>
    obtain ⟨o, p⟩ := x
    obtain ⟨_, _, _, hc⟩ := h
    have := ih hc; omega

theorem Chain.lt {L : Layout} {mem : List UInt8} {a b : Nat} {g : List (Nat × Pdu)}
    (h : Chain L mem a b g) (hg : g ≠ []) : a + 2 ≤ b := by
  cases g with
  | nil => exact absurd rfl hg
  | cons x g =>
    obtain ⟨o, p⟩ := x
    obtain ⟨_, hw, _, hc⟩ := h
    have := hc.le; have := hw.two_le; omega

theorem Chain.nil_of_eq {L : Layout} {mem : List UInt8} {a : Nat} {g : List (Nat × Pdu)}
    (h : Chain L mem a a g) : g = [] := by
  cases g with
  | nil => rfl
  | cons x g => have := h.lt (by simp); omega

theorem Chain.bound {L : Layout} {mem : List UInt8} {a b : Nat} {g : List (Nat × Pdu)}
    (h : Chain L mem a b g) (hg : g ≠ []) : b ≤ mem.length := by
  induction g generalizing a with
  | nil => exact absurd rfl hg
  | cons x g ih =>
    obtain ⟨o, p⟩ := x
    obtain ⟨_, hw, hs, hc⟩ := h
    cases g with
    | nil =>
      simp only [Chain] at hc
      have := hs.bound (by have := hw.two_le; omega); omega
    | cons y g => exact ih hc (by simp)

theorem Chain.frame {L : Layout} {mem mem' : List UInt8} {a b : Nat} {g : List (Nat × Pdu)}
    (h : Chain L mem a b g) (hf : ∀ i, a ≤ i → i < b → mem'[i]? = mem[i]?) : Chain L mem' a b g := by
  induction g generalizing a with
  | nil => exact h
  | cons x g ih =>
    obtain ⟨o, p⟩ := x
    obtain ⟨ho, hw, hs, hc⟩ := h
    have hle := hc.le
    refine ⟨ho, hw, hs.frame (fun i h1 h2 => hf i h1 (by omega)), ih hc (fun i h1 h2 => hf i (by omega) h2)⟩

theorem Chain.append {L : Layout} {mem : List UInt8} {a b c : Nat} {g g' : List (Nat × Pdu)}
    (h : Chain L mem a b g) (h' : Chain L mem b c g') : Chain L mem a c (g ++ g') := by
  induction g generalizing a with
  | nil => simp only [Chain] at h; subst h; exact h'
  | cons x g ih =>
    obtain ⟨o, p⟩ := x
    obtain ⟨ho, hw, hs, hc⟩ := h
    exact ⟨ho, hw, hs, ih hc⟩

theorem Chain.single {L : Layout} {mem : List UInt8} {o : Nat} {p : Pdu} (hw : WF L p) (hs : Seg mem o p) :
    Chain L mem o (o + p.length) [(o, p)] := ⟨rfl, hw, hs, rfl⟩

/-- every PDU of a chain lies inside `[a, b)` -/
theorem Chain.extent {L : Layout} {mem : List UInt8} {a b : Nat} {g : List (Nat × Pdu)}
    (h : Chain L mem a b g) : ∀ x ∈ g, a ≤ x.1 ∧ x.1 + x.2.length ≤ b ∧ WF L x.2 ∧ Seg mem x.1 x.2 := by
  induction g generalizing a with
  | nil => intro x hx; cases hx
  | cons y g ih =>
    obtain ⟨o, p⟩ := y
    obtain ⟨ho, hw, hs, hc⟩ := h
    intro x hx
    rcases List.mem_cons.mp hx with rfl | hx
    · subst ho; have := hc.le; exact ⟨Nat.le_refl _, by simpa using this, hw, hs⟩
    · have := ih hc x hx
      exact ⟨by omega, this.2.1, this.2.2⟩

theorem Chain.pairwise {L : Layout} {mem : List UInt8} {a b : Nat} {g : List (Nat × Pdu)}
    (h : Chain L mem a b g) : g.Pairwise Disj := by
  induction g generalizing a with
  | nil => exact List.Pairwise.nil
  | cons y g ih =>
    obtain ⟨o, p⟩ := y
    obtain ⟨ho, hw, hs, hc⟩ := h
    refine List.Pairwise.cons ?_ (ih hc)
    intro x hx
    have := (hc.extent x hx).1
    left; subst ho; simpa using this

/-- **representation relation**: ring `r` stores exactly the PDUs `g` (oldest first, each with the
    offset it lives at).  Three shapes, as in the comment in `ring_buffer.hpp`:
    empty (`front_ == end_`, anywhere in the storage), contiguous (`end_ < front_`), split
    (`front_ < end_`: PDUs from `end_` up to a wrap point `p`, where `end_` will find either the
    end of the storage or a wrap mark, followed by PDUs from offset 0 up to `front_`). -/
structure Rep (L : Layout) (r : Ring) (g : List (Nat × Pdu)) : Prop where
  len : r.mem.length = r.size
  shape :
    (r.front = r.end_ ∧ r.front ≤ r.size ∧ g = []) ∨
    (r.end_ < r.front ∧ r.front ≤ r.size ∧ Chain L r.mem r.end_ r.front g) ∨
    (r.front < r.end_ ∧ ∃ g1 g2 p, g = g1 ++ g2 ∧ g1 ≠ [] ∧ g2 ≠ [] ∧
        Chain L r.mem r.end_ p g1 ∧ p ≤ r.size ∧ (r.size ≤ p + 1 ∨ r.mem[p + 1]? = some 0) ∧
        Chain L r.mem 0 r.front g2)

end BluetoeModel.PduRing
