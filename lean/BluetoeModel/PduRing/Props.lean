import BluetoeModel.PduRing.Push
/-!
  # C18 — PDU ring buffers keep PDUs intact and in FIFO order

  "For any sequence of allocate/commit/peek/pop operations with any PDU sizes on a ring of any
  size and PDU layout, committed PDUs are returned in commit order with their bytes unchanged,
  live PDUs never overlap, nothing is written outside the ring's storage, and an allocation fails
  only when no contiguous space of the requested size is free under the ring's rules."

  The model (`Model.lean`) is `pdu_ring_buffer` with offsets for pointers and with every memory
  access checked (`Res.ub` = the ring read or wrote outside `[0, Size)` or failed an assert).
  `Rep L r g` (`Chain.lean`) says that ring `r` stores exactly the PDUs `g : List (offset × bytes)`,
  oldest first.  The theorems below hold for **every** ring size, every layout overhead, every
  initial content of the storage and every history; nothing is bounded.

  Callers have to keep the documented preconditions of the interface (`OpPre`): buffers of at
  least `data_channel_pdu_memory_size( 0 )` bytes, a committed PDU has a length field ≠ 0, fits
  into the allocated buffer and the caller writes only into that buffer; `pop_end` only on a
  non-empty ring.  Operations violating them are answered `Res.pre` (not executed).
-/
namespace BluetoeModel.PduRing

/-! ### the FIFO specification -/

inductive SpecOut where
  | alloc
  | committed (x : Nat × Pdu)
  | refused
  | peek (x : Option (Nat × Pdu))
  | popped
  | more (b : Bool)
deriving Repr, DecidableEq

/-- the PDU a `push` commits: where `alloc_front` placed the buffer and the bytes that stand
    there (header + payload, `memory_size( length field )` bytes) once the caller has written `data` -/
def commit (L : Layout) (r : Ring) (n : Nat) (data : List UInt8) : Option (Nat × Pdu) :=
  match allocFront r n, data[1]? with
  | some o, some l =>
    match writeAt? r.mem o data with
    | some m => (readAt? m o (L.memSize l.toNat)).map fun p => (o, p)
    | none => none
  | _, _ => none

/-- **The specification**: a plain FIFO list of committed PDUs.  It looks at the ring only to
    learn *which* PDU a push commits (`commit`); order, peek, pop and `more_than_one` are list
    operations. -/
def Spec.step (L : Layout) (r : Ring) (q : List (Nat × Pdu)) : Op → List (Nat × Pdu) × SpecOut
  | .alloc _ => (q, .alloc)
  | .push n data =>
      match commit L r n data with
      | some x => (q ++ [x], .committed x)
      | none => (q, .refused)
  | .peek => (q, .peek q.head?)
  | .pop => (q.tail, .popped)
  | .more => (q, .more (decide (2 ≤ q.length)))

/-- the ring's answer agrees with the specification's answer -/
def Agree : Out → SpecOut → Prop
  | .alloc _, .alloc => True
  | .pushed o _ _, .committed x => o = x.1
  | .full, .refused => True
  | .peek a, .peek b => a = b.map fun x => (x.1, x.2.length, x.2)   -- same position, same bytes
  | .popped _ _, .popped => True
  | .more a, .more b => a = b
  | _, _ => False

/-- documented preconditions of the interface, in terms of the specification's queue -/
def OpPre (L : Layout) (q : List (Nat × Pdu)) : Op → Prop
  | .alloc n => L.memSize 0 ≤ n
  | .push n data => pushPre L n data = true
  | .pop => q ≠ []
  | _ => True

/-- one operation: never out of bounds; refused as `pre` only if a precondition is violated;
    otherwise the answer of the FIFO specification and a ring that represents the new queue -/
def StepOk (L : Layout) (r : Ring) (q : List (Nat × Pdu)) (op : Op) : Prop :=
  match step L r op with
  | .ub => False
  | .pre => ¬ OpPre L q op
  | .ok r' out => Agree out (Spec.step L r q op).2 ∧ Rep L r' (Spec.step L r q op).1

/-- a whole history, ring and specification side by side (`pre` operations are not executed) -/
def AllOk (L : Layout) : Ring → List (Nat × Pdu) → List Op → Prop
  | _, _, [] => True
  | r, q, op :: ops =>
    match step L r op with
    | .ub => False
    | .pre => ¬ OpPre L q op ∧ AllOk L r q ops
    | .ok r' out => Agree out (Spec.step L r q op).2 ∧ AllOk L r' (Spec.step L r q op).1 ops

theorem pushPre_iff {L : Layout} {n : Nat} {data : List UInt8} :
    pushPre L n data = true ↔
      ∃ l, data[1]? = some l ∧ L.memSize 0 ≤ n ∧ data.length ≤ n ∧ l ≠ 0 ∧ L.memSize l.toNat ≤ n := by
  unfold pushPre
  cases data[1]? with
  | none => simp
  | some l => simp [and_assoc]

/-! ### per operation -/

/-- **push** (allocate + fill + commit) refines "append to the FIFO":
    if `alloc_front` refuses, nothing changes; otherwise the new ring represents the old queue
    followed by the committed PDU — in particular all older PDUs kept their position and bytes. -/
theorem push_refines {L : Layout} {r : Ring} {q : List (Nat × Pdu)} (h : Rep L r q) (n : Nat)
    (data : List UInt8) (hp : pushPre L n data = true) :
    (allocFront r n = none ∧ commit L r n data = none ∧ step L r (.push n data) = .ok r .full) ∨
    (∃ o p r', allocFront r n = some o ∧ commit L r n data = some (o, p) ∧
        step L r (.push n data) = .ok r' (.pushed o r'.front r'.end_) ∧ Rep L r' (q ++ [(o, p)]) ∧
        r'.size = r.size) := by
  obtain ⟨l, hl, hn0, hdn, hl0, hfit⟩ := pushPre_iff.mp hp
  cases ha : allocFront r n with
  | none =>
    left
    refine ⟨rfl, by simp [commit, ha], ?_⟩
    simp [step, hp, ha]
  | some o =>
    right
    have hob := alloc_in_bounds h ha
    obtain ⟨m, hm⟩ := writeAt?_isSome (mem := r.mem) (data := data) (o := o) (by rw [h.len]; omega)
    obtain ⟨r', p, hpf, hrd, hrep, hsz, _, _⟩ := pushFront_rep h ha hm hl hl0 hdn hfit
    refine ⟨o, p, r', rfl, by simp [commit, ha, hl, hm, hrd], ?_, hrep, hsz⟩
    simp [step, hp, ha, hm, hpf]

/-- **peek** (`next_end` + reading the buffer) returns the oldest committed PDU: the position it
    was committed at, its memory size and its bytes, unchanged -/
theorem peek_refines {L : Layout} {r : Ring} {q : List (Nat × Pdu)} (h : Rep L r q) :
    step L r .peek = .ok r (.peek (q.head?.map fun x => (x.1, x.2.length, x.2))) := by
  cases q with
  | nil => simp [step, nextEnd_rep_nil h]
  | cons x q =>
    obtain ⟨o, p⟩ := x
    obtain ⟨h1, h2⟩ := nextEnd_rep_cons h
    simp [step, h1, h2]

/-- **pop** removes exactly the oldest PDU; the storage is not touched, so all other PDUs stay -/
theorem pop_refines {L : Layout} {r : Ring} {x : Nat × Pdu} {q : List (Nat × Pdu)} (h : Rep L r (x :: q)) :
    ∃ r', step L r .pop = .ok r' (.popped r'.front r'.end_) ∧ Rep L r' q ∧ r'.mem = r.mem ∧
      r'.size = r.size := by
  obtain ⟨o, p⟩ := x
  obtain ⟨_, _, _, hne, _⟩ := h.head
  obtain ⟨r', hpop, hrep, hmem, hsz, _⟩ := popEnd_rep h
  exact ⟨r', by simp [step, hne, hpop], hrep, hmem, hsz⟩

/-- `pop_end` on an empty ring is the only way to violate its precondition -/
theorem pop_pre_iff {L : Layout} {r : Ring} {q : List (Nat × Pdu)} (h : Rep L r q) :
    step L r .pop = .pre ↔ q = [] := by
  constructor
  · intro hs
    cases q with
    | nil => rfl
    | cons x q => obtain ⟨r', hr, _⟩ := pop_refines h; rw [hr] at hs; cases hs
  · intro hq; subst hq
    have := h.empty_iff.mpr rfl
    simp [step, this]

/-- **more_than_one** answers whether at least two PDUs are committed -/
theorem more_refines {L : Layout} {r : Ring} {q : List (Nat × Pdu)} (h : Rep L r q) :
    step L r .more = .ok r (.more (decide (2 ≤ q.length))) := by
  simp [step, moreThanOne_rep h]

/-- one step of any kind (this is the simulation square) -/
theorem step_refines_fifo {L : Layout} {r : Ring} {q : List (Nat × Pdu)} (h : Rep L r q) (op : Op) :
    StepOk L r q op := by
  unfold StepOk
  cases op with
  | alloc n =>
    by_cases hn : n < L.memSize 0
    · simp only [step, hn, if_true, OpPre]; omega
    · simp only [step, hn, if_false, Spec.step, Agree]; exact ⟨trivial, h⟩
  | push n data =>
    by_cases hp : pushPre L n data = true
    · rcases push_refines h n data hp with ⟨_, hc, hs⟩ | ⟨o, p, r', _, hc, hs, hrep, _⟩
      · rw [hs]; simp only [Spec.step, hc, Agree]; exact ⟨trivial, h⟩
      · rw [hs]; simp only [Spec.step, hc, Agree]; exact ⟨trivial, hrep⟩
    · have : step L r (.push n data) = .pre := by simp [step, hp]
      rw [this]; exact hp
  | peek =>
    rw [peek_refines h]
    simp only [Spec.step, Agree]; exact ⟨trivial, h⟩
  | pop =>
    cases q with
    | nil =>
      rw [(pop_pre_iff h).mpr rfl]; simp [OpPre]
    | cons x q =>
      obtain ⟨r', hs, hrep, _⟩ := pop_refines h
      rw [hs]; simp only [Spec.step, Agree, List.tail_cons]; exact ⟨trivial, hrep⟩
  | more =>
    rw [more_refines h]
    simp only [Spec.step, Agree]; exact ⟨trivial, h⟩

/-! ### reset and whole histories -/

/-- `reset` works on every storage of at least two bytes (it writes a 2 byte wrap mark at
    offset 0) and yields the empty ring -/
theorem rep_reset {L : Layout} {size : Nat} {mem0 : List UInt8} (hl : mem0.length = size) (h2 : 2 ≤ size) :
    ∃ r, reset size mem0 = some r ∧ Rep L r [] ∧ r.size = size := by
  obtain ⟨m, hm⟩ := write16?_isSome (mem := mem0) (o := 0) 0 (by omega)
  refine ⟨{ size := size, mem := m, front := 0, end_ := 0 }, by simp [reset, hl, hm], ⟨?_, ?_⟩, rfl⟩
  · show m.length = size
    rw [write16?_length hm, hl]
  · exact Or.inl ⟨rfl, Nat.zero_le _, rfl⟩

theorem run_refines {L : Layout} {r : Ring} {q : List (Nat × Pdu)} (h : Rep L r q) (ops : List Op) :
    AllOk L r q ops := by
  induction ops generalizing r q with
  | nil => trivial
  | cons op ops ih =>
    have hs := step_refines_fifo h op
    unfold StepOk at hs
    unfold AllOk
    cases hst : step L r op with
    | ub => rw [hst] at hs; exact hs
    | pre => rw [hst] at hs; exact ⟨hs, ih h⟩
    | ok r' out => rw [hst] at hs; exact ⟨hs.1, ih hs.2⟩

/-- **C18, main theorem.** For every layout overhead, every storage of `size ≥ 2` bytes with any
    initial content and every history `ops`: starting from `reset`, the ring never accesses memory
    outside its storage (`Res.ub` does not occur), refuses an operation as `pre` only when the
    caller violated a documented precondition, and otherwise answers exactly like the FIFO list of
    committed PDUs: `peek` yields the oldest committed PDU at its commit position with its bytes
    unchanged, `pop` drops exactly that one, `more_than_one` is `2 ≤ length`. -/
theorem run_refines_fifo (L : Layout) (size : Nat) (mem0 : List UInt8) (hl : mem0.length = size)
    (h2 : 2 ≤ size) (ops : List Op) :
    ∃ r, reset size mem0 = some r ∧ AllOk L r [] ops := by
  obtain ⟨r, hr, hrep, _⟩ := rep_reset (L := L) hl h2
  exact ⟨r, hr, run_refines hrep ops⟩

/-! ### live PDUs: disjoint, in bounds, never overwritten -/

/-- "live PDUs never overlap" -/
theorem live_disjoint {L : Layout} {r : Ring} {q : List (Nat × Pdu)} (h : Rep L r q) :
    q.Pairwise Disj := by
  rcases h.shape with ⟨_, _, hq⟩ | ⟨_, _, hc⟩ | ⟨hlt, g1, g2, pw, hq, hg1, hg2, hc1, _, _, hc2⟩
  · subst hq; exact List.Pairwise.nil
  · exact hc.pairwise
  · subst hq
    rw [List.pairwise_append]
    refine ⟨hc1.pairwise, hc2.pairwise, ?_⟩
    intro a ha b hb
    have h1 := (hc1.extent a ha).1
    have h2 := (hc2.extent b hb).2.1
    right; omega

/-- every live PDU lies inside the storage, is well formed and stands in the storage with the
    bytes it was committed with -/
theorem live_in_bounds {L : Layout} {r : Ring} {q : List (Nat × Pdu)} (h : Rep L r q) :
    ∀ x ∈ q, x.1 + x.2.length ≤ r.size ∧ WF L x.2 ∧ Seg r.mem x.1 x.2 := by
  intro x hx
  have key : ∀ {a b : Nat} {g : List (Nat × Pdu)}, Chain L r.mem a b g → x ∈ g →
      x.1 + x.2.length ≤ r.size ∧ WF L x.2 ∧ Seg r.mem x.1 x.2 := by
    intro a b g hc hxg
    obtain ⟨_, _, hw, hs⟩ := hc.extent x hxg
    have := hs.bound (by have := hw.two_le; omega)
    exact ⟨by rw [← h.len]; exact this, hw, hs⟩
  rcases h.shape with ⟨_, _, hq⟩ | ⟨_, _, hc⟩ | ⟨_, g1, g2, pw, hq, _, _, hc1, _, _, hc2⟩
  · subst hq; cases hx
  · exact key hc hx
  · subst hq
    rcases List.mem_append.mp hx with hx | hx
    · exact key hc1 hx
    · exact key hc2 hx

/-- "nothing is written outside the ring's storage": no operation, valid or not, in any
    reachable state makes the ring access memory outside `[0, size)` or fail one of its asserts -/
theorem writes_in_bounds {L : Layout} {r : Ring} {q : List (Nat × Pdu)} (h : Rep L r q) (op : Op) :
    step L r op ≠ .ub := by
  have hs := step_refines_fifo h op
  unfold StepOk at hs
  intro e; rw [e] at hs; exact hs

/-- The only bytes a commit changes are inside the buffer `[o, o + n)` handed out by
    `alloc_front` and the two bytes of the wrap mark at the old `front_` (written only when the
    buffer was placed at the start of the storage); `peek`, `pop`, `more_than_one` and
    `alloc_front` do not change the storage at all. -/
theorem frame_outside_buffer_and_mark {L : Layout} {r r' : Ring} {q : List (Nat × Pdu)} (h : Rep L r q)
    (op : Op) (out : Out) (hs : step L r op = .ok r' out) :
    match op with
    | .push n _ =>
        r'.mem = r.mem ∨
        ∃ o, allocFront r n = some o ∧ o + n ≤ r.size ∧
          ∀ i, (i < o ∨ o + n ≤ i) → ¬ (r.front ≠ o ∧ (i = r.front ∨ i = r.front + 1)) → r'.mem[i]? = r.mem[i]?
    | _ => r'.mem = r.mem := by
  cases op with
  | alloc n =>
    simp only [step] at hs
    split at hs
    · cases hs
    · cases hs; rfl
  | peek => rw [peek_refines h] at hs; cases hs; rfl
  | more => rw [more_refines h] at hs; cases hs; rfl
  | pop =>
    cases q with
    | nil => rw [(pop_pre_iff h).mpr rfl] at hs; cases hs
    | cons x q =>
      obtain ⟨r'', hs', _, hmem, _⟩ := pop_refines h
      rw [hs'] at hs; cases hs; exact hmem
  | push n data =>
    by_cases hp : pushPre L n data = true
    · obtain ⟨l, hl, hn0, hdn, hl0, hfit⟩ := pushPre_iff.mp hp
      cases ha : allocFront r n with
      | none =>
        left
        have : step L r (.push n data) = .ok r .full := by simp [step, hp, ha]
        rw [this] at hs; cases hs; rfl
      | some o =>
        right
        have hob := alloc_in_bounds h ha
        obtain ⟨m, hm⟩ := writeAt?_isSome (mem := r.mem) (data := data) (o := o) (by rw [h.len]; omega)
        obtain ⟨r'', p, hpf, _, _, _, _, hframe⟩ := pushFront_rep h ha hm hl hl0 hdn hfit
        have : step L r (.push n data) = .ok r'' (.pushed o r''.front r''.end_) := by
          simp [step, hp, ha, hm, hpf]
        rw [this] at hs; cases hs
        exact ⟨o, ha, hob, hframe⟩
    · have : step L r (.push n data) = .pre := by simp [step, hp]
      rw [this] at hs; cases hs

/-! ### the allocation rule -/

/-- "an allocation fails only when no contiguous space of the requested size is free under the
    ring's rules" — the exact rule: with the PDUs split around the end of the storage
    (`front_ < end_`) the gap `end_ - front_` must be strictly larger than `n` (one byte stays free
    so that `front_ == end_` keeps meaning *empty*); otherwise `n` bytes must fit between `front_`
    and the end of the storage, or strictly before `end_` at the start of the storage. -/
theorem alloc_fails_iff (r : Ring) (n : Nat) :
    allocFront r n = none ↔
      if r.front < r.end_ then r.end_ ≤ r.front + n
      else r.size < r.front + n ∧ r.end_ ≤ n := by
  unfold allocFront
  by_cases h1 : r.front < r.end_
  · by_cases h2 : r.front + n < r.end_
    · simp [h1, h2]
    · simp only [h1, h2, and_false, if_false, if_true]
      rw [if_neg (by omega)]; simp; omega
  · simp only [h1, false_and, if_false]
    rw [if_pos (by omega)]
    by_cases h3 : r.front + n ≤ r.size
    · simp [h3]; omega
    · by_cases h4 : n < r.end_
      · simp [h3, h4]
      · simp [h3, h4]; omega

/-- where an allocation succeeds: at `front_`, or at the start of the storage when the ring is not
    split and the buffer does not fit behind `front_` -/
theorem alloc_position {r : Ring} {n o : Nat} (h : allocFront r n = some o) :
    o = r.front ∨ (o = 0 ∧ r.end_ ≤ r.front ∧ r.size < r.front + n) := by
  rcases allocFront_some h with ⟨_, _, e⟩ | ⟨_, _, e⟩ | ⟨a, b, _, e⟩
  · exact Or.inl e
  · exact Or.inl e
  · exact Or.inr ⟨e, a, b⟩

/-- a buffer handed out by `alloc_front` lies inside the storage and intersects no live PDU
    (so whatever the caller writes there cannot damage a committed PDU) -/
theorem alloc_region_free {L : Layout} {r : Ring} {q : List (Nat × Pdu)} {n o : Nat} (h : Rep L r q)
    (ha : allocFront r n = some o) :
    o + n ≤ r.size ∧ ∀ x ∈ q, x.1 + x.2.length ≤ o ∨ o + n ≤ x.1 := by
  refine ⟨alloc_in_bounds h ha, ?_⟩
  intro x hx
  rcases h.shape with ⟨_, _, hq⟩ | ⟨hlt, _, hc⟩ | ⟨hlt, g1, g2, pw, hq, _, _, hc1, _, _, hc2⟩
  · subst hq; cases hx
  · obtain ⟨e1, e2, _⟩ := hc.extent x hx
    rcases allocFront_some ha with ⟨a1, a2, a3⟩ | ⟨a1, a2, a3⟩ | ⟨a1, a2, a3, a4⟩ <;> omega
  · subst hq
    rcases allocFront_some ha with ⟨a1, a2, a3⟩ | ⟨a1, a2, a3⟩ | ⟨a1, a2, a3, a4⟩
    · rcases List.mem_append.mp hx with hx | hx
      · have := (hc1.extent x hx).1; omega
      · have := (hc2.extent x hx).2.1; omega
    · omega
    · omega

/-! ### non-vacuity and concrete behaviour -/

/-- executable: run a history from `reset`, collecting the results -/
def runOuts (L : Layout) (r : Ring) : List Op → List Res
  | [] => []
  | op :: ops =>
    match step L r op with
    | .ok r' o => .ok r' o :: runOuts L r' ops
    | x => x :: runOuts L r ops

def outsOnly : List Res → List (Option Out) := List.map fun
  | .ok _ o => some o
  | _ => none

/-- `Rep` is satisfiable by a non-trivial state: a 12 byte ring (default layout) in *split* shape
    after the history push 5, push 5, pop, push 4: the third PDU wrapped to the start of the
    storage, the second is still live behind it.  The answers are the FIFO answers. -/
example :
    (reset 12 (List.replicate 12 0xAA)).map (fun r => outsOnly (runOuts ⟨0⟩ r
      [.push 5 [1, 3, 10, 11, 12], .push 5 [2, 3, 20, 21, 22], .pop, .push 4 [3, 2, 30, 31], .more, .peek,
       .alloc 4, .pop, .peek])) =
    some [some (.pushed 0 5 0), some (.pushed 5 10 0), some (.popped 10 5), some (.pushed 0 4 5),
      some (.more true), some (.peek (some (5, 5, [2, 3, 20, 21, 22]))), some (.alloc none),
      some (.popped 4 0), some (.peek (some (0, 4, [3, 2, 30, 31])))] := by
  decide

/-- the hypotheses of the per-operation theorems (`Rep`) hold in that state: a ring in *split*
    shape holding two PDUs, the older one behind the younger one, wrap mark at offset 10 -/
example : Rep ⟨0⟩ { size := 12, mem := [3, 2, 30, 31, 0xAA, 2, 3, 20, 21, 22, 0, 0], front := 4, end_ := 5 }
    [(5, [2, 3, 20, 21, 22]), (0, [3, 2, 30, 31])] := by
  refine ⟨rfl, Or.inr (Or.inr ⟨by decide, [(5, [2, 3, 20, 21, 22])], [(0, [3, 2, 30, 31])], 10, rfl, by simp, by simp,
    ?_, by decide, Or.inr (by decide), ?_⟩)⟩
  · exact ⟨rfl, ⟨3, by decide, by decide, by decide⟩, by unfold Seg; decide, rfl⟩
  · exact ⟨rfl, ⟨2, by decide, by decide, by decide⟩, by unfold Seg; decide, rfl⟩

/-- Observation (not part of C18's statement): contrary to the class comment ("when the ring
    buffer is empty it is guaranteed that the buffer can store one element of at least Size - 1"),
    an *empty* ring whose pointers rest in the middle of the storage refuses a buffer that is larger
    than both remainders: size 29, after push 14 / pop the empty ring refuses 20 bytes. -/
theorem empty_ring_midbuffer_refuses :
    (reset 29 (List.replicate 29 0)).map (fun r => outsOnly (runOuts ⟨0⟩ r
      [.push 14 [1, 12, 0, 0, 0, 0, 0, 0, 0, 0, 0, 0, 0, 0], .pop, .peek, .alloc 20, .alloc 15, .alloc 13])) =
    some [some (.pushed 0 14 0), some (.popped 14 14), some (.peek none), some (.alloc none),
      some (.alloc (some 14)), some (.alloc (some 14))] := by
  decide

end BluetoeModel.PduRing
