import BluetoeModel.PduRing.Pop
/-!
  `alloc_front` + caller's write + `push_front` against the representation relation.
-/
namespace BluetoeModel.PduRing

theorem pushFront_eq {L : Layout} {r : Ring} {o n ms : Nat} {m' : List UInt8}
    (h1 : pduLength? L r.mem o = some ms) (hn : ms ≤ n)
    (hm : (if r.front ≠ o ∧ r.front + 1 < r.size then write16? r.mem r.front 0 else some r.mem) = some m')
    (h2 : pduLength? L m' o = some ms) :
    pushFront L r o n =
      some { r with mem := m', front := o + ms, end_ := if r.front = r.end_ then o else r.end_ } := by
  unfold pushFront
  simp only [h1]
  rw [if_neg (by omega)]
  simp only [hm, h2]

/-- where `alloc_front` can place a buffer, given the representation: always inside the storage -/
theorem alloc_in_bounds {L : Layout} {r : Ring} {g : List (Nat × Pdu)} {n o : Nat}
    (h : Rep L r g) (ha : allocFront r n = some o) : o + n ≤ r.size := by
  rcases allocFront_some ha with ⟨h1, h2, h3⟩ | ⟨h1, h2, h3⟩ | ⟨h1, h2, h3, h4⟩
  · rcases h.shape with ⟨e, _, _⟩ | ⟨e, _, _⟩ | ⟨_, g1, g2, pw, _, hg1, _, hc1, hpw, _, _⟩
    · omega
    · omega
    · have := hc1.lt hg1; omega
  · omega
  · rcases h.shape with ⟨e, hs, _⟩ | ⟨e, hs, _⟩ | ⟨e, _⟩ <;> omega

/-- The commit of a PDU: the caller got `[o, o + n)` from `alloc_front`, wrote `data` there
    (at least the header, length field `l ≠ 0`, the PDU fits into the `n` bytes) and calls
    `push_front`.  The ring then represents the old PDUs followed by the new one; the new PDU is
    what the storage holds at `o` after the caller's write. -/
theorem pushFront_rep {L : Layout} {r : Ring} {g : List (Nat × Pdu)} {n o : Nat} {data m : List UInt8}
    {l : UInt8} (h : Rep L r g) (ha : allocFront r n = some o) (hw : writeAt? r.mem o data = some m)
    (hl : data[1]? = some l) (hl0 : l ≠ 0) (hdn : data.length ≤ n) (hfit : L.memSize l.toNat ≤ n) :
    ∃ r' p, pushFront L { r with mem := m } o n = some r' ∧
      readAt? m o (L.memSize l.toNat) = some p ∧ Rep L r' (g ++ [(o, p)]) ∧ r'.size = r.size ∧
      r'.front = o + L.memSize l.toNat ∧
      (∀ i, (i < o ∨ o + n ≤ i) → ¬ (r.front ≠ o ∧ (i = r.front ∨ i = r.front + 1)) → r'.mem[i]? = r.mem[i]?) := by
  have hlen := h.len
  have hmlen : m.length = r.size := by rw [writeAt?_length hw, hlen]
  have hob := alloc_in_bounds h ha
  have hms2 : 2 ≤ L.memSize l.toNat := by unfold Layout.memSize; omega
  have hd2 : 2 ≤ data.length := by
    have := (List.getElem?_eq_some_iff.mp hl).1; omega
  -- the storage after the caller's write
  have hout : ∀ i, (i < o ∨ o + n ≤ i) → m[i]? = r.mem[i]? :=
    fun i hi => writeAt?_get_out hw i (by omega)
  have hm1 : m[o + 1]? = some l := by rw [writeAt?_get_in hw 1 (by omega), hl]
  obtain ⟨d0, hd0⟩ : ∃ d0, m[o]? = some d0 := by
    have := writeAt?_get_in hw 0 (by omega)
    rw [List.getElem?_eq_getElem (by omega : 0 < data.length)] at this
    exact ⟨_, this⟩
  have hpl : pduLength? L m o = some (L.memSize l.toNat) := pduLength?_eq L hd0 hm1
  -- the new PDU as it stands in the storage
  obtain ⟨p, hp⟩ : ∃ p, readAt? m o (L.memSize l.toNat) = some p := by
    unfold readAt?; rw [if_pos (by omega)]; exact ⟨_, rfl⟩
  obtain ⟨hseg, hplen⟩ := seg_of_readAt? hp
  have hwf : WF L p := by
    refine ⟨l, ?_, hl0, hplen⟩
    rw [← hseg 1 (by omega), hm1]
  rcases allocFront_some ha with ⟨a1, a2, a3⟩ | ⟨a1, a2, a3⟩ | ⟨a1, a2, a3, a4⟩
  · -- split shape, buffer in the gap between front_ and end_
    subst a3
    have hmk : (if ({ r with mem := m } : Ring).front ≠ r.front ∧ ({ r with mem := m } : Ring).front + 1 < ({ r with mem := m } : Ring).size
        then write16? ({ r with mem := m } : Ring).mem ({ r with mem := m } : Ring).front 0 else some ({ r with mem := m } : Ring).mem) = some m := by
      simp
    refine ⟨_, p, pushFront_eq hpl hfit hmk hpl, hp, ?_, rfl, rfl, ?_⟩
    · rcases h.shape with ⟨e, _, _⟩ | ⟨e, _, _⟩ | ⟨e, g1, g2, pw, hg, hg1, hg2, hc1, hpw, hmark, hc2⟩
      · omega
      · omega
      · have hlt1 := hc1.lt hg1
        refine ⟨hmlen, Or.inr (Or.inr ⟨by simp; split <;> omega, g1, g2 ++ [(r.front, p)], pw, by simp [hg], hg1, by simp,
          ?_, hpw, ?_, ?_⟩)⟩
        · simp only [show (r.front = r.end_) = False from by simp; omega, if_false]
          exact hc1.frame (fun i h1 h2 => hout i (by omega))
        · rcases hmark with hm | hm
          · exact Or.inl hm
          · right; show m[pw + 1]? = some 0
            rw [hout (pw + 1) (by omega)]; exact hm
        · show Chain L m 0 (r.front + L.memSize l.toNat) (g2 ++ [(r.front, p)])
          refine (hc2.frame (fun i h1 h2 => hout i (by omega))).append ?_
          rw [← hplen]; exact Chain.single hwf hseg
    · intro i hi _; exact hout i hi
  · -- empty or contiguous shape, buffer at front_ (fits before the end of the storage)
    subst a3
    have hmk : (if ({ r with mem := m } : Ring).front ≠ r.front ∧ ({ r with mem := m } : Ring).front + 1 < ({ r with mem := m } : Ring).size
        then write16? ({ r with mem := m } : Ring).mem ({ r with mem := m } : Ring).front 0 else some ({ r with mem := m } : Ring).mem) = some m := by
      simp
    refine ⟨_, p, pushFront_eq hpl hfit hmk hpl, hp, ?_, rfl, rfl, ?_⟩
    · rcases h.shape with ⟨e, hs, hg⟩ | ⟨e, hs, hc⟩ | ⟨e, _⟩
      · subst hg
        refine ⟨hmlen, Or.inr (Or.inl ⟨by simp [e]; omega, by simp; omega, ?_⟩)⟩
        simp only [e, if_true, List.nil_append]
        rw [← e, ← hplen]; exact Chain.single hwf hseg
      · refine ⟨hmlen, Or.inr (Or.inl ⟨by simp; split <;> omega, by simp; omega, ?_⟩)⟩
        simp only [show (r.front = r.end_) = False from by simp; omega, if_false]
        refine (hc.frame (fun i h1 h2 => hout i (by omega))).append ?_
        rw [← hplen]; exact Chain.single hwf hseg
      · omega
    · intro i hi _; exact hout i hi
  · -- empty or contiguous shape, no room at the end: buffer at the start of the storage, wrap mark at front_
    subst a4
    have hfs : r.front ≤ r.size := by
      rcases h.shape with ⟨e, hs, _⟩ | ⟨e, hs, _⟩ | ⟨e, _⟩ <;> omega
    have hne : r.front ≠ 0 := by omega
    -- the storage after the (conditional) wrap mark
    obtain ⟨m', hm', hm'len, hm'out, hm'mark⟩ : ∃ m', (if r.front ≠ 0 ∧ r.front + 1 < r.size then write16? m r.front 0 else some m) = some m' ∧
        m'.length = r.size ∧ (∀ i, i ≠ r.front → i ≠ r.front + 1 → m'[i]? = m[i]?) ∧
        (r.size ≤ r.front + 1 ∨ m'[r.front + 1]? = some 0) := by
      by_cases hc : r.front + 1 < r.size
      · obtain ⟨m', hm'⟩ := write16?_isSome (mem := m) (o := r.front) 0 (by omega)
        refine ⟨m', by rw [if_pos ⟨hne, hc⟩]; exact hm', by rw [write16?_length hm', hmlen],
          fun i h0 h1 => write16?_get hm' i h0 h1, Or.inr (write16?_zero_get1 hm')⟩
      · refine ⟨m, by rw [if_neg (by omega)], hmlen, fun _ _ _ => rfl, Or.inl (by omega)⟩
    have hseg' : Seg m' 0 p := hseg.frame (fun i h1 h2 => hm'out i (by omega) (by omega))
    have hpl' : pduLength? L m' 0 = some (L.memSize l.toNat) := by
      have e0 : m'[0]? = some d0 := by rw [hm'out 0 (by omega) (by omega)]; exact hd0
      have e1 : m'[0 + 1]? = some l := by rw [hm'out (0 + 1) (by omega) (by omega)]; exact hm1
      exact pduLength?_eq L e0 e1
    have hmk : (if ({ r with mem := m } : Ring).front ≠ 0 ∧ ({ r with mem := m } : Ring).front + 1 < ({ r with mem := m } : Ring).size
        then write16? ({ r with mem := m } : Ring).mem ({ r with mem := m } : Ring).front 0 else some ({ r with mem := m } : Ring).mem) = some m' := hm'
    have hnew : Chain L m' 0 (0 + L.memSize l.toNat) [(0, p)] := by
      rw [← hplen]; exact Chain.single hwf hseg'
    refine ⟨_, p, pushFront_eq hpl hfit hmk hpl', hp, ?_, rfl, rfl, ?_⟩
    · rcases h.shape with ⟨e, hs, hg⟩ | ⟨e, hs, hc⟩ | ⟨e, _⟩
      · subst hg
        refine ⟨hm'len, Or.inr (Or.inl ⟨by simp [e]; omega, by simp; omega, ?_⟩)⟩
        simp only [e, if_true, List.nil_append]
        exact hnew
      · have hgne : g ≠ [] := by
          intro hg; subst hg; simp only [Chain] at hc; omega
        refine ⟨hm'len, Or.inr (Or.inr ⟨by simp; split <;> omega, g, [(0, p)], r.front, rfl, hgne, by simp,
          ?_, hfs, hm'mark, hnew⟩)⟩
        simp only [show (r.front = r.end_) = False from by simp; omega, if_false]
        exact hc.frame (fun i h1 h2 => by rw [hm'out i (by omega) (by omega)]; exact hout i (by omega))
      · omega
    · intro i hi hmarkpos
      show m'[i]? = r.mem[i]?
      rw [hm'out i (by omega) (by omega)]; exact hout i hi

end BluetoeModel.PduRing
