import BluetoeModel.Csc.Lemmas
/-!
  # C40 — Cycling speed control point never deadlocks

  "The cycling speed and cadence control point rejects a new procedure only while a previously
  accepted procedure awaits its response indication; a rejected or malformed write never blocks
  later procedures, and every accepted procedure produces exactly one response with the request
  opcode."  — over all control point write / indication sequences with any opcode and length.

  Vocabulary (Lemmas.lean): `Obs` is what a client can tell from the operations and their results
  alone — `pending` ("a previously accepted procedure awaits its response indication"), `reqs`
  (opcodes of the accepted procedures), `resps` (request opcodes named by the response indications
  sent so far).  `Reach s g` are the states `s` of the real control point (as modelled) reachable by
  any in-scope history, paired with the observer's summary `g` of that history; in scope (`Legal`)
  is every write (any bytes), every `l2cap_output`, every confirmation, and the user handler calling
  `confirm_cumulative_wheel_revolutions` when (and only when) it owes the confirmation of a
  `set_cumulative_wheel_revolutions` call; the control point stays configured for indications.

  The theorems hold for the code with `fixes/csc-01-malformed-write-wedges-control-point.patch`
  (the code as found leaves `procedure_in_progress_` set after a malformed write; the check replays
  that on the real code: corpus/C40/malformed-then-wellformed.ops).
-/
namespace BluetoeModel.Csc

/-- a well-formed procedure request: opcode plus exactly the parameters the opcode takes; unknown
    opcodes are well-formed requests (they are answered "op code not supported" by indication) -/
def WellFormed : List UInt8 → Prop
  | [] => False
  | op :: ps =>
    if op = opSetCumulative then ps.length = 4
    else if op = opRequestLocations then ps.length = 0
    else if op = opUpdateLocation then ps.length = 1
    else True

instance : DecidablePred WellFormed := fun v => by
  cases v with
  | nil => exact isFalse (fun h => h)
  | cons op ps => simp only [WellFormed]; infer_instance

/-- legality-checked execution of a history, for the non-vacuity examples -/
def runObs (s : Sys) (g : Obs) : List Op → Option (Sys × Obs)
  | [] => some (s, g)
  | op :: ops => if Legal g op then runObs (step s op).1 (g.observe op (step s op).2) ops else none

theorem runObs_reach {s g} (r : Reach s g) : ∀ {ops s' g'}, runObs s g ops = some (s', g') → Reach s' g' := by
  intro ops
  induction ops generalizing s g with
  | nil => intro s' g' h; simp only [runObs, Option.some.injEq, Prod.mk.injEq] at h; rw [← h.1, ← h.2]; exact r
  | cons op ops ih =>
    intro s' g' h
    simp only [runObs] at h
    split at h
    · next hl => exact ih (Reach.step op r hl) h
    · exact absurd h (by simp)

/-! ## Clause 1: "rejects a new procedure only while a previously accepted procedure awaits its
    response indication" -/

/-- After every in-scope history: a write is answered *Procedure Already In Progress* (0xFE)
    **iff** an accepted procedure still awaits its response indication (and the write is not empty:
    an empty write is answered 0x01 before the handler looks at anything). -/
theorem rejected_only_while_pending {s : Sys} {g : Obs} (r : Reach s g) (v : List UInt8) :
    (step s (.write v)).2 = .err procedureAlreadyInProgress ↔ (g.pending = true ∧ v ≠ []) := by
  have h := r.inv
  have hcc : s.cccd = true := h.cccd
  have hp : s.cp.inProgress = g.pending := h.prog
  simp only [step, write, hcc, Bool.not_true, Bool.false_eq_true, if_false]
  cases v with
  | nil => simp [cpWrite, invalidHandle, procedureAlreadyInProgress]
  | cons op ps =>
    cases hpp : g.pending with
    | true =>
      rw [hpp] at hp
      simp [cpWrite, hp, procedureAlreadyInProgress]
    | false =>
      rw [hpp] at hp
      have hs := cpWrite_shape s.cp op ps hp
      generalize cpWrite s.cp (op :: ps) = w at hs ⊢
      cases hs with
      | malformed hc _ _ _ => simp [hc, invalidPdu, procedureAlreadyInProgress]
      | deferred _ hc _ _ _ => simp [hc]
      | immediate _ hc _ _ _ _ => simp [hc]

example : ∃ s g, Reach s g ∧ g.pending = true ∧
    (step s (.write [4])).2 = .err procedureAlreadyInProgress :=
  ⟨_, _, runObs_reach (.init [1, 2, 3]) (ops := [.write [1, 0, 0, 0, 0], .output]) rfl, by decide, by decide⟩

/-- the positive side of clause 1: with no procedure pending every well-formed request is
    accepted — whatever happened before (in particular after any number of malformed or rejected
    writes) -/
theorem wellformed_accepted_when_idle {s : Sys} {g : Obs} (r : Reach s g) (v : List UInt8)
    (hidle : g.pending = false) (hw : WellFormed v) : (step s (.write v)).2 = .ok := by
  have h := r.inv
  have hcc : s.cccd = true := h.cccd
  have hp : s.cp.inProgress = false := by rw [← hidle]; exact h.prog
  cases v with
  | nil => exact absurd hw (fun h => h)
  | cons op ps =>
    simp only [WellFormed] at hw
    simp only [step, write, hcc, Bool.not_true, Bool.false_eq_true, if_false, cpWrite, hp]
    have n1 : opRequestLocations ≠ opSetCumulative := by decide
    have n2 : opUpdateLocation ≠ opSetCumulative := by decide
    have n3 : opUpdateLocation ≠ opRequestLocations := by decide
    split at hw
    · next e =>
      match ps, hw with
      | [a, b, c, d], _ => simp [e]
    · split at hw
      · next e1 e =>
        match ps, hw with
        | [], _ => simp [e, n1]
      · split at hw
        · next e1 e2 e =>
          match ps, hw with
          | [p], _ => simp [e, n2, n3]
        · next e1 e2 e3 => simp [e1, e2, e3]

example : ∃ s g, Reach s g ∧ g.pending = false ∧ g.reqs ≠ [] ∧ WellFormed [3, 2] :=
  ⟨_, _, runObs_reach (.init [1, 2, 3])
    (ops := [.write [1, 0, 0, 0, 0], .write [1, 7], .confirm, .output, .write [1], .write []]) rfl,
    by decide, by decide, by decide⟩

/-! ## Clause 2: "a rejected or malformed write never blocks later procedures" -/

/-- In **every** state (reachable or not), a write that is answered with an error — empty,
    malformed, rejected because a procedure is in progress, or not configured — does not change
    the answer to any later write. -/
theorem malformed_never_blocks (s : Sys) (v v' : List UInt8) (herr : (step s (.write v)).2 ≠ .ok) :
    (step (step s (.write v)).1 (.write v')).2 = (step s (.write v')).2 := by
  have h := write_err_keeps s v herr
  exact write_out_indep _ _ v' h.1 h.2

example : (step (Sys.init []) (.write [1, 2])).2 ≠ .ok := by decide

/-- Observer form: a write answered with an error never creates a pending procedure and does not
    change the observer's summary at all (so with `rejected_only_while_pending` /
    `wellformed_accepted_when_idle` it cannot be the cause of a later rejection). -/
theorem error_write_unobserved (g : Obs) (v : List UInt8) (c : UInt8) :
    g.observe (.write v) (.err c) = g := by
  cases v <;> rfl

/-- Direct form: after an in-scope history with nothing pending, a malformed / rejected write
    followed by a well-formed request: the request is accepted. -/
theorem accepted_after_malformed {s : Sys} {g : Obs} (r : Reach s g) (v v' : List UInt8)
    (hidle : g.pending = false) (herr : (step s (.write v)).2 ≠ .ok) (hw : WellFormed v') :
    (step (step s (.write v)).1 (.write v')).2 = .ok := by
  rw [malformed_never_blocks s v v' herr]
  exact wellformed_accepted_when_idle r v' hidle hw

example : ∃ s g, Reach s g ∧ g.pending = false ∧ (step s (.write [1, 2])).2 ≠ .ok ∧ WellFormed [4] :=
  ⟨_, _, .init [], rfl, by decide, by decide⟩

/-! ## Clause 3: "every accepted procedure produces exactly one response with the request opcode" -/

/-- Safety: after every in-scope history the response indications sent so far name, in order,
    exactly the opcodes of the accepted procedures — none twice, none invented — except for the
    single pending procedure (if any) whose response is still to come. -/
theorem one_response_per_accepted {s : Sys} {g : Obs} (r : Reach s g) :
    ∃ rest, g.reqs.map some = g.resps ++ rest ∧ rest.length = (if g.pending then 1 else 0) := by
  have h := r.inv
  cases hp : g.pending with
  | true =>
    obtain ⟨op, -, e⟩ := h.cur hp
    exact ⟨[some op], e, rfl⟩
  | false => exact ⟨[], by simpa using h.done hp, rfl⟩

/-- the uninitialised `current_opcode_` is never read -/
theorem no_uninit_read {s : Sys} {g : Obs} (r : Reach s g) (op : Op) (_ : Legal g op) :
    (step s op).2 ≠ .uninit := by
  have h := r.inv
  cases op with
  | write v =>
    simp only [step]
    cases write_out_cases s v with
    | inl e => rw [e]; simp
    | inr e => obtain ⟨c, e⟩ := e; rw [e]; simp
  | output =>
    simp only [step]
    cases hc : (s.queued && !s.outstanding) with
    | false => rw [output_idle s hc]; simp
    | true =>
      simp only [Bool.and_eq_true, Bool.not_eq_true'] at hc
      obtain ⟨op, hop, -⟩ := h.cur (h.queued hc.1)
      obtain ⟨v, hv, -, -⟩ := cpRead_spec s.cp (mtu - 3) op hop
      rw [output_emits s hc.1 hc.2 h.cccd v hv]; simp
  | confirm => simp [step]
  | ack => simp [step]
  | cccd on => simp [step]
  | wheel => simp [step]
  | reconnect => simp [step]

/-- Progress ("produces"): whenever a procedure is pending, the environment can always obtain its
    response — the handler's confirmation if it is still owed, the client's confirmation of an
    earlier indication, one `l2cap_output` — and that output is the response indication naming the
    pending request's opcode. Nothing the client wrote before can prevent this. -/
def finish (g : Obs) : List Op := (if g.owed then [Op.confirm] else []) ++ [Op.ack, Op.output]

theorem pending_response_enabled {s : Sys} {g : Obs} (r : Reach s g) (hp : g.pending = true) :
    ∃ op v, g.reqs.getLast? = some op ∧ (run s (finish g)).2.getLast? = some (.ind v) ∧
      respOpcode v = some op := by
  have h := r.inv
  obtain ⟨op, hop, hreqs⟩ := h.cur hp
  obtain ⟨v, hv, hresp, -⟩ := cpRead_spec s.cp (mtu - 3) op hop
  have hlast : g.reqs.getLast? = some op := by
    have := congrArg List.getLast? hreqs
    simp only [List.getLast?_map, List.getLast?_append, List.getLast?_singleton, Option.some_or] at this
    cases hl : g.reqs.getLast? with
    | none => simp [hl] at this
    | some x => simpa [hl] using this
  refine ⟨op, v, hlast, ?_, hresp⟩
  have hcc : s.cccd = true := h.cccd
  cases ho : g.owed with
  | true =>
    let s1 : Sys := { s with queued := true, outstanding := false }
    have e := output_emits s1 rfl rfl hcc v hv
    simp only [finish, ho, if_true, List.cons_append, List.nil_append, run, step]
    rw [e]; rfl
  | false =>
    have hq : s.queued = true := by
      cases h.onway hp with
      | inl h1 => simp [ho] at h1
      | inr h2 => exact h2
    let s1 : Sys := { s with outstanding := false }
    have e := output_emits s1 hq rfl hcc v hv
    simp only [finish, ho, Bool.false_eq_true, if_false, List.nil_append, run, step]
    rw [e]; rfl

example : ∃ s g, Reach s g ∧ g.pending = true ∧ g.owed = true :=
  ⟨_, _, runObs_reach (.init []) (ops := [.write [9, 9], .output, .write [1, 0, 0, 0, 0]]) rfl,
    by decide, by decide⟩

/-! ## Outside the scope above: "never deadlocks" when the client may clear the CCCD or the link is
    lost. The theorems above hold for histories in which the control point stays configured for
    indications on one connection (`Legal`). Without that restriction the control point wedges for
    good (known findings `C40:wedged:cccd-cleared-while-response-queued`,
    `C40:wedged:disconnect-while-procedure-pending`). -/

/-- histories restricted by the handler contract only: the client may clear the CCCD, the link
    may be lost -/
def LegalAll (g : Obs) : Op → Prop
  | .confirm => g.owed = true
  | _ => True

inductive ReachAll : Sys → Obs → Prop where
  | init (locs : List UInt8) : ReachAll (Sys.init locs) Obs.init
  | step {s g} (op : Op) : ReachAll s g → LegalAll g op → ReachAll (step s op).1 (g.observe op (step s op).2)

/-- what client and link layer can do to get the control point going again: configure indications,
    confirm whatever indication is outstanding, let the link layer send -/
def ClientOp : Op → Prop
  | .cccd true => True
  | .ack => True
  | .output => True
  | _ => False

/-- the control point is usable again after some client / link layer activity: a well-formed
    Request Supported Sensor Locations is accepted -/
def Recovers (s : Sys) : Prop :=
  ∃ rec : List Op, (∀ op ∈ rec, ClientOp op) ∧ (step (run s rec).1 (.write [opRequestLocations])).2 = .ok

/-- "never deadlocks", for every history that respects the handler contract -/
def never_deadlocks_full : Prop := ∀ s g, ReachAll s g → Recovers s

/-- a state with a procedure in progress and no response queued stays like that under everything
    client and link layer can do; every request is refused -/
theorem wedged_for_ever (s : Sys) (h1 : s.cp.inProgress = true) (h2 : s.queued = false) : ¬ Recovers s := by
  intro ⟨rec, hrec, hw⟩
  have key : ∀ (rec : List Op) (s : Sys), s.cp.inProgress = true → s.queued = false → (∀ op ∈ rec, ClientOp op) →
      (run s rec).1.cp.inProgress = true ∧ (run s rec).1.queued = false := by
    intro rec
    induction rec with
    | nil => intro s a b _; exact ⟨a, b⟩
    | cons op ops ih =>
      intro s a b hops
      have hop := hops op (List.mem_cons_self ..)
      have hrest : ∀ o ∈ ops, ClientOp o := fun o ho => hops o (List.mem_cons_of_mem _ ho)
      simp only [run]
      cases op with
      | cccd on => exact ih _ a b hrest
      | ack => exact ih _ a b hrest
      | output =>
        have : step s .output = (s, .nothing) := by simp [step, output, b]
        rw [this]; exact ih _ a b hrest
      | write v => exact absurd hop (fun x => x)
      | confirm => exact absurd hop (fun x => x)
      | wheel => exact absurd hop (fun x => x)
      | reconnect => exact absurd hop (fun x => x)
  obtain ⟨a, b⟩ := key rec s h1 h2 hrec
  generalize (run s rec).1 = t at a b hw
  simp only [step, write] at hw
  cases hc : t.cccd with
  | false => simp [hc] at hw
  | true => simp [hc, cpWrite, a, procedureAlreadyInProgress] at hw

/-- Wedge 1: the client clears the CCCD while the response is queued; `l2cap_output` drops the
    indication without calling `csc_read_control_point`, `procedure_in_progress_` stays set. -/
def wedgeCccdOps : List Op := [.write [4], .cccd false, .output]

/-- Wedge 2: the link is lost while a procedure is pending; `procedure_in_progress_` is a member of
    the server, the new connection finds the control point busy for ever. -/
def wedgeReconnectOps : List Op := [.write [4], .reconnect]

theorem reachAll_run {s : Sys} {g : Obs} (r : ReachAll s g) (ops : List Op) (h : ∀ op ∈ ops, op ≠ .confirm) :
    ∃ g', ReachAll (run s ops).1 g' := by
  induction ops generalizing s g with
  | nil => exact ⟨g, r⟩
  | cons op ops ih =>
    simp only [run]
    have hne := h op (List.mem_cons_self ..)
    refine ih (ReachAll.step op r ?_) (fun o ho => h o (List.mem_cons_of_mem _ ho))
    cases op <;> first | trivial | exact absurd rfl hne

theorem wedge_cccd_cleared : ¬ Recovers (run (Sys.init []) wedgeCccdOps).1 :=
  wedged_for_ever _ (by decide) (by decide)

theorem wedge_reconnect : ¬ Recovers (run (Sys.init []) wedgeReconnectOps).1 :=
  wedged_for_ever _ (by decide) (by decide)

theorem never_deadlocks_full_witness : ¬ never_deadlocks_full := by
  intro h
  obtain ⟨g, r⟩ := reachAll_run (.init []) wedgeReconnectOps (by decide)
  exact wedge_reconnect (h _ g r)

/-- non-vacuity of `Recovers`: in scope the control point does recover (here: a pending procedure,
    response sent by one `l2cap_output`) -/
example : Recovers (run (Sys.init []) [.write [4]]).1 :=
  ⟨[.output], by intro op h; simp at h; subst h; trivial, by decide⟩

end BluetoeModel.Csc
