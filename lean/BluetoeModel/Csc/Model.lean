/-
  Model of the SC Control Point of the Cycling Speed and Cadence service
  (`bluetoe/services/csc.hpp`, `csc::details::control_point_handler` on top of
  `sensor_position_handler` / `no_sensor_position_handler`) together with the indication
  hand-shake the control point characteristic runs through in a `bluetoe::server<>` with one
  connection (`mixin_write_indication_control_point_handler`, `server::indicate`,
  `server::l2cap_output`, `notification_queue`, `handle_value_confirmation`).

  The model is the code **with** `fixes/csc-01-malformed-write-wedges-control-point.patch`
  applied (`malformed_request()` clears `procedure_in_progress_`).
-/
namespace BluetoeModel.Csc

/-! ### ATT error codes used by the control point (bluetoe/codes.hpp) -/
def invalidHandle : UInt8 := 0x01
def invalidPdu    : UInt8 := 0x04
def cccdImproperlyConfigured : UInt8 := 0xFD
def procedureAlreadyInProgress : UInt8 := 0xFE

/-! ### opcodes / response values (csc.hpp, anonymous enums in `csc::details`) -/
def opSetCumulative : UInt8 := 1
def opUpdateLocation : UInt8 := 3
def opRequestLocations : UInt8 := 4
def opResponse : UInt8 := 16
def rcSuccess : UInt8 := 1
def rcNotSupported : UInt8 := 2
def rcInvalidParameter : UInt8 := 3

/-- `control_point_handler< SensorPositionHandler >`; `locs = []` stands for
    `no_sensor_position_handler`, a non-empty list for `sensor_position_handler< tuple< … > >`
    with `positions_ = locs`.  `opcode = none` is the uninitialised `current_opcode_` left by the
    constructor. -/
structure CP where
  locs       : List UInt8
  cur        : UInt8            -- current_position_
  req        : UInt8            -- requested_position_
  opcode     : Option UInt8     -- current_opcode_
  inProgress : Bool             -- procedure_in_progress_
deriving Repr, DecidableEq

-- src: csc.hpp:control_point_handler::control_point_handler / sensor_position_handler()
def CP.init (locs : List UInt8) : CP :=
  { locs := locs, cur := locs.headD 0, req := locs.headD 0, opcode := none, inProgress := false }

/-- result of `csc_write_control_point`: ATT code, "indicate now" flag and the value handed to
    `handler.set_cumulative_wheel_revolutions` (if that was called) -/
structure WriteResult where
  cp       : CP
  code     : UInt8
  indicate : Bool
  setWheel : Option Nat
deriving Repr, DecidableEq

-- src: csc.hpp:control_point_handler::malformed_request (fix csc-01)
def malformedRequest (c : CP) : WriteResult :=
  { cp := { c with inProgress := false }, code := invalidPdu, indicate := false, setWheel := none }

-- src: bluetoe/bits.hpp:read_32bit
def read32 (a b c d : UInt8) : Nat :=
  a.toNat + 256 * b.toNat + 65536 * c.toNat + 16777216 * d.toNat

-- src: sensor_position_handler::set_sensor_position / no_sensor_position_handler::set_sensor_position
def setSensorPosition (c : CP) (p : UInt8) : CP :=
  if c.locs.isEmpty then c else { c with req := p }

-- src: csc.hpp:control_point_handler::csc_write_control_point
def cpWrite (c : CP) (value : List UInt8) : WriteResult :=
  match value with
  | [] => { cp := c, code := invalidHandle, indicate := false, setWheel := none }   -- write_size < 1
  | op :: params =>
    if c.inProgress then
      { cp := c, code := procedureAlreadyInProgress, indicate := false, setWheel := none }
    else
      let c1 := { c with inProgress := true, opcode := some op }
      if op = opSetCumulative then
        match params with
        | [a, b, c', d] => { cp := c1, code := 0, indicate := false, setWheel := some (read32 a b c' d) }
        | _ => malformedRequest c1                                   -- write_size != 1 + 4
      else if op = opRequestLocations then
        match params with
        | [] => { cp := c1, code := 0, indicate := true, setWheel := none }
        | _ => malformedRequest c1                                   -- write_size != 1
      else if op = opUpdateLocation then
        match params with
        | [p] => { cp := setSensorPosition c1 p, code := 0, indicate := true, setWheel := none }
        | _ => malformedRequest c1                                   -- write_size != 1 + 1
      else
        { cp := c1, code := 0, indicate := true, setWheel := none }  -- answered by an indication

-- src: csc.hpp:control_point_handler::csc_read_control_point (+ the two
--      *_sensor_locations_opcode_response / update_sensor_location_opcode_response variants).
-- `none`: the switch read the uninitialised `current_opcode_`.
def cpRead (c : CP) (readSize : Nat) : CP × Option (List UInt8) :=
  let c0 := { c with inProgress := false }
  match c.opcode with
  | none => (c0, none)
  | some op =>
    if op = opSetCumulative then (c0, some [opResponse, opSetCumulative, rcSuccess])
    else if op = opRequestLocations then
      if c.locs.isEmpty then (c0, some [opResponse, opRequestLocations, rcNotSupported])
      else (c0, some ([opResponse, opRequestLocations, rcSuccess] ++ c.locs.take (readSize - 3)))
    else if op = opUpdateLocation then
      if c.locs.isEmpty then (c0, some [opResponse, opUpdateLocation, rcNotSupported])
      else if c.locs.contains c.req then
        ({ c0 with cur := c.req }, some [opResponse, opUpdateLocation, rcSuccess])
      else (c0, some [opResponse, opUpdateLocation, rcInvalidParameter])
    else (c0, some [opResponse, op, rcNotSupported])

/-- the control point inside a server with one connection -/
structure Sys where
  cp          : CP
  queued      : Bool     -- indication bit of the control point in the connection's notification_queue
  outstanding : Bool     -- outstanding_confirmation_index_ ≠ no_outstanding_indicaton
  cccd        : Bool     -- client configured the control point for indications
  calls       : Nat      -- user handler: number of set_cumulative_wheel_revolutions calls
  wheel       : Nat      -- user handler: last value
deriving Repr, DecidableEq

def Sys.init (locs : List UInt8) : Sys :=
  { cp := CP.init locs, queued := false, outstanding := false, cccd := true, calls := 0, wheel := 0 }

inductive Op where
  | write (value : List UInt8)   -- ATT Write Request to the control point value
  | confirm                      -- user handler: confirm_cumulative_wheel_revolutions( server )
  | output                       -- link layer: l2cap_output (MTU 23)
  | ack                          -- client: ATT Handle Value Confirmation
  | cccd (on : Bool)             -- client writes the control point's CCCD
  | wheel                        -- observe the user handler
  | reconnect                    -- link loss + a new (not bonded) connection to the same server
deriving Repr, DecidableEq

inductive Out where
  | ok                           -- Write Response / nothing to report
  | err (code : UInt8)           -- Error Response with this code
  | ind (value : List UInt8)     -- Handle Value Indication of the control point with this value
  | nothing                      -- l2cap_output produced no PDU
  | uninit                       -- uninitialised current_opcode_ was read
  | wheel (calls value : Nat)
deriving Repr, DecidableEq

/-- negotiated MTU of the harness connection; `read_size = mtu - 3` -/
def mtu : Nat := 23

-- src: characteristic_value.hpp:mixin_write_indication_control_point_handler::call_write_handler
--      (offset 0), server.hpp:handle_write_request, server::indicate -> queue_indication
def write (s : Sys) (value : List UInt8) : Sys × Out :=
  if !s.cccd then (s, .err cccdImproperlyConfigured)
  else
    let r := cpWrite s.cp value
    let s1 := { s with cp := r.cp, queued := s.queued || r.indicate }
    let s2 := match r.setWheel with
      | some v => { s1 with calls := s1.calls + 1, wheel := v }
      | none => s1
    (s2, if r.code = 0 then .ok else .err r.code)

-- src: server.hpp:l2cap_output + notification_queue::dequeue_indication_or_confirmation
def output (s : Sys) : Sys × Out :=
  if s.queued && !s.outstanding then
    let s1 := { s with queued := false, outstanding := true }
    if s.cccd then
      match cpRead s.cp (mtu - 3) with
      | (cp', some v) => ({ s1 with cp := cp' }, .ind v)
      | (cp', none) => ({ s1 with cp := cp' }, .uninit)
    -- dequeued, but not configured any more: dropped; since fix 00aac07 (attnotify-03) an
    -- indication that produced no PDU does not stay outstanding
    else ({ s1 with outstanding := false }, .nothing)
  else (s, .nothing)

def step (s : Sys) : Op → Sys × Out
  | .write v => write s v
  -- src: csc.hpp:implementation::confirm_cumulative_wheel_revolutions -> server::indicate
  | .confirm => ({ s with queued := true }, .ok)
  | .output => output s
  -- src: server.hpp:handle_value_confirmation -> notification_queue::indication_confirmed
  | .ack => ({ s with outstanding := false }, .ok)
  | .cccd on => ({ s with cccd := on }, .ok)
  | .wheel => (s, .wheel s.calls s.wheel)
  -- src: server.hpp:client_disconnected (only frees the write queue) + a fresh
  -- `channel_data_t` (empty notification queue, CCCDs 0); the control point handler is a member
  -- of the server and is not touched
  | .reconnect => ({ s with queued := false, outstanding := false, cccd := false }, .ok)

/-- run a history, collecting the outputs -/
def run (s : Sys) : List Op → Sys × List Out
  | [] => (s, [])
  | op :: ops =>
      let (s', o) := step s op
      let (s'', os) := run s' ops
      (s'', o :: os)

end BluetoeModel.Csc
