import BluetoeModel.Csc.Model
/-!
  Observer ("what a client can tell from the outside"), the scope of the property (handler
  contract) and the invariant that ties the observer to the control point's private state.
-/
namespace BluetoeModel.Csc

/-- request opcode carried by a response indication `[0x10, request opcode, response value, …]` -/
def respOpcode : List UInt8 → Option UInt8
  | 16 :: op :: _ => some op
  | _ => none

/-- The property's vocabulary, computed from the observable history (operations and their
    results) only — never from the state of the control point:
    * `pending`: a previously accepted procedure awaits its response indication,
    * `owed`: the user handler was asked to set the cumulative value and has not confirmed yet,
    * `reqs`: opcodes of the accepted procedures, `resps`: request opcodes named by the response
      indications sent so far. -/
structure Obs where
  pending : Bool
  owed    : Bool
  reqs    : List UInt8
  resps   : List (Option UInt8)
deriving Repr, DecidableEq

def Obs.init : Obs := { pending := false, owed := false, reqs := [], resps := [] }

def Obs.observe (g : Obs) : Op → Out → Obs
  | .write (op :: _), .ok => { g with pending := true, owed := (op == opSetCumulative), reqs := g.reqs ++ [op] }
  | .confirm, _ => { g with owed := false }
  | .output, .ind v => { g with pending := false, resps := g.resps ++ [respOpcode v] }
  | _, _ => g

/-- Scope of C40 ("all control point write/indication sequences"): the client keeps the control
    point configured for indications, and the user handler honours its documented contract: it
    calls `confirm_cumulative_wheel_revolutions` only to confirm a `set_cumulative_wheel_revolutions`
    call, once. Writes (any bytes), `l2cap_output`, confirmations are unrestricted. -/
def Legal (g : Obs) : Op → Prop
  | .confirm => g.owed = true
  | .cccd on => on = true
  | .reconnect => False
  | _ => True

instance (g : Obs) (op : Op) : Decidable (Legal g op) := by
  cases op <;> simp only [Legal] <;> infer_instance

/-- states reachable by in-scope histories, paired with what the observer has seen -/
inductive Reach : Sys → Obs → Prop where
  | init (locs : List UInt8) : Reach (Sys.init locs) Obs.init
  | step {s g} (op : Op) : Reach s g → Legal g op → Reach (step s op).1 (g.observe op (step s op).2)

/-- the invariant, over the parts of the state it talks about -/
structure Inv' (cp : CP) (q c : Bool) (g : Obs) : Prop where
  prog   : cp.inProgress = g.pending
  cccd   : c = true
  owed   : g.owed = true → g.pending = true ∧ cp.opcode = some opSetCumulative ∧ q = false
  queued : q = true → g.pending = true
  onway  : g.pending = true → g.owed = true ∨ q = true
  cur    : g.pending = true → ∃ op, cp.opcode = some op ∧ g.reqs.map some = g.resps ++ [some op]
  done   : g.pending = false → g.reqs.map some = g.resps

def Inv (s : Sys) (g : Obs) : Prop := Inv' s.cp s.queued s.cccd g

theorem cpRead_spec (c : CP) (n : Nat) (op : UInt8) (h : c.opcode = some op) :
    ∃ v, (cpRead c n).2 = some v ∧ respOpcode v = some op ∧ (cpRead c n).1.inProgress = false := by
  unfold cpRead
  simp only [h]
  split
  · next e => exact ⟨_, rfl, by simp [respOpcode, opResponse, e], rfl⟩
  · split
    · next e =>
      split
      · exact ⟨_, rfl, by simp [respOpcode, opResponse, e], rfl⟩
      · exact ⟨_, rfl, by simp [respOpcode, opResponse, e], rfl⟩
    · split
      · next e =>
        split
        · exact ⟨_, rfl, by simp [respOpcode, opResponse, e], rfl⟩
        · split
          · exact ⟨_, rfl, by simp [respOpcode, opResponse, e], rfl⟩
          · exact ⟨_, rfl, by simp [respOpcode, opResponse, e], rfl⟩
      · exact ⟨_, rfl, by simp [respOpcode, opResponse], rfl⟩

/-- the three shapes of a `csc_write_control_point` result when no procedure is in progress -/
inductive WriteShape (c : CP) (op : UInt8) : WriteResult → Prop where
  | malformed (r) : r.code = invalidPdu → r.indicate = false → r.setWheel = none →
      r.cp.inProgress = false → WriteShape c op r
  | deferred (r) : op = opSetCumulative → r.code = 0 → r.indicate = false →
      r.cp.inProgress = true → r.cp.opcode = some op → WriteShape c op r
  | immediate (r) : op ≠ opSetCumulative → r.code = 0 → r.indicate = true → r.setWheel = none →
      r.cp.inProgress = true → r.cp.opcode = some op → WriteShape c op r

theorem setSensorPosition_keeps (c : CP) (p : UInt8) :
    (setSensorPosition c p).inProgress = c.inProgress ∧ (setSensorPosition c p).opcode = c.opcode := by
  unfold setSensorPosition; split <;> simp

theorem cpWrite_shape (c : CP) (op : UInt8) (ps : List UInt8) (h : c.inProgress = false) :
    WriteShape c op (cpWrite c (op :: ps)) := by
  unfold cpWrite
  simp only [h, Bool.false_eq_true, if_false]
  split
  · next e =>
    split
    · exact .deferred _ e rfl rfl rfl rfl
    · exact .malformed _ rfl rfl rfl rfl
  · next e1 =>
    split
    · next e =>
      split
      · exact .immediate _ e1 rfl rfl rfl rfl rfl
      · exact .malformed _ rfl rfl rfl rfl
    · split
      · split
        · exact .immediate _ e1 rfl rfl rfl
            (by rw [(setSensorPosition_keeps _ _).1]) (by rw [(setSensorPosition_keeps _ _).2])
        · exact .malformed _ rfl rfl rfl rfl
      · exact .immediate _ e1 rfl rfl rfl rfl rfl

/-- the ATT code of `csc_write_control_point` depends on `procedure_in_progress_` and the value only -/
theorem cpWrite_code_indep (c c' : CP) (v : List UInt8) (h : c.inProgress = c'.inProgress) :
    (cpWrite c v).code = (cpWrite c' v).code := by
  unfold cpWrite
  rw [h]
  split
  · rfl
  · split
    · rfl
    · split
      · split <;> rfl
      · split
        · split <;> rfl
        · split
          · split <;> rfl
          · rfl

theorem write_out (s : Sys) (v : List UInt8) :
    (write s v).2 = if !s.cccd then .err cccdImproperlyConfigured
      else if (cpWrite s.cp v).code = 0 then .ok else .err (cpWrite s.cp v).code := by
  unfold write; split <;> rfl

theorem write_cccd (s : Sys) (v : List UInt8) : (write s v).1.cccd = s.cccd := by
  unfold write
  split
  · rfl
  · dsimp only; cases (cpWrite s.cp v).setWheel <;> rfl

theorem write_cp (s : Sys) (v : List UInt8) :
    (write s v).1.cp = if !s.cccd then s.cp else (cpWrite s.cp v).cp := by
  unfold write
  split
  · rfl
  · dsimp only; cases (cpWrite s.cp v).setWheel <;> rfl

theorem write_out_indep (s s' : Sys) (v : List UInt8) (h1 : s.cccd = s'.cccd)
    (h2 : s.cp.inProgress = s'.cp.inProgress) : (write s v).2 = (write s' v).2 := by
  rw [write_out, write_out, h1, cpWrite_code_indep s.cp s'.cp v h2]

theorem write_out_cases (s : Sys) (v : List UInt8) :
    (write s v).2 = .ok ∨ ∃ c, (write s v).2 = .err c := by
  rw [write_out]
  split
  · exact .inr ⟨_, rfl⟩
  · split
    · exact .inl rfl
    · exact .inr ⟨_, rfl⟩

/-- a write answered with an error leaves `procedure_in_progress_` and the configuration alone -/
theorem write_err_keeps (s : Sys) (v : List UInt8) (herr : (write s v).2 ≠ .ok) :
    (write s v).1.cccd = s.cccd ∧ (write s v).1.cp.inProgress = s.cp.inProgress := by
  refine ⟨write_cccd s v, ?_⟩
  rw [write_cp]
  rw [write_out] at herr
  split
  · rfl
  · next hc =>
    rw [if_neg hc] at herr
    cases v with
    | nil => rfl
    | cons op ps =>
      cases hp : s.cp.inProgress with
      | true => simp [cpWrite, hp]
      | false =>
        have hs := cpWrite_shape s.cp op ps hp
        generalize cpWrite s.cp (op :: ps) = w at hs herr ⊢
        cases hs with
        | malformed _ _ _ hprog => exact hprog
        | deferred _ hc _ _ _ => simp [hc] at herr
        | immediate _ hc _ _ _ _ => simp [hc] at herr

theorem inv_init (locs : List UInt8) : Inv (Sys.init locs) Obs.init :=
  ⟨rfl, rfl, by simp [Obs.init], by simp [Sys.init], by simp [Obs.init], by simp [Obs.init],
   by simp [Obs.init]⟩

theorem inv_write (s : Sys) (g : Obs) (h : Inv s g) (v : List UInt8) :
    Inv (write s v).1 (g.observe (.write v) (write s v).2) := by
  have hcc : s.cccd = true := h.cccd
  unfold write
  rw [if_neg (by simp [hcc])]
  cases v with
  | nil => simpa [cpWrite, Obs.observe, invalidHandle, Inv] using h
  | cons op ps =>
    cases hp : s.cp.inProgress with
    | true =>
      have : cpWrite s.cp (op :: ps) =
          { cp := s.cp, code := procedureAlreadyInProgress, indicate := false, setWheel := none } := by
        simp [cpWrite, hp]
      simp only [this, procedureAlreadyInProgress, Bool.or_false]
      simpa [Obs.observe, Inv] using h
    | false =>
      have hpend : g.pending = false := by rw [← h.prog, hp]
      have hq : s.queued = false := by
        cases hq : s.queued with
        | false => rfl
        | true => have := h.queued hq; simp [hpend] at this
      have how : g.owed = false := by
        cases ho : g.owed with
        | false => rfl
        | true => have := (h.owed ho).1; simp [hpend] at this
      have hdone := h.done hpend
      have hshape := cpWrite_shape s.cp op ps hp
      generalize cpWrite s.cp (op :: ps) = r at hshape ⊢
      suffices base : Inv' r.cp (s.queued || r.indicate) s.cccd
          (g.observe (.write (op :: ps)) (if r.code = 0 then .ok else .err r.code)) by
        unfold Inv
        dsimp only
        cases r.setWheel <;> exact base
      cases hshape with
      | malformed hc hi hw hprog =>
        simp only [hc, invalidPdu]
        refine ⟨by simp [Obs.observe, hprog, hpend], hcc, ?_, ?_, ?_, ?_, ?_⟩ <;>
          simp [Obs.observe, hpend, how, hq, hi, hdone]
      | deferred hop hc hi hprog hopc =>
        simp only [hc]
        refine ⟨by simp [Obs.observe, hprog], hcc, ?_, ?_, ?_, ?_, ?_⟩ <;>
          simp [Obs.observe, hq, hi, hopc, hop, hdone]
      | immediate hop hc hi hw hprog hopc =>
        simp only [hc]
        refine ⟨by simp [Obs.observe, hprog], hcc, ?_, ?_, ?_, ?_, ?_⟩ <;>
          simp [Obs.observe, hi, hopc, hop, hdone]

theorem output_emits (s : Sys) (hq : s.queued = true) (ho : s.outstanding = false)
    (hc : s.cccd = true) (v : List UInt8) (hv : (cpRead s.cp (mtu - 3)).2 = some v) :
    output s = ({ s with queued := false, outstanding := true, cp := (cpRead s.cp (mtu - 3)).1 }, .ind v) := by
  have e : cpRead s.cp (mtu - 3) = ((cpRead s.cp (mtu - 3)).1, some v) := by rw [← hv]
  unfold output
  rw [if_pos (by simp [hq, ho])]
  simp only [hc, if_true]
  rw [e]

theorem output_idle (s : Sys) (h : (s.queued && !s.outstanding) = false) : output s = (s, .nothing) := by
  unfold output
  rw [if_neg (by simp [h])]

theorem inv_output (s : Sys) (g : Obs) (h : Inv s g) :
    Inv (output s).1 (g.observe .output (output s).2) := by
  have hcc : s.cccd = true := h.cccd
  cases hc : (s.queued && !s.outstanding) with
  | false => rw [output_idle s hc]; simpa [Obs.observe] using h
  | true =>
    simp only [Bool.and_eq_true, Bool.not_eq_true'] at hc
    have hpend := h.queued hc.1
    obtain ⟨op, hop, hreqs⟩ := h.cur hpend
    obtain ⟨v, hv, hresp, hprog⟩ := cpRead_spec s.cp (mtu - 3) op hop
    have how : g.owed = false := by
      cases ho : g.owed with
      | false => rfl
      | true => have := (h.owed ho).2.2; simp [hc.1] at this
    rw [output_emits s hc.1 hc.2 hcc v hv]
    refine ⟨by simp [Obs.observe, hprog], hcc, ?_, ?_, ?_, ?_, ?_⟩ <;>
      simp [Obs.observe, how, hresp, hreqs]

theorem inv_step (s : Sys) (g : Obs) (h : Inv s g) (op : Op) (hl : Legal g op) :
    Inv (step s op).1 (g.observe op (step s op).2) := by
  cases op with
  | write v => exact inv_write s g h v
  | confirm =>
    have ho : g.owed = true := hl
    obtain ⟨hp, hopc, -⟩ := h.owed ho
    refine ⟨by simpa [step, Obs.observe] using h.prog, h.cccd, ?_, ?_, ?_, ?_, ?_⟩
    · simp [Obs.observe]
    · intro _; simpa [Obs.observe] using hp
    · intro _; simp [step]
    · simpa [step, Obs.observe] using h.cur
    · simpa [step, Obs.observe] using h.done
  | output => exact inv_output s g h
  | ack => exact ⟨h.prog, h.cccd, h.owed, h.queued, h.onway, h.cur, h.done⟩
  | cccd on =>
    have : on = true := hl
    subst this
    exact ⟨h.prog, rfl, h.owed, h.queued, h.onway, h.cur, h.done⟩
  | wheel => exact h
  | reconnect => exact absurd hl (fun x => x)

theorem Reach.inv {s : Sys} {g : Obs} (r : Reach s g) : Inv s g := by
  induction r with
  | init locs => exact inv_init locs
  | step op _ hl ih => exact inv_step _ _ ih op hl

end BluetoeModel.Csc
