import BluetoeModel.Adv.Model
/-!
  # C25 — Only properly addressed and permitted requests are answered while advertising

  "While advertising, the peripheral answers a scan request only if it is addressed to its own
  address and address type and passes the scan filter, and enters a connection only for a
  correctly sized connect request addressed to it (and, for directed advertising, coming from the
  target device) from an initiator that passes the connection filter."

  Connect half: theorems about `handleReceive` (= advertiser::handle_adv_receive, the only place
  where the link layer decides to enter a connection).  Scan half: the link layer delegates the
  answer to the radio; `validScanBase` is the generic predicate of advertising.hpp (tied to the
  code), `nrfValidScan` the predicate of the nRF52 radio ISR (tied to nrf52.hpp by harness/adv/nrf_scan.cpp).
-/
namespace BluetoeModel.Adv

open BluetoeModel.WhiteList (connIn scanIn)

/-- the initiator address of a CONNECT_IND: InitA with the type given by TxAdd -/
def initiator (pdu : List UInt8) : Nat := addrAt pdu 0 ((header pdu &&& 0x40) != 0)

/-- the handle_adv_receive call enters a connection with `r` -/
def Accepts (s : St) (pdu : List UInt8) (r : Nat) : Prop :=
  handleReceive s pdu = some (s, some r, none)

/-- "correctly sized connect request addressed to it": 2 + 34 octets, PDU type CONNECT_IND, length
    field 34, AdvA = own address, RxAdd = own address type -/
def AddressedConnect (s : St) (pdu : List UInt8) : Prop :=
  pdu.length = 36 ∧ (header pdu >>> 8) &&& 0x3f = 34 ∧ header pdu &&& 0x0f = 5
    ∧ le ((pdu.drop 8).take 6) = s.localAddr / 2
    ∧ ((s.localAddr % 2 = 1) ↔ (header pdu &&& 0x80 ≠ 0))

/-- "for directed advertising, coming from the target device": a directed address is set, InitA
    equals it and TxAdd its type -/
def FromTarget (s : St) (pdu : List UInt8) : Prop :=
  s.dValid = true ∧ le ((pdu.drop 2).take 6) = s.dAddr / 2
    ∧ ((s.dAddr % 2 = 1) ↔ (header pdu &&& 0x40 ≠ 0))

/-- the advertising type in use accepts this request -/
def TypePermits (s : St) (pdu : List UInt8) : Prop :=
  s.cfg.types[s.selected]? = some .undirected
    ∨ (s.cfg.types[s.selected]? = some .directed ∧ FromTarget s pdu)

theorem validConnectBase_iff (s : St) (pdu : List UInt8) :
    validConnectBase pdu s.localAddr = true ↔ AddressedConnect s pdu := by
  unfold validConnectBase AddressedConnect
  by_cases hl : pdu.length = 36
  · simp only [hl, ne_eq, not_true_eq_false, if_false, Bool.and_eq_true, beq_iff_eq, true_and]
    constructor
    · rintro ⟨⟨⟨h1, h2⟩, h3⟩, h4⟩
      refine ⟨h1, h2, h3, ?_⟩
      by_cases ha : s.localAddr % 2 = 1 <;> by_cases hb : header pdu &&& 0x80 = 0 <;> simp_all
    · rintro ⟨h1, h2, h3, h4⟩
      refine ⟨⟨⟨h1, h2⟩, h3⟩, ?_⟩
      by_cases ha : s.localAddr % 2 = 1 <;> by_cases hb : header pdu &&& 0x80 = 0 <;> simp_all
  · simp [hl]

/-- **C25, connect half (exact).**  In every state and for every received PDU (any type, length,
    addresses): `handle_adv_receive` enters a connection with `r` **iff** the PDU is a correctly
    sized CONNECT_IND addressed to the own address and address type, the advertising type in use is
    connectable undirected or it is connectable directed and the request comes from the target
    device, `r` is the initiator (InitA, TxAdd) and `r` passes the connection filter
    (filter off or `r` in the white list). -/
theorem connect_accepted_iff (s : St) (pdu : List UInt8) (r : Nat) :
    Accepts s pdu r ↔
      (AddressedConnect s pdu ∧ TypePermits s pdu ∧ r = initiator pdu
        ∧ (s.wl.connFilter = false ∨ r ∈ s.wl.entries)) := by
  have hfilter : ∀ a, connIn s.wl a = true ↔ (s.wl.connFilter = false ∨ a ∈ s.wl.entries) := by
    intro a
    simp [connIn, BluetoeModel.WhiteList.isIn]
  have hrej : ∀ x : Option (St × Option (Nat × Nat)),
      x.map (fun p => (p.1, (none : Option Nat), p.2)) ≠ some (s, some r, none) := by
    intro x h
    cases x with
    | none => simp at h
    | some p => simp at h
  have hbase := validConnectBase_iff s pdu
  unfold Accepts handleReceive
  simp only
  by_cases hv : validConnect s pdu = true
  · by_cases hc : connIn s.wl (addrAt pdu 0 ((header pdu &&& 0x40) != 0)) = true
    · simp only [hv, hc, Bool.and_self, if_true, Option.some.injEq, Prod.mk.injEq, true_and, and_true]
      have hperm : AddressedConnect s pdu ∧ TypePermits s pdu := by
        unfold validConnect at hv
        unfold TypePermits FromTarget
        cases ht : s.cfg.types[s.selected]? with
        | none => simp [ht] at hv
        | some t =>
          cases t with
          | undirected => simp only [ht, validConnectT] at hv; exact ⟨hbase.mp hv, Or.inl rfl⟩
          | directed =>
            simp only [ht, validConnectT, Bool.and_eq_true, beq_iff_eq] at hv
            obtain ⟨⟨⟨h1, h2⟩, h3⟩, h4⟩ := hv
            refine ⟨hbase.mp h1, Or.inr ⟨rfl, h3, h2, ?_⟩⟩
            by_cases ha : s.dAddr % 2 = 1 <;> by_cases hb : header pdu &&& 0x40 = 0 <;> simp_all
          | scannable => simp [ht, validConnectT] at hv
          | nonconn => simp [ht, validConnectT] at hv
      constructor
      · intro h
        refine ⟨hperm.1, hperm.2, h.symm, ?_⟩
        rw [← h]; exact (hfilter _).mp hc
      · intro h; exact h.2.2.1.symm
    · have : (validConnect s pdu && connIn s.wl (addrAt pdu 0 ((header pdu &&& 0x40) != 0))) = false := by
        simp [hc]
      simp only [this, Bool.false_eq_true, if_false]
      constructor
      · intro h; exact absurd h (hrej _)
      · rintro ⟨_, _, hr, hf⟩
        exfalso; apply hc; rw [hfilter]; rw [hr] at hf; exact hf
  · have : (validConnect s pdu && connIn s.wl (addrAt pdu 0 ((header pdu &&& 0x40) != 0))) = false := by
      simp [hv]
    simp only [this, Bool.false_eq_true, if_false]
    constructor
    · intro h; exact absurd h (hrej _)
    · rintro ⟨ha, hp, _, _⟩
      exfalso; apply hv
      unfold validConnect
      rcases hp with ht | ⟨ht, hd, hi, hx⟩
      · simp only [ht, validConnectT]; exact hbase.mpr ha
      · simp only [ht, validConnectT, Bool.and_eq_true, beq_iff_eq]
        refine ⟨⟨⟨hbase.mpr ha, hi⟩, hd⟩, ?_⟩
        by_cases ha' : s.dAddr % 2 = 1 <;> by_cases hb : header pdu &&& 0x40 = 0 <;> simp_all

/-! ### `change_advertising<>()`: the decision is about the PDU on air, not about the requested type

  `selected_` names the advertising type whose PDU was handed to the radio (`fill_advertising_data(
  selected_ )` in `handle_start_advertising` / `handle_adv_timeout`; the harnesses print the type of the
  PDU actually handed to the radio and compare it with `types[selected]`).  `change_advertising< T >()`
  only records `proposal_`; it takes effect with the next PDU.  `TypePermits` above is about `selected`. -/

/-- src: advertiser::change_advertising< Type >: only `proposal_` is written -/
theorem change_frame (s : St) (t : Nat) : ∃ p, (step s (.change t)).1 = { s with proposal := p } := by
  simp only [step]
  split
  · split
    · split
      · exact ⟨_, rfl⟩
      · exact ⟨s.proposal, rfl⟩
    · exact ⟨s.proposal, rfl⟩
  · exact ⟨s.proposal, rfl⟩

theorem changes_frame (s : St) (ts : List Nat) :
    ∃ p, finalState s (ts.map Op.change) = { s with proposal := p } := by
  induction ts generalizing s with
  | nil => exact ⟨s.proposal, rfl⟩
  | cons t ts ih =>
    obtain ⟨p, hp⟩ := change_frame s t
    simp only [List.map_cons, finalState, hp]
    obtain ⟨q, hq⟩ := ih { s with proposal := p }
    exact ⟨q, hq⟩

/-- the steps that hand a new advertising PDU to the radio (or try to) -/
def reschedules : Op → Bool
  | .llstart => true
  | .timeout => true
  | .start => true
  | .startn _ => true
  | .direct _ => true
  | .recv _ => true
  | _ => false

/-- `selected_` moves only in steps that hand a PDU to the radio: no application call (in particular no
    `change_advertising`, filter or white list call) changes the type the accept decision is based on -/
theorem selected_moves_only_when_scheduling (s : St) (op : Op) (h : reschedules op = false) :
    (step s op).1.selected = s.selected := by
  cases op with
  | add ch =>
    simp only [step]; split
    · split
      · rename_i s' hs
        simp only [addChannel, Option.map_eq_some_iff] at hs
        obtain ⟨f, _, hf⟩ := hs; subst hf; rfl
      · rfl
    · rfl
  | remove ch =>
    simp only [step]; split
    · split
      · rename_i s' hs
        unfold removeChannel at hs
        simp only at hs
        split at hs
        · simp only [Option.map_eq_some_iff] at hs
          obtain ⟨f, _, hf⟩ := hs; subst hf; rfl
        · simp only [Option.some.injEq] at hs; subst hs; rfl
      · rfl
    · rfl
  | interval ms => simp only [step]; split <;> (try unfold setIntervalMs) <;> (try split) <;> rfl
  | stop => simp only [step]; split <;> rfl
  | llstop => simp only [step, endEvents]; split <;> rfl
  | dirty => rfl
  | change t => obtain ⟨p, hp⟩ := change_frame s t; rw [hp]
  | localAddr a => rfl
  | filter b => rfl
  | wladd a => rfl
  | wlremove a => rfl
  | scanfilter b => rfl
  | scanreq pdu => simp only [step]; split <;> rfl
  | llstart => simp [reschedules] at h
  | timeout => simp [reschedules] at h
  | start => simp [reschedules] at h
  | startn n => simp [reschedules] at h
  | direct a => simp [reschedules] at h
  | recv pdu => simp [reschedules] at h

/-- **C25, connect half under `change_advertising`.**  `s`: any state (in particular the state in which
    the advertising PDU now on air was handed to the radio); after *any* sequence of
    `change_advertising<>()` calls — all type pairs, any number — `handle_adv_receive` enters a connection
    iff the request is proper for the advertising type of `s` (`s.selected`, the PDU on air): a switch to
    connectable undirected advertising that has not yet reached the radio does not make the device accept
    a CONNECT_IND in response to an ADV_SCAN_IND / ADV_NONCONN_IND PDU or, on an ADV_DIRECT_IND PDU, from a
    device that is not the target — and a pending switch away from a connectable type does not make it
    refuse one. -/
theorem connect_accepted_on_air (s : St) (ts : List Nat) (pdu : List UInt8) (r : Nat) :
    Accepts (finalState s (ts.map Op.change)) pdu r ↔
      (AddressedConnect s pdu ∧ TypePermits s pdu ∧ r = initiator pdu
        ∧ (s.wl.connFilter = false ∨ r ∈ s.wl.entries)) := by
  obtain ⟨p, hp⟩ := changes_frame s ts
  rw [hp]
  exact connect_accepted_iff { s with proposal := p } pdu r

/-- non-vacuity / the input class of the missed mutation: four-type advertiser, scannable advertising is
    on air (PDU on 37), the application switches to connectable undirected: a proper CONNECT_IND that
    answers the ADV_SCAN_IND is not accepted; after the next PDU (now ADV_IND) the same request is -/
example :
    let c : Cfg := { varMap := true, varInterval := true, fixedMs := 100, autoStart := false,
                     types := [.undirected, .directed, .scannable, .nonconn] }
    let pdu : List UInt8 := [0x45, 34, 0xaa, 0xaa, 0xaa, 0xaa, 0xaa, 0xaa, 0x66, 0x55, 0x44, 0x33, 0x22, 0x11] ++ List.replicate 22 0
    ((run (init c (2 * 0x112233445566)) [.change 2, .llstart, .start, .change 0, .recv pdu, .recv pdu]).map (·.2)) =
      [.ok, .sched none, .sched (some (37, 0)), .ok, .recv none (some (38, 0)), .recv (some (2 * 0xaaaaaaaaaaaa + 1)) none] := by
  decide

/-- non-vacuity of `connect_accepted_iff`: a valid CONNECT_IND for the public address
    11:22:33:44:55:66 from the random initiator aa:…, default advertiser, filter off -/
example :
    Accepts (init { varMap := false, varInterval := false, fixedMs := 100, autoStart := true, types := [.undirected] }
        (2 * 0x112233445566))
      ([0x45, 34, 0xaa, 0xaa, 0xaa, 0xaa, 0xaa, 0xaa, 0x66, 0x55, 0x44, 0x33, 0x22, 0x11] ++ List.replicate 22 0)
      (2 * 0xaaaaaaaaaaaa + 1) := by
  unfold Accepts
  decide

/-- non-connectable and scannable advertising never enter a connection -/
theorem nonconnectable_never_accepts (s : St) (pdu : List UInt8) (r : Nat)
    (h : s.cfg.types[s.selected]? = some .nonconn ∨ s.cfg.types[s.selected]? = some .scannable) :
    ¬ Accepts s pdu r := by
  intro ha
  have := (connect_accepted_iff s pdu r).mp ha
  rcases this.2.1 with h1 | ⟨h1, _⟩ <;> rcases h with h | h <;> simp [h] at h1

/-- **C25, scan half (generic predicate of advertising.hpp).**  `is_valid_scan_request` holds iff
    the PDU is a 2 + 12 octet SCAN_REQ whose AdvA is the own address and RxAdd the own type -/
theorem scan_valid_iff (pdu : List UInt8) (a : Nat) :
    validScanBase pdu a = true ↔
      (pdu.length = 14 ∧ (header pdu >>> 8) &&& 0x3f = 12 ∧ header pdu &&& 0x0f = 3
        ∧ le ((pdu.drop 8).take 6) = a / 2 ∧ ((a % 2 = 1) ↔ (header pdu &&& 0x80 ≠ 0))) := by
  unfold validScanBase
  by_cases hl : pdu.length = 14
  · simp only [hl, ne_eq, not_true_eq_false, if_false, Bool.and_eq_true, beq_iff_eq, true_and]
    constructor
    · rintro ⟨⟨⟨h1, h2⟩, h3⟩, h4⟩
      refine ⟨h1, h2, h3, ?_⟩
      by_cases ha : a % 2 = 1 <;> by_cases hb : header pdu &&& 0x80 = 0 <;> simp_all
    · rintro ⟨h1, h2, h3, h4⟩
      refine ⟨⟨⟨h1, h2⟩, h3⟩, ?_⟩
      by_cases ha : a % 2 = 1 <;> by_cases hb : header pdu &&& 0x80 = 0 <;> simp_all
  · simp [hl]

/-- **C25, scan half, nRF52 / nRF51 radio ISR** (tied to the real nrf52.hpp by harness/adv/nrf_scan.cpp;
    model = code with fixes/adv-03).  The ISR answers the PDU in its receive buffer iff it is a SCAN_REQ
    (length octet 12) whose AdvA is the own address and RxAdd the own address type, and the *scanner*
    (ScanA with the type given by TxAdd of the request) passes the scan filter.
    (Without the fix the scanner was looked up with the advertiser's own address type: own address random,
    scan filter on, public scanner aa:aa:aa:aa:aa:aa listed → not answered; the same scanner listed as
    random → the public one answered.) -/
theorem nrf_scan_answered_iff (pdu : List UInt8) (a : Nat) (w : BluetoeModel.WhiteList.WL) :
    nrfValidScan pdu a w = true ↔
      (header pdu >>> 8 = 12 ∧ header pdu &&& 0x0f = 3
        ∧ le ((pdu.drop 8).take 6) = a / 2 ∧ ((a % 2 = 1) ↔ (header pdu &&& 0x80 ≠ 0))
        ∧ scanIn w (addrAt pdu 0 ((header pdu &&& 0x40) != 0)) = true) := by
  unfold nrfValidScan
  simp only [Bool.and_eq_true, beq_iff_eq]
  constructor
  · rintro ⟨⟨⟨⟨h1, h2⟩, h3⟩, h4⟩, h5⟩
    refine ⟨h1, h2, h3, ?_, h5⟩
    by_cases ha : a % 2 = 1 <;> by_cases hb : header pdu &&& 0x80 = 0 <;> simp_all
  · rintro ⟨h1, h2, h3, h4, h5⟩
    refine ⟨⟨⟨⟨h1, h2⟩, h3⟩, ?_⟩, h5⟩
    by_cases ha : a % 2 = 1 <;> by_cases hb : header pdu &&& 0x80 = 0 <;> simp_all

/-- the sentence of the property for the radio: a scan request is answered only if it is addressed to
    the own address and address type and the scanner passes the scan filter; never by the advertising
    types without scan response (directed, non-connectable) -/
theorem nrf_answers_only_if (s : St) (pdu : List UInt8) (h : nrfAnswers s pdu = true) :
    le ((pdu.drop 8).take 6) = s.localAddr / 2 ∧ ((s.localAddr % 2 = 1) ↔ (header pdu &&& 0x80 ≠ 0))
      ∧ scanIn s.wl (addrAt pdu 0 ((header pdu &&& 0x40) != 0)) = true
      ∧ (s.cfg.types[s.selected]? = some .undirected ∨ s.cfg.types[s.selected]? = some .scannable) := by
  unfold nrfAnswers at h
  split at h
  · rename_i t ht
    simp only [Bool.and_eq_true] at h
    obtain ⟨_, _, h3, h4, h5⟩ := (nrf_scan_answered_iff pdu s.localAddr s.wl).mp h.2
    refine ⟨h3, h4, h5, ?_⟩
    cases t <;> simp_all [hasScanResponse]
  · simp at h

/-- non-vacuity, and the former witness: own address random, scan filter on, the public scanner
    aa:aa:aa:aa:aa:aa is in the white list: answered (not answered without fixes/adv-03) -/
example :
    nrfValidScan ([0x83, 12, 0xaa, 0xaa, 0xaa, 0xaa, 0xaa, 0xaa, 0x66, 0x55, 0x44, 0x33, 0x22, 0x11])
      (2 * 0x112233445566 + 1)
      { size := 4, entries := [2 * 0xaaaaaaaaaaaa], connFilter := false, scanFilter := true } = true := by
  decide

/-- relation to the generic predicate of advertising.hpp: with the scan filter off the nRF52 predicate answers the
    properly addressed scan requests whose length octet is exactly 12 (the ISR compares all 8 bits
    of the length octet, advertising.hpp only the lower 6) -/
theorem nrf_scan_partial (pdu : List UInt8) (a : Nat) (w : BluetoeModel.WhiteList.WL)
    (hf : w.scanFilter = false) (hv : validScanBase pdu a = true) (hrfu : header pdu >>> 8 = 12) :
    nrfValidScan pdu a w = true := by
  have hl := ((scan_valid_iff pdu a).mp hv).1
  unfold validScanBase at hv
  simp only [hl, ne_eq, not_true_eq_false, if_false, Bool.and_eq_true, beq_iff_eq] at hv
  unfold nrfValidScan
  simp only [Bool.and_eq_true, beq_iff_eq, scanIn, hf, Bool.not_false, Bool.true_or, and_true]
  exact ⟨⟨⟨hrfu, hv.1.1.2⟩, hv.1.2⟩, hv.2⟩

end BluetoeModel.Adv
