import BluetoeModel.Adv.Model
