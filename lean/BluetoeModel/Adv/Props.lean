import BluetoeModel.Adv.Lemmas
/-!
  # C24 — Advertising uses exactly the enabled channels at the configured rate

  "For any advertising channel map (including maps changed at run time) every advertising event
  transmits once on each enabled advertising channel, in ascending channel order, and never on a
  disabled channel. Consecutive advertising events are separated by the advertising interval plus
  a delay of 0 to 10 ms, and start/stop/count controls bound the number of events."

  The model (Model.lean) is the advertiser of advertising.hpp *with the fixes*
  `fixes/adv-01-next-channel-skip-loop.patch` (the skip loop of
  `variable_advertising_channel_map::next_channel` tests the map bit) and
  `fixes/adv-02-start-on-first-channel.patch` (`handle_start_advertising` selects the first enabled
  channel, so that also the first advertising event after a (re)start visits every enabled channel:
  `start_on_lowest`).

  Reading of the sentence in terms of the code: every call of `handle_adv_timeout` that schedules
  a PDU schedules it on the cyclic successor of the current channel in the ascending list of
  enabled channels (`succIdx`): the next higher enabled channel with no delay (same event) or,
  after the highest one, the lowest enabled channel after `interval + p ms`, `0 ≤ p ≤ 10` (next
  event).  `cycle_visits_enabled_ascending_once` shows that following `succIdx` from the lowest
  enabled channel visits exactly the enabled channels in ascending order, once each, and is back
  on the lowest one.  `Inv` (proved for every reachable state) says that the current channel is
  always an enabled one, so no PDU goes to a disabled channel.
-/
namespace BluetoeModel.Adv

/-! ### the invariant holds in every reachable state -/

theorem init_inv (c : Cfg) (a : Nat) : Inv (init c a) := by
  cases hv : c.varMap
  · have e1 : effMap (init c a) = 7 := by simp [effMap, init, hv]
    have e2 : chanIdx (init c a) = 0 := by simp [chanIdx, init, hv]
    refine ⟨by rw [e1]; decide, by simp [init, hv], ?_, by simp [init], by simp [init]⟩
    intro _; rw [e1, e2]; decide
  · have e1 : effMap (init c a) = 7 := by simp [effMap, init, hv]
    have e2 : chanIdx (init c a) = 0 := by simp [chanIdx, init, hv]
    refine ⟨by rw [e1]; decide, by simp [init, hv], ?_, by simp [init], by simp [init]⟩
    intro _; rw [e1, e2]; decide

theorem empty_map_no_next (s : St) (h : effMap s = 0) : nextChannelAndDelay s = none := by
  unfold effMap at h
  split at h
  · rename_i hv
    simp [nextChannelAndDelay, hv, nextIdxVar, h]
  · omega

theorem handleTimeout_inv (s : St) (hi : Inv s) (r : St × Option (Nat × Nat))
    (h : handleTimeout s = some r) : Inv r.1 := by
  unfold handleTimeout at h
  have hg := timeoutGate_same s
  have hi1 := hg.inv hi
  simp only at h
  split at h
  · by_cases hm : effMap (timeoutGate s).1 = 0
    · rw [empty_map_no_next _ hm] at h; simp at h
    · obtain ⟨s', d, he, hi', _⟩ := nextChannelAndDelay_spec _ hi1 hm
      rw [he] at h; simp only [Option.map_some, Option.some.injEq] at h
      rw [← h]; exact hi'
  · simp only [Option.some.injEq] at h; rw [← h]; exact hi1

/-- what every (re)start of advertising guarantees: invariant kept, map unchanged, and a PDU — if one
    is scheduled — goes out without delay on the lowest enabled channel, which is then the current one -/
def StartOk (s : St) (r : St × Option (Nat × Nat)) : Prop :=
  Inv r.1 ∧ effMap r.1 = effMap s ∧
    ∀ ch d, r.2 = some (ch, d) →
      d = 0 ∧ ch = currentChannel r.1 ∧ ch = chanIdx r.1 + 37
        ∧ (effMap s ≠ 0 → (enabledIdxs (effMap s)).head? = some (chanIdx r.1))

theorem handleStart_ok (s : St) (hi : Inv s) : ∃ r, handleStart s = some r ∧ StartOk s r := by
  obtain ⟨r, he, h1, h2, _, _, h5⟩ := handleStart_spec s hi
  exact ⟨r, he, h1, h2, h5⟩

theorem startAdv_ok (s : St) (hi : Inv s) (n : Nat) : ∃ r, startAdv s n = some r ∧ StartOk s r := by
  unfold startAdv
  simp only
  split
  · exact handleStart_ok { s with count := n, enabled := true }
      (sameChan.inv (s := s) ⟨rfl, rfl, rfl, rfl, rfl⟩ hi)
  · exact ⟨_, rfl, sameChan.inv (s := s) ⟨rfl, rfl, rfl, rfl, rfl⟩ hi, rfl, by intro ch d h; simp at h⟩

theorem setDirected_ok (s : St) (hi : Inv s) (a : Nat) : ∃ r, setDirected s a = some r ∧ StartOk s r := by
  unfold setDirected
  simp only
  split
  · exact handleStart_ok { s with dAddr := a, dValid := a != nullAddr }
      (sameChan.inv (s := s) ⟨rfl, rfl, rfl, rfl, rfl⟩ hi)
  · exact ⟨_, rfl, sameChan.inv (s := s) ⟨rfl, rfl, rfl, rfl, rfl⟩ hi, rfl, by intro ch d h; simp at h⟩

theorem endEvents_same (s : St) : sameChan s (endEvents s) := by
  unfold endEvents; split <;> exact ⟨rfl, rfl, rfl, rfl, rfl⟩

theorem addChannel_inv (s : St) (hi : Inv s) (ch : Nat) (hv : s.cfg.varMap = true)
    (h37 : 37 ≤ ch) (h39 : ch ≤ 39) (s' : St) (h : addChannel s ch = some s') :
    Inv s' ∧ effMap s' ≠ 0 := by
  have hlt : s.map < 8 := by have := hi.map_lt; simpa [effMap, hv] using this
  obtain ⟨h8, h0, _, _⟩ := add_table s.map hlt (ch - 37) (by omega)
  obtain ⟨f, hf3, hff, hfb, _⟩ := first_table _ h8 h0
  simp only [addChannel, hff, Option.map_some, Option.some.injEq] at h
  subst h
  exact ⟨⟨by simpa [effMap, hv] using h8, by simp [hv, hf3],
    by intro _; simpa [effMap, chanIdx, hv] using hfb, hi.pert, hi.ivl⟩, by simpa [effMap, hv] using h0⟩

theorem removeChannel_inv (s : St) (hi : Inv s) (ch : Nat) (hv : s.cfg.varMap = true)
    (h37 : 37 ≤ ch) (h39 : ch ≤ 39) (s' : St) (h : removeChannel s ch = some s') : Inv s' := by
  have hlt : s.map < 8 := by have := hi.map_lt; simpa [effMap, hv] using this
  have hidx : s.idx < 3 := by have := hi.idx; simpa [hv] using this
  obtain ⟨h8, _⟩ := remove_table s.map hlt (ch - 37) (by omega)
  unfold removeChannel at h
  simp only at h
  split at h
  · rename_i h0
    obtain ⟨f, hf3, hff, hfb, _⟩ := first_table _ h8 h0
    simp only [hff, Option.map_some, Option.some.injEq] at h
    subst h
    exact ⟨by simpa [effMap, hv] using h8, by simp [hv, hf3],
      by intro _; simpa [effMap, chanIdx, hv] using hfb, hi.pert, hi.ivl⟩
  · rename_i h0
    simp only [Option.some.injEq] at h
    subst h
    have h0' : s.map &&& (0xFFFFFFFF ^^^ (1 <<< (ch - 37))) = 0 := by simpa using h0
    exact ⟨by simp [effMap, hv, h0'], by simp [hv, hidx],
      by intro hne; simp [effMap, hv, h0'] at hne, hi.pert, hi.ivl⟩

theorem step_inv (s : St) (hi : Inv s) (op : Op) : Inv (step s op).1 := by
  cases op with
  | add ch =>
    simp only [step]; split
    · rename_i hc
      split
      · rename_i s' hs; exact (addChannel_inv s hi ch hc.1 hc.2.1 hc.2.2 s' hs).1
      · exact hi
    · exact hi
  | remove ch =>
    simp only [step]; split
    · rename_i hc
      split
      · rename_i s' hs; exact removeChannel_inv s hi ch hc.1 hc.2.1 hc.2.2 s' hs
      · exact hi
    · exact hi
  | interval ms =>
    simp only [step]; split
    · unfold setIntervalMs; split
      · rename_i hr
        exact ⟨hi.map_lt, hi.idx, hi.on, hi.pert, by show 20000 ≤ ms * 1000 ∧ ms * 1000 ≤ 10240000; omega⟩
      · exact hi
    · exact hi
  | start =>
    simp only [step]; split; exact hi
    obtain ⟨r, he, hok⟩ := startAdv_ok s hi 0
    simp only [he]; exact hok.1
  | startn n =>
    simp only [step]; split; exact hi
    obtain ⟨r, he, hok⟩ := startAdv_ok s hi n
    simp only [he]; exact hok.1
  | stop =>
    simp only [step]; split; exact hi
    exact sameChan.inv (s := s) ⟨rfl, rfl, rfl, rfl, rfl⟩ hi
  | llstart =>
    obtain ⟨r, he, hok⟩ := handleStart_ok s hi
    simp only [step, he]; exact hok.1
  | llstop => exact (endEvents_same s).inv hi
  | timeout =>
    simp only [step]; split
    · rename_i s' o h; exact handleTimeout_inv s hi (s', o) h
    · exact hi
  | dirty => exact sameChan.inv (s := s) ⟨rfl, rfl, rfl, rfl, rfl⟩ hi
  | change t =>
    simp only [step]
    split
    · split
      · split
        · exact sameChan.inv (s := s) ⟨rfl, rfl, rfl, rfl, rfl⟩ hi
        · exact hi
      · exact hi
    · exact hi
  | direct a =>
    simp only [step]; split
    · obtain ⟨r, he, hok⟩ := setDirected_ok s hi a
      simp only [he]; exact hok.1
    · exact hi
  | localAddr a => exact sameChan.inv (s := s) ⟨rfl, rfl, rfl, rfl, rfl⟩ hi
  | filter b => exact sameChan.inv (s := s) ⟨rfl, rfl, rfl, rfl, rfl⟩ hi
  | wladd a => exact sameChan.inv (s := s) ⟨rfl, rfl, rfl, rfl, rfl⟩ hi
  | wlremove a => exact sameChan.inv (s := s) ⟨rfl, rfl, rfl, rfl, rfl⟩ hi
  | scanfilter b => exact sameChan.inv (s := s) ⟨rfl, rfl, rfl, rfl, rfl⟩ hi
  | scanreq pdu => simp only [step]; split <;> exact hi
  | recv pdu =>
    simp only [step]; split
    · exact hi
    · split
      · rename_i s' acc o h
        simp only [handleReceive] at h
        split at h
        · simp only [Option.some.injEq, Prod.mk.injEq] at h; rw [← h.1]; exact hi
        · cases ht : handleTimeout s with
          | none => simp [ht] at h
          | some r =>
            simp only [ht, Option.map_some, Option.some.injEq, Prod.mk.injEq] at h
            rw [← h.1]; exact handleTimeout_inv s hi r ht
      · exact hi

/-- every state the advertiser can reach by any history of application and link layer calls
    satisfies the invariant: the current channel is an enabled one whenever the map is not empty,
    the perturbation is at most 10 ms, the variable interval is within 20 ms .. 10.24 s -/
theorem inv_reachable (c : Cfg) (a : Nat) (ops : List Op) : Inv (finalState (init c a) ops) := by
  suffices h : ∀ s, Inv s → Inv (finalState s ops) from h _ (init_inv c a)
  induction ops with
  | nil => intro s h; exact h
  | cons op ops ih => intro s h; exact ih _ (step_inv s h op)

/-! ### the property -/

/-- **C24, channels and timing.**  In every reachable state `s` (any configuration, any history,
    including map changes at run time) with a non-empty channel map: if `handle_adv_timeout`
    schedules a PDU, then on channel `ch` which is the cyclic successor of the current channel among
    the *enabled* channels; it is sent without delay if it is a higher channel (same advertising
    event) and `interval + p ms`, `0 ≤ p ≤ 10`, later if the event wrapped to the lowest enabled
    channel (next advertising event).  `handle_adv_timeout` never fails (`none` = assertion). -/
theorem timeout_channel_successor (c : Cfg) (a : Nat) (ops : List Op) :
    let s := finalState (init c a) ops
    effMap s ≠ 0 →
    ∃ r, handleTimeout s = some r ∧ effMap r.1 = effMap s ∧
      ∀ ch d, r.2 = some (ch, d) →
        37 ≤ ch ∧ some (ch - 37) = succIdx (effMap s) (chanIdx s) ∧ bitSet (effMap s) (ch - 37) = true
          ∧ ch = currentChannel r.1
          ∧ (currentChannel s < ch → d = 0)
          ∧ (ch ≤ currentChannel s → ∃ p, p ≤ 10 ∧ d = currentInterval s + p * 1000) := by
  intro s hm
  have hi : Inv s := inv_reachable c a ops
  have hg := timeoutGate_same s
  have hi1 := hg.inv hi
  have hm1 : effMap (timeoutGate s).1 ≠ 0 := by rw [hg.effMap]; exact hm
  unfold handleTimeout
  simp only
  split
  · obtain ⟨s', d, he, hi', hmap, hint, _, hsucc, hcur, hup, hwrap⟩ := nextChannelAndDelay_spec _ hi1 hm1
    refine ⟨_, by rw [he]; rfl, by simp only [hmap, hg.effMap], ?_⟩
    intro ch d' hcd
    simp only [Option.some.injEq, Prod.mk.injEq] at hcd
    obtain ⟨hch, hd⟩ := hcd
    subst hd
    rw [hg.effMap, hg.chanIdx] at hsucc
    rw [hg.chanIdx] at hup hwrap
    rw [hg.currentInterval] at hwrap
    have hcs : currentChannel s = chanIdx s + 37 := by
      have := hi.idx
      unfold currentChannel chanIdx
      split <;> simp_all <;> omega
    have hon := hi'.on (by rw [hmap]; exact hm1)
    rw [hmap, hg.effMap] at hon
    rw [hcur] at hch
    subst hch
    refine ⟨by omega, by simpa using hsucc, by simpa using hon, hcur.symm, ?_, ?_⟩
    · intro h; exact hup (by omega)
    · intro h; exact hwrap (by omega)
  · exact ⟨_, rfl, hg.effMap, by intro ch d h; simp at h⟩

/-- non-vacuity: map {37, 39} (the map the unpatched code gets wrong), three timeouts -/
example :
    let c : Cfg := { varMap := true, varInterval := false, fixedMs := 30, autoStart := true, types := [.undirected] }
    ((run (init c 1) [.remove 38, .llstart, .timeout, .timeout, .timeout]).map (·.2)) =
      [.ok, .sched (some (37, 0)), .sched (some (39, 0)), .sched (some (37, 37000)), .sched (some (39, 0))] := by
  decide

/-- **C24, one event = each enabled channel once, ascending.**  For each of the 7 non-empty maps:
    starting on the lowest enabled channel `f` and following the successor function that
    `timeout_channel_successor` shows the code to implement, for as many PDUs as there are enabled
    channels, visits the remaining enabled channels in ascending order and then `f` again. -/
theorem cycle_visits_enabled_ascending_once (m : Nat) (h8 : m < 8) (h0 : m ≠ 0) :
    ∃ f, (enabledIdxs m).head? = some f
      ∧ walk m (enabledIdxs m).length f = (enabledIdxs m).tail ++ [f] := by
  obtain ⟨f, _, h1, h2⟩ := cycle_table m h8 h0
  exact ⟨f, h1, h2⟩

/-- `enabledIdxs` is what the sentence calls the enabled channels, in ascending order -/
theorem enabledIdxs_spec (m i : Nat) : i ∈ enabledIdxs m ↔ i < 3 ∧ bitSet m i = true := by
  simp [enabledIdxs]

/-- map changes select the lowest enabled channel (so advertising that is started after a map
    change begins its first event on the lowest enabled channel) -/
theorem map_change_selects_lowest (s : St) (hi : Inv s) (hv : s.cfg.varMap = true) (ch : Nat)
    (h37 : 37 ≤ ch) (h39 : ch ≤ 39) (s' : St) (h : addChannel s ch = some s') :
    (enabledIdxs (effMap s')).head? = some (chanIdx s') := by
  have hlt : s.map < 8 := by have := hi.map_lt; simpa [effMap, hv] using this
  obtain ⟨h8, h0, _, _⟩ := add_table s.map hlt (ch - 37) (by omega)
  obtain ⟨f, hf3, hff, hfb, hh⟩ := first_table _ h8 h0
  simp only [addChannel, hff, Option.map_some, Option.some.injEq] at h
  subst h
  simpa [effMap, chanIdx, hv] using hh

/-! ### start of advertising -/

/-- the calls that (re)start advertising: `handle_start_advertising` by the link layer (power up,
    connection lost), `start_advertising()` / `( count )`, `directed_advertising_address` -/
def startsAdvertising : Op → Bool
  | .llstart => true
  | .start => true
  | .startn _ => true
  | .direct _ => true
  | _ => false

/-- **C24, the first event after a (re)start.**  In every reachable state with a non-empty map:
    whenever a call that starts advertising schedules a PDU, it is sent without delay on the *lowest*
    enabled channel, which becomes the current channel — so with `timeout_channel_successor` and
    `cycle_visits_enabled_ascending_once` also the first advertising event after power up, stop,
    count exhaustion or a lost connection visits every enabled channel once, in ascending order.
    (This is the statement that fails on the code without fixes/adv-02: there advertising resumed
    on the channel of the last PDU.)  The calls never fail (`.ub`). -/
theorem start_on_lowest (c : Cfg) (a : Nat) (ops : List Op) (op : Op) (hop : startsAdvertising op = true) :
    let s := finalState (init c a) ops
    (step s op).2 ≠ .ub ∧
    (effMap s ≠ 0 → ∀ ch d, (step s op).2 = .sched (some (ch, d)) →
      d = 0 ∧ 37 ≤ ch ∧ (enabledIdxs (effMap s)).head? = some (ch - 37)
        ∧ ch = currentChannel (step s op).1 ∧ effMap (step s op).1 = effMap s) := by
  intro s
  have hi : Inv s := inv_reachable c a ops
  have fin : ∀ r : St × Option (Nat × Nat), StartOk s r → effMap s ≠ 0 → ∀ ch d, r.2 = some (ch, d) →
      d = 0 ∧ 37 ≤ ch ∧ (enabledIdxs (effMap s)).head? = some (ch - 37)
        ∧ ch = currentChannel r.1 ∧ effMap r.1 = effMap s := by
    intro r hok hm ch d h
    obtain ⟨h1, h2, h3, h4⟩ := hok.2.2 ch d h
    refine ⟨h1, by omega, ?_, h2, hok.2.1⟩
    have := h4 hm
    rw [this, h3]; simp
  cases op with
  | llstart =>
    obtain ⟨r, he, hok⟩ := handleStart_ok s hi
    simp only [step, he]
    refine ⟨by simp, fun hm ch d h => fin r hok hm ch d ?_⟩
    simpa using h
  | start =>
    obtain ⟨r, he, hok⟩ := startAdv_ok s hi 0
    simp only [step, he]
    split
    · exact ⟨by simp, fun _ ch d h => by simp at h⟩
    · refine ⟨by simp, fun hm ch d h => fin r hok hm ch d ?_⟩
      simpa using h
  | startn n =>
    obtain ⟨r, he, hok⟩ := startAdv_ok s hi n
    simp only [step, he]
    split
    · exact ⟨by simp, fun _ ch d h => by simp at h⟩
    · refine ⟨by simp, fun hm ch d h => fin r hok hm ch d ?_⟩
      simpa using h
  | direct a' =>
    obtain ⟨r, he, hok⟩ := setDirected_ok s hi a'
    simp only [step, he]
    split
    · refine ⟨by simp, fun hm ch d h => fin r hok hm ch d ?_⟩
      simpa using h
    · exact ⟨by simp, fun _ ch d h => by simp at h⟩
  | _ => simp [startsAdvertising] at hop

/-- non-vacuity / the former witness: default options, PDUs on 37 and 38, a connection is made
    (`handle_stop_advertising`) and lost again: advertising restarts on 37 (without the fix: 38) -/
example :
    let c : Cfg := { varMap := false, varInterval := false, fixedMs := 100, autoStart := true, types := [.undirected] }
    ((run (init c 1) [.llstart, .timeout, .llstop, .llstart, .timeout]).map (·.2)) =
      [.sched (some (37, 0)), .sched (some (38, 0)), .ok, .sched (some (37, 0)), .sched (some (38, 0))] := by
  decide

/-- the same on the variable map {38, 39} after stop / start -/
example :
    let c : Cfg := { varMap := true, varInterval := true, fixedMs := 100, autoStart := false, types := [.undirected] }
    ((run (init c 1) [.remove 37, .start, .llstart, .timeout, .stop, .timeout, .start]).map (·.2)) =
      [.ok, .sched none, .sched (some (38, 0)), .sched (some (39, 0)), .ok, .sched none, .sched (some (38, 0))] := by
  decide

/-! ### every scheduled PDU, every history (map edits at any cursor position) -/

theorem head_enabled (m x : Nat) (h : (enabledIdxs m).head? = some x) : bitSet m x = true := by
  have hm : x ∈ enabledIdxs m := by
    cases hl : enabledIdxs m with
    | nil => simp [hl] at h
    | cons y t => simp [hl] at h; subst h; simp
  exact ((enabledIdxs_spec m x).mp hm).2

theorem sched_aux (P : Nat → Prop) (s : St)
    (hstart : ∀ op, startsAdvertising op = true → ∀ ch d, (step s op).2 = .sched (some (ch, d)) → P ch)
    (r : St × Option (Nat × Nat)) (he : handleTimeout s = some r) (hr : ∀ ch d, r.2 = some (ch, d) → P ch)
    (op : Op) (ch d : Nat)
    (h : (step s op).2 = .sched (some (ch, d)) ∨ ∃ acc, (step s op).2 = .recv acc (some (ch, d))) : P ch := by
  cases op with
  | llstart =>
    rcases h with h | ⟨acc, h⟩
    · exact hstart _ rfl ch d h
    · simp only [step] at h; split at h <;> simp at h
  | start =>
    rcases h with h | ⟨acc, h⟩
    · exact hstart _ rfl ch d h
    · simp only [step] at h; split at h <;> (try split at h) <;> simp at h
  | startn n =>
    rcases h with h | ⟨acc, h⟩
    · exact hstart _ rfl ch d h
    · simp only [step] at h; split at h <;> (try split at h) <;> simp at h
  | direct a' =>
    rcases h with h | ⟨acc, h⟩
    · exact hstart _ rfl ch d h
    · simp only [step] at h; split at h <;> (try split at h) <;> simp at h
  | timeout =>
    simp only [step, he] at h
    rcases h with h | ⟨acc, h⟩
    · simp only [Out.sched.injEq] at h
      exact hr ch d h
    · simp at h
  | recv pdu =>
    simp only [step] at h
    split at h
    · rcases h with h | ⟨acc, h⟩ <;> simp at h
    · split at h
      · rename_i s' acc' o heq
        rcases h with h | ⟨acc, h⟩
        · simp at h
        · simp only [Out.recv.injEq] at h
          simp only [handleReceive, he] at heq
          split at heq
          · simp only [Option.some.injEq, Prod.mk.injEq] at heq
            rw [← heq.2.2] at h; simp at h
          · simp only [Option.map_some, Option.some.injEq, Prod.mk.injEq] at heq
            rw [← heq.2.2] at h
            exact hr ch d h.2
      · rcases h with h | ⟨acc, h⟩ <;> simp at h
  | add x => simp only [step] at h; rcases h with h | ⟨acc, h⟩ <;> (split at h <;> (try split at h) <;> simp at h)
  | remove x => simp only [step] at h; rcases h with h | ⟨acc, h⟩ <;> (split at h <;> (try split at h) <;> simp at h)
  | interval ms => simp only [step] at h; rcases h with h | ⟨acc, h⟩ <;> (split at h <;> simp at h)
  | stop => simp only [step] at h; rcases h with h | ⟨acc, h⟩ <;> (split at h <;> simp at h)
  | llstop => simp [step] at h
  | dirty => simp [step] at h
  | change t => simp only [step] at h; rcases h with h | ⟨acc, h⟩ <;> (split at h <;> (try split at h) <;> (try split at h) <;> simp at h)
  | localAddr x => simp [step] at h
  | filter b => simp [step] at h
  | wladd x => simp [step] at h
  | wlremove x => simp [step] at h
  | scanfilter b => simp [step] at h
  | scanreq pdu => simp only [step] at h; rcases h with h | ⟨acc, h⟩ <;> (split at h <;> simp at h)

/-- **C24, never on a disabled channel — every step, every history.**  In every reachable state (any
    history of map edits, at any position of the channel cursor: between the PDUs of an event, after stop,
    after count exhaustion, before a restart, also edits the documentation calls unsupported) with a
    non-empty map: whichever call hands an advertising PDU to the radio — (re)start, `handle_adv_timeout`,
    `handle_adv_receive` that does not accept — the PDU goes to a channel that is enabled at that moment. -/
theorem scheduled_channel_enabled (c : Cfg) (a : Nat) (ops : List Op) (op : Op) (ch d : Nat)
    (hm : effMap (finalState (init c a) ops) ≠ 0)
    (h : (step (finalState (init c a) ops) op).2 = .sched (some (ch, d))
      ∨ ∃ acc, (step (finalState (init c a) ops) op).2 = .recv acc (some (ch, d))) :
    37 ≤ ch ∧ bitSet (effMap (finalState (init c a) ops)) (ch - 37) = true := by
  obtain ⟨r, he, _, hr⟩ := timeout_channel_successor c a ops hm
  refine sched_aux (fun ch => 37 ≤ ch ∧ bitSet (effMap (finalState (init c a) ops)) (ch - 37) = true) _ ?_ r he ?_ op ch d h
  · intro op hop ch d ho
    obtain ⟨_, h37, hh, _, _⟩ := (start_on_lowest c a ops op hop).2 hm ch d ho
    exact ⟨h37, head_enabled _ _ hh⟩
  · intro ch d h'
    obtain ⟨h1, _, h3, _⟩ := hr ch d h'
    exact ⟨h1, h3⟩

/-- non-vacuity: map {37, 38}, PDUs on 37 and 38, `add 39` in the middle of the running event: the code
    rewinds to the lowest channel, the next PDUs go to 38 (again), 39, 37 — all enabled (the order inside the
    event that was running is not preserved: edits while advertising are documented as unsupported) -/
example :
    let c : Cfg := { varMap := true, varInterval := false, fixedMs := 30, autoStart := true, types := [.undirected] }
    ((run (init c 1) [.remove 39, .llstart, .timeout, .add 39, .timeout, .timeout, .timeout]).map (·.2)) =
      [.ok, .sched (some (37, 0)), .sched (some (38, 0)), .ok, .sched (some (38, 0)), .sched (some (39, 0)),
       .sched (some (37, 37000))] := by
  decide

/-! ### start / stop / count -/

def pduOf : Out → Nat
  | .sched (some _) => 1
  | .recv _ (some _) => 1
  | _ => 0

def pdus : List (St × Out) → Nat
  | [] => 0
  | r :: rs => pduOf r.2 + pdus rs

/-- number of PDUs start/stop/count still permit; `none`: unbounded -/
def budget (s : St) : Option Nat :=
  if s.cfg.autoStart then none
  else if s.enabled then (if s.count = 0 then none else some s.count) else some 0

def isStart : Op → Bool
  | .start => true
  | .startn _ => true
  | _ => false

theorem fillSel_budget (s : St) : budget (fillSel s).1 = budget s := by
  rcases fillSel_cases s with h | h <;> rw [h] <;> rfl

theorem countDown_budget (s : St) (ha : s.cfg.autoStart = false) (b : Nat) (h : budget s = some b) :
    ∃ b', budget (countDown s) = some b' ∧ b' ≤ b ∧ (s.enabled = true → b' + 1 ≤ b) ∧
      (countDown s).cfg = s.cfg := by
  unfold budget at h
  simp only [ha, Bool.false_eq_true, if_false] at h
  unfold countDown budget
  by_cases he : s.enabled = true
  · simp only [he, if_true] at h
    by_cases hc : s.count = 0
    · simp [hc] at h
    · simp only [hc, if_false, Option.some.injEq] at h
      subst h
      by_cases h1 : s.count - 1 = 0
      · refine ⟨0, by simp [hc, ha, h1], by omega, by intro _; omega, by simp [hc]⟩
      · refine ⟨s.count - 1, by simp [hc, ha, h1, he], by omega, by intro _; omega, by simp [hc]⟩
  · have he' : s.enabled = false := by simpa using he
    simp only [he', Bool.false_eq_true, if_false, Option.some.injEq] at h
    subst h
    by_cases hc : s.count = 0
    · simp [hc, ha, he']
    · by_cases h1 : s.count - 1 = 0 <;> simp [hc, ha, h1, he']

theorem startGate_budget (s : St) (ha : s.cfg.autoStart = false) (b : Nat) (h : budget s = some b) :
    ∃ b', budget (startGate s).1 = some b' ∧ (if (startGate s).2 then 1 else 0) + b' ≤ b ∧
      (startGate s).1.cfg = s.cfg := by
  unfold startGate
  simp only
  have hb : budget (fillSel { s with selected := s.proposal }).1 = some b := by
    rw [fillSel_budget]; exact h
  have hc : (fillSel { s with selected := s.proposal }).1.cfg = s.cfg := (fillSel_same _).1
  generalize (fillSel { s with selected := s.proposal }) = r at *
  split
  · unfold beginEvents
    have ha' : r.1.cfg.autoStart = false := by rw [hc]; exact ha
    simp only [ha', Bool.false_eq_true, if_false]
    obtain ⟨b', h1, h2, h3, h4⟩ := countDown_budget r.1 ha' b hb
    refine ⟨b', ?_, ?_, by rw [← hc, ← h4]⟩
    · simpa [budget] using h1
    · by_cases he : r.1.enabled = true
      · simp [he]; have := h3 he; omega
      · simp [he]; omega
  · exact ⟨b, hb, by simp, hc⟩

theorem timeoutGate_budget (s : St) (ha : s.cfg.autoStart = false) (b : Nat) (h : budget s = some b) :
    ∃ b', budget (timeoutGate s).1 = some b' ∧ (if (timeoutGate s).2 then 1 else 0) + b' ≤ b ∧
      (timeoutGate s).1.cfg = s.cfg := by
  unfold timeoutGate
  simp only
  have hb : budget (chooseData s).1 = some b := by
    unfold chooseData
    split
    · rw [fillSel_budget]; exact h
    · split
      · rw [fillSel_budget]; exact h
      · exact h
  have hc : (chooseData s).1.cfg = s.cfg := (chooseData_same s).1
  generalize chooseData s = r at *
  split
  · unfold continuedEvents
    have ha' : r.1.cfg.autoStart = false := by rw [hc]; exact ha
    simp only [ha', Bool.false_eq_true, if_false]
    obtain ⟨b', h1, h2, h3, h4⟩ := countDown_budget r.1 ha' b hb
    refine ⟨b', h1, ?_, by rw [← hc, ← h4]⟩
    by_cases he : r.1.enabled = true
    · have := h3 he; split <;> omega
    · simp [he]; omega
  · exact ⟨b, hb, by simp, hc⟩

theorem selectFirst_frame (s s' : St) (h : selectFirst s = some s') : ∃ i, s' = { s with idx := i } := by
  unfold selectFirst at h
  split at h
  · split at h
    · simp only [Option.map_eq_some_iff] at h
      obtain ⟨f, _, hf⟩ := h; exact ⟨f, hf.symm⟩
    · simp only [Option.some.injEq] at h; exact ⟨s.idx, h.symm⟩
  · simp only [Option.some.injEq] at h; exact ⟨37, h.symm⟩

theorem handleStart_budget (s : St) (ha : s.cfg.autoStart = false) (b : Nat) (h : budget s = some b)
    (r : St × Option (Nat × Nat)) (hr : handleStart s = some r) :
    ∃ b', budget r.1 = some b' ∧ (if r.2.isSome then 1 else 0) + b' ≤ b ∧ r.1.cfg = s.cfg := by
  obtain ⟨b', h1, h2, h3⟩ := startGate_budget s ha b h
  unfold handleStart at hr
  simp only at hr
  split at hr
  · rename_i hg
    simp only [hg, if_true] at h2
    simp only [Option.map_eq_some_iff] at hr
    obtain ⟨s', hs', hr⟩ := hr
    obtain ⟨i, hi⟩ := selectFirst_frame _ _ hs'
    subst hr; subst hi
    exact ⟨b', h1, by simpa using h2, h3⟩
  · rename_i hg
    simp [hg] at h2
    simp only [Option.some.injEq] at hr
    subst hr
    exact ⟨b', h1, by simpa using h2, h3⟩

theorem nextChannelAndDelay_frame (s : St) (x : St × Nat) (h : nextChannelAndDelay s = some x) :
    x.1.cfg = s.cfg ∧ x.1.enabled = s.enabled ∧ x.1.count = s.count := by
  unfold nextChannelAndDelay at h
  simp only at h
  generalize (if s.cfg.varMap = true then nextIdxVar s.idx s.map else some (nextIdxAll s.idx)) = n at h
  cases n with
  | none => simp at h
  | some i =>
    simp only [Option.bind_some, nextAdvEvent, Option.map_eq_some_iff] at h
    obtain ⟨first, _, hf⟩ := h
    cases first <;> simp at hf <;> subst hf <;> exact ⟨rfl, rfl, rfl⟩

theorem handleTimeout_budget (s : St) (ha : s.cfg.autoStart = false) (b : Nat) (h : budget s = some b)
    (r : St × Option (Nat × Nat)) (hr : handleTimeout s = some r) :
    ∃ b', budget r.1 = some b' ∧ (if r.2.isSome then 1 else 0) + b' ≤ b ∧ r.1.cfg = s.cfg := by
  obtain ⟨b', h1, h2, h3⟩ := timeoutGate_budget s ha b h
  unfold handleTimeout at hr
  simp only at hr
  split at hr
  · rename_i hg
    simp only [hg, if_true] at h2
    cases hn : nextChannelAndDelay (timeoutGate s).1 with
    | none => simp [hn] at hr
    | some x =>
      simp only [hn, Option.map_some, Option.some.injEq] at hr
      subst hr
      have hx := nextChannelAndDelay_frame _ x hn
      refine ⟨b', ?_, by simpa using h2, by rw [hx.1, h3]⟩
      unfold budget at h1 ⊢
      rw [hx.1, hx.2.1, hx.2.2]; exact h1
  · rename_i hg
    simp [hg] at h2
    simp only [Option.some.injEq] at hr
    subst hr
    exact ⟨b', h1, by simpa using h2, h3⟩

theorem step_budget (s : St) (ha : s.cfg.autoStart = false) (b : Nat) (h : budget s = some b)
    (op : Op) (hop : isStart op = false) :
    ∃ b', budget (step s op).1 = some b' ∧ pduOf (step s op).2 + b' ≤ b ∧ (step s op).1.cfg = s.cfg := by
  have same : ∃ b', budget s = some b' ∧ 0 + b' ≤ b ∧ s.cfg = s.cfg := ⟨b, h, by omega, rfl⟩
  cases op with
  | add ch =>
    simp only [step]; split
    · split
      · rename_i s' hs
        simp only [addChannel, Option.map_eq_some_iff] at hs
        obtain ⟨f, _, hf⟩ := hs; subst hf; exact ⟨b, h, by simp [pduOf], rfl⟩
      · exact same
    · exact same
  | remove ch =>
    simp only [step]; split
    · split
      · rename_i s' hs
        unfold removeChannel at hs
        simp only at hs
        split at hs
        · simp only [Option.map_eq_some_iff] at hs
          obtain ⟨f, _, hf⟩ := hs; subst hf; exact ⟨b, h, by simp [pduOf], rfl⟩
        · simp only [Option.some.injEq] at hs; subst hs; exact ⟨b, h, by simp [pduOf], rfl⟩
      · exact same
    · exact same
  | interval ms =>
    simp only [step]; split
    · unfold setIntervalMs; split
      · exact ⟨b, h, by simp [pduOf], rfl⟩
      · exact same
    · exact same
  | start => simp [isStart] at hop
  | startn n => simp [isStart] at hop
  | stop =>
    simp only [step, ha, Bool.false_eq_true, if_false]
    exact ⟨0, by simp [budget, stopAdv, ha], by simp [pduOf], by first | rfl | trivial⟩
  | llstart =>
    simp only [step]; split
    · rename_i s' o hr
      obtain ⟨b', h1, h2, h3⟩ := handleStart_budget s ha b h (s', o) hr
      refine ⟨b', h1, ?_, h3⟩
      cases o <;> simp [pduOf] at h2 ⊢ <;> omega
    · exact same
  | llstop =>
    simp only [step, endEvents, ha, Bool.false_eq_true, if_false]
    exact ⟨0, by simp [budget, ha], by simp [pduOf], by first | rfl | trivial⟩
  | timeout =>
    simp only [step]; split
    · rename_i s' o hr
      obtain ⟨b', h1, h2, h3⟩ := handleTimeout_budget s ha b h (s', o) hr
      refine ⟨b', h1, ?_, h3⟩
      cases o <;> simp [pduOf] at h2 ⊢ <;> omega
    · exact same
  | dirty => exact ⟨b, h, by simp [step, pduOf], rfl⟩
  | change t =>
    simp only [step]
    split
    · split
      · split
        · exact ⟨b, h, by simp [pduOf], rfl⟩
        · exact same
      · exact same
    · exact same
  | direct a =>
    simp only [step]; split
    · split
      · rename_i s' o hr
        unfold setDirected at hr
        simp only at hr
        split at hr
        · obtain ⟨b', h1, h2, h3⟩ :=
            handleStart_budget { s with dAddr := a, dValid := a != nullAddr } ha b h (s', o) hr
          refine ⟨b', h1, ?_, h3⟩
          cases o <;> simp [pduOf] at h2 ⊢ <;> omega
        · simp only [Option.some.injEq, Prod.mk.injEq] at hr
          obtain ⟨g1, g2⟩ := hr; subst g1; subst g2
          exact ⟨b, h, by simp [pduOf], rfl⟩
      · exact same
    · exact same
  | localAddr a => exact ⟨b, h, by simp [step, pduOf], rfl⟩
  | filter f => exact ⟨b, h, by simp [step, pduOf], rfl⟩
  | wladd a => exact ⟨b, h, by simp [step, pduOf], rfl⟩
  | wlremove a => exact ⟨b, h, by simp [step, pduOf], rfl⟩
  | scanfilter f => exact ⟨b, h, by simp [step, pduOf], rfl⟩
  | scanreq pdu => simp only [step]; split <;> exact same
  | recv pdu =>
    simp only [step]; split
    · exact same
    · split
      · rename_i s' acc o hr
        simp only [handleReceive] at hr
        split at hr
        · simp only [Option.some.injEq, Prod.mk.injEq] at hr
          obtain ⟨h1, _, h3⟩ := hr; subst h1; subst h3
          exact ⟨b, h, by simp [pduOf], rfl⟩
        · cases ht : handleTimeout s with
          | none => simp [ht] at hr
          | some r =>
            simp only [ht, Option.map_some, Option.some.injEq, Prod.mk.injEq] at hr
            obtain ⟨h1, _, h3⟩ := hr; subst h1; subst h3
            obtain ⟨b', g1, g2, g3⟩ := handleTimeout_budget s ha b h r ht
            refine ⟨b', g1, ?_, g3⟩
            cases hro : r.2 <;> simp [hro, pduOf] at g2 ⊢ <;> omega
      · exact same

/-- **C24, start/stop/count.**  With `no_auto_start_advertising`: in a state in which the controls
    permit `b` more PDUs (`budget`: 0 when not started / stopped / count exhausted / connection
    established, `count` after `start_advertising( count )`), no history without a new start call
    schedules more than `b` PDUs — whatever the link layer, the channel map or the application
    do.  Every advertising event has at least one PDU, so this also bounds the events. -/
theorem count_bounds_pdus (s : St) (ha : s.cfg.autoStart = false) (b : Nat) (h : budget s = some b)
    (ops : List Op) (hs : ∀ op ∈ ops, isStart op = false) : pdus (run s ops) ≤ b := by
  induction ops generalizing s b with
  | nil => simp [run, pdus]
  | cons op ops ih =>
    obtain ⟨b', h1, h2, h3⟩ := step_budget s ha b h op (hs op (by simp))
    have := ih (step s op).1 (by rw [h3]; exact ha) b' h1 (fun o ho => hs o (by simp [ho]))
    simp only [run, pdus]
    omega

/-- `start_advertising( n )` permits exactly `n` PDUs (including the one it may schedule itself),
    `stop_advertising` none -/
theorem startn_budget (s : St) (hi : Inv s) (ha : s.cfg.autoStart = false) (n : Nat) (hn : n ≠ 0)
    (ops : List Op) (hs : ∀ op ∈ ops, isStart op = false) :
    pdus (run s (.startn n :: ops)) ≤ n := by
  have hb : budget { s with count := n, enabled := true } = some n := by simp [budget, ha, hn]
  have key : ∃ b', budget (step s (.startn n)).1 = some b' ∧ pduOf (step s (.startn n)).2 + b' ≤ n
      ∧ (step s (.startn n)).1.cfg = s.cfg := by
    obtain ⟨r, he, _⟩ := startAdv_ok s hi n
    simp only [step, ha, hn, Bool.false_eq_true, false_or, if_false, he]
    unfold startAdv at he
    simp only at he
    split at he
    · obtain ⟨b', h1, h2, h3⟩ := handleStart_budget { s with count := n, enabled := true } ha n hb r he
      refine ⟨b', h1, ?_, h3⟩
      cases ho : r.2 <;> simp [ho, pduOf] at h2 ⊢ <;> omega
    · simp only [Option.some.injEq] at he
      subst he
      exact ⟨n, hb, by simp [pduOf], rfl⟩
  obtain ⟨b', h1, h2, h3⟩ := key
  have := count_bounds_pdus (step s (.startn n)).1 (by rw [h3]; exact ha) b' h1 ops hs
  simp only [run, pdus]
  omega

theorem stop_silences (s : St) (ha : s.cfg.autoStart = false)
    (ops : List Op) (hs : ∀ op ∈ ops, isStart op = false) :
    pdus (run s (.stop :: ops)) = 0 := by
  have hb : budget (step s .stop).1 = some 0 := by simp [step, ha, stopAdv, budget]
  have := count_bounds_pdus (step s .stop).1 (by simp [step, ha, stopAdv]) 0 hb ops hs
  simp only [run, pdus, step, ha, Bool.false_eq_true, if_false, pduOf] at this ⊢
  omega

/-- non-vacuity: count 3 on map {38, 39}: exactly three PDUs, then silence until the next start -/
example :
    let c : Cfg := { varMap := true, varInterval := true, fixedMs := 100, autoStart := false, types := [.undirected] }
    ((run (init c 1) [.remove 37, .llstart, .startn 3, .timeout, .timeout, .timeout, .timeout]).map (·.2)) =
      [.ok, .sched none, .sched (some (38, 0)), .sched (some (39, 0)), .sched (some (38, 107000)),
       .sched none, .sched none] := by
  decide

end BluetoeModel.Adv
