import BluetoeModel.WhiteList.Model
/-
  Model of the advertiser of the link layer:
  src: bluetoe/link_layer/include/bluetoe/advertising.hpp
       (channel maps, advertising interval + perturbation, auto / no_auto start, the four
        advertising types, details::advertiser<> single and multiple type variants,
        is_valid_connect_request, handle_adv_receive) and the connection request filter of
       bluetoe/link_layer/include/bluetoe/white_list.hpp (model shared with C26).

  The link layer (or, in the harness, a mock of it) calls `handle_start_advertising`,
  `handle_stop_advertising`, `handle_adv_timeout`, `handle_adv_receive`; the application calls
  the map / interval / start / stop / change / directed-address functions.  What the advertiser
  hands to the radio, `schedule_advertisment( channel, …, when, … )`, is the output of a step.
-/
namespace BluetoeModel.Adv

open BluetoeModel.WhiteList (WL Addr)

inductive AdvType where
  | undirected | directed | scannable | nonconn
deriving Repr, DecidableEq

/-- the compile time options of the advertiser -/
structure Cfg where
  varMap      : Bool          -- variable_advertising_channel_map (else all_advertising_channel_map)
  varInterval : Bool          -- variable_advertising_interval (else advertising_interval< fixedMs >)
  fixedMs     : Nat
  autoStart   : Bool          -- auto_start_advertising (else no_auto_start_advertising)
  types       : List AdvType  -- two or more: the multiple type advertiser (change_advertising)
deriving Repr, DecidableEq

structure St where
  cfg        : Cfg
  idx        : Nat    -- current_channel_index_ (variable map: 0..; all channels map: 37..39)
  map        : Nat    -- map_ (variable map only)
  pert       : Nat    -- adv_perturbation_
  intervalUs : Nat    -- variable_advertising_interval::interval_ in µs
  started    : Bool   -- no_auto_start_advertising::impl
  enabled    : Bool
  count      : Nat
  dAddr      : Addr   -- connectable_directed_advertising::impl
  dValid     : Bool
  dStarted   : Bool
  selected   : Nat    -- multiple advertiser
  proposal   : Nat
  dirty      : Bool   -- what l2cap_adverting_data_or_scan_response_data_changed() will answer
  localAddr  : Addr   -- link layer's local_address()
  wl         : WL     -- white_list<4>
deriving Repr, DecidableEq

/-- the default constructed `device_address()`: 00:00:00:00:00:00, random (address.cpp) -/
def nullAddr : Addr := 1

def init (c : Cfg) (localAddr : Addr) : St :=
  { cfg := c, idx := if c.varMap then 0 else 37, map := 7, pert := 0, intervalUs := 100000,
    started := false, enabled := false, count := 0, dAddr := nullAddr, dValid := false,
    dStarted := false, selected := 0, proposal := 0, dirty := false, localAddr := localAddr,
    wl := BluetoeModel.WhiteList.init 4 }

/-! ### channel maps -/

/-- src: variable_advertising_channel_map::first_channel_index.  `none`: the loop shifts by 32 or
    more (undefined behaviour; happens only for an empty map) -/
def firstIdxFrom : Nat → Nat → Nat → Option Nat
  | 0, _, _ => none
  | f + 1, i, m => if m &&& (1 <<< i) = 0 then firstIdxFrom f (i + 1) m else some i

def firstIdx (m : Nat) : Option Nat := firstIdxFrom 32 0 m

/-- the skip loop of `next_channel`:
    `for ( ; ( map_ & ( 1u << i ) ) == 0 && ( 1u << i ) <= map_; ++i );` -/
def seek : Nat → Nat → Nat → Nat
  | 0, i, _ => i
  | f + 1, i, m => if m &&& (1 <<< i) = 0 ∧ (1 <<< i) ≤ m then seek f (i + 1) m else i

/-- src: variable_advertising_channel_map::next_channel; `none` = `assert( map_ != 0 )` fails -/
def nextIdxVar (idx m : Nat) : Option Nat :=
  if m = 0 then none
  else
    let i := seek 32 (idx + 1) m
    if (1 <<< i) > m then firstIdx m else some i

/-- src: all_advertising_channel_map::next_channel -/
def nextIdxAll (idx : Nat) : Nat := if idx = 39 then 37 else idx + 1

/-- src: {variable,all}_advertising_channel_map::current_channel -/
def currentChannel (s : St) : Nat := if s.cfg.varMap then s.idx + 37 else s.idx

/-- src: {variable,all}_advertising_channel_map::first_channel_selected -/
def firstSelected (s : St) : Option Bool :=
  if s.cfg.varMap then (firstIdx s.map).map (fun f => s.idx == f) else some (s.idx == 37)

/-- src: {variable,all}_advertising_channel_map::select_first_channel (fixes/adv-02): the variable map
    does `if ( map_ ) current_channel_index_ = first_channel_index();`; `none`: shift count 32 in
    first_channel_index (never taken behind the guard, see `selectFirst_spec`) -/
def selectFirst (s : St) : Option St :=
  if s.cfg.varMap then
    if s.map ≠ 0 then (firstIdx s.map).map fun f => { s with idx := f } else some s
  else some { s with idx := 37 }

/-- src: add_channel_to_advertising_channel_map (channel already checked to be 37..39) -/
def addChannel (s : St) (ch : Nat) : Option St :=
  let m := s.map ||| (1 <<< (ch - 37))
  (firstIdx m).map fun f => { s with map := m, idx := f }

/-- src: remove_channel_from_advertsing_channel_map; `~( 1 << channel )` on a 32 bit unsigned -/
def removeChannel (s : St) (ch : Nat) : Option St :=
  let m := s.map &&& (0xFFFFFFFF ^^^ (1 <<< (ch - 37)))
  if m ≠ 0 then (firstIdx m).map fun f => { s with map := m, idx := f }
  else some { s with map := m }

/-! ### interval -/

/-- src: advertising_interval<>::current_advertising_interval /
         variable_advertising_interval::current_advertising_interval, in µs -/
def currentInterval (s : St) : Nat := if s.cfg.varInterval then s.intervalUs else s.cfg.fixedMs * 1000

/-- src: variable_advertising_interval::advertising_interval_ms -/
def setIntervalMs (s : St) (ms : Nat) : St :=
  if 20 ≤ ms ∧ ms ≤ 10240 then { s with intervalUs := ms * 1000 } else s

/-- src: advertiser_base::next_adv_event; result: delay in µs (`delta_time::now()` = 0) -/
def nextAdvEvent (s : St) : Option (St × Nat) :=
  (firstSelected s).map fun first =>
    if !first then (s, 0)
    else
      let p := (s.pert + 7) % 11
      ({ s with pert := p }, currentInterval s + p * 1000)

/-! ### start / stop -/

/-- the count down shared by begin_ / continued_advertising_events -/
def countDown (s : St) : St :=
  if s.count ≠ 0 then
    let c := s.count - 1
    { s with count := c, enabled := if c = 0 then false else s.enabled }
  else s

/-- src: {auto,no_auto}_start_advertising::impl::begin_of_advertising_events -/
def beginEvents (s : St) : St × Bool :=
  if s.cfg.autoStart then (s, true)
  else ({ countDown s with started := true }, s.enabled)

/-- src: {auto,no_auto}_start_advertising::impl::continued_advertising_events -/
def continuedEvents (s : St) : St × Bool :=
  if s.cfg.autoStart then (s, true)
  else (countDown s, s.enabled && s.started)

/-- src: {auto,no_auto}_start_advertising::impl::end_of_advertising_events -/
def endEvents (s : St) : St :=
  if s.cfg.autoStart then s else { s with started := false, enabled := false }

/-! ### advertising types -/

/-- src: <type>::impl::fill_advertising_data; the Bool: the returned buffer is not empty -/
def fillT (s : St) : AdvType → St × Bool
  | .directed => if !s.dValid then ({ s with dStarted := true }, false) else (s, true)
  | _ => (s, true)

/-- src: <type>::impl::get_advertising_data -/
def getT (s : St) : AdvType → Bool
  | .directed => s.dValid
  | _ => true

/-- src: multipl_advertiser_base::fill_advertising_data( selected ) (base case: empty buffer) -/
def fillSel (s : St) : St × Bool :=
  match s.cfg.types[s.selected]? with
  | some t => fillT s t
  | none => (s, false)

def getSel (s : St) : Bool :=
  match s.cfg.types[s.selected]? with
  | some t => getT s t
  | none => false

/-! ### PDUs -/

def le (bs : List UInt8) : Nat := bs.foldr (fun b acc => b.toNat + 256 * acc) 0

/-- 16 bit header of a PDU in the default layout -/
def header (pdu : List UInt8) : Nat := le (pdu.take 2)

/-- `device_address( &body[ off ], random )` as a number: 48 bits * 2 + random -/
def addrAt (pdu : List UInt8) (off : Nat) (random : Bool) : Addr :=
  le ((pdu.drop (2 + off)).take 6) * 2 + (if random then 1 else 0)

/-- src: advertising_type_base::is_valid_connect_request (default layout: `receive.size` is the
    length of `pdu`, header = first two octets, body behind it) -/
def validConnectBase (pdu : List UInt8) (localAddr : Addr) : Bool :=
  if pdu.length ≠ 36 then false
  else
    let h := header pdu
    ((h >>> 8) &&& 0x3f) == 34 && (h &&& 0x0f) == 5
      && le ((pdu.drop 8).take 6) == localAddr / 2            -- AdvA == own address
      && (localAddr % 2 == 1) == ((h &&& 0x80) != 0)          -- RxAdd == own address type

/-- src: advertising_type_base::is_valid_scan_request (default layout) -/
def validScanBase (pdu : List UInt8) (localAddr : Addr) : Bool :=
  if pdu.length ≠ 14 then false
  else
    let h := header pdu
    ((h >>> 8) &&& 0x3f) == 12 && (h &&& 0x0f) == 3
      && le ((pdu.drop 8).take 6) == localAddr / 2            -- AdvA == own address
      && (localAddr % 2 == 1) == ((h &&& 0x80) != 0)          -- RxAdd == own address type

/-- src: bluetoe/bindings/nordic/nrf52/include/bluetoe/nrf52.hpp nrf52_radio_base::is_valid_scan_request
    (the same text is in nrf51/nrf51.cpp), with fixes/adv-03: the scanner address handed to the scan
    filter takes its type from TxAdd of the *request* (before: from the advertiser's own TxAdd).
    `pdu` is the content of the receive buffer (36 octets; the ISR does not look at the received size),
    `resolving_address_invalid()` false, `pdu_gap` 0; the caller checks `response_data_.buffer`
    (`hasScanResponse`).  The length octet is compared with all 8 bits. -/
def nrfValidScan (pdu : List UInt8) (localAddr : Addr) (w : WL) : Bool :=
  let h := header pdu
  (h >>> 8) == 12 && (h &&& 0x0f) == 3
    && le ((pdu.drop 8).take 6) == localAddr / 2
    && (localAddr % 2 == 1) == ((h &&& 0x80) != 0)
    && BluetoeModel.WhiteList.scanIn w (addrAt pdu 0 ((h &&& 0x40) != 0))

/-- src: <type>::impl::get_scan_response_data: the advertising types that hand a scan response to the
    radio (`response_data_.buffer != nullptr` in the ISR) -/
def hasScanResponse : AdvType → Bool
  | .undirected => true
  | .scannable => true
  | .directed => false
  | .nonconn => false

/-- the nRF52 radio ISR answers the PDU in the receive buffer with the scan response -/
def nrfAnswers (s : St) (pdu : List UInt8) : Bool :=
  match s.cfg.types[s.selected]? with
  | some t => hasScanResponse t && nrfValidScan pdu s.localAddr s.wl
  | none => false

/-- src: <type>::impl::is_valid_connect_request -/
def validConnectT (s : St) (pdu : List UInt8) : AdvType → Bool
  | .undirected => validConnectBase pdu s.localAddr
  | .directed =>
      validConnectBase pdu s.localAddr
        && le ((pdu.drop 2).take 6) == s.dAddr / 2 && s.dValid  -- InitA == directed address
        && (s.dAddr % 2 == 1) == ((header pdu &&& 0x40) != 0)    -- TxAdd == its type
  | .scannable => false
  | .nonconn => false

def validConnect (s : St) (pdu : List UInt8) : Bool :=
  match s.cfg.types[s.selected]? with
  | some t => validConnectT s pdu t
  | none => false

/-! ### the advertiser -/

inductive Out where
  | ok | bad
  | ub                                     -- assertion failure / undefined behaviour in the C++
  | bool (b : Bool)
  | sched (s : Option (Nat × Nat))         -- schedule_advertisment( channel, …, delay µs, … )
  | recv (acc : Option Addr) (s : Option (Nat × Nat))
  | scan (valid inFilter : Bool)
deriving Repr, DecidableEq

/-- the part of handle_start_advertising in front of the scheduling: advertising data filled and
    not empty, and start/stop/count permit a PDU -/
def startGate (s : St) : St × Bool :=
  let r := fillSel { s with selected := s.proposal }
  if r.2 then beginEvents r.1 else (r.1, false)

/-- src: advertiser::handle_start_advertising (single and multiple type variant), with
    fixes/adv-02: `select_first_channel()` in front of `schedule_advertisment( current_channel(), … )`;
    outer `none`: undefined behaviour in first_channel_index -/
def handleStart (s : St) : Option (St × Option (Nat × Nat)) :=
  let r := startGate s
  if r.2 then (selectFirst r.1).map fun s' => (s', some (currentChannel s', 0)) else some (r.1, none)

/-- `this->next_channel()` followed by `this->next_adv_event()` as used by handle_adv_timeout;
    `none`: assertion failure / undefined behaviour (empty channel map) -/
def nextChannelAndDelay (s : St) : Option (St × Nat) :=
  let next := if s.cfg.varMap then nextIdxVar s.idx s.map else some (nextIdxAll s.idx)
  next.bind fun i => nextAdvEvent { s with idx := i }

/-- handle_adv_timeout: `selected_ != proposal_ || l2cap_adverting_data_or_scan_response_data_changed()`
    (short circuit: the changed flag is only consumed when the types are equal) decides between
    `fill_advertising_data` and `get_advertising_data`; the Bool: the data is not empty -/
def chooseData (s : St) : St × Bool :=
  if s.selected ≠ s.proposal then fillSel { s with selected := s.proposal }
  else if s.dirty then fillSel { s with dirty := false, selected := s.proposal }
  else ({ s with dirty := false, selected := s.proposal },
        getSel { s with dirty := false, selected := s.proposal })

/-- the part of handle_adv_timeout in front of `next_channel()`: data not empty and
    start/stop/count permit another PDU -/
def timeoutGate (s : St) : St × Bool :=
  let r := chooseData s
  if r.2 then continuedEvents r.1 else (r.1, false)

/-- src: advertiser::handle_adv_timeout; outer `none`: assertion failure in next_channel -/
def handleTimeout (s : St) : Option (St × Option (Nat × Nat)) :=
  let r := timeoutGate s
  if r.2 then (nextChannelAndDelay r.1).map fun x => (x.1, some (currentChannel x.1, x.2))
  else some (r.1, none)

/-- src: advertiser::handle_adv_receive; first component of the result: the accepted initiator -/
def handleReceive (s : St) (pdu : List UInt8) : Option (St × Option Addr × Option (Nat × Nat)) :=
  let remote := addrAt pdu 0 ((header pdu &&& 0x40) != 0)
  if validConnect s pdu && BluetoeModel.WhiteList.connIn s.wl remote then some (s, some remote, none)
  else (handleTimeout s).map fun (s', o) => (s', none, o)

/-- src: connectable_directed_advertising::impl::directed_advertising_address -/
def setDirected (s : St) (a : Addr) : Option (St × Option (Nat × Nat)) :=
  let valid := a != nullAddr
  let start := !s.dValid && valid
  let go := start && s.dStarted
  let s := { s with dAddr := a, dValid := valid }
  if go then handleStart s else some (s, none)

/-- src: no_auto_start_advertising::impl::start_advertising() / ( count ): `n = 0` is the
    variant without count -/
def startAdv (s : St) (n : Nat) : Option (St × Option (Nat × Nat)) :=
  let start := !s.enabled
  let go := start && s.started
  let s := { s with count := n, enabled := true }
  if go then handleStart s else some (s, none)

/-- src: no_auto_start_advertising::impl::stop_advertising -/
def stopAdv (s : St) : St := { s with enabled := false, count := 0 }

inductive Op where
  | add (ch : Nat) | remove (ch : Nat) | interval (ms : Nat)
  | start | startn (n : Nat) | stop
  | llstart | llstop | timeout | dirty
  | change (t : Nat) | direct (a : Addr) | localAddr (a : Addr)
  | filter (b : Bool) | wladd (a : Addr) | wlremove (a : Addr)
  | recv (pdu : List UInt8)
  | scanfilter (b : Bool) | scanreq (pdu : List UInt8)
deriving Repr, DecidableEq

def advTypeOfNat : Nat → Option AdvType
  | 0 => some .undirected | 1 => some .directed | 2 => some .scannable | 3 => some .nonconn
  | _ => none

def step (s : St) : Op → St × Out
  | .add ch =>
      if s.cfg.varMap ∧ 37 ≤ ch ∧ ch ≤ 39 then
        match addChannel s ch with | some s' => (s', .ok) | none => (s, .ub)
      else (s, .bad)
  | .remove ch =>
      if s.cfg.varMap ∧ 37 ≤ ch ∧ ch ≤ 39 then
        match removeChannel s ch with | some s' => (s', .ok) | none => (s, .ub)
      else (s, .bad)
  | .interval ms => if s.cfg.varInterval then (setIntervalMs s ms, .ok) else (s, .bad)
  | .start =>
      if s.cfg.autoStart then (s, .bad)
      else match startAdv s 0 with | some (s', o) => (s', .sched o) | none => (s, .ub)
  | .startn n =>
      if s.cfg.autoStart ∨ n = 0 then (s, .bad)
      else match startAdv s n with | some (s', o) => (s', .sched o) | none => (s, .ub)
  | .stop => if s.cfg.autoStart then (s, .bad) else (stopAdv s, .ok)
  | .llstart => match handleStart s with | some (s', o) => (s', .sched o) | none => (s, .ub)
  | .llstop => (endEvents s, .ok)
  | .timeout => match handleTimeout s with | some (s', o) => (s', .sched o) | none => (s, .ub)
  | .dirty => ({ s with dirty := true }, .ok)
  | .change t =>
      -- change_advertising< Type >: index_of< Type, configured types... >
      if 2 ≤ s.cfg.types.length then
        match advTypeOfNat t with
        | some ty => if ty ∈ s.cfg.types then ({ s with proposal := s.cfg.types.idxOf ty }, .ok) else (s, .bad)
        | none => (s, .bad)
      else (s, .bad)
  | .direct a =>
      if AdvType.directed ∈ s.cfg.types then
        match setDirected s a with | some (s', o) => (s', .sched o) | none => (s, .ub)
      else (s, .bad)
  | .localAddr a => ({ s with localAddr := a }, .ok)
  | .filter b => ({ s with wl := { s.wl with connFilter := b } }, .ok)
  | .wladd a => let (w, r) := BluetoeModel.WhiteList.add s.wl a; ({ s with wl := w }, .bool r)
  | .wlremove a => let (w, r) := BluetoeModel.WhiteList.remove s.wl a; ({ s with wl := w }, .bool r)
  | .scanfilter b => ({ s with wl := { s.wl with scanFilter := b } }, .ok)
  | .scanreq pdu =>
      if pdu.length < 2 then (s, .bad)
      else (s, .scan (validScanBase pdu s.localAddr)
                (BluetoeModel.WhiteList.scanIn s.wl (addrAt pdu 0 ((header pdu &&& 0x40) != 0))))
  | .recv pdu =>
      if pdu.length < 2 then (s, .bad)
      else match handleReceive s pdu with
        | some (s', acc, o) => (s', .recv acc o)
        | none => (s, .ub)

/-- run a history; every element: the state *after* the op and the op's output -/
def run (s : St) : List Op → List (St × Out)
  | [] => []
  | op :: ops => let r := step s op; r :: run r.1 ops

def finalState (s : St) : List Op → St
  | [] => s
  | op :: ops => finalState (step s op).1 ops

end BluetoeModel.Adv
