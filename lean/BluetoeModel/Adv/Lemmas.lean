import BluetoeModel.Adv.Model
/-!
  Helper definitions and lemmas for C24: the specification side (enabled channels, cyclic
  successor), complete finite tables for the bit-level channel map code (`decide` over the whole
  domain `map < 8`, `index < 3`), the state invariant and its preservation.
-/
namespace BluetoeModel.Adv

/-- channel `37 + i` is enabled in the channel map `m` -/
def bitSet (m i : Nat) : Bool := m &&& (1 <<< i) != 0

/-- the enabled channels of map `m` as indices (0 ↦ 37), ascending -/
def enabledIdxs (m : Nat) : List Nat := (List.range 3).filter (bitSet m)

/-- the channel that follows `i` in an advertising event: the next higher enabled channel or,
    when there is none, the lowest enabled channel (first channel of the next event) -/
def succIdx (m i : Nat) : Option Nat :=
  match (enabledIdxs m).find? (· > i) with
  | some j => some j
  | none => (enabledIdxs m).head?

/-- the channel map as a bit mask for both options: all_advertising_channel_map is 7 -/
def effMap (s : St) : Nat := if s.cfg.varMap then s.map else 7

/-- index (0 ↦ 37) of the current channel for both options -/
def chanIdx (s : St) : Nat := if s.cfg.varMap then s.idx else s.idx - 37

/-! ### complete tables of the bit-level code -/

theorem next_eq_succ : ∀ m, m < 8 → m ≠ 0 → ∀ i, i < 3 → bitSet m i = true →
    nextIdxVar i m = succIdx m i := by decide

theorem first_eq_head : ∀ m, m < 8 → m ≠ 0 → firstIdx m = (enabledIdxs m).head? := by decide

/-- the table entry for `succIdx m i` as one Boolean (keeps instance synthesis for `decide` small) -/
def succOk (m i : Nat) : Bool :=
  match succIdx m i with
  | some j => decide (j < 3) && bitSet m j
      && (!decide (i < j) || decide (some j ≠ (enabledIdxs m).head?))
      && (!decide (j ≤ i) || decide (some j = (enabledIdxs m).head?))
  | none => false

theorem succOk_table : ∀ m, m < 8 → m ≠ 0 → ∀ i, i < 3 → bitSet m i = true → succOk m i = true := by
  decide

theorem succ_table (m : Nat) (h8 : m < 8) (h0 : m ≠ 0) (i : Nat) (hi : i < 3) (hb : bitSet m i = true) :
    ∃ j, j < 3 ∧ succIdx m i = some j ∧ bitSet m j = true
      ∧ (i < j → some j ≠ (enabledIdxs m).head?) ∧ (j ≤ i → some j = (enabledIdxs m).head?) := by
  have h := succOk_table m h8 h0 i hi hb
  unfold succOk at h
  cases hs : succIdx m i with
  | none => simp [hs] at h
  | some j =>
    simp only [hs, Bool.and_eq_true, Bool.or_eq_true, Bool.not_eq_true', decide_eq_true_eq,
      decide_eq_false_iff_not] at h
    obtain ⟨⟨⟨h1, h2⟩, h3⟩, h4⟩ := h
    refine ⟨j, h1, rfl, h2, ?_, ?_⟩
    · intro hij; rcases h3 with h3 | h3
      · exact absurd hij h3
      · exact h3
    · intro hji; rcases h4 with h4 | h4
      · exact absurd hji h4
      · exact h4

theorem head_table : ∀ m, m < 8 → m ≠ 0 →
    ∃ f, f < 3 ∧ (enabledIdxs m).head? = some f ∧ bitSet m f = true := by decide

theorem first_table (m : Nat) (h8 : m < 8) (h0 : m ≠ 0) :
    ∃ f, f < 3 ∧ firstIdx m = some f ∧ bitSet m f = true ∧ (enabledIdxs m).head? = some f := by
  obtain ⟨f, hf3, hh, hb⟩ := head_table m h8 h0
  exact ⟨f, hf3, by rw [first_eq_head m h8 h0, hh], hb, hh⟩

theorem next_table (m : Nat) (h8 : m < 8) (h0 : m ≠ 0) (i : Nat) (hi : i < 3) (hb : bitSet m i = true) :
    ∃ j, j < 3 ∧ ∃ f, f < 3 ∧ nextIdxVar i m = some j ∧ firstIdx m = some f ∧ bitSet m j = true
      ∧ some j = succIdx m i ∧ (i < j → j ≠ f) ∧ (j ≤ i → j = f) := by
  obtain ⟨j, hj3, hs, hjb, hup, hwrap⟩ := succ_table m h8 h0 i hi hb
  obtain ⟨f, hf3, hff, _, hh⟩ := first_table m h8 h0
  refine ⟨j, hj3, f, hf3, by rw [next_eq_succ m h8 h0 i hi hb, hs], hff, hjb, hs.symm, ?_, ?_⟩
  · intro h e; subst e; exact hup h hh.symm
  · intro h; have := hwrap h; rw [hh] at this; exact Option.some.inj this

theorem add_table : ∀ m, m < 8 → ∀ c, c < 3 →
    (m ||| (1 <<< c)) < 8 ∧ (m ||| (1 <<< c)) ≠ 0 ∧ bitSet (m ||| (1 <<< c)) c = true
      ∧ ∀ i, i < 3 → bitSet (m ||| (1 <<< c)) i = (bitSet m i || i == c) := by decide

theorem remove_table : ∀ m, m < 8 → ∀ c, c < 3 →
    (m &&& (0xFFFFFFFF ^^^ (1 <<< c))) < 8
      ∧ ∀ i, i < 3 → bitSet (m &&& (0xFFFFFFFF ^^^ (1 <<< c))) i = (bitSet m i && i != c) := by decide

theorem all_table : ∀ i, i < 40 → 37 ≤ i →
    37 ≤ nextIdxAll i ∧ nextIdxAll i ≤ 39 ∧ bitSet 7 (nextIdxAll i - 37) = true
      ∧ some (nextIdxAll i - 37) = succIdx 7 (i - 37)
      ∧ (i < nextIdxAll i → nextIdxAll i ≠ 37) ∧ (nextIdxAll i ≤ i → nextIdxAll i = 37) := by decide

/-- one advertising event: starting on the lowest enabled channel and following `succIdx` for as
    many steps as there are enabled channels visits the remaining enabled channels in ascending
    order and ends on the lowest channel again (the first PDU of the next event) -/
def walk (m : Nat) : Nat → Nat → List Nat
  | 0, _ => []
  | k + 1, i => match succIdx m i with
      | some j => j :: walk m k j
      | none => []

theorem cycle_table : ∀ m, m < 8 → m ≠ 0 →
    ∃ f, f < 3 ∧ (enabledIdxs m).head? = some f
      ∧ walk m (enabledIdxs m).length f = (enabledIdxs m).tail ++ [f] := by decide

/-! ### the invariant -/

structure Inv (s : St) : Prop where
  map_lt : effMap s < 8
  idx    : if s.cfg.varMap then s.idx < 3 else 37 ≤ s.idx ∧ s.idx ≤ 39
  on     : effMap s ≠ 0 → bitSet (effMap s) (chanIdx s) = true
  pert   : s.pert ≤ 10
  ivl    : 20000 ≤ s.intervalUs ∧ s.intervalUs ≤ 10240000

/-- the fields the channel / timing part of the advertiser reads -/
def sameChan (s t : St) : Prop :=
  t.cfg = s.cfg ∧ t.idx = s.idx ∧ t.map = s.map ∧ t.pert = s.pert ∧ t.intervalUs = s.intervalUs

theorem sameChan.refl (s : St) : sameChan s s := ⟨rfl, rfl, rfl, rfl, rfl⟩

theorem sameChan.trans {a b c : St} (h₁ : sameChan a b) (h₂ : sameChan b c) : sameChan a c := by
  obtain ⟨h1, h2, h3, h4, h5⟩ := h₁
  obtain ⟨g1, g2, g3, g4, g5⟩ := h₂
  exact ⟨g1.trans h1, g2.trans h2, g3.trans h3, g4.trans h4, g5.trans h5⟩

theorem sameChan.effMap {s t : St} (h : sameChan s t) : effMap t = effMap s := by
  simp only [BluetoeModel.Adv.effMap, h.1, h.2.2.1]

theorem sameChan.chanIdx {s t : St} (h : sameChan s t) : chanIdx t = chanIdx s := by
  simp only [BluetoeModel.Adv.chanIdx, h.1, h.2.1]

theorem sameChan.currentChannel {s t : St} (h : sameChan s t) : currentChannel t = currentChannel s := by
  simp only [BluetoeModel.Adv.currentChannel, h.1, h.2.1]

theorem sameChan.currentInterval {s t : St} (h : sameChan s t) : currentInterval t = currentInterval s := by
  simp only [BluetoeModel.Adv.currentInterval, h.1, h.2.2.2.2]

theorem sameChan.inv {s t : St} (h : sameChan s t) (hi : Inv s) : Inv t := by
  have hm := h.effMap
  have hc := h.chanIdx
  obtain ⟨h1, h2, h3, h4, h5⟩ := h
  exact ⟨hm ▸ hi.map_lt, by rw [h1, h2]; exact hi.idx, by rw [hm, hc]; exact hi.on,
    h4 ▸ hi.pert, h5 ▸ hi.ivl⟩

theorem countDown_same (s : St) : sameChan s (countDown s) := by
  unfold countDown; split <;> exact ⟨rfl, rfl, rfl, rfl, rfl⟩

theorem fillSel_cases (s : St) :
    (fillSel s).1 = s ∨ (fillSel s).1 = { s with dStarted := true } := by
  unfold fillSel
  split
  · rename_i t _
    cases t <;> simp only [fillT] <;> (try split) <;> simp
  · simp

theorem fillSel_same (s : St) : sameChan s (fillSel s).1 := by
  rcases fillSel_cases s with h | h <;> rw [h] <;> exact ⟨rfl, rfl, rfl, rfl, rfl⟩

theorem beginEvents_same (s : St) : sameChan s (beginEvents s).1 := by
  unfold beginEvents; split
  · exact sameChan.refl s
  · exact sameChan.trans (countDown_same s) ⟨rfl, rfl, rfl, rfl, rfl⟩

theorem continuedEvents_same (s : St) : sameChan s (continuedEvents s).1 := by
  unfold continuedEvents; split
  · exact sameChan.refl s
  · exact countDown_same s

theorem startGate_same (s : St) : sameChan s (startGate s).1 := by
  unfold startGate
  have h1 : sameChan s { s with selected := s.proposal } := ⟨rfl, rfl, rfl, rfl, rfl⟩
  have h2 := fillSel_same { s with selected := s.proposal }
  simp only
  split
  · exact (h1.trans h2).trans (beginEvents_same _)
  · exact h1.trans h2

theorem chooseData_same (s : St) : sameChan s (chooseData s).1 := by
  unfold chooseData
  split
  · exact sameChan.trans ⟨rfl, rfl, rfl, rfl, rfl⟩ (fillSel_same _)
  · split
    · exact sameChan.trans ⟨rfl, rfl, rfl, rfl, rfl⟩ (fillSel_same _)
    · exact ⟨rfl, rfl, rfl, rfl, rfl⟩

theorem timeoutGate_same (s : St) : sameChan s (timeoutGate s).1 := by
  unfold timeoutGate
  simp only
  split
  · exact (chooseData_same s).trans (continuedEvents_same _)
  · exact chooseData_same s

/-- src: select_first_channel (fixes/adv-02): never undefined, moves only the channel index, to the
    lowest enabled channel (variable map: if the map is not empty) -/
theorem selectFirst_spec (s : St) (hi : Inv s) :
    ∃ i, selectFirst s = some { s with idx := i } ∧ Inv { s with idx := i }
      ∧ currentChannel { s with idx := i } = chanIdx { s with idx := i } + 37
      ∧ (effMap s ≠ 0 → (enabledIdxs (effMap s)).head? = some (chanIdx { s with idx := i })) := by
  by_cases hv : s.cfg.varMap = true
  · have hlt : s.map < 8 := by have := hi.map_lt; simpa [effMap, hv] using this
    by_cases h0 : s.map = 0
    · refine ⟨s.idx, by unfold selectFirst; rw [if_pos hv, if_neg (fun h => h h0)], hi, ?_, ?_⟩
      · simp [currentChannel, chanIdx, hv]
      · intro hm; simp [effMap, hv, h0] at hm
    · obtain ⟨f, hf3, hff, hfb, hh⟩ := first_table s.map hlt h0
      refine ⟨f, by simp [selectFirst, hv, h0, hff], ?_, ?_, ?_⟩
      · exact ⟨by simpa [effMap, hv] using hlt, by simp [hv, hf3],
          by intro _; simpa [effMap, chanIdx, hv] using hfb, hi.pert, hi.ivl⟩
      · simp [currentChannel, chanIdx, hv]
      · intro _; simpa [effMap, chanIdx, hv] using hh
  · have hv' : s.cfg.varMap = false := by simpa using hv
    refine ⟨37, by simp [selectFirst, hv'], ?_, ?_, ?_⟩
    · exact ⟨by simp [effMap, hv'], by simp [hv'],
        by intro _; simp only [effMap, chanIdx, hv', Bool.false_eq_true, if_false]; decide, hi.pert, hi.ivl⟩
    · simp [currentChannel, chanIdx, hv']
    · intro _; simp only [effMap, chanIdx, hv', Bool.false_eq_true, if_false]; decide

/-- `handle_start_advertising` never fails; it changes nothing the channel / timing part reads except
    the channel index, and if it schedules a PDU, then without delay on the (new) current channel,
    which is the lowest enabled one -/
theorem handleStart_spec (s : St) (hi : Inv s) :
    ∃ r, handleStart s = some r ∧ Inv r.1 ∧ effMap r.1 = effMap s ∧ currentInterval r.1 = currentInterval s
      ∧ (r.2 = none → sameChan s r.1)
      ∧ ∀ ch d, r.2 = some (ch, d) →
          d = 0 ∧ ch = currentChannel r.1 ∧ ch = chanIdx r.1 + 37
            ∧ (effMap s ≠ 0 → (enabledIdxs (effMap s)).head? = some (chanIdx r.1)) := by
  have hg := startGate_same s
  have hi1 := hg.inv hi
  unfold handleStart
  simp only
  split
  · obtain ⟨i, he, hinv, hcur, hlow⟩ := selectFirst_spec _ hi1
    refine ⟨_, by rw [he]; rfl, hinv, ?_, ?_, by intro h; simp at h, ?_⟩
    · rw [← hg.effMap]; simp only [effMap]
    · rw [← hg.currentInterval]; simp only [currentInterval]
    · intro ch d h
      simp only [Option.some.injEq, Prod.mk.injEq] at h
      obtain ⟨h1, h2⟩ := h
      refine ⟨h2.symm, h1.symm, by rw [← h1]; exact hcur, ?_⟩
      intro hm
      have := hlow (by rw [hg.effMap]; exact hm)
      rw [hg.effMap] at this
      exact this
  · exact ⟨_, rfl, hi1, hg.effMap, hg.currentInterval, fun _ => hg, by intro ch d h; simp at h⟩

/-- what `next_channel(); next_adv_event()` does, for both channel map options: the channel index
    moves to the cyclic successor, the delay is 0 within an event and interval + 0..10 ms at the
    start of the next event -/
theorem nextChannelAndDelay_spec (s : St) (hi : Inv s) (hm : effMap s ≠ 0) :
    ∃ s' d, nextChannelAndDelay s = some (s', d) ∧ Inv s' ∧ effMap s' = effMap s
      ∧ currentInterval s' = currentInterval s
      ∧ (s'.cfg = s.cfg ∧ s'.started = s.started ∧ s'.enabled = s.enabled ∧ s'.count = s.count)
      ∧ some (chanIdx s') = succIdx (effMap s) (chanIdx s)
      ∧ currentChannel s' = chanIdx s' + 37
      ∧ (chanIdx s < chanIdx s' → d = 0)
      ∧ (chanIdx s' ≤ chanIdx s → ∃ p, p ≤ 10 ∧ d = currentInterval s + p * 1000) := by
  have hidx := hi.idx
  have hon := hi.on hm
  have hlt := hi.map_lt
  by_cases hv : s.cfg.varMap = true
  · simp only [effMap, hv, if_true] at hm hlt hon
    simp only [chanIdx, hv, if_true] at hon
    simp only [hv, if_true] at hidx
    obtain ⟨j, hj3, f, _, hn, hf, hjon, hsucc, hup, hwrap⟩ := next_table s.map hlt hm s.idx hidx hon
    unfold nextChannelAndDelay nextAdvEvent firstSelected
    simp only [hv, if_true, hn, hf, Option.bind_some, Option.map_some]
    by_cases hjf : j = f
    · subst hjf
      simp only [beq_self_eq_true, Bool.not_true, Bool.false_eq_true, if_false]
      refine ⟨_, _, rfl, ?_, ?_, ?_, ?_, ?_, ?_, ?_, ?_⟩
      · refine ⟨by simp [effMap, hv, hlt], by simp [hv, hj3], ?_, ?_, hi.ivl⟩
        · intro _; simp [effMap, chanIdx, hv, hjon]
        · show (s.pert + 7) % 11 ≤ 10; omega
      · simp [effMap, hv]
      · simp [currentInterval]
      · simp
      · simp [chanIdx, effMap, hv, hsucc]
      · simp [currentChannel, chanIdx, hv]
      · intro hlt'; simp only [chanIdx, hv, if_true] at hlt'; exact absurd rfl (hup hlt')
      · intro _; exact ⟨(s.pert + 7) % 11, by omega, by simp [currentInterval]⟩
    · have hne : (j == f) = false := by simp [hjf]
      simp only [hne, Bool.not_false, if_true]
      refine ⟨_, _, rfl, ?_, ?_, ?_, ?_, ?_, ?_, ?_, ?_⟩
      · refine ⟨by simp [effMap, hv, hlt], by simp [hv, hj3], ?_, hi.pert, hi.ivl⟩
        intro _; simp [effMap, chanIdx, hv, hjon]
      · simp [effMap, hv]
      · simp [currentInterval]
      · simp
      · simp [chanIdx, effMap, hv, hsucc]
      · simp [currentChannel, chanIdx, hv]
      · intro _; rfl
      · intro hle; simp only [chanIdx, hv, if_true] at hle; exact absurd (hwrap hle) hjf
  · have hv' : s.cfg.varMap = false := by simpa using hv
    simp only [hv', Bool.false_eq_true, if_false] at hidx
    obtain ⟨h37, h39, hon', hsucc, hup, hwrap⟩ := all_table s.idx (by omega) hidx.1
    unfold nextChannelAndDelay nextAdvEvent firstSelected
    simp only [hv', Bool.false_eq_true, if_false, Option.bind_some, Option.map_some]
    generalize hj : nextIdxAll s.idx = j at *
    by_cases hjf : j = 37
    · subst hjf
      simp only [beq_self_eq_true, Bool.not_true, Bool.false_eq_true, if_false]
      refine ⟨_, _, rfl, ?_, ?_, ?_, ?_, ?_, ?_, ?_, ?_⟩
      · refine ⟨by simp [effMap, hv'], by simp [hv'], ?_, ?_, hi.ivl⟩
        · intro _; simp only [effMap, chanIdx, hv', Bool.false_eq_true, if_false]; exact hon'
        · show (s.pert + 7) % 11 ≤ 10; omega
      · simp [effMap, hv']
      · simp [currentInterval]
      · simp
      · simp only [chanIdx, effMap, hv', Bool.false_eq_true, if_false]; exact hsucc
      · simp only [currentChannel, chanIdx, hv', Bool.false_eq_true, if_false]
      · intro hlt'; simp only [chanIdx, hv', Bool.false_eq_true, if_false] at hlt'
        exact absurd rfl (hup (by omega))
      · intro _; exact ⟨(s.pert + 7) % 11, by omega, by simp [currentInterval]⟩
    · have hne : (j == 37) = false := by simp [hjf]
      simp only [hne, Bool.not_false, if_true]
      refine ⟨_, _, rfl, ?_, ?_, ?_, ?_, ?_, ?_, ?_, ?_⟩
      · refine ⟨by simp [effMap, hv'], by simp [hv', h37, h39], ?_, hi.pert, hi.ivl⟩
        intro _; simp only [effMap, chanIdx, hv', Bool.false_eq_true, if_false]; exact hon'
      · simp [effMap, hv']
      · simp [currentInterval]
      · simp
      · simp only [chanIdx, effMap, hv', Bool.false_eq_true, if_false]; exact hsucc
      · simp only [currentChannel, chanIdx, hv', Bool.false_eq_true, if_false]; omega
      · intro _; rfl
      · intro hle; simp only [chanIdx, hv', Bool.false_eq_true, if_false] at hle
        exact absurd (hwrap (by omega)) hjf

end BluetoeModel.Adv
