import BluetoeModel.Adv.Model
/-!
  Helper definitions and lemmas for C24: the specification side (enabled channels, cyclic
  successor), complete finite tables for the bit-level channel map code (`decide` over the whole
  domain `map < 8`, `index < 3`), the state invariant and its preservation.
-/
namespace BluetoeModel.Adv

/-- channel `37 + i` is enabled in the channel map `m` -/
def bitSet (m i : Nat) : Bool := m &&& (1 <<< i) != 0

/-- the enabled channels of map `m` as indices (0 ↦ 37), ascending -/
def enabledIdxs (m : Nat) : List Nat := (List.range 3).filter (bitSet m)

/-- the channel that follows `i` in an advertising event: the next higher enabled channel or,
    when there is none, the lowest enabled channel (first channel of the next event) -/
def succIdx (m i : Nat) : Option Nat :=
  match (enabledIdxs m).find? (· > i) with
  | some j => some j
  | none => (enabledIdxs m).head?

/-- the channel map as a bit mask for both options: all_advertising_channel_map is 7 -/
def effMap (s : St) : Nat := if s.cfg.varMap then s.map else 7

/-- index (0 ↦ 37) of the current channel for both options -/
def chanIdx (s : St) : Nat := if s.cfg.varMap then s.idx else s.idx - 37

/-! ### complete tables of the bit-level code -/

theorem next_table : ∀ m, m < 8 → m ≠ 0 → ∀ i, i < 3 → bitSet m i = true →
    match nextIdxVar i m, firstIdx m with
    | some j, some f => j < 3 ∧ bitSet m j = true ∧ some j = succIdx m i ∧ (i < j → j ≠ f) ∧ (j ≤ i → j = f)
    | _, _ => False := by decide

theorem first_table : ∀ m, m < 8 → m ≠ 0 →
    match firstIdx m with
    | some f => f < 3 ∧ bitSet m f = true ∧ (enabledIdxs m).head? = some f
    | none => False := by decide

theorem add_table : ∀ m, m < 8 → ∀ c, c < 3 →
    (m ||| (1 <<< c)) < 8 ∧ (m ||| (1 <<< c)) ≠ 0 ∧ bitSet (m ||| (1 <<< c)) c = true
      ∧ ∀ i, i < 3 → bitSet (m ||| (1 <<< c)) i = (bitSet m i || i == c) := by decide

theorem remove_table : ∀ m, m < 8 → ∀ c, c < 3 →
    (m &&& (0xFFFFFFFF ^^^ (1 <<< c))) < 8
      ∧ ∀ i, i < 3 → bitSet (m &&& (0xFFFFFFFF ^^^ (1 <<< c))) i = (bitSet m i && i != c) := by decide

theorem all_table : ∀ i, i < 40 → 37 ≤ i →
    37 ≤ nextIdxAll i ∧ nextIdxAll i ≤ 39 ∧ bitSet 7 (nextIdxAll i - 37) = true
      ∧ some (nextIdxAll i - 37) = succIdx 7 (i - 37)
      ∧ (i < nextIdxAll i → nextIdxAll i ≠ 37) ∧ (nextIdxAll i ≤ i → nextIdxAll i = 37) := by decide

/-- one advertising event: starting on the lowest enabled channel and following `succIdx` for as
    many steps as there are enabled channels visits the remaining enabled channels in ascending
    order and ends on the lowest channel again (the first PDU of the next event) -/
def walk (m : Nat) : Nat → Nat → List Nat
  | 0, _ => []
  | k + 1, i => match succIdx m i with
      | some j => j :: walk m k j
      | none => []

theorem cycle_table : ∀ m, m < 8 → m ≠ 0 →
    match (enabledIdxs m).head? with
    | some f => walk m (enabledIdxs m).length f = (enabledIdxs m).tail ++ [f]
    | none => False := by decide

/-! ### the invariant -/

structure Inv (s : St) : Prop where
  map_lt : effMap s < 8
  idx    : if s.cfg.varMap then s.idx < 3 else 37 ≤ s.idx ∧ s.idx ≤ 39
  on     : effMap s ≠ 0 → bitSet (effMap s) (chanIdx s) = true
  pert   : s.pert ≤ 10
  ivl    : 20000 ≤ s.intervalUs ∧ s.intervalUs ≤ 10240000

/-- the fields the channel / timing part of the advertiser reads -/
def sameChan (s t : St) : Prop :=
  t.cfg = s.cfg ∧ t.idx = s.idx ∧ t.map = s.map ∧ t.pert = s.pert ∧ t.intervalUs = s.intervalUs

theorem sameChan.refl (s : St) : sameChan s s := ⟨rfl, rfl, rfl, rfl, rfl⟩

theorem sameChan.trans {a b c : St} (h₁ : sameChan a b) (h₂ : sameChan b c) : sameChan a c := by
  obtain ⟨h1, h2, h3, h4, h5⟩ := h₁
  obtain ⟨g1, g2, g3, g4, g5⟩ := h₂
  exact ⟨g1.trans h1, g2.trans h2, g3.trans h3, g4.trans h4, g5.trans h5⟩

theorem sameChan.effMap {s t : St} (h : sameChan s t) : effMap t = effMap s := by
  simp only [BluetoeModel.Adv.effMap, h.1, h.2.2.1]

theorem sameChan.chanIdx {s t : St} (h : sameChan s t) : chanIdx t = chanIdx s := by
  simp only [BluetoeModel.Adv.chanIdx, h.1, h.2.1]

theorem sameChan.currentChannel {s t : St} (h : sameChan s t) : currentChannel t = currentChannel s := by
  simp only [BluetoeModel.Adv.currentChannel, h.1, h.2.1]

theorem sameChan.currentInterval {s t : St} (h : sameChan s t) : currentInterval t = currentInterval s := by
  simp only [BluetoeModel.Adv.currentInterval, h.1, h.2.2.2.2]

theorem sameChan.inv {s t : St} (h : sameChan s t) (hi : Inv s) : Inv t := by
  have hm := h.effMap
  have hc := h.chanIdx
  obtain ⟨h1, h2, h3, h4, h5⟩ := h
  exact ⟨hm ▸ hi.map_lt, by rw [h1, h2]; exact hi.idx, by rw [hm, hc]; exact hi.on,
    h4 ▸ hi.pert, h5 ▸ hi.ivl⟩

theorem countDown_same (s : St) : sameChan s (countDown s) := by
  unfold countDown; split <;> exact ⟨rfl, rfl, rfl, rfl, rfl⟩

theorem fillSel_cases (s : St) :
    (fillSel s).1 = s ∨ (fillSel s).1 = { s with dStarted := true } := by
  unfold fillSel
  split
  · rename_i t _
    cases t <;> simp only [fillT] <;> (try split) <;> simp
  · simp

theorem fillSel_same (s : St) : sameChan s (fillSel s).1 := by
  rcases fillSel_cases s with h | h <;> rw [h] <;> exact ⟨rfl, rfl, rfl, rfl, rfl⟩

theorem beginEvents_same (s : St) : sameChan s (beginEvents s).1 := by
  unfold beginEvents; split
  · exact sameChan.refl s
  · exact sameChan.trans (countDown_same s) ⟨rfl, rfl, rfl, rfl, rfl⟩

theorem continuedEvents_same (s : St) : sameChan s (continuedEvents s).1 := by
  unfold continuedEvents; split
  · exact sameChan.refl s
  · exact countDown_same s

theorem startGate_same (s : St) : sameChan s (startGate s).1 := by
  unfold startGate
  have h1 : sameChan s { s with selected := s.proposal } := ⟨rfl, rfl, rfl, rfl, rfl⟩
  have h2 := fillSel_same { s with selected := s.proposal }
  simp only
  split
  · exact (h1.trans h2).trans (beginEvents_same _)
  · exact h1.trans h2

theorem timeoutGate_same (s : St) : sameChan s (timeoutGate s).1 := by
  unfold timeoutGate
  simp only
  split <;> split <;> (try split) <;>
    first
    | exact sameChan.trans (sameChan.trans ⟨rfl, rfl, rfl, rfl, rfl⟩ (fillSel_same _)) (continuedEvents_same _)
    | exact sameChan.trans ⟨rfl, rfl, rfl, rfl, rfl⟩ (fillSel_same _)
    | exact sameChan.trans ⟨rfl, rfl, rfl, rfl, rfl⟩ (continuedEvents_same _)
    | exact ⟨rfl, rfl, rfl, rfl, rfl⟩

theorem handleStart_same (s : St) : sameChan s (handleStart s).1 := by
  unfold handleStart
  have := startGate_same s
  split <;> split <;> simp_all

/-- what `next_channel(); next_adv_event()` does, for both channel map options: the channel index
    moves to the cyclic successor, the delay is 0 within an event and interval + 0..10 ms at the
    start of the next event -/
theorem nextChannelAndDelay_spec (s : St) (hi : Inv s) (hm : effMap s ≠ 0) :
    ∃ s' d, nextChannelAndDelay s = some (s', d) ∧ Inv s' ∧ effMap s' = effMap s
      ∧ currentInterval s' = currentInterval s
      ∧ (s'.cfg = s.cfg ∧ s'.started = s.started ∧ s'.enabled = s.enabled ∧ s'.count = s.count)
      ∧ some (chanIdx s') = succIdx (effMap s) (chanIdx s)
      ∧ currentChannel s' = chanIdx s' + 37
      ∧ (chanIdx s < chanIdx s' → d = 0)
      ∧ (chanIdx s' ≤ chanIdx s → ∃ p, p ≤ 10 ∧ d = currentInterval s + p * 1000) := by
  have hidx := hi.idx
  have hon := hi.on hm
  have hlt := hi.map_lt
  by_cases hv : s.cfg.varMap = true
  · simp only [effMap, hv, if_true] at hm hlt hon
    simp only [chanIdx, hv, if_true] at hon
    simp only [hv, if_true] at hidx
    have ht := next_table s.map hlt hm s.idx hidx hon
    unfold nextChannelAndDelay nextAdvEvent firstSelected
    simp only [hv, if_true]
    cases hn : nextIdxVar s.idx s.map with
    | none => simp [hn] at ht
    | some j =>
      cases hf : firstIdx s.map with
      | none => simp [hn, hf] at ht
      | some f =>
        simp only [hn, hf] at ht
        obtain ⟨hj3, hjon, hsucc, hup, hwrap⟩ := ht
        simp only [Option.bind_some, Option.map_some]
        by_cases hjf : j = f
        · subst hjf
          refine ⟨_, _, by simp only [beq_self_eq_true, Bool.not_true, Bool.false_eq_true, if_false], ?_, ?_, ?_, ?_, ?_, ?_, ?_, ?_⟩
          · refine ⟨by simp [effMap, hv, hlt], by simp [hv, hj3], ?_, ?_, hi.ivl⟩
            · intro _; simp [effMap, chanIdx, hv, hjon]
            · show (s.pert + 7) % 11 ≤ 10; omega
          · simp [effMap, hv]
          · simp [currentInterval]
          · simp
          · simp [chanIdx, effMap, hv, hsucc]
          · simp [currentChannel, chanIdx, hv]
          · intro hlt'; simp only [chanIdx, hv, if_true] at hlt'; exact absurd rfl (hup hlt')
          · intro _; exact ⟨(s.pert + 7) % 11, by omega, by simp [currentInterval]⟩
        · have hne : (j == f) = false := by simp [hjf]
          refine ⟨_, _, by simp only [hne, Bool.not_false, if_true], ?_, ?_, ?_, ?_, ?_, ?_, ?_, ?_⟩
          · refine ⟨by simp [effMap, hv, hlt], by simp [hv, hj3], ?_, hi.pert, hi.ivl⟩
            intro _; simp [effMap, chanIdx, hv, hjon]
          · simp [effMap, hv]
          · simp [currentInterval]
          · simp
          · simp [chanIdx, effMap, hv, hsucc]
          · simp [currentChannel, chanIdx, hv]
          · intro _; rfl
          · intro hle; simp only [chanIdx, hv, if_true] at hle; exact absurd (hwrap hle) hjf
  · have hv' : s.cfg.varMap = false := by simpa using hv
    simp only [hv', Bool.false_eq_true, if_false] at hidx
    have ht := all_table s.idx (by omega) hidx.1
    obtain ⟨h37, h39, hon', hsucc, hup, hwrap⟩ := ht
    unfold nextChannelAndDelay nextAdvEvent firstSelected
    simp only [hv', Bool.false_eq_true, if_false, Option.bind_some, Option.map_some]
    by_cases hjf : nextIdxAll s.idx = 37
    · refine ⟨_, _, by simp only [hjf, beq_self_eq_true, Bool.not_true, Bool.false_eq_true, if_false], ?_, ?_, ?_, ?_, ?_, ?_, ?_, ?_⟩
      · refine ⟨by simp [effMap, hv'], by simp [hv', hjf], ?_, ?_, hi.ivl⟩
        · intro _; simp [effMap, chanIdx, hv', hjf]; decide
        · show (s.pert + 7) % 11 ≤ 10; omega
      · simp [effMap, hv']
      · simp [currentInterval]
      · simp
      · simp only [chanIdx, effMap, hv', Bool.false_eq_true, if_false]; rw [← hjf]; exact hsucc
      · simp only [currentChannel, chanIdx, hv', Bool.false_eq_true, if_false]; omega
      · intro hlt'; simp only [chanIdx, hv', Bool.false_eq_true, if_false] at hlt'
        exact absurd hjf (hup (by omega))
      · intro _; exact ⟨(s.pert + 7) % 11, by omega, by simp [currentInterval]⟩
    · have hne : (nextIdxAll s.idx == 37) = false := by simp [hjf]
      refine ⟨_, _, by simp only [hne, Bool.not_false, if_true], ?_, ?_, ?_, ?_, ?_, ?_, ?_, ?_⟩
      · refine ⟨by simp [effMap, hv'], by simp [hv', h37, h39], ?_, hi.pert, hi.ivl⟩
        intro _; simp only [effMap, chanIdx, hv', Bool.false_eq_true, if_false]; exact hon'
      · simp [effMap, hv']
      · simp [currentInterval]
      · simp
      · simp only [chanIdx, effMap, hv', Bool.false_eq_true, if_false]; exact hsucc
      · simp only [currentChannel, chanIdx, hv', Bool.false_eq_true, if_false]; omega
      · intro _; rfl
      · intro hle; simp only [chanIdx, hv', Bool.false_eq_true, if_false] at hle
        exact absurd (hwrap (by omega)) hjf

end BluetoeModel.Adv
