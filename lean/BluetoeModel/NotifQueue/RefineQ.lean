import BluetoeModel.NotifQueue.Refine
/-
  Refinement, whole queue: priority chain, clear, construction, histories.
-/
namespace BluetoeModel.NotifQueue

/-- level lists related pointwise -/
inductive RLs : List Level → List SLevel → Prop
  | nil : RLs [] []
  | cons {l s ls ss} : RL l s → RLs ls ss → RLs (l :: ls) (s :: ss)

theorem queueLv_refines {ls : List Level} {ss : List SLevel} (h : RLs ls ss) :
    ∀ idx k, ∃ ls', queueLv ls idx k = some (ls', (squeueLv ss idx k).2) ∧
      RLs ls' (squeueLv ss idx k).1 := by
  induction h with
  | nil => intro idx k; exact ⟨[], rfl, .nil⟩
  | @cons l s ls ss hl hls ih =>
    intro idx k
    unfold queueLv squeueLv
    rw [hl.size]
    by_cases c : idx < s.size
    · obtain ⟨l', e, r⟩ := hl.add_refines c k
      exact ⟨l' :: ls, by simp [c, e], by simp [c]; exact .cons r hls⟩
    · obtain ⟨ls', e, r⟩ := ih (idx - s.size) k
      exact ⟨l :: ls', by simp [c, e], by simp [c]; exact .cons hl r⟩

theorem deqLv_refines {ls : List Level} {ss : List SLevel} (h : RLs ls ss) :
    ∀ off out, ∃ ls', deqLv ls off out = some (ls', (sdeqLv ss off out).2.1, (sdeqLv ss off out).2.2) ∧
      RLs ls' (sdeqLv ss off out).1 := by
  induction h with
  | nil => intro off out; exact ⟨[], rfl, .nil⟩
  | @cons l s ls ss hl hls ih =>
    intro off out
    obtain ⟨l', e, r⟩ := hl.deq_refines off out
    unfold deqLv sdeqLv
    rw [e, hl.size]
    cases hd : s.deq off out with
    | mk s' rest =>
      cases rest with
      | mk o' res =>
        simp only [hd] at r
        cases res with
        | some x => exact ⟨l' :: ls, by simp, by simp; exact .cons r hls⟩
        | none =>
          obtain ⟨ls', e2, r2⟩ := ih (off + s.size) o'
          exact ⟨l' :: ls', by simp [e2], by simp; exact .cons r r2⟩

theorem RL.clear_refines {l : Level} {s : SLevel} (h : RL l s) : RL l.clear s.clear := by
  cases h with
  | gen h =>
    refine .gen ⟨h.size, rfl, ⟨h.wf.pos, h.wf.pos, by simp [SLevel.clear, h.wf.len]⟩, ?_, ?_⟩
    · intro b hb
      simp only [Gen.clear, List.mem_map] at hb
      obtain ⟨_, _, rfl⟩ := hb
      decide
    · intro i hi
      obtain ⟨b, hb, hs⟩ := h.slot i hi
      exact ⟨0, by simp [Gen.clear, List.getElem?_map, hb], by simp [SLevel.clear, List.getElem?_map, hs, slotOf]⟩
  | @single st s h =>
    have hs := h.eq
    subst hs
    exact .single ⟨by decide, by simp [SLevel.clear, slotOf]⟩

theorem clear_refines {ls : List Level} {ss : List SLevel} (h : RLs ls ss) :
    RLs (ls.map Level.clear) (ss.map SLevel.clear) := by
  induction h with
  | nil => exact .nil
  | cons hl _ ih => exact .cons hl.clear_refines ih

theorem RG.init (n : Nat) (hn : 0 < n) : RG (Gen.init n) (SLevel.init n) := by
  refine ⟨rfl, rfl, ⟨hn, hn, by simp [SLevel.init]⟩, ?_, ?_⟩
  · intro b hb
    simp only [Gen.init] at hb
    rw [List.eq_of_mem_replicate hb]; decide
  · intro i hi
    have hi' : i < n := hi
    have : i / 4 < (n * 2 + 7) / 8 := by omega
    exact ⟨0, by simp [Gen.init, List.getElem?_replicate, this], by simp [SLevel.init, List.getElem?_replicate, hi', slotOf]⟩

theorem RL.init (n : Nat) (hn : 0 < n) : RL (Level.init n) (SLevel.init n) := by
  unfold Level.init
  split
  · rename_i h; subst h; exact .single ⟨by decide, by simp [SLevel.init, slotOf]⟩
  · exact .gen (RG.init n hn)

theorem init_refines (sizes : List Nat) (hpos : ∀ n ∈ sizes, 0 < n) :
    RLs (sizes.map Level.init) (sizes.map SLevel.init) := by
  induction sizes with
  | nil => exact .nil
  | cons n ns ih =>
    exact .cons (RL.init n (hpos n (by simp))) (ih fun m hm => hpos m (by simp [hm]))

theorem initGeneric_refines (sizes : List Nat) (hpos : ∀ n ∈ sizes, 0 < n) :
    RLs (sizes.map fun n => Level.gen (Gen.init n)) (sizes.map SLevel.init) := by
  induction sizes with
  | nil => exact .nil
  | cons n ns ih =>
    exact .cons (.gen (RG.init n (hpos n (by simp)))) (ih fun m hm => hpos m (by simp [hm]))

/-- the queue represents the specification state -/
structure RQ (q : Queue) (s : Spec) : Prop where
  lv : RLs q.levels s.levels
  out : q.outstanding = s.outstanding

theorem step_refines {q : Queue} {s : Spec} (h : RQ q s) (op : Op) :
    (q.step op).2 = (s.step op).2 ∧ RQ (q.step op).1 (s.step op).1 := by
  cases op with
  | queue k i =>
    obtain ⟨ls', e, r⟩ := queueLv_refines h.lv i k
    simp only [Queue.step, Spec.step, e]
    exact ⟨trivial, r, h.out⟩
  | deq =>
    obtain ⟨ls', e, r⟩ := deqLv_refines h.lv 0 q.outstanding
    simp only [Queue.step, Spec.step, e, ← h.out]
    exact ⟨trivial, r, rfl⟩
  | conf => exact ⟨rfl, h.lv, rfl⟩
  | clear => exact ⟨rfl, clear_refines h.lv, rfl⟩

theorem run_refines {q : Queue} {s : Spec} (h : RQ q s) (ops : List Op) :
    (q.run ops).2 = (s.run ops).2 ∧ RQ (q.run ops).1 (s.run ops).1 := by
  induction ops generalizing q s with
  | nil => exact ⟨rfl, h⟩
  | cons op ops ih =>
    obtain ⟨ho, hr⟩ := step_refines h op
    obtain ⟨ho', hr'⟩ := ih hr
    simp only [Queue.run, Spec.run]
    exact ⟨by rw [ho, ho'], hr'⟩

end BluetoeModel.NotifQueue
