import BluetoeModel.NotifQueue.Bits
/-
  Refinement: the byte array implementation (`Gen`, `single`, `Queue`) against the slot
  specification (`SLevel`, `Spec`) of Model.lean.
-/
namespace BluetoeModel.NotifQueue

structure SLevel.WF (s : SLevel) : Prop where
  pos : 0 < s.size
  nlt : s.next < s.size
  len : s.slots.length = s.size

/-- a generic level represents the slot list `s` -/
structure RG (g : Gen) (s : SLevel) : Prop where
  size : g.size = s.size
  next : g.next = s.next
  wf   : s.WF
  bnd  : ∀ b ∈ g.bytes, b < 256
  slot : ∀ i, i < s.size → ∃ b, g.bytes[i / 4]? = some b ∧
            s.slots[i]? = some (slotOf ((b >>> (2 * (i % 4))) &&& 3))

theorem and3_lt (x : Nat) : x &&& 3 < 4 := Nat.lt_succ_of_le Nat.and_le_right

theorem RG.at_eq {g : Gen} {s : SLevel} (h : RG g s) {i : Nat} (hi : i < s.size) :
    ∃ v, g.at i = some v ∧ v < 4 ∧ s.slot i = slotOf v := by
  obtain ⟨b, hb, hs⟩ := h.slot i hi
  refine ⟨(b >>> (2 * (i % 4))) &&& 3, ?_, and3_lt _, ?_⟩
  · simp [Gen.at, getByte?, byteOff_eq, bitOff_eq, hb]
  · simp [SLevel.slot, hs]

/-- writing byte `b'` over byte `i / 4` changes exactly slot `i` to `sl'` -/
theorem RG.update {g : Gen} {s : SLevel} (h : RG g s) {i b b' : Nat} {sl' : Slot} (hi : i < s.size)
    (hb : g.bytes[i / 4]? = some b) (hb' : b' < 256)
    (hf : ∀ c, c < 4 → slotOf ((b' >>> (2 * c)) &&& 3) =
            if i % 4 = c then sl' else slotOf ((b >>> (2 * c)) &&& 3)) :
    RG { g with bytes := g.bytes.set (i / 4) b' } { s with slots := s.slots.set i sl' } := by
  have hlen : i / 4 < g.bytes.length := by
    rcases Nat.lt_or_ge (i / 4) g.bytes.length with hl | hl
    · exact hl
    · rw [List.getElem?_eq_none hl] at hb; cases hb
  have hil : i < s.slots.length := by rw [h.wf.len]; exact hi
  refine ⟨h.size, h.next, ⟨h.wf.pos, h.wf.nlt, by simp [h.wf.len]⟩, ?_, ?_⟩
  · intro x hx
    rcases List.mem_or_eq_of_mem_set hx with hx | hx
    · exact h.bnd x hx
    · exact hx ▸ hb'
  · intro j hj
    obtain ⟨bj, hbj, hsj⟩ := h.slot j hj
    by_cases hq : j / 4 = i / 4
    · have hbb : bj = b := by rw [hq, hb] at hbj; exact (Option.some.inj hbj).symm
      subst hbb
      refine ⟨b', by simp [hq, hlen], ?_⟩
      have hm : j % 4 < 4 := Nat.mod_lt _ (by decide)
      rw [hf (j % 4) hm]
      by_cases hji : j = i
      · subst hji; simp [hil]
      · have : ¬ i % 4 = j % 4 := by omega
        simp only [this, if_false]
        rw [List.getElem?_set_ne (Ne.symm hji)]; exact hsj
    · have hji : j ≠ i := fun e => hq (e ▸ rfl)
      refine ⟨bj, ?_, ?_⟩
      · show (g.bytes.set (i / 4) b')[j / 4]? = some bj
        rw [List.getElem?_set_ne (Ne.symm hq)]; exact hbj
      · show (s.slots.set i sl')[j]? = _
        rw [List.getElem?_set_ne (Ne.symm hji)]; exact hsj

theorem RG.add_refines {g : Gen} {s : SLevel} (h : RG g s) {i : Nat} (hi : i < s.size) (k : Kind) :
    ∃ g', g.add i k.bit = some (g', (s.add i k).2) ∧ RG g' (s.add i k).1 := by
  obtain ⟨b, hb, hs⟩ := h.slot i hi
  have hlen : i / 4 < g.bytes.length := by
    rcases Nat.lt_or_ge (i / 4) g.bytes.length with hl | hl
    · exact hl
    · rw [List.getElem?_eq_none hl] at hb; cases hb
  have hbe : g.bytes[i / 4]'hlen = b := by
    rw [List.getElem?_eq_getElem hlen] at hb; exact Option.some.inj hb
  have hb256 : b < 256 := h.bnd b (List.mem_of_getElem? hb)
  have hm : i % 4 < 4 := Nat.mod_lt _ (by decide)
  have hslot : s.slot i = slotOf ((b >>> (2 * (i % 4))) &&& 3) := by simp [SLevel.slot, hs]
  have hsf := slot_fact _ (and3_lt (b >>> (2 * (i % 4)))) k
  refine ⟨{ g with bytes := g.bytes.set (i / 4) (b ||| (k.bit <<< (2 * (i % 4)))) }, ?_, ?_⟩
  · have hr : ((b &&& (k.bit <<< (2 * (i % 4)))) == 0) = !(s.slot i).has k := by
      have hf := byte_fact b (i % 4) (i % 4) k.bit hb256 hm hm (kind_bit_lt k)
      simp only [byteFactB, Bool.and_eq_true, beq_iff_eq] at hf
      rw [hf.1.1.2, hslot]; exact hsf.2.2
    simp [Gen.add, getByte?, setByte?, byteOff_eq, bitOff_eq, hbe, hlen, SLevel.add, hr]
  · refine h.update hi hb ?_ ?_
    · have hf := byte_fact b (i % 4) (i % 4) k.bit hb256 hm hm (kind_bit_lt k)
      simp only [byteFactB, Bool.and_eq_true, decide_eq_true_eq] at hf
      exact hf.2
    · intro c hc
      have hf := byte_fact b (i % 4) c k.bit hb256 hm hc (kind_bit_lt k)
      simp only [byteFactB, Bool.and_eq_true, beq_iff_eq] at hf
      rw [hf.1.1.1]
      by_cases hic : i % 4 = c
      · subst hic; simp only [if_true]; rw [hsf.1, hslot]
      · simp [hic]

theorem RG.remove_refines {g : Gen} {s : SLevel} (h : RG g s) {i : Nat} (hi : i < s.size) (k : Kind) :
    ∃ g', g.remove i k.bit = some g' ∧ RG g' { s with slots := s.slots.set i ((s.slot i).clr k) } := by
  obtain ⟨b, hb, hs⟩ := h.slot i hi
  have hlen : i / 4 < g.bytes.length := by
    rcases Nat.lt_or_ge (i / 4) g.bytes.length with hl | hl
    · exact hl
    · rw [List.getElem?_eq_none hl] at hb; cases hb
  have hbe : g.bytes[i / 4]'hlen = b := by
    rw [List.getElem?_eq_getElem hlen] at hb; exact Option.some.inj hb
  have hb256 : b < 256 := h.bnd b (List.mem_of_getElem? hb)
  have hm : i % 4 < 4 := Nat.mod_lt _ (by decide)
  have hslot : s.slot i = slotOf ((b >>> (2 * (i % 4))) &&& 3) := by simp [SLevel.slot, hs]
  have hsf := slot_fact _ (and3_lt (b >>> (2 * (i % 4)))) k
  refine ⟨{ g with bytes := g.bytes.set (i / 4) (b &&& (255 ^^^ (k.bit <<< (2 * (i % 4))))) }, ?_, ?_⟩
  · simp [Gen.remove, getByte?, setByte?, byteOff_eq, bitOff_eq, hbe, hlen]
  · refine h.update hi hb (Nat.lt_of_le_of_lt Nat.and_le_left hb256) ?_
    intro c hc
    have hf := byte_fact b (i % 4) c k.bit hb256 hm hc (kind_bit_lt k)
    simp only [byteFactB, Bool.and_eq_true, beq_iff_eq] at hf
    rw [hf.1.2]
    by_cases hic : i % 4 = c
    · subst hic; simp only [if_true]; rw [hsf.2.1, hslot]
    · simp [hic]

end BluetoeModel.NotifQueue
