import BluetoeModel.NotifQueue.SpecLemmas
/-
  Facts about the specification's priority chain: `squeueLv`, `sdeqLv` in terms of the set of
  pending requests `pendLv`.
-/
namespace BluetoeModel.NotifQueue

/-- priority level (0 = highest) of the characteristic with global index `i` -/
def levelOf : List SLevel → Nat → Nat
  | [], _ => 0
  | l :: ls, i => if i < l.size then 0 else levelOf ls (i - l.size) + 1

def WFs (ss : List SLevel) : Prop := ∀ l ∈ ss, l.WF

theorem SLevel.add_slot {s : SLevel} (hw : s.WF) {i : Nat} (hi : i < s.size) (k : Kind) (j : Nat) :
    (s.add i k).1.slot j = if j = i then (s.slot i).set k else s.slot j := by
  have := SLevel.slot_set s i ((s.slot i).set k) (by rw [hw.len]; exact hi) j s.next
  exact this

theorem not_sendable_elig {s : SLevel} {out : Option Nat} {j : Nat} (h : ¬ s.sendable out.isNone j)
    (k : Kind) (hp : (s.slot j).has k = true) : eligible out k = false := by
  cases k with
  | notification => exact absurd (Or.inl hp) h
  | indication =>
    cases hf : out.isNone with
    | false => simpa [eligible] using hf
    | true => exact absurd (Or.inr ⟨hp, hf⟩) h

theorem squeueLv_spec {ss : List SLevel} (hw : WFs ss) : ∀ idx k,
    ((squeueLv ss idx k).2 = true ↔ (idx < totalSize ss ∧ pendLv ss idx k = false)) ∧
    ∀ j k', pendLv (squeueLv ss idx k).1 j k' = true ↔
      (pendLv ss j k' = true ∨ (idx < totalSize ss ∧ j = idx ∧ k' = k)) := by
  induction ss with
  | nil => intro idx k; simp [squeueLv, totalSize, pendLv]
  | cons l ls ih =>
    intro idx k
    have hl : l.WF := hw l (by simp)
    have hls : WFs ls := fun x hx => hw x (by simp [hx])
    unfold squeueLv
    by_cases c : idx < l.size
    · simp only [c, if_true]
      have hsz : (l.add idx k).1.size = l.size := rfl
      refine ⟨?_, ?_⟩
      · simp only [SLevel.add, pendLv, c, if_true, totalSize]
        cases (l.slot idx).has k <;> simp <;> omega
      · intro j k'
        simp only [pendLv, hsz, totalSize]
        by_cases cj : j < l.size
        · simp only [cj, if_true, SLevel.add_slot hl c]
          by_cases e : j = idx
          · subst e; simp only [if_true, Slot.set_has]
            constructor
            · rintro (h | h)
              · exact Or.inl h
              · exact Or.inr ⟨by omega, trivial, h⟩
            · rintro (h | ⟨_, _, h⟩)
              · exact Or.inl h
              · exact Or.inr h
          · simp only [e, if_false]
            constructor
            · exact Or.inl
            · rintro (h | ⟨_, h, _⟩)
              · exact h
              · exact h.elim
        · simp only [cj, if_false]
          constructor
          · exact Or.inl
          · rintro (h | ⟨_, h, _⟩)
            · exact h
            · omega
    · simp only [c, if_false]
      obtain ⟨ih1, ih2⟩ := ih hls (idx - l.size) k
      refine ⟨?_, ?_⟩
      · simp only [pendLv, c, if_false, totalSize]
        rw [ih1]
        constructor
        · rintro ⟨a, b⟩; exact ⟨by omega, b⟩
        · rintro ⟨a, b⟩; exact ⟨by omega, b⟩
      · intro j k'
        simp only [pendLv, totalSize]
        by_cases cj : j < l.size
        · simp only [cj, if_true]
          constructor
          · exact Or.inl
          · rintro (h | ⟨_, h, _⟩)
            · exact h
            · omega
        · simp only [cj, if_false]
          rw [ih2]
          constructor
          · rintro (h | ⟨a, b, d⟩)
            · exact Or.inl h
            · exact Or.inr ⟨by omega, by omega, d⟩
          · rintro (h | ⟨a, b, d⟩)
            · exact Or.inl h
            · exact Or.inr ⟨by omega, by omega, d⟩

theorem sdeqLv_none {ss : List SLevel} (hw : WFs ss) : ∀ off out,
    (sdeqLv ss off out).2.2 = none →
      sdeqLv ss off out = (ss, out, none) ∧ ∀ j k, pendLv ss j k = true → eligible out k = false := by
  induction ss with
  | nil => intro off out _; simp [sdeqLv, pendLv]
  | cons l ls ih =>
    intro off out h
    have hl : l.WF := hw l (by simp)
    have hls : WFs ls := fun x hx => hw x (by simp [hx])
    unfold sdeqLv at h ⊢
    rcases hd : l.deq off out with ⟨l', o', r⟩
    rw [hd] at h
    cases r with
    | some x => simp at h
    | none =>
      obtain ⟨e, hno⟩ := SLevel.deq_none hl off out (by rw [hd])
      rw [hd] at e
      simp only [Prod.mk.injEq] at e
      obtain ⟨e1, e2, _⟩ := e
      subst e1; subst e2
      simp only at h ⊢
      obtain ⟨r1, r2⟩ := ih hls (off + l'.size) o' h
      refine ⟨by rw [r1], ?_⟩
      intro j k hp
      simp only [pendLv] at hp
      by_cases cj : j < l'.size
      · simp only [cj, if_true] at hp
        exact not_sendable_elig (hno j cj) k hp
      · simp only [cj, if_false] at hp
        exact r2 _ k hp

theorem sdeqLv_some {ss : List SLevel} (hw : WFs ss) : ∀ off out k g,
    (sdeqLv ss off out).2.2 = some (k, g) →
      ∃ i, g = i + off ∧ i < totalSize ss ∧ pendLv ss i k = true ∧ eligible out k = true ∧
        (sdeqLv ss off out).2.1 = (if k = .indication then some g else out) ∧
        (∀ j k', pendLv (sdeqLv ss off out).1 j k' = true ↔ (pendLv ss j k' = true ∧ ¬ (j = i ∧ k' = k))) ∧
        (∀ j k', levelOf ss j < levelOf ss i → pendLv ss j k' = true → eligible out k' = false) := by
  induction ss with
  | nil => intro off out k g h; simp [sdeqLv] at h
  | cons l ls ih =>
    intro off out k g h
    have hl : l.WF := hw l (by simp)
    have hls : WFs ls := fun x hx => hw x (by simp [hx])
    unfold sdeqLv at h ⊢
    rcases hd : l.deq off out with ⟨l', o', r⟩
    rw [hd] at h
    cases r with
    | some x =>
      simp only [Option.some.injEq] at h
      subst h
      obtain ⟨j, t, hg, hj, _, _, _, hhas, hind, _, e⟩ := SLevel.deq_some hl off out k g (by rw [hd])
      rw [hd] at e
      simp only [Prod.mk.injEq] at e
      obtain ⟨e1, e2, _⟩ := e
      have helig : eligible out k = true := by
        cases k with
        | notification => rfl
        | indication => simp [eligible, hind rfl]
      refine ⟨j, hg, by simp only [totalSize]; omega, by simp [pendLv, hj, hhas], helig, e2, ?_, ?_⟩
      · intro j' k'
        simp only [pendLv, e1]
        by_cases cj : j' < l.size
        · simp only [cj, if_true]
          rw [SLevel.slot_set l j _ (by rw [hl.len]; exact hj)]
          by_cases e : j' = j
          · subst e; simp only [if_true, Slot.clr_has]
            constructor
            · rintro ⟨a, b⟩; exact ⟨a, fun c => b c.2⟩
            · rintro ⟨a, b⟩; exact ⟨a, fun c => b ⟨trivial, c⟩⟩
          · simp only [e, if_false]
            constructor
            · intro a; exact ⟨a, fun c => c.1⟩
            · exact fun a => a.1
        · simp only [cj, if_false]
          constructor
          · intro a; exact ⟨a, fun c => by omega⟩
          · exact fun a => a.1
      · intro j' k' hlt
        simp [levelOf, hj] at hlt
    | none =>
      obtain ⟨e, hno⟩ := SLevel.deq_none hl off out (by rw [hd])
      rw [hd] at e
      simp only [Prod.mk.injEq] at e
      obtain ⟨e1, e2, _⟩ := e
      subst e1; subst e2
      simp only at h ⊢
      obtain ⟨i, hg, hi, hp, helig, ho, hupd, hprio⟩ := ih hls (off + l'.size) o' k g h
      refine ⟨i + l'.size, by omega, by simp only [totalSize]; omega, ?_, helig, ho, ?_, ?_⟩
      · simp only [pendLv, show ¬ (i + l'.size < l'.size) by omega, if_false, Nat.add_sub_cancel]; exact hp
      · intro j' k'
        simp only [pendLv]
        by_cases cj : j' < l'.size
        · simp only [cj, if_true]
          constructor
          · intro a; exact ⟨a, fun c => by omega⟩
          · exact fun a => a.1
        · simp only [cj, if_false]
          rw [hupd]
          constructor
          · rintro ⟨a, b⟩; exact ⟨a, fun c => b ⟨by omega, c.2⟩⟩
          · rintro ⟨a, b⟩; exact ⟨a, fun c => b ⟨by omega, c.2⟩⟩
      · intro j' k' hlt hp'
        simp only [levelOf, show ¬ (i + l'.size < l'.size) by omega, if_false, Nat.add_sub_cancel] at hlt
        simp only [pendLv] at hp'
        by_cases cj : j' < l'.size
        · simp only [cj, if_true] at hp'
          exact not_sendable_elig (hno j' cj) k' hp'
        · simp only [cj, if_false] at hp' hlt
          exact hprio _ k' (by omega) hp'

end BluetoeModel.NotifQueue
