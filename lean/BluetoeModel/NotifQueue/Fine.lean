import BluetoeModel.NotifQueue.Model
/-
  C13, finest granularity: the consumer (`dequeue_indication_or_confirmation`) and ONE producer call
  (`queue_notification` / `queue_indication`, possibly on another core) interleaved at the level of
  single accesses to the shared bytes, under the assumption that ONLY the byte read-modify-writes are
  atomic:

    consumer:  load, load, …, load (the `at( i )` of the scan loops, level by level; `state_ & bit` of
               a single-entry level), then — if something was found — ONE atomic RMW
               (`queue_[ b ] &= ~bit` of `remove`, resp. `state_ &= ~bit`); `next_` and
               `outstanding_confirmation_index_` are private to the consumer
    producer:  (routing `idx < Size ? impl : base` touches nothing shared)
               ONE load   `result = ( queue_[ b ] & bits ) == 0`
               ONE atomic RMW  `queue_[ b ] |= bits`

  A schedule is a pair `k1 ≤ k2`: the producer's load happens immediately before the consumer's
  `k1`-th access, the producer's RMW immediately before the consumer's `k2`-th access (accesses are
  counted from 0; the consumer's RMW is its last access).  These are all interleavings of the two
  access sequences.  Since the consumer does not write before its final RMW, its `n`-th load sees the
  memory as it was initially (`n < k2`) or with the producer's bit set (`k2 ≤ n`).
  The interrupt of Irq.lean (`atomic := true`) is the diagonal `k1 = k2`.
-/
namespace BluetoeModel.NotifQueue

/-- src: the scan loop of notification_queue_impl::dequeue_indication_or_confirmation; access number
    `n` reads `g0` (before the producer's `|=`) or `g1` (after it); returns the number of the
    consumer's next access as well -/
def fscan (g0 g1 : Gen) (k2 : Nat) (free : Bool) : Nat → Nat → Nat → Scan × Nat
  | _, n, 0 => (.empty, n)
  | i, n, cnt + 1 =>
    match (if n < k2 then g0 else g1).at i with
    | none => (.oob, n + 1)
    | some e =>
      if e &&& 2 ≠ 0 ∧ free then (.hit .indication i, n + 1)
      else if e &&& 1 ≠ 0 then (.hit .notification i, n + 1)
      else fscan g0 g1 k2 free ((i + 1) % g0.size) (n + 1) cnt

/-- src: notification_queue_impl<1,C>::dequeue_indication_or_confirmation: `state_ & indication_bit`
    is one load, `state_ & notification_bit` a second one -/
def fscanSingle (st0 st1 k2 : Nat) (free : Bool) (n : Nat) : Scan × Nat :=
  if (if n < k2 then st0 else st1) &&& 2 ≠ 0 ∧ free then (.hit .indication 0, n + 1)
  else if (if n + 1 < k2 then st0 else st1) &&& 1 ≠ 0 then (.hit .notification 0, n + 2)
  else (.empty, n + 2)

def flevel (l0 l1 : Level) (k2 : Nat) (free : Bool) (n : Nat) : Scan × Nat :=
  match l0, l1 with
  | .gen g0, .gen g1 => fscan g0 g1 k2 free g0.next n g0.size
  | .single s0, .single s1 => fscanSingle s0 s1 k2 free n
  | _, _ => (.oob, n)

/-- the consumer's `next_ = ( i + 1 ) % Size; remove( i, bit )` resp. `state_ &= ~bit`; the
    read-modify-write is ONE step -/
def Level.rm (l : Level) (k : Kind) (i : Nat) : Option Level :=
  match l with
  | .gen g => ({ g with next := (i + 1) % g.size }.remove i k.bit).map .gen
  | .single st => some (.single (st &&& (255 ^^^ k.bit)))

/-- src: notification_queue_impl_base::dequeue_indication_or_confirmation, the consumer's loads over
    the chain of levels (`ls0` = memory before, `ls1` = memory after the producer's RMW).  Result:
    returned entry, number `n` of the consumer's RMW access, and what the consumer's RMW makes of
    `ls0` resp. of `ls1` -/
def fchain : List Level → List Level → Nat → Bool → Nat → Nat →
    Option (Option (Kind × Nat) × Nat × List Level × List Level)
  | [], [], _, _, _, n => some (none, n, [], [])
  | l0 :: t0, l1 :: t1, k2, free, off, n =>
    match flevel l0 l1 k2 free n with
    | (.oob, _) => none
    | (.hit k i, n') =>
      match l0.rm k i, l1.rm k i with
      | some a, some b => some (some (k, i + off), n', a :: t0, b :: t1)
      | _, _ => none
    | (.empty, n') =>
      (fchain t0 t1 k2 free (off + l0.size) n').map fun (r, m, a, b) => (r, m, l0 :: a, l1 :: b)
  | _, _, _, _, _, _ => none

/-- `outstanding_confirmation = i + offset` when an indication is returned -/
def newOut (out : Option Nat) : Option (Kind × Nat) → Option Nat
  | some (.indication, g) => some g
  | _ => out

structure FOutcome where
  pres : Bool                    -- what the producer's `queue_*` call returns
  deq  : Option (Kind × Nat)     -- what the consumer's dequeue returns
  q    : Queue                   -- the queue afterwards
deriving Repr, DecidableEq

/-- one consumer dequeue and one producer call `prod` under the schedule `(k1, k2)` -/
def fineRun (q : Queue) (prod : Kind × Nat) (k1 k2 : Nat) : Option FOutcome :=
  match queueLv q.levels prod.2 prod.1 with
  | none => none
  | some (ls1, b0) =>                       -- memory once the producer's RMW has happened; its answer if it loads first
    match fchain q.levels ls1 k2 q.outstanding.isNone 0 0 with
    | none => none
    | some (r, n, rm0, rm1) =>              -- the consumer's RMW is its access number `n`
      if k2 ≤ n then                        -- producer's load and RMW both before the consumer's RMW
        some { pres := b0, deq := r, q := { levels := rm1, outstanding := newOut q.outstanding r } }
      else
        match queueLv rm0 prod.2 prod.1 with  -- the producer's RMW (and load, if `n < k1`) after the consumer's RMW
        | none => none
        | some (late, b1) =>
          some { pres := if k1 ≤ n then b0 else b1, deq := r,
                 q := { levels := late, outstanding := newOut q.outstanding r } }

/-- number of accesses of the consumer on `q` (its loads and the RMW) -/
def fineAccesses (q : Queue) : Nat :=
  match fchain q.levels q.levels 0 q.outstanding.isNone 0 0 with
  | some (_, n, _, _) => n + 1
  | none => 0

end BluetoeModel.NotifQueue
