import BluetoeModel.NotifQueue.Irq
import BluetoeModel.NotifQueue.Props
/-!
  # C13 — Notification requests from interrupt context are never lost

  "A notification or indication requested from an interrupt or another thread while the link layer
  is dequeuing pending requests is neither lost nor duplicated, whatever the interleaving, as
  promised by server::notify()."

  `irqRun q prod k` (Irq.lean) is the consumer's dequeue on `q` with the producer call `prod` taken
  as an interrupt before the consumer's `k`-th access to the shared queue bytes.
-/
namespace BluetoeModel.NotifQueue

/-- full strength (already for the weakest adversary, an interrupt on the same core): whatever
    state the queue is in and wherever the interrupt is taken, an accepted request is not lost -/
def no_loss_full : Prop :=
  ∀ (sizes : List Nat) (ops : List Op) (prod : Kind × Nat) (k : Nat), (∀ n ∈ sizes, 0 < n) →
    (irqRun ((Queue.init sizes).run ops).1 prod k).1.lost prod = false

/-- **false of the code**: two characteristics in one level (they share `queue_[0]`),
    notification 0 pending; the consumer has loaded the byte in `remove( 0 )`, the interrupt queues
    notification 1 (`queue_notification` returns `true`), the consumer stores its stale byte:
    notification 1 is gone. -/
theorem lost_update_witness : ¬ no_loss_full := by
  intro h
  have := h [2] [.queue .notification 0] (.notification, 1) 2 (by decide)
  revert this; decide

/-- the same for the (repaired, fixes/notifq-01) single-entry level: indication and notification
    of its characteristic share `state_` -/
theorem lost_update_witness_single :
    (irqRun ((Queue.init [1]).run [.queue .notification 0]).1 (.indication, 0) 3).1.lost (.indication, 0) = true := by
  decide

/-- the loss needs the interrupt between the load and the store of `remove`'s read-modify-write:
    in the witness state no other access point loses the request -/
theorem witness_only_in_rmw :
    (List.range 5).filter (fun k => (irqRun ((Queue.init [2]).run [.queue .notification 0]).1 (.notification, 1) k).1.lost (.notification, 1)) = [2] := by
  decide

/-- **what a repair has to establish** (`// TODO: Synchronization required!!!`): if `queue_*` and
    `dequeue_*` exclude each other (critical sections), a producer call and a consumer call happen
    in one of the two sequential orders, and in both an accepted request `(k, i)` is either the one
    returned by the dequeue or still pending afterwards — for every reachable queue state.
    Order 1: producer first. -/
theorem no_loss_if_atomic_producer_first (q : Queue) (s : Spec) (h : RQ q s) (k : Kind) (i : Nat)
    (hacc : (s.step (.queue k i)).2 = .bool true) :
    ((s.step (.queue k i)).1.step .deq).2 = .entry (some (k, i)) ∨
      ((s.step (.queue k i)).1.step .deq).1.pending i k = true := by
  have hw : WFs s.levels := h.lv.wfs
  have h1 := (step_refines h (.queue k i)).2
  have hw1 : WFs (s.step (.queue k i)).1.levels := h1.lv.wfs
  obtain ⟨b, hb, hiff, hpend⟩ := newly_queued_iff_not_pending s hw k i
  rw [hb] at hacc
  have hbt : b = true := by simpa using hacc
  have hin := (hiff.mp hbt).1
  have hp1 : (s.step (.queue k i)).1.pending i k = true := (hpend i k).mpr (Or.inr ⟨hin, rfl, rfl⟩)
  cases hr : ((s.step (.queue k i)).1.step .deq).2 with
  | bool b => simp [Spec.step] at hr
  | unit => simp [Spec.step] at hr
  | oob => simp [Spec.step] at hr
  | entry e =>
    cases e with
    | none =>
      right
      rw [(dequeue_empty_only_if_nothing_sendable _ hw1 hr).1]; exact hp1
    | some x =>
      obtain ⟨k', i'⟩ := x
      by_cases c : i = i' ∧ k = k'
      · left; rw [c.1, c.2]
      · right
        exact ((dequeue_exactly_once_in_priority_order _ hw1 k' i' hr).2.2.1 i k).mpr ⟨hp1, c⟩

/-- Order 2: consumer first. -/
theorem no_loss_if_atomic_consumer_first (q : Queue) (s : Spec) (h : RQ q s) (k : Kind) (i : Nat)
    (hacc : ((s.step .deq).1.step (.queue k i)).2 = .bool true) :
    ((s.step .deq).1.step (.queue k i)).1.pending i k = true := by
  have h1 := (step_refines h .deq).2
  have hw1 : WFs (s.step .deq).1.levels := h1.lv.wfs
  obtain ⟨b, hb, hiff, hpend⟩ := newly_queued_iff_not_pending (s.step .deq).1 hw1 k i
  rw [hb] at hacc
  have hbt : b = true := by simpa using hacc
  exact (hpend i k).mpr (Or.inr ⟨(hiff.mp hbt).1, rfl, rfl⟩)

/-- non-vacuity of the hypotheses: a reachable state and an accepted request -/
example : RQ (Queue.init [2]) (Spec.init [2]) ∧ ((Spec.init [2]).step (.queue .notification 1)).2 = .bool true :=
  ⟨RQ.init [2] (by decide), by decide⟩

end BluetoeModel.NotifQueue
