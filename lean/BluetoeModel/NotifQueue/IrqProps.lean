import BluetoeModel.NotifQueue.Irq
import BluetoeModel.NotifQueue.Props
import BluetoeModel.NotifQueue.FineChain
/-!
  # C13 — Notification requests from interrupt context are never lost

  "A notification or indication requested from an interrupt or another thread while the link layer
  is dequeuing pending requests is neither lost nor duplicated, whatever the interleaving, as
  promised by server::notify()."

  `irqRun q prod k` (Irq.lean) is the consumer's dequeue on `q` with the producer call `prod` taken
  as an interrupt before the consumer's `k`-th access to the shared queue bytes.
-/
namespace BluetoeModel.NotifQueue

/-- full strength (already for the weakest adversary, an interrupt on the same core): whatever
    state the queue is in and wherever the interrupt is taken, an accepted request is not lost -/
def no_loss_full : Prop :=
  ∀ (sizes : List Nat) (ops : List Op) (prod : Kind × Nat) (k : Nat), (∀ n ∈ sizes, 0 < n) →
    (irqRun ((Queue.init sizes).run ops).1 prod k).1.lost prod = false

/-- **false of the code**: two characteristics in one level (they share `queue_[0]`),
    notification 0 pending; the consumer has loaded the byte in `remove( 0 )`, the interrupt queues
    notification 1 (`queue_notification` returns `true`), the consumer stores its stale byte:
    notification 1 is gone. -/
theorem lost_update_witness : ¬ no_loss_full := by
  intro h
  have := h [2] [.queue .notification 0] (.notification, 1) 2 (by decide)
  revert this; decide

/-- the same for the (repaired, fixes/notifq-01) single-entry level: indication and notification
    of its characteristic share `state_` -/
theorem lost_update_witness_single :
    (irqRun ((Queue.init [1]).run [.queue .notification 0]).1 (.indication, 0) 3).1.lost (.indication, 0) = true := by
  decide

/-- the loss needs the interrupt between the load and the store of `remove`'s read-modify-write:
    in the witness state no other access point loses the request -/
theorem witness_only_in_rmw :
    (List.range 5).filter (fun k => (irqRun ((Queue.init [2]).run [.queue .notification 0]).1 (.notification, 1) k).1.lost (.notification, 1)) = [2] := by
  decide

/-- **what a repair has to establish** (`// TODO: Synchronization required!!!`): if `queue_*` and
    `dequeue_*` exclude each other (critical sections), a producer call and a consumer call happen
    in one of the two sequential orders, and in both an accepted request `(k, i)` is either the one
    returned by the dequeue or still pending afterwards — for every reachable queue state.
    Order 1: producer first. -/
theorem no_loss_if_atomic_producer_first (q : Queue) (s : Spec) (h : RQ q s) (k : Kind) (i : Nat)
    (hacc : (s.step (.queue k i)).2 = .bool true) :
    ((s.step (.queue k i)).1.step .deq).2 = .entry (some (k, i)) ∨
      ((s.step (.queue k i)).1.step .deq).1.pending i k = true := by
  have hw : WFs s.levels := h.lv.wfs
  have h1 := (step_refines h (.queue k i)).2
  have hw1 : WFs (s.step (.queue k i)).1.levels := h1.lv.wfs
  obtain ⟨b, hb, hiff, hpend⟩ := newly_queued_iff_not_pending s hw k i
  rw [hb] at hacc
  have hbt : b = true := by simpa using hacc
  have hin := (hiff.mp hbt).1
  have hp1 : (s.step (.queue k i)).1.pending i k = true := (hpend i k).mpr (Or.inr ⟨hin, rfl, rfl⟩)
  cases hr : ((s.step (.queue k i)).1.step .deq).2 with
  | bool b => simp [Spec.step] at hr
  | unit => simp [Spec.step] at hr
  | oob => simp [Spec.step] at hr
  | entry e =>
    cases e with
    | none =>
      right
      rw [(dequeue_empty_only_if_nothing_sendable _ hw1 hr).1]; exact hp1
    | some x =>
      obtain ⟨k', i'⟩ := x
      by_cases c : i = i' ∧ k = k'
      · left; rw [c.1, c.2]
      · right
        exact ((dequeue_exactly_once_in_priority_order _ hw1 k' i' hr).2.2.1 i k).mpr ⟨hp1, c⟩

/-- Order 2: consumer first. -/
theorem no_loss_if_atomic_consumer_first (q : Queue) (s : Spec) (h : RQ q s) (k : Kind) (i : Nat)
    (hacc : ((s.step .deq).1.step (.queue k i)).2 = .bool true) :
    ((s.step .deq).1.step (.queue k i)).1.pending i k = true := by
  have h1 := (step_refines h .deq).2
  have hw1 : WFs (s.step .deq).1.levels := h1.lv.wfs
  obtain ⟨b, hb, hiff, hpend⟩ := newly_queued_iff_not_pending (s.step .deq).1 hw1 k i
  rw [hb] at hacc
  have hbt : b = true := by simpa using hacc
  exact (hpend i k).mpr (Or.inr ⟨(hiff.mp hbt).1, rfl, rfl⟩)

/-- non-vacuity of the hypotheses: a reachable state and an accepted request -/
example : RQ (Queue.init [2]) (Spec.init [2]) ∧ ((Spec.init [2]).step (.queue .notification 1)).2 = .bool true :=
  ⟨RQ.init [2] (by decide), by decide⟩

/-! ## Finest granularity: only the byte read-modify-writes are atomic (Fine.lean)

  `fineRun q (k, i) k1 k2`: one consumer dequeue and one producer call `queue_*( i )`, the producer's
  load (`result = ( queue_[ b ] & bits ) == 0`) taken immediately before the consumer's `k1`-th and the
  producer's atomic `queue_[ b ] |= bits` immediately before the consumer's `k2`-th access to the
  shared bytes; the consumer's accesses are the loads of its scan and, last, its atomic
  `queue_[ b ] &= ~bit`.  `k1 ≤ k2` ranges over all interleavings of the two access sequences
  (the interrupt on the same core is `k1 = k2`). -/

theorem sdeqLv_out {ss : List SLevel} (hw : WFs ss) (off : Nat) (out : Option Nat) :
    (sdeqLv ss off out).2.1 = newOut out (sdeqLv ss off out).2.2 := by
  cases hr : (sdeqLv ss off out).2.2 with
  | none => rw [(sdeqLv_none hw off out hr).1]; rfl
  | some y =>
    obtain ⟨k, g⟩ := y
    obtain ⟨_, _, _, _, _, ho, _⟩ := sdeqLv_some hw off out k g hr
    rw [ho, newOut_eq]

theorem sdeqLv_totalSize : ∀ (ss : List SLevel) (off : Nat) (out : Option Nat),
    totalSize (sdeqLv ss off out).1 = totalSize ss := by
  intro ss
  induction ss with
  | nil => intro off out; rfl
  | cons l ls ih =>
    intro off out
    have hs := SLevel.deq_size l off out
    unfold sdeqLv
    rcases hd : l.deq off out with ⟨l', o', r⟩
    rw [hd] at hs
    cases r with
    | some x => simp only [totalSize]; rw [show l'.size = l.size from hs]
    | none => simp only [totalSize, ih]; rw [show l'.size = l.size from hs]

/-- the answer of `queue_*( i, k )` is the same before and after a dequeue that returns another request -/
theorem queue_result_stable {ss : List SLevel} (hw : WFs ss) (out : Option Nat) (k : Kind) (i : Nat)
    (hne : (sdeqLv ss 0 out).2.2 ≠ some (k, i)) :
    (squeueLv (sdeqLv ss 0 out).1 i k).2 = (squeueLv ss i k).2 := by
  have h1 := (squeueLv_spec (sdeqLv_wf hw 0 out) i k).1
  have h0 := (squeueLv_spec hw i k).1
  rw [Bool.eq_iff_iff, h1, h0, sdeqLv_totalSize]
  cases hr : (sdeqLv ss 0 out).2.2 with
  | none => rw [(sdeqLv_none hw 0 out hr).1]
  | some y =>
    obtain ⟨k', g⟩ := y
    obtain ⟨i', hg, _, _, _, _, hupd, _⟩ := sdeqLv_some hw 0 out k' g hr
    have hp := hupd i k
    rw [hr] at hne
    have hne' : ¬ (i = i' ∧ k = k') := by
      intro e; apply hne; rw [e.1, e.2, hg]; rfl
    constructor
    · rintro ⟨a, b⟩
      refine ⟨a, ?_⟩
      cases hpp : pendLv ss i k with
      | false => rfl
      | true => rw [hp.mpr ⟨hpp, hne'⟩] at b; cases b
    · rintro ⟨a, b⟩
      refine ⟨a, ?_⟩
      cases hpp : pendLv (sdeqLv ss 0 out).1 i k with
      | false => rfl
      | true => rw [(hp.mp hpp).1] at b; cases b

/-- **C13 with atomic read-modify-writes, every schedule**: for every reachable queue state (`RQ q s`),
    every producer request and every interleaving `k1 ≤ k2` at memory-access granularity the outcome
    (producer's answer, consumer's result, queue afterwards) is that of the set specification running
    the two calls in one of the two sequential orders —
    * producer first, or
    * consumer first, or
    * consumer first except that the producer answers `false` ("was already queued") instead of
      `true`: its load saw the request that the consumer was about to remove (`k1 ≤ n < k2`, `n` =
      the consumer's RMW); the request is queued again by the producer's RMW. -/
theorem fine_linearizable (q : Queue) (s : Spec) (h : RQ q s) (k : Kind) (i : Nat) (k1 k2 : Nat) (hk : k1 ≤ k2) :
    ∃ o, fineRun q (k, i) k1 k2 = some o ∧
      ((Out.bool o.pres = (s.step (.queue k i)).2 ∧ Out.entry o.deq = ((s.step (.queue k i)).1.step .deq).2 ∧
          RQ o.q ((s.step (.queue k i)).1.step .deq).1) ∨
       (Out.entry o.deq = (s.step .deq).2 ∧ Out.bool o.pres = ((s.step .deq).1.step (.queue k i)).2 ∧
          RQ o.q ((s.step .deq).1.step (.queue k i)).1) ∨
       (Out.entry o.deq = (s.step .deq).2 ∧ o.deq = some (k, i) ∧ o.pres = false ∧ k1 < k2 ∧
          RQ o.q ((s.step .deq).1.step (.queue k i)).1)) := by
  have hw : WFs s.levels := h.lv.wfs
  obtain ⟨ls1, hq1, hr1⟩ := queueLv_refines h.lv i k
  obtain ⟨r, n, rm0, rm1, hf, _, hT, hdisj⟩ := fchain_spec h.lv k k2 q.outstanding i 0 0 ls1 _ hq1
  have hout := h.out
  have hw1 : WFs (squeueLv s.levels i k).1 := squeueLv_wf hw i k
  have hw0 : WFs (sdeqLv s.levels 0 s.outstanding).1 := sdeqLv_wf hw 0 s.outstanding
  -- the two sequential runs of the specification
  have eQ : s.step (.queue k i) = ({ s with levels := (squeueLv s.levels i k).1 }, .bool (squeueLv s.levels i k).2) := rfl
  have eD : ∀ t : Spec, t.step .deq = ((⟨(sdeqLv t.levels 0 t.outstanding).1, (sdeqLv t.levels 0 t.outstanding).2.1⟩ : Spec),
      Out.entry (sdeqLv t.levels 0 t.outstanding).2.2) := by
    intro t
    rcases hd : sdeqLv t.levels 0 t.outstanding with ⟨a, b, c⟩
    simp only [Spec.step, hd]
  rw [hout] at hf hT hdisj
  by_cases hk2 : k2 ≤ n
  · have hrun : fineRun q (k, i) k1 k2 = some (⟨(squeueLv s.levels i k).2, r,
        ⟨rm1, newOut q.outstanding r⟩⟩ : FOutcome) := by
      simp only [fineRun, hq1, hout, hf, hk2, if_true]
    refine ⟨_, hrun, ?_⟩
    have hPF : ViewBefore (squeueLv s.levels i k).1 0 s.outstanding r rm1 →
        (Out.bool (squeueLv s.levels i k).2 = (s.step (.queue k i)).2 ∧
          Out.entry r = ((s.step (.queue k i)).1.step .deq).2 ∧
          RQ (⟨rm1, newOut q.outstanding r⟩ : Queue) ((s.step (.queue k i)).1.step .deq).1) := by
      intro hB
      refine ⟨by rw [eQ], ?_, ⟨?_, ?_⟩⟩
      · rw [eQ, eD]; simp only; rw [hB.1]
      · rw [eQ, eD]; exact hB.2
      · rw [eQ, eD]; simp only; rw [sdeqLv_out hw1, hB.1, hout]
    rcases hdisj with ⟨hA, hB | hC⟩ | hB
    · exact Or.inl (hPF hB)
    · right; left
      refine ⟨by rw [eD]; simp only; rw [hA.1], ?_, ⟨?_, ?_⟩⟩
      · rw [eD]
        show Out.bool _ = Out.bool _
        rw [queue_result_stable hw s.outstanding k i (by rw [hA.1]; exact hC.1)]
      · rw [eD]; exact hC.2
      · have e2 : ((s.step .deq).1.step (.queue k i)).1.outstanding = (s.step .deq).1.outstanding := rfl
        rw [e2, eD]; show newOut q.outstanding r = _; rw [sdeqLv_out hw, hA.1, hout]
    · exact Or.inl (hPF hB)
  · have hA := hT (by omega)
    obtain ⟨late, hq2, hr2⟩ := queueLv_refines hA.2 i k
    have hrun : fineRun q (k, i) k1 k2 = some (⟨if k1 ≤ n then (squeueLv s.levels i k).2
          else (squeueLv (sdeqLv s.levels 0 s.outstanding).1 i k).2, r,
        ⟨late, newOut q.outstanding r⟩⟩ : FOutcome) := by
      simp only [fineRun, hq1, hout, hf, hk2, if_false, hq2]
    refine ⟨_, hrun, Or.inr ?_⟩
    have hD : Out.entry r = (s.step .deq).2 := by rw [eD]; simp only; rw [hA.1]
    have hRQ : RQ (⟨late, newOut q.outstanding r⟩ : Queue) ((s.step .deq).1.step (.queue k i)).1 := by
      refine ⟨by rw [eD]; exact hr2, ?_⟩
      have e2 : ((s.step .deq).1.step (.queue k i)).1.outstanding = (s.step .deq).1.outstanding := rfl
      rw [e2, eD]; show newOut q.outstanding r = _; rw [sdeqLv_out hw, hA.1, hout]
    by_cases hk1 : k1 ≤ n
    · by_cases hsame : r = some (k, i)
      · right
        refine ⟨hD, hsame, ?_, by omega, hRQ⟩
        simp only [hk1, if_true]
        obtain ⟨i', hg, hlt, hp, _⟩ := sdeqLv_some hw 0 s.outstanding k i (by rw [hA.1, hsame])
        have e : i' = i := by omega
        subst e
        cases hb : (squeueLv s.levels i' k).2 with
        | false => rfl
        | true => have := ((squeueLv_spec hw i' k).1.mp hb).2; rw [hp] at this; cases this
      · left
        refine ⟨hD, ?_, hRQ⟩
        rw [eD]
        show Out.bool _ = Out.bool _
        simp only [hk1, if_true]
        rw [queue_result_stable hw s.outstanding k i (by rw [hA.1]; exact hsame)]
    · left
      refine ⟨hD, ?_, hRQ⟩
      rw [eD]
      show Out.bool _ = Out.bool _
      simp only [hk1, if_false]

/-- non-vacuity: a reachable state, and a schedule for each of the three cases on `[2]` with
    notification 0 pending and the producer requesting notification 0 again (consumer: load, RMW) -/
example : RQ ((Queue.init [2]).run [.queue .notification 0]).1 ((Spec.init [2]).run [.queue .notification 0]).1 :=
  (run_refines (RQ.init [2] (by decide)) _).2

/-- **sharpened finding** (`C13:stale-result:load-before-rmw`, benign): atomic RMWs are not enough for
    the *answer* of `queue_*`: the producer loads (`result = false`, "already queued"), the consumer
    removes and returns the request, the producer's RMW queues it again — the answer is `false`
    although the request is newly pending (sequentially: `true`); nothing is lost, the request is
    transmitted twice, but `link_layer::queue_lcap_notification` does not wake up the radio for it. -/
theorem stale_result_witness :
    (fineRun ((Queue.init [2]).run [.queue .notification 0]).1 (.notification, 0) 0 2).map
        (fun o => (o.pres, o.deq, drain o.q 5)) =
      some (false, some (.notification, 0), [(.notification, 0)]) ∧
    ((((Spec.init [2]).run [.queue .notification 0]).1.step .deq).1.step (.queue .notification 0)).2 = .bool true := by
  decide

/-- **C13, no loss with atomic read-modify-writes**: under every schedule the producer's request —
    whatever the answer — has been returned by this dequeue or is pending afterwards, and so is every
    request that was pending before. -/
theorem fine_no_loss (q : Queue) (s : Spec) (h : RQ q s) (k : Kind) (i : Nat) (k1 k2 : Nat) (hk : k1 ≤ k2) :
    ∃ o s', fineRun q (k, i) k1 k2 = some o ∧ RQ o.q s' ∧
      (i < totalSize s.levels → o.deq = some (k, i) ∨ s'.pending i k = true) ∧
      (∀ j k', s.pending j k' = true → o.deq = some (k', j) ∨ s'.pending j k' = true) := by
  have hw : WFs s.levels := h.lv.wfs
  obtain ⟨o, hrun, hcase⟩ := fine_linearizable q s h k i k1 k2 hk
  have hmem : ∀ {x : Option (Kind × Nat)} {a : Out} {g : Kind × Nat}, Out.entry x = a →
      (Out.entry (some g) = a) → x = some g := by
    intro x a g h1 h2; rw [← h1] at h2; exact (Out.entry.inj h2).symm
  -- both sequential orders keep everything
  have hPF : ∀ j k', (s.pending j k' = true ∨ (i < totalSize s.levels ∧ j = i ∧ k' = k)) →
      ((s.step (.queue k i)).1.step .deq).2 = .entry (some (k', j)) ∨
      ((s.step (.queue k i)).1.step .deq).1.pending j k' = true := by
    intro j k' hp
    have hp1 : (s.step (.queue k i)).1.pending j k' = true := ((squeueLv_spec hw i k).2 j k').mpr hp
    rcases pending_until_dequeued _ (Spec.step_wf s hw _) j k' [.deq] hp1 (by simp) with a | a
    · exact Or.inr a
    · left
      simp only [Spec.run, List.mem_singleton] at a
      exact a.symm
  have hCF : ∀ j k', (s.pending j k' = true ∨ (i < totalSize s.levels ∧ j = i ∧ k' = k)) →
      (s.step .deq).2 = .entry (some (k', j)) ∨ ((s.step .deq).1.step (.queue k i)).1.pending j k' = true := by
    intro j k' hp
    have hw' := Spec.step_wf s hw .deq
    have hts : totalSize (s.step .deq).1.levels = totalSize s.levels := sdeqLv_totalSize _ _ _
    rcases hp with hp | hp
    · rcases pending_until_dequeued s hw j k' [.deq] hp (by simp) with a | a
      · exact Or.inr (((squeueLv_spec hw' i k).2 j k').mpr (Or.inl a))
      · left
        simp only [Spec.run, List.mem_singleton] at a
        exact a.symm
    · exact Or.inr (((squeueLv_spec hw' i k).2 j k').mpr (Or.inr ⟨by rw [hts]; exact hp.1, hp.2⟩))
  rcases hcase with ⟨_, hd, hrq⟩ | ⟨hd, _, hrq⟩ | ⟨hd, _, _, _, hrq⟩
  · refine ⟨o, _, hrun, hrq, fun hi => ?_, fun j k' hp => ?_⟩
    · rcases hPF i k (Or.inr ⟨hi, rfl, rfl⟩) with a | a
      · exact Or.inl (hmem hd a.symm)
      · exact Or.inr a
    · rcases hPF j k' (Or.inl hp) with a | a
      · exact Or.inl (hmem hd a.symm)
      · exact Or.inr a
  · refine ⟨o, _, hrun, hrq, fun hi => ?_, fun j k' hp => ?_⟩
    · rcases hCF i k (Or.inr ⟨hi, rfl, rfl⟩) with a | a
      · exact Or.inl (hmem hd a.symm)
      · exact Or.inr a
    · rcases hCF j k' (Or.inl hp) with a | a
      · exact Or.inl (hmem hd a.symm)
      · exact Or.inr a
  · refine ⟨o, _, hrun, hrq, fun hi => ?_, fun j k' hp => ?_⟩
    · rcases hCF i k (Or.inr ⟨hi, rfl, rfl⟩) with a | a
      · exact Or.inl (hmem hd a.symm)
      · exact Or.inr a
    · rcases hCF j k' (Or.inl hp) with a | a
      · exact Or.inl (hmem hd a.symm)
      · exact Or.inr a

end BluetoeModel.NotifQueue
