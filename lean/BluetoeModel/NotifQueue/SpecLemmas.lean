import BluetoeModel.NotifQueue.RefineQ
/-
  Facts about the specification (`SLevel`, `Spec`): what a scan / dequeue returns.
-/
namespace BluetoeModel.NotifQueue

/-- characteristic `j` of level `s` has a request that may be sent now -/
def SLevel.sendable (s : SLevel) (free : Bool) (j : Nat) : Prop :=
  (s.slot j).n = true ∨ ((s.slot j).i = true ∧ free = true)

theorem step_pos (i t n : Nat) : ((i + 1) % n + t) % n = (i + (t + 1)) % n := by
  rw [Nat.mod_add_mod]; congr 1; omega

theorem SLevel.scan_none {s : SLevel} (hw : s.WF) (free : Bool) :
    ∀ cnt i, i < s.size → s.scan free i cnt = none →
      ∀ t, t < cnt → ¬ s.sendable free ((i + t) % s.size) := by
  intro cnt
  induction cnt with
  | zero => intro i _ _ t ht; omega
  | succ n ih =>
    intro i hi h t ht
    unfold SLevel.scan at h
    split at h
    · cases h
    · rename_i c1
      split at h
      · cases h
      · rename_i c2
        cases t with
        | zero =>
          rw [Nat.add_zero, Nat.mod_eq_of_lt hi]
          intro hs
          rcases hs with hs | hs
          · exact c2 hs
          · exact c1 hs
        | succ t =>
          have := ih _ (Nat.mod_lt _ hw.pos) h t (by omega)
          rwa [step_pos] at this

theorem SLevel.scan_some' {s : SLevel} (hw : s.WF) (free : Bool) :
    ∀ cnt i k j, i < s.size → s.scan free i cnt = some (k, j) →
      ∃ t, t < cnt ∧ j = (i + t) % s.size ∧ (∀ t', t' < t → ¬ s.sendable free ((i + t') % s.size)) ∧
        (s.slot j).has k = true ∧ (k = .indication → free = true) ∧
        (k = .notification → ¬ ((s.slot j).i = true ∧ free = true)) := by
  intro cnt
  induction cnt with
  | zero => intro i k j _ h; simp [SLevel.scan] at h
  | succ n ih =>
    intro i k j hi h
    unfold SLevel.scan at h
    split at h
    · rename_i c1
      cases h
      refine ⟨0, by omega, by rw [Nat.add_zero, Nat.mod_eq_of_lt hi], fun t' ht' => by omega, c1.1, ?_, ?_⟩
      · intro _; exact c1.2
      · intro e; cases e
    · rename_i c1
      split at h
      · rename_i c2
        cases h
        refine ⟨0, by omega, by rw [Nat.add_zero, Nat.mod_eq_of_lt hi], fun t' ht' => by omega, c2, ?_, ?_⟩
        · intro e; cases e
        · intro _; exact c1
      · rename_i c2
        obtain ⟨t, ht, hj, hno, hrest⟩ := ih _ k j (Nat.mod_lt _ hw.pos) h
        refine ⟨t + 1, by omega, by rw [hj, step_pos], ?_, hrest⟩
        intro t' ht'
        cases t' with
        | zero =>
          rw [Nat.add_zero, Nat.mod_eq_of_lt hi]
          intro hs
          rcases hs with hs | hs
          · exact c2 hs
          · exact c1 hs
        | succ t' =>
          have := hno t' (by omega)
          rwa [step_pos] at this

/-- scanning `n` entries from any start visits every index below `n` -/
theorem cover (n i j : Nat) (hi : i < n) (hj : j < n) : ∃ t, t < n ∧ (i + t) % n = j := by
  by_cases c : i ≤ j
  · exact ⟨j - i, by omega, by rw [show i + (j - i) = j by omega, Nat.mod_eq_of_lt hj]⟩
  · exact ⟨j + n - i, by omega, by rw [show i + (j + n - i) = j + n by omega, Nat.add_mod_right, Nat.mod_eq_of_lt hj]⟩

theorem SLevel.deq_none {s : SLevel} (hw : s.WF) (off : Nat) (out : Option Nat)
    (h : (s.deq off out).2.2 = none) :
    s.deq off out = (s, out, none) ∧ ∀ j, j < s.size → ¬ s.sendable out.isNone j := by
  unfold SLevel.deq at h ⊢
  cases hsc : s.scan out.isNone s.next s.size with
  | some r => rw [hsc] at h; simp at h
  | none =>
    refine ⟨rfl, ?_⟩
    intro j hj
    obtain ⟨t, ht, e⟩ := cover s.size s.next j hw.nlt hj
    have := SLevel.scan_none hw _ _ _ hw.nlt hsc t ht
    rwa [e] at this

theorem SLevel.deq_some {s : SLevel} (hw : s.WF) (off : Nat) (out : Option Nat) (k : Kind) (g : Nat)
    (h : (s.deq off out).2.2 = some (k, g)) :
    ∃ j t, g = j + off ∧ j < s.size ∧ t < s.size ∧ j = (s.next + t) % s.size ∧
      (∀ t', t' < t → ¬ s.sendable out.isNone ((s.next + t') % s.size)) ∧
      (s.slot j).has k = true ∧ (k = .indication → out = none) ∧
      (k = .notification → ¬ ((s.slot j).i = true ∧ out = none)) ∧
      s.deq off out = ({ s with next := (j + 1) % s.size, slots := s.slots.set j ((s.slot j).clr k) },
        (if k = .indication then some g else out), some (k, g)) := by
  unfold SLevel.deq at h ⊢
  cases hsc : s.scan out.isNone s.next s.size with
  | none => rw [hsc] at h; simp at h
  | some r =>
    obtain ⟨k', j⟩ := r
    rw [hsc] at h
    simp only [Option.some.injEq, Prod.mk.injEq] at h
    obtain ⟨hk, hg⟩ := h
    subst hk
    obtain ⟨t, ht, hj, hno, hhas, hi, hn⟩ := SLevel.scan_some' hw _ _ _ _ _ hw.nlt hsc
    refine ⟨j, t, hg.symm, by rw [hj]; exact Nat.mod_lt _ hw.pos, ht, hj, hno, hhas, ?_, ?_, ?_⟩
    · intro e; have := hi e; cases out <;> simp_all
    · intro e c; exact hn e ⟨c.1, by simp [c.2]⟩
    · simp [hg]

theorem SLevel.slot_set (s : SLevel) (j : Nat) (x : Slot) (hj : j < s.slots.length) (j' : Nat) (n : Nat) :
    ({ s with next := n, slots := s.slots.set j x } : SLevel).slot j' = if j' = j then x else s.slot j' := by
  unfold SLevel.slot
  by_cases c : j' = j
  · subst c; simp [hj]
  · simp [c, List.getElem?_set_ne (Ne.symm c)]

theorem Slot.clr_has (sl : Slot) (k k' : Kind) : (sl.clr k).has k' = true ↔ (sl.has k' = true ∧ k' ≠ k) := by
  cases k <;> cases k' <;> simp [Slot.clr, Slot.has]

theorem Slot.set_has (sl : Slot) (k k' : Kind) : (sl.set k).has k' = true ↔ (sl.has k' = true ∨ k' = k) := by
  cases k <;> cases k' <;> simp [Slot.set, Slot.has]

end BluetoeModel.NotifQueue
