import BluetoeModel.NotifQueue.SpecChain
/-
  Bounded response on the specification: a pending request `(g, k)` is dequeued within
  `waitLv` dequeues that may send it, unless a dequeue *overtakes* it (moves the round-robin cursor
  of its level past its characteristic).  Used by Props.lean (C11 "eventually", C12 "within one round").
-/
namespace BluetoeModel.NotifQueue

/-! ### cursor arithmetic -/

theorem raw_dist (n c t : Nat) (hc : c < n) (ht : t < n) : ((c + t) % n + n - c) % n = t := by
  by_cases h : c + t < n
  · rw [Nat.mod_eq_of_lt h, show c + t + n - c = t + n by omega, Nat.add_mod_right, Nat.mod_eq_of_lt ht]
  · have e : (c + t) % n = c + t - n := by
      rw [Nat.mod_eq_sub_mod (by omega), Nat.mod_eq_of_lt (by omega)]
    rw [e, show c + t - n + n - c = t by omega, Nat.mod_eq_of_lt ht]

theorem raw_pos (n c j : Nat) (hc : c < n) (hj : j < n) : (c + (j + n - c) % n) % n = j := by
  by_cases h : c ≤ j
  · have e : (j + n - c) % n = j - c := by
      rw [show j + n - c = (j - c) + n by omega, Nat.add_mod_right, Nat.mod_eq_of_lt (by omega)]
    rw [e, show c + (j - c) = j by omega, Nat.mod_eq_of_lt hj]
  · have e : (j + n - c) % n = j + n - c := Nat.mod_eq_of_lt (by omega)
    rw [e, show c + (j + n - c) = j + n by omega, Nat.add_mod_right, Nat.mod_eq_of_lt hj]

/-- scan distance of characteristic `j` from the cursor of its level -/
def SLevel.dist (l : SLevel) (j : Nat) : Nat := (j + l.size - l.next) % l.size

theorem SLevel.dist_lt {l : SLevel} (hw : l.WF) (j : Nat) : l.dist j < l.size := Nat.mod_lt _ hw.pos

theorem SLevel.dist_pos {l : SLevel} (hw : l.WF) {t : Nat} (ht : t < l.size) :
    l.dist ((l.next + t) % l.size) = t := raw_dist _ _ _ hw.nlt ht

theorem SLevel.pos_dist {l : SLevel} (hw : l.WF) {j : Nat} (hj : j < l.size) :
    (l.next + l.dist j) % l.size = j := raw_pos _ _ _ hw.nlt hj

theorem SLevel.dist_inj {l : SLevel} (hw : l.WF) {i j : Nat} (hi : i < l.size) (hj : j < l.size)
    (h : l.dist i = l.dist j) : i = j := by
  rw [← SLevel.pos_dist hw hi, ← SLevel.pos_dist hw hj, h]

/-- after the cursor has moved behind the characteristic at distance `t'`, the one at distance
    `t > t'` is at distance `t - t' - 1` -/
theorem SLevel.dist_after {l l' : SLevel} (hw : l.WF) {j j' : Nat} (hj : j < l.size) (hj' : j' < l.size)
    (hlt : l.dist j' < l.dist j) (hs : l'.size = l.size) (hn : l'.next = (j' + 1) % l.size) :
    l'.dist j = l.dist j - l.dist j' - 1 := by
  have e1 : j = (l'.next + (l.dist j - l.dist j' - 1)) % l.size := by
    have hb := SLevel.pos_dist hw hj'
    have ha := SLevel.pos_dist hw hj
    generalize l.dist j' = a at *
    generalize l.dist j = b at *
    calc j = (l.next + b) % l.size := ha.symm
      _ = (l.next + a + (b - a)) % l.size := by congr 1; omega
      _ = ((l.next + a) % l.size + (b - a)) % l.size := (Nat.mod_add_mod _ _ _).symm
      _ = (j' + (b - a)) % l.size := by rw [hb]
      _ = (j' + 1 + (b - a - 1)) % l.size := by congr 1; omega
      _ = ((j' + 1) % l.size + (b - a - 1)) % l.size := (Nat.mod_add_mod _ _ _).symm
      _ = (l'.next + (b - a - 1)) % l.size := by rw [hn]
  have hdj := SLevel.dist_lt hw j
  unfold SLevel.dist
  rw [hs]
  conv => lhs; rw [e1]
  exact raw_dist _ _ _ (by rw [hn]; exact Nat.mod_lt _ hw.pos) (by omega)

/-! ### counting pending requests -/

def Slot.cnt (s : Slot) : Nat := s.n.toNat + s.i.toNat

def SLevel.pendCount (l : SLevel) : Nat := (l.slots.map Slot.cnt).sum

theorem sum_set {α : Type} (f : α → Nat) : ∀ (l : List α) (i : Nat) (x : α) (h : i < l.length),
    ((l.set i x).map f).sum + f l[i] = (l.map f).sum + f x := by
  intro l
  induction l with
  | nil => intro i x h; cases h
  | cons a l ih =>
    intro i x h
    cases i with
    | zero => simp [List.set]; omega
    | succ i =>
      have := ih i x (by simpa using h)
      simp only [List.set, List.map_cons, List.sum_cons, List.getElem_cons_succ]; omega

theorem Slot.cnt_clr (sl : Slot) (k : Kind) (h : sl.has k = true) : (sl.clr k).cnt + 1 = sl.cnt := by
  obtain ⟨n, i⟩ := sl
  cases k <;> simp_all [Slot.has, Slot.clr, Slot.cnt] <;> omega

theorem Slot.cnt_le (sl : Slot) : sl.cnt ≤ 2 := by
  obtain ⟨n, i⟩ := sl
  cases n <;> cases i <;> decide

theorem sum_cnt_le : ∀ (l : List Slot), (l.map Slot.cnt).sum ≤ 2 * l.length := by
  intro l
  induction l with
  | nil => simp
  | cons a l ih => have := Slot.cnt_le a; simp; omega

theorem SLevel.pendCount_le {l : SLevel} (hw : l.WF) : l.pendCount ≤ 2 * l.size := by
  have := sum_cnt_le l.slots
  rw [hw.len] at this; exact this

/-- the measure: number of pending requests on the higher priority levels + scan distance of the
    characteristic in its own level + 1 -/
def waitLv : List SLevel → Nat → Nat
  | [], _ => 0
  | l :: ls, g => if g < l.size then l.dist g + 1 else l.pendCount + waitLv ls (g - l.size)

/-- closed bound of `waitLv`: twice the number of characteristics with a higher priority + the
    number of characteristics of the own priority level -/
def boundLv : List SLevel → Nat → Nat
  | [], _ => 0
  | l :: ls, g => if g < l.size then l.size else 2 * l.size + boundLv ls (g - l.size)

theorem wait_le_bound {ss : List SLevel} (hw : WFs ss) : ∀ g, waitLv ss g ≤ boundLv ss g := by
  induction ss with
  | nil => intro g; simp [waitLv, boundLv]
  | cons l ls ih =>
    intro g
    have hl : l.WF := hw l (by simp)
    have hls : WFs ls := fun x hx => hw x (by simp [hx])
    unfold waitLv boundLv
    by_cases c : g < l.size
    · simp only [c, if_true]; have := SLevel.dist_lt hl g; omega
    · simp only [c, if_false]; have := SLevel.pendCount_le hl; have := ih hls (g - l.size); omega

theorem waitLv_pos {ss : List SLevel} : ∀ {g k}, pendLv ss g k = true → 0 < waitLv ss g := by
  induction ss with
  | nil => intro g k h; simp [pendLv] at h
  | cons l ls ih =>
    intro g k h
    unfold waitLv
    unfold pendLv at h
    by_cases c : g < l.size
    · simp only [c, if_true]; omega
    · simp only [c, if_false] at h ⊢; have := ih h; omega

/-- characteristic `i` lies in the priority level of `g` at a scan distance ≥ that of `g`: a
    dequeue that serves `i` moves the cursor of that level past `g` -/
def overtakesLv : List SLevel → Nat → Nat → Bool
  | [], _, _ => false
  | l :: ls, g, i =>
    if g < l.size then (decide (i < l.size) && decide (l.dist g ≤ l.dist i))
    else (decide (l.size ≤ i) && overtakesLv ls (g - l.size) (i - l.size))

/-! ### well-formedness is preserved -/

theorem SLevel.add_wf {l : SLevel} (hw : l.WF) (i : Nat) (k : Kind) : (l.add i k).1.WF :=
  ⟨hw.pos, hw.nlt, by simp [SLevel.add, hw.len]⟩

theorem SLevel.deq_wf {l : SLevel} (hw : l.WF) (off : Nat) (out : Option Nat) : (l.deq off out).1.WF := by
  cases hr : (l.deq off out).2.2 with
  | none => rw [(SLevel.deq_none hw off out hr).1]; exact hw
  | some r =>
    obtain ⟨k, g⟩ := r
    obtain ⟨j, t, _, _, _, _, _, _, _, _, e⟩ := SLevel.deq_some hw off out k g hr
    rw [e]
    exact ⟨hw.pos, Nat.mod_lt _ hw.pos, by simp [hw.len]⟩

theorem SLevel.deq_size (l : SLevel) (off : Nat) (out : Option Nat) : (l.deq off out).1.size = l.size := by
  unfold SLevel.deq; split <;> rfl

theorem squeueLv_wf {ss : List SLevel} (hw : WFs ss) : ∀ i k, WFs (squeueLv ss i k).1 := by
  induction ss with
  | nil => intro i k; exact hw
  | cons l ls ih =>
    intro i k
    have hl : l.WF := hw l (by simp)
    have hls : WFs ls := fun x hx => hw x (by simp [hx])
    unfold squeueLv
    by_cases c : i < l.size
    · simp only [c, if_true]
      intro x hx
      rcases List.mem_cons.mp hx with e | e
      · exact e ▸ SLevel.add_wf hl i k
      · exact hls x e
    · simp only [c, if_false]
      intro x hx
      rcases List.mem_cons.mp hx with e | e
      · exact e ▸ hl
      · exact ih hls _ k x e

theorem sdeqLv_wf {ss : List SLevel} (hw : WFs ss) : ∀ off out, WFs (sdeqLv ss off out).1 := by
  induction ss with
  | nil => intro off out; exact hw
  | cons l ls ih =>
    intro off out
    have hl : l.WF := hw l (by simp)
    have hls : WFs ls := fun x hx => hw x (by simp [hx])
    have hd := SLevel.deq_wf hl off out
    unfold sdeqLv
    rcases hdq : l.deq off out with ⟨l', o', r⟩
    rw [hdq] at hd
    cases r with
    | some x =>
      intro y hy
      rcases List.mem_cons.mp hy with e | e
      · exact e ▸ hd
      · exact hls y e
    | none =>
      intro y hy
      rcases List.mem_cons.mp hy with e | e
      · exact e ▸ hd
      · exact ih hls _ _ y e

theorem Spec.step_wf (s : Spec) (hw : WFs s.levels) (op : Op) : WFs (s.step op).1.levels := by
  cases op with
  | queue k i => exact squeueLv_wf hw i k
  | deq => exact sdeqLv_wf hw 0 s.outstanding
  | conf => exact hw
  | clear =>
    intro x hx
    simp only [Spec.step, List.mem_map] at hx
    obtain ⟨l, hl, rfl⟩ := hx
    have := hw l hl
    exact ⟨this.pos, this.pos, by simp [SLevel.clear, this.len]⟩

/-! ### one level -/

theorem elig_sendable {l : SLevel} {out : Option Nat} {j : Nat} {k : Kind} (hp : (l.slot j).has k = true)
    (he : eligible out k = true) : l.sendable out.isNone j := by
  cases k with
  | notification => exact Or.inl hp
  | indication => exact Or.inr ⟨hp, he⟩

/-- what one level's dequeue does to a waiting request `(j, k)` of this level -/
theorem SLevel.deq_wait {l : SLevel} (hw : l.WF) (off : Nat) (out : Option Nat) {j : Nat} {k : Kind}
    (hj : j < l.size) (hp : (l.slot j).has k = true) (k' : Kind) (x : Nat)
    (hr : (l.deq off out).2.2 = some (k', x)) :
    (k' = k ∧ x = j + off) ∨
    (((l.deq off out).1.slot j).has k = true ∧ ∃ i', x = i' + off ∧ i' < l.size ∧
      (l.dist i' < l.dist j → (l.deq off out).1.dist j < l.dist j) ∧
      (eligible out k = true → l.dist i' ≤ l.dist j) ∧
      (eligible out k = true → i' = j → k = .notification ∧ k' = .indication ∧ out = none)) := by
  obtain ⟨j', t, hx, hj', ht, hjt, hno, hhas, hind, hnot, e⟩ := SLevel.deq_some hw off out k' x hr
  have hdj' : l.dist j' = t := by rw [hjt]; exact SLevel.dist_pos hw ht
  by_cases c : k' = k ∧ j' = j
  · left; exact ⟨c.1, by rw [hx, c.2]⟩
  · right
    refine ⟨?_, j', hx, hj', ?_, ?_, ?_⟩
    · rw [e]
      show (({ l with next := (j' + 1) % l.size, slots := l.slots.set j' ((l.slot j').clr k') } : SLevel).slot j).has k = true
      rw [SLevel.slot_set l j' _ (by rw [hw.len]; exact hj')]
      by_cases cj : j = j'
      · subst cj
        simp only [if_true]
        rw [Slot.clr_has]
        exact ⟨hp, fun ek => c ⟨ek.symm, rfl⟩⟩
      · simp only [cj, if_false]; exact hp
    · intro hlt
      have := SLevel.dist_after (l' := (l.deq off out).1) hw hj hj' hlt (SLevel.deq_size l off out) (by rw [e])
      rw [this]; omega
    · intro he
      rcases Nat.lt_or_ge (l.dist j) t with clt | cge
      · exfalso
        have := hno (l.dist j) clt
        rw [SLevel.pos_dist hw hj] at this
        exact this (elig_sendable hp he)
      · omega
    · intro he ej
      subst ej
      cases k <;> cases k'
      · exact absurd ⟨rfl, rfl⟩ c
      · exact ⟨rfl, rfl, hind rfl⟩
      · exfalso
        have : out = none := by
          simp only [eligible] at he
          cases out <;> simp_all
        exact hnot rfl ⟨hp, this⟩
      · exact absurd ⟨rfl, rfl⟩ c

theorem SLevel.deq_pendCount {l : SLevel} (hw : l.WF) (off : Nat) (out : Option Nat) (k' : Kind) (x : Nat)
    (hr : (l.deq off out).2.2 = some (k', x)) : (l.deq off out).1.pendCount + 1 = l.pendCount := by
  obtain ⟨j', t, hx, hj', ht, hjt, hno, hhas, hind, hnot, e⟩ := SLevel.deq_some hw off out k' x hr
  rw [e]
  have hlen : j' < l.slots.length := by rw [hw.len]; exact hj'
  have h1 := sum_set Slot.cnt l.slots j' ((l.slot j').clr k') hlen
  have h2 := Slot.cnt_clr (l.slot j') k' hhas
  have h3 : l.slot j' = l.slots[j'] := by simp [SLevel.slot, hlen]
  rw [← h3] at h1
  show ((l.slots.set j' ((l.slot j').clr k')).map Slot.cnt).sum + 1 = (l.slots.map Slot.cnt).sum
  omega

/-! ### the priority chain -/

/-- what a dequeue does to a waiting request `(g, k)`: it is the one returned, or it stays pending
    and — unless the returned request overtakes it — its measure does not grow, and shrinks if the
    request may be sent; an overtaking dequeue of a request that may be sent is exactly the known
    finding (notification passed over for the indication of its own characteristic) -/
theorem sdeqLv_wait {ss : List SLevel} (hw : WFs ss) (k : Kind) : ∀ off out g ss' o r,
    pendLv ss g k = true → sdeqLv ss off out = (ss', o, r) →
    r = some (k, g + off) ∨
    (pendLv ss' g k = true ∧
     (r = none → eligible out k = false ∧ ss' = ss) ∧
     (∀ k' x, r = some (k', x) → ∃ i, x = i + off ∧
        (overtakesLv ss g i = false → waitLv ss' g ≤ waitLv ss g ∧ (eligible out k = true → waitLv ss' g < waitLv ss g)) ∧
        (overtakesLv ss g i = true → eligible out k = true → i = g ∧ k = .notification ∧ k' = .indication ∧ out = none))) := by
  induction ss with
  | nil => intro off out g ss' o r hp; simp [pendLv] at hp
  | cons l ls ih =>
    intro off out g ss' o r hp h
    have hl : l.WF := hw l (by simp)
    have hls : WFs ls := fun x hx => hw x (by simp [hx])
    unfold sdeqLv at h
    unfold pendLv at hp
    rcases hd : l.deq off out with ⟨l', o', r1⟩
    rw [hd] at h
    have hsz : l'.size = l.size := by have := SLevel.deq_size l off out; rw [hd] at this; exact this
    by_cases c : g < l.size
    · -- the request waits on this level
      simp only [c, if_true] at hp
      cases r1 with
      | some y =>
        obtain ⟨k', x⟩ := y
        simp only [Prod.mk.injEq] at h
        obtain ⟨h1, h2, h3⟩ := h
        subst h1; subst h2; subst h3
        rcases SLevel.deq_wait hl off out c hp k' x (by rw [hd]) with hdone | ⟨hstill, i', hx, hi', hdec, hle, hown⟩
        · left; rw [hdone.1, hdone.2]
        · right
          simp only [hd] at hstill hdec
          refine ⟨by simp only [pendLv, hsz, c, if_true]; exact hstill, (fun e => by cases e), ?_⟩
          intro k'' x' e
          simp only [Option.some.injEq, Prod.mk.injEq] at e
          obtain ⟨e1, e2⟩ := e
          subst e1; subst e2
          refine ⟨i', hx, ?_, ?_⟩
          · intro hov
            simp only [overtakesLv, c, if_true, hi', decide_true, Bool.true_and, decide_eq_false_iff_not, Nat.not_le] at hov
            have := hdec hov
            simp only [waitLv, hsz, c, if_true]
            omega
          · intro hov he
            simp only [overtakesLv, c, if_true, hi', decide_true, Bool.true_and, decide_eq_true_eq] at hov
            have e : i' = g := SLevel.dist_inj hl hi' c (by have := hle he; omega)
            exact ⟨e, hown he e⟩
      | none =>
        have hno := SLevel.deq_none hl off out (by rw [hd])
        rw [hd] at hno
        simp only [Prod.mk.injEq] at hno
        obtain ⟨⟨e1, e2, _⟩, hns⟩ := hno
        subst e1; subst e2
        have hel : eligible o' k = false := not_sendable_elig (hns g c) k hp
        simp only at h
        rcases hd2 : sdeqLv ls (off + l'.size) o' with ⟨ls', o2, r2⟩
        rw [hd2] at h
        simp only [Prod.mk.injEq] at h
        obtain ⟨h1, h2, h3⟩ := h
        subst h1; subst h2; subst h3
        right
        refine ⟨by simp only [pendLv, c, if_true]; exact hp, ?_, ?_⟩
        · intro e
          subst e
          have := (sdeqLv_none hls _ _ (by rw [hd2])).1
          rw [hd2] at this
          simp only [Prod.mk.injEq] at this
          exact ⟨hel, by rw [this.1]⟩
        · intro k' x e
          subst e
          obtain ⟨i2, hg2, _⟩ := sdeqLv_some hls _ _ k' x (by rw [hd2])
          refine ⟨i2 + l'.size, by omega, ?_, ?_⟩
          · intro _
            simp only [waitLv, c, if_true]
            exact ⟨Nat.le_refl _, fun he => by rw [hel] at he; cases he⟩
          · intro hov
            simp [overtakesLv, c] at hov
            omega
    · -- the request waits on a lower level
      simp only [c, if_false] at hp
      cases r1 with
      | some y =>
        obtain ⟨k', x⟩ := y
        simp only [Prod.mk.injEq] at h
        obtain ⟨h1, h2, h3⟩ := h
        subst h1; subst h2; subst h3
        obtain ⟨j', t, hx, hj', _⟩ := SLevel.deq_some hl off out k' x (by rw [hd])
        have hcnt := SLevel.deq_pendCount hl off out k' x (by rw [hd])
        rw [hd] at hcnt
        right
        refine ⟨by simp only [pendLv, hsz, c, if_false]; exact hp, (fun e => by cases e), ?_⟩
        intro k'' x' e
        simp only [Option.some.injEq, Prod.mk.injEq] at e
        obtain ⟨e1, e2⟩ := e
        subst e1; subst e2
        refine ⟨j', hx, ?_, ?_⟩
        · intro _
          simp only [waitLv, hsz, c, if_false]
          have hc : l'.pendCount + 1 = l.pendCount := hcnt
          omega
        · intro hov
          simp only [overtakesLv, c, if_false, Bool.and_eq_true, decide_eq_true_eq] at hov
          omega
      | none =>
        have hno := SLevel.deq_none hl off out (by rw [hd])
        rw [hd] at hno
        simp only [Prod.mk.injEq] at hno
        obtain ⟨⟨e1, e2, _⟩, _⟩ := hno
        subst e1; subst e2
        simp only at h
        rcases hd2 : sdeqLv ls (off + l'.size) o' with ⟨ls', o2, r2⟩
        rw [hd2] at h
        simp only [Prod.mk.injEq] at h
        obtain ⟨h1, h2, h3⟩ := h
        subst h1; subst h2; subst h3
        rcases ih hls (off + l'.size) o' (g - l'.size) ls' o2 r2 hp hd2 with hdone | ⟨hstill, hnone, hhit⟩
        · left; rw [hdone]; congr 2; omega
        · right
          refine ⟨by simp only [pendLv, c, if_false]; exact hstill, ?_, ?_⟩
          · intro e
            obtain ⟨a, b⟩ := hnone e
            exact ⟨a, by rw [b]⟩
          · intro k' x e
            obtain ⟨i2, hx, hA, hB⟩ := hhit k' x e
            have hov : overtakesLv (l' :: ls) g (i2 + l'.size) = overtakesLv ls (g - l'.size) i2 := by
              simp [overtakesLv, c]
            refine ⟨i2 + l'.size, by omega, ?_, ?_⟩
            · intro hf
              rw [hov] at hf
              have := hA hf
              simp only [waitLv, c, if_false]
              exact ⟨by omega, fun he => by have := this.2 he; omega⟩
            · intro ht he
              rw [hov] at ht
              obtain ⟨a, b⟩ := hB ht he
              exact ⟨by omega, b⟩

/-- queueing on the same or a lower priority level leaves the measure of a waiting request alone -/
theorem squeueLv_wait {ss : List SLevel} : ∀ g i k', levelOf ss g ≤ levelOf ss i →
    waitLv (squeueLv ss i k').1 g = waitLv ss g := by
  induction ss with
  | nil => intro g i k' _; rfl
  | cons l ls ih =>
    intro g i k' h
    unfold squeueLv
    unfold levelOf at h
    by_cases ci : i < l.size
    · simp only [ci, if_true] at h ⊢
      have cg : g < l.size := by
        rcases Nat.lt_or_ge g l.size with c | c
        · exact c
        · simp [show ¬ g < l.size by omega] at h
      simp only [waitLv, cg, if_true, SLevel.add, SLevel.dist]
    · simp only [ci, if_false] at h ⊢
      by_cases cg : g < l.size
      · simp only [waitLv, cg, if_true]
      · simp only [cg, if_false] at h
        simp only [waitLv, cg, if_false]
        rw [ih (g - l.size) (i - l.size) k' (by omega)]

/-! ### histories -/

/-- the window in which the request `(g, k)` waits: nothing is queued on a higher priority level
    (priorities are meant to let those go first), the queue is not cleared (disconnect), and no
    dequeue overtakes the request -/
def calm (g : Nat) (k : Kind) : Spec → List Op → Prop
  | _, [] => True
  | s, op :: ops =>
    (match op with
     | .queue _ i => levelOf s.levels g ≤ levelOf s.levels i
     | .clear => False
     | .conf => True
     | .deq => ∀ k' i, (s.step .deq).2 = .entry (some (k', i)) → ¬ (k' = k ∧ i = g) →
                overtakesLv s.levels g i = false)
    ∧ calm g k (s.step op).1 ops

/-- `calm` as a decision procedure (for the non-vacuity examples) -/
def calmB (g : Nat) (k : Kind) : Spec → List Op → Bool
  | _, [] => true
  | s, op :: ops =>
    (match op with
     | .queue _ i => decide (levelOf s.levels g ≤ levelOf s.levels i)
     | .clear => false
     | .conf => true
     | .deq =>
       match (s.step .deq).2 with
       | .entry (some (k', i)) => decide (k' = k ∧ i = g) || !(overtakesLv s.levels g i)
       | _ => true)
    && calmB g k (s.step op).1 ops

theorem calm_of_calmB (g : Nat) (k : Kind) : ∀ (ops : List Op) (s : Spec), calmB g k s ops = true → calm g k s ops := by
  intro ops
  induction ops with
  | nil => intro s _; trivial
  | cons op ops ih =>
    intro s h
    simp only [calmB, Bool.and_eq_true] at h
    refine ⟨?_, ih _ h.2⟩
    have h1 := h.1
    cases op with
    | queue k' i => simpa using h1
    | clear => simp at h1
    | conf => trivial
    | deq =>
      intro k' i he hne
      simp only [he, Bool.or_eq_true, decide_eq_true_eq, Bool.not_eq_true'] at h1
      rcases h1 with h1 | h1
      · exact absurd h1 hne
      · exact h1

/-- number of dequeues executed while a request of kind `k` may be sent (for a notification: all
    dequeues; for an indication: those with no confirmation outstanding) -/
def progressDeqs (k : Kind) : Spec → List Op → Nat
  | _, [] => 0
  | s, op :: ops =>
    (if op = .deq then (if eligible s.outstanding k = true then 1 else 0) else 0) + progressDeqs k (s.step op).1 ops

theorem Spec.run_cons (s : Spec) (op : Op) (ops : List Op) :
    (s.run (op :: ops)).2 = (s.step op).2 :: ((s.step op).1.run ops).2 ∧
    (s.run (op :: ops)).1 = ((s.step op).1.run ops).1 := ⟨rfl, rfl⟩

theorem bounded_response_aux (g : Nat) (k : Kind) : ∀ (ops : List Op) (s : Spec), WFs s.levels →
    s.pending g k = true → calm g k s ops → waitLv s.levels g ≤ progressDeqs k s ops →
    Out.entry (some (k, g)) ∈ (s.run ops).2 := by
  intro ops
  induction ops with
  | nil =>
    intro s _ hp _ hle
    have := waitLv_pos hp
    simp only [progressDeqs] at hle
    omega
  | cons op ops ih =>
    intro s hw hp hc hle
    rw [(Spec.run_cons s op ops).1]
    simp only [calm] at hc
    obtain ⟨hop, hrest⟩ := hc
    have hw' := Spec.step_wf s hw op
    simp only [progressDeqs] at hle
    cases op with
    | clear => exact hop.elim
    | conf =>
      have hle' : waitLv s.levels g ≤ progressDeqs k (s.step .conf).1 ops := by simpa using hle
      exact List.mem_cons_of_mem _ (ih _ hw' hp hrest hle')
    | queue k' i =>
      refine List.mem_cons_of_mem _ (ih _ hw' ?_ hrest ?_)
      · exact ((squeueLv_spec hw i k').2 g k).mpr (Or.inl hp)
      · have e : waitLv (s.step (.queue k' i)).1.levels g = waitLv s.levels g := squeueLv_wait g i k' hop
        have hle' : waitLv s.levels g ≤ progressDeqs k (s.step (.queue k' i)).1 ops := by simpa using hle
        rw [e]; exact hle'
    | deq =>
      rcases hd : sdeqLv s.levels 0 s.outstanding with ⟨ss', o, r⟩
      have hstep : s.step .deq = ({ levels := ss', outstanding := o }, .entry r) := by
        simp only [Spec.step, hd]
      rw [hstep] at hrest hop hle hw' ⊢
      dsimp only at hrest hle hw' ⊢
      rcases sdeqLv_wait hw k 0 s.outstanding g ss' o r hp hd with hdone | ⟨hstill, hnone, hhit⟩
      · rw [hdone]; exact List.mem_cons_self
      · cases r with
        | none =>
          obtain ⟨hel, hss⟩ := hnone rfl
          refine List.mem_cons_of_mem _ (ih { levels := ss', outstanding := o } hw' hstill hrest ?_)
          subst hss
          simpa [hel] using hle
        | some y =>
          obtain ⟨k', x⟩ := y
          by_cases cd : k' = k ∧ x = g
          · rw [cd.1, cd.2]; exact List.mem_cons_self
          · obtain ⟨i, hx, hA, _⟩ := hhit k' x rfl
            have hxi : x = i := by omega
            subst hxi
            obtain ⟨h1, h2⟩ := hA (hop k' x rfl cd)
            refine List.mem_cons_of_mem _ (ih { levels := ss', outstanding := o } hw' hstill hrest ?_)
            show waitLv ss' g ≤ _
            by_cases ce : eligible s.outstanding k = true
            · have := h2 ce
              simp only [ce, if_true] at hle
              omega
            · simp only [ce] at hle
              simp at hle
              omega

/-- a pending request stays pending until it is dequeued (or the queue is cleared) -/
theorem pending_until_dequeued_aux (g : Nat) (k : Kind) : ∀ (ops : List Op) (s : Spec), WFs s.levels →
    s.pending g k = true → (∀ op ∈ ops, op ≠ .clear) →
    (s.run ops).1.pending g k = true ∨ Out.entry (some (k, g)) ∈ (s.run ops).2 := by
  intro ops
  induction ops with
  | nil => intro s _ hp _; exact Or.inl hp
  | cons op ops ih =>
    intro s hw hp hnc
    rw [(Spec.run_cons s op ops).1, (Spec.run_cons s op ops).2]
    have hw' := Spec.step_wf s hw op
    have hnc' : ∀ op ∈ ops, op ≠ .clear := fun x hx => hnc x (List.mem_cons_of_mem _ hx)
    have key : (s.step op).1.pending g k = true ∨ (s.step op).2 = .entry (some (k, g)) := by
      cases op with
      | clear => exact absurd rfl (hnc .clear List.mem_cons_self)
      | conf => exact Or.inl hp
      | queue k' i => exact Or.inl (((squeueLv_spec hw i k').2 g k).mpr (Or.inl hp))
      | deq =>
        rcases hd : sdeqLv s.levels 0 s.outstanding with ⟨ss', o, r⟩
        have hstep : s.step .deq = ({ levels := ss', outstanding := o }, .entry r) := by
          simp only [Spec.step, hd]
        rw [hstep]
        rcases sdeqLv_wait hw k 0 s.outstanding g ss' o r hp hd with hdone | ⟨hstill, _, _⟩
        · right; rw [hdone]; rfl
        · left; exact hstill
    rcases key with h | h
    · rcases ih _ hw' h hnc' with a | a
      · exact Or.inl a
      · exact Or.inr (List.mem_cons_of_mem _ a)
    · right; rw [h]; exact List.mem_cons_self

end BluetoeModel.NotifQueue
