/-
  Model of `bluetoe::notification_queue< std::tuple< std::integral_constant<int,N>... >, Mixin >`
  src: bluetoe/notification_queue.hpp

  * `Gen`    = `details::notification_queue_impl< Size, C >` : `next_` + the byte array `queue_`
               with 2 bits per characteristic (bit 0 = notification, bit 1 = indication)
  * `single` = `details::notification_queue_impl< 1, C >` (specialisation; models the code after
               fixes/notifq-01: one byte `state_` holding the same two bits)
  * `Queue`  = `notification_queue_impl_base` chain (priority levels, highest first) plus
               `outstanding_confirmation_index_`
  Every access to `queue_` goes through `getByte?`/`setByte?`; an index outside the array yields
  `none` (the C++ would hit the assert / read out of bounds) and surfaces as `Out.oob`.
-/
namespace BluetoeModel.NotifQueue

inductive Kind where
  | notification | indication
deriving Repr, DecidableEq

/-- `enum char_bits { notification_bit = 0x01, indication_bit = 0x02 }` -/
def Kind.bit : Kind → Nat
  | .notification => 1
  | .indication => 2

/-- `notification_queue_impl< Size, C >` -/
structure Gen where
  size  : Nat
  next  : Nat
  bytes : List Nat          -- `std::uint8_t queue_[ ( Size * 2 + 7 ) / 8 ]`
deriving Repr, DecidableEq

def byteOff (i : Nat) : Nat := i * 2 / 8     -- `index * bits_per_characteristc / 8`
def bitOff (i : Nat) : Nat := (i * 2) % 8    -- `( index * bits_per_characteristc ) % 8`

def getByte? (bytes : List Nat) (k : Nat) : Option Nat := bytes[k]?

def setByte? (bytes : List Nat) (k : Nat) (v : Nat) : Option (List Nat) :=
  if k < bytes.length then some (bytes.set k v) else none

-- src: notification_queue_impl::at
def Gen.at (g : Gen) (i : Nat) : Option Nat :=
  (getByte? g.bytes (byteOff i)).map fun b => (b >>> bitOff i) &&& 3

-- src: notification_queue_impl::add  (`result = (queue_[b] & (bits << off)) == 0; queue_[b] |= bits << off`)
def Gen.add (g : Gen) (i : Nat) (bits : Nat) : Option (Gen × Bool) := do
  let b ← getByte? g.bytes (byteOff i)
  let bytes ← setByte? g.bytes (byteOff i) (b ||| (bits <<< bitOff i))
  pure ({ g with bytes := bytes }, (b &&& (bits <<< bitOff i)) == 0)

-- src: notification_queue_impl::remove  (`queue_[b] &= ~( bits << off )`, truncated to 8 bit)
def Gen.remove (g : Gen) (i : Nat) (bits : Nat) : Option Gen := do
  let b ← getByte? g.bytes (byteOff i)
  let bytes ← setByte? g.bytes (byteOff i) (b &&& (255 ^^^ (bits <<< bitOff i)))
  pure { g with bytes := bytes }

inductive Scan where
  | oob
  | empty
  | hit (k : Kind) (i : Nat)
deriving Repr, DecidableEq

/-- the `for ( i = next_; ignore_first || i != next_; i = ( i + 1 ) % Size )` loop of
    src: notification_queue_impl::dequeue_indication_or_confirmation.  With `next_ < Size` the loop
    body runs exactly `Size` times, which is the fuel `cnt`; `free = (outstanding == no_outstanding)` -/
def Gen.scan (g : Gen) (free : Bool) (i : Nat) : Nat → Scan
  | 0 => .empty
  | cnt + 1 =>
    match g.at i with
    | none => .oob
    | some e =>
      if e &&& 2 ≠ 0 ∧ free then .hit .indication i
      else if e &&& 1 ≠ 0 then .hit .notification i
      else g.scan free ((i + 1) % g.size) cnt

/-- result of a level's dequeue: new level, new outstanding index, returned entry -/
abbrev DeqRes (α : Type) := Option (α × Option Nat × Option (Kind × Nat))

-- src: notification_queue_impl::dequeue_indication_or_confirmation( offset, outstanding& )
def Gen.deq (g : Gen) (offset : Nat) (out : Option Nat) : DeqRes Gen :=
  match g.scan out.isNone g.next g.size with
  | .oob => none
  | .empty => some (g, out, none)
  | .hit k i =>
    match { g with next := (i + 1) % g.size }.remove i k.bit with
    | none => none
    | some g' => some (g', if k = .indication then some (i + offset) else out, some (k, i + offset))

-- src: notification_queue_impl::clear_indications_and_confirmations
def Gen.clear (g : Gen) : Gen := { g with next := 0, bytes := g.bytes.map fun _ => 0 }

-- src: notification_queue_impl::notification_queue_impl
def Gen.init (n : Nat) : Gen := { size := n, next := 0, bytes := List.replicate ((n * 2 + 7) / 8) 0 }

/-- one priority level -/
inductive Level where
  | gen (g : Gen)
  | single (state : Nat)       -- `notification_queue_impl< 1, C >::state_`
deriving Repr, DecidableEq

def Level.size : Level → Nat
  | .gen g => g.size
  | .single _ => 1

-- src: notification_queue_impl<1,C>::add  (`result = (state_ & bits) == 0; state_ |= bits`)
def singleAdd (st bits : Nat) : Nat × Bool := (st ||| bits, (st &&& bits) == 0)

-- src: notification_queue_impl<1,C>::dequeue_indication_or_confirmation
def singleDeq (st : Nat) (offset : Nat) (out : Option Nat) : Nat × Option Nat × Option (Kind × Nat) :=
  if st &&& 2 ≠ 0 ∧ out.isNone then (st &&& (255 ^^^ 2), some offset, some (.indication, offset))
  else if st &&& 1 ≠ 0 then (st &&& (255 ^^^ 1), out, some (.notification, offset))
  else (st, out, none)

-- src: notification_queue_impl{,<1>}::queue_notification / queue_indication (index < Size asserted)
def Level.add (l : Level) (i : Nat) (k : Kind) : Option (Level × Bool) :=
  match l with
  | .gen g => (g.add i k.bit).map fun (g', r) => (.gen g', r)
  | .single st => if i = 0 then let (st', r) := singleAdd st k.bit; some (.single st', r) else none

def Level.deq (l : Level) (offset : Nat) (out : Option Nat) : DeqRes Level :=
  match l with
  | .gen g => (g.deq offset out).map fun (g', o, r) => (.gen g', o, r)
  | .single st => let (st', o, r) := singleDeq st offset out; some (.single st', o, r)

def Level.clear : Level → Level
  | .gen g => .gen g.clear
  | .single _ => .single 0

/-- `Size == 1` selects the specialisation -/
def Level.init (n : Nat) : Level := if n = 1 then .single 0 else .gen (Gen.init n)

-- src: notification_queue_impl_base<tuple<Size,Ts...>>::queue_notification / queue_indication
def queueLv : List Level → Nat → Kind → Option (List Level × Bool)
  | [], _, _ => some ([], false)            -- notification_queue_impl_base< std::tuple<> >
  | l :: ls, idx, k =>
    if idx < l.size then (l.add idx k).map fun (l', r) => (l' :: ls, r)
    else (queueLv ls (idx - l.size) k).map fun (ls', r) => (l :: ls', r)

-- src: notification_queue_impl_base<tuple<Size,Ts...>>::dequeue_indication_or_confirmation
def deqLv : List Level → Nat → Option Nat → DeqRes (List Level)
  | [], _, out => some ([], out, none)
  | l :: ls, offset, out =>
    match l.deq offset out with
    | none => none
    | some (l', out', some r) => some (l' :: ls, out', some r)
    | some (l', out', none) =>
      (deqLv ls (offset + l.size) out').map fun (ls', o, r) => (l' :: ls', o, r)

/-- `notification_queue< Sizes, Mixin >` -/
structure Queue where
  levels : List Level
  outstanding : Option Nat      -- `outstanding_confirmation_index_`, `none` = no_outstanding_indicaton
deriving Repr, DecidableEq

def Queue.init (sizes : List Nat) : Queue := { levels := sizes.map Level.init, outstanding := none }

/-- all levels use the generic implementation, also those of size 1 -/
def Queue.initGeneric (sizes : List Nat) : Queue :=
  { levels := sizes.map fun n => .gen (Gen.init n), outstanding := none }

inductive Op where
  | queue (k : Kind) (i : Nat)   -- queue_notification / queue_indication
  | deq                          -- dequeue_indication_or_confirmation
  | conf                         -- indication_confirmed
  | clear                        -- clear_indications_and_confirmations
deriving Repr, DecidableEq

inductive Out where
  | bool (b : Bool)
  | entry (e : Option (Kind × Nat))
  | unit
  | oob
deriving Repr, DecidableEq

def Queue.step (q : Queue) : Op → Queue × Out
  | .queue k i =>
    match queueLv q.levels i k with
    | none => (q, .oob)
    | some (ls, r) => ({ q with levels := ls }, .bool r)
  | .deq =>
    match deqLv q.levels 0 q.outstanding with
    | none => (q, .oob)
    | some (ls, o, r) => ({ levels := ls, outstanding := o }, .entry r)
  | .conf => ({ q with outstanding := none }, .unit)
  | .clear => ({ levels := q.levels.map Level.clear, outstanding := none }, .unit)

def Queue.run (q : Queue) : List Op → Queue × List Out
  | [] => (q, [])
  | op :: ops =>
    let (q', o) := q.step op
    let (q'', os) := q'.run ops
    (q'', o :: os)

/-- ATT Handle Value Confirmation (opcode 0x1E, the PDU is dispatched here by its first byte).
    src: server.hpp:server::handle_value_confirmation — `if ( in_size != 1 ) return error_response(
    *input, invalid_pdu /* 0x04 */ )`, otherwise no response and the link layer's callback is called
    with `notification_type::confirmation`, which calls `indication_confirmed()` on the queue -/
def handleValueConfirmation (q : Queue) : List UInt8 → Queue × List UInt8
  | [] => (q, [])
  | [_] => ((q.step .conf).1, [])
  | op :: _ :: _ => (q, [0x01, op, 0x00, 0x00, 0x04])

/-! ### Specification: a set of pending (characteristic, kind) requests

  Per priority level a list of slots (`n`/`i` = the characteristic has a pending notification /
  indication) and the round-robin cursor; nothing else.  The same definition serves levels of every
  size, there is no single-entry special case. -/

structure Slot where
  n : Bool
  i : Bool
deriving Repr, DecidableEq

def Slot.has (s : Slot) : Kind → Bool
  | .notification => s.n
  | .indication => s.i

def Slot.set (s : Slot) : Kind → Slot
  | .notification => { s with n := true }
  | .indication => { s with i := true }

def Slot.clr (s : Slot) : Kind → Slot
  | .notification => { s with n := false }
  | .indication => { s with i := false }

structure SLevel where
  size  : Nat
  next  : Nat
  slots : List Slot
deriving Repr, DecidableEq

def SLevel.init (n : Nat) : SLevel := { size := n, next := 0, slots := List.replicate n ⟨false, false⟩ }

def SLevel.slot (l : SLevel) (i : Nat) : Slot := (l.slots[i]?).getD ⟨false, false⟩

def SLevel.add (l : SLevel) (i : Nat) (k : Kind) : SLevel × Bool :=
  ({ l with slots := l.slots.set i ((l.slot i).set k) }, !(l.slot i).has k)

/-- first characteristic in cyclic order from `i` that has an eligible request: an indication is
    eligible iff no confirmation is outstanding (`free`), a notification always -/
def SLevel.scan (l : SLevel) (free : Bool) (i : Nat) : Nat → Option (Kind × Nat)
  | 0 => none
  | cnt + 1 =>
    if (l.slot i).i ∧ free then some (.indication, i)
    else if (l.slot i).n then some (.notification, i)
    else l.scan free ((i + 1) % l.size) cnt

def SLevel.deq (l : SLevel) (offset : Nat) (out : Option Nat) : SLevel × Option Nat × Option (Kind × Nat) :=
  match l.scan out.isNone l.next l.size with
  | none => (l, out, none)
  | some (k, i) =>
    ({ l with next := (i + 1) % l.size, slots := l.slots.set i ((l.slot i).clr k) },
      if k = .indication then some (i + offset) else out, some (k, i + offset))

def SLevel.clear (l : SLevel) : SLevel := { l with next := 0, slots := l.slots.map fun _ => ⟨false, false⟩ }

def squeueLv : List SLevel → Nat → Kind → List SLevel × Bool
  | [], _, _ => ([], false)
  | l :: ls, idx, k =>
    if idx < l.size then let (l', r) := l.add idx k; (l' :: ls, r)
    else let (ls', r) := squeueLv ls (idx - l.size) k; (l :: ls', r)

def sdeqLv : List SLevel → Nat → Option Nat → List SLevel × Option Nat × Option (Kind × Nat)
  | [], _, out => ([], out, none)
  | l :: ls, offset, out =>
    match l.deq offset out with
    | (l', out', some r) => (l' :: ls, out', some r)
    | (l', out', none) =>
      let (ls', o, r) := sdeqLv ls (offset + l.size) out'
      (l' :: ls', o, r)

structure Spec where
  levels : List SLevel
  outstanding : Option Nat
deriving Repr, DecidableEq

def Spec.init (sizes : List Nat) : Spec := { levels := sizes.map SLevel.init, outstanding := none }

def Spec.step (s : Spec) : Op → Spec × Out
  | .queue k i => let (ls, r) := squeueLv s.levels i k; ({ s with levels := ls }, .bool r)
  | .deq => let (ls, o, r) := sdeqLv s.levels 0 s.outstanding; ({ levels := ls, outstanding := o }, .entry r)
  | .conf => ({ s with outstanding := none }, .unit)
  | .clear => ({ levels := s.levels.map SLevel.clear, outstanding := none }, .unit)

def Spec.run (s : Spec) : List Op → Spec × List Out
  | [] => (s, [])
  | op :: ops =>
    let (s', o) := s.step op
    let (s'', os) := s'.run ops
    (s'', o :: os)

/-- is request `(i, k)` pending?  (`i` = global index over all levels) -/
def pendLv : List SLevel → Nat → Kind → Bool
  | [], _, _ => false
  | l :: ls, i, k => if i < l.size then (l.slot i).has k else pendLv ls (i - l.size) k

def Spec.pending (s : Spec) (i : Nat) (k : Kind) : Bool := pendLv s.levels i k

/-- number of characteristics over all levels -/
def totalSize : List SLevel → Nat
  | [] => 0
  | l :: ls => l.size + totalSize ls

/-- may a request of kind `k` be sent now? -/
def eligible (out : Option Nat) : Kind → Bool
  | .notification => true
  | .indication => out.isNone

end BluetoeModel.NotifQueue
