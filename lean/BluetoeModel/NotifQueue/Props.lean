import BluetoeModel.NotifQueue.Progress
/-!
  # C12 — Outgoing notification queue is a fair priority queue
  # C11 — Indications are confirmed one at a time and never lost

  The specification `Spec` (Model.lean) is "a set of pending (characteristic, kind) requests":
  per priority level a list of slots and a round-robin cursor, the same definition for levels of
  every size.  `queue_refines_set` shows that the byte/bit level model of the C++ code produces,
  for every priority partition and every history, exactly the outputs of `Spec`; the remaining
  theorems read the property's sentences off `Spec` in terms of `Spec.pending`.
-/
namespace BluetoeModel.NotifQueue

theorem RLs.wfs {ls : List Level} {ss : List SLevel} (h : RLs ls ss) : WFs ss := by
  induction h with
  | nil => intro l hl; cases hl
  | cons hl _ ih =>
    intro x hx
    rcases List.mem_cons.mp hx with e | e
    · exact e ▸ hl.wf
    · exact ih x e

theorem RQ.init (sizes : List Nat) (hpos : ∀ n ∈ sizes, 0 < n) : RQ (Queue.init sizes) (Spec.init sizes) :=
  ⟨init_refines sizes hpos, rfl⟩

/-! ## C12 -/

/-- **C12** "For any number of notifying characteristics and any priority partition, the queue
    behaves like a set of pending (characteristic, kind) requests": for every partition `sizes`
    (all levels non-empty) and every history of queue / dequeue / confirm / clear operations —
    including out-of-range indices — the implementation model answers exactly like `Spec`. -/
theorem queue_refines_set (sizes : List Nat) (hpos : ∀ n ∈ sizes, 0 < n) (ops : List Op) :
    ((Queue.init sizes).run ops).2 = ((Spec.init sizes).run ops).2 :=
  (run_refines (RQ.init sizes hpos) ops).1

example : ∀ n ∈ [4, 4, 1], 0 < n := by decide

/-- **C12** "This holds identically whether a priority level holds one characteristic or many":
    the single-entry specialisation `notification_queue_impl<1>` is indistinguishable from the
    generic implementation instantiated with `Size = 1`, in every partition and history. -/
theorem single_level_same_as_generic (sizes : List Nat) (hpos : ∀ n ∈ sizes, 0 < n) (ops : List Op) :
    ((Queue.init sizes).run ops).2 = ((Queue.initGeneric sizes).run ops).2 := by
  rw [queue_refines_set sizes hpos ops]
  have h : RQ (Queue.initGeneric sizes) (Spec.init sizes) := ⟨initGeneric_refines sizes hpos, rfl⟩
  exact (run_refines h ops).1.symm

theorem Spec.run_no_oob (s : Spec) (ops : List Op) : ∀ o ∈ (s.run ops).2, o ≠ .oob := by
  induction ops generalizing s with
  | nil => intro o ho; cases ho
  | cons op ops ih =>
    intro o ho
    simp only [Spec.run] at ho
    rcases List.mem_cons.mp ho with e | e
    · subst e; cases op <;> simp [Spec.step]
    · exact ih _ o e

/-- no operation sequence makes the queue index its byte array out of bounds (the model's explicit
    `oob` result is never produced; the harness side of this claim is ASan) -/
theorem never_out_of_bounds (sizes : List Nat) (hpos : ∀ n ∈ sizes, 0 < n) (ops : List Op) :
    ∀ o ∈ ((Queue.init sizes).run ops).2, o ≠ .oob := by
  rw [queue_refines_set sizes hpos ops]; exact Spec.run_no_oob _ ops

/-- every state reached from the empty queue is well formed (cursor below the level size, one slot
    per characteristic) -/
theorem reachable_wf (sizes : List Nat) (hpos : ∀ n ∈ sizes, 0 < n) (ops : List Op) :
    WFs ((Spec.init sizes).run ops).1.levels :=
  (run_refines (RQ.init sizes hpos) ops).2.lv.wfs

/-- **C12** "a request is reported newly queued exactly when it was not pending": `queue_*`
    answers `true` iff the index is valid and the request was not pending; afterwards exactly that
    request has been added to the pending set. -/
theorem newly_queued_iff_not_pending (s : Spec) (hw : WFs s.levels) (k : Kind) (i : Nat) :
    ∃ b, (s.step (.queue k i)).2 = .bool b ∧
      (b = true ↔ (i < totalSize s.levels ∧ s.pending i k = false)) ∧
      ∀ j k', (s.step (.queue k i)).1.pending j k' = true ↔
        (s.pending j k' = true ∨ (i < totalSize s.levels ∧ j = i ∧ k' = k)) := by
  obtain ⟨h1, h2⟩ := squeueLv_spec hw i k
  exact ⟨(squeueLv s.levels i k).2, rfl, h1, h2⟩

example : WFs (Spec.init [1, 3]).levels := reachable_wf [1, 3] (by decide) []

/-- **C12** "each pending request is dequeued exactly once … a higher-priority request is always
    dequeued before a lower-priority one": a dequeue that returns `(k, i)` returns a request that
    was pending and may be sent, removes exactly that request from the pending set, and no request
    of a higher priority level that may be sent was pending. -/
theorem dequeue_exactly_once_in_priority_order (s : Spec) (hw : WFs s.levels) (k : Kind) (i : Nat)
    (h : (s.step .deq).2 = .entry (some (k, i))) :
    s.pending i k = true ∧ eligible s.outstanding k = true ∧
    (∀ j k', (s.step .deq).1.pending j k' = true ↔ (s.pending j k' = true ∧ ¬ (j = i ∧ k' = k))) ∧
    (∀ j k', levelOf s.levels j < levelOf s.levels i → s.pending j k' = true →
        eligible s.outstanding k' = false) ∧
    (s.step .deq).1.outstanding = (if k = .indication then some i else s.outstanding) := by
  simp only [Spec.step, Out.entry.injEq] at h
  obtain ⟨i', hg, _, hp, he, ho, hupd, hprio⟩ := sdeqLv_some hw 0 s.outstanding k i h
  have e : i' = i := by omega
  subst e
  exact ⟨hp, he, hupd, hprio, ho⟩

/-- … and a dequeue returns `empty` only if nothing that may be sent is pending; it changes nothing -/
theorem dequeue_empty_only_if_nothing_sendable (s : Spec) (hw : WFs s.levels)
    (h : (s.step .deq).2 = .entry none) :
    (s.step .deq).1 = s ∧ ∀ j k, s.pending j k = true → eligible s.outstanding k = false := by
  simp only [Spec.step, Out.entry.injEq] at h
  obtain ⟨e, hno⟩ := sdeqLv_none hw 0 s.outstanding h
  refine ⟨?_, hno⟩
  simp only [Spec.step, e]

/-- non-vacuity: [1,2] partition, indication on the low level, notification on the high level -/
example : ((Spec.init [1, 2]).run [.queue .indication 2, .queue .notification 0, .queue .notification 0, .deq, .deq, .deq]).2 =
    [.bool true, .bool true, .bool false, .entry (some (.notification, 0)), .entry (some (.indication, 2)), .entry none] := by
  decide

/-- **C12** "within one priority every pending request is dequeued within one round", what is true
    of the code: if the characteristic at scan distance `t` from the cursor of a level has a request
    that may be sent, the level's dequeue serves a characteristic at distance `t' ≤ t`; if `t' < t`
    the waiting characteristic is afterwards at distance `t - t' - 1` (so at most `t < size` other
    requests of this level are served first), and when its turn comes (`t' = t`) its indication is
    taken if it may be sent, otherwise its notification.  Excluded from the full statement is
    exactly: a notification whose own characteristic also has an indication that may be sent. -/
theorem round_robin_partial (s : SLevel) (hw : s.WF) (off : Nat) (out : Option Nat) (t : Nat) (ht : t < s.size)
    (hs : s.sendable out.isNone ((s.next + t) % s.size)) :
    ∃ k t', t' ≤ t ∧ (s.deq off out).2.2 = some (k, (s.next + t') % s.size + off) ∧
      (t' < t → ((s.deq off out).1.next + (t - t' - 1)) % s.size = (s.next + t) % s.size) ∧
      (t' = t → k = .notification → ¬ ((s.slot ((s.next + t) % s.size)).i = true ∧ out = none)) := by
  cases hr : (s.deq off out).2.2 with
  | none =>
    exact absurd hs ((SLevel.deq_none hw off out hr).2 _ (Nat.mod_lt _ hw.pos))
  | some r =>
    obtain ⟨k, g⟩ := r
    obtain ⟨j, t', hg, _, _, hj, hno, _, _, hn, e⟩ := SLevel.deq_some hw off out k g hr
    have hle : t' ≤ t := by
      rcases Nat.lt_or_ge t t' with c | c
      · exact absurd hs (hno t c)
      · exact c
    refine ⟨k, t', hle, by rw [hg, hj], ?_, ?_⟩
    · intro hlt
      rw [e]
      show ((j + 1) % s.size + (t - t' - 1)) % s.size = _
      rw [Nat.mod_add_mod, hj, show (s.next + t') % s.size + 1 + (t - t' - 1) = (s.next + t') % s.size + (t - t') by omega,
        Nat.mod_add_mod]
      congr 1; omega
    · intro ht' hk
      subst ht'
      rw [← hj]; exact hn hk

example : (⟨3, 1, [⟨true, false⟩, ⟨false, false⟩, ⟨false, true⟩]⟩ : SLevel).sendable true ((1 + 2) % 3) :=
  Or.inl (by decide)

/-- the full-strength reading: a request at the cursor that may be sent is the one dequeued -/
def round_robin_full : Prop :=
  ∀ (s : SLevel) (off : Nat) (out : Option Nat) (k : Kind), s.WF → (s.slot s.next).has k = true →
    eligible out k = true → (s.deq off out).2.2 = some (k, s.next + off)

/-- … is false of the code: with a notification and an indication pending for the same
    characteristic the indication is taken and the cursor moves past the notification -/
theorem round_robin_witness : ¬ round_robin_full := by
  intro h
  have := h ⟨1, 0, [⟨true, true⟩]⟩ 0 none .notification ⟨by decide, by decide, rfl⟩ rfl rfl
  revert this; decide

/-- the same on the implementation model, as a history: the notification of characteristic 0 is
    never sent while its indication is re-requested and confirmed -/
theorem starvation_witness :
    ((Queue.init [1]).run [.queue .notification 0, .queue .indication 0, .deq, .conf, .queue .indication 0, .deq,
      .conf, .queue .indication 0, .deq]).2.filter (fun o => o matches .entry _) =
    [.entry (some (.indication, 0)), .entry (some (.indication, 0)), .entry (some (.indication, 0))] := by
  decide

/-! ## C11 -/

/-- trace predicate: "after an indication is sent, no further indication is sent until a Handle
    Value Confirmation arrives" (`aw` = a confirmation is awaited) -/
def oneOutstandingOk : Bool → List (Op × Out) → Bool
  | _, [] => true
  | aw, (op, o) :: r =>
    match op, o with
    | .deq, .entry (some (.indication, _)) => !aw && oneOutstandingOk true r
    | .conf, _ => oneOutstandingOk false r
    | .clear, _ => oneOutstandingOk false r
    | _, _ => oneOutstandingOk aw r

theorem one_outstanding_aux (ops : List Op) : ∀ (q : Queue) (s : Spec), RQ q s →
    oneOutstandingOk s.outstanding.isSome (ops.zip (s.run ops).2) = true := by
  induction ops with
  | nil => intro q s _; rfl
  | cons op ops ih =>
    intro q s h
    have hw : WFs s.levels := h.lv.wfs
    have hnext := ih _ _ (step_refines h op).2
    simp only [Spec.run, List.zip_cons_cons, oneOutstandingOk]
    cases op with
    | queue k i => simpa [Spec.step] using hnext
    | conf => simpa [Spec.step] using hnext
    | clear => simpa [Spec.step] using hnext
    | deq =>
      cases hr : (s.step .deq).2 with
      | bool b => simp [Spec.step] at hr
      | unit => simp [Spec.step] at hr
      | oob => simp [Spec.step] at hr
      | entry e =>
        cases e with
        | none =>
          have e := congrArg Spec.outstanding (dequeue_empty_only_if_nothing_sendable s hw hr).1
          rw [e] at hnext
          simpa using hnext
        | some x =>
          obtain ⟨k, i⟩ := x
          obtain ⟨_, he, _, _, ho⟩ := dequeue_exactly_once_in_priority_order s hw k i hr
          rw [ho] at hnext
          cases k with
          | notification => simpa using hnext
          | indication =>
            have : s.outstanding.isSome = false := by
              simp only [eligible] at he; cases h' : s.outstanding <;> simp_all
            simp only [this]
            simpa using hnext

/-- **C11** "On every connection at most one indication is outstanding: after an indication is
    sent, no further indication is sent until a Handle Value Confirmation arrives": holds of the
    output trace of every history on every partition. -/
theorem one_outstanding (sizes : List Nat) (hpos : ∀ n ∈ sizes, 0 < n) (ops : List Op) :
    oneOutstandingOk false (ops.zip ((Queue.init sizes).run ops).2) = true := by
  rw [queue_refines_set sizes hpos ops]
  exact one_outstanding_aux ops _ _ (RQ.init sizes hpos)

/-- **C11** "while notifications may continue": a pending notification is dequeued whether or not a
    confirmation is outstanding -/
theorem notifications_continue (s : Spec) (hw : WFs s.levels) (i : Nat)
    (hp : s.pending i .notification = true) : (s.step .deq).2 ≠ .entry none := by
  intro h
  have := (dequeue_empty_only_if_nothing_sendable s hw h).2 i .notification hp
  simp [eligible] at this

/-- **C11** "Every indication request accepted by the queue is eventually transmitted once
    confirmations keep arriving", one round: once the confirmation has arrived a pending
    indication cannot be held back — the dequeue returns a request (which `dequeue_exactly_once…`
    removes from the pending set, all others stay pending).  The counting argument over whole
    histories is `indication_bounded_response` below. -/
theorem indication_progress_partial (s : Spec) (hw : WFs s.levels) (i : Nat)
    (hp : s.pending i .indication = true) :
    ((s.step .conf).1.step .deq).2 ≠ .entry none := by
  intro h
  have hw' : WFs (s.step .conf).1.levels := hw
  have := (dequeue_empty_only_if_nothing_sendable _ hw' h).2 i .indication hp
  simp [eligible, Spec.step] at this

example : ((Spec.init [2]).step (.queue .indication 1)).1.pending 1 .indication = true := by decide

/-- **C11** "a confirmation with a wrong length is rejected": a Handle Value Confirmation PDU with
    anything after the opcode is answered with Error Response / Invalid PDU (0x04) and does not
    confirm (the queue, in particular the outstanding indication, is unchanged) … -/
theorem bad_length_confirmation_rejected (q : Queue) (op b : UInt8) (rest : List UInt8) :
    handleValueConfirmation q (op :: b :: rest) = (q, [0x01, op, 0x00, 0x00, 0x04]) := rfl

/-- … while the one-byte PDU confirms and is not answered -/
theorem good_confirmation_confirms (q : Queue) (op : UInt8) :
    handleValueConfirmation q [op] = ({ q with outstanding := none }, []) := rfl

/-! ## Bounded response: C11 "eventually transmitted", C12 "dequeued within one round"

  `waitLv ss g` (Progress.lean) = number of requests pending on the priority levels above the one of
  characteristic `g` + scan distance of `g` from the round-robin cursor of its level + 1.
  `calm g k s ops`: in the history `ops` (started in `s`) nothing is queued on a priority level above
  `g`'s, the queue is not cleared, and no dequeue *overtakes* `(g, k)`, i.e. returns another request
  of `g`'s level at a scan distance ≥ that of `g` (which moves the cursor past `g`).
  `progressDeqs k s ops`: the dequeues of `ops` executed while a request of kind `k` may be sent (all
  of them for a notification, those without an outstanding confirmation for an indication). -/

theorem Spec.run_append (s : Spec) (a b : List Op) :
    (s.run (a ++ b)).1 = ((s.run a).1.run b).1 ∧ (s.run (a ++ b)).2 = (s.run a).2 ++ ((s.run a).1.run b).2 := by
  induction a generalizing s with
  | nil => exact ⟨rfl, rfl⟩
  | cons op a ih =>
    obtain ⟨h1, h2⟩ := ih (s.step op).1
    simp only [List.cons_append, Spec.run] at h1 h2 ⊢
    exact ⟨h1, by rw [h2]⟩

/-- **C11/C12, never lost**: "a pending request stays pending until dequeued" — over every history
    without `clear` (= disconnect) a pending request is still pending at the end or was returned by
    one of the dequeues; it is never silently dropped. -/
theorem pending_until_dequeued (s : Spec) (hw : WFs s.levels) (g : Nat) (k : Kind) (ops : List Op)
    (hp : s.pending g k = true) (hnc : ∀ op ∈ ops, op ≠ .clear) :
    (s.run ops).1.pending g k = true ∨ Out.entry (some (k, g)) ∈ (s.run ops).2 :=
  pending_until_dequeued_aux g k ops s hw hp hnc

/-- the same for every partition, every reachable state (history `pre`) and in terms of the outputs
    of the implementation model: a request that is pending after `pre` is returned by a dequeue of
    `ops` or is still pending after `pre ++ ops` -/
theorem pending_until_dequeued_reachable (sizes : List Nat) (hpos : ∀ n ∈ sizes, 0 < n) (pre ops : List Op)
    (g : Nat) (k : Kind) (hp : ((Spec.init sizes).run pre).1.pending g k = true) (hnc : ∀ op ∈ ops, op ≠ .clear) :
    ((Spec.init sizes).run (pre ++ ops)).1.pending g k = true ∨
      Out.entry (some (k, g)) ∈ ((Queue.init sizes).run (pre ++ ops)).2 := by
  rw [queue_refines_set sizes hpos, (Spec.run_append _ pre ops).1, (Spec.run_append _ pre ops).2]
  rcases pending_until_dequeued _ (reachable_wf sizes hpos pre) g k ops hp hnc with h | h
  · exact Or.inl h
  · exact Or.inr (List.mem_append_right _ h)

example : ((Spec.init [2]).run [.queue .indication 1]).1.pending 1 .indication = true := by decide

/-- **bounded response** (both kinds, every partition, every history): a pending request `(g, k)` is
    returned by a dequeue before the `waitLv`-th dequeue that may send a request of its kind has
    completed, in every calm history. -/
theorem bounded_response (s : Spec) (hw : WFs s.levels) (g : Nat) (k : Kind) (ops : List Op)
    (hp : s.pending g k = true) (hc : calm g k s ops) (hn : waitLv s.levels g ≤ progressDeqs k s ops) :
    Out.entry (some (k, g)) ∈ (s.run ops).2 :=
  bounded_response_aux g k ops s hw hp hc hn

/-- the number of dequeues is bounded by the partition alone: twice the number of characteristics of
    the higher priority levels (each may have a notification and an indication pending) plus the
    number of characteristics of the own level -/
theorem response_bound (s : Spec) (hw : WFs s.levels) (g : Nat) : waitLv s.levels g ≤ boundLv s.levels g :=
  wait_le_bound hw g

/-- **C11** "Every indication request accepted by the queue is eventually transmitted once
    confirmations keep arriving": in every reachable state of every partition, a pending indication
    of characteristic `g` is dequeued by the implementation within `waitLv ≤ boundLv` dequeues that
    are executed with no confirmation outstanding, provided the history is calm. -/
theorem indication_bounded_response (sizes : List Nat) (hpos : ∀ n ∈ sizes, 0 < n) (pre ops : List Op) (g : Nat)
    (hp : ((Spec.init sizes).run pre).1.pending g .indication = true)
    (hc : calm g .indication ((Spec.init sizes).run pre).1 ops)
    (hn : boundLv ((Spec.init sizes).run pre).1.levels g ≤ progressDeqs .indication ((Spec.init sizes).run pre).1 ops) :
    Out.entry (some (.indication, g)) ∈ ((Queue.init sizes).run (pre ++ ops)).2 := by
  rw [queue_refines_set sizes hpos, (Spec.run_append _ pre ops).2]
  have hw := reachable_wf sizes hpos pre
  exact List.mem_append_right _ (bounded_response _ hw g .indication ops hp hc (Nat.le_trans (response_bound _ hw g) hn))

/-- **C12** "within one priority every pending request is dequeued within one round", for a
    notification: same statement, every dequeue counts. -/
theorem notification_bounded_response (sizes : List Nat) (hpos : ∀ n ∈ sizes, 0 < n) (pre ops : List Op) (g : Nat)
    (hp : ((Spec.init sizes).run pre).1.pending g .notification = true)
    (hc : calm g .notification ((Spec.init sizes).run pre).1 ops)
    (hn : boundLv ((Spec.init sizes).run pre).1.levels g ≤ progressDeqs .notification ((Spec.init sizes).run pre).1 ops) :
    Out.entry (some (.notification, g)) ∈ ((Queue.init sizes).run (pre ++ ops)).2 := by
  rw [queue_refines_set sizes hpos, (Spec.run_append _ pre ops).2]
  have hw := reachable_wf sizes hpos pre
  exact List.mem_append_right _ (bounded_response _ hw g .notification ops hp hc (Nat.le_trans (response_bound _ hw g) hn))

/-- non-vacuity and tightness on `[1, 2]`: indication of characteristic 2 (low level, scan distance 1)
    behind a notification and an indication of characteristic 0 and an indication of characteristic 1:
    `boundLv = 2·1 + 2 = 4`, the history is calm, and exactly the 4th confirmed dequeue returns it -/
example :
    let s := ((Spec.init [1, 2]).run [.queue .indication 2, .queue .indication 1, .queue .indication 0, .queue .notification 0]).1
    let ops : List Op := [.deq, .conf, .deq, .deq, .conf, .deq]
    s.pending 2 .indication = true ∧ waitLv s.levels 2 = 4 ∧ boundLv s.levels 2 = 4 ∧
    progressDeqs .indication s ops = 4 ∧
    (s.run ops).2 = [.entry (some (.indication, 0)), .unit, .entry (some (.notification, 0)),
      .entry (some (.indication, 1)), .unit, .entry (some (.indication, 2))] := by
  decide

example : calm 2 .indication
    ((Spec.init [1, 2]).run [.queue .indication 2, .queue .indication 1, .queue .indication 0, .queue .notification 0]).1
    [.deq, .conf, .deq, .deq, .conf, .deq] :=
  calm_of_calmB _ _ _ _ (by decide)

/-- **which dequeues are excluded by `calm`, notification**: a dequeue that overtakes a pending
    *notification* of `g` is exactly the known finding `C12:notification-waits-behind-own-indication`:
    it returns the indication of the same characteristic `g`, which may be sent. -/
theorem overtake_of_notification (s : Spec) (hw : WFs s.levels) (g : Nat) (k' : Kind) (i : Nat)
    (hp : s.pending g .notification = true) (hd : (s.step .deq).2 = .entry (some (k', i)))
    (hne : ¬ (k' = .notification ∧ i = g)) (hov : overtakesLv s.levels g i = true) :
    k' = .indication ∧ i = g ∧ s.outstanding = none := by
  rcases hq : sdeqLv s.levels 0 s.outstanding with ⟨ss', o, r⟩
  have hs : (s.step .deq).2 = Out.entry r := by simp only [Spec.step, hq]
  have hr : r = some (k', i) := by rw [hs] at hd; exact Out.entry.inj hd
  rcases sdeqLv_wait hw .notification 0 s.outstanding g ss' o r hp hq with hdone | ⟨_, _, hhit⟩
  · rw [hr] at hdone
    simp only [Option.some.injEq, Prod.mk.injEq] at hdone
    exact absurd ⟨hdone.1, by omega⟩ hne
  · obtain ⟨i0, hx, _, hB⟩ := hhit k' i hr
    have e : i = i0 := by omega
    subst e
    obtain ⟨a, _, c, d⟩ := hB hov rfl
    exact ⟨c, a, d⟩

/-- **which dequeues are excluded by `calm`, indication**: a dequeue can overtake a pending
    *indication* only while a confirmation is outstanding, and then returns a notification of the
    same priority level (the cursor skips the indication that may not be sent yet). -/
theorem overtake_of_indication (s : Spec) (hw : WFs s.levels) (g : Nat) (k' : Kind) (i : Nat)
    (hp : s.pending g .indication = true) (hd : (s.step .deq).2 = .entry (some (k', i)))
    (hne : ¬ (k' = .indication ∧ i = g)) (hov : overtakesLv s.levels g i = true) :
    s.outstanding ≠ none ∧ k' = .notification := by
  rcases hq : sdeqLv s.levels 0 s.outstanding with ⟨ss', o, r⟩
  have hs : (s.step .deq).2 = Out.entry r := by simp only [Spec.step, hq]
  have hr : r = some (k', i) := by rw [hs] at hd; exact Out.entry.inj hd
  have hel := (dequeue_exactly_once_in_priority_order s hw k' i hd).2.1
  rcases sdeqLv_wait hw .indication 0 s.outstanding g ss' o r hp hq with hdone | ⟨_, _, hhit⟩
  · rw [hr] at hdone
    simp only [Option.some.injEq, Prod.mk.injEq] at hdone
    exact absurd ⟨hdone.1, by omega⟩ hne
  · obtain ⟨i0, hx, _, hB⟩ := hhit k' i hr
    have e : i = i0 := by omega
    subst e
    have hout : s.outstanding ≠ none := by
      intro hnone
      have := (hB hov (by simp [eligible, hnone])).2.1
      cases this
    refine ⟨hout, ?_⟩
    cases k' with
    | notification => rfl
    | indication =>
      exfalso
      simp only [eligible] at hel
      exact hout (Option.isNone_iff_eq_none.mp hel)

/-- consequently: in a history in which every dequeue is executed with no confirmation outstanding
    (the link layer asks for the next indication only after the confirmation), nothing can overtake
    an indication -/
theorem confirmed_dequeue_never_overtakes (s : Spec) (hw : WFs s.levels) (g : Nat) (k' : Kind) (i : Nat)
    (hp : s.pending g .indication = true) (hout : s.outstanding = none)
    (hd : (s.step .deq).2 = .entry (some (k', i))) (hne : ¬ (k' = .indication ∧ i = g)) :
    overtakesLv s.levels g i = false := by
  cases h : overtakesLv s.levels g i with
  | false => rfl
  | true => exact absurd hout (overtake_of_indication s hw g k' i hp hd hne h).1

/-- the full-strength reading of C11's "eventually": some bound on the number of confirmed dequeues
    works for *every* history that does not clear and does not queue on a higher priority level -/
def indication_eventually_full : Prop :=
  ∀ (s : Spec) (g : Nat), WFs s.levels → s.pending g .indication = true →
    ∃ B, ∀ ops : List Op, (∀ op ∈ ops, op ≠ .clear) →
      (∀ k i, Op.queue k i ∈ ops → levelOf s.levels g ≤ levelOf s.levels i) →
      B ≤ progressDeqs .indication s ops → Out.entry (some (.indication, g)) ∈ (s.run ops).2

/-- one round of the starving history on `[3]` (indications pending for characteristics 0 and 1,
    cursor at 0): `deq → i0`; while its confirmation is outstanding a notification of characteristic 2
    is requested and dequeued — the scan skips the indication of 1, the cursor wraps to 0; then the
    confirmation arrives and the indication of 0 is requested again -/
def starveRound : List Op := [.deq, .queue .notification 2, .deq, .conf, .queue .indication 0]

def starveState : Spec := ((Spec.init [3]).run [.queue .indication 0, .queue .indication 1]).1

def starveHist : Nat → List Op
  | 0 => []
  | n + 1 => starveRound ++ starveHist n

theorem starve_round : (starveState.run starveRound).1 = starveState ∧
    (starveState.run starveRound).2 = [.entry (some (.indication, 0)), .bool true, .entry (some (.notification, 2)), .unit, .bool true] ∧
    progressDeqs .indication starveState starveRound = 1 := by decide

theorem progressDeqs_append (k : Kind) (s : Spec) (a b : List Op) :
    progressDeqs k s (a ++ b) = progressDeqs k s a + progressDeqs k (s.run a).1 b := by
  induction a generalizing s with
  | nil => simp [progressDeqs, Spec.run]
  | cons op a ih =>
    simp only [List.cons_append, progressDeqs, ih, Spec.run]
    omega

theorem starve_hist (n : Nat) : (starveState.run (starveHist n)).1 = starveState ∧
    Out.entry (some (.indication, 1)) ∉ (starveState.run (starveHist n)).2 ∧
    progressDeqs .indication starveState (starveHist n) = n ∧
    (∀ op ∈ starveHist n, op ≠ .clear) ∧
    (∀ k i, Op.queue k i ∈ starveHist n → i < 3) := by
  induction n with
  | zero => exact ⟨rfl, by simp [starveHist, Spec.run], rfl, by simp [starveHist], by simp [starveHist]⟩
  | succ n ih =>
    obtain ⟨h1, h2, h3, h4, h5⟩ := ih
    obtain ⟨r1, r2, r3⟩ := starve_round
    simp only [starveHist]
    refine ⟨?_, ?_, ?_, ?_, ?_⟩
    · rw [(Spec.run_append _ _ _).1, r1, h1]
    · rw [(Spec.run_append _ _ _).2, r1, r2]
      intro hm
      rcases List.mem_append.mp hm with hm | hm
      · revert hm; decide
      · exact h2 hm
    · rw [progressDeqs_append, r1, r3, h3]; omega
    · intro op hm
      rcases List.mem_append.mp hm with hm | hm
      · revert hm; simp only [starveRound]; intro hm e; subst e; revert hm; decide
      · exact h4 op hm
    · intro k i hm
      rcases List.mem_append.mp hm with hm | hm
      · simp only [starveRound, List.mem_cons, Op.queue.injEq, List.not_mem_nil, or_false, reduceCtorEq, false_or] at hm
        rcases hm with ⟨_, e⟩ | ⟨_, e⟩ <;> omega
      · exact h5 k i hm

/-- **C11 "eventually" is false of the code without the `calm` hypothesis** — new finding
    `C11:indication-overtaken-while-unconfirmed`: on one priority level of three characteristics the
    indication of characteristic 1 is never sent although every indication is confirmed, the history
    never clears and never touches characteristic 1: each round dequeues the (re-requested)
    indication of characteristic 0, and before its confirmation arrives a notification of
    characteristic 2 is dequeued, which moves the cursor over characteristic 1. -/
theorem indication_starvation_witness : ¬ indication_eventually_full := by
  intro h
  obtain ⟨B, hB⟩ := h starveState 1 (reachable_wf [3] (by decide) _) (by decide)
  obtain ⟨_, h2, h3, h4, h5⟩ := starve_hist B
  refine h2 (hB (starveHist B) h4 ?_ (by omega))
  intro k i hm
  have hi := h5 k i hm
  have e : levelOf starveState.levels 1 = 0 := by decide
  rw [e]; exact Nat.zero_le _

/-- … and the excluded step is exactly an overtaking dequeue: the second dequeue of the round,
    executed while the confirmation for characteristic 0 is outstanding, returns notification 2 -/
example :
    let s := (starveState.run [.deq, .queue .notification 2]).1
    s.outstanding = some 0 ∧ (s.step .deq).2 = .entry (some (.notification, 2)) ∧ overtakesLv s.levels 1 2 = true := by
  decide

end BluetoeModel.NotifQueue
