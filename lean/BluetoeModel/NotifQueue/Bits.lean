import BluetoeModel.NotifQueue.Model
/-
  Byte level facts about `at` / `add` / `remove` of notification_queue_impl: complete finite tables
  (all 256 byte values x all 4 x 4 bit offsets x both request bits), checked by `decide`.
-/
namespace BluetoeModel.NotifQueue

/-- the two request bits of an entry as a `Slot` -/
def slotOf (v : Nat) : Slot := ⟨decide (v &&& 1 ≠ 0), decide (v &&& 2 ≠ 0)⟩

def byteFactB (b a c m : Nat) : Bool :=
  -- add: the entry at offset `c` after `|= m << 2a`
  ((((b ||| (m <<< (2 * a))) >>> (2 * c)) &&& 3) == (if a == c then ((b >>> (2 * c)) &&& 3) ||| m else (b >>> (2 * c)) &&& 3))
  -- add: the result `( byte & ( m << 2a ) ) == 0`
  && (((b &&& (m <<< (2 * a))) == 0) == ((((b >>> (2 * a)) &&& 3) &&& m) == 0))
  -- remove: the entry at offset `c` after `&= ~( m << 2a )`
  && ((((b &&& (255 ^^^ (m <<< (2 * a)))) >>> (2 * c)) &&& 3) == (if a == c then ((b >>> (2 * c)) &&& 3) &&& (3 ^^^ m) else (b >>> (2 * c)) &&& 3))
  -- bytes stay bytes
  && decide ((b ||| (m <<< (2 * a))) < 256)

set_option maxRecDepth 100000 in
theorem byte_fact_all : (List.range 256).all (fun b => (List.range 4).all fun a => (List.range 4).all fun c =>
    (List.range 3).all fun m => byteFactB b a c m) = true := by decide

theorem byte_fact (b a c m : Nat) (hb : b < 256) (ha : a < 4) (hc : c < 4) (hm : m < 3) : byteFactB b a c m = true := by
  have h := byte_fact_all
  simp only [List.all_eq_true, List.mem_range] at h
  exact h b hb a ha c hc m hm

theorem slot_fact (v : Nat) (hv : v < 4) (k : Kind) :
    slotOf (v ||| k.bit) = (slotOf v).set k ∧ slotOf (v &&& (3 ^^^ k.bit)) = (slotOf v).clr k ∧
    ((v &&& k.bit) == 0) = !(slotOf v).has k := by
  cases k
  · revert v; decide
  · revert v; decide

theorem single_fact (v : Nat) (hv : v < 4) (k : Kind) : v ||| k.bit < 4 ∧ v &&& (255 ^^^ k.bit) < 4 ∧
    v &&& (255 ^^^ k.bit) = v &&& (3 ^^^ k.bit) := by
  cases k
  · revert v; decide
  · revert v; decide

theorem kind_bit_lt (k : Kind) : k.bit < 3 := by cases k <;> decide

theorem bitOff_eq (i : Nat) : bitOff i = 2 * (i % 4) := by unfold bitOff; omega
theorem byteOff_eq (i : Nat) : byteOff i = i / 4 := by unfold byteOff; omega

end BluetoeModel.NotifQueue
