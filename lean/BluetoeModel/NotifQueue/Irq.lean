import BluetoeModel.NotifQueue.Model
/-
  C13: small-step model of `dequeue_indication_or_confirmation` (the consumer, called by the link
  layer) interrupted by one producer call `queue_notification` / `queue_indication`
  (`server::notify()` from an interrupt service routine).

  Granularity: one step = one memory access of the consumer to the shared queue bytes
  (`queue_[ byte ]` of a generic level, `state_` of a single-entry level).  The producer is an
  interrupt on the same core: it runs to completion between two accesses of the consumer.  `next_`
  and `outstanding_confirmation_index_` are only touched by the consumer and are not access points.
  The consumer code is the code of Model.lean (`Gen.scan`/`Gen.deq`/`singleDeq`/`deqLv`) with every
  byte access made explicit:  `x op= v` is `load; store`.

  `atomic = true` models the repaired code in which the read-modify-write of `remove` cannot be
  interrupted (the store follows the load without an access point in between).
-/
namespace BluetoeModel.NotifQueue

structure ISt where
  mem  : List Level              -- the queue's levels (shared memory)
  cnt  : Option Nat              -- accesses left before the interrupt fires; `none` = it ran
  prod : Kind × Nat              -- the producer's request
  pres : Option Bool := none     -- what the producer's queue_* call returned
  oob  : Bool := false
  atomic : Bool := false
deriving Repr, DecidableEq

/-- the interrupt: the complete producer call, src: notification_queue::queue_notification/indication -/
def ISt.fire (s : ISt) : ISt :=
  match queueLv s.mem s.prod.2 s.prod.1 with
  | some (m, r) => { s with mem := m, cnt := none, pres := some r }
  | none => { s with cnt := none, oob := true }

/-- an access point of the consumer: the interrupt may be taken here -/
def ISt.tick (s : ISt) : ISt :=
  match s.cnt with
  | some 0 => s.fire
  | some (n + 1) => { s with cnt := some n }
  | none => s

/-- consumer loads `queue_[ b ]` of level `lv` (or `state_` of a single-entry level, `b = 0`) -/
def ISt.load (s : ISt) (lv b : Nat) : ISt × Nat :=
  let s := s.tick
  match s.mem[lv]? with
  | some (.gen g) =>
    match getByte? g.bytes b with
    | some v => (s, v)
    | none => ({ s with oob := true }, 0)
  | some (.single st) => if b = 0 then (s, st) else ({ s with oob := true }, 0)
  | none => ({ s with oob := true }, 0)

/-- consumer stores `queue_[ b ]`; `rmw = true`: this store completes a read-modify-write -/
def ISt.store (s : ISt) (lv b v : Nat) (rmw : Bool) : ISt :=
  let s := if rmw && s.atomic then s else s.tick
  match s.mem[lv]? with
  | some (.gen g) =>
    match setByte? g.bytes b v with
    | some bs => { s with mem := s.mem.set lv (.gen { g with bytes := bs }) }
    | none => { s with oob := true }
  | some (.single _) => if b = 0 then { s with mem := s.mem.set lv (.single v) } else { s with oob := true }
  | none => { s with oob := true }

/-- `next_ = n` (consumer private, no access point) -/
def ISt.setNext (s : ISt) (lv n : Nat) : ISt :=
  match s.mem[lv]? with
  | some (.gen g) => { s with mem := s.mem.set lv (.gen { g with next := n }) }
  | _ => s

-- src: the scan loop of notification_queue_impl::dequeue_indication_or_confirmation; `at( i )` is one load
def iscan (lv size : Nat) (free : Bool) : ISt → Nat → Nat → ISt × Option (Kind × Nat)
  | s, _, 0 => (s, none)
  | s, i, cnt + 1 =>
    let (s, b) := s.load lv (byteOff i)
    let e := (b >>> bitOff i) &&& 3
    if e &&& 2 ≠ 0 ∧ free then (s, some (.indication, i))
    else if e &&& 1 ≠ 0 then (s, some (.notification, i))
    else iscan lv size free s ((i + 1) % size) cnt

/-- one level's dequeue; returns (state, outstanding, result) -/
def ideqLevel (s : ISt) (lv offset : Nat) (out : Option Nat) : ISt × Option Nat × Option (Kind × Nat) :=
  match s.mem[lv]? with
  | some (.gen g) =>
    -- src: notification_queue_impl::dequeue_indication_or_confirmation + remove
    match iscan lv g.size out.isNone s g.next g.size with
    | (s, none) => (s, out, none)
    | (s, some (k, i)) =>
      let s := s.setNext lv ((i + 1) % g.size)
      let (s, b) := s.load lv (byteOff i)
      let s := s.store lv (byteOff i) (b &&& (255 ^^^ (k.bit <<< bitOff i))) true
      (s, if k = .indication then some (i + offset) else out, some (k, i + offset))
  | some (.single _) =>
    -- src: notification_queue_impl<1,C>::dequeue_indication_or_confirmation:
    --   `if ( state_ & indication_bit && ... ) { ...; state_ &= ~indication_bit; }`
    --   `else if ( state_ & notification_bit ) { state_ &= ~notification_bit; }`
    let (s, st) := s.load lv 0
    if st &&& 2 ≠ 0 ∧ out.isNone then
      let (s, st) := s.load lv 0
      (s.store lv 0 (st &&& (255 ^^^ 2)) true, some offset, some (.indication, offset))
    else
      let (s, st) := s.load lv 0
      if st &&& 1 ≠ 0 then
        let (s, st) := s.load lv 0
        (s.store lv 0 (st &&& (255 ^^^ 1)) true, out, some (.notification, offset))
      else (s, out, none)
  | none => ({ s with oob := true }, out, none)

def levelSizeAt (s : ISt) (lv : Nat) : Nat :=
  match s.mem[lv]? with
  | some l => l.size
  | none => 0

-- src: notification_queue_impl_base::dequeue_indication_or_confirmation (chain over the levels)
def ideqLv : ISt → Nat → Nat → Option Nat → Nat → ISt × Option Nat × Option (Kind × Nat)
  | s, _, _, out, 0 => (s, out, none)
  | s, lv, offset, out, n + 1 =>
    match ideqLevel s lv offset out with
    | (s, out, some r) => (s, out, some r)
    | (s, out, none) => ideqLv s (lv + 1) (offset + levelSizeAt s lv) out n

structure Outcome where
  pres : Option Bool                 -- producer's return value
  deq  : Option (Kind × Nat)         -- consumer's return value
  q    : Queue                       -- queue afterwards
  oob  : Bool
deriving Repr, DecidableEq

/-- consumer dequeue on `q`, the interrupt `prod` taken before the consumer's `k`-th access (after
    the last one if there are fewer) -/
def irqRun (q : Queue) (prod : Kind × Nat) (k : Nat) (atomic : Bool := false) : Outcome × Nat :=
  let s0 : ISt := { mem := q.levels, cnt := some k, prod := prod, atomic := atomic }
  let (s, out, r) := ideqLv s0 0 0 q.outstanding q.levels.length
  let left := s.cnt
  let s := if s.cnt.isSome then s.fire else s
  ({ pres := s.pres, deq := r, q := { levels := s.mem, outstanding := out }, oob := s.oob },
    match left with | some n => k - n | none => k)

/-- number of access points of the consumer's dequeue on `q` (when not interrupted) -/
def irqAccesses (q : Queue) : Nat := (irqRun q (.notification, 0) 1000000).2

/-- everything still pending afterwards, found by the sequential `conf; deq` until empty -/
def drain (q : Queue) : Nat → List (Kind × Nat)
  | 0 => []
  | n + 1 =>
    match (({ q with outstanding := none } : Queue).step .deq) with
    | (q', .entry (some r)) => r :: drain q' n
    | _ => []

def totalLevels (ls : List Level) : Nat := (ls.map Level.size).sum

/-- the request `r` was lost: accepted as newly queued, but neither returned by the interrupted
    dequeue nor pending afterwards -/
def Outcome.lost (o : Outcome) (r : Kind × Nat) : Bool :=
  o.pres == some true && o.deq != some r && !(drain o.q (2 * totalLevels o.q.levels + 1)).contains r

end BluetoeModel.NotifQueue
