import BluetoeModel.NotifQueue.FineLemmas
/-
  Fine-grained interleaving (Fine.lean), the chain of priority levels: what the consumer returns and
  what its RMW leaves behind, in terms of the specification's sequential `sdeqLv` / `squeueLv`.
-/
namespace BluetoeModel.NotifQueue

theorem scanOf_hit {x : Option (Kind × Nat)} {k : Kind} {i : Nat} (h : Scan.hit k i = scanOf x) : x = some (k, i) := by
  cases x with
  | none => cases h
  | some y => obtain ⟨a, b⟩ := y; simp only [scanOf, Scan.hit.injEq] at h; rw [h.1, h.2]

theorem scanOf_empty {x : Option (Kind × Nat)} (h : Scan.empty = scanOf x) : x = none := by
  cases x with
  | none => rfl
  | some y => obtain ⟨a, b⟩ := y; cases h

theorem scanOf_oob {x : Option (Kind × Nat)} (h : Scan.oob = scanOf x) : False := by
  cases x with
  | none => cases h
  | some y => obtain ⟨a, b⟩ := y; cases h

theorem sdeqLv_cons_none {s : SLevel} (ss : List SLevel) (off : Nat) (out : Option Nat)
    (h : s.scan out.isNone s.next s.size = none) :
    sdeqLv (s :: ss) off out = (s :: (sdeqLv ss (off + s.size) out).1, (sdeqLv ss (off + s.size) out).2.1,
      (sdeqLv ss (off + s.size) out).2.2) := by
  simp only [sdeqLv, SLevel.deq_of_scan, h]

theorem sdeqLv_cons_some {s : SLevel} (ss : List SLevel) (off : Nat) (out : Option Nat) {k : Kind} {i : Nat}
    (h : s.scan out.isNone s.next s.size = some (k, i)) :
    sdeqLv (s :: ss) off out = ({ s with next := (i + 1) % s.size, slots := s.slots.set i ((s.slot i).clr k) } :: ss,
      (if k = .indication then some (i + off) else out), some (k, i + off)) := by
  simp only [sdeqLv, SLevel.deq_of_scan, h]

theorem RLs.wf_all {ls : List Level} {ss : List SLevel} (h : RLs ls ss) : WFs ss := by
  induction h with
  | nil => intro l hl; cases hl
  | cons hl _ ih =>
    intro x hx
    rcases List.mem_cons.mp hx with e | e
    · exact e ▸ hl.wf
    · exact ih x e

/-- both memories identical (levels the producer does not touch): the consumer's loads are the
    sequential dequeue -/
theorem fchain_same {ls : List Level} {ss : List SLevel} (h : RLs ls ss) (k2 : Nat) (out : Option Nat) :
    ∀ off n, ∃ n' rm, fchain ls ls k2 out.isNone off n = some ((sdeqLv ss off out).2.2, n', rm, rm) ∧
      RLs rm (sdeqLv ss off out).1 ∧ n ≤ n' := by
  induction h with
  | nil => intro off n; exact ⟨n, [], rfl, .nil, Nat.le_refl _⟩
  | @cons l s t ss hl hls ih =>
    intro off n
    obtain ⟨hd, _, hle⟩ := flevel_snapshot (idx := 0) (k := .notification) hl hl .same k2 out.isNone n
    have hsc : (flevel l l k2 out.isNone n).1 = scanOf (s.scan out.isNone s.next s.size) := by
      rcases hd with a | a <;> exact a
    rcases hf : flevel l l k2 out.isNone n with ⟨sc, n1⟩
    rw [hf] at hsc hle
    simp only at hsc hle
    cases hscan : s.scan out.isNone s.next s.size with
    | none =>
      rw [hscan] at hsc
      obtain ⟨n', rm, e, r, le⟩ := ih (off + l.size) n1
      refine ⟨n', l :: rm, ?_, ?_, by omega⟩
      · subst hsc
        simp only [fchain, hf, e, Option.map, scanOf]
        rw [sdeqLv_cons_none ss off out hscan, hl.size]
      · rw [sdeqLv_cons_none ss off out hscan, ← hl.size]; exact .cons hl r
    | some y =>
      obtain ⟨k, i⟩ := y
      rw [hscan] at hsc
      have hi := (SLevel.scan_some hl.wf _ _ _ _ _ hl.wf.nlt hscan).1
      obtain ⟨l', hrm, hr⟩ := hl.rm_refines hi k
      refine ⟨n1, l' :: t, ?_, ?_, hle⟩
      · subst hsc
        simp only [fchain, hf, hrm, scanOf]
        rw [sdeqLv_cons_some ss off out hscan]
      · rw [sdeqLv_cons_some ss off out hscan]; exact .cons hr hls

/-- the consumer saw the memory before the producer's RMW -/
def ViewBefore (ss0 : List SLevel) (off : Nat) (out : Option Nat) (r : Option (Kind × Nat)) (rm0 : List Level) : Prop :=
  (sdeqLv ss0 off out).2.2 = r ∧ RLs rm0 (sdeqLv ss0 off out).1

/-- the two RMWs concern different requests and commute: after both, the memory is that of
    "dequeue, then queue" -/
def Commuted (ss0 : List SLevel) (idx : Nat) (k : Kind) (off : Nat) (out : Option Nat) (r : Option (Kind × Nat))
    (rm1 : List Level) : Prop :=
  r ≠ some (k, idx + off) ∧ RLs rm1 (squeueLv (sdeqLv ss0 off out).1 idx k).1

theorem squeueLv_cons_lt {s : SLevel} (ss : List SLevel) {idx : Nat} (k : Kind) (c : idx < s.size) :
    squeueLv (s :: ss) idx k = ((s.add idx k).1 :: ss, (s.add idx k).2) := by
  simp [squeueLv, c]

theorem squeueLv_cons_ge {s : SLevel} (ss : List SLevel) {idx : Nat} (k : Kind) (c : ¬ idx < s.size) :
    squeueLv (s :: ss) idx k = (s :: (squeueLv ss (idx - s.size) k).1, (squeueLv ss (idx - s.size) k).2) := by
  simp [squeueLv, c]

/-- **the consumer's view is a snapshot, and the RMWs commute**: for every moment `k2` of the
    producer's RMW the consumer returns what the sequential dequeue returns on the memory before
    (`ViewBefore ss0`) or after (`ViewBefore ss1`) the producer's RMW; in the first case its own RMW
    applied to the memory after the producer's RMW gives "queue; dequeue" or "dequeue; queue". -/
theorem fchain_spec {ls0 : List Level} {ss0 : List SLevel} (h : RLs ls0 ss0) (k : Kind) (k2 : Nat) (out : Option Nat) :
    ∀ idx off n ls1 b, queueLv ls0 idx k = some (ls1, b) →
      ∃ r n' rm0 rm1, fchain ls0 ls1 k2 out.isNone off n = some (r, n', rm0, rm1) ∧ n ≤ n' ∧
        (n' ≤ k2 → ViewBefore ss0 off out r rm0) ∧
        ((ViewBefore ss0 off out r rm0 ∧
            (ViewBefore (squeueLv ss0 idx k).1 off out r rm1 ∨ Commuted ss0 idx k off out r rm1)) ∨
          ViewBefore (squeueLv ss0 idx k).1 off out r rm1) := by
  induction h with
  | nil =>
    intro idx off n ls1 b hq
    simp only [queueLv, Option.some.injEq, Prod.mk.injEq] at hq
    obtain ⟨e, _⟩ := hq
    subst e
    have hv : ViewBefore [] off out none [] := ⟨rfl, .nil⟩
    exact ⟨none, n, [], [], rfl, Nat.le_refl _, fun _ => hv, Or.inr hv⟩
  | @cons l0 s0 t ss hl hls ih =>
    intro idx off n ls1 b hq
    have hwss : WFs ss := hls.wf_all
    by_cases c : idx < s0.size
    · -- the producer's characteristic lives on this level
      obtain ⟨l1, hadd, hl1⟩ := hl.add_refines c k
      have e1 : ls1 = l1 :: t := by
        simp only [queueLv, hl.size, c, if_true, hadd, Option.map, Option.some.injEq, Prod.mk.injEq] at hq
        exact hq.1.symm
      subst e1
      rw [squeueLv_cons_lt ss k c]
      obtain ⟨hd, hT1, hle⟩ := flevel_snapshot hl hl1 (.add c hadd) k2 out.isNone n
      rcases hf : flevel l0 l1 k2 out.isNone n with ⟨sc, n1⟩
      rw [hf] at hd hT1 hle
      simp only at hd hT1 hle
      cases sc with
      | oob => rcases hd with a | a <;> exact (scanOf_oob a).elim
      | hit k' i =>
        have hi : i < s0.size := by
          rcases hd with a | a
          · exact (SLevel.scan_some hl.wf _ _ _ _ _ hl.wf.nlt (scanOf_hit a)).1
          · exact (SLevel.scan_some hl1.wf _ _ _ _ _ hl1.wf.nlt (scanOf_hit a)).1
        obtain ⟨a0, hrm0, hr0⟩ := hl.rm_refines hi k'
        obtain ⟨a1, hrm1, hr1⟩ := hl1.rm_refines (s := (s0.add idx k).1) hi k'
        refine ⟨some (k', i + off), n1, a0 :: t, a1 :: t, by simp only [fchain, hf, hrm0, hrm1], hle, ?_⟩
        have hB : (s0.add idx k).1.scan out.isNone (s0.add idx k).1.next (s0.add idx k).1.size = some (k', i) →
            ViewBefore ((s0.add idx k).1 :: ss) off out (some (k', i + off)) (a1 :: t) := by
          intro hs
          refine ⟨by rw [sdeqLv_cons_some ss off out hs], ?_⟩
          rw [sdeqLv_cons_some ss off out hs]; exact .cons hr1 hls
        by_cases hA : s0.scan out.isNone s0.next s0.size = some (k', i)
        · have hVA : ViewBefore (s0 :: ss) off out (some (k', i + off)) (a0 :: t) := by
            refine ⟨by rw [sdeqLv_cons_some ss off out hA], ?_⟩
            rw [sdeqLv_cons_some ss off out hA]; exact .cons hr0 hls
          refine ⟨fun _ => hVA, Or.inl ⟨hVA, ?_⟩⟩
          by_cases hsame : k' = k ∧ i = idx
          · left
            obtain ⟨ek, ei⟩ := hsame
            subst ek; subst ei
            have hhas := (SLevel.scan_some hl.wf _ _ _ _ _ hl.wf.nlt hA).2.1
            have hno := SLevel.add_noop hl.wf c k' hhas
            exact hB (by rw [hno]; exact hA)
          · right
            refine ⟨fun e => ?_, ?_⟩
            · simp only [Option.some.injEq, Prod.mk.injEq] at e
              exact hsame ⟨e.1, by omega⟩
            · rw [sdeqLv_cons_some ss off out hA]
              rw [squeueLv_cons_lt ss k (by exact c)]
              rw [← SLevel.add_clr_comm hl.wf c hi k k' _ hsame]
              exact .cons hr1 hls
        · have hs1 : (s0.add idx k).1.scan out.isNone (s0.add idx k).1.next (s0.add idx k).1.size = some (k', i) := by
            rcases hd with a | a
            · exact absurd (scanOf_hit a) hA
            · exact scanOf_hit a
          exact ⟨fun hle2 => absurd (scanOf_hit (hT1 hle2)) hA, Or.inr (hB hs1)⟩
      | empty =>
        obtain ⟨n', rm, e, hr, le⟩ := fchain_same hls k2 out (off + l0.size) n1
        refine ⟨(sdeqLv ss (off + l0.size) out).2.2, n', l0 :: rm, l1 :: rm,
          by simp only [fchain, hf, e, Option.map], by omega, ?_⟩
        have hB : (s0.add idx k).1.scan out.isNone (s0.add idx k).1.next (s0.add idx k).1.size = none →
            ViewBefore ((s0.add idx k).1 :: ss) off out (sdeqLv ss (off + l0.size) out).2.2 (l1 :: rm) := by
          intro hs
          have e2 : (s0.add idx k).1.size = l0.size := by rw [hl.size]; rfl
          refine ⟨by rw [sdeqLv_cons_none ss off out hs, e2], ?_⟩
          rw [sdeqLv_cons_none ss off out hs, e2]; exact .cons hl1 hr
        by_cases hA : s0.scan out.isNone s0.next s0.size = none
        · have hVA : ViewBefore (s0 :: ss) off out (sdeqLv ss (off + l0.size) out).2.2 (l0 :: rm) := by
            refine ⟨by rw [sdeqLv_cons_none ss off out hA, hl.size], ?_⟩
            rw [sdeqLv_cons_none ss off out hA, ← hl.size]; exact .cons hl hr
          refine ⟨fun _ => hVA, Or.inl ⟨hVA, Or.inr ⟨?_, ?_⟩⟩⟩
          · intro e
            obtain ⟨i2, hg, _⟩ := sdeqLv_some hwss (off + l0.size) out k (idx + off) e
            rw [hl.size] at hg
            omega
          · rw [sdeqLv_cons_none ss off out hA, ← hl.size]
            rw [squeueLv_cons_lt _ k (by exact c)]
            exact .cons hl1 hr
        · have hs1 : (s0.add idx k).1.scan out.isNone (s0.add idx k).1.next (s0.add idx k).1.size = none := by
            rcases hd with a | a
            · exact absurd (scanOf_empty a) hA
            · exact scanOf_empty a
          exact ⟨fun hle2 => absurd (scanOf_empty (hT1 (by omega))) hA, Or.inr (hB hs1)⟩
    · -- the producer's characteristic lives on a lower level (or nowhere)
      have hq' : ∃ t1, queueLv t (idx - l0.size) k = some (t1, b) ∧ ls1 = l0 :: t1 := by
        simp only [queueLv, hl.size, c, if_false] at hq
        cases hqq : queueLv t (idx - s0.size) k with
        | none => rw [hqq] at hq; cases hq
        | some y =>
          obtain ⟨t1, b'⟩ := y
          rw [hqq] at hq
          simp only [Option.map, Option.some.injEq, Prod.mk.injEq] at hq
          exact ⟨t1, by rw [hl.size, hqq, hq.2], hq.1.symm⟩
      obtain ⟨t1, hqt, e1⟩ := hq'
      subst e1
      rw [squeueLv_cons_ge ss k c]
      obtain ⟨t1', hqt', hrt1⟩ := queueLv_refines hls (idx - l0.size) k
      have et : t1' = t1 := by rw [hqt] at hqt'; simp only [Option.some.injEq, Prod.mk.injEq] at hqt'; exact hqt'.1.symm
      subst et
      obtain ⟨hd, _, hle⟩ := flevel_snapshot (idx := 0) (k := .notification) hl hl .same k2 out.isNone n
      have hsc : (flevel l0 l0 k2 out.isNone n).1 = scanOf (s0.scan out.isNone s0.next s0.size) := by
        rcases hd with a | a <;> exact a
      rcases hf : flevel l0 l0 k2 out.isNone n with ⟨sc, n1⟩
      rw [hf] at hsc hle
      simp only at hsc hle
      cases sc with
      | oob => exact (scanOf_oob hsc).elim
      | hit k' i =>
        have hA := scanOf_hit hsc
        have hi := (SLevel.scan_some hl.wf _ _ _ _ _ hl.wf.nlt hA).1
        obtain ⟨a0, hrm0, hr0⟩ := hl.rm_refines hi k'
        refine ⟨some (k', i + off), n1, a0 :: t, a0 :: t1', by simp only [fchain, hf, hrm0], hle, ?_⟩
        have hVA : ViewBefore (s0 :: ss) off out (some (k', i + off)) (a0 :: t) := by
          refine ⟨by rw [sdeqLv_cons_some ss off out hA], ?_⟩
          rw [sdeqLv_cons_some ss off out hA]; exact .cons hr0 hls
        refine ⟨fun _ => hVA, Or.inl ⟨hVA, Or.inl ⟨by rw [sdeqLv_cons_some _ off out hA], ?_⟩⟩⟩
        rw [sdeqLv_cons_some _ off out hA]; rw [hl.size] at hrt1; exact .cons hr0 hrt1
      | empty =>
        have hA := scanOf_empty hsc
        obtain ⟨r, n', rm0, rm1, e, le, hT, hdisj⟩ := ih (idx - l0.size) (off + l0.size) n1 t1' b hqt
        refine ⟨r, n', l0 :: rm0, l0 :: rm1, by simp only [fchain, hf, e, Option.map], by omega, ?_⟩
        have liftA : ViewBefore ss (off + l0.size) out r rm0 → ViewBefore (s0 :: ss) off out r (l0 :: rm0) := by
          intro ⟨a, b⟩
          refine ⟨by rw [sdeqLv_cons_none ss off out hA, ← hl.size]; exact a, ?_⟩
          rw [sdeqLv_cons_none ss off out hA, ← hl.size]; exact .cons hl b
        have liftB : ViewBefore (squeueLv ss (idx - l0.size) k).1 (off + l0.size) out r rm1 →
            ViewBefore (s0 :: (squeueLv ss (idx - s0.size) k).1) off out r (l0 :: rm1) := by
          intro ⟨a, b⟩
          rw [hl.size] at a b
          refine ⟨by rw [sdeqLv_cons_none _ off out hA]; exact a, ?_⟩
          rw [sdeqLv_cons_none _ off out hA]; exact .cons hl b
        have liftC : Commuted ss (idx - l0.size) k (off + l0.size) out r rm1 →
            Commuted (s0 :: ss) idx k off out r (l0 :: rm1) := by
          intro ⟨a, b⟩
          have hge : s0.size ≤ idx := by omega
          refine ⟨fun e => a (by rw [e, hl.size]; congr 2; omega), ?_⟩
          rw [sdeqLv_cons_none ss off out hA, squeueLv_cons_ge _ k c, ← hl.size]
          exact .cons hl b
        refine ⟨fun hle2 => liftA (hT hle2), ?_⟩
        rcases hdisj with ⟨a, bc⟩ | b'
        · refine Or.inl ⟨liftA a, ?_⟩
          rcases bc with b' | c'
          · exact Or.inl (liftB b')
          · exact Or.inr (liftC c')
        · exact Or.inr (liftB b')

end BluetoeModel.NotifQueue
