import BluetoeModel.NotifQueue.Lemmas
/-
  Refinement, continued: scan loop, dequeue, single-entry level, the level chain, whole histories.
-/
namespace BluetoeModel.NotifQueue

def scanOf : Option (Kind × Nat) → Scan
  | none => .empty
  | some (k, i) => .hit k i

theorem RG.scan_refines {g : Gen} {s : SLevel} (h : RG g s) (free : Bool) :
    ∀ cnt i, i < s.size → g.scan free i cnt = scanOf (s.scan free i cnt) := by
  intro cnt
  induction cnt with
  | zero => intro i _; rfl
  | succ n ih =>
    intro i hi
    obtain ⟨v, hv, _, hsl⟩ := h.at_eq hi
    have hnext := ih ((i + 1) % s.size) (Nat.mod_lt _ h.wf.pos)
    by_cases c2 : v &&& 2 = 0 <;> by_cases c1 : v % 2 = 1 <;> cases free <;>
      simp [Gen.scan, SLevel.scan, hv, hsl, slotOf, c1, c2, scanOf, h.size, hnext]

/-- what the specification's scan returns is a pending, sendable request of this level -/
theorem SLevel.scan_some {s : SLevel} (hw : s.WF) (free : Bool) :
    ∀ cnt i k j, i < s.size → s.scan free i cnt = some (k, j) →
      j < s.size ∧ (s.slot j).has k = true ∧ (k = .indication → free = true) := by
  intro cnt
  induction cnt with
  | zero => intro i k j _ h; simp [SLevel.scan] at h
  | succ n ih =>
    intro i k j hi h
    unfold SLevel.scan at h
    split at h
    · rename_i c; cases h; exact ⟨hi, c.1, fun _ => c.2⟩
    · split at h
      · rename_i c; cases h; exact ⟨hi, c, fun e => by cases e⟩
      · exact ih _ k j (Nat.mod_lt _ hw.pos) h

theorem RG.deq_refines {g : Gen} {s : SLevel} (h : RG g s) (off : Nat) (out : Option Nat) :
    ∃ g', g.deq off out = some (g', (s.deq off out).2.1, (s.deq off out).2.2) ∧ RG g' (s.deq off out).1 := by
  have hs : g.scan out.isNone g.next g.size = scanOf (s.scan out.isNone s.next s.size) := by
    rw [h.next, h.size]; exact h.scan_refines _ _ _ h.wf.nlt
  unfold Gen.deq SLevel.deq
  rw [hs]
  cases hsc : s.scan out.isNone s.next s.size with
  | none => exact ⟨g, by simp [scanOf], h⟩
  | some r =>
    obtain ⟨k, j⟩ := r
    have hj := (SLevel.scan_some h.wf _ _ _ _ _ h.wf.nlt hsc).1
    have h' : RG { g with next := (j + 1) % g.size } { s with next := (j + 1) % s.size } :=
      ⟨h.size, by simp [h.size], ⟨h.wf.pos, Nat.mod_lt _ h.wf.pos, h.wf.len⟩, h.bnd, h.slot⟩
    obtain ⟨g', hg', hr⟩ := h'.remove_refines hj k
    exact ⟨g', by simp [scanOf, hg'], hr⟩

/-- the single-entry level represents the one-slot list -/
structure RS (st : Nat) (s : SLevel) : Prop where
  lt : st < 4
  eq : s = ⟨1, 0, [slotOf st]⟩

inductive RL : Level → SLevel → Prop
  | gen {g s} : RG g s → RL (.gen g) s
  | single {st s} : RS st s → RL (.single st) s

theorem RL.size {l : Level} {s : SLevel} (h : RL l s) : l.size = s.size := by
  cases h with
  | gen h => exact h.size
  | single h => rw [h.eq]; rfl

theorem RL.wf {l : Level} {s : SLevel} (h : RL l s) : s.WF := by
  cases h with
  | gen h => exact h.wf
  | single h => rw [h.eq]; exact ⟨Nat.one_pos, Nat.one_pos, rfl⟩

theorem RL.add_refines {l : Level} {s : SLevel} (h : RL l s) {i : Nat} (hi : i < s.size) (k : Kind) :
    ∃ l', l.add i k = some (l', (s.add i k).2) ∧ RL l' (s.add i k).1 := by
  cases h with
  | gen h =>
    obtain ⟨g', hg, hr⟩ := h.add_refines hi k
    exact ⟨.gen g', by simp [Level.add, hg], .gen hr⟩
  | @single st s h =>
    have hs := h.eq
    subst hs
    have hi0 : i = 0 := by simp at hi; exact hi
    subst hi0
    have f1 := slot_fact _ h.lt k
    have f2 := single_fact _ h.lt k
    refine ⟨.single (st ||| k.bit), ?_, .single ⟨f2.1, ?_⟩⟩
    · simp [Level.add, singleAdd, SLevel.add, SLevel.slot, f1.2.2]
    · simp [SLevel.add, SLevel.slot, f1.1]

theorem single_deq_eq (st : Nat) (hst : st < 4) (off : Nat) (out : Option Nat) :
    (⟨1, 0, [slotOf st]⟩ : SLevel).deq off out =
      (⟨1, 0, [slotOf (singleDeq st off out).1]⟩, (singleDeq st off out).2.1, (singleDeq st off out).2.2) ∧
    (singleDeq st off out).1 < 4 := by
  have : st = 0 ∨ st = 1 ∨ st = 2 ∨ st = 3 := by omega
  rcases this with h | h | h | h <;> subst h <;> cases out <;>
    simp [singleDeq, SLevel.deq, SLevel.scan, SLevel.slot, slotOf, Slot.clr]

theorem RL.deq_refines {l : Level} {s : SLevel} (h : RL l s) (off : Nat) (out : Option Nat) :
    ∃ l', l.deq off out = some (l', (s.deq off out).2.1, (s.deq off out).2.2) ∧ RL l' (s.deq off out).1 := by
  cases h with
  | gen h =>
    obtain ⟨g', hg, hr⟩ := h.deq_refines off out
    exact ⟨.gen g', by simp [Level.deq, hg], .gen hr⟩
  | @single st s h =>
    have hs := h.eq
    subst hs
    obtain ⟨e, hlt⟩ := single_deq_eq st h.lt off out
    refine ⟨.single (singleDeq st off out).1, ?_, ?_⟩
    · rw [e]; simp [Level.deq]
    · rw [e]; exact .single ⟨hlt, rfl⟩

end BluetoeModel.NotifQueue
