import BluetoeModel.NotifQueue.Fine
import BluetoeModel.NotifQueue.Progress
/-
  Lemmas for the fine-grained interleaving model (Fine.lean): the consumer's loads see a consistent
  snapshot (the memory before or the memory after the producer's RMW), and the two RMWs commute
  unless they concern the same request.
-/
namespace BluetoeModel.NotifQueue

theorem mod_shift_ne (n i d : Nat) (hi : i < n) (hd0 : 0 < d) (hd : d < n) : (i + d) % n ≠ i := by
  by_cases h : i + d < n
  · rw [Nat.mod_eq_of_lt h]; omega
  · rw [Nat.mod_eq_sub_mod (by omega), Nat.mod_eq_of_lt (by omega)]; omega

theorem SLevel.scan_succ (s : SLevel) (free : Bool) (i c : Nat) :
    s.scan free i (c + 1) = if (s.slot i).i ∧ free then some (.indication, i)
      else if (s.slot i).n then some (.notification, i) else s.scan free ((i + 1) % s.size) c := rfl

theorem SLevel.scan_congr {s0 s1 : SLevel} (hs : s1.size = s0.size) (free : Bool) :
    ∀ cnt i, (∀ t, t < cnt → s1.slot ((i + t) % s0.size) = s0.slot ((i + t) % s0.size)) → i < s0.size →
      s1.scan free i cnt = s0.scan free i cnt := by
  intro cnt
  induction cnt with
  | zero => intro i _ _; rfl
  | succ c ih =>
    intro i h hi
    have h0 := h 0 (by omega)
    rw [Nat.add_zero, Nat.mod_eq_of_lt hi] at h0
    have hpos : 0 < s0.size := by omega
    rw [SLevel.scan_succ, SLevel.scan_succ, h0, hs]
    rw [ih ((i + 1) % s0.size) (fun t ht => by have := h (t + 1) (by omega); rwa [← step_pos] at this) (Nat.mod_lt _ hpos)]

theorem fscan_succ (g0 g1 : Gen) (k2 : Nat) (free : Bool) (i n c v : Nat)
    (h : (if n < k2 then g0 else g1).at i = some v) :
    fscan g0 g1 k2 free i n (c + 1) =
      if v &&& 2 ≠ 0 ∧ free then (.hit .indication i, n + 1)
      else if v &&& 1 ≠ 0 then (.hit .notification i, n + 1)
      else fscan g0 g1 k2 free ((i + 1) % g0.size) (n + 1) c := by
  rw [fscan]; simp only [h]

/-- once the producer's RMW has happened the consumer simply scans the new memory -/
theorem fscan_after {g0 g1 : Gen} {s1 : SLevel} (h1 : RG g1 s1) (hsz : g0.size = s1.size) (k2 : Nat) (free : Bool) :
    ∀ cnt i n, i < s1.size → k2 ≤ n →
      (fscan g0 g1 k2 free i n cnt).1 = scanOf (s1.scan free i cnt) ∧ n ≤ (fscan g0 g1 k2 free i n cnt).2 ∧
      (0 < cnt → n < (fscan g0 g1 k2 free i n cnt).2) := by
  intro cnt
  induction cnt with
  | zero => intro i n _ _; exact ⟨rfl, Nat.le_refl _, fun h => absurd h (by omega)⟩
  | succ c ih =>
    intro i n hi hn
    obtain ⟨v, hv, _, hsl⟩ := h1.at_eq hi
    have hview : (if n < k2 then g0 else g1).at i = some v := by
      rw [if_neg (by omega)]; exact hv
    have ihn := ih ((i + 1) % s1.size) (n + 1) (Nat.mod_lt _ h1.wf.pos) (by omega)
    rw [fscan_succ _ _ _ _ _ _ _ _ hview, SLevel.scan_succ, hsl, hsz]
    by_cases c2 : v &&& 2 ≠ 0 ∧ free = true
    · have : (slotOf v).i = true ∧ free = true := by simpa [slotOf] using c2
      rw [if_pos c2, if_pos this]
      exact ⟨rfl, by simp, fun _ => by simp⟩
    · have : ¬ ((slotOf v).i = true ∧ free = true) := by simpa [slotOf] using c2
      rw [if_neg c2, if_neg this]
      by_cases c1 : v &&& 1 ≠ 0
      · have : (slotOf v).n = true := by simpa [slotOf] using c1
        rw [if_pos c1, if_pos this]
        exact ⟨rfl, by simp, fun _ => by simp⟩
      · have : ¬ (slotOf v).n = true := by simpa [slotOf] using c1
        rw [if_neg c1, if_neg this]
        exact ⟨ihn.1, by omega, fun _ => by omega⟩

/-- **snapshot**: whatever the moment `k2` of the producer's RMW, the consumer's scan of a level
    returns what a scan of the memory before, or a scan of the memory after that RMW returns; if all
    its loads came before the RMW, the former -/
theorem fscan_snapshot {g0 g1 : Gen} {s0 s1 : SLevel} (h0 : RG g0 s0) (h1 : RG g1 s1) (hs : s1.size = s0.size)
    (istar : Nat) (hagree : ∀ j, j < s0.size → j ≠ istar → s1.slot j = s0.slot j) (k2 : Nat) (free : Bool) :
    ∀ cnt i n, i < s0.size → cnt ≤ s0.size →
      ((fscan g0 g1 k2 free i n cnt).1 = scanOf (s0.scan free i cnt) ∨
        (fscan g0 g1 k2 free i n cnt).1 = scanOf (s1.scan free i cnt)) ∧
      ((fscan g0 g1 k2 free i n cnt).2 ≤ k2 → (fscan g0 g1 k2 free i n cnt).1 = scanOf (s0.scan free i cnt)) ∧
      n ≤ (fscan g0 g1 k2 free i n cnt).2 := by
  intro cnt
  induction cnt with
  | zero => intro i n _ _; exact ⟨Or.inl rfl, fun _ => rfl, Nat.le_refl _⟩
  | succ c ih =>
    intro i n hi hc
    by_cases hn : n < k2
    · obtain ⟨v, hv, _, hsl⟩ := h0.at_eq hi
      have hview : (if n < k2 then g0 else g1).at i = some v := by rw [if_pos hn]; exact hv
      have hpos := h0.wf.pos
      have ihn := ih ((i + 1) % s0.size) (n + 1) (Nat.mod_lt _ hpos) (by omega)
      rw [fscan_succ _ _ _ _ _ _ _ _ hview, SLevel.scan_succ s0, hsl, h0.size]
      by_cases c2 : v &&& 2 ≠ 0 ∧ free = true
      · have : (slotOf v).i = true ∧ free = true := by simpa [slotOf] using c2
        rw [if_pos c2, if_pos this]
        exact ⟨Or.inl rfl, fun _ => rfl, by simp⟩
      · have hc2 : ¬ ((slotOf v).i = true ∧ free = true) := by simpa [slotOf] using c2
        rw [if_neg c2, if_neg hc2]
        by_cases c1 : v &&& 1 ≠ 0
        · have : (slotOf v).n = true := by simpa [slotOf] using c1
          rw [if_pos c1, if_pos this]
          exact ⟨Or.inl rfl, fun _ => rfl, by simp⟩
        · have hc1 : ¬ (slotOf v).n = true := by simpa [slotOf] using c1
          rw [if_neg c1, if_neg hc1]
          refine ⟨?_, ihn.2.1, by have := ihn.2.2; omega⟩
          by_cases e : i = istar
          · -- the producer's characteristic has been passed: the rest is the same before and after
            have hcg : s1.scan free ((i + 1) % s0.size) c = s0.scan free ((i + 1) % s0.size) c := by
              refine SLevel.scan_congr hs free c _ ?_ (Nat.mod_lt _ hpos)
              intro t ht
              refine hagree _ (Nat.mod_lt _ hpos) ?_
              rw [step_pos, ← e]
              exact mod_shift_ne _ _ _ hi (by omega) (by omega)
            rcases ihn.1 with a | a
            · exact Or.inl a
            · rw [hcg] at a; exact Or.inl a
          · rcases ihn.1 with a | a
            · exact Or.inl a
            · right
              rw [SLevel.scan_succ s1, hagree i hi e, hsl, if_neg hc2, if_neg hc1, hs]
              exact a
    · have hsz : g0.size = s1.size := by rw [h0.size, hs]
      obtain ⟨a, b, d⟩ := fscan_after h1 hsz k2 free (c + 1) i n (by rw [hs]; exact hi) (by omega)
      exact ⟨Or.inr a, fun hle => by have := d (by omega); omega, b⟩

/-! ### one level -/

theorem set_self {α : Type} : ∀ (l : List α) (i : Nat) (x : α), l[i]? = some x → l.set i x = l := by
  intro l
  induction l with
  | nil => intro i x h; rfl
  | cons a l ih =>
    intro i x h
    cases i with
    | zero => simp at h; simp [h]
    | succ i => simp at h; simp [ih i x h]

theorem Slot.set_of_has (sl : Slot) (k : Kind) (h : sl.has k = true) : sl.set k = sl := by
  obtain ⟨n, i⟩ := sl
  cases k <;> simp_all [Slot.has, Slot.set]

/-- queueing what is already pending changes nothing -/
theorem SLevel.add_noop {s : SLevel} (hw : s.WF) {i : Nat} (hi : i < s.size) (k : Kind)
    (h : (s.slot i).has k = true) : (s.add i k).1 = s := by
  have hlen : i < s.slots.length := by rw [hw.len]; exact hi
  have : s.slots[i]? = some (s.slot i) := by simp [SLevel.slot, hlen]
  simp only [SLevel.add, Slot.set_of_has _ _ h, set_self _ _ _ this]

theorem Slot.set_clr_comm (sl : Slot) (k k' : Kind) (h : k' ≠ k) : (sl.set k).clr k' = (sl.clr k').set k := by
  obtain ⟨n, i⟩ := sl
  cases k <;> cases k' <;> simp_all [Slot.set, Slot.clr]

/-- the consumer's removal of `(i, k')` and the producer's addition of `(idx, k)` commute when they
    are different requests -/
theorem SLevel.add_clr_comm {s : SLevel} (hw : s.WF) {idx i : Nat} (hidx : idx < s.size) (hi : i < s.size)
    (k k' : Kind) (nx : Nat) (hne : ¬ (k' = k ∧ i = idx)) :
    ({ (s.add idx k).1 with next := nx, slots := (s.add idx k).1.slots.set i (((s.add idx k).1.slot i).clr k') } : SLevel) =
      (({ s with next := nx, slots := s.slots.set i ((s.slot i).clr k') } : SLevel).add idx k).1 := by
  have hl : i < s.slots.length := by rw [hw.len]; exact hi
  have e1 := SLevel.add_slot hw hidx k i
  have e2 := SLevel.slot_set s i ((s.slot i).clr k') hl idx nx
  simp only [SLevel.add] at e1 ⊢
  rw [e1, e2]
  by_cases c : i = idx
  · subst c
    simp only [if_true, List.set_set]
    rw [Slot.set_clr_comm _ _ _ (fun e => hne ⟨e, rfl⟩)]
  · have c' : ¬ idx = i := fun e => c e.symm
    simp only [c, c', if_false]
    rw [List.set_comm _ _ c']

theorem slotOf_inj {a b : Nat} (ha : a < 4) (hb : b < 4) (h : slotOf a = slotOf b) : a = b := by
  revert h; revert b; revert a; decide

/-- what the consumer's removal does, in terms of the specification -/
theorem RL.rm_refines {l : Level} {s : SLevel} (h : RL l s) {i : Nat} (hi : i < s.size) (k : Kind) :
    ∃ l', l.rm k i = some l' ∧
      RL l' { s with next := (i + 1) % s.size, slots := s.slots.set i ((s.slot i).clr k) } := by
  cases h with
  | @gen g s h =>
    have h' : RG { g with next := (i + 1) % g.size } { s with next := (i + 1) % s.size } :=
      ⟨h.size, by simp [h.size], ⟨h.wf.pos, Nat.mod_lt _ h.wf.pos, h.wf.len⟩, h.bnd, h.slot⟩
    obtain ⟨g', hg', hr⟩ := h'.remove_refines hi k
    exact ⟨.gen g', by simp [Level.rm, hg'], .gen hr⟩
  | @single st s h =>
    have hs := h.eq
    subst hs
    have hi0 : i = 0 := by simp at hi; exact hi
    subst hi0
    have f1 := slot_fact _ h.lt k
    have f2 := single_fact _ h.lt k
    refine ⟨.single (st &&& (255 ^^^ k.bit)), rfl, .single ⟨f2.2.1, ?_⟩⟩
    simp [SLevel.slot, f2.2.2, f1.2.1]

/-- the level of the scan's hit and the specification's dequeue -/
theorem SLevel.deq_of_scan (s : SLevel) (off : Nat) (out : Option Nat) :
    s.deq off out = match s.scan out.isNone s.next s.size with
      | none => (s, out, none)
      | some (k, i) => ({ s with next := (i + 1) % s.size, slots := s.slots.set i ((s.slot i).clr k) },
          (if k = .indication then some (i + off) else out), some (k, i + off)) := rfl

theorem newOut_eq (out : Option Nat) (k : Kind) (g : Nat) :
    newOut out (some (k, g)) = if k = .indication then some g else out := by
  cases k <;> rfl

/-- how the producer's call relates the two memories a level can be in -/
inductive Touch (idx : Nat) (k : Kind) : Level → SLevel → Level → SLevel → Prop
  | same {l s} : Touch idx k l s l s
  | add {l s l' b} : idx < s.size → l.add idx k = some (l', b) → Touch idx k l s l' (s.add idx k).1

/-- one level: the loads return a consistent snapshot -/
theorem flevel_snapshot {idx : Nat} {k : Kind} {l0 l1 : Level} {s0 s1 : SLevel} (h0 : RL l0 s0) (h1 : RL l1 s1)
    (ht : Touch idx k l0 s0 l1 s1) (k2 : Nat) (free : Bool) (n : Nat) :
    ((flevel l0 l1 k2 free n).1 = scanOf (s0.scan free s0.next s0.size) ∨
      (flevel l0 l1 k2 free n).1 = scanOf (s1.scan free s1.next s1.size)) ∧
    ((flevel l0 l1 k2 free n).2 ≤ k2 → (flevel l0 l1 k2 free n).1 = scanOf (s0.scan free s0.next s0.size)) ∧
    n ≤ (flevel l0 l1 k2 free n).2 := by
  cases ht with
  | same =>
    cases h0 with
    | gen h0 =>
      have := fscan_snapshot h0 h0 rfl 0 (fun _ _ _ => rfl) k2 free s0.size s0.next n h0.wf.nlt (Nat.le_refl _)
      simp only [flevel, h0.next, h0.size]
      exact this
    | @single st s h0 =>
      have hs := h0.eq
      subst hs
      have hlt := h0.lt
      have : st = 0 ∨ st = 1 ∨ st = 2 ∨ st = 3 := by omega
      simp only [flevel, fscanSingle]
      by_cases c1 : n < k2 <;> by_cases c2 : n + 1 < k2 <;> cases free <;>
        rcases this with e | e | e | e <;> subst e <;>
        simp [c1, c2, SLevel.scan, SLevel.slot, slotOf, scanOf] <;> omega
  | @add l' b hidx hadd =>
    cases h0 with
    | gen h0 =>
      cases h1 with
      | gen h1 =>
        have hsl : ∀ j, j < s0.size → j ≠ idx → (s0.add idx k).1.slot j = s0.slot j := by
          intro j _ hne
          rw [SLevel.add_slot h0.wf hidx k j, if_neg hne]
        have := fscan_snapshot h0 h1 rfl idx hsl k2 free s0.size s0.next n h0.wf.nlt (Nat.le_refl _)
        simp only [flevel, h0.next, h0.size]
        exact this
      | single h1 => simp [Level.add] at hadd
    | @single st s h0 =>
      have hs := h0.eq
      subst hs
      have hi0 : idx = 0 := by simp at hidx; exact hidx
      subst hi0
      simp only [Level.add, singleAdd, if_true, Option.some.injEq, Prod.mk.injEq] at hadd
      obtain ⟨e, _⟩ := hadd
      subst e
      have hlt := h0.lt
      have : st = 0 ∨ st = 1 ∨ st = 2 ∨ st = 3 := by omega
      simp only [flevel, fscanSingle]
      by_cases c1 : n < k2 <;> by_cases c2 : n + 1 < k2 <;> cases free <;> cases k <;>
        rcases this with e | e | e | e <;> subst e <;>
        simp [c1, c2, SLevel.scan, SLevel.slot, SLevel.add, Slot.set, slotOf, scanOf, Kind.bit] <;> omega

end BluetoeModel.NotifQueue
