import BluetoeModel.Sm.Invariant
/-!
  # C32, C33, C34 — security manager: protocol order, key offering, key distribution

  All theorems are about `l2capInput` / `l2capOutput` / `findKey` of the model of
  `legacy_security_manager`, `lesc_security_manager` and `security_manager` (Model.lean), for an
  arbitrary tool box `C : Crypto` (c1, s1, f4, f5, f6, g2, P-256, key validation, RNG, bond
  generator are abstract functions), an arbitrary configuration `cfg` (variant, IO capabilities,
  bonding, addresses) and — where a history is mentioned — *every* list of operations
  (SMP PDUs of any content, output polls, encryption changes, user answer modes and deferred
  answers, keyboard / OOB changes, key lookups, reconnects).  The ghost (`Ghost`, Spec.lean) is
  computed from the operations and their outputs only.
-/
namespace BluetoeModel.Sm

/-- the log of the history `ops` run from a fresh manager / connection: for every step the state
    and ghost *before* it, the operation and its output -/
def logOf (C : Crypto) (cfg : Cfg) (ops : List Op) : List (St × Ghost × Op × Out) :=
  (runG C cfg init Ghost.init ops).2.2

def finalSt (C : Crypto) (cfg : Cfg) (ops : List Op) : St := (runG C cfg init Ghost.init ops).1
def finalGhost (C : Crypto) (cfg : Cfg) (ops : List Op) : Ghost := (runG C cfg init Ghost.init ops).2.1

theorem finalSt_eq_run (C : Crypto) (cfg : Cfg) (ops : List Op) :
    finalSt C cfg ops = (run C cfg init ops).1 := (runG_state C cfg ops init Ghost.init).1

theorem logOf_outputs (C : Crypto) (cfg : Cfg) (ops : List Op) :
    (logOf C cfg ops).map (fun e => e.2.2.2) = (run C cfg init ops).2 :=
  (runG_state C cfg ops init Ghost.init).2

theorem final_inv (C : Crypto) (cfg : Cfg) (ops : List Op) :
    Inv C cfg (finalSt C cfg ops) (finalGhost C cfg ops) :=
  (runG_inv C cfg ops init Ghost.init (inv_init C cfg)).1

theorem log_inv (C : Crypto) (cfg : Cfg) (ops : List Op) (e : St × Ghost × Op × Out)
    (he : e ∈ logOf C cfg ops) : Inv C cfg e.1 e.2.1 ∧ e.2.2.2 = (step C cfg e.1 e.2.2.1).2 :=
  (runG_inv C cfg ops init Ghost.init (inv_init C cfg)).2 e he

/-! ## C32 — "a pairing step is accepted only in the protocol order (legacy: request, confirm,
    random; LESC: request, public key, random, DHKey check) with correct lengths and valid
    parameters; anything else is answered with Pairing Failed and returns pairing to idle." -/

theorem acceptedAt_confirmSend_variant {C : Crypto} {v : Variant} {p : Bytes} {st st' : PState}
    (h : AcceptedAt C v st p st') (hs : st = .lescConfirmSend) : v ≠ .legacy := by
  cases h <;> simp_all

/-- **else_failed_and_idle** (with `accepted_only_in_order` as its other half): for every state —
    reachable or not — and every PDU, either the PDU stands at its place in the protocol order
    (table `AcceptedAt`: opcode, length, valid parameters, pairing state before and after) and the
    response is not Pairing Failed, or the response is exactly `05 <reason>` and pairing is idle. -/
theorem else_failed_and_idle (C : Crypto) (cfg : Cfg) (s : St) (p : Bytes) :
    (AcceptedAt C cfg.variant s.st p (l2capInput C cfg s p).1.st ∧
        (l2capInput C cfg s p).2.1.head? ≠ some 0x05) ∨
    FailedIdle (l2capInput C cfg s p) := by
  have hs := l2capInput_spec C cfg s p
  generalize l2capInput C cfg s p = r at hs ⊢
  cases hs with
  | failed hf _ => exact Or.inr hf
  | legacyRequest ha _ _ _ hr _ => exact Or.inl ⟨ha, by rw [hr]; simp⟩
  | lescRequest ha _ _ _ hr => exact Or.inl ⟨ha, by rw [hr]; simp⟩
  | confirm ha _ _ _ hr => exact Or.inl ⟨ha, by rw [hr]; simp⟩
  | legacyRandom ha _ _ _ hr => exact Or.inl ⟨ha, by rw [hr]; simp⟩
  | publicKey ha _ _ _ hr => exact Or.inl ⟨ha, by rw [hr]; simp⟩
  | lescRandom ha _ _ hr => exact Or.inl ⟨ha, by rw [hr]; simp⟩
  | dhkeyCheck ha _ _ _ hr => exact Or.inl ⟨ha, by rw [hr]; simp⟩
  | dhkeyVerified ha _ _ _ _ hr => exact Or.inl ⟨ha, by rw [hr]; simp⟩

/-- **accepted_only_in_order**: whatever is not answered with Pairing Failed was at its place. -/
theorem accepted_only_in_order (C : Crypto) (cfg : Cfg) (s : St) (p : Bytes)
    (h : (l2capInput C cfg s p).2.1.head? ≠ some 0x05) :
    AcceptedAt C cfg.variant s.st p (l2capInput C cfg s p).1.st := by
  rcases else_failed_and_idle C cfg s p with h1 | ⟨⟨e, he⟩, _⟩
  · exact h1.1
  · exact absurd (by rw [he]; rfl) h

/-- non-vacuity: a legacy manager in `idle` accepts a well-formed request -/
example : AcceptedAt ⟨fun _ _ _ _ => [], fun _ _ _ => [], fun _ _ _ _ => [], fun _ _ _ _ _ => ([], []),
      fun _ _ _ _ _ _ _ => [], fun _ _ _ _ => 0, fun _ _ => [], fun _ => true, fun _ => [], fun _ => [],
      fun _ => ([], []), fun _ => [], fun _ => ⟨[], 0, 0⟩⟩ .legacy .idle [1, 3, 0, 0, 16, 7, 7] .legacyRequested :=
  .legacyRequest _ (by decide) rfl (by unfold ReqValid; decide) (by decide)

/-- **accepted_language**: in every history the opcodes accepted since the running pairing
    attempt began (= since the last Pairing Failed / reconnect), oldest first, are a prefix of
    `01 03 04` or of `01 0c 04 0d*` (a DHKey check that arrives while the user is asked is
    verified and remembered; a second one after the user's yes is verified again and answered). -/
theorem accepted_language (C : Crypto) (cfg : Cfg) (ops : List Op) :
    InOrder (finalGhost C cfg ops).acc.reverse := by
  have h := (final_inv C cfg ops).rel
  generalize (finalSt C cfg ops).st = st at h
  generalize (finalGhost C cfg ops).acc = acc at h
  have hrep : ∀ n : Nat, (List.replicate n (0x0d : UInt8) ++ [0x04, 0x0c, 0x01]).reverse =
      [0x01, 0x0c, 0x04] ++ List.replicate n 0x0d := by
    intro n; simp [List.reverse_append]
  cases st <;> simp only [Rel] at h
  case idle => subst h; exact Or.inl (by simp)
  case legacyRequested => subst h; exact Or.inl (by decide)
  case legacyConfirmed => subst h; exact Or.inl (by decide)
  case lescRequested => subst h; exact Or.inl (by decide)
  case lescKeysExchanged => subst h; exact Or.inr (Or.inl (by decide))
  case lescConfirmSend => subst h; exact Or.inr (Or.inl (by decide))
  case lescRandomExchanged => subst h; exact Or.inr (Or.inl (by decide))
  case userWait => subst h; exact Or.inr (Or.inl (by decide))
  case userWaitVerified => obtain ⟨n, h⟩ := h; subst h; exact Or.inr (Or.inr ⟨n, hrep n⟩)
  case userSuccess => obtain ⟨n, h⟩ := h; subst h; exact Or.inr (Or.inr ⟨n, hrep n⟩)
  case userFailed => obtain ⟨n, h⟩ := h; subst h; exact Or.inr (Or.inr ⟨n, hrep n⟩)
  case completed =>
    rcases h with h | ⟨n, h⟩
    · subst h; exact Or.inl (by decide)
    · subst h; exact Or.inr (Or.inr ⟨n, hrep n⟩)

/-! "The peripheral reveals its random value only after verifying the central's confirm value" -/

/-- **srand_after_confirm_check**: in every history, a response `04 ..` to a PDU is either the
    LESC nonce (pairing state `lesc_pairing_confirm_send`) or it is `04 ‖ srand`, sent in
    `legacy_pairing_confirmed`, and then `c1( tk, mrand, p1, p2 )` computed from the received
    random equals the confirm value received last in this attempt (`Ghost.lastConfirm`). -/
theorem srand_after_confirm_check (C : Crypto) (cfg : Cfg) (ops : List Op) (p : Bytes) :
    let s := finalSt C cfg ops
    let r := l2capInput C cfg s p
    r.2.1.head? = some 0x04 →
      (s.st = .lescConfirmSend ∧ cfg.variant ≠ .legacy) ∨
      (s.st = .legacyConfirmed ∧ r.2.1 = 0x04 :: s.srand ∧
        (finalGhost C cfg ops).lastConfirm = some (C.c1 (legacyTempKey s) (p.drop 1) s.p1 s.p2)) := by
  intro s r h04
  have hinv := final_inv C cfg ops
  have hs := l2capInput_spec C cfg s p
  have hr : r = l2capInput C cfg s p := rfl
  rw [← hr] at hs
  generalize r = r' at hs h04
  cases hs with
  | failed hf _ => obtain ⟨⟨e, he⟩, _⟩ := hf; rw [he] at h04; simp at h04
  | legacyRequest _ _ _ _ hr => rw [hr] at h04; simp at h04
  | lescRequest _ _ _ _ hr => rw [hr] at h04; simp at h04
  | confirm _ _ _ _ hr => rw [hr] at h04; simp at h04
  | legacyRandom _ _ hst _ hr hc =>
    refine Or.inr ⟨hst, hr, ?_⟩
    rw [hinv.conf hst, hc]
  | publicKey _ _ _ _ hr => rw [hr] at h04; simp at h04
  | lescRandom ha _ hst =>
    exact Or.inl ⟨hst, acceptedAt_confirmSend_variant ha hst⟩
  | dhkeyCheck _ _ _ _ hr => rw [hr] at h04; simp at h04
  | dhkeyVerified _ _ _ _ _ hr => rw [hr] at h04; simp at h04

/-! "… and sends its DHKey check only after verifying the central's DHKey check." -/

/-- the output is the peripheral's DHKey check PDU -/
def emitsDhkey : Out → Bool
  | .rsp r _ => r.head? == some 0x0d
  | _ => false

/-- **dhkey_after_check_full** (full strength): in every history, every DHKey check the peripheral
    sends is either the response to a DHKey check PDU whose value equals the `Ea` computed from the
    values of this pairing, or it is sent by `l2cap_output` after such a PDU was received: the DHKey
    check accepted last in the running pairing attempt (`Ghost.lastDhkey`: recorded from the PDUs,
    cleared by every Pairing Failed and reconnect) equals the `Ea` of the values the sent `Eb` is
    computed from.  (Before fix sm-01 `l2cap_output` sent `Eb` in `user_response_success` with the
    central's check dropped unverified or not even received.) -/
theorem dhkey_after_check_full (C : Crypto) (cfg : Cfg) (ops : List Op) :
    ∀ e ∈ logOf C cfg ops, emitsDhkey e.2.2.2 = true →
      (∃ p, e.2.2.1 = .pdu p ∧ p.head? = some 0x0d ∧ lescEa C cfg e.1 = p.drop 1) ∨
      (e.2.2.1 = .out ∧ e.2.1.lastDhkey = some (lescEa C cfg e.1)) := by
  intro e he hem
  obtain ⟨hinv, hout⟩ := log_inv C cfg ops e he
  obtain ⟨s, g, op, out⟩ := e
  simp only at hout hem hinv ⊢
  subst hout
  cases op with
  | pdu p =>
    left
    refine ⟨p, rfl, ?_⟩
    simp only [step, emitsDhkey] at hem
    have hs := l2capInput_spec C cfg s p
    generalize l2capInput C cfg s p = r at hs hem
    cases hs with
    | failed hf _ => obtain ⟨⟨e, he⟩, _⟩ := hf; rw [he] at hem; simp at hem
    | legacyRequest _ _ _ _ hr => rw [hr] at hem; simp at hem
    | lescRequest _ _ _ _ hr => rw [hr] at hem; simp at hem
    | confirm _ _ _ _ hr => rw [hr] at hem; simp at hem
    | legacyRandom _ _ _ _ hr => rw [hr] at hem; simp at hem
    | publicKey _ _ _ _ hr => rw [hr] at hem; simp at hem
    | lescRandom _ _ _ hr => rw [hr] at hem; simp at hem
    | dhkeyCheck _ hp _ _ _ hea => exact ⟨hp, hea⟩
    | dhkeyVerified _ _ _ _ _ hr => rw [hr] at hem; simp at hem
  | out =>
    right
    refine ⟨rfl, ?_⟩
    simp only [step, emitsDhkey] at hem
    have hs := l2capOutput_spec C cfg s
    generalize l2capOutput C cfg s = r at hs hem
    cases hs with
    | nothing _ hr => rw [hr] at hem; simp at hem
    | confirmSent _ _ _ hr => rw [hr] at hem; simp at hem
    | dhkeySent _ hst => exact hinv.dh (Or.inr hst)
    | userFailed _ _ hf => obtain ⟨⟨e, he⟩, _⟩ := hf; rw [he] at hem; simp at hem
    | encInfo _ _ _ _ hr => rw [hr] at hem; simp at hem
    | centralId _ _ _ _ _ hr => rw [hr] at hem; simp at hem
  | enc b => simp [step, emitsDhkey] at hem
  | user m => simp [step, emitsDhkey] at hem
  | kbd n => simp [step, emitsDhkey] at hem
  | oob a d => simp [step, emitsDhkey] at hem
  | findKey a b => simp [step, emitsDhkey] at hem
  | conn => simp [step, emitsDhkey] at hem
  | answer b =>
    simp only [step, answer] at hem
    split at hem <;> simp [emitsDhkey] at hem

/-- the recorded DHKey check really is a PDU of the history: `Ghost.lastDhkey` is only ever set to
    the payload of a `0d` PDU that was not answered with Pairing Failed -/
theorem lastDhkey_is_received (C : Crypto) (cfg : Cfg) (pre : St) (g : Ghost) (op : Op) (o : Out) (v : Bytes)
    (h : (gstep C cfg pre g op o).lastDhkey = some v) :
    g.lastDhkey = some v ∨ ∃ p r d, op = .pdu p ∧ o = .rsp r d ∧ p.headD 0 = 0x0d ∧ p.drop 1 = v ∧ r.head? ≠ some 0x05 := by
  cases op <;> cases o <;> simp only [gstep] at h <;> try exact Or.inl h
  · rename_i p r d
    by_cases h05 : r.head? = some 0x05
    · simp [h05, Ghost.aborted] at h
    · by_cases h0d : p.head?.getD 0 = 0x0d
      · right
        refine ⟨p, r, d, rfl, rfl, by simpa using h0d, ?_, h05⟩
        simp [h05, h0d] at h
        simpa using h
      · left
        have h0d' : ¬ p.headD 0 = 0x0d := by simpa using h0d
        simp only [h05, if_false] at h
        repeat' split at h
        all_goals first
          | exact h
          | contradiction
  · rename_i r d
    repeat' split at h
    all_goals first
      | exact Or.inl h
      | (simp [Ghost.aborted] at h)
  all_goals simp [Ghost.init] at h

/-- a tool box whose functions are constants -/
def constCrypto : Crypto :=
  ⟨fun _ _ _ _ => List.replicate 16 0, fun _ _ _ => [], fun _ _ _ _ => [], fun _ _ _ _ _ => ([], []),
   fun _ _ _ _ _ _ _ => List.replicate 16 7, fun _ _ _ _ => 0, fun _ _ => [], fun _ => true, fun _ => [], fun _ => [],
   fun _ => ([], []), fun _ => [], fun _ => ⟨[], 0, 0⟩⟩

def witnessCfg : Cfg :=
  { variant := .lesc, input := .yesNo, display := true, bonding := false,
    localAddr := [0xb6, 0xb5, 0xb4, 0xb3, 0xb2, 0xb1, 0], remoteAddr := [0xa6, 0xa5, 0xa4, 0xa3, 0xa2, 0xa1, 1] }

/-- request (DisplayYesNo, SC), public key, poll (confirm), random — the user is asked and answers
    later —, a DHKey check `ea`, the user's yes, poll -/
def asyncOps (ea : Bytes) : List Op :=
  [.user .async, .pdu [0x01, 0x01, 0x00, 0x08, 0x10, 0x00, 0x00], .pdu (0x0c :: List.replicate 64 2), .out,
   .pdu (0x04 :: List.replicate 16 7), .pdu (0x0d :: ea), .answer true, .out]

/-- non-vacuity (and the input that failed before fix sm-01, corpus/C32/dhkey_unverified_async.ops):
    with the constant tool box `Ea = Eb = 07 .. 07`.  A wrong check received while the user is asked is
    answered with Pairing Failed (DHKey check failed) at once and the user's late yes is refused; a
    correct one is remembered, and after the user's yes the poll sends `Eb`. -/
example : (run constCrypto witnessCfg init (asyncOps (List.replicate 16 0))).2.drop 5 =
    [.rsp [5, 0x0b] none, .illegal, .rsp [] none] := by decide
example : (run constCrypto witnessCfg init (asyncOps (List.replicate 16 7))).2.drop 5 =
    [.rsp [] none, .ok, .rsp (0x0d :: List.replicate 16 7) none] := by decide

/-- non-vacuity: a synchronous yes (corpus/C32/dhkey_before_check_sync_yes.ops) no longer makes the
    poll after Pairing Random send `Eb`; the central's check is verified and answered -/
example : (run constCrypto witnessCfg init
    [.user .syncYes, .pdu [0x01, 0x01, 0x00, 0x08, 0x10, 0x00, 0x00], .pdu (0x0c :: List.replicate 64 2), .out,
     .pdu (0x04 :: List.replicate 16 7), .out, .pdu (0x0d :: List.replicate 16 7)]).2.drop 5 =
    [.rsp [] none, .rsp (0x0d :: List.replicate 16 7) none] := by decide

/-! ## C33 — "The security manager offers a key for link encryption only after a pairing on this
    connection completed successfully (legacy STK or LESC LTK, requested with EDIV=0 and Rand=0)
    or when the bond database holds a key for the requested EDIV/Rand and peer, and the offered
    key is the one that pairing produced." -/

/-- **local_key_iff_completed / offered_key_is_pairing_key** (history theorem): after every history
    the connection's own answer to `find_key( 0, 0 )` *is* the ghost key, and the ghost is a fold
    over the history's PDUs and responses: `some k` exactly when the last thing that
    happened to pairing on this connection is a successful completion (ghost `key`, set by a
    response `04 ‖ srand` to the Pairing Random following an accepted Pairing Confirm — then
    `k = s1( tk, srand sent, mrand received )` — or by a sent DHKey check — then `k = Ghost.ltk`,
    the f5 LTK of the Pairing Public Key *received in this attempt*, the private half of the key pair
    whose public half *was sent in this attempt* (`keyPair_is_sent`), the Pairing Random received
    and the one sent in this attempt, and the two addresses; cleared by every other PDU, by every
    Pairing Failed — sent as response to whatever the peer sent, including the peer's own Pairing
    Failed `05 ..`, see `any_other_pdu_withdraws_key` — and by a reconnect). -/
theorem offered_key_is_pairing_key (C : Crypto) (cfg : Cfg) (ops : List Op) :
    findKeyLocal (finalSt C cfg ops) 0 0 = (finalGhost C cfg ops).key :=
  (final_inv C cfg ops).key

/-- the key pair the ghost records with an accepted Pairing Public Key is the one whose public half
    is the response to that PDU -/
theorem keyPair_is_sent (C : Crypto) (cfg : Cfg) (s : St) (g : Ghost) (p : Bytes)
    (hp : p.head? = some 0x0c) (ha : (l2capInput C cfg s p).2.1.head? ≠ some 0x05) :
    let r := l2capInput C cfg s p
    let g' := gstep C cfg s g (.pdu p) (.rsp r.2.1 r.2.2)
    r.2.1 = 0x0c :: g'.kp.1 ∧ g'.pka = p.drop 1 := by
  intro r g'
  have hs := l2capInput_spec C cfg s p
  have hg : g' = gstep C cfg s g (.pdu p) (.rsp (l2capInput C cfg s p).2.1 (l2capInput C cfg s p).2.2) := rfl
  have hr : r = l2capInput C cfg s p := rfl
  rw [← hr] at hs ha hg
  generalize r = r' at hs ha hg ⊢
  have hgk : g'.kp = C.keys s.rng ∧ g'.pka = p.drop 1 := by
    rw [hg]; simp [gstep, ha, hp]
  cases hs with
  | failed hf _ => obtain ⟨⟨e, he⟩, _⟩ := hf; rw [he] at ha; simp at ha
  | legacyRequest _ hp' => rw [hp] at hp'; simp at hp'
  | lescRequest _ hp' => rw [hp] at hp'; simp at hp'
  | confirm _ hp' => rw [hp] at hp'; simp at hp'
  | legacyRandom _ hp' => rw [hp] at hp'; simp at hp'
  | publicKey _ _ _ _ hrr _ hpub => exact ⟨by rw [hrr, hpub, hgk.1], hgk.2⟩
  | lescRandom _ hp' => rw [hp] at hp'; simp at hp'
  | dhkeyCheck _ hp' => rw [hp] at hp'; simp at hp'
  | dhkeyVerified _ hp' => rw [hp] at hp'; simp at hp'

/-- **any_other_pdu_withdraws_key**: in every state — in particular in `pairing_completed` — a PDU
    whose opcode is not one of `01 03 04 0c 0d` (e.g. the peer's Pairing Failed `05 ..`) is answered
    with Pairing Failed, pairing is idle and no key is offered for (0, 0) by the connection. -/
theorem any_other_pdu_withdraws_key (C : Crypto) (cfg : Cfg) (s : St) (p : Bytes)
    (hop : ∀ o ∈ [0x01, 0x03, 0x04, 0x0c, 0x0d], p.head? ≠ some o) :
    FailedIdle (l2capInput C cfg s p) ∧ findKeyLocal (l2capInput C cfg s p).1 0 0 = none := by
  have h : FailedIdle (l2capInput C cfg s p) := by
    rcases else_failed_and_idle C cfg s p with ⟨ha, _⟩ | hf
    · exfalso
      generalize (l2capInput C cfg s p).1.st = st' at ha
      generalize s.st = st at ha
      cases ha with
      | legacyRequest _ _ h1 => exact hop 0x01 (by simp) h1
      | lescRequest _ _ h1 => exact hop 0x01 (by simp) h1
      | confirm _ _ h1 => exact hop 0x03 (by simp) h1
      | legacyRandom _ _ h1 => exact hop 0x04 (by simp) h1
      | publicKey _ _ h1 => exact hop 0x0c (by simp) h1
      | lescRandom _ _ _ h1 => exact hop 0x04 (by simp) h1
      | dhkeyCheck _ _ _ h1 => exact hop 0x0d (by simp) h1
      | dhkeyVerified _ _ h1 => exact hop 0x0d (by simp) h1
    · exact hf
  exact ⟨h, findKeyLocal_ne _ (by rw [h.2]; simp)⟩

/-- non-vacuity: the peer's Pairing Failed -/
example : ∀ o ∈ [(0x01 : UInt8), 0x03, 0x04, 0x0c, 0x0d], ([0x05, 0x08] : Bytes).head? ≠ some o := by decide

theorem local_key_iff_completed (C : Crypto) (cfg : Cfg) (ops : List Op) :
    (finalSt C cfg ops).st = .completed ↔ (finalGhost C cfg ops).key.isSome = true := by
  rw [← offered_key_is_pairing_key]
  simp only [findKeyLocal]
  by_cases h : (finalSt C cfg ops).st = .completed <;> simp [h]

/-- **key_offered_iff**: in every history and for every EDIV / Rand, `find_key` answers with the
    key of the completed pairing iff EDIV = Rand = 0 and such a pairing exists (ghost), and
    otherwise with what the bonding data base holds for (EDIV, Rand, peer address) — nothing at
    all without a bonding data base. -/
theorem key_offered_iff (C : Crypto) (cfg : Cfg) (ops : List Op) (ediv rand : Nat) :
    findKey cfg (finalSt C cfg ops) ediv rand =
      if ediv = 0 ∧ rand = 0 ∧ (finalGhost C cfg ops).key.isSome = true then (finalGhost C cfg ops).key
      else if cfg.bonding = true then dbFind (finalSt C cfg ops).bonds ediv rand cfg.remoteAddr
      else none := by
  have hk := offered_key_is_pairing_key C cfg ops
  have hc := local_key_iff_completed C cfg ops
  generalize finalSt C cfg ops = s at hk hc ⊢
  generalize (finalGhost C cfg ops).key = gk at hk hc ⊢
  simp only [findKey, findKeyLocal] at hk ⊢
  by_cases h0 : ediv = 0 ∧ rand = 0
  · obtain ⟨he, hr⟩ := h0
    subst he; subst hr
    by_cases hst : s.st = .completed
    · simp only [hst, and_self, if_true] at hk ⊢
      subst hk; simp
    · have : gk.isSome = false := by
        cases hg : gk.isSome
        · rfl
        · exact absurd (hc.mpr hg) hst
      simp [hst, this]
  · have h1 : ¬ (ediv = 0 ∧ rand = 0 ∧ s.st = .completed) := fun h => h0 ⟨h.1, h.2.1⟩
    have h2 : ¬ (ediv = 0 ∧ rand = 0 ∧ gk.isSome = true) := fun h => h0 ⟨h.1, h.2.1⟩
    simp [h1, h2]

/-- non-vacuity: a complete legacy just-works pairing (constant tool box: the confirm check
    passes) offers its STK for (0, 0) and nothing for (1, 0); a further PDU withdraws it -/
example : (run constCrypto { witnessCfg with variant := .legacy, input := .none, display := false } init
    [.pdu [1, 3, 0, 0, 16, 0, 0], .pdu (3 :: List.replicate 16 0), .pdu (4 :: List.replicate 16 0),
     .findKey 0 0, .findKey 1 0, .pdu [0x05, 0x08], .findKey 0 0]).2.drop 3 =
    [.key (some []), .key none, .rsp [5, 7] none, .key none] := by decide

/-! ## C34 — "Long-term key, EDIV and Rand are transmitted only while the link is encrypted, each
    item at most once per pairing, and only after pairing completed." -/

/-- the output is an Encryption Information (LTK) or Central Identification (EDIV, Rand) PDU -/
def emitsDistribution : Out → Bool
  | .rsp r _ => r.head? == some 0x06 || r.head? == some 0x07
  | _ => false

theorem distribution_facts (C : Crypto) (cfg : Cfg) (ops : List Op) :
    ∀ e ∈ logOf C cfg ops, emitsDistribution e.2.2.2 = true →
      e.2.2.1 = .out ∧ e.2.1.enc = true ∧ e.2.1.armed = true ∧ cfg.bonding = true := by
  intro e he hem
  obtain ⟨hinv, hout⟩ := log_inv C cfg ops e he
  obtain ⟨s, g, op, out⟩ := e
  simp only at hout hem hinv ⊢
  subst hout
  cases op with
  | pdu p =>
    exfalso
    simp only [step, emitsDistribution] at hem
    have hs := l2capInput_spec C cfg s p
    generalize l2capInput C cfg s p = r at hs hem
    cases hs with
    | failed hf _ => obtain ⟨⟨e, he⟩, _⟩ := hf; rw [he] at hem; simp at hem
    | legacyRequest _ _ _ _ hr => rw [hr] at hem; simp at hem
    | lescRequest _ _ _ _ hr => rw [hr] at hem; simp at hem
    | confirm _ _ _ _ hr => rw [hr] at hem; simp at hem
    | legacyRandom _ _ _ _ hr => rw [hr] at hem; simp at hem
    | publicKey _ _ _ _ hr => rw [hr] at hem; simp at hem
    | lescRandom _ _ _ hr => rw [hr] at hem; simp at hem
    | dhkeyCheck _ _ _ _ hr => rw [hr] at hem; simp at hem
    | dhkeyVerified _ _ _ _ _ hr => rw [hr] at hem; simp at hem
  | out =>
    refine ⟨rfl, ?_⟩
    simp only [step, emitsDistribution] at hem
    have hs := l2capOutput_spec C cfg s
    generalize l2capOutput C cfg s = r at hs hem
    cases hs with
    | nothing _ hr => rw [hr] at hem; simp at hem
    | confirmSent _ _ _ hr => rw [hr] at hem; simp at hem
    | dhkeySent _ _ _ hr => rw [hr] at hem; simp at hem
    | userFailed _ _ hf => obtain ⟨⟨e, he⟩, _⟩ := hf; rw [he] at hem; simp at hem
    | encInfo _ hb henc hpe => exact ⟨by rw [← hinv.enc]; exact henc, (hinv.pend06 hpe).1, hb⟩
    | centralId _ hb henc _ hpc => exact ⟨by rw [← hinv.enc]; exact henc, (hinv.pend07 hpc).1, hb⟩
  | enc b => simp [step, emitsDistribution] at hem
  | user m => simp [step, emitsDistribution] at hem
  | kbd n => simp [step, emitsDistribution] at hem
  | oob a d => simp [step, emitsDistribution] at hem
  | findKey a b => simp [step, emitsDistribution] at hem
  | conn => simp [step, emitsDistribution] at hem
  | answer b =>
    simp only [step, answer] at hem
    split at hem <;> simp [emitsDistribution] at hem

/-- **distribution_only_encrypted**: in every history a key distribution PDU leaves only through
    `l2cap_output` and only while the last encryption change on this connection was "encrypted"
    (ghost `enc`, computed from the `enc` / `conn` operations). -/
theorem distribution_only_encrypted (C : Crypto) (cfg : Cfg) (ops : List Op) :
    ∀ e ∈ logOf C cfg ops, emitsDistribution e.2.2.2 = true → e.2.2.1 = .out ∧ e.2.1.enc = true :=
  fun e he hem => ⟨(distribution_facts C cfg ops e he hem).1, (distribution_facts C cfg ops e he hem).2.1⟩

/-- **only_after_completed**: … and only after a legacy pairing completed on this connection
    (ghost `armed`: a response `04 ‖ srand` to a Pairing Random that followed an accepted Pairing
    Confirm was seen since the connection was established), with a bonding data base configured. -/
theorem only_after_completed (C : Crypto) (cfg : Cfg) (ops : List Op) :
    ∀ e ∈ logOf C cfg ops, emitsDistribution e.2.2.2 = true → e.2.1.armed = true ∧ cfg.bonding = true :=
  fun e he hem => (distribution_facts C cfg ops e he hem).2.2

/-- **each_item_once_per_pairing**: after every history, the number of Encryption Information
    PDUs and of Central Identification PDUs sent since the last completed legacy pairing
    (ghost counters, reset by `gstep` at every completion) is at most one each. -/
theorem each_item_once_per_pairing (C : Crypto) (cfg : Cfg) (ops : List Op) :
    (finalGhost C cfg ops).sent06 ≤ 1 ∧ (finalGhost C cfg ops).sent07 ≤ 1 :=
  ⟨(final_inv C cfg ops).le06, (final_inv C cfg ops).le07⟩

/-- non-vacuity: pairing with bonding, then polls: nothing while unencrypted, then LTK, then
    EDIV/Rand, then nothing more -/
example : ((run constCrypto { witnessCfg with variant := .legacy, input := .none, display := false, bonding := true } init
    [.pdu [1, 3, 0, 0, 16, 0, 0], .pdu (3 :: List.replicate 16 0), .pdu (4 :: List.replicate 16 0),
     .out, .enc true, .out, .out, .out]).2.drop 3).map (fun o => match o with | .rsp r _ => r.head? | _ => none) =
    [none, none, some 6, some 7, none] := by decide

end BluetoeModel.Sm
