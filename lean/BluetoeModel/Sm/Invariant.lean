import BluetoeModel.Sm.Lemmas
/-!
  The invariant that ties the model state to the ghost computed from the observable history,
  and its preservation by every operation.
-/
namespace BluetoeModel.Sm

/-- pairing state versus the opcodes accepted so far in the running attempt (most recent first) -/
def Rel (st : PState) (acc : List UInt8) : Prop :=
  match st with
  | .idle => acc = []
  | .legacyRequested => acc = [0x01]
  | .legacyConfirmed => acc = [0x03, 0x01]
  | .lescRequested => acc = [0x01]
  | .lescKeysExchanged => acc = [0x0c, 0x01]
  | .lescConfirmSend => acc = [0x0c, 0x01]
  | .lescRandomExchanged => acc = [0x04, 0x0c, 0x01]
  | .userWait => ∃ n, acc = List.replicate n 0x0d ++ [0x04, 0x0c, 0x01]
  | .userSuccess => ∃ n, acc = List.replicate n 0x0d ++ [0x04, 0x0c, 0x01]
  | .userFailed => ∃ n, acc = List.replicate n 0x0d ++ [0x04, 0x0c, 0x01]
  | .completed => acc = [0x04, 0x03, 0x01] ∨ ∃ n, acc = List.replicate n 0x0d ++ [0x04, 0x0c, 0x01]

structure Inv (cfg : Cfg) (s : St) (g : Ghost) : Prop where
  rel    : Rel s.st g.acc
  key    : findKeyLocal s 0 0 = g.key
  enc    : s.encrypted = g.enc
  pend06 : s.pendEnc = true → g.armed = true ∧ g.sent06 = 0
  pend07 : s.pendCid = true → g.armed = true ∧ g.sent07 = 0
  le06   : g.sent06 ≤ 1
  le07   : g.sent07 ≤ 1
  conf   : s.st = .legacyConfirmed → g.lastConfirm = some s.mconfirm
  user   : (s.st = .userWait ∨ s.st = .userSuccess ∨ s.st = .userFailed) →
             cfg.input = .yesNo ∧ cfg.display = true
  nc     : s.lescAlgo = .numericComparison → cfg.display = true ∧ cfg.input ≠ .none

theorem inv_init (cfg : Cfg) : Inv cfg init Ghost.init := by
  constructor <;> simp [init, Ghost.init, Rel, findKeyLocal]

theorem headD_of_head? {p : Bytes} {k : UInt8} (h : p.head? = some k) : p.headD 0 = k := by
  cases p with
  | nil => simp at h
  | cons a t => simpa using h

theorem findKeyLocal_ne (s : St) (h : s.st ≠ .completed) : findKeyLocal s 0 0 = none := by
  simp [findKeyLocal, h]

theorem findKeyLocal_completed (s : St) (h : s.st = .completed) : findKeyLocal s 0 0 = some s.key := by
  simp [findKeyLocal, h]

theorem replicate_succ_append (n : Nat) (l : List UInt8) :
    (0x0d : UInt8) :: (List.replicate n 0x0d ++ l) = List.replicate (n + 1) 0x0d ++ l := by
  simp [List.replicate_succ]

theorem acceptedAt_confirmSend {C : Crypto} {v : Variant} {p : Bytes} {st st' : PState}
    (h : AcceptedAt C v st p st') (hs : st = .lescConfirmSend) :
    st' = .lescRandomExchanged ∨ st' = .userWait ∨ st' = .userSuccess := by
  cases h <;> simp_all

/-- preservation by `l2cap_input` -/
theorem inv_pdu (C : Crypto) (cfg : Cfg) (s : St) (g : Ghost) (p : Bytes) (h : Inv cfg s g) :
    Inv cfg (l2capInput C cfg s p).1
      (gstep C cfg s g (.pdu p) (.rsp (l2capInput C cfg s p).2.1 (l2capInput C cfg s p).2.2)) := by
  have hs := l2capInput_spec C cfg s p
  generalize l2capInput C cfg s p = r at hs ⊢
  cases hs with
  | failed hf hfr =>
    obtain ⟨⟨e, he⟩, hst⟩ := hf
    have hg : gstep C cfg s g (.pdu p) (.rsp r.2.1 r.2.2) = g.aborted := by
      simp only [gstep]; rw [show r.2.1 = [0x05, e] from he]; simp
    rw [hg]
    refine ⟨by rw [show r.1.st = .idle from hst]; simp [Rel, Ghost.aborted], ?_, ?_, ?_, ?_, h.le06, h.le07, ?_, ?_, ?_⟩
    · rw [findKeyLocal_ne _ (by rw [show r.1.st = .idle from hst]; simp)]; rfl
    · rw [hfr.enc]; exact h.enc
    · rw [hfr.pendEnc]; exact h.pend06
    · rw [hfr.pendCid]; exact h.pend07
    · intro hc; rw [show r.1.st = .idle from hst] at hc; cases hc
    · intro hc; rw [show r.1.st = .idle from hst] at hc; simp at hc
    · rw [hfr.algo]; exact h.nc
  | legacyRequest _ hp hst hst' hr hfr =>
    have hacc : g.acc = [] := by have := h.rel; rw [hst] at this; exact this
    have hg : gstep C cfg s g (.pdu p) (.rsp r.2.1 r.2.2) = { g with acc := [0x01], key := none } := by
      simp only [gstep, headD_of_head? hp, hacc]
      cases hrr : r.2.1 with
      | nil => rw [hrr] at hr; simp at hr
      | cons a t => rw [hrr] at hr; simp at hr; subst hr; simp
    rw [hg]
    refine ⟨by rw [show r.1.st = _ from hst']; simp [Rel], ?_, ?_, ?_, ?_, h.le06, h.le07, ?_, ?_, ?_⟩
    · rw [findKeyLocal_ne _ (by rw [show r.1.st = _ from hst']; simp)]
    · rw [hfr.enc]; exact h.enc
    · rw [hfr.pendEnc]; exact h.pend06
    · rw [hfr.pendCid]; exact h.pend07
    · intro hc; rw [show r.1.st = _ from hst'] at hc; cases hc
    · intro hc; rw [show r.1.st = _ from hst'] at hc; simp at hc
    · rw [hfr.algo]; exact h.nc
  | lescRequest _ hp hst hst' hr hnc h1 h2 h3 h4 h5 =>
    have hacc : g.acc = [] := by have := h.rel; rw [hst] at this; exact this
    have hg : gstep C cfg s g (.pdu p) (.rsp r.2.1 r.2.2) = { g with acc := [0x01], key := none } := by
      simp only [gstep, headD_of_head? hp, hacc]
      cases hrr : r.2.1 with
      | nil => rw [hrr] at hr; simp at hr
      | cons a t => rw [hrr] at hr; simp at hr; subst hr; simp
    rw [hg]
    refine ⟨by rw [show r.1.st = _ from hst']; simp [Rel], ?_, ?_, ?_, ?_, h.le06, h.le07, ?_, ?_, hnc⟩
    · rw [findKeyLocal_ne _ (by rw [show r.1.st = _ from hst']; simp)]
    · rw [h1]; exact h.enc
    · rw [h2]; exact h.pend06
    · rw [h3]; exact h.pend07
    · intro hc; rw [show r.1.st = _ from hst'] at hc; cases hc
    · intro hc; rw [show r.1.st = _ from hst'] at hc; simp at hc
  | confirm _ hp hst hst' hr hmc _ _ _ hfr =>
    have hacc : g.acc = [0x01] := by have := h.rel; rw [hst] at this; exact this
    have hg : gstep C cfg s g (.pdu p) (.rsp r.2.1 r.2.2) =
        { g with acc := [0x03, 0x01], key := none, lastConfirm := some (p.drop 1) } := by
      simp only [gstep, headD_of_head? hp, hacc]
      cases hrr : r.2.1 with
      | nil => rw [hrr] at hr; simp at hr
      | cons a t => rw [hrr] at hr; simp at hr; subst hr; simp
    rw [hg]
    refine ⟨by rw [show r.1.st = _ from hst']; simp [Rel], ?_, ?_, ?_, ?_, h.le06, h.le07, ?_, ?_, ?_⟩
    · rw [findKeyLocal_ne _ (by rw [show r.1.st = _ from hst']; simp)]
    · rw [hfr.enc]; exact h.enc
    · rw [hfr.pendEnc]; exact h.pend06
    · rw [hfr.pendCid]; exact h.pend07
    · intro _; simp [hmc]
    · intro hc; rw [show r.1.st = _ from hst'] at hc; simp at hc
    · rw [hfr.algo]; exact h.nc
  | legacyRandom _ hp hst hst' hr _ hkey henc halgo hb1 hb0 =>
    have hacc : g.acc = [0x03, 0x01] := by have := h.rel; rw [hst] at this; exact this
    have hg : gstep C cfg s g (.pdu p) (.rsp r.2.1 r.2.2) =
        { g with acc := [0x04, 0x03, 0x01], key := some (C.s1 (legacyTempKey s) s.srand (p.drop 1)),
                 armed := true, sent06 := 0, sent07 := 0 } := by
      simp only [gstep, headD_of_head? hp, hacc]
      rw [show r.2.1 = 0x04 :: s.srand from hr]; simp
    rw [hg]
    refine ⟨by rw [show r.1.st = _ from hst']; simp [Rel], ?_, ?_, ?_, ?_, by simp, by simp, ?_, ?_, ?_⟩
    · rw [findKeyLocal_completed _ hst', hkey]
    · rw [henc]; exact h.enc
    · intro _; simp
    · intro _; simp
    · intro hc; rw [show r.1.st = _ from hst'] at hc; cases hc
    · intro hc; rw [show r.1.st = _ from hst'] at hc; simp at hc
    · rw [halgo]; exact h.nc
  | publicKey _ hp hst hst' hr _ hfr =>
    have hacc : g.acc = [0x01] := by have := h.rel; rw [hst] at this; exact this
    have hg : gstep C cfg s g (.pdu p) (.rsp r.2.1 r.2.2) = { g with acc := [0x0c, 0x01], key := none } := by
      simp only [gstep, headD_of_head? hp, hacc]
      rw [show r.2.1 = 0x0c :: r.1.localPub from hr]; simp
    rw [hg]
    refine ⟨by rw [show r.1.st = _ from hst']; simp [Rel], ?_, ?_, ?_, ?_, h.le06, h.le07, ?_, ?_, ?_⟩
    · rw [findKeyLocal_ne _ (by rw [show r.1.st = _ from hst']; simp)]
    · rw [hfr.enc]; exact h.enc
    · rw [hfr.pendEnc]; exact h.pend06
    · rw [hfr.pendCid]; exact h.pend07
    · intro hc; rw [show r.1.st = _ from hst'] at hc; cases hc
    · intro hc; rw [show r.1.st = _ from hst'] at hc; simp at hc
    · rw [hfr.algo]; exact h.nc
  | lescRandom hacc' hp hst hr _ huser hfr =>
    have hacc : g.acc = [0x0c, 0x01] := by have := h.rel; rw [hst] at this; exact this
    have hg : gstep C cfg s g (.pdu p) (.rsp r.2.1 r.2.2) = { g with acc := [0x04, 0x0c, 0x01], key := none } := by
      simp only [gstep, headD_of_head? hp, hacc]
      rw [show r.2.1 = 0x04 :: r.1.localNonce from hr]; simp
    rw [hg]
    have hpost : r.1.st = .lescRandomExchanged ∨ r.1.st = .userWait ∨ r.1.st = .userSuccess := by
      exact acceptedAt_confirmSend hacc' hst
    refine ⟨?_, ?_, ?_, ?_, ?_, h.le06, h.le07, ?_, ?_, ?_⟩
    · rcases hpost with h1 | h1 | h1 <;> rw [show r.1.st = _ from h1] <;> simp [Rel] <;> exact ⟨0, rfl⟩
    · rw [findKeyLocal_ne _ (by rcases hpost with h1 | h1 | h1 <;> rw [show r.1.st = _ from h1] <;> simp)]
    · rw [hfr.enc]; exact h.enc
    · rw [hfr.pendEnc]; exact h.pend06
    · rw [hfr.pendCid]; exact h.pend07
    · intro hc; rcases hpost with h1 | h1 | h1 <;> rw [show r.1.st = _ from h1] at hc <;> cases hc
    · intro hc
      have hne : r.1.st ≠ .lescRandomExchanged := by
        rcases hc with h1 | h1 | h1 <;> rw [show r.1.st = _ from h1] <;> simp
      obtain ⟨hn, hi⟩ := huser hne
      exact ⟨hi, (h.nc hn).1⟩
    · rw [hfr.algo]; exact h.nc
  | dhkeyCheck _ hp hst hst' hr _ hkey henc h2 h3 _ halgo _ =>
    have hacc : ∃ n, g.acc = List.replicate n 0x0d ++ [0x04, 0x0c, 0x01] := by
      have := h.rel
      rcases hst with hst | hst <;> rw [hst] at this
      · exact ⟨0, this⟩
      · exact this
    obtain ⟨n, hacc⟩ := hacc
    have hg : gstep C cfg s g (.pdu p) (.rsp r.2.1 r.2.2) =
        { g with acc := 0x0d :: g.acc, key := some (lescKeys C cfg s).2 } := by
      simp only [gstep, headD_of_head? hp]
      rw [show r.2.1 = 0x0d :: lescEb C cfg s from hr]; simp
    rw [hg]
    refine ⟨?_, ?_, ?_, ?_, ?_, h.le06, h.le07, ?_, ?_, ?_⟩
    · rw [show r.1.st = _ from hst']
      simp only [Rel]
      right
      exact ⟨n + 1, by rw [hacc]; exact replicate_succ_append n _⟩
    · rw [findKeyLocal_completed _ hst', hkey]
    · rw [henc]; exact h.enc
    · rw [h2]; exact h.pend06
    · rw [h3]; exact h.pend07
    · intro hc; rw [show r.1.st = _ from hst'] at hc; cases hc
    · intro hc; rw [show r.1.st = _ from hst'] at hc; simp at hc
    · rw [halgo]; exact h.nc
  | dhkeyDeferred _ hp hst hsame hr =>
    have hacc : ∃ n, g.acc = List.replicate n 0x0d ++ [0x04, 0x0c, 0x01] := by
      have := h.rel; rw [hst] at this; exact this
    obtain ⟨n, hacc⟩ := hacc
    have hg : gstep C cfg s g (.pdu p) (.rsp r.2.1 r.2.2) = { g with acc := 0x0d :: g.acc, key := none } := by
      simp only [gstep, headD_of_head? hp]
      rw [show r.2.1 = [] from hr]; simp
    rw [hg, show r.1 = s from hsame]
    refine ⟨?_, ?_, h.enc, h.pend06, h.pend07, h.le06, h.le07, ?_, h.user, h.nc⟩
    · rw [hst]
      exact ⟨n + 1, by rw [hacc]; exact replicate_succ_append n _⟩
    · rw [findKeyLocal_ne _ (by rw [hst]; simp)]
    · intro hc; rw [hst] at hc; cases hc

/-- preservation by `l2cap_output` -/
theorem inv_out (C : Crypto) (cfg : Cfg) (s : St) (g : Ghost) (h : Inv cfg s g) :
    Inv cfg (l2capOutput C cfg s).1
      (gstep C cfg s g .out (.rsp (l2capOutput C cfg s).2.1 (l2capOutput C cfg s).2.2)) := by
  have hs := l2capOutput_spec C cfg s
  generalize l2capOutput C cfg s = r at hs ⊢
  cases hs with
  | nothing hsame hr =>
    have hg : gstep C cfg s g .out (.rsp r.2.1 r.2.2) = g := by
      simp only [gstep]; rw [show r.2.1 = [] from hr]; simp
    rw [hg, show r.1 = s from hsame]; exact h
  | confirmSent _ hst hst' hr hfr =>
    have hg : gstep C cfg s g .out (.rsp r.2.1 r.2.2) = g := by
      simp only [gstep]
      cases hrr : r.2.1 with
      | nil => rw [hrr] at hr; simp at hr
      | cons a t => rw [hrr] at hr; simp at hr; subst hr; simp
    rw [hg]
    have hrel := h.rel
    rw [hst] at hrel
    refine ⟨by rw [show r.1.st = _ from hst']; exact hrel, ?_, ?_, ?_, ?_, h.le06, h.le07, ?_, ?_, ?_⟩
    · rw [findKeyLocal_ne _ (by rw [show r.1.st = _ from hst']; simp), ← h.key,
        findKeyLocal_ne _ (by rw [hst]; simp)]
    · rw [hfr.enc]; exact h.enc
    · rw [hfr.pendEnc]; exact h.pend06
    · rw [hfr.pendCid]; exact h.pend07
    · intro hc; rw [show r.1.st = _ from hst'] at hc; cases hc
    · intro hc; rw [show r.1.st = _ from hst'] at hc; simp at hc
    · rw [hfr.algo]; exact h.nc
  | dhkeySent _ hst hst' hr hkey henc h2 h3 _ halgo =>
    have hg : gstep C cfg s g .out (.rsp r.2.1 r.2.2) = { g with key := some (lescKeys C cfg s).2 } := by
      simp only [gstep]; rw [show r.2.1 = 0x0d :: lescEb C cfg s from hr]; simp
    rw [hg]
    have hrel := h.rel
    rw [hst] at hrel
    refine ⟨by rw [show r.1.st = _ from hst']; exact Or.inr hrel, ?_, ?_, ?_, ?_, h.le06, h.le07, ?_, ?_, ?_⟩
    · rw [findKeyLocal_completed _ hst', hkey]
    · rw [henc]; exact h.enc
    · rw [h2]; exact h.pend06
    · rw [h3]; exact h.pend07
    · intro hc; rw [show r.1.st = _ from hst'] at hc; cases hc
    · intro hc; rw [show r.1.st = _ from hst'] at hc; simp at hc
    · rw [halgo]; exact h.nc
  | userFailed _ _ hf hfr =>
    obtain ⟨⟨e, he⟩, hst⟩ := hf
    have hg : gstep C cfg s g .out (.rsp r.2.1 r.2.2) = g.aborted := by
      simp only [gstep]; rw [show r.2.1 = [0x05, e] from he]; simp
    rw [hg]
    refine ⟨by rw [show r.1.st = .idle from hst]; simp [Rel, Ghost.aborted], ?_, ?_, ?_, ?_, h.le06, h.le07, ?_, ?_, ?_⟩
    · rw [findKeyLocal_ne _ (by rw [show r.1.st = .idle from hst]; simp)]; rfl
    · rw [hfr.enc]; exact h.enc
    · rw [hfr.pendEnc]; exact h.pend06
    · rw [hfr.pendCid]; exact h.pend07
    · intro hc; rw [show r.1.st = .idle from hst] at hc; cases hc
    · intro hc; rw [show r.1.st = .idle from hst] at hc; simp at hc
    · rw [hfr.algo]; exact h.nc
  | encInfo _ _ _ hpe hr hpost =>
    have hg : gstep C cfg s g .out (.rsp r.2.1 r.2.2) = { g with sent06 := g.sent06 + 1 } := by
      simp only [gstep]; rw [show r.2.1 = 0x06 :: s.pendKey.key from hr]; simp
    rw [hg, show r.1 = _ from hpost]
    obtain ⟨ha, h0⟩ := h.pend06 hpe
    refine ⟨h.rel, h.key, h.enc, ?_, h.pend07, ?_, h.le07, h.conf, h.user, h.nc⟩
    · intro hc; simp at hc
    · simp [h0]
  | centralId _ _ _ _ hpc hr hpost =>
    have hg : gstep C cfg s g .out (.rsp r.2.1 r.2.2) = { g with sent07 := g.sent07 + 1 } := by
      simp only [gstep]; rw [show r.2.1 = _ from hr]; simp
    rw [hg, show r.1 = _ from hpost]
    obtain ⟨ha, h0⟩ := h.pend07 hpc
    refine ⟨h.rel, h.key, h.enc, h.pend06, ?_, h.le06, ?_, h.conf, h.user, h.nc⟩
    · intro hc; simp at hc
    · simp [h0]

/-- **the invariant is preserved by every operation** -/
theorem inv_step (C : Crypto) (cfg : Cfg) (s : St) (g : Ghost) (op : Op) (h : Inv cfg s g) :
    Inv cfg (step C cfg s op).1 (gstep C cfg s g op (step C cfg s op).2) := by
  cases op with
  | pdu p => exact inv_pdu C cfg s g p h
  | out => exact inv_out C cfg s g h
  | enc b => exact ⟨h.rel, h.key, rfl, h.pend06, h.pend07, h.le06, h.le07, h.conf, h.user, h.nc⟩
  | user m => exact ⟨h.rel, h.key, h.enc, h.pend06, h.pend07, h.le06, h.le07, h.conf, h.user, h.nc⟩
  | kbd n => exact ⟨h.rel, h.key, h.enc, h.pend06, h.pend07, h.le06, h.le07, h.conf, h.user, h.nc⟩
  | oob a d => exact ⟨h.rel, h.key, h.enc, h.pend06, h.pend07, h.le06, h.le07, h.conf, h.user, h.nc⟩
  | findKey e r => exact h
  | conn =>
    constructor <;> simp [step, gstep, newConnection, Ghost.init, Rel, findKeyLocal]
  | answer b =>
    simp only [step, answer]
    split
    · rename_i hw
      have hrel := h.rel
      rw [hw] at hrel
      have hu := h.user (Or.inl hw)
      have hk : g.key = none := by rw [← h.key, findKeyLocal_ne _ (by rw [hw]; simp)]
      cases b
      · refine ⟨hrel, ?_, h.enc, h.pend06, h.pend07, h.le06, h.le07, ?_, fun _ => hu, h.nc⟩
        · simp [gstep, findKeyLocal, hk]
        · intro hc; simp at hc
      · refine ⟨hrel, ?_, h.enc, h.pend06, h.pend07, h.le06, h.le07, ?_, fun _ => hu, h.nc⟩
        · simp [gstep, findKeyLocal, hk]
        · intro hc; simp at hc
    · exact h

/-! ### histories -/

theorem runG_inv (C : Crypto) (cfg : Cfg) (ops : List Op) :
    ∀ (s : St) (g : Ghost), Inv cfg s g →
      Inv cfg (runG C cfg s g ops).1 (runG C cfg s g ops).2.1 ∧
      ∀ e ∈ (runG C cfg s g ops).2.2, Inv cfg e.1 e.2.1 ∧ e.2.2.2 = (step C cfg e.1 e.2.2.1).2 := by
  induction ops with
  | nil => intro s g h; exact ⟨h, by simp [runG]⟩
  | cons op ops ih =>
    intro s g h
    have h' := inv_step C cfg s g op h
    obtain ⟨i1, i2⟩ := ih _ _ h'
    refine ⟨i1, ?_⟩
    intro e he
    simp only [runG, List.mem_cons] at he
    rcases he with he | he
    · subst he; exact ⟨h, rfl⟩
    · exact i2 e he

/-- the ghost run is the plain run plus bookkeeping -/
theorem runG_state (C : Crypto) (cfg : Cfg) (ops : List Op) :
    ∀ (s : St) (g : Ghost), (runG C cfg s g ops).1 = (run C cfg s ops).1 ∧
      (runG C cfg s g ops).2.2.map (fun e => e.2.2.2) = (run C cfg s ops).2 := by
  induction ops with
  | nil => intro s g; exact ⟨rfl, rfl⟩
  | cons op ops ih =>
    intro s g
    obtain ⟨i1, i2⟩ := ih (step C cfg s op).1 (gstep C cfg s g op (step C cfg s op).2)
    exact ⟨i1, by simp only [runG, run, List.map_cons, i2]⟩

end BluetoeModel.Sm
