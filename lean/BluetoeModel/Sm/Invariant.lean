import BluetoeModel.Sm.Lemmas
/-!
  The invariant that ties the model state to the ghost computed from the observable history,
  and its preservation by every operation.
-/
namespace BluetoeModel.Sm

/-- pairing state versus the opcodes accepted so far in the running attempt (most recent first) -/
def Rel (st : PState) (acc : List UInt8) : Prop :=
  match st with
  | .idle => acc = []
  | .legacyRequested => acc = [0x01]
  | .legacyConfirmed => acc = [0x03, 0x01]
  | .lescRequested => acc = [0x01]
  | .lescKeysExchanged => acc = [0x0c, 0x01]
  | .lescConfirmSend => acc = [0x0c, 0x01]
  | .lescRandomExchanged => acc = [0x04, 0x0c, 0x01]
  | .userWait => acc = [0x04, 0x0c, 0x01]
  | .userWaitVerified => ∃ n, acc = List.replicate n 0x0d ++ [0x04, 0x0c, 0x01]
  | .userSuccess => ∃ n, acc = List.replicate n 0x0d ++ [0x04, 0x0c, 0x01]
  | .userFailed => ∃ n, acc = List.replicate n 0x0d ++ [0x04, 0x0c, 0x01]
  | .completed => acc = [0x04, 0x03, 0x01] ∨ ∃ n, acc = List.replicate n 0x0d ++ [0x04, 0x0c, 0x01]

/-- pairing states in which the nonces of this attempt are exchanged -/
def PState.afterRandom : PState → Bool
  | .lescRandomExchanged | .userWait | .userWaitVerified | .userSuccess | .userFailed => true
  | _ => false

/-- pairing states in which the public keys of this attempt are exchanged -/
def PState.afterKeys : PState → Bool
  | .lescKeysExchanged | .lescConfirmSend => true
  | st => st.afterRandom

structure Inv (C : Crypto) (cfg : Cfg) (s : St) (g : Ghost) : Prop where
  rel    : Rel s.st g.acc
  key    : findKeyLocal s 0 0 = g.key
  enc    : s.encrypted = g.enc
  pend06 : s.pendEnc = true → g.armed = true ∧ g.sent06 = 0
  pend07 : s.pendCid = true → g.armed = true ∧ g.sent07 = 0
  le06   : g.sent06 ≤ 1
  le07   : g.sent07 ≤ 1
  conf   : s.st = .legacyConfirmed → g.lastConfirm = some s.mconfirm
  user   : (s.st = .userWait ∨ s.st = .userSuccess ∨ s.st = .userFailed ∨ s.st = .userWaitVerified) →
             cfg.input = .yesNo ∧ cfg.display = true
  nc     : s.lescAlgo = .numericComparison → cfg.display = true ∧ cfg.input ≠ .none
  /-- the stored key material is the one exchanged in this attempt (ghost: payloads of the PDUs) -/
  keys   : s.st.afterKeys = true → s.remotePub = g.pka ∧ s.localPriv = g.kp.2 ∧ s.localPub = g.kp.1
  nonces : s.st.afterRandom = true → s.remoteNonce = g.na ∧ s.localNonce = g.nb
  /-- Eb is pending only after a DHKey check equal to `Ea` was accepted in this attempt -/
  dh     : (s.st = .userWaitVerified ∨ s.st = .userSuccess) → g.lastDhkey = some (lescEa C cfg s)

/-- the LTK computed from the stored values is the LTK of the exchanged values -/
theorem Inv.ltk {C : Crypto} {cfg : Cfg} {s : St} {g : Ghost} (h : Inv C cfg s g)
    (hst : s.st.afterRandom = true) : (lescKeys C cfg s).2 = g.ltk C cfg := by
  have hk : s.st.afterKeys = true := by
    revert hst; cases s.st <;> simp [PState.afterKeys, PState.afterRandom]
  obtain ⟨k1, k2, _⟩ := h.keys hk
  obtain ⟨n1, n2⟩ := h.nonces hst
  simp only [lescKeys, Ghost.ltk, k1, k2, n1, n2]

theorem inv_init (C : Crypto) (cfg : Cfg) : Inv C cfg init Ghost.init := by
  constructor <;> simp [init, Ghost.init, Rel, findKeyLocal, PState.afterKeys, PState.afterRandom]

theorem headD_of_head? {p : Bytes} {k : UInt8} (h : p.head? = some k) : p.headD 0 = k := by
  cases p with
  | nil => simp at h
  | cons a t => simpa using h

theorem findKeyLocal_ne (s : St) (h : s.st ≠ .completed) : findKeyLocal s 0 0 = none := by
  simp [findKeyLocal, h]

theorem findKeyLocal_completed (s : St) (h : s.st = .completed) : findKeyLocal s 0 0 = some s.key := by
  simp [findKeyLocal, h]

theorem replicate_succ_append (n : Nat) (l : List UInt8) :
    (0x0d : UInt8) :: (List.replicate n 0x0d ++ l) = List.replicate (n + 1) 0x0d ++ l := by
  simp [List.replicate_succ]

theorem acceptedAt_confirmSend {C : Crypto} {v : Variant} {p : Bytes} {st st' : PState}
    (h : AcceptedAt C v st p st') (hs : st = .lescConfirmSend) :
    st' = .lescRandomExchanged ∨ st' = .userWait := by
  cases h <;> simp_all

/-- closes an invariant clause whose premise names a pairing state other than the actual one -/
macro "vac" h:term : tactic =>
  `(tactic| (intro hc; rw [show _ = _ from $h] at hc; simp [PState.afterKeys, PState.afterRandom] at hc))

/-- preservation by `l2cap_input` -/
theorem inv_pdu (C : Crypto) (cfg : Cfg) (s : St) (g : Ghost) (p : Bytes) (h : Inv C cfg s g) :
    Inv C cfg (l2capInput C cfg s p).1
      (gstep C cfg s g (.pdu p) (.rsp (l2capInput C cfg s p).2.1 (l2capInput C cfg s p).2.2)) := by
  have hs := l2capInput_spec C cfg s p
  generalize l2capInput C cfg s p = r at hs ⊢
  cases hs with
  | failed hf hfr =>
    obtain ⟨⟨e, he⟩, hst⟩ := hf
    have hg : gstep C cfg s g (.pdu p) (.rsp r.2.1 r.2.2) = g.aborted := by
      simp only [gstep]; rw [show r.2.1 = [0x05, e] from he]; simp
    rw [hg]
    refine ⟨by rw [show r.1.st = .idle from hst]; simp [Rel, Ghost.aborted], ?_, ?_, ?_, ?_, h.le06, h.le07, ?_, ?_, ?_,
      by vac hst, by vac hst, by vac hst⟩
    · rw [findKeyLocal_ne _ (by rw [show r.1.st = .idle from hst]; simp)]; rfl
    · rw [hfr.enc]; exact h.enc
    · rw [hfr.pendEnc]; exact h.pend06
    · rw [hfr.pendCid]; exact h.pend07
    · intro hc; rw [show r.1.st = .idle from hst] at hc; cases hc
    · intro hc; rw [show r.1.st = .idle from hst] at hc; simp at hc
    · rw [hfr.algo]; exact h.nc
  | legacyRequest _ hp hst hst' hr hfr =>
    have hacc : g.acc = [] := by have := h.rel; rw [hst] at this; exact this
    have hg : gstep C cfg s g (.pdu p) (.rsp r.2.1 r.2.2) = { g with acc := [0x01], key := none } := by
      simp only [gstep, headD_of_head? hp, hacc]
      cases hrr : r.2.1 with
      | nil => rw [hrr] at hr; simp at hr
      | cons a t => rw [hrr] at hr; simp at hr; subst hr; simp
    rw [hg]
    refine ⟨by rw [show r.1.st = _ from hst']; simp [Rel], ?_, ?_, ?_, ?_, h.le06, h.le07, ?_, ?_, ?_,
      by vac hst', by vac hst', by vac hst'⟩
    · rw [findKeyLocal_ne _ (by rw [show r.1.st = _ from hst']; simp)]
    · rw [hfr.enc]; exact h.enc
    · rw [hfr.pendEnc]; exact h.pend06
    · rw [hfr.pendCid]; exact h.pend07
    · intro hc; rw [show r.1.st = _ from hst'] at hc; cases hc
    · intro hc; rw [show r.1.st = _ from hst'] at hc; simp at hc
    · rw [hfr.algo]; exact h.nc
  | lescRequest _ hp hst hst' hr hnc h1 h2 h3 h4 h5 =>
    have hacc : g.acc = [] := by have := h.rel; rw [hst] at this; exact this
    have hg : gstep C cfg s g (.pdu p) (.rsp r.2.1 r.2.2) = { g with acc := [0x01], key := none } := by
      simp only [gstep, headD_of_head? hp, hacc]
      cases hrr : r.2.1 with
      | nil => rw [hrr] at hr; simp at hr
      | cons a t => rw [hrr] at hr; simp at hr; subst hr; simp
    rw [hg]
    refine ⟨by rw [show r.1.st = _ from hst']; simp [Rel], ?_, ?_, ?_, ?_, h.le06, h.le07, ?_, ?_, hnc,
      by vac hst', by vac hst', by vac hst'⟩
    · rw [findKeyLocal_ne _ (by rw [show r.1.st = _ from hst']; simp)]
    · rw [h1]; exact h.enc
    · rw [h2]; exact h.pend06
    · rw [h3]; exact h.pend07
    · intro hc; rw [show r.1.st = _ from hst'] at hc; cases hc
    · intro hc; rw [show r.1.st = _ from hst'] at hc; simp at hc
  | confirm _ hp hst hst' hr hmc _ _ _ hfr =>
    have hacc : g.acc = [0x01] := by have := h.rel; rw [hst] at this; exact this
    have hg : gstep C cfg s g (.pdu p) (.rsp r.2.1 r.2.2) =
        { g with acc := [0x03, 0x01], key := none, lastConfirm := some (p.drop 1) } := by
      simp only [gstep, headD_of_head? hp, hacc]
      cases hrr : r.2.1 with
      | nil => rw [hrr] at hr; simp at hr
      | cons a t => rw [hrr] at hr; simp at hr; subst hr; simp
    rw [hg]
    refine ⟨by rw [show r.1.st = _ from hst']; simp [Rel], ?_, ?_, ?_, ?_, h.le06, h.le07, ?_, ?_, ?_,
      by vac hst', by vac hst', by vac hst'⟩
    · rw [findKeyLocal_ne _ (by rw [show r.1.st = _ from hst']; simp)]
    · rw [hfr.enc]; exact h.enc
    · rw [hfr.pendEnc]; exact h.pend06
    · rw [hfr.pendCid]; exact h.pend07
    · intro _; simp [hmc]
    · intro hc; rw [show r.1.st = _ from hst'] at hc; simp at hc
    · rw [hfr.algo]; exact h.nc
  | legacyRandom _ hp hst hst' hr _ hkey henc halgo hb1 hb0 =>
    have hacc : g.acc = [0x03, 0x01] := by have := h.rel; rw [hst] at this; exact this
    have hg : gstep C cfg s g (.pdu p) (.rsp r.2.1 r.2.2) =
        { g with acc := [0x04, 0x03, 0x01], key := some (C.s1 (legacyTempKey s) s.srand (p.drop 1)),
                 na := p.drop 1, nb := s.srand, armed := true, sent06 := 0, sent07 := 0 } := by
      simp only [gstep, headD_of_head? hp, hacc]
      rw [show r.2.1 = 0x04 :: s.srand from hr]; simp
    rw [hg]
    refine ⟨by rw [show r.1.st = _ from hst']; simp [Rel], ?_, ?_, ?_, ?_, by simp, by simp, ?_, ?_, ?_,
      by vac hst', by vac hst', by vac hst'⟩
    · rw [findKeyLocal_completed _ hst', hkey]
    · rw [henc]; exact h.enc
    · intro _; simp
    · intro _; simp
    · intro hc; rw [show r.1.st = _ from hst'] at hc; cases hc
    · intro hc; rw [show r.1.st = _ from hst'] at hc; simp at hc
    · rw [halgo]; exact h.nc
  | publicKey _ hp hst hst' hr hrp hpub hpriv hfr =>
    have hacc : g.acc = [0x01] := by have := h.rel; rw [hst] at this; exact this
    have hg : gstep C cfg s g (.pdu p) (.rsp r.2.1 r.2.2) =
        { g with acc := [0x0c, 0x01], key := none, pka := p.drop 1, kp := C.keys s.rng } := by
      simp only [gstep, headD_of_head? hp, hacc]
      rw [show r.2.1 = 0x0c :: r.1.localPub from hr]; simp
    rw [hg]
    refine ⟨by rw [show r.1.st = _ from hst']; simp [Rel], ?_, ?_, ?_, ?_, h.le06, h.le07, ?_, ?_, ?_,
      fun _ => ⟨hrp, hpriv, hpub⟩, by vac hst', by vac hst'⟩
    · rw [findKeyLocal_ne _ (by rw [show r.1.st = _ from hst']; simp)]
    · rw [hfr.enc]; exact h.enc
    · rw [hfr.pendEnc]; exact h.pend06
    · rw [hfr.pendCid]; exact h.pend07
    · intro hc; rw [show r.1.st = _ from hst'] at hc; cases hc
    · intro hc; rw [show r.1.st = _ from hst'] at hc; simp at hc
    · rw [hfr.algo]; exact h.nc
  | lescRandom hacc' hp hst hr hrn huser hkeep hfr =>
    have hacc : g.acc = [0x0c, 0x01] := by have := h.rel; rw [hst] at this; exact this
    have hg : gstep C cfg s g (.pdu p) (.rsp r.2.1 r.2.2) =
        { g with acc := [0x04, 0x0c, 0x01], key := none, na := p.drop 1, nb := r.1.localNonce } := by
      simp only [gstep, headD_of_head? hp, hacc]
      rw [show r.2.1 = 0x04 :: r.1.localNonce from hr]; simp
    rw [hg]
    have hpost : r.1.st = .lescRandomExchanged ∨ r.1.st = .userWait := by
      exact acceptedAt_confirmSend hacc' hst
    obtain ⟨k1, k2, k3⟩ := h.keys (by rw [hst]; rfl)
    refine ⟨?_, ?_, ?_, ?_, ?_, h.le06, h.le07, ?_, ?_, ?_, ?_, fun _ => ⟨hrn, rfl⟩, ?_⟩
    · rcases hpost with h1 | h1 <;> rw [show r.1.st = _ from h1] <;> simp [Rel]
    · rw [findKeyLocal_ne _ (by rcases hpost with h1 | h1 <;> rw [show r.1.st = _ from h1] <;> simp)]
    · rw [hfr.enc]; exact h.enc
    · rw [hfr.pendEnc]; exact h.pend06
    · rw [hfr.pendCid]; exact h.pend07
    · intro hc; rcases hpost with h1 | h1 <;> rw [show r.1.st = _ from h1] at hc <;> cases hc
    · intro hc
      have hne : r.1.st ≠ .lescRandomExchanged := by
        rcases hc with h1 | h1 | h1 | h1 <;> rw [show r.1.st = _ from h1] <;> simp
      obtain ⟨hn, hi⟩ := huser hne
      exact ⟨hi, (h.nc hn).1⟩
    · rw [hfr.algo]; exact h.nc
    · intro _
      exact ⟨by rw [hkeep.remotePub]; exact k1, by rw [hkeep.localPriv]; exact k2, by rw [hkeep.localPub]; exact k3⟩
    · intro hc; rcases hpost with h1 | h1 <;> rw [show r.1.st = _ from h1] at hc <;> simp at hc
  | dhkeyCheck _ hp hst hst' hr _ hkey henc h2 h3 _ halgo _ =>
    have hacc : ∃ n, g.acc = List.replicate n 0x0d ++ [0x04, 0x0c, 0x01] := by
      have := h.rel
      rcases hst with hst | hst <;> rw [hst] at this
      · exact ⟨0, this⟩
      · exact this
    obtain ⟨n, hacc⟩ := hacc
    have hltk : (lescKeys C cfg s).2 = g.ltk C cfg :=
      h.ltk (by rcases hst with hst | hst <;> rw [hst] <;> rfl)
    have hg : gstep C cfg s g (.pdu p) (.rsp r.2.1 r.2.2) =
        { g with acc := 0x0d :: g.acc, key := some (g.ltk C cfg), lastDhkey := some (p.drop 1) } := by
      simp only [gstep, headD_of_head? hp]
      rw [show r.2.1 = 0x0d :: lescEb C cfg s from hr]; simp
    rw [hg]
    refine ⟨?_, ?_, ?_, ?_, ?_, h.le06, h.le07, ?_, ?_, ?_, by vac hst', by vac hst', by vac hst'⟩
    · rw [show r.1.st = _ from hst']
      simp only [Rel]
      right
      exact ⟨n + 1, by rw [hacc]; exact replicate_succ_append n _⟩
    · rw [findKeyLocal_completed _ hst', hkey, hltk]
    · rw [henc]; exact h.enc
    · rw [h2]; exact h.pend06
    · rw [h3]; exact h.pend07
    · intro hc; rw [show r.1.st = _ from hst'] at hc; cases hc
    · intro hc; rw [show r.1.st = _ from hst'] at hc; simp at hc
    · rw [halgo]; exact h.nc
  | dhkeyVerified _ hp hst hea hpost hr =>
    have hacc : g.acc = [0x04, 0x0c, 0x01] := by
      have := h.rel; rw [hst] at this; exact this
    have hg : gstep C cfg s g (.pdu p) (.rsp r.2.1 r.2.2) =
        { g with acc := 0x0d :: g.acc, key := none, lastDhkey := some (p.drop 1) } := by
      simp only [gstep, headD_of_head? hp]
      rw [show r.2.1 = [] from hr]; simp
    rw [hg, show r.1 = _ from hpost]
    refine ⟨?_, ?_, h.enc, h.pend06, h.pend07, h.le06, h.le07, ?_, fun _ => h.user (Or.inl hst), h.nc,
      fun _ => h.keys (by rw [hst]; rfl), fun _ => h.nonces (by rw [hst]; rfl), ?_⟩
    · exact ⟨1, by rw [hacc]; rfl⟩
    · simp [findKeyLocal]
    · intro hc; cases hc
    · intro _
      show some (p.drop 1) = some (lescEa C cfg s)
      rw [hea]

/-- preservation by `l2cap_output` -/
theorem inv_out (C : Crypto) (cfg : Cfg) (s : St) (g : Ghost) (h : Inv C cfg s g) :
    Inv C cfg (l2capOutput C cfg s).1
      (gstep C cfg s g .out (.rsp (l2capOutput C cfg s).2.1 (l2capOutput C cfg s).2.2)) := by
  have hs := l2capOutput_spec C cfg s
  generalize l2capOutput C cfg s = r at hs ⊢
  cases hs with
  | nothing hsame hr =>
    have hg : gstep C cfg s g .out (.rsp r.2.1 r.2.2) = g := by
      simp only [gstep]; rw [show r.2.1 = [] from hr]; simp
    rw [hg, show r.1 = s from hsame]; exact h
  | confirmSent _ hst hpost hr =>
    have hg : gstep C cfg s g .out (.rsp r.2.1 r.2.2) = g := by
      simp only [gstep]
      cases hrr : r.2.1 with
      | nil => rw [hrr] at hr; simp at hr
      | cons a t => rw [hrr] at hr; simp at hr; subst hr; simp
    rw [hg, show r.1 = _ from hpost]
    have hrel := h.rel
    rw [hst] at hrel
    refine ⟨hrel, ?_, h.enc, h.pend06, h.pend07, h.le06, h.le07, ?_, ?_, h.nc,
      fun _ => h.keys (by rw [hst]; rfl), ?_, ?_⟩
    · rw [← h.key]; simp [findKeyLocal, hst]
    · intro hc; cases hc
    · intro hc; simp at hc
    · intro hc; simp [PState.afterRandom] at hc
    · intro hc; simp at hc
  | dhkeySent _ hst hst' hr hkey henc h2 h3 _ halgo =>
    have hltk : (lescKeys C cfg s).2 = g.ltk C cfg := h.ltk (by rw [hst]; rfl)
    have hg : gstep C cfg s g .out (.rsp r.2.1 r.2.2) = { g with key := some (g.ltk C cfg) } := by
      simp only [gstep]; rw [show r.2.1 = 0x0d :: lescEb C cfg s from hr]; simp
    rw [hg]
    have hrel := h.rel
    rw [hst] at hrel
    refine ⟨by rw [show r.1.st = _ from hst']; exact Or.inr hrel, ?_, ?_, ?_, ?_, h.le06, h.le07, ?_, ?_, ?_,
      by vac hst', by vac hst', by vac hst'⟩
    · rw [findKeyLocal_completed _ hst', hkey, hltk]
    · rw [henc]; exact h.enc
    · rw [h2]; exact h.pend06
    · rw [h3]; exact h.pend07
    · intro hc; rw [show r.1.st = _ from hst'] at hc; cases hc
    · intro hc; rw [show r.1.st = _ from hst'] at hc; simp at hc
    · rw [halgo]; exact h.nc
  | userFailed _ _ hf hfr =>
    obtain ⟨⟨e, he⟩, hst⟩ := hf
    have hg : gstep C cfg s g .out (.rsp r.2.1 r.2.2) = g.aborted := by
      simp only [gstep]; rw [show r.2.1 = [0x05, e] from he]; simp
    rw [hg]
    refine ⟨by rw [show r.1.st = .idle from hst]; simp [Rel, Ghost.aborted], ?_, ?_, ?_, ?_, h.le06, h.le07, ?_, ?_, ?_,
      by vac hst, by vac hst, by vac hst⟩
    · rw [findKeyLocal_ne _ (by rw [show r.1.st = .idle from hst]; simp)]; rfl
    · rw [hfr.enc]; exact h.enc
    · rw [hfr.pendEnc]; exact h.pend06
    · rw [hfr.pendCid]; exact h.pend07
    · intro hc; rw [show r.1.st = .idle from hst] at hc; cases hc
    · intro hc; rw [show r.1.st = .idle from hst] at hc; simp at hc
    · rw [hfr.algo]; exact h.nc
  | encInfo _ _ _ hpe hr hpost =>
    have hg : gstep C cfg s g .out (.rsp r.2.1 r.2.2) = { g with sent06 := g.sent06 + 1 } := by
      simp only [gstep]; rw [show r.2.1 = 0x06 :: s.pendKey.key from hr]; simp
    rw [hg, show r.1 = _ from hpost]
    obtain ⟨ha, h0⟩ := h.pend06 hpe
    refine ⟨h.rel, h.key, h.enc, ?_, h.pend07, ?_, h.le07, h.conf, h.user, h.nc, h.keys, h.nonces, h.dh⟩
    · intro hc; simp at hc
    · simp [h0]
  | centralId _ _ _ _ hpc hr hpost =>
    have hg : gstep C cfg s g .out (.rsp r.2.1 r.2.2) = { g with sent07 := g.sent07 + 1 } := by
      simp only [gstep]; rw [show r.2.1 = _ from hr]; simp
    rw [hg, show r.1 = _ from hpost]
    obtain ⟨ha, h0⟩ := h.pend07 hpc
    refine ⟨h.rel, h.key, h.enc, h.pend06, ?_, h.le06, ?_, h.conf, h.user, h.nc, h.keys, h.nonces, h.dh⟩
    · intro hc; simp at hc
    · simp [h0]

/-- **the invariant is preserved by every operation** -/
theorem inv_step (C : Crypto) (cfg : Cfg) (s : St) (g : Ghost) (op : Op) (h : Inv C cfg s g) :
    Inv C cfg (step C cfg s op).1 (gstep C cfg s g op (step C cfg s op).2) := by
  cases op with
  | pdu p => exact inv_pdu C cfg s g p h
  | out => exact inv_out C cfg s g h
  | enc b => exact ⟨h.rel, h.key, rfl, h.pend06, h.pend07, h.le06, h.le07, h.conf, h.user, h.nc, h.keys, h.nonces, h.dh⟩
  | user m => exact ⟨h.rel, h.key, h.enc, h.pend06, h.pend07, h.le06, h.le07, h.conf, h.user, h.nc, h.keys, h.nonces, h.dh⟩
  | kbd n => exact ⟨h.rel, h.key, h.enc, h.pend06, h.pend07, h.le06, h.le07, h.conf, h.user, h.nc, h.keys, h.nonces, h.dh⟩
  | oob a d => exact ⟨h.rel, h.key, h.enc, h.pend06, h.pend07, h.le06, h.le07, h.conf, h.user, h.nc, h.keys, h.nonces, h.dh⟩
  | findKey e r => exact h
  | conn =>
    constructor <;> simp [step, gstep, newConnection, Ghost.init, Rel, findKeyLocal, PState.afterKeys, PState.afterRandom]
  | answer b =>
    simp only [step, answer]
    split
    · rename_i hw
      have hk : g.key = none := by
        rw [← h.key, findKeyLocal_ne _ (by rcases hw with hw | hw <;> rw [hw] <;> simp)]
      have hu := h.user (by rcases hw with hw | hw <;> simp [hw])
      have hkeys := h.keys (by rcases hw with hw | hw <;> rw [hw] <;> rfl)
      have hnon := h.nonces (by rcases hw with hw | hw <;> rw [hw] <;> rfl)
      have hrel := h.rel
      rcases hw with hw | hw <;> rw [hw] at hrel <;> cases b <;>
        refine ⟨?_, ?_, h.enc, h.pend06, h.pend07, h.le06, h.le07, ?_, fun _ => hu, h.nc,
          fun _ => hkeys, fun _ => hnon, ?_⟩ <;>
        simp [gstep, findKeyLocal, hk, hw, yesNoResponse, Rel] <;> first | exact hrel | exact ⟨0, hrel⟩ | exact h.dh (Or.inl hw) | skip
    · exact h

/-! ### histories -/

theorem runG_inv (C : Crypto) (cfg : Cfg) (ops : List Op) :
    ∀ (s : St) (g : Ghost), Inv C cfg s g →
      Inv C cfg (runG C cfg s g ops).1 (runG C cfg s g ops).2.1 ∧
      ∀ e ∈ (runG C cfg s g ops).2.2, Inv C cfg e.1 e.2.1 ∧ e.2.2.2 = (step C cfg e.1 e.2.2.1).2 := by
  induction ops with
  | nil => intro s g h; exact ⟨h, by simp [runG]⟩
  | cons op ops ih =>
    intro s g h
    have h' := inv_step C cfg s g op h
    obtain ⟨i1, i2⟩ := ih _ _ h'
    refine ⟨i1, ?_⟩
    intro e he
    simp only [runG, List.mem_cons] at he
    rcases he with he | he
    · subst he; exact ⟨h, rfl⟩
    · exact i2 e he

/-- the ghost run is the plain run plus bookkeeping -/
theorem runG_state (C : Crypto) (cfg : Cfg) (ops : List Op) :
    ∀ (s : St) (g : Ghost), (runG C cfg s g ops).1 = (run C cfg s ops).1 ∧
      (runG C cfg s g ops).2.2.map (fun e => e.2.2.2) = (run C cfg s ops).2 := by
  induction ops with
  | nil => intro s g; exact ⟨rfl, rfl⟩
  | cons op ops ih =>
    intro s g
    obtain ⟨i1, i2⟩ := ih (step C cfg s op).1 (gstep C cfg s g op (step C cfg s op).2)
    exact ⟨i1, by simp only [runG, run, List.map_cons, i2]⟩

end BluetoeModel.Sm
