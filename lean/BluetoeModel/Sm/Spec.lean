import BluetoeModel.Sm.Model
/-!
  Specification side of C32 / C33 / C34: the table of protocol positions (`AcceptedAt`), and the
  *ghost* that is computed from the observable history only (operations and their outputs; for
  the value of a key additionally the temporary key of a legacy pairing and the key pair the tool
  box returned when the Pairing Public Key was answered).
  Nothing in this file is executed by the driver.
-/
namespace BluetoeModel.Sm

/-- the parameter rules of a Pairing Request (Core Vol 3 Part H 3.5.1): IO capability 0..4,
    OOB flag 0..1, key size 7..16, reserved key distribution bits zero -/
def ReqValid (p : Bytes) : Prop :=
  match p with
  | [_, io, oob, _, ks, ik, rk] => io ≤ 4 ∧ oob ≤ 1 ∧ 7 ≤ ks ∧ ks ≤ 16 ∧ ik < 16 ∧ rk < 16
  | _ => False

/-- the Secure Connections bit of the AuthReq field -/
def scBit (p : Bytes) : Bool := (p.getD 3 0) &&& 0x08 != 0

/-- **The accepted-opcode language, per variant and pairing state.**  `AcceptedAt C v st p st'`:
    manager variant `v` may accept PDU `p` in pairing state `st`, moving to `st'`.
    legacy: request, confirm, random; LESC: request, public key, random, DHKey check. -/
inductive AcceptedAt (C : Crypto) (v : Variant) : PState → Bytes → PState → Prop
  | legacyRequest (p) : v ≠ .lesc → p.head? = some 0x01 → ReqValid p → (v = .both → scBit p = false) →
      AcceptedAt C v .idle p .legacyRequested
  | lescRequest (p) : v ≠ .legacy → p.head? = some 0x01 → ReqValid p → scBit p = true →
      AcceptedAt C v .idle p .lescRequested
  | confirm (p) : v ≠ .lesc → p.head? = some 0x03 → p.length = 17 →
      AcceptedAt C v .legacyRequested p .legacyConfirmed
  | legacyRandom (p) : v ≠ .lesc → p.head? = some 0x04 → p.length = 17 →
      AcceptedAt C v .legacyConfirmed p .completed
  | publicKey (p) : v ≠ .legacy → p.head? = some 0x0c → p.length = 65 → C.validKey (p.drop 1) = true →
      AcceptedAt C v .lescRequested p .lescKeysExchanged
  | lescRandom (p st') : v ≠ .legacy → p.head? = some 0x04 → p.length = 17 →
      (st' = .lescRandomExchanged ∨ st' = .userWait) →
      AcceptedAt C v .lescConfirmSend p st'
  | dhkeyCheck (p st) : v ≠ .legacy → p.head? = some 0x0d → p.length = 17 →
      (st = .lescRandomExchanged ∨ st = .userSuccess) →
      AcceptedAt C v st p .completed
  | dhkeyVerified (p) : v ≠ .legacy → p.head? = some 0x0d → p.length = 17 →
      AcceptedAt C v .userWait p .userWaitVerified

/-- answered with Pairing Failed, pairing back to idle -/
def FailedIdle (r : HRes) : Prop := (∃ e, r.2.1 = [0x05, e]) ∧ r.1.st = .idle

/-! ### ghost computed from the observable history -/

structure Ghost where
  /-- opcodes of the PDUs accepted since the running pairing attempt began, most recent first -/
  acc         : List UInt8
  /-- payload of the Pairing Confirm accepted in the running attempt -/
  lastConfirm : Option Bytes
  /-- payload of the DHKey check accepted last in the running attempt -/
  lastDhkey   : Option Bytes
  /-- payload of the Pairing Public Key accepted last (`PKa`) -/
  pka         : Bytes
  /-- the key pair `generate_keys()` returned while that Pairing Public Key was handled; its public
      half is the payload of the response (`keyPair_is_sent`) -/
  kp          : Bytes × Bytes
  /-- payload of the Pairing Random accepted last (`Na` / `Mrand`) -/
  na          : Bytes
  /-- payload of the response to it (`Nb` / `Srand`) -/
  nb          : Bytes
  /-- the key the last pairing produced, while nothing happened since it completed -/
  key         : Option Bytes
  /-- the link is encrypted (last `enc` operation on this connection) -/
  enc         : Bool
  /-- a legacy pairing completed on this connection -/
  armed       : Bool
  /-- Encryption Information / Central Identification PDUs sent since the last legacy completion -/
  sent06      : Nat
  sent07      : Nat
deriving Repr

def Ghost.init : Ghost :=
  { acc := [], lastConfirm := none, lastDhkey := none, pka := [], kp := ([], []), na := [], nb := [],
    key := none, enc := false, armed := false, sent06 := 0, sent07 := 0 }

def Ghost.aborted (g : Ghost) : Ghost :=
  { g with acc := [], lastConfirm := none, lastDhkey := none, key := none }

/-- the LESC long term key of the values exchanged in the running attempt:
    `f5( p256( SKb, PKa ), Na, Nb, A, B )`, second half -/
def Ghost.ltk (C : Crypto) (cfg : Cfg) (g : Ghost) : Bytes :=
  (C.f5 (C.p256 g.kp.2 g.pka) g.na g.nb cfg.remoteAddr cfg.localAddr).2

/-- ghost update for one operation `op` that produced output `o` in state `pre`.
    * a response `05 ..` aborts the attempt;
    * any other response to a PDU means the PDU was accepted: its opcode is recorded, and so are
      the payloads of an accepted Pairing Public Key (with the key pair drawn for it), Pairing
      Random (with the random value sent as response) and DHKey check; a response
      `04 ..` to a Pairing Random directly after an accepted Pairing Confirm completes a legacy
      pairing with STK `s1( tk, srand sent, mrand received )`; a sent `0d ..` completes a LESC
      pairing with the f5-LTK of the values *recorded from this attempt's PDUs* (`Ghost.ltk`);
    * `06 ..` / `07 ..` are counted.
    The only parts of `pre` that are used: the temporary key (`legacyTempKey`) and the tool box'
    draw counter at the Pairing Public Key (which key pair `generate_keys()` returns). -/
def gstep (C : Crypto) (cfg : Cfg) (pre : St) (g : Ghost) : Op → Out → Ghost
  | .pdu p, .rsp r _ =>
      if r.head? = some 0x05 then g.aborted
      else
        let op := p.headD 0
        let g' := { g with acc := op :: g.acc, key := none }
        if op = 0x03 then { g' with lastConfirm := some (p.drop 1) }
        else if op = 0x04 ∧ r.head? = some 0x04 ∧ g.acc.head? = some 0x03 then
          { g' with key := some (C.s1 (legacyTempKey pre) (r.drop 1) (p.drop 1)),
                    na := p.drop 1, nb := r.drop 1, armed := true, sent06 := 0, sent07 := 0 }
        else if op = 0x0c then { g' with pka := p.drop 1, kp := C.keys pre.rng }
        else if op = 0x04 then { g' with na := p.drop 1, nb := r.drop 1 }
        else if op = 0x0d then
          { g' with lastDhkey := some (p.drop 1),
                    key := if r.head? = some 0x0d then some (g.ltk C cfg) else none }
        else g'
  | .out, .rsp r _ =>
      if r.head? = some 0x05 then g.aborted
      else if r.head? = some 0x0d then { g with key := some (g.ltk C cfg) }
      else if r.head? = some 0x06 then { g with sent06 := g.sent06 + 1 }
      else if r.head? = some 0x07 then { g with sent07 := g.sent07 + 1 }
      else g
  | .enc b, _ => { g with enc := b }
  | .conn, _ => Ghost.init
  | _, _ => g

/-- run a history from state `s` and ghost `g`; result: final state, final ghost, and the list of
    (state before, ghost before, operation, output) of every step -/
def runG (C : Crypto) (cfg : Cfg) (s : St) (g : Ghost) : List Op → St × Ghost × List (St × Ghost × Op × Out)
  | [] => (s, g, [])
  | op :: ops =>
      let r := step C cfg s op
      let r' := runG C cfg r.1 (gstep C cfg s g op r.2) ops
      (r'.1, r'.2.1, (s, g, op, r.2) :: r'.2.2)

/-- the accepted opcodes of a pairing attempt, oldest first, are in protocol order -/
def InOrder (l : List UInt8) : Prop :=
  l <+: [0x01, 0x03, 0x04] ∨ l <+: [0x01, 0x0c, 0x04] ∨ ∃ n, l = [0x01, 0x0c, 0x04] ++ List.replicate n 0x0d

end BluetoeModel.Sm
