import BluetoeModel.Sm.Spec
/-!
  Relational summary of `l2capInput` / `l2capOutput` (what every step does to the parts of the
  state the properties talk about), proved by unfolding the model once.
-/
namespace BluetoeModel.Sm

/-! ### bit mask facts (UInt8 via Nat) -/

set_option maxRecDepth 4000 in
theorem and_fe_nat : ∀ n : Nat, n < 256 → n &&& 254 = 0 → n ≤ 1 := by decide
set_option maxRecDepth 4000 in
theorem and_f0_nat : ∀ n : Nat, n < 256 → n &&& 240 = 0 → n < 16 := by decide

theorem and_fe (x : UInt8) (h : (x &&& 0xFE) = 0) : x ≤ 1 := by
  have h' : x.toNat &&& 254 = 0 := by
    have := congrArg UInt8.toNat h
    simpa using this
  have := and_fe_nat x.toNat x.toNat_lt h'
  exact UInt8.le_iff_toNat_le.mpr (by simpa using this)

theorem and_f0 (x : UInt8) (h : (x &&& 0xF0) = 0) : x < 16 := by
  have h' : x.toNat &&& 240 = 0 := by
    have := congrArg UInt8.toNat h
    simpa using this
  have := and_f0_nat x.toNat x.toNat_lt h'
  exact UInt8.lt_iff_toNat_lt.mpr (by simpa using this)

theorem reqValid_of_not_bad (a io oob auth ks ik rk : UInt8) (h : reqParamsBad io oob ks ik rk = false) :
    ReqValid [a, io, oob, auth, ks, ik, rk] := by
  simp only [reqParamsBad, Bool.or_eq_false_iff, decide_eq_false_iff_not, bne_eq_false_iff_eq] at h
  obtain ⟨⟨⟨⟨⟨h1, h2⟩, h3⟩, h4⟩, h5⟩, h6⟩ := h
  exact ⟨UInt8.not_lt.mp h1, and_fe _ h2, UInt8.not_lt.mp h3, UInt8.not_lt.mp h4, and_f0 _ h5, and_f0 _ h6⟩

/-! ### what a step leaves alone -/

/-- parts of the state no PDU handler touches, except where stated otherwise -/
structure Frame (s s' : St) : Prop where
  enc     : s'.encrypted = s.encrypted
  pendEnc : s'.pendEnc = s.pendEnc
  pendCid : s'.pendCid = s.pendCid
  pendKey : s'.pendKey = s.pendKey
  algo    : s'.lescAlgo = s.lescAlgo
  bonds   : s'.bonds = s.bonds

theorem Frame.rfl' (s : St) : Frame s s := ⟨rfl, rfl, rfl, rfl, rfl, rfl⟩

/-- the values of the LESC key exchange stay as they are -/
structure LescKeep (s s' : St) : Prop where
  remotePub  : s'.remotePub = s.remotePub
  localPriv  : s'.localPriv = s.localPriv
  localPub   : s'.localPub = s.localPub
  localNonce : s'.localNonce = s.localNonce

theorem fail_failedIdle (s : St) (c : UInt8) (d : Option Nat) : FailedIdle (fail s c d) :=
  ⟨⟨c, rfl⟩, rfl⟩

theorem fail_frame (s : St) (c : UInt8) (d : Option Nat) : Frame s (fail s c d).1 :=
  ⟨rfl, rfl, rfl, rfl, rfl, rfl⟩

/-- **relational specification of `l2capInput`**: every call is a Pairing Failed that returns to
    idle, or exactly one of the protocol steps, with the facts the properties need -/
inductive InputSpec (C : Crypto) (cfg : Cfg) (s : St) (p : Bytes) : HRes → Prop
  | failed (r : HRes) : FailedIdle r → Frame s r.1 → InputSpec C cfg s p r
  | legacyRequest (r : HRes) : AcceptedAt C cfg.variant s.st p r.1.st → p.head? = some 0x01 → s.st = .idle →
      r.1.st = .legacyRequested → r.2.1.head? = some 0x02 → Frame s r.1 → InputSpec C cfg s p r
  | lescRequest (r : HRes) : AcceptedAt C cfg.variant s.st p r.1.st → p.head? = some 0x01 → s.st = .idle →
      r.1.st = .lescRequested → r.2.1.head? = some 0x02 →
      (r.1.lescAlgo = .numericComparison → cfg.display = true ∧ cfg.input ≠ .none) →
      r.1.encrypted = s.encrypted → r.1.pendEnc = s.pendEnc → r.1.pendCid = s.pendCid →
      r.1.pendKey = s.pendKey → r.1.bonds = s.bonds →
      InputSpec C cfg s p r
  | confirm (r : HRes) : AcceptedAt C cfg.variant s.st p r.1.st → p.head? = some 0x03 → s.st = .legacyRequested →
      r.1.st = .legacyConfirmed → r.2.1.head? = some 0x03 → r.1.mconfirm = p.drop 1 →
      r.1.srand = s.srand → r.1.p1 = s.p1 → r.1.p2 = s.p2 →
      Frame s r.1 → InputSpec C cfg s p r
  | legacyRandom (r : HRes) : AcceptedAt C cfg.variant s.st p r.1.st → p.head? = some 0x04 → s.st = .legacyConfirmed →
      r.1.st = .completed → r.2.1 = 0x04 :: s.srand →
      C.c1 (legacyTempKey s) (p.drop 1) s.p1 s.p2 = s.mconfirm →
      r.1.key = C.s1 (legacyTempKey s) s.srand (p.drop 1) →
      r.1.encrypted = s.encrypted → r.1.lescAlgo = s.lescAlgo →
      (cfg.bonding = true → r.1.pendEnc = true ∧ r.1.pendCid = true ∧ r.1.pendKey = C.newBond s.rng ∧
        r.1.bonds = (C.newBond s.rng, cfg.remoteAddr) :: s.bonds) →
      (cfg.bonding = false → r.1.pendEnc = s.pendEnc ∧ r.1.pendCid = s.pendCid ∧ r.1.bonds = s.bonds) →
      InputSpec C cfg s p r
  | publicKey (r : HRes) : AcceptedAt C cfg.variant s.st p r.1.st → p.head? = some 0x0c → s.st = .lescRequested →
      r.1.st = .lescKeysExchanged → r.2.1 = 0x0c :: r.1.localPub → r.1.remotePub = p.drop 1 →
      r.1.localPub = (C.keys s.rng).1 → r.1.localPriv = (C.keys s.rng).2 →
      Frame s r.1 → InputSpec C cfg s p r
  | lescRandom (r : HRes) : AcceptedAt C cfg.variant s.st p r.1.st → p.head? = some 0x04 → s.st = .lescConfirmSend →
      r.2.1 = 0x04 :: r.1.localNonce → r.1.remoteNonce = p.drop 1 →
      (r.1.st ≠ .lescRandomExchanged → s.lescAlgo = .numericComparison ∧ cfg.input = .yesNo) →
      LescKeep s r.1 → Frame s r.1 → InputSpec C cfg s p r
  | dhkeyCheck (r : HRes) : AcceptedAt C cfg.variant s.st p r.1.st → p.head? = some 0x0d →
      (s.st = .lescRandomExchanged ∨ s.st = .userSuccess) → r.1.st = .completed →
      r.2.1 = 0x0d :: lescEb C cfg s → lescEa C cfg s = p.drop 1 →
      r.1.key = (lescKeys C cfg s).2 →
      r.1.encrypted = s.encrypted → r.1.pendEnc = s.pendEnc → r.1.pendCid = s.pendCid →
      r.1.pendKey = s.pendKey → r.1.lescAlgo = s.lescAlgo →
      r.1.bonds = (if cfg.bonding then (⟨(lescKeys C cfg s).2, 0, 0⟩, cfg.remoteAddr) :: s.bonds else s.bonds) →
      InputSpec C cfg s p r
  | dhkeyVerified (r : HRes) : AcceptedAt C cfg.variant s.st p r.1.st → p.head? = some 0x0d → s.st = .userWait →
      lescEa C cfg s = p.drop 1 → r.1 = { s with st := .userWaitVerified } → r.2.1 = [] → InputSpec C cfg s p r

theorem length7 {α} (p : List α) (a b c d e f g : α) (h : p = [a, b, c, d, e, f, g]) : p.length = 7 := by
  subst h; rfl

/-! ### the handlers -/

theorem legacyPairingRequest_spec (C : Crypto) (cfg : Cfg) (s s₀ : St) (req rsp : Bytes)
    (hf : Frame s₀ s) :
    let r := legacyPairingRequest C cfg s req rsp
    r.1.st = .legacyRequested ∧ r.2.1 = rsp ∧ Frame s₀ r.1 := by
  refine ⟨rfl, rfl, ?_⟩
  exact ⟨hf.enc, hf.pendEnc, hf.pendCid, hf.pendKey, hf.algo, hf.bonds⟩

theorem legacyRequest_spec (C : Crypto) (cfg : Cfg) (s : St) (p : Bytes) (hv : cfg.variant = .legacy)
    (hp : p.head? = some 0x01) : InputSpec C cfg s p (legacyRequest C cfg s p) := by
  unfold legacyRequest
  split
  · rename_i a io oob auth ks ik rk
    split
    · exact .failed _ (fail_failedIdle ..) (fail_frame ..)
    · rename_i hst
      split
      · exact .failed _ (fail_failedIdle ..) (fail_frame ..)
      · rename_i hbad
        have hidle : s.st = .idle := by simpa using hst
        have hval := reqValid_of_not_bad a io oob auth ks ik rk (by simpa using hbad)
        refine .legacyRequest _ ?_ hp hidle rfl rfl ⟨rfl, rfl, rfl, rfl, rfl, rfl⟩
        rw [hidle]
        exact .legacyRequest _ (by simp [hv]) hp hval (by simp [hv])
  · exact .failed _ (fail_failedIdle ..) (fail_frame ..)

theorem scBit_eq (a io oob auth ks ik rk : UInt8) :
    scBit [a, io, oob, auth, ks, ik, rk] = (auth &&& 0x08 != 0) := rfl

theorem selectLesc_nc (cfg : Cfg) (io : UInt8) (h : selectLesc cfg io = .numericComparison) :
    cfg.display = true ∧ cfg.input ≠ .none := by
  unfold selectLesc at h
  split at h <;> simp_all <;> (repeat' split at h) <;> simp_all

theorem lescPairingRequested_spec (C : Crypto) (cfg : Cfg) (s s₀ : St) (p : Bytes) (io oob auth : UInt8)
    (hs : s₀.st = .idle) (hp : p.head? = some 0x01) (hacc : AcceptedAt C cfg.variant .idle p .lescRequested)
    (h1 : s.encrypted = s₀.encrypted) (h2 : s.pendEnc = s₀.pendEnc) (h3 : s.pendCid = s₀.pendCid)
    (h4 : s.pendKey = s₀.pendKey) (h5 : s.bonds = s₀.bonds) :
    InputSpec C cfg s₀ p (lescPairingRequested cfg s io oob auth) := by
  refine .lescRequest _ (by rw [hs]; exact hacc) hp hs rfl rfl ?_ h1 h2 h3 h4 h5
  intro h
  simp only [lescPairingRequested, lescSelectAlgo] at h
  split at h
  · cases h
  · exact selectLesc_nc cfg io h

theorem lescRequest_spec (C : Crypto) (cfg : Cfg) (s : St) (p : Bytes) (hv : cfg.variant = .lesc)
    (hp : p.head? = some 0x01) : InputSpec C cfg s p (lescRequest cfg s p) := by
  unfold lescRequest
  split
  · rename_i a io oob auth ks ik rk
    split
    · exact .failed _ (fail_failedIdle ..) (fail_frame ..)
    · rename_i hst
      split
      · exact .failed _ (fail_failedIdle ..) (fail_frame ..)
      · rename_i hbad
        split
        · exact .failed _ (fail_failedIdle ..) (fail_frame ..)
        · rename_i hsc
          have hidle : s.st = .idle := by simpa using hst
          have hval := reqValid_of_not_bad a io oob auth ks ik rk (by simpa using hbad)
          refine lescPairingRequested_spec C cfg s s _ io oob auth hidle hp ?_ rfl rfl rfl rfl rfl
          exact .lescRequest _ (by simp [hv]) hp hval (by simp [scBit_eq, hsc])
  · exact .failed _ (fail_failedIdle ..) (fail_frame ..)

theorem bothRequest_spec (C : Crypto) (cfg : Cfg) (s : St) (p : Bytes) (hv : cfg.variant = .both)
    (hp : p.head? = some 0x01) : InputSpec C cfg s p (bothRequest C cfg s p) := by
  unfold bothRequest
  split
  · rename_i a io oob auth ks ik rk
    split
    · exact .failed _ (fail_failedIdle ..) (fail_frame ..)
    · rename_i hst
      split
      · exact .failed _ (fail_failedIdle ..) (fail_frame ..)
      · rename_i hbad
        have hidle : s.st = .idle := by simpa using hst
        have hval := reqValid_of_not_bad a io oob auth ks ik rk (by simpa using hbad)
        split
        · rename_i hsc
          refine lescPairingRequested_spec C cfg _ s _ io oob auth hidle hp ?_ rfl rfl rfl rfl rfl
          exact .lescRequest _ (by simp [hv]) hp hval (by simp [scBit_eq, hsc])
        · rename_i hsc
          refine .legacyRequest _ ?_ hp hidle rfl rfl ⟨rfl, rfl, rfl, rfl, rfl, rfl⟩
          rw [hidle]
          refine .legacyRequest _ (by simp [hv]) hp hval ?_
          intro _
          simpa [scBit_eq] using hsc
  · exact .failed _ (fail_failedIdle ..) (fail_frame ..)

theorem legacyCreateTempKey_frame (C : Crypto) (s : St) :
    let r := legacyCreateTempKey C s
    r.1.st = s.st ∧ r.1.mconfirm = s.mconfirm ∧ r.1.srand = s.srand ∧ r.1.p1 = s.p1 ∧ r.1.p2 = s.p2 ∧
    Frame s r.1 := by
  unfold legacyCreateTempKey
  split <;> exact ⟨rfl, rfl, rfl, rfl, rfl, rfl, rfl, rfl, rfl, rfl, rfl⟩

theorem legacyConfirm_spec (C : Crypto) (cfg : Cfg) (s : St) (p : Bytes) (hv : cfg.variant ≠ .lesc)
    (hp : p.head? = some 0x03) : InputSpec C cfg s p (legacyConfirm C cfg s p) := by
  unfold legacyConfirm
  split
  · exact .failed _ (fail_failedIdle ..) (fail_frame ..)
  · rename_i hlen
    split
    · exact .failed _ (fail_failedIdle ..) (fail_frame ..)
    · rename_i hst
      have hst' : s.st = .legacyRequested := by simpa using hst
      have hlen' : p.length = 17 := by simpa using hlen
      have hk := legacyCreateTempKey_frame C { s with st := .legacyConfirmed, mconfirm := p.drop 1 }
      obtain ⟨k1, k2, k3, k4, k5, k6⟩ := hk
      refine .confirm _ ?_ hp hst' k1 rfl k2 k3 k4 k5 ⟨k6.enc, k6.pendEnc, k6.pendCid, k6.pendKey, k6.algo, k6.bonds⟩
      rw [hst']
      show AcceptedAt C cfg.variant .legacyRequested p (legacyCreateTempKey C _).1.st
      rw [k1]
      exact .confirm _ hv hp hlen'

theorem legacyRandom_spec (C : Crypto) (cfg : Cfg) (s : St) (p : Bytes) (hv : cfg.variant ≠ .lesc)
    (hp : p.head? = some 0x04) : InputSpec C cfg s p (legacyRandom C cfg s p) := by
  unfold legacyRandom
  split
  · exact .failed _ (fail_failedIdle ..) (fail_frame ..)
  · rename_i hlen
    split
    · exact .failed _ (fail_failedIdle ..) (fail_frame ..)
    · rename_i hst
      dsimp only
      split
      · exact .failed _ (fail_failedIdle ..) (fail_frame ..)
      · rename_i hc
        have hst' : s.st = .legacyConfirmed := by simpa using hst
        have hlen' : p.length = 17 := by simpa using hlen
        have hc' : C.c1 (legacyTempKey s) (p.drop 1) s.p1 s.p2 = s.mconfirm := by simpa using hc
        have hacc : AcceptedAt C cfg.variant s.st p .completed := by
          rw [hst']; exact .legacyRandom _ hv hp hlen'
        by_cases hb : cfg.bonding = true
        · refine .legacyRandom _ ?_ hp hst' ?_ rfl hc' ?_ ?_ ?_ ?_ ?_ <;>
            simp [armKeyDistribution, hb, hacc]
        · have hb' : cfg.bonding = false := by simpa using hb
          refine .legacyRandom _ ?_ hp hst' ?_ rfl hc' ?_ ?_ ?_ ?_ ?_ <;>
            simp [armKeyDistribution, hb', hacc]

theorem lescPublicKey_spec (C : Crypto) (cfg : Cfg) (s : St) (p : Bytes) (hv : cfg.variant ≠ .legacy)
    (hp : p.head? = some 0x0c) : InputSpec C cfg s p (lescPublicKey C s p) := by
  unfold lescPublicKey
  split
  · exact .failed _ (fail_failedIdle ..) (fail_frame ..)
  · rename_i hlen
    split
    · exact .failed _ (fail_failedIdle ..) (fail_frame ..)
    · rename_i hst
      split
      · exact .failed _ (fail_failedIdle ..) (fail_frame ..)
      · rename_i hk
        have hst' : s.st = .lescRequested := by simpa using hst
        refine .publicKey _ ?_ hp hst' rfl rfl rfl rfl rfl ⟨rfl, rfl, rfl, rfl, rfl, rfl⟩
        rw [hst']
        exact .publicKey _ hv hp (by simpa using hlen) (by simpa using hk)

theorem requestYesNo_spec (cfg : Cfg) (s : St) :
    let s' := requestYesNo cfg s
    (s'.st = s.st ∨ (cfg.input = .yesNo ∧ (s'.st = .userWait ∨ s'.st = .lescRandomExchanged ∨ s'.st = .userFailed))) ∧
    s'.localNonce = s.localNonce ∧ s'.remoteNonce = s.remoteNonce ∧ LescKeep s s' ∧ Frame s s' := by
  unfold requestYesNo
  split
  · rename_i hi
    split <;> exact ⟨Or.inr ⟨hi, by simp [yesNoResponse]⟩, rfl, rfl, ⟨rfl, rfl, rfl, rfl⟩, rfl, rfl, rfl, rfl, rfl, rfl⟩
  · exact ⟨Or.inl rfl, rfl, rfl, ⟨rfl, rfl, rfl, rfl⟩, Frame.rfl' s⟩

theorem lescRandom_spec (C : Crypto) (cfg : Cfg) (s : St) (p : Bytes) (hv : cfg.variant ≠ .legacy)
    (hp : p.head? = some 0x04) : InputSpec C cfg s p (lescRandom C cfg s p) := by
  unfold lescRandom
  split
  · exact .failed _ (fail_failedIdle ..) (fail_frame ..)
  · rename_i hlen
    split
    · exact .failed _ (fail_failedIdle ..) (fail_frame ..)
    · rename_i hst
      have hst' : s.st = .lescConfirmSend := by simpa using hst
      have hlen' : p.length = 17 := by simpa using hlen
      dsimp only
      split
      · rename_i hnc
        have hnc' : s.lescAlgo = .numericComparison := hnc
        obtain ⟨y1, y2, y3, y5, y4⟩ := requestYesNo_spec cfg { s with st := .lescRandomExchanged, remoteNonce := p.drop 1 }
        split
        · refine .failed _ (fail_failedIdle ..) ?_
          exact ⟨y4.enc, y4.pendEnc, y4.pendCid, y4.pendKey, y4.algo, y4.bonds⟩
        · rename_i hnf
          refine .lescRandom _ ?_ hp hst' rfl y3 ?_ ⟨y5.remotePub, y5.localPriv, y5.localPub, y5.localNonce⟩
            ⟨y4.enc, y4.pendEnc, y4.pendCid, y4.pendKey, y4.algo, y4.bonds⟩
          · rw [hst']
            refine .lescRandom _ _ hv hp hlen' ?_
            rcases y1 with h | ⟨_, h | h | h⟩
            · exact Or.inl h
            · exact Or.inr h
            · exact Or.inl h
            · exact absurd h hnf
          · intro hne
            rcases y1 with h | ⟨hi, _⟩
            · exact absurd h hne
            · exact ⟨hnc', hi⟩
      · refine .lescRandom _ ?_ hp hst' rfl rfl ?_ ⟨rfl, rfl, rfl, rfl⟩ ⟨rfl, rfl, rfl, rfl, rfl, rfl⟩
        · rw [hst']
          exact .lescRandom _ _ hv hp hlen' (Or.inl rfl)
        · intro h; exact absurd rfl h

theorem lescDhkeyCheck_spec (C : Crypto) (cfg : Cfg) (s : St) (p : Bytes) (hv : cfg.variant ≠ .legacy)
    (hp : p.head? = some 0x0d) : InputSpec C cfg s p (lescDhkeyCheck C cfg s p) := by
  unfold lescDhkeyCheck
  split
  · exact .failed _ (fail_failedIdle ..) (fail_frame ..)
  · rename_i hlen
    have hlen' : p.length = 17 := by simpa using hlen
    split
    · exact .failed _ (fail_failedIdle ..) (fail_frame ..)
    · rename_i hst
      split
      · exact .failed _ (fail_failedIdle ..) (fail_frame ..)
      · rename_i hea
        refine .dhkeyVerified _ ?_ hp hst (by simpa using hea) rfl rfl
        rw [hst]; exact .dhkeyVerified _ hv hp hlen'
    · rename_i hst
      split
      · exact .failed _ (fail_failedIdle ..) (fail_frame ..)
      · rename_i hea
        refine .dhkeyCheck _ ?_ hp (Or.inl hst) rfl rfl (by simpa using hea) rfl rfl rfl rfl rfl rfl rfl
        exact .dhkeyCheck _ _ hv hp hlen' (Or.inl hst)
    · rename_i hst
      split
      · exact .failed _ (fail_failedIdle ..) (fail_frame ..)
      · rename_i hea
        refine .dhkeyCheck _ ?_ hp (Or.inr hst) rfl rfl (by simpa using hea) rfl rfl rfl rfl rfl rfl rfl
        exact .dhkeyCheck _ _ hv hp hlen' (Or.inr hst)
    · exact .failed _ (fail_failedIdle ..) (fail_frame ..)

/-- **every call of `l2cap_input` satisfies the relational specification** -/
theorem l2capInput_spec (C : Crypto) (cfg : Cfg) (s : St) (p : Bytes) :
    InputSpec C cfg s p (l2capInput C cfg s p) := by
  unfold l2capInput
  split
  · rename_i hv
    unfold legacyInput
    split
    · exact .failed _ (fail_failedIdle ..) (fail_frame ..)
    · exact legacyRequest_spec C cfg s p hv (by assumption)
    · exact legacyConfirm_spec C cfg s p (by simp [hv]) (by assumption)
    · exact legacyRandom_spec C cfg s p (by simp [hv]) (by assumption)
    · exact .failed _ (fail_failedIdle ..) (fail_frame ..)
  · rename_i hv
    unfold lescInput
    split
    · exact .failed _ (fail_failedIdle ..) (fail_frame ..)
    · exact lescRequest_spec C cfg s p hv (by assumption)
    · exact lescPublicKey_spec C cfg s p (by simp [hv]) (by assumption)
    · exact lescRandom_spec C cfg s p (by simp [hv]) (by assumption)
    · exact lescDhkeyCheck_spec C cfg s p (by simp [hv]) (by assumption)
    · exact .failed _ (fail_failedIdle ..) (fail_frame ..)
  · rename_i hv
    unfold bothInput
    split
    · exact .failed _ (fail_failedIdle ..) (fail_frame ..)
    · exact bothRequest_spec C cfg s p hv (by assumption)
    · exact legacyConfirm_spec C cfg s p (by simp [hv]) (by assumption)
    · split
      · exact legacyRandom_spec C cfg s p (by simp [hv]) (by assumption)
      · exact lescRandom_spec C cfg s p (by simp [hv]) (by assumption)
    · exact lescPublicKey_spec C cfg s p (by simp [hv]) (by assumption)
    · exact lescDhkeyCheck_spec C cfg s p (by simp [hv]) (by assumption)
    · exact .failed _ (fail_failedIdle ..) (fail_frame ..)

/-! ### l2cap_output -/

/-- **relational specification of `l2capOutput`** -/
inductive OutputSpec (C : Crypto) (cfg : Cfg) (s : St) : HRes → Prop
  | nothing (r : HRes) : r.1 = s → r.2.1 = [] → OutputSpec C cfg s r
  | confirmSent (r : HRes) : cfg.variant ≠ .legacy → s.st = .lescKeysExchanged →
      r.1 = { s with st := .lescConfirmSend } → r.2.1.head? = some 0x03 → OutputSpec C cfg s r
  | dhkeySent (r : HRes) : cfg.variant ≠ .legacy → s.st = .userSuccess → r.1.st = .completed →
      r.2.1 = 0x0d :: lescEb C cfg s → r.1.key = (lescKeys C cfg s).2 →
      r.1.encrypted = s.encrypted → r.1.pendEnc = s.pendEnc → r.1.pendCid = s.pendCid →
      r.1.pendKey = s.pendKey → r.1.lescAlgo = s.lescAlgo → OutputSpec C cfg s r
  | userFailed (r : HRes) : cfg.variant ≠ .legacy → s.st = .userFailed → FailedIdle r → Frame s r.1 →
      OutputSpec C cfg s r
  | encInfo (r : HRes) : cfg.variant ≠ .lesc → cfg.bonding = true → s.encrypted = true →
      s.pendEnc = true → r.2.1 = 0x06 :: s.pendKey.key →
      r.1 = { s with pendEnc := false, pendKey := { s.pendKey with key := zero16 } } →
      OutputSpec C cfg s r
  | centralId (r : HRes) : cfg.variant ≠ .lesc → cfg.bonding = true → s.encrypted = true →
      s.pendEnc = false → s.pendCid = true →
      r.2.1 = 0x07 :: (le16 s.pendKey.ediv ++ le64 s.pendKey.rand) →
      r.1 = { s with pendCid := false } → OutputSpec C cfg s r

theorem distributeKeys_spec (C : Crypto) (cfg : Cfg) (s : St) (hv : cfg.variant ≠ .lesc) :
    OutputSpec C cfg s (distributeKeys cfg s) := by
  unfold distributeKeys
  split
  · rename_i h
    split
    · rename_i h1
      exact .encInfo _ hv h.1 h.2 h1 rfl rfl
    · rename_i h1
      split
      · rename_i h2
        exact .centralId _ hv h.1 h.2 (by simpa using h1) h2 rfl rfl
      · exact .nothing _ rfl rfl
  · exact .nothing _ rfl rfl

theorem lescOutput_spec (C : Crypto) (cfg : Cfg) (s : St) (hv : cfg.variant ≠ .legacy)
    (ha : lescOutputAvailable s = true) : OutputSpec C cfg s (lescOutput C cfg s) := by
  unfold lescOutput
  split
  · rename_i hst
    exact .confirmSent _ hv hst rfl rfl
  · rename_i hst
    exact .dhkeySent _ hv hst rfl rfl rfl rfl rfl rfl rfl rfl
  · rename_i h1 h2
    have hst : s.st = .userFailed := by
      simp only [lescOutputAvailable, Bool.or_eq_true, decide_eq_true_eq] at ha
      rcases ha with (h | h) | h
      · exact absurd h h1
      · exact absurd h h2
      · exact h
    exact .userFailed _ hv hst (fail_failedIdle ..) (fail_frame ..)

theorem l2capOutput_spec (C : Crypto) (cfg : Cfg) (s : St) :
    OutputSpec C cfg s (l2capOutput C cfg s) := by
  unfold l2capOutput
  split
  · rename_i hv
    exact distributeKeys_spec C cfg s (by simp [hv])
  · rename_i hv
    split
    · exact lescOutput_spec C cfg s (by simp [hv]) (by assumption)
    · exact .nothing _ rfl rfl
  · rename_i hv
    split
    · exact lescOutput_spec C cfg s (by simp [hv]) (by assumption)
    · exact distributeKeys_spec C cfg s (by simp [hv])

end BluetoeModel.Sm
