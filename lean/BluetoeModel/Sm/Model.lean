/-
  Model of the three security managers of bluetoe
    src: bluetoe/sm/include/bluetoe/security_manager.hpp
         bluetoe/sm/include/bluetoe/security_connection_data.hpp
         bluetoe/sm/include/bluetoe/io_capabilities.hpp
         bluetoe/sm/include/bluetoe/oob_authentication.hpp
  One connection, one security manager object, one bonding data base.  The cryptographic tool box,
  the random number generator and the bonding data base's key generator are *parameters*
  (`Crypto`); the user side (yes/no answer mode, keyboard value, OOB data) is part of the state and
  is changed by operations, so that theorems over all operation histories quantify over every
  timing of the user as well.
-/
namespace BluetoeModel.Sm

abbrev Bytes := List UInt8

inductive Variant | legacy | lesc | both
deriving DecidableEq, Repr

/-- `pairing_no_input` / `pairing_yes_no<>` / `pairing_keyboard<>` -/
inductive InputCap | none | yesNo | keyboard
deriving DecidableEq, Repr

/-- src: security_connection_data.hpp `enum class sm_pairing_state` -/
inductive PState
  | idle | completed | userWait | userFailed | userSuccess
  | legacyRequested | legacyConfirmed
  | lescRequested | lescKeysExchanged | lescConfirmSend | lescRandomExchanged
  | userWaitVerified      -- `user_response_wait_dhkey_verified`
deriving DecidableEq, Repr

inductive LegacyAlgo | justWorks | oob | passkeyDisplay | passkeyInput
deriving DecidableEq, Repr

inductive LescAlgo | justWorks | oob | passkeyDisplay | passkeyInput | numericComparison
deriving DecidableEq, Repr

/-- how the user's `sm_pairing_yes_no( response )` callback behaves: it stores the response object
    (`async`) or answers from within the callback -/
inductive UserMode | async | syncYes | syncNo
deriving DecidableEq, Repr

/-- the options a security manager is instantiated with; addresses are 7 bytes:
    6 address bytes followed by the `is_random` flag -/
structure Cfg where
  variant    : Variant
  input      : InputCap
  display    : Bool          -- `pairing_numeric_output<>` present
  bonding    : Bool          -- `bonding_data_base<>` present
  localAddr  : Bytes
  remoteAddr : Bytes
deriving Repr

/-- src: security_connection_data.hpp `longterm_key_t` -/
structure LtkRec where
  key  : Bytes
  rand : Nat
  ediv : Nat
deriving DecidableEq, Repr

/-- the security tool box, RNG and bond generator (abstract functions).  RNG-like functions take
    the number of random draws made so far. -/
structure Crypto where
  c1       : Bytes → Bytes → Bytes → Bytes → Bytes
  s1       : Bytes → Bytes → Bytes → Bytes
  f4       : Bytes → Bytes → Bytes → UInt8 → Bytes
  f5       : Bytes → Bytes → Bytes → Bytes → Bytes → Bytes × Bytes
  f6       : Bytes → Bytes → Bytes → Bytes → Bytes → Bytes → Bytes → Bytes
  g2       : Bytes → Bytes → Bytes → Bytes → Nat
  p256     : Bytes → Bytes → Bytes
  validKey : Bytes → Bool
  srand    : Nat → Bytes
  passkey  : Nat → Bytes
  keys     : Nat → Bytes × Bytes       -- (public, private)
  nonce    : Nat → Bytes
  newBond  : Nat → LtkRec

structure St where
  -- security_connection_data_base
  st           : PState
  -- legacy_security_connection_data / legacy part of security_connection_data
  legacyAlgo   : LegacyAlgo
  p1           : Bytes
  p2           : Bytes
  srand        : Bytes
  mconfirm     : Bytes
  passkey      : Bytes
  -- lesc_security_connection_data / LESC part of security_connection_data
  lescAlgo     : LescAlgo
  localPriv    : Bytes
  localPub     : Bytes
  remotePub    : Bytes
  localNonce   : Bytes
  remoteNonce  : Bytes
  remoteIoCaps : Bytes
  /-- `completed_state.short_term_key` (legacy) / `long_term_key_` (LESC, combined) -/
  key          : Bytes
  -- bonding_db_data_t
  pendEnc      : Bool
  pendCid      : Bool
  pendKey      : LtkRec
  -- link_state
  encrypted    : Bool
  -- security manager object: oob_authentication_callback
  oobPresent   : Bool
  oobData      : Bytes
  -- tool box: number of random draws so far
  rng          : Nat
  -- bonding data base (user object): most recent bond first; mac = 7 byte address
  bonds        : List (LtkRec × Bytes)
  -- user side
  userMode     : UserMode
  kbd          : Nat
  envOobAvail  : Bool
  envOobData   : Bytes
deriving Repr

def zero16 : Bytes := List.replicate 16 0

/-- src: link_layer.hpp `connection_data_ = connection_data_t()` — value initialisation: every
    member is zero, then the constructors run (`state_ = idle`, `encrypted_ = false`) -/
def newConnection (s : St) : St :=
  { s with
    st := .idle, legacyAlgo := .justWorks, p1 := zero16, p2 := zero16, srand := zero16,
    mconfirm := zero16, passkey := zero16, lescAlgo := .justWorks,
    localPriv := List.replicate 32 0, localPub := List.replicate 64 0,
    remotePub := List.replicate 64 0, localNonce := zero16, remoteNonce := zero16,
    remoteIoCaps := [0, 0, 0], key := zero16, pendEnc := false, pendCid := false,
    pendKey := ⟨zero16, 0, 0⟩, encrypted := false }

/-- a new security manager object, an empty bonding data base and a first connection -/
def init : St :=
  { st := .idle, legacyAlgo := .justWorks, p1 := zero16, p2 := zero16, srand := zero16,
    mconfirm := zero16, passkey := zero16, lescAlgo := .justWorks,
    localPriv := List.replicate 32 0, localPub := List.replicate 64 0,
    remotePub := List.replicate 64 0, localNonce := zero16, remoteNonce := zero16,
    remoteIoCaps := [0, 0, 0], key := zero16, pendEnc := false, pendCid := false,
    pendKey := ⟨zero16, 0, 0⟩, encrypted := false,
    oobPresent := false, oobData := zero16, rng := 0, bonds := [],
    userMode := .async, kbd := 0, envOobAvail := false, envOobData := zero16 }

/-- result of a handler: new state, response bytes (`[]` = `out_size == 0`), value passed to the
    numeric output callback (if it was called) -/
abbrev HRes := St × Bytes × Option Nat

-- src: security_manager_base::error_response (error_reset + details::error_response)
def fail (s : St) (code : UInt8) (disp : Option Nat := none) : HRes :=
  ({ s with st := .idle }, [0x05, code], disp)

/-! ### little endian helpers (bits.hpp) -/

def le32 (n : Nat) : Bytes :=
  [UInt8.ofNat n, UInt8.ofNat (n / 256), UInt8.ofNat (n / 65536), UInt8.ofNat (n / 16777216)]

def le16 (n : Nat) : Bytes := [UInt8.ofNat n, UInt8.ofNat (n / 256)]

def le64 (n : Nat) : Bytes := le32 n ++ le32 (n / 4294967296)

def read32 : Bytes → Nat
  | a :: b :: c :: d :: _ => a.toNat + 256 * b.toNat + 65536 * c.toNat + 16777216 * d.toNat
  | _ => 0

/-! ### io_capabilities.hpp -/

-- src: pairing_no_output / pairing_numeric_output ::get_io_capabilities
def ioCapabilities (cfg : Cfg) : UInt8 :=
  match cfg.display, cfg.input with
  | false, .none => 3 | false, .yesNo => 3 | false, .keyboard => 2
  | true, .none => 0 | true, .yesNo => 1 | true, .keyboard => 4

-- src: pairing_no_output / pairing_numeric_output ::select_legacy_pairing_algorithm
def selectLegacy (cfg : Cfg) (io : UInt8) : LegacyAlgo :=
  match cfg.display, cfg.input with
  | false, .none => .justWorks
  | false, .yesNo => .justWorks
  | false, .keyboard => if io = 3 then .justWorks else .passkeyInput
  | true, .none => if io = 2 ∨ io = 4 then .passkeyDisplay else .justWorks
  | true, .yesNo => if io = 2 ∨ io = 4 then .passkeyDisplay else .justWorks
  | true, .keyboard =>
      if io = 3 then .justWorks else if io = 2 then .passkeyDisplay else .passkeyInput

-- src: pairing_no_output / pairing_numeric_output ::select_lesc_pairing_algorithm
def selectLesc (cfg : Cfg) (io : UInt8) : LescAlgo :=
  match cfg.display, cfg.input with
  | false, .none => .justWorks
  | false, .yesNo => .justWorks
  | false, .keyboard => if io = 3 then .justWorks else .passkeyInput
  | true, .none => if io = 2 ∨ io = 4 then .passkeyDisplay else .justWorks
  | true, .yesNo =>
      if io = 1 ∨ io = 4 then .numericComparison
      else if io = 2 then .passkeyDisplay else .justWorks
  | true, .keyboard =>
      if io = 1 ∨ io = 4 then .numericComparison
      else if io = 0 then .passkeyInput
      else if io = 2 then .passkeyDisplay else .justWorks

-- src: {lesc_,}security_connection_data::yes_no_response: a yes without a verified DHKey check
-- goes back to `lesc_pairing_random_exchanged` (the local DHKey check will be the response to the
-- remote one), a yes after the remote DHKey check was verified makes `l2cap_output` send the local one
def yesNoResponse (st : PState) (b : Bool) : PState :=
  if !b then .userFailed
  else if st = .userWait then .lescRandomExchanged
  else .userSuccess

-- src: pairing_yes_no::sm_pairing_request_yes_no (wait_for_user_response, then the user's
-- callback, which may call yes_no_response at once) / pairing_no_input::sm_pairing_request_yes_no.
-- `pairing_keyboard` has no such function: LESC managers do not compile with a keyboard.
def requestYesNo (cfg : Cfg) (s : St) : St :=
  match cfg.input with
  | .yesNo =>
      match s.userMode with
      | .async => { s with st := .userWait }
      | .syncYes => { s with st := yesNoResponse .userWait true }
      | .syncNo => { s with st := yesNoResponse .userWait false }
  | _ => s

/-! ### security_manager_base -/

-- src: accumulate_authentication_requirements_flags (bonding_data_base::flags = bonding)
def authFlags (cfg : Cfg) : UInt8 := if cfg.bonding then 0x01 else 0x00

-- src: key_distribution_t::request_key_flags
def keyFlags (cfg : Cfg) : UInt8 := if cfg.bonding then 0x01 else 0x00

-- src: security_manager_base::legacy_local_io_caps
def legacyLocalIoCaps (cfg : Cfg) (s : St) : Bytes :=
  [ioCapabilities cfg, if s.oobPresent then 1 else 0, authFlags cfg]

-- src: security_manager_base::lesc_local_io_caps
def lescLocalIoCaps (cfg : Cfg) : Bytes := [ioCapabilities cfg, 0, authFlags cfg ||| 0x08]

-- src: security_manager_base::create_pairing_response
def pairingResponse (cfg : Cfg) (ioCaps : Bytes) : Bytes :=
  [0x02] ++ ioCaps ++ [16, 0, keyFlags cfg]

-- src: the parameter check shared by the three pairing request handlers
def reqParamsBad (io oob ks ik rk : UInt8) : Bool :=
  decide (io > 4) || (oob &&& 0xFE) != 0 || decide (ks < 7) || decide (ks > 16)
    || (ik &&& 0xF0) != 0 || (rk &&& 0xF0) != 0

-- src: oob_authentication_callback::request_oob_data_presents_for_remote_device
def requestOob (s : St) : St := { s with oobPresent := s.envOobAvail, oobData := s.envOobData }

-- src: security_manager_base::legacy_select_pairing_algorithm
def legacySelectAlgo (cfg : Cfg) (io oob : UInt8) (hasOob : Bool) : LegacyAlgo :=
  if oob ≠ 0 ∧ hasOob then .oob else selectLegacy cfg io

-- src: security_manager_base::lesc_select_pairing_algorithm
def lescSelectAlgo (cfg : Cfg) (io oob : UInt8) (hasOob : Bool) : LescAlgo :=
  if oob ≠ 0 ∨ hasOob then .oob else selectLesc cfg io

-- src: legacy_c1_p1, legacy_c1_p2, create_srand, connection data `legacy_pairing_request`
def legacyPairingRequest (C : Crypto) (cfg : Cfg) (s : St) (req rsp : Bytes) : HRes :=
  let p1 := [cfg.remoteAddr.getD 6 0, cfg.localAddr.getD 6 0] ++ req ++ rsp
  let p2 := cfg.localAddr.take 6 ++ cfg.remoteAddr.take 6 ++ [0, 0, 0, 0]
  ({ s with st := .legacyRequested, p1 := p1, p2 := p2, srand := C.srand s.rng, rng := s.rng + 1 },
   rsp, none)

-- src: security_manager_base::legacy_handle_pairing_request
def legacyRequest (C : Crypto) (cfg : Cfg) (s : St) (p : Bytes) : HRes :=
  match p with
  | [_, io, oob, _, ks, ik, rk] =>
      if s.st ≠ .idle then fail s 0x08
      else if reqParamsBad io oob ks ik rk then fail s 0x0a
      else
        let s := requestOob s
        let s := { s with legacyAlgo := legacySelectAlgo cfg io oob s.oobPresent }
        legacyPairingRequest C cfg s p (pairingResponse cfg (legacyLocalIoCaps cfg s))
  | _ => fail s 0x0a

-- src: connection data `pairing_requested` + `pairing_algorithm( lesc )`
def lescPairingRequested (cfg : Cfg) (s : St) (io oob auth : UInt8) : HRes :=
  ({ s with st := .lescRequested, lescAlgo := lescSelectAlgo cfg io oob s.oobPresent,
            remoteIoCaps := [io, oob, auth] },
   pairingResponse cfg (lescLocalIoCaps cfg), none)

-- src: security_manager_base::lesc_handle_pairing_request (does NOT refresh the OOB presence)
def lescRequest (cfg : Cfg) (s : St) (p : Bytes) : HRes :=
  match p with
  | [_, io, oob, auth, ks, ik, rk] =>
      if s.st ≠ .idle then fail s 0x08
      else if reqParamsBad io oob ks ik rk then fail s 0x0a
      else if auth &&& 0x08 = 0 then fail s 0x05
      else lescPairingRequested cfg s io oob auth
  | _ => fail s 0x0a

-- src: security_manager_impl::handle_pairing_request
def bothRequest (C : Crypto) (cfg : Cfg) (s : St) (p : Bytes) : HRes :=
  match p with
  | [_, io, oob, auth, ks, ik, rk] =>
      if s.st ≠ .idle then fail s 0x08
      else if reqParamsBad io oob ks ik rk then fail s 0x0a
      else
        let s := requestOob s
        if auth &&& 0x08 ≠ 0 then lescPairingRequested cfg s io oob auth
        else
          let s := { s with legacyAlgo := legacySelectAlgo cfg io oob s.oobPresent }
          legacyPairingRequest C cfg s p (pairingResponse cfg (lescLocalIoCaps cfg))
  | _ => fail s 0x0a

-- src: security_manager_base::legacy_create_temporary_key; result: state, temporary key
def legacyCreateTempKey (C : Crypto) (s : St) : St × Bytes :=
  match s.legacyAlgo with
  | .oob => (s, s.oobData)
  | .passkeyDisplay =>
      let k := C.passkey s.rng
      ({ s with passkey := k, rng := s.rng + 1 }, k)
  | .passkeyInput =>
      let k := le32 s.kbd ++ List.replicate 12 0
      ({ s with passkey := k }, k)
  | .justWorks => (s, zero16)

-- src: security_manager_base::legacy_temporary_key
def legacyTempKey (s : St) : Bytes :=
  match s.legacyAlgo with
  | .oob => s.oobData
  | .passkeyDisplay => s.passkey
  | .passkeyInput => s.passkey
  | .justWorks => zero16

-- src: io_capabilities_matrix::sm_pairing_numeric_output
def numericOutput (cfg : Cfg) (tk : Bytes) : Option Nat :=
  if cfg.display then some (read32 tk) else none

-- src: security_manager_base::legacy_handle_pairing_confirm
def legacyConfirm (C : Crypto) (cfg : Cfg) (s : St) (p : Bytes) : HRes :=
  if p.length ≠ 17 then fail s 0x0a
  else if s.st ≠ .legacyRequested then fail s 0x08
  else
    let s := { s with st := .legacyConfirmed, mconfirm := p.drop 1 }
    let (s, tk) := legacyCreateTempKey C s
    (s, 0x03 :: C.c1 tk s.srand s.p1 s.p2, numericOutput cfg tk)

-- src: bonding_db_data_t::arm_key_distribution (create_new_bond, store_bond) / no_bonding_data_base
def armKeyDistribution (C : Crypto) (cfg : Cfg) (s : St) : St :=
  if cfg.bonding then
    let k := C.newBond s.rng
    { s with pendEnc := true, pendCid := true, pendKey := k, rng := s.rng + 1,
             bonds := (k, cfg.remoteAddr) :: s.bonds }
  else s

-- src: security_manager_base::legacy_handle_pairing_random
def legacyRandom (C : Crypto) (cfg : Cfg) (s : St) (p : Bytes) : HRes :=
  if p.length ≠ 17 then fail s 0x0a
  else if s.st ≠ .legacyConfirmed then fail s 0x08
  else
    let mrand := p.drop 1
    let tk := legacyTempKey s
    if C.c1 tk mrand s.p1 s.p2 ≠ s.mconfirm then fail s 0x04
    else
      let s' := { s with st := .completed, key := C.s1 tk s.srand mrand }
      (armKeyDistribution C cfg s', 0x04 :: s.srand, none)

-- src: security_manager_base::lesc_handle_pairing_public_key
def lescPublicKey (C : Crypto) (s : St) (p : Bytes) : HRes :=
  if p.length ≠ 65 then fail s 0x0a
  else if s.st ≠ .lescRequested then fail s 0x08
  else if !C.validKey (p.drop 1) then fail s 0x0a
  else
    let keys := C.keys s.rng
    ({ s with st := .lescKeysExchanged, localPriv := keys.2, localPub := keys.1,
              remotePub := p.drop 1, localNonce := C.nonce (s.rng + 1), rng := s.rng + 2 },
     0x0c :: keys.1, none)

-- src: pairing_numeric_output::sm_pairing_numeric_compare_output / pairing_no_output
def numericCompareOutput (C : Crypto) (cfg : Cfg) (s : St) : Option Nat :=
  if cfg.display then
    some (C.g2 (s.remotePub.take 32) (s.localPub.take 32) s.remoteNonce s.localNonce)
  else none

-- src: security_manager_base::lesc_handle_pairing_random
def lescRandom (C : Crypto) (cfg : Cfg) (s : St) (p : Bytes) : HRes :=
  if p.length ≠ 17 then fail s 0x0a
  else if s.st ≠ .lescConfirmSend then fail s 0x08
  else
    let s := { s with st := .lescRandomExchanged, remoteNonce := p.drop 1 }
    if s.lescAlgo = .numericComparison then
      let disp := numericCompareOutput C cfg s
      let s := requestYesNo cfg s
      if s.st = .userFailed then fail s 0x01 disp
      else (s, 0x04 :: s.localNonce, disp)
    else (s, 0x04 :: s.localNonce, none)

/-- `f5( p256( local private key, remote public key ), Na, Nb, A, B )` = (MacKey, LTK) -/
def lescKeys (C : Crypto) (cfg : Cfg) (s : St) : Bytes × Bytes :=
  C.f5 (C.p256 s.localPriv s.remotePub) s.remoteNonce s.localNonce cfg.remoteAddr cfg.localAddr

/-- the value the central's DHKey check is compared with -/
def lescEa (C : Crypto) (cfg : Cfg) (s : St) : Bytes :=
  C.f6 (lescKeys C cfg s).1 s.remoteNonce s.localNonce zero16 s.remoteIoCaps
    cfg.remoteAddr cfg.localAddr

/-- the peripheral's DHKey check -/
def lescEb (C : Crypto) (cfg : Cfg) (s : St) : Bytes :=
  C.f6 (lescKeys C cfg s).1 s.localNonce s.remoteNonce zero16 (lescLocalIoCaps cfg)
    cfg.localAddr cfg.remoteAddr

-- src: connection data `lesc_pairing_completed` + bonding_db_data_t::store_lesc_key_in_bond_db
def lescCompleted (C : Crypto) (cfg : Cfg) (s : St) : St :=
  let ltk := (lescKeys C cfg s).2
  { s with st := .completed, key := ltk,
           bonds := if cfg.bonding then (⟨ltk, 0, 0⟩, cfg.remoteAddr) :: s.bonds else s.bonds }

-- src: security_manager_base::lesc_handle_pairing_dhkey_check
def lescDhkeyCheck (C : Crypto) (cfg : Cfg) (s : St) (p : Bytes) : HRes :=
  if p.length ≠ 17 then fail s 0x0a
  else
    match s.st with
    | .userFailed => fail s 0x01
    | .userWait =>
        if lescEa C cfg s ≠ p.drop 1 then fail s 0x0b
        -- connection data `remote_dhkey_check_verified`; Eb is sent by `lesc_l2cap_output`
        else ({ s with st := .userWaitVerified }, [], none)
    | .lescRandomExchanged | .userSuccess =>
        if lescEa C cfg s ≠ p.drop 1 then fail s 0x0b
        else (lescCompleted C cfg s, 0x0d :: lescEb C cfg s, none)
    | _ => fail s 0x08

-- src: security_manager_base::lesc_security_manager_output_available
def lescOutputAvailable (s : St) : Bool :=
  s.st = .lescKeysExchanged || s.st = .userSuccess || s.st = .userFailed

-- src: security_manager_base::lesc_l2cap_output
def lescOutput (C : Crypto) (cfg : Cfg) (s : St) : HRes :=
  match s.st with
  | .lescKeysExchanged =>
      ({ s with st := .lescConfirmSend },
       0x03 :: C.f4 (s.localPub.take 32) (s.remotePub.take 32) s.localNonce 0, none)
  | .userSuccess => (lescCompleted C cfg s, 0x0d :: lescEb C cfg s, none)
  | _ => fail s 0x01

-- src: bonding_db_data_t::distribute_keys / no_bonding_data_base::...::distribute_keys
def distributeKeys (cfg : Cfg) (s : St) : HRes :=
  if cfg.bonding ∧ s.encrypted then
    if s.pendEnc then
      ({ s with pendEnc := false, pendKey := { s.pendKey with key := zero16 } },
       0x06 :: s.pendKey.key, none)
    else if s.pendCid then
      ({ s with pendCid := false }, 0x07 :: (le16 s.pendKey.ediv ++ le64 s.pendKey.rand), none)
    else (s, [], none)
  else (s, [], none)

/-! ### l2cap_input / l2cap_output of the three managers -/

-- src: legacy_security_manager_impl::l2cap_input
def legacyInput (C : Crypto) (cfg : Cfg) (s : St) (p : Bytes) : HRes :=
  match p.head? with
  | none => fail s 0x0a
  | some 0x01 => legacyRequest C cfg s p
  | some 0x03 => legacyConfirm C cfg s p
  | some 0x04 => legacyRandom C cfg s p
  | some _ => fail s 0x07

-- src: lesc_security_manager_impl::l2cap_input
def lescInput (C : Crypto) (cfg : Cfg) (s : St) (p : Bytes) : HRes :=
  match p.head? with
  | none => fail s 0x0a
  | some 0x01 => lescRequest cfg s p
  | some 0x0c => lescPublicKey C s p
  | some 0x04 => lescRandom C cfg s p
  | some 0x0d => lescDhkeyCheck C cfg s p
  | some _ => fail s 0x07

-- src: security_manager_impl::l2cap_input
def bothInput (C : Crypto) (cfg : Cfg) (s : St) (p : Bytes) : HRes :=
  match p.head? with
  | none => fail s 0x0a
  | some 0x01 => bothRequest C cfg s p
  | some 0x03 => legacyConfirm C cfg s p
  | some 0x04 => if s.st = .legacyConfirmed then legacyRandom C cfg s p else lescRandom C cfg s p
  | some 0x0c => lescPublicKey C s p
  | some 0x0d => lescDhkeyCheck C cfg s p
  | some _ => fail s 0x07

def l2capInput (C : Crypto) (cfg : Cfg) (s : St) (p : Bytes) : HRes :=
  match cfg.variant with
  | .legacy => legacyInput C cfg s p
  | .lesc => lescInput C cfg s p
  | .both => bothInput C cfg s p

-- src: {legacy_,lesc_,}security_manager_impl::l2cap_output
def l2capOutput (C : Crypto) (cfg : Cfg) (s : St) : HRes :=
  match cfg.variant with
  | .legacy => distributeKeys cfg s
  | .lesc => if lescOutputAvailable s then lescOutput C cfg s else (s, [], none)
  | .both => if lescOutputAvailable s then lescOutput C cfg s else distributeKeys cfg s

/-! ### find_key -/

-- src: {legacy_,lesc_,}security_connection_data::find_key
def findKeyLocal (s : St) (ediv rand : Nat) : Option Bytes :=
  if ediv = 0 ∧ rand = 0 ∧ s.st = .completed then some s.key else none

/-- the bonding data base of the harness: the most recently stored bond with the requested
    EDIV, Rand and peer address -/
def dbFind (bonds : List (LtkRec × Bytes)) (ediv rand : Nat) (mac : Bytes) : Option Bytes :=
  match bonds with
  | [] => none
  | (k, m) :: rest =>
      if k.ediv = ediv ∧ k.rand = rand ∧ m = mac then some k.key else dbFind rest ediv rand mac

-- src: bonding_db_data_t::find_key (local key first, then the data base) / no bonding: local only
def findKey (cfg : Cfg) (s : St) (ediv rand : Nat) : Option Bytes :=
  match findKeyLocal s ediv rand with
  | some k => some k
  | none => if cfg.bonding then dbFind s.bonds ediv rand cfg.remoteAddr else none

/-! ### operations -/

inductive Op
  | pdu (p : Bytes)                 -- l2cap_input
  | out                             -- l2cap_output poll
  | enc (b : Bool)                  -- link_state::is_encrypted( b )
  | user (m : UserMode)
  | answer (b : Bool)               -- deferred pairing_yes_no_response::yes_no_response( b )
  | kbd (n : Nat)
  | oob (avail : Bool) (d : Bytes)
  | findKey (ediv rand : Nat)
  | conn                            -- disconnect + new connection (same manager, same data base)
deriving Repr

inductive Out
  | rsp (b : Bytes) (disp : Option Nat)
  | ok
  | illegal
  | key (k : Option Bytes)
deriving Repr, DecidableEq

-- src: {lesc_,}security_connection_data::yes_no_response (asserts user_response_wait or
-- user_response_wait_dhkey_verified; the harness and the model refuse the call in any other state)
def answer (s : St) (b : Bool) : St × Out :=
  if s.st = .userWait ∨ s.st = .userWaitVerified then ({ s with st := yesNoResponse s.st b }, .ok)
  else (s, .illegal)

def step (C : Crypto) (cfg : Cfg) (s : St) : Op → St × Out
  | .pdu p => let r := l2capInput C cfg s p; (r.1, .rsp r.2.1 r.2.2)
  | .out => let r := l2capOutput C cfg s; (r.1, .rsp r.2.1 r.2.2)
  | .enc b => ({ s with encrypted := b }, .ok)
  | .user m => ({ s with userMode := m }, .ok)
  | .answer b => answer s b
  | .kbd n => ({ s with kbd := n }, .ok)
  | .oob a d => ({ s with envOobAvail := a, envOobData := d }, .ok)
  | .findKey e r => (s, .key (findKey cfg s e r))
  | .conn => (newConnection s, .ok)

/-- run a history, collecting the outputs -/
def run (C : Crypto) (cfg : Cfg) (s : St) : List Op → St × List Out
  | [] => (s, [])
  | op :: ops =>
      let r := step C cfg s op
      let r' := run C cfg r.1 ops
      (r'.1, r.2 :: r'.2)

end BluetoeModel.Sm
