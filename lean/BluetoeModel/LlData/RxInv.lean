import BluetoeModel.LlData.Lemmas
/-!
  Receive direction invariant of the closed system (central → peripheral → upper layers).
-/
namespace BluetoeModel.LlData

/-- The PDUs of the central that the peripheral acknowledges: everything the central already saw
    acknowledged, plus the PDU in flight iff the peripheral's NESN (`next_expected_sequence_number_`,
    sent in every header) differs from that PDU's SN. -/
def accepted (s : Sys) : List Msg :=
  match s.c.inflight with
  | none => s.c.done
  | some m => if s.p.nesn = s.c.sn then s.c.done else s.c.done ++ [m]

structure RxInv (s : Sys) : Prop where
  /-- central has nothing in flight: the peripheral expects the central's next SN -/
  sync  : s.c.inflight = none → s.p.nesn = s.c.sn
  /-- handed to the upper layers or waiting in the receive queue = the deliverable ones among the
      acknowledged PDUs, in order, each once -/
  deliv : (s.delivered ++ s.p.rxq).map Pdu.msg = (accepted s).filter Dlv
  /-- receive packet counter callbacks = non-empty acknowledged PDUs -/
  cnt   : s.p.rxCnt = ((accepted s).filter NE).length

theorem RxInv_init : RxInv Sys.init := ⟨fun _ => rfl, rfl, rfl⟩

/-- effect of one radio reaction on the receive direction: nothing, or a new PDU accepted -/
def RxEff (p : P) (x : Pdu) (p' : P) : Prop :=
  (p'.nesn = p.nesn ∧ p'.rxq = p.rxq ∧ p'.rxCnt = p.rxCnt) ∨
  (x.sn = p.nesn ∧ p'.nesn = (!p.nesn) ∧
    p'.rxq = p.rxq ++ (if Dlv x.msg then [x] else []) ∧
    p'.rxCnt = p.rxCnt + (if NE x.msg then 1 else 0))

theorem nextTransmit_rx (p : P) (x : Pdu) : RxEff p x (nextTransmit p).1 := by
  have h := nextTransmit_frame p
  exact Or.inl ⟨h.1, h.2.1, h.2.2.1⟩

theorem acknowledgePdu_rx (p : P) (x : Pdu) :
    RxEff p x (acknowledgePdu p x).1 ∧ (acknowledgePdu p x).2.nesn = (acknowledgePdu p x).1.nesn := by
  unfold acknowledgePdu
  have ha := ackBit_frame p x.nesn
  split
  · have h := nextTransmit_frame (ackBit p x.nesn)
    refine ⟨Or.inl ⟨?_, ?_, ?_⟩, ?_⟩
    · rw [h.1, ha.1]
    · rw [h.2.1, ha.2.1]
    · rw [h.2.2.1, ha.2.2.1]
    · rw [h.2.2.2.2.2.2, h.1]
  · have h := nextTransmit_frame p
    exact ⟨Or.inl ⟨h.1, h.2.1, h.2.2.1⟩, by rw [h.2.2.2.2.2.2, h.1]⟩

theorem received_rx (p : P) (x : Pdu) :
    RxEff p x (received p x).1 ∧ (received p x).2.nesn = (received p x).1.nesn := by
  have ha := ackBit_frame p x.nesn
  obtain ⟨a1, a2, a3, -, -⟩ := ha
  unfold received
  simp only
  generalize hq : ackBit p x.nesn = q at a1 a2 a3
  by_cases hs : x.sn = p.nesn
  · have hs' : (x.sn == q.nesn) = true := by simp [a1, hs]
    simp only [hs', if_true]
    by_cases hb : x.body.length ≠ 0
    · rw [if_pos hb]
      by_cases hl : x.llid ≠ 0
      · rw [if_pos hl]
        have h := nextTransmit_frame { q with nesn := !q.nesn, rxq := q.rxq ++ [x], rxCnt := q.rxCnt + 1 }
        refine ⟨Or.inr ⟨hs, ?_, ?_, ?_⟩, ?_⟩
        · rw [h.1]; simp [a1]
        · rw [h.2.1]
          have : Dlv x.msg = true := by
            simp only [Dlv, Pdu.msg, Bool.and_eq_true, Bool.not_eq_true', bne_iff_ne]
            exact ⟨by cases hx : x.body <;> simp_all, hl⟩
          simp [this, a2]
        · rw [h.2.2.1]
          have : NE x.msg = true := by
            simp only [NE, Pdu.msg, Bool.not_eq_true']
            cases hx : x.body <;> simp_all
          simp [this, a3]
        · rw [h.2.2.2.2.2.2, h.1]
      · rw [if_neg hl]
        have h := nextTransmit_frame { q with nesn := !q.nesn, rxCnt := q.rxCnt + 1 }
        have hl0 : x.llid = 0 := by simpa using hl
        refine ⟨Or.inr ⟨hs, ?_, ?_, ?_⟩, ?_⟩
        · rw [h.1]; simp [a1]
        · rw [h.2.1]
          have : Dlv x.msg = false := by simp [Dlv, Pdu.msg, hl0]
          simp [this, a2]
        · rw [h.2.2.1]
          have : NE x.msg = true := by
            simp only [NE, Pdu.msg, Bool.not_eq_true']
            cases hx : x.body <;> simp_all
          simp [this, a3]
        · rw [h.2.2.2.2.2.2, h.1]
    · rw [if_neg hb]
      have h := nextTransmit_frame { q with nesn := !q.nesn }
      have hb0 : x.body = [] := by
        cases hx : x.body with
        | nil => rfl
        | cons a l => simp [hx] at hb
      refine ⟨Or.inr ⟨hs, ?_, ?_, ?_⟩, ?_⟩
      · rw [h.1]; simp [a1]
      · rw [h.2.1]
        have : Dlv x.msg = false := by simp [Dlv, Pdu.msg, hb0]
        simp [this, a2]
      · rw [h.2.2.1]
        have : NE x.msg = false := by simp [NE, Pdu.msg, hb0]
        simp [this, a3]
      · rw [h.2.2.2.2.2.2, h.1]
  · have hs' : (x.sn == q.nesn) = false := by simp [a1, hs]
    simp only [hs', Bool.false_eq_true, if_false]
    have h := nextTransmit_frame q
    refine ⟨Or.inl ⟨?_, ?_, ?_⟩, ?_⟩
    · rw [h.1, a1]
    · rw [h.2.1, a2]
    · rw [h.2.2.1, a3]
    · rw [h.2.2.2.2.2.2, h.1]

/-- every reaction of the radio: effect as above, and the answer carries the new NESN -/
theorem radioEvent_rx (p : P) (f : Fault) (alloc : Bool) (x : Pdu) :
    RxEff p x (radioEvent p f alloc x).1 ∧
    ∀ r, (radioEvent p f alloc x).2 = some r → r.nesn = (radioEvent p f alloc x).1.nesn := by
  have hnt : RxEff p x (nextTransmit p).1 ∧ (nextTransmit p).2.nesn = (nextTransmit p).1.nesn := by
    have h := nextTransmit_frame p
    exact ⟨nextTransmit_rx p x, by rw [h.2.2.2.2.2.2, h.1]⟩
  unfold radioEvent
  cases f with
  | lost => exact ⟨Or.inl ⟨rfl, rfl, rfl⟩, fun r h => by simp at h⟩
  | crc => exact ⟨hnt.1, fun r h => by simp at h; rw [← h]; exact hnt.2⟩
  | ok =>
    cases alloc
    · exact ⟨hnt.1, fun r h => by simp at h; rw [← h]; exact hnt.2⟩
    · have := received_rx p x
      exact ⟨this.1, fun r h => by simp at h; rw [← h]; exact this.2⟩
  | mic =>
    cases alloc
    · exact ⟨hnt.1, fun r h => by simp at h; rw [← h]; exact hnt.2⟩
    · by_cases hb : x.body.isEmpty = true
      · have := received_rx p x
        simp only [hb, if_true]
        exact ⟨this.1, fun r h => by simp at h; rw [← h]; exact this.2⟩
      · have := acknowledgePdu_rx p x
        simp only [hb, if_true]
        exact ⟨this.1, fun r h => by simp at h; rw [← h]; exact this.2⟩

/-! ### the central's side -/

theorem cSend_facts (c : C) (new : Msg) :
    (cSend c new).1.sn = c.sn ∧ (cSend c new).1.nesn = c.nesn ∧ (cSend c new).1.done = c.done ∧
    (cSend c new).1.got = c.got ∧ (cSend c new).2.sn = c.sn ∧ (cSend c new).2.nesn = c.nesn ∧
    (cSend c new).1.inflight = some (cSend c new).2.msg ∧
    (∀ m, c.inflight = some m → (cSend c new).2.msg = m) ∧
    (c.inflight = none → (cSend c new).2.msg = new) := by
  unfold cSend
  cases h : c.inflight <;> simp [mkPdu, Pdu.msg, h]

/-- acknowledgement half of `cRecv` -/
theorem cRecv_ack (c : C) (r : Pdu) :
    (r.nesn ≠ c.sn → (cRecv c r).sn = (!c.sn) ∧ (cRecv c r).done = c.done ++ c.inflight.toList ∧
        (cRecv c r).inflight = none) ∧
    (r.nesn = c.sn → (cRecv c r).sn = c.sn ∧ (cRecv c r).done = c.done ∧
        (cRecv c r).inflight = c.inflight) := by
  unfold cRecv
  constructor
  · intro h
    have : (r.nesn != c.sn) = true := by simpa using h
    simp only [this, if_true]
    split <;> simp
  · intro h
    have : (r.nesn != c.sn) = false := by simp [h]
    simp only [this, Bool.false_eq_true, if_false]
    split <;> simp

/-- new-data half of `cRecv` -/
theorem cRecv_data (c : C) (r : Pdu) :
    (r.sn = c.nesn → (cRecv c r).nesn = (!c.nesn) ∧ (cRecv c r).got = c.got ++ [r.msg]) ∧
    (r.sn ≠ c.nesn → (cRecv c r).nesn = c.nesn ∧ (cRecv c r).got = c.got) := by
  unfold cRecv
  constructor
  · intro h
    split <;> simp [h]
  · intro h
    have h' : (r.sn == c.nesn) = false := by simpa using h
    split <;> simp [h']

/-! ### preservation -/

theorem RxInv_ev (s : Sys) (h : RxInv s) (new : Msg) (f1 : Fault) (f2 alloc : Bool) :
    RxInv (s.step (.ev new f1 f2 alloc)) := by
  obtain ⟨c1sn, -, c1done, -, xsn, -, c1in, hre, hnew⟩ := cSend_facts s.c new
  obtain ⟨heff, hr⟩ := radioEvent_rx s.p f1 alloc (cSend s.c new).2
  simp only [Sys.step]
  generalize hc1 : (cSend s.c new).1 = c1 at c1sn c1done c1in
  generalize hx : (cSend s.c new).2 = x at xsn c1in hre hnew heff hr
  generalize hp1 : (radioEvent s.p f1 alloc x).1 = p1 at heff hr
  generalize hro : (radioEvent s.p f1 alloc x).2 = ro at hr
  -- the invariant after the central transmitted, before the radio reacts
  have acc0 : accepted { s with c := c1 } = accepted s := by
    unfold accepted
    simp only [c1in, c1sn, c1done]
    cases hi : s.c.inflight with
    | none => simp [h.sync hi]
    | some m => simp [hre m hi]
  -- after the radio reacted
  have inv1 : RxInv { s with p := p1, c := c1 } := by
    rcases heff with ⟨e1, e2, e3⟩ | ⟨e0, e1, e2, e3⟩
    · have : accepted { s with p := p1, c := c1 } = accepted s := by
        rw [← acc0]; unfold accepted; simp only [e1]
      exact ⟨fun hi => by simp [c1in] at hi, by rw [this]; simp only [e2]; exact h.deliv,
        by rw [this]; simp only [e3]; exact h.cnt⟩
    · -- a new PDU accepted: before, the PDU in flight was not acknowledged
      have hb : s.p.nesn = s.c.sn := by rw [← e0, xsn]
      have before : accepted s = s.c.done := by
        rw [← acc0]; unfold accepted; simp only [c1in, c1sn, c1done, hb, if_true]
      have after : accepted { s with p := p1, c := c1 } = s.c.done ++ [x.msg] := by
        unfold accepted; simp only [c1in, c1sn, c1done, e1, hb]
        cases s.c.sn <;> simp
      refine ⟨fun hi => by simp [c1in] at hi, ?_, ?_⟩
      · rw [after]; simp only [e2]
        have := h.deliv
        rw [before] at this
        rw [List.filter_append, ← this]
        by_cases hd : Dlv x.msg = true
        · simp [hd, List.filter]
        · simp [hd, List.filter]
      · rw [after]; simp only [e3]
        have := h.cnt
        rw [before] at this
        rw [List.filter_append, List.length_append, ← this]
        by_cases hd : NE x.msg = true
        · simp [hd, List.filter]
        · simp [hd, List.filter]
  -- the central receives the answer (or not)
  have fin : ∀ r, ro = some r → RxInv { s with p := p1, c := cRecv c1 r } := by
    intro r hrr
    have hn := hr r hrr
    obtain ⟨ack, nack⟩ := cRecv_ack c1 r
    by_cases hq : r.nesn = c1.sn
    · obtain ⟨q1, q2, q3⟩ := nack hq
      have : accepted { s with p := p1, c := cRecv c1 r } = accepted { s with p := p1, c := c1 } := by
        unfold accepted; simp only [q1, q2, q3]
      exact ⟨fun hi => by rw [q3, c1in] at hi; simp at hi, by rw [this]; exact inv1.deliv,
        by rw [this]; exact inv1.cnt⟩
    · obtain ⟨q1, q2, q3⟩ := ack hq
      have hne : p1.nesn ≠ c1.sn := by rw [← hn]; exact hq
      have : accepted { s with p := p1, c := cRecv c1 r } = accepted { s with p := p1, c := c1 } := by
        unfold accepted; simp only [q2, q3, c1in, hne, if_false, Option.toList]
      refine ⟨fun _ => ?_, by rw [this]; exact inv1.deliv, by rw [this]; exact inv1.cnt⟩
      simp only [q1]
      revert hne; cases p1.nesn <;> cases c1.sn <;> simp
  cases ro with
  | none => exact inv1
  | some r =>
    cases f2
    · exact inv1
    · exact fin r rfl

end BluetoeModel.LlData
