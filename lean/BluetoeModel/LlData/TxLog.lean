import BluetoeModel.LlData.TxInv
/-!
  Bookkeeping invariant of the transmit direction: nothing committed is lost or reordered, and the
  transmit packet counter callback count equals the acknowledged non-empty PDUs.
-/
namespace BluetoeModel.LlData

/-- `cm` = the PDUs committed while running (history) -/
def TxLog (cm : List Msg) (p : P) : Prop :=
  cm = ((p.gone ++ pend p).map Pdu.msg).filter NE ∧
  p.txCnt = ((p.gone.map Pdu.msg).filter NE).length ∧
  ∀ x ∈ p.txq, NE x.msg = true

theorem pend_msg (p : P) : (pend p).map Pdu.msg = (pk p).map (·.2) := by
  unfold pk; simp [Pdu.key, Function.comp_def]

theorem TxSame_log {q q' : P} (h : TxSame q q') {cm : List Msg} (hl : TxLog cm q) : TxLog cm q' := by
  unfold TxLog at *
  rw [List.map_append, pend_msg, TxSame_pk h, ← pend_msg, ← List.map_append, h.2.2.2.2.1,
    h.2.2.2.2.2, h.2.2.2.1]
  exact hl

theorem ackBit_txq_subset (p : P) (n : Bool) : ∀ x ∈ (ackBit p n).txq, x ∈ p.txq := by
  unfold ackBit
  intro x
  split
  · split <;> simp
  · split
    · simp
    · rename_i h t heq
      split
      · simp only [heq]; intro hx; exact List.mem_cons_of_mem _ hx
      · simp

theorem TxLog_ackBit {cm : List Msg} {p : P} (h : TxLog cm p) (n : Bool) : TxLog cm (ackBit p n) := by
  obtain ⟨h1, h2, h3⟩ := h
  cases hq : pend p with
  | nil => rw [ackBit_nil p n hq]; exact ⟨h1, h2, h3⟩
  | cons a l =>
    by_cases hs : a.sn = n
    · rw [ackBit_keep p n a l hq hs]; exact ⟨h1, h2, h3⟩
    · obtain ⟨d1, d2, d3⟩ := ackBit_drop p n a l hq hs
      refine ⟨?_, ?_, fun x hx => h3 x (ackBit_txq_subset p n x hx)⟩
      · rw [d1, d2, h1, hq]; simp
      · rw [d2, d3, h2]
        -- a pending empty PDU is not counted, a queued PDU is
        unfold pend at hq
        cases hne : p.nextEmpty
        · simp only [hne, Bool.false_eq_true, if_false, List.nil_append] at hq
          have : NE a.msg = true := h3 a (by rw [hq]; exact List.mem_cons_self)
          simp [List.filter_append, List.filter, this]
        · simp only [hne, if_true, List.cons_append, List.nil_append, List.cons.injEq] at hq
          have : NE a.msg = false := by rw [← hq.1]; rfl
          simp [List.filter_append, List.filter, this]

theorem TxLog_nextTransmit {cm : List Msg} {p : P} (h : TxLog cm p) : TxLog cm (nextTransmit p).1 := by
  obtain ⟨h1, h2, h3⟩ := h
  have hf := nextTransmit_frame p
  cases hq : pend p with
  | nil =>
    obtain ⟨n1, -, -, n4⟩ := nextTransmit_nil p hq
    refine ⟨?_, by rw [hf.2.2.2.1, hf.2.2.2.2.1]; exact h2, by rw [n4]; simp⟩
    rw [n1, hf.2.2.2.1, h1, hq]
    simp [List.filter_append, List.filter, emptyPdu, Pdu.msg, NE]
  | cons a l =>
    obtain ⟨c1, -, -, c4, -⟩ := nextTransmit_cons p a l hq
    refine ⟨?_, by rw [hf.2.2.2.1, hf.2.2.2.2.1]; exact h2, ?_⟩
    · rw [List.map_append, pend_msg, c1, ← pend_msg, ← List.map_append, hf.2.2.2.1]; exact h1
    · intro x hx
      have : x.msg ∈ (nextTransmit p).1.txq.map Pdu.msg := List.mem_map_of_mem hx
      rw [c4] at this
      obtain ⟨y, hy, hxy⟩ := List.mem_map.mp this
      rw [← hxy]; exact h3 y hy

theorem radioEvent_log {cm : List Msg} {p : P} (h : TxLog cm p) (f : Fault) (alloc : Bool) (x : Pdu) :
    TxLog cm (radioEvent p f alloc x).1 := by
  have hnt := TxLog_nextTransmit h
  have hrec : TxLog cm (received p x).1 := by
    obtain ⟨q', hs, he⟩ := received_tx p x
    rw [he]
    exact TxLog_nextTransmit (TxSame_log hs (TxLog_ackBit h _))
  have hack : TxLog cm (acknowledgePdu p x).1 := by
    unfold acknowledgePdu
    simp only
    split
    · exact TxLog_nextTransmit (TxLog_ackBit h _)
    · exact hnt
  unfold radioEvent
  cases f with
  | lost => exact h
  | crc => exact hnt
  | ok =>
    cases alloc
    · exact hnt
    · exact hrec
  | mic =>
    cases alloc
    · exact hnt
    · by_cases hb : x.body.isEmpty = true
      · simp only [hb, if_true]; exact hrec
      · simp only [hb, if_true]; exact hack

theorem TxLog_commit {cm : List Msg} {p : P} (h : TxLog cm p) (m : Msg) (hm : NE m = true) :
    TxLog (if p.stopped then cm else cm ++ [m]) (commit p m) := by
  obtain ⟨h1, h2, h3⟩ := h
  unfold commit
  split
  · exact ⟨h1, h2, h3⟩
  · refine ⟨?_, h2, ?_⟩
    · rw [h1]; unfold pend
      simp [List.filter_append, List.filter, Pdu.msg, hm]
    · intro x hx
      simp only [List.mem_append, List.mem_singleton] at hx
      rcases hx with hx | hx
      · exact h3 x hx
      · rw [hx]; exact hm

/-- well-formed link layer traffic: committed PDUs have at least one payload byte (all call sites
    of `commit_transmit_buffer`: LL control PDUs carry an opcode, L2CAP fragments are non-empty) -/
def Op.WF : Op → Prop
  | .tx m _ => NE m = true
  | _ => True

structure TxLogInv (s : Sys) : Prop where
  log : TxLog s.committed s.p

theorem TxLogInv_init : TxLogInv Sys.init := ⟨⟨rfl, rfl, by simp [Sys.init, P.init]⟩⟩

theorem TxLogInv_step (s : Sys) (h : TxLogInv s) (op : Op) (hw : op.WF) : TxLogInv (s.step op) := by
  cases op with
  | tx m alloc =>
    simp only [Sys.step]
    cases alloc
    · exact h
    · exact ⟨TxLog_commit h.log m hw⟩
  | free =>
    simp only [Sys.step]
    split
    · exact h
    · exact ⟨TxSame_log (q := s.p) ⟨rfl, rfl, rfl, rfl, rfl, rfl⟩ h.log⟩
  | stop => exact ⟨TxSame_log (q := s.p) ⟨rfl, rfl, rfl, rfl, rfl, rfl⟩ h.log⟩
  | ev new f1 f2 alloc =>
    simp only [Sys.step]
    exact ⟨radioEvent_log h.log f1 alloc _⟩

/-! ### remaining steps of the receive direction invariant -/

theorem accepted_congr (s s' : Sys) (hc : s'.c = s.c) (hn : s'.p.nesn = s.p.nesn) :
    accepted s' = accepted s := by
  unfold accepted; rw [hc, hn]

theorem RxInv_step (s : Sys) (h : RxInv s) (op : Op) : RxInv (s.step op) := by
  cases op with
  | tx m alloc =>
    simp only [Sys.step]
    cases alloc
    · exact h
    · have hc : (commit s.p m).nesn = s.p.nesn ∧ (commit s.p m).rxq = s.p.rxq ∧
          (commit s.p m).rxCnt = s.p.rxCnt := by
        unfold commit; split <;> simp
      simp only [if_true]
      refine ⟨fun hi => by simp only [hc.1]; exact h.sync hi, ?_, ?_⟩
      · simpa [accepted, hc.1, hc.2.1] using h.deliv
      · simpa [accepted, hc.1, hc.2.2] using h.cnt
  | free =>
    simp only [Sys.step]
    cases hq : nextReceived s.p with
    | none => exact h
    | some x =>
      simp only
      unfold nextReceived at hq
      have hr : s.p.rxq = x :: s.p.rxq.tail := by
        cases hrx : s.p.rxq with
        | nil => simp [hrx] at hq
        | cons a l => simp [hrx] at hq; simp [hq]
      have e := accepted_congr s { s with p := freeReceived s.p, delivered := s.delivered ++ [x] } rfl rfl
      refine ⟨h.sync, ?_, ?_⟩
      · rw [e, ← h.deliv]
        conv => rhs; rw [hr]
        simp [freeReceived]
      · rw [e]; exact h.cnt
  | stop =>
    have e : accepted (s.step .stop) = accepted s := accepted_congr s (s.step .stop) rfl rfl
    exact ⟨h.sync, by rw [e]; exact h.deliv, by rw [e]; exact h.cnt⟩
  | ev new f1 f2 alloc => exact RxInv_ev s h new f1 f2 alloc
/-! ### all histories -/

theorem RxInv_run (s : Sys) (h : RxInv s) (ops : List Op) : RxInv (Sys.run s ops) := by
  induction ops generalizing s with
  | nil => exact h
  | cons o os ih => exact ih _ (RxInv_step s h o)

theorem TxInv_run (s : Sys) (h : TxInv s) (ops : List Op) : TxInv (Sys.run s ops) := by
  induction ops generalizing s with
  | nil => exact h
  | cons o os ih => exact ih _ (TxInv_step s h o)

theorem TxLogInv_run (s : Sys) (h : TxLogInv s) (ops : List Op) (hw : ∀ op ∈ ops, op.WF) :
    TxLogInv (Sys.run s ops) := by
  induction ops generalizing s with
  | nil => exact h
  | cons o os ih =>
    exact ih _ (TxLogInv_step s h o (hw o List.mem_cons_self))
      (fun op hop => hw op (List.mem_cons_of_mem _ hop))

end BluetoeModel.LlData
