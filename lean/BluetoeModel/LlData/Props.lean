import BluetoeModel.LlData.TxLog
/-!
  # C15, C16, C17 — properties of the link layer data buffer `ll_data_pdu_buffer`

  All theorems are about the closed system `Sys` of Model.lean: the model of the buffer code, the
  radio's dispatch of receptions, a central following the Core specification and a channel that
  loses / corrupts PDUs in both directions as dictated by an **arbitrary** list of operations
  (`Op.ev new f1 f2 alloc`: fault `f1 ∈ {ok, lost, crc, mic}` towards the peripheral, `f2` = answer
  received by the central, `alloc` = a receive buffer was free), interleaved with arbitrary link
  layer calls (`tx`, `free`, `stop`).  `reach ops` is the state after the history `ops`; every
  theorem quantifies over all histories (no bound on their length).
-/
namespace BluetoeModel.LlData

abbrev reach (ops : List Op) : Sys := Sys.run Sys.init ops

/-- every new PDU the central has created so far, in order -/
def cSent (s : Sys) : List Msg := s.c.done ++ s.c.inflight.toList

/-- what the receive side handed to the upper layers or still queues for them, in order -/
def handedUp (s : Sys) : List Msg := (s.delivered ++ s.p.rxq).map Pdu.msg

/-! ## C15 — "Link layer data delivery is reliable, ordered and exactly-once" -/

/-- **C15**, receive direction: "every new PDU from the central is handed to upper layers exactly
    once and in order; retransmissions are never delivered twice. A full receive buffer never
    acknowledges a PDU it did not store."
    For every history: the PDUs handed up are *exactly* the deliverable (non-empty, LLID ≠ 0) ones
    among the central's PDUs the peripheral acknowledges by its NESN (`accepted`), in the central's
    order, each once; and `accepted` lies between what the central knows to be acknowledged and
    what it has sent.  Acknowledged ⇒ stored, stored ⇒ acknowledged, for all fault lists (incl. MIC
    failures) and all allocation outcomes. -/
theorem rx_exactly_once_in_order (ops : List Op) :
    handedUp (reach ops) = (accepted (reach ops)).filter Dlv ∧
    (reach ops).c.done <+: accepted (reach ops) ∧ accepted (reach ops) <+: cSent (reach ops) := by
  refine ⟨(RxInv_run _ RxInv_init ops).deliv, ?_, ?_⟩
  · unfold accepted
    cases (reach ops).c.inflight with
    | none => exact ⟨[], by simp⟩
    | some m =>
      simp only
      split
      · exact ⟨[], by simp⟩
      · exact ⟨[m], rfl⟩
  · unfold accepted cSent
    cases (reach ops).c.inflight with
    | none => exact ⟨[], by simp⟩
    | some m =>
      simp only [Option.toList]
      split
      · exact ⟨[m], rfl⟩
      · exact ⟨[], by simp⟩

/-- **C15**: "…is considered delivered only after [the peer] acknowledged it", central → peripheral:
    whatever the central considers delivered (its acknowledged PDUs `done`) has been stored for the
    upper layers, and nothing is handed up that the central did not send, nothing twice. -/
theorem central_done_implies_accepted (ops : List Op) :
    ((reach ops).c.done.filter Dlv) <+: handedUp (reach ops) ∧
    handedUp (reach ops) <+: (cSent (reach ops)).filter Dlv := by
  obtain ⟨h1, ⟨t, h2⟩, ⟨u, h3⟩⟩ := rx_exactly_once_in_order ops
  rw [h1]
  exact ⟨⟨t.filter Dlv, by rw [← h2, List.filter_append]⟩, ⟨u.filter Dlv, by rw [← h3, List.filter_append]⟩⟩

theorem radioEvent_full (p : P) (f : Fault) (x : Pdu) :
    ((radioEvent p f false x).1 = p ∧ (radioEvent p f false x).2 = none) ∨
    ((radioEvent p f false x).1 = (nextTransmit p).1 ∧ (radioEvent p f false x).2 = some (nextTransmit p).2) := by
  cases f <;> simp [radioEvent]

/-- **C15**: "A full receive buffer never acknowledges a PDU it did not store": in any state, an
    exchange for which no receive buffer could be allocated leaves `next_expected_sequence_number_`
    and the receive queue unchanged, and the answer (if any) carries the old NESN. -/
theorem full_never_acks (s : Sys) (new : Msg) (f1 : Fault) (f2 : Bool) :
    (s.step (.ev new f1 f2 false)).p.nesn = s.p.nesn ∧
    (s.step (.ev new f1 f2 false)).p.rxq = s.p.rxq ∧
    ∀ r, (radioEvent s.p f1 false (cSend s.c new).2).2 = some r → r.nesn = s.p.nesn := by
  have hf := nextTransmit_frame s.p
  simp only [Sys.step]
  rcases radioEvent_full s.p f1 (cSend s.c new).2 with ⟨e1, e2⟩ | ⟨e1, e2⟩
  · rw [e1, e2]; exact ⟨rfl, rfl, fun r h => by simp at h⟩
  · rw [e1, e2]
    exact ⟨hf.1, hf.2.1, fun r h => by simp at h; rw [← h]; exact hf.2.2.2.2.2.2⟩

/-- **C15**, transmit direction: "every data or control PDU the peripheral commits is transmitted
    until acknowledged": while a PDU `h` heads the pending list (`pend`: the pending empty PDU, then
    the transmit queue), every `next_transmit()` returns it with the same SN, LLID and payload and
    keeps the list; an incoming NESN equal to its SN changes nothing; only an NESN different from
    its SN removes it (and only it). -/
theorem tx_until_acked (p : P) (h : Pdu) (t : List Pdu) (hp : pend p = h :: t) :
    (nextTransmit p).2.key = h.key ∧ pk (nextTransmit p).1 = pk p ∧
    (∀ n, n = h.sn → ackBit p n = p) ∧
    (∀ n, n ≠ h.sn → pend (ackBit p n) = t ∧ (ackBit p n).gone = p.gone ++ [h]) := by
  obtain ⟨c1, -, c3, -, -⟩ := nextTransmit_cons p h t hp
  refine ⟨c3, c1, fun n hn => ackBit_keep p n h t hp hn.symm, fun n hn => ?_⟩
  obtain ⟨d1, d2, -⟩ := ackBit_drop p n h t hp (fun e => hn e.symm)
  exact ⟨d1, d2⟩

/-- non-vacuity of `tx_until_acked`: a committed PDU behind a pending empty PDU -/
example : pend (commit (nextTransmit P.init).1 (2, [7])) =
    [emptyPdu false false, { llid := 2, nesn := false, sn := true, md := false, rfu := 0, body := [7] }] := by
  decide

/-- **C15**: "…and is considered delivered only after the central acknowledged it": for every
    history, the PDUs the buffer has stopped transmitting (`gone`: popped from the transmit queue
    or the finished empty PDU) have all been received by the central, in that order; the central
    is at most one PDU ahead (the head of the pending list). -/
theorem tx_delivered_only_after_ack (ops : List Op) :
    (reach ops).p.gone.map Pdu.msg <+: (reach ops).c.got ∧
    (reach ops).c.got <+: ((reach ops).p.gone ++ pend (reach ops).p).map Pdu.msg := by
  rcases (TxInv_run _ TxInv_init ops).rel with ⟨-, hg⟩ | ⟨h, t, hp, -, hg⟩
  · rw [hg]; exact ⟨⟨[], by simp⟩, ⟨(pend (reach ops).p).map Pdu.msg, by simp⟩⟩
  · rw [hg]
    refine ⟨⟨[h.2], rfl⟩, ⟨t.map (·.2), ?_⟩⟩
    rw [List.map_append, pend_msg, hp]; simp

/-- **C15**: committed PDUs are neither lost nor reordered nor duplicated: for every history of
    well-formed link layer traffic (`Op.WF`: committed payloads are non-empty) the PDUs committed
    while running are exactly the non-empty PDUs acknowledged so far followed by the ones still
    pending, and the non-empty PDUs the central accepted are a prefix of the committed ones. -/
theorem tx_committed_in_order (ops : List Op) (hw : ∀ op ∈ ops, op.WF) :
    (reach ops).committed = (((reach ops).p.gone ++ pend (reach ops).p).map Pdu.msg).filter NE ∧
    ((reach ops).c.got.filter NE) <+: (reach ops).committed := by
  have h1 := (TxLogInv_run _ TxLogInv_init ops hw).log.1
  obtain ⟨-, ⟨u, hu⟩⟩ := tx_delivered_only_after_ack ops
  exact ⟨h1, ⟨u.filter NE, by rw [h1, ← hu, List.filter_append]⟩⟩

/-- non-vacuity: a lossy history (PDU lost, answer lost, CRC error, no receive buffer) satisfying
    `Op.WF`, with traffic in both directions; all PDUs arrive once, in order -/
def demoOps : List Op :=
  [.tx (2, [0xa1]) true, .ev (2, [1, 2]) .lost true true, .ev (2, [1, 2]) .ok false true,
   .ev (2, [9]) .crc true true, .ev (2, [9]) .ok true false, .ev (2, [9]) .ok true true,
   .tx (3, [0xb2]) true, .ev (1, []) .ok true true, .free, .ev (3, [4]) .ok true true,
   .ev (1, []) .ok true true]

example : (∀ op ∈ demoOps, op.WF) := by simp [demoOps, Op.WF, NE]
example : handedUp (reach demoOps) = [(2, [1, 2]), (2, [9]), (3, [4])] ∧
    (reach demoOps).c.got.filter NE = [(2, [0xa1]), (3, [0xb2])] ∧
    (reach demoOps).committed = [(2, [0xa1]), (3, [0xb2])] ∧
    (reach demoOps).p.rxCnt = 3 ∧ (reach demoOps).p.txCnt = 2 := by decide

/-! ## C17 — "A PDU failing its integrity check is never acknowledged as delivered" -/

/-- **C17** (full strength, for the code with fixes/lldata-01): "When a PDU arrives with a valid CRC
    but an invalid MIC, the peripheral may acknowledge the central's earlier data but never
    acknowledges that PDU as received unless it is a retransmission of a PDU already delivered".
    In *any* state `s`, for any PDU `x` with a payload arriving with a MIC failure (whether or not a
    receive buffer is free): the NESN of the buffer, its receive queue and its receive counter do not
    change and the answer carries the unchanged NESN — so `x` is acknowledged by the answer only if
    it already was acknowledged before (`x.sn ≠ s.p.nesn`: a retransmission), never when it is new. -/
theorem mic_fail_not_acked (p : P) (x : Pdu) (alloc : Bool) (hx : x.body ≠ []) :
    (radioEvent p .mic alloc x).1.nesn = p.nesn ∧
    (radioEvent p .mic alloc x).1.rxq = p.rxq ∧
    (radioEvent p .mic alloc x).1.rxCnt = p.rxCnt ∧
    (∀ r, (radioEvent p .mic alloc x).2 = some r → r.nesn = p.nesn) ∧
    (x.sn = p.nesn → ∀ r, (radioEvent p .mic alloc x).2 = some r → r.nesn = x.sn) := by
  have hb : x.body.isEmpty = false := by cases hq : x.body <;> simp_all
  have key : (radioEvent p .mic alloc x).1.nesn = p.nesn ∧
      (radioEvent p .mic alloc x).1.rxq = p.rxq ∧ (radioEvent p .mic alloc x).1.rxCnt = p.rxCnt ∧
      (∀ r, (radioEvent p .mic alloc x).2 = some r → r.nesn = p.nesn) := by
    cases alloc
    · rcases radioEvent_full p .mic x with ⟨e1, e2⟩ | ⟨e1, e2⟩
      · rw [e1, e2]; exact ⟨rfl, rfl, rfl, fun r h => by simp at h⟩
      · have hf := nextTransmit_frame p
        rw [e1, e2]
        exact ⟨hf.1, hf.2.1, hf.2.2.1, fun r h => by simp at h; rw [← h]; exact hf.2.2.2.2.2.2⟩
    · have e : radioEvent p .mic true x = ((acknowledgePdu p x).1, some (acknowledgePdu p x).2) := by
        simp [radioEvent, hb]
      obtain ⟨heff, hr⟩ := acknowledgePdu_rx p x
      have hf : (acknowledgePdu p x).1.nesn = p.nesn ∧ (acknowledgePdu p x).1.rxq = p.rxq ∧
          (acknowledgePdu p x).1.rxCnt = p.rxCnt := by
        unfold acknowledgePdu
        simp only
        have ha := ackBit_frame p x.nesn
        split
        · have h := nextTransmit_frame (ackBit p x.nesn)
          exact ⟨by rw [h.1, ha.1], by rw [h.2.1, ha.2.1], by rw [h.2.2.1, ha.2.2.1]⟩
        · have h := nextTransmit_frame p
          exact ⟨h.1, h.2.1, h.2.2.1⟩
      rw [e]
      exact ⟨hf.1, hf.2.1, hf.2.2, fun r h => by simp at h; rw [← h, hr]; exact hf.1⟩
  exact ⟨key.1, key.2.1, key.2.2.1, key.2.2.2, fun hs r h => by rw [hs]; exact key.2.2.2 r h⟩

/-- non-vacuity: a new PDU with payload hitting a MIC failure after one delivered PDU -/
example : (radioEvent (received P.init (mkPdu (2, [1]) false false)).1 .mic true (mkPdu (2, [0xff]) true true)).2
    = some (emptyPdu true true) := by decide   -- NESN = SN of the new PDU: not acknowledged

/-- **C17**: "…so the payload is either delivered or retransmitted by the central": for every
    history with MIC failures at arbitrary positions, every PDU the central has created is either
    acknowledged by the peripheral — and then handed up exactly once, in order
    (`rx_exactly_once_in_order`) — or it is the PDU in flight and the central's next transmission
    carries it again with the same SN. -/
theorem mic_fail_retransmitted_or_delivered (ops : List Op) (new : Msg) :
    handedUp (reach ops) = (accepted (reach ops)).filter Dlv ∧
    (accepted (reach ops) = cSent (reach ops) ∨
      ∃ m, (reach ops).c.inflight = some m ∧ cSent (reach ops) = accepted (reach ops) ++ [m] ∧
        (cSend (reach ops).c new).2.msg = m ∧ (cSend (reach ops).c new).2.sn = (reach ops).c.sn) := by
  refine ⟨(rx_exactly_once_in_order ops).1, ?_⟩
  obtain ⟨-, -, -, -, hsn, -, -, hre, -⟩ := cSend_facts (reach ops).c new
  unfold accepted cSent
  cases hi : (reach ops).c.inflight with
  | none => left; simp
  | some m =>
    simp only [Option.toList]
    by_cases hq : (reach ops).p.nesn = (reach ops).c.sn
    · right; exact ⟨m, rfl, by simp [hq], hre m hi, hsn⟩
    · left; simp [hq]

/-- the defect at commit 193dfc0 (`acknowledgePduOrig` = the code before fixes/lldata-01): the
    full-strength statement `mic_fail_not_acked` is false for it. After reset, a new PDU (SN 0,
    LLID 2, payload ff) with a MIC failure flips NESN — the PDU is acknowledged — while nothing is
    stored and the receive counter is not advanced. Replayed on the real code by the C17 check. -/
theorem mic_fail_witness_orig :
    ¬ (∀ (p : P) (x : Pdu), x.body ≠ [] → (acknowledgePduOrig p x).1.nesn = p.nesn) ∧
    (acknowledgePduOrig P.init (mkPdu (2, [0xff]) false false)).1.nesn = true ∧
    (acknowledgePduOrig P.init (mkPdu (2, [0xff]) false false)).1.rxq = [] ∧
    (acknowledgePduOrig P.init (mkPdu (2, [0xff]) false false)).1.rxCnt = 0 := by
  refine ⟨fun h => ?_, by decide, by decide, by decide⟩
  have := h P.init (mkPdu (2, [0xff]) false false) (by decide)
  revert this; decide

/-! ## C16 — "Encryption packet counters advance exactly once per new PDU" -/

/-- **C16**: "The receive packet counter advances exactly once for every newly received non-empty
    PDU … never for retransmissions or empty PDUs": for every history the number of
    `increment_receive_packet_counter()` calls equals the number of non-empty PDUs among the
    central's PDUs acknowledged by the peripheral; in particular whenever the peripheral still
    expects the central's current SN, it equals the number of non-empty PDUs the central has seen
    acknowledged — the central's own packet counter, so the next new PDU is decrypted with the
    nonce it was encrypted with. -/
theorem rx_counter_eq_new_nonempty (ops : List Op) :
    (reach ops).p.rxCnt = ((accepted (reach ops)).filter NE).length ∧
    ((reach ops).p.nesn = (reach ops).c.sn →
      (reach ops).p.rxCnt = ((reach ops).c.done.filter NE).length) := by
  have h := (RxInv_run _ RxInv_init ops).cnt
  refine ⟨h, fun hq => ?_⟩
  rw [h]; unfold accepted
  cases (reach ops).c.inflight <;> simp [hq]

/-- **C16**: "…and the transmit packet counter exactly once for every acknowledged non-empty
    transmitted PDU": for every history of well-formed link layer traffic the number of
    `increment_transmit_packet_counter()` calls equals the number of non-empty PDUs the buffer
    saw acknowledged, and it indexes the committed PDUs: the PDUs still in the transmit queue are
    exactly the committed ones from position `txCnt` on — the k-th committed PDU is always
    transmitted (and retransmitted) with counter value k: no nonce reused for another PDU, none
    skipped. -/
theorem tx_counter_eq_acked_nonempty (ops : List Op) (hw : ∀ op ∈ ops, op.WF) :
    (reach ops).p.txCnt = (((reach ops).p.gone.map Pdu.msg).filter NE).length ∧
    (reach ops).committed.drop (reach ops).p.txCnt = (reach ops).p.txq.map Pdu.msg := by
  obtain ⟨h1, h2, h3⟩ := (TxLogInv_run _ TxLogInv_init ops hw).log
  refine ⟨h2, ?_⟩
  have hq : ((pend (reach ops).p).map Pdu.msg).filter NE = (reach ops).p.txq.map Pdu.msg := by
    have hall : ((reach ops).p.txq.map Pdu.msg).filter NE = (reach ops).p.txq.map Pdu.msg := by
      rw [List.filter_eq_self]
      intro m hm
      obtain ⟨y, hy, hxy⟩ := List.mem_map.mp hm
      rw [← hxy]; exact h3 y hy
    unfold pend
    cases (reach ops).p.nextEmpty
    · simpa using hall
    · simp only [if_true, List.map_append, List.filter_append]
      rw [hall]; simp [emptyPdu, Pdu.msg, NE, List.filter]
  rw [h1, List.map_append, List.filter_append, hq, h2]
  exact List.drop_left

/-- the length octet of the data channel header (the second header byte; the harness / driver write
    `body.length` there) -/
def Pdu.lenField (x : Pdu) : Nat := x.body.length % 256

/-- **C16**, what "non-empty" means: the counter theorems above count PDUs with `NE` (payload list not empty).
    The code decides "has payload" on the *full 8 bit* length octet (`( header & 0xff00 ) != 0` in `received`;
    `acknowledge( bool )` counts every popped PDU). For every payload length that fits the octet — the buffer
    admits at most `max_buffer_size - 2 = 249` bytes — the two coincide: there is no hidden bound (≤ 31, ≤ 63, ≤ 127)
    on the payload length in `rx_counter_eq_new_nonempty` / `tx_counter_eq_acked_nonempty`. -/
theorem nonempty_is_full_length_octet (x : Pdu) (h : x.body.length < 256) :
    x.lenField ≠ 0 ↔ NE x.msg = true := by
  unfold Pdu.lenField NE Pdu.msg
  cases hb : x.body with
  | nil => simp
  | cons a l =>
    rw [hb] at h
    simp only [List.length_cons] at h ⊢
    simp only [List.isEmpty_cons, Bool.not_false, iff_true]
    omega

/-- … and a narrower reading of the octet is a different predicate: with the 6 bit length idiom of the
    advertising PDUs a 64 byte payload would count as empty (the seeded defect `_miss` C16, caught by the
    check since the data length extension configurations exist). -/
theorem six_bit_length_is_not_nonempty :
    ¬ ∀ x : Pdu, x.body.length < 256 → (x.body.length % 64 ≠ 0 ↔ NE x.msg = true) := by
  intro h
  have := h (mkPdu (2, List.replicate 64 0) false false) (by simp [mkPdu])
  simp [mkPdu, NE, Pdu.msg] at this

/-- the hypothesis `Op.WF` of the transmit counter theorem is necessary: committing a PDU without
    payload makes the callback count differ from the number of non-empty acknowledged PDUs (the
    code counts every PDU popped from the transmit queue). No call site in bluetoe commits a PDU
    without payload. -/
theorem tx_counter_empty_commit_witness :
    ¬ ∀ ops : List Op, (reach ops).p.txCnt = (((reach ops).p.gone.map Pdu.msg).filter NE).length := by
  intro h
  have := h [.tx (1, []) true, .ev (1, []) .ok true true, .ev (1, []) .ok true true]
  revert this; decide

/-- **C16**, `counter::increment` of the nRF52 binding: a 40 bit increment with carry from `low`
    into `high` (and the representation invariant is kept) -/
theorem counter_increment_succ (c : Counter) (hl : c.low < 4294967296) (hh : c.high < 256) :
    c.increment.value = (c.value + 1) % 1099511627776 ∧
    c.increment.low < 4294967296 ∧ c.increment.high < 256 := by
  unfold Counter.increment Counter.value
  simp only
  split <;> (simp only; omega)

/-- `counter::copy_to` writes the 40 bit value little endian -/
theorem counter_bytes_value (c : Counter) (hl : c.low < 4294967296) :
    c.bytes = [c.value % 256, c.value / 256 % 256, c.value / 65536 % 256, c.value / 16777216 % 256,
      c.value / 4294967296] ∧ c.value / 4294967296 = c.high := by
  unfold Counter.bytes Counter.value
  refine ⟨?_, by omega⟩
  simp only [List.cons.injEq, and_true]
  omega

/-- non-vacuity / the carry: 0x00_ffff_ffff + 1 = 0x01_0000_0000 -/
example : ({ low := 4294967295, high := 0 } : Counter).increment = { low := 0, high := 1 } := by decide

/-! ### C16: the nonce the nRF52 CCM is configured with -/

theorem incN_value (n : Nat) (c : Counter) (hl : c.low < 4294967296) (hh : c.high < 256) :
    (Counter.incN n c).value = (c.value + n) % 1099511627776 ∧ (Counter.incN n c).low < 4294967296
      ∧ (Counter.incN n c).high < 256 := by
  induction n generalizing c with
  | zero =>
    simp only [Counter.incN]
    refine ⟨?_, hl, hh⟩
    unfold Counter.value
    omega
  | succ n ih =>
    simp only [Counter.incN]
    obtain ⟨h1, h2, h3⟩ := counter_increment_succ c hl hh
    obtain ⟨i1, i2, i3⟩ := ih c.increment h2 h3
    refine ⟨?_, i2, i3⟩
    rw [i1, h1]
    omega

/-- **C16**, "the nonce is never reused": the packet counter octets written into the CCM configuration after
    `i` and after `j` calls of `increment_*_packet_counter()` since `configure_encryption()` reset the
    counter give different 13 octet nonces (same direction, same IV) for `i ≠ j` below 2^39 — together with
    `rx_counter_eq_new_nonempty` / `tx_counter_eq_acked_nonempty` (the number of calls is the number of
    acknowledged non-empty PDUs): two different PDUs of one direction never get the same nonce, a
    retransmission gets the nonce of the original. -/
theorem ccm_nonce_no_reuse (i j : Nat) (hi : i < 549755813888) (hj : j < 549755813888) (hne : i ≠ j)
    (dir : Nat) (iv : List Nat) :
    specNonce ((Counter.incN i .zero).bytes, dir, iv) ≠ specNonce ((Counter.incN j .zero).bytes, dir, iv) := by
  obtain ⟨a1, a2, a3⟩ := incN_value i .zero (by decide) (by decide)
  obtain ⟨b1, b2, b3⟩ := incN_value j .zero (by decide) (by decide)
  have va : (Counter.incN i .zero).value = i := by rw [a1]; simp only [Counter.value, Counter.zero]; omega
  have vb : (Counter.incN j .zero).value = j := by rw [b1]; simp only [Counter.value, Counter.zero]; omega
  rw [(counter_bytes_value _ a2).1, (counter_bytes_value _ b2).1, va, vb]
  simp only [specNonce]
  intro h
  simp only [List.cons_append, List.nil_append, List.cons.injEq] at h
  omega

/-- … and it has the specified layout: packet counter little endian in octets 0..4 (39 bit), direction bit
    on top, then the IV (IVm octets, then IVs octets) -/
theorem ccm_nonce_layout (n : Nat) (hn : n < 549755813888) (dir : Nat) (hd : dir < 2) (ivm ivs : List Nat) :
    specNonce ((Counter.incN n .zero).bytes, dir, ((Ccm.init.setup ivm ivs).iv))
      = [n % 256, n / 256 % 256, n / 65536 % 256, n / 16777216 % 256, n / 4294967296 + 128 * dir] ++ ivm ++ ivs := by
  obtain ⟨a1, a2, a3⟩ := incN_value n .zero (by decide) (by decide)
  have va : (Counter.incN n .zero).value = n := by rw [a1]; simp only [Counter.value, Counter.zero]; omega
  rw [(counter_bytes_value _ a2).1, va]
  simp only [specNonce, Ccm.setup, List.cons_append, List.nil_append, List.cons.injEq, and_true, true_and]
  omega

/-- non-vacuity: receive side after three counted PDUs, IVm = 24 ab dc ba, IVs = be ba af de (Core spec sample data) -/
example : ((((Ccm.init.setup [0x24, 0xab, 0xdc, 0xba] [0xbe, 0xba, 0xaf, 0xde]).configure true false).incRx.incRx.incRx).receiveTrain).2.map specNonce
    = some [3, 0, 0, 0, 128, 0x24, 0xab, 0xdc, 0xba, 0xbe, 0xba, 0xaf, 0xde] := by decide
example : (Counter.incN 3 .zero).bytes = [3, 0, 0, 0, 0] := by decide

end BluetoeModel.LlData
