/-
  Model of the SN/NESN flow control of `ll_data_pdu_buffer<TransmitSize, ReceiveSize, Radio>`
  src: bluetoe/link_layer/include/bluetoe/ll_data_pdu_buffer.hpp
  plus the radio's dispatch on the outcome of a reception
  src: bluetoe/bindings/nordic/nrf52/include/bluetoe/nrf52.hpp:radio_interrupt_handler
       (branch `state::evt_wait_connect`), bluetoe/bindings/nordic/nrf52/nrf52.cpp:received_pdu
  plus the 40 bit CCM packet counter  src: bluetoe/bindings/nordic/nrf52/nrf52.cpp:counter
  plus a *specification* central (Core spec Vol 6 Part B 4.5.9 acknowledgement and flow control)
  and a lossy channel, combined in `Sys`.

  ABSTRACTION (assumption, discharged by component `pduring`, property C18): the two byte rings
  `pdu_ring_buffer<…>` are FIFO queues of PDUs: `push_front` appends, `next_end` is the head,
  `pop_end` removes the head, `more_than_one` is `length > 1`, headers of queued PDUs can be
  updated in place.  Whether `alloc_front` finds room depends on the byte level state of the ring
  and is *not* modelled: every operation that allocates takes the outcome `alloc : Bool` as an
  input, so all theorems hold for every allocation behaviour of the rings.
-/
namespace BluetoeModel.LlData

/-- a data channel PDU: the two header bytes split into their fields, and the payload.
    The length byte of the header is `body.length` (the harness writes exactly that many bytes). -/
structure Pdu where
  llid : Nat          -- header bits 0..1
  nesn : Bool         -- header bit 2  (nesn_flag 0x4)
  sn   : Bool         -- header bit 3  (sn_flag 0x8)
  md   : Bool         -- header bit 4  (more_data_flag 0x10)
  rfu  : Nat          -- header bits 5..7
  body : List UInt8
deriving Repr, DecidableEq

/-- what the upper layers see of a PDU: LLID and payload -/
abbrev Msg := Nat × List UInt8

def Pdu.msg (x : Pdu) : Msg := (x.llid, x.body)

/-- state of `ll_data_pdu_buffer`; the rings as FIFO queues (see ABSTRACTION above).
    `rxCnt` / `txCnt` count the calls of `Radio::increment_receive_packet_counter()` /
    `Radio::increment_transmit_packet_counter()`.
    `gone` is a *history variable* (never read by any function below): the PDUs the buffer stopped
    transmitting because it saw them acknowledged (`pop_end` / `next_empty_ = false`), in order. -/
structure P where
  sn        : Bool          -- sequence_number_
  nesn      : Bool          -- next_expected_sequence_number_
  nextEmpty : Bool          -- next_empty_
  emptySn   : Bool          -- empty_sequence_number_
  stopped   : Bool          -- stopped_
  txq       : List Pdu      -- transmit_buffer_ (head = next_end())
  rxq       : List Pdu      -- receive_buffer_  (head = next_end())
  rxCnt     : Nat
  txCnt     : Nat
  gone      : List Pdu
deriving Repr, DecidableEq

-- src: reset_pdu_buffer (empty_sequence_number_ is not reset; it is only read while next_empty_)
def P.init : P :=
  { sn := false, nesn := false, nextEmpty := false, emptySn := false, stopped := false,
    txq := [], rxq := [], rxCnt := 0, txCnt := 0, gone := [] }

-- src: stop_ll_pdu_buffer
def stop (p : P) : P := { p with stopped := true }

/-- the PDU kept in `empty_[]`: header `ll_empty_id` (+ `sn_flag`), length 0 -/
def emptyPdu (sn nesn : Bool) : Pdu :=
  { llid := 1, nesn := nesn, sn := sn, md := false, rfu := 0, body := [] }

-- src: commit_transmit_buffer  (the header handed in carries only the LLID: asserted RFU bits 0)
def commit (p : P) (m : Msg) : P :=
  if p.stopped then p
  else { p with txq := p.txq ++ [{ llid := m.1, nesn := false, sn := p.sn, md := false, rfu := 0, body := m.2 }],
                sn := !p.sn }

-- src: pending_outgoing_data_available
def pendingOutgoing (p : P) : Bool := !p.txq.isEmpty

-- src: next_received
def nextReceived (p : P) : Option Pdu := p.rxq.head?

-- src: free_received
def freeReceived (p : P) : P := { p with rxq := p.rxq.tail }

-- src: acknowledge( bool nesn )
def ackBit (p : P) (nesn : Bool) : P :=
  if p.nextEmpty then
    if p.emptySn != nesn then
      { p with nextEmpty := false, gone := p.gone ++ [emptyPdu p.emptySn p.nesn] }
    else p
  else
    match p.txq with
    | [] => p              -- "the transmit buffer could be empty if we receive without sending prior"
    | h :: t =>
      if h.sn != nesn then { p with txq := t, txCnt := p.txCnt + 1, gone := p.gone ++ [h] }
      else p

/-- `layout::header( next, layout::header( next ) | more_data_flag )` on the head of the queue -/
def markMd : List Pdu → List Pdu
  | [] => []
  | h :: t => { h with md := true } :: t

-- src: next_transmit + set_next_expected_sequence_number
-- (the NESN bit is also written into the stored header; it is rewritten on every transmission and
--  never read from there, so the queue keeps the bit it was committed with)
def nextTransmit (p : P) : P × Pdu :=
  if p.nextEmpty then
    -- "if an empty buffer have to be resend, flag that there is more data" (on the queue head)
    ({ p with txq := markMd p.txq }, emptyPdu p.emptySn p.nesn)
  else
    match p.txq with
    | [] =>
      -- "we created an PDU, so it has to have a new sequnce number"
      ({ p with nextEmpty := true, emptySn := p.sn, sn := !p.sn }, emptyPdu p.sn p.nesn)
    | h :: t =>
      let h' := if t.isEmpty then h else { h with md := true }     -- more_than_one()
      ({ p with txq := h' :: t }, { h' with nesn := p.nesn })

-- src: received( read_buffer )
def received (p : P) (x : Pdu) : P × Pdu :=
  let p1 := ackBit p x.nesn
  let p2 :=
    if x.sn == p1.nesn then                                   -- not a resent PDU: NESN toggled
      if x.body.length ≠ 0 then                               -- ( header & 0xff00 ) != 0
        if x.llid ≠ 0 then                                    -- push_front + increment_receive_packet_counter
          { p1 with nesn := !p1.nesn, rxq := p1.rxq ++ [x], rxCnt := p1.rxCnt + 1 }
        else { p1 with nesn := !p1.nesn, rxCnt := p1.rxCnt + 1 }
      else { p1 with nesn := !p1.nesn }
    else p1
  nextTransmit p2

-- src: acknowledge( read_buffer )  — with fixes/lldata-01 applied (no NESN toggle)
def acknowledgePdu (p : P) (x : Pdu) : P × Pdu :=
  let p1 := if x.llid ≠ 0 then ackBit p x.nesn else p
  nextTransmit p1

/-- `acknowledge( read_buffer )` as found at commit 193dfc0 (before the fix); kept only to state
    the witness theorem of the defect -/
def acknowledgePduOrig (p : P) (x : Pdu) : P × Pdu :=
  let p1 :=
    if x.llid ≠ 0 then
      let p1 := ackBit p x.nesn
      if x.sn == p1.nesn then { p1 with nesn := !p1.nesn } else p1
    else p
  nextTransmit p1

/-- what happened to the central's PDU on the air -/
inductive Fault where
  | ok      -- CRC and MIC fine
  | lost    -- nothing (or nothing recognisable) received: no anchor, the event times out
  | crc     -- CRC error, the radio answers with the next PDU to transmit (nrf51.cpp)
  | mic     -- CRC fine, MIC check failed
deriving Repr, DecidableEq

/-- The radio's reaction to one reception attempt; `alloc` = `allocate_receive_buffer()` returned
    a buffer before the event. `none` = the peripheral stays silent.
    src: nrf52.hpp radio_interrupt_handler: `( receive_buffer_.buffer == &empty_receive_[0] ||
    !valid_crc ) ? next_transmit() : ( valid_pdu ? received(…) : acknowledge(…) )`;
    nrf52.cpp received_pdu: a MIC error is only reported for `receive_size() != 0`. -/
def radioEvent (p : P) (f : Fault) (alloc : Bool) (x : Pdu) : P × Option Pdu :=
  match f with
  | .lost => (p, none)
  | .crc  => let (p', r) := nextTransmit p; (p', some r)
  | .ok   =>
      let (p', r) := if alloc then received p x else nextTransmit p
      (p', some r)
  | .mic  =>
      let (p', r) :=
        if alloc then (if x.body.isEmpty then received p x else acknowledgePdu p x)
        else nextTransmit p
      (p', some r)

/-! ### the 40 bit packet counter of the nRF52 binding -/

structure Counter where
  low  : Nat     -- std::uint32_t
  high : Nat     -- std::uint8_t
deriving Repr, DecidableEq

-- src: nrf52.cpp counter::counter
def Counter.zero : Counter := { low := 0, high := 0 }

-- src: nrf52.cpp counter::increment
def Counter.increment (c : Counter) : Counter :=
  let low := (c.low + 1) % 4294967296
  if low = 0 then { low := low, high := (c.high + 1) % 256 } else { c with low := low }

-- src: nrf52.cpp counter::copy_to (write_32bit little endian, then the high byte)
def Counter.bytes (c : Counter) : List Nat :=
  [c.low % 256, c.low / 256 % 256, c.low / 65536 % 256, c.low / 16777216 % 256, c.high]

def Counter.value (c : Counter) : Nat := c.high * 4294967296 + c.low

/-! ### the nonce inputs of the CCM configuration (nRF52 binding, `radio_hardware_with_crypto_support`) -/

/-- `receive_encrypted_`, `transmit_encrypted_`, `receive_counter_`, `transmit_counter_` and the part of
    `ccm_data_struct` the hardware builds the nonce from: packet counter `data[16..21)`, direction
    `data[24]`, IV `data[25..33)` (nRF52832 product specification, "CCM data structure") -/
structure Ccm where
  rxEnc : Bool
  txEnc : Bool
  rxC   : Counter
  txC   : Counter
  ctr   : List Nat
  dir   : Nat
  iv    : List Nat
deriving Repr, DecidableEq

def Ccm.init : Ccm :=
  { rxEnc := false, txEnc := false, rxC := .zero, txC := .zero, ctr := [0, 0, 0, 0, 0], dir := 0,
    iv := [0, 0, 0, 0, 0, 0, 0, 0] }

-- src: nrf52.cpp setup_encryption + setup_ccm_data_structure  (`IV = ivm | ivs << 32` written little
-- endian: the four octets of IVm as received, then the four octets of IVs; packet counter octets cleared)
def Ccm.setup (h : Ccm) (ivm ivs : List Nat) : Ccm := { h with ctr := [0, 0, 0, 0, 0], iv := ivm ++ ivs }

-- src: nrf52.cpp radio_hardware_with_crypto_support::configure_encryption
def Ccm.configure (h : Ccm) (rx tx : Bool) : Ccm :=
  let h1 := if rx && tx then { h with txC := .zero } else h
  let h2 := if rx && !tx then { h1 with rxC := .zero } else h1
  let h3 := if !rx && !tx then { h2 with ctr := [0, 0, 0, 0, 0], dir := 0, iv := [0, 0, 0, 0, 0, 0, 0, 0] } else h2
  { h3 with rxEnc := rx, txEnc := tx }

/-- what the CCM builds the nonce from when key stream generation is started: packet counter octets,
    direction, IV -/
abbrev Nonce := List Nat × Nat × List Nat

-- src: nrf52.cpp configure_receive_train  (the `if ( receive_encrypted_ )` part; direction 1 = central to peripheral)
def Ccm.receiveTrain (h : Ccm) : Ccm × Option Nonce :=
  if h.rxEnc then ({ h with ctr := h.rxC.bytes, dir := 1 }, some (h.rxC.bytes, 1, h.iv)) else (h, none)

-- src: nrf52.cpp configure_final_transmit  (`transmit_encrypted_ && transmit_data.buffer[ 1 ] != 0`)
def Ccm.finalTransmit (h : Ccm) (len : Nat) : Ccm × Option Nonce :=
  if h.txEnc && len != 0 then ({ h with ctr := h.txC.bytes, dir := 0 }, some (h.txC.bytes, 0, h.iv)) else (h, none)

-- src: nrf52.hpp increment_receive_packet_counter / increment_transmit_packet_counter
def Ccm.incRx (h : Ccm) : Ccm := { h with rxC := h.rxC.increment }
def Ccm.incTx (h : Ccm) : Ccm := { h with txC := h.txC.increment }

/-- `counter::increment` applied `n` times -/
def Counter.incN : Nat → Counter → Counter
  | 0, c => c
  | n + 1, c => Counter.incN n c.increment

/-- the 13 octet CCM nonce of Core spec Vol 6 Part E 2.1 as the CCM forms it from its configuration:
    octets 0..4 the 39 bit packet counter with the direction bit as most significant bit of octet 4,
    octets 5..12 the IV -/
def specNonce (n : Nonce) : List Nat :=
  match n.1 with
  | [b0, b1, b2, b3, b4] => [b0, b1, b2, b3, b4 % 128 + 128 * (n.2.1 % 2)] ++ n.2.2
  | _ => []

/-! ### specification central and the closed system -/

/-- Central side of Core spec Vol 6 Part B 4.5.9: `sn`/`nesn` (transmitSeqNum / nextExpectedSeqNum),
    the PDU in flight (sent, not yet acknowledged; its SN is `sn`), the log `done` of PDUs the
    central saw acknowledged and the log `got` of new PDUs it accepted from the peripheral. -/
structure C where
  sn       : Bool
  nesn     : Bool
  inflight : Option Msg
  done     : List Msg
  got      : List Msg
deriving Repr, DecidableEq

def C.init : C := { sn := false, nesn := false, inflight := none, done := [], got := [] }

def mkPdu (m : Msg) (sn nesn : Bool) : Pdu :=
  { llid := m.1, nesn := nesn, sn := sn, md := false, rfu := 0, body := m.2 }

/-- the central transmits: the unacknowledged PDU again, otherwise the new PDU `new` -/
def cSend (c : C) (new : Msg) : C × Pdu :=
  match c.inflight with
  | some m => (c, mkPdu m c.sn c.nesn)
  | none   => ({ c with inflight := some new }, mkPdu new c.sn c.nesn)

/-- the central receives a PDU with a valid CRC -/
def cRecv (c : C) (r : Pdu) : C :=
  let c1 :=
    if r.nesn != c.sn then       -- acknowledgement: advance to the next PDU
      { c with sn := !c.sn, done := c.done ++ c.inflight.toList, inflight := none }
    else c
  if r.sn == c1.nesn then        -- new data
    { c1 with nesn := !c1.nesn, got := c1.got ++ [r.msg] }
  else c1

/-- The closed system. `delivered`: PDUs handed to the upper layers (`next_received` followed by
    `free_received`), `committed`: PDUs committed while running, both in order (history). -/
structure Sys where
  p         : P
  c         : C
  delivered : List Pdu
  committed : List Msg
deriving Repr, DecidableEq

def Sys.init : Sys := { p := P.init, c := C.init, delivered := [], committed := [] }

inductive Op where
  /-- link layer: `allocate_transmit_buffer` (outcome `alloc`), fill, `commit_transmit_buffer` -/
  | tx (m : Msg) (alloc : Bool)
  /-- link layer: `next_received()`; if there is one, consume it and `free_received()` -/
  | free
  /-- link layer: `stop_ll_pdu_buffer()` -/
  | stop
  /-- one exchange on the air: the central (re)transmits (`new` is used if it has nothing
      unacknowledged; `(1, [])` is an empty PDU), fault `f1` on the way to the peripheral,
      `alloc` = a receive buffer was available, `f2` = the answer reaches the central intact -/
  | ev (new : Msg) (f1 : Fault) (f2 : Bool) (alloc : Bool)
deriving Repr, DecidableEq

def Sys.step (s : Sys) : Op → Sys
  | .tx m alloc =>
      if alloc then
        { s with p := commit s.p m,
                 committed := if s.p.stopped then s.committed else s.committed ++ [m] }
      else s
  | .free =>
      match nextReceived s.p with
      | none => s
      | some x => { s with p := freeReceived s.p, delivered := s.delivered ++ [x] }
  | .stop => { s with p := stop s.p }
  | .ev new f1 f2 alloc =>
      let (c1, x) := cSend s.c new
      let (p1, r) := radioEvent s.p f1 alloc x
      let c2 := match r with
        | some r => if f2 then cRecv c1 r else c1
        | none => c1
      { s with p := p1, c := c2 }

def Sys.run (s : Sys) : List Op → Sys
  | [] => s
  | op :: ops => Sys.run (s.step op) ops

end BluetoeModel.LlData
