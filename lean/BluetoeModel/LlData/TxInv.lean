import BluetoeModel.LlData.RxInv
/-!
  Transmit direction invariant of the closed system (link layer → peripheral → central).
-/
namespace BluetoeModel.LlData

/-- Relation between the central's view (`cn` = its NESN, `got` = new PDUs it accepted) and the
    buffer: either the central still waits for the head of the pending list (A), or it already has
    it and the buffer does not know yet (B).  SNs alternate along the pending list and end in
    `sequence_number_`. -/
def TxRel (cn : Bool) (got : List Msg) (p : P) : Prop :=
  (Alt cn (pk p) p.sn ∧ got = p.gone.map Pdu.msg) ∨
  (∃ h t, pk p = h :: t ∧ Alt (!cn) (h :: t) p.sn ∧ got = p.gone.map Pdu.msg ++ [h.2])

/-- same transmit direction state -/
def TxSame (q q' : P) : Prop :=
  q'.sn = q.sn ∧ q'.nextEmpty = q.nextEmpty ∧ q'.emptySn = q.emptySn ∧ q'.txq = q.txq ∧
  q'.gone = q.gone ∧ q'.txCnt = q.txCnt

theorem TxSame_pk {q q' : P} (h : TxSame q q') : pk q' = pk q := by
  obtain ⟨-, h2, h3, h4, -, -⟩ := h
  unfold pk pend
  rw [h2, h3, h4]
  cases q.nextEmpty <;> simp [Pdu.key, Pdu.msg, emptyPdu]

theorem TxSame_rel {q q' : P} (h : TxSame q q') {cn : Bool} {got : List Msg}
    (hr : TxRel cn got q) : TxRel cn got q' := by
  unfold TxRel at *
  rw [TxSame_pk h, h.1, h.2.2.2.2.1]
  exact hr

theorem TxSame_refl (q : P) : TxSame q q := ⟨rfl, rfl, rfl, rfl, rfl, rfl⟩

theorem pk_cons {p : P} {h : Bool × Msg} {t : List (Bool × Msg)} (hp : pk p = h :: t) :
    ∃ hp' tp, pend p = hp' :: tp ∧ hp'.key = h ∧ tp.map Pdu.key = t := by
  unfold pk at hp
  cases hq : pend p with
  | nil => simp [hq] at hp
  | cons a l =>
    simp only [hq, List.map_cons, List.cons.injEq] at hp
    exact ⟨a, l, rfl, hp.1, hp.2⟩

/-- the buffer sees the central's NESN -/
theorem TxRel_ackBit {cn : Bool} {got : List Msg} {p : P} (h : TxRel cn got p) :
    TxRel cn got (ackBit p cn) := by
  rcases h with ⟨ha, hg⟩ | ⟨h, t, hp, ha, hg⟩
  · -- (A): the head (if any) has SN = cn: nothing acknowledged
    cases hq : pend p with
    | nil => rw [ackBit_nil p cn hq]; exact Or.inl ⟨ha, hg⟩
    | cons a l =>
      have : a.sn = cn := by
        unfold pk at ha; simp only [hq, List.map_cons, Alt] at ha; exact ha.1
      rw [ackBit_keep p cn a l hq this]; exact Or.inl ⟨ha, hg⟩
  · -- (B): the head has SN = !cn: acknowledged and dropped
    obtain ⟨a, l, hq, hk, hl⟩ := pk_cons hp
    simp only [Alt] at ha
    have hsn : a.sn ≠ cn := by
      have : a.sn = !cn := by rw [← ha.1, ← hk]; rfl
      rw [this]; cases cn <;> simp
    obtain ⟨d1, d2, -⟩ := ackBit_drop p cn a l hq hsn
    refine Or.inl ⟨?_, ?_⟩
    · unfold pk; rw [d1, hl, (ackBit_frame p cn).2.2.2.1]
      have := ha.2; simpa using this
    · rw [d2, hg, ← hk]; simp [Pdu.key]

/-- the buffer hands out the next PDU to transmit -/
theorem TxRel_nextTransmit {cn : Bool} {got : List Msg} {p : P} (h : TxRel cn got p) :
    TxRel cn got (nextTransmit p).1 ∧
    ∃ hd t, pk (nextTransmit p).1 = hd :: t ∧ (nextTransmit p).2.key = hd := by
  have hg := (nextTransmit_frame p).2.2.2.1
  cases hq : pend p with
  | nil =>
    obtain ⟨n1, n2, n3, -⟩ := nextTransmit_nil p hq
    have hpk : pk p = [] := by unfold pk; rw [hq]; rfl
    rcases h with ⟨ha, hgot⟩ | ⟨h, t, hp, -, -⟩
    · rw [hpk] at ha; simp only [Alt] at ha
      refine ⟨Or.inl ⟨?_, by rw [hg]; exact hgot⟩, (p.sn, (1, [])), [], ?_, ?_⟩
      · unfold pk; rw [n1, n2]; simp [Alt, Pdu.key, emptyPdu, ha]
      · unfold pk; rw [n1]; simp [Pdu.key, Pdu.msg, emptyPdu]
      · rw [n3]; simp [Pdu.key, Pdu.msg, emptyPdu]
    · rw [hpk] at hp; simp at hp
  | cons a l =>
    obtain ⟨c1, c2, c3, -, -⟩ := nextTransmit_cons p a l hq
    have hpk : pk p = a.key :: l.map Pdu.key := by unfold pk; rw [hq]; rfl
    refine ⟨?_, a.key, l.map Pdu.key, by rw [c1, hpk], c3⟩
    unfold TxRel at *
    rw [c1, c2, hg]; exact h

theorem received_tx (p : P) (x : Pdu) :
    ∃ q', TxSame (ackBit p x.nesn) q' ∧ received p x = nextTransmit q' := by
  unfold received
  simp only
  split
  · split
    · split
      · refine ⟨_, ?_, rfl⟩; exact ⟨rfl, rfl, rfl, rfl, rfl, rfl⟩
      · refine ⟨_, ?_, rfl⟩; exact ⟨rfl, rfl, rfl, rfl, rfl, rfl⟩
    · refine ⟨_, ?_, rfl⟩; exact ⟨rfl, rfl, rfl, rfl, rfl, rfl⟩
  · exact ⟨_, TxSame_refl _, rfl⟩

/-- every reaction of the radio keeps the relation, and an answer is the head of the pending list -/
theorem radioEvent_tx {cn : Bool} {got : List Msg} {p : P} (h : TxRel cn got p)
    (f : Fault) (alloc : Bool) (x : Pdu) (hx : x.nesn = cn) :
    TxRel cn got (radioEvent p f alloc x).1 ∧
    ∀ r, (radioEvent p f alloc x).2 = some r →
      ∃ hd t, pk (radioEvent p f alloc x).1 = hd :: t ∧ r.key = hd := by
  have hnt := TxRel_nextTransmit h
  have hrec : TxRel cn got (received p x).1 ∧
      ∃ hd t, pk (received p x).1 = hd :: t ∧ (received p x).2.key = hd := by
    obtain ⟨q', hs, he⟩ := received_tx p x
    rw [he]
    exact TxRel_nextTransmit (TxSame_rel hs (by rw [hx]; exact TxRel_ackBit h))
  have hack : TxRel cn got (acknowledgePdu p x).1 ∧
      ∃ hd t, pk (acknowledgePdu p x).1 = hd :: t ∧ (acknowledgePdu p x).2.key = hd := by
    unfold acknowledgePdu
    simp only
    split
    · exact TxRel_nextTransmit (by rw [hx]; exact TxRel_ackBit h)
    · exact hnt
  unfold radioEvent
  cases f with
  | lost => exact ⟨h, fun r hr => by simp at hr⟩
  | crc => exact ⟨hnt.1, fun r hr => by simp at hr; rw [← hr]; exact hnt.2⟩
  | ok =>
    cases alloc
    · exact ⟨hnt.1, fun r hr => by simp at hr; rw [← hr]; exact hnt.2⟩
    · exact ⟨hrec.1, fun r hr => by simp at hr; rw [← hr]; exact hrec.2⟩
  | mic =>
    cases alloc
    · exact ⟨hnt.1, fun r hr => by simp at hr; rw [← hr]; exact hnt.2⟩
    · by_cases hb : x.body.isEmpty = true
      · simp only [hb, if_true]
        exact ⟨hrec.1, fun r hr => by simp at hr; rw [← hr]; exact hrec.2⟩
      · simp only [hb, if_true]
        exact ⟨hack.1, fun r hr => by simp at hr; rw [← hr]; exact hack.2⟩

/-- the central receives the head of the pending list -/
theorem TxRel_cRecv {c : C} {p : P} (h : TxRel c.nesn c.got p) (r : Pdu)
    (hr : ∃ hd t, pk p = hd :: t ∧ r.key = hd) :
    TxRel (cRecv c r).nesn (cRecv c r).got p := by
  obtain ⟨hd, t, hp, hk⟩ := hr
  obtain ⟨hnew, hold⟩ := cRecv_data c r
  have hrsn : r.sn = hd.1 := by rw [← hk]; rfl
  have hrmsg : r.msg = hd.2 := by rw [← hk]; rfl
  rcases h with ⟨ha, hg⟩ | ⟨h', t', hp', ha, hg⟩
  · -- (A) → (B)
    rw [hp] at ha
    have hsn : r.sn = c.nesn := by rw [hrsn]; simp only [Alt] at ha; exact ha.1
    obtain ⟨e1, e2⟩ := hnew hsn
    refine Or.inr ⟨hd, t, hp, ?_, ?_⟩
    · rw [e1]; simpa using ha
    · rw [e2, hg, hrmsg]
  · -- (B) stays (B)
    rw [hp] at hp'
    simp only [List.cons.injEq] at hp'
    obtain ⟨rfl, rfl⟩ := hp'
    have hsn : r.sn ≠ c.nesn := by
      rw [hrsn]; simp only [Alt] at ha; rw [ha.1]; cases c.nesn <;> simp
    obtain ⟨e1, e2⟩ := hold hsn
    refine Or.inr ⟨hd, t, hp, ?_, ?_⟩
    · rw [e1]; exact ha
    · rw [e2, hg]

/-- link layer commits a PDU while running -/
theorem TxRel_commit {cn : Bool} {got : List Msg} {p : P} (h : TxRel cn got p) (m : Msg) :
    TxRel cn got (commit p m) := by
  unfold commit
  split
  · exact h
  · have hpk : pk { p with txq := p.txq ++ [{ llid := m.1, nesn := false, sn := p.sn, md := false, rfu := 0, body := m.2 }], sn := !p.sn }
        = pk p ++ [(p.sn, m)] := by
      unfold pk pend; simp [Pdu.key, Pdu.msg]
    unfold TxRel
    rw [hpk]
    rcases h with ⟨ha, hg⟩ | ⟨h', t', hp', ha, hg⟩
    · exact Or.inl ⟨Alt_append_one ha m, hg⟩
    · refine Or.inr ⟨h', t' ++ [(p.sn, m)], by rw [hp']; rfl, ?_, hg⟩
      have := Alt_append_one ha m
      simpa using this

structure TxInv (s : Sys) : Prop where
  rel : TxRel s.c.nesn s.c.got s.p

theorem TxInv_init : TxInv Sys.init := ⟨Or.inl ⟨rfl, rfl⟩⟩

theorem TxInv_step (s : Sys) (h : TxInv s) (op : Op) : TxInv (s.step op) := by
  cases op with
  | tx m alloc =>
    simp only [Sys.step]
    cases alloc
    · exact h
    · exact ⟨TxRel_commit h.rel m⟩
  | free =>
    simp only [Sys.step]
    split
    · exact h
    · exact ⟨(TxSame_rel (q := s.p) ⟨rfl, rfl, rfl, rfl, rfl, rfl⟩ h.rel)⟩
  | stop => exact ⟨(TxSame_rel (q := s.p) ⟨rfl, rfl, rfl, rfl, rfl, rfl⟩ h.rel)⟩
  | ev new f1 f2 alloc =>
    obtain ⟨-, c1nesn, -, c1got, -, xnesn, -, -, -⟩ := cSend_facts s.c new
    simp only [Sys.step]
    generalize hc1 : (cSend s.c new).1 = c1 at c1nesn c1got
    generalize hx : (cSend s.c new).2 = x at xnesn
    have h1 : TxRel c1.nesn c1.got s.p := by rw [c1nesn, c1got]; exact h.rel
    obtain ⟨h2, hr⟩ := radioEvent_tx h1 f1 alloc x (by rw [xnesn, c1nesn])
    generalize hp1 : (radioEvent s.p f1 alloc x).1 = p1 at h2 hr
    generalize hro : (radioEvent s.p f1 alloc x).2 = ro at hr
    cases ro with
    | none => exact ⟨h2⟩
    | some r =>
      cases f2
      · exact ⟨h2⟩
      · exact ⟨TxRel_cRecv h2 r (hr r rfl)⟩

end BluetoeModel.LlData
