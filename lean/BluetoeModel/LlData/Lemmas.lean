import BluetoeModel.LlData.Model
/-!
  Helper definitions and lemmas for the invariants of the closed system (Props.lean).
  `pend p` is the transmission order of the PDUs the buffer still has to get acknowledged: the
  pending empty PDU (if any) first, then the transmit queue.
-/
namespace BluetoeModel.LlData

/-- what identifies a PDU on the air across retransmissions: SN, LLID, payload (not NESN / MD) -/
def Pdu.key (x : Pdu) : Bool × Msg := (x.sn, x.msg)

/-- PDUs still to be acknowledged, in transmission order -/
def pend (p : P) : List Pdu :=
  (if p.nextEmpty then [emptyPdu p.emptySn p.nesn] else []) ++ p.txq

def pk (p : P) : List (Bool × Msg) := (pend p).map Pdu.key

/-- the SNs along `l` alternate starting with `b`; the SN following the list is `e` -/
def Alt : Bool → List (Bool × Msg) → Bool → Prop
  | b, [], e => b = e
  | b, x :: xs, e => x.1 = b ∧ Alt (!b) xs e

theorem Alt_append_one {b e : Bool} {l : List (Bool × Msg)} (h : Alt b l e) (m : Msg) :
    Alt b (l ++ [(e, m)]) (!e) := by
  induction l generalizing b with
  | nil => simp only [Alt] at h; subst h; simp [Alt]
  | cons x xs ih => simp only [Alt, List.cons_append] at h ⊢; exact ⟨h.1, ih h.2⟩

/-- deliverable to the upper layers: non-empty and not the reserved LLID 0 -/
def Dlv (m : Msg) : Bool := !m.2.isEmpty && m.1 != 0
/-- takes part in the packet counters / CCM nonce: non-empty -/
def NE (m : Msg) : Bool := !m.2.isEmpty

/-! ### frame conditions -/

section frames
variable (p : P) (n : Bool) (x : Pdu)

theorem ackBit_frame : (ackBit p n).nesn = p.nesn ∧ (ackBit p n).rxq = p.rxq ∧
    (ackBit p n).rxCnt = p.rxCnt ∧ (ackBit p n).sn = p.sn ∧ (ackBit p n).stopped = p.stopped := by
  unfold ackBit
  split
  · split <;> simp
  · split
    · simp
    · split <;> simp

theorem nextTransmit_frame : (nextTransmit p).1.nesn = p.nesn ∧ (nextTransmit p).1.rxq = p.rxq ∧
    (nextTransmit p).1.rxCnt = p.rxCnt ∧ (nextTransmit p).1.gone = p.gone ∧
    (nextTransmit p).1.txCnt = p.txCnt ∧ (nextTransmit p).1.stopped = p.stopped ∧
    (nextTransmit p).2.nesn = p.nesn := by
  unfold nextTransmit
  split
  · simp [emptyPdu]
  · split <;> simp [emptyPdu]

end frames

/-! ### what `ackBit` does to the pending list -/

theorem pend_nil_iff (p : P) : pend p = [] ↔ p.nextEmpty = false ∧ p.txq = [] := by
  unfold pend
  cases p.nextEmpty <;> simp

/-- nothing pending: nothing to acknowledge -/
theorem ackBit_nil (p : P) (n : Bool) (h : pend p = []) : ackBit p n = p := by
  obtain ⟨h1, h2⟩ := (pend_nil_iff p).mp h
  simp [ackBit, h1, h2]

/-- head of the pending list has the SN the peer still expects: not acknowledged -/
theorem ackBit_keep (p : P) (n : Bool) (h : Pdu) (t : List Pdu) (hp : pend p = h :: t)
    (hsn : h.sn = n) : ackBit p n = p := by
  unfold pend at hp
  unfold ackBit
  cases hne : p.nextEmpty
  · simp only [hne, Bool.false_eq_true, if_false, List.nil_append] at hp ⊢
    simp [hp, hsn]
  · simp only [hne, if_true, List.cons_append, List.nil_append, List.cons.injEq] at hp ⊢
    have : p.emptySn = n := by rw [← hsn, ← hp.1]; rfl
    simp [this]

/-- head of the pending list acknowledged: it is dropped, logged in `gone`, and counted if it came
    from the queue -/
theorem ackBit_drop (p : P) (n : Bool) (h : Pdu) (t : List Pdu) (hp : pend p = h :: t)
    (hsn : h.sn ≠ n) :
    pend (ackBit p n) = t ∧ (ackBit p n).gone = p.gone ++ [h] ∧
    (ackBit p n).txCnt = p.txCnt + (if p.nextEmpty then 0 else 1) := by
  unfold pend at hp
  unfold ackBit pend
  cases hne : p.nextEmpty
  · simp only [hne, Bool.false_eq_true, if_false, List.nil_append] at hp ⊢
    have : (h.sn != n) = true := by simpa using hsn
    simp [hp, this]
  · simp only [hne, if_true, List.cons_append, List.nil_append, List.cons.injEq] at hp ⊢
    have h1 : p.emptySn ≠ n := by rw [← hp.1] at hsn; exact hsn
    have : (p.emptySn != n) = true := by simpa using h1
    simp [this, hp.1, hp.2]

/-! ### what `nextTransmit` does to the pending list -/

theorem key_markMd (l : List Pdu) : (markMd l).map Pdu.key = l.map Pdu.key := by
  cases l <;> simp [markMd, Pdu.key, Pdu.msg]

theorem msg_markMd (l : List Pdu) : (markMd l).map Pdu.msg = l.map Pdu.msg := by
  cases l <;> simp [markMd, Pdu.msg]

/-- nothing pending: a new empty PDU is created with the next SN -/
theorem nextTransmit_nil (p : P) (h : pend p = []) :
    pend (nextTransmit p).1 = [emptyPdu p.sn p.nesn] ∧ (nextTransmit p).1.sn = (!p.sn) ∧
    (nextTransmit p).2 = emptyPdu p.sn p.nesn ∧ (nextTransmit p).1.txq = [] := by
  obtain ⟨h1, h2⟩ := (pend_nil_iff p).mp h
  simp [nextTransmit, pend, h1, h2]

/-- something pending: its head is transmitted (again), the list keeps SNs and contents -/
theorem nextTransmit_cons (p : P) (h : Pdu) (t : List Pdu) (hp : pend p = h :: t) :
    pk (nextTransmit p).1 = pk p ∧ (nextTransmit p).1.sn = p.sn ∧
    (nextTransmit p).2.key = h.key ∧
    (nextTransmit p).1.txq.map Pdu.msg = p.txq.map Pdu.msg ∧
    (nextTransmit p).1.nextEmpty = p.nextEmpty := by
  unfold pend at hp
  unfold nextTransmit pk pend
  cases hne : p.nextEmpty
  · simp only [hne, Bool.false_eq_true, if_false, List.nil_append] at hp ⊢
    rw [hp]
    cases t <;> simp [Pdu.key, Pdu.msg]
  · simp only [hne, if_true, List.cons_append, List.nil_append, List.cons.injEq] at hp ⊢
    simp [key_markMd, msg_markMd, ← hp.1, Pdu.key, Pdu.msg, emptyPdu]

end BluetoeModel.LlData
