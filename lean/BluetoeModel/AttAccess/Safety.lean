import BluetoeModel.AttAccess.Lemmas
/-!
  # C01 — "the server reads only the bytes of that PDU"

  `Resp.oobRead` is the model's result wherever the C++ indexes the input PDU outside
  `[input, input + in_size)`.  It is never produced: for every server table, memory, connection,
  handler implementation, PDU and buffer size.
-/
namespace BluetoeModel.AttAccess

theorem emit_nr (cap : Nat) (b : Bytes) : emit cap b ≠ .oobRead := by
  unfold emit; split <;> (intro h; cases h)

theorem errorResponse_nr (cap : Nat) (op : UInt8) (code h : Nat) : errorResponse cap op code h ≠ .oobRead := by
  unfold errorResponse; split <;> (intro h; cases h)

macro "nr_close" : tactic =>
  `(tactic| first | exact emit_nr _ _ | exact errorResponse_nr _ _ _ _ | (intro h; cases h; done))

theorem rd16_some (p : Bytes) (i : Nat) (h : i + 1 < p.length) : ∃ v, rd16? p i = some v := by
  unfold rd16?
  have h1 : i < p.length := by omega
  rw [List.getElem?_eq_getElem h1, List.getElem?_eq_getElem h]
  exact ⟨_, rfl⟩

theorem slice_some (p : Bytes) (i : Nat) (h : i ≤ p.length) : ∃ v, slice? p i (p.length - i) = some v := by
  unfold slice?
  rw [if_pos (by omega)]
  exact ⟨_, rfl⟩

theorem checkRange_stop (srv : Server) (cap : Nat) (op : UInt8) (p : Bytes) (A B : Nat) (r : Resp)
    (hA : 5 ≤ A) (hB : 5 ≤ B) (h : checkRange srv cap op p A B = .stop r) : r ≠ .oobRead := by
  unfold checkRange at h
  split at h
  · cases h; nr_close
  · next hlen =>
    obtain ⟨s, hs⟩ := rd16_some p 1 (by omega)
    obtain ⟨e, he⟩ := rd16_some p 3 (by omega)
    rw [hs, he] at h
    dsimp only at h
    split at h
    · cases h; nr_close
    · split at h
      · cases h; nr_close
      · cases h

theorem checkRange_ok (srv : Server) (cap : Nat) (op : UInt8) (p : Bytes) (A B : Nat) (x : Nat × Nat)
    (h : checkRange srv cap op p A B = .ok x) : p.length = A ∨ p.length = B := by
  unfold checkRange at h
  split at h
  · cases h
  · next hlen => omega

theorem checkHandle_stop (srv : Server) (cap : Nat) (op : UInt8) (p : Bytes) (r : Resp)
    (h3 : 3 ≤ p.length) (h : checkHandle srv cap op p = .stop r) : r ≠ .oobRead := by
  unfold checkHandle at h
  obtain ⟨v, hv⟩ := rd16_some p 1 (by omega)
  rw [hv] at h
  dsimp only at h
  split at h
  · cases h; nr_close
  · split at h
    · cases h; nr_close
    · cases h

theorem checkSizeAndHandle_stop (srv : Server) (cap : Nat) (op : UInt8) (p : Bytes) (A : Nat) (r : Resp)
    (hA : 3 ≤ A) (h : checkSizeAndHandle srv cap op p A = .stop r) : r ≠ .oobRead := by
  unfold checkSizeAndHandle at h
  split at h
  · cases h; nr_close
  · next hl => exact checkHandle_stop srv cap op p r (by omega) h

theorem checkSizeAndHandle_ok (srv : Server) (cap : Nat) (op : UInt8) (p : Bytes) (A : Nat) (x : Nat × Nat)
    (h : checkSizeAndHandle srv cap op p A = .ok x) : p.length = A := by
  unfold checkSizeAndHandle at h
  split at h
  · cases h
  · next hl => omega

theorem readResponse_nr (H : Handlers) (srv : Server) (cap : Nat) (op rsp : UInt8) (cells : List Bytes) (c : Conn)
    (h i off : Nat) : readResponse H srv cap op rsp cells c h i off ≠ .oobRead := by
  unfold readResponse
  repeat' split
  all_goals nr_close

theorem handleExchangeMtu_nr (srv : Server) (cap : Nat) (op : UInt8) (p : Bytes) (cells : List Bytes) (c : Conn) :
    (handleExchangeMtu srv cap op p cells c).resp ≠ .oobRead := by
  unfold handleExchangeMtu
  split
  · nr_close
  · next hl =>
    obtain ⟨v, hv⟩ := rd16_some p 1 (by omega)
    rw [hv]
    dsimp only
    split <;> nr_close

theorem handleRead_nr (H : Handlers) (srv : Server) (cap : Nat) (op : UInt8) (p : Bytes) (cells : List Bytes) (c : Conn) :
    handleRead H srv cap op p cells c ≠ .oobRead := by
  unfold handleRead
  split
  · next hs => exact checkSizeAndHandle_stop _ _ _ _ _ _ (by omega) hs
  · apply readResponse_nr

theorem handleReadBlob_nr (H : Handlers) (srv : Server) (cap : Nat) (op : UInt8) (p : Bytes) (cells : List Bytes) (c : Conn) :
    handleReadBlob H srv cap op p cells c ≠ .oobRead := by
  unfold handleReadBlob
  split
  · next hs => exact checkSizeAndHandle_stop _ _ _ _ _ _ (by omega) hs
  · next hok =>
    have hl := checkSizeAndHandle_ok _ _ _ _ _ _ hok
    obtain ⟨v, hv⟩ := rd16_some p 3 (by omega)
    rw [hv]
    apply readResponse_nr

theorem handleReadByType_nr (H : Handlers) (srv : Server) (cap : Nat) (op : UInt8) (p : Bytes) (cells : List Bytes) (c : Conn) :
    handleReadByType H srv cap op p cells c ≠ .oobRead := by
  unfold handleReadByType
  split
  · next hs => exact checkRange_stop _ _ _ _ _ _ _ (by omega) (by omega) hs
  · next hok =>
    have hl := checkRange_ok _ _ _ _ _ _ _ hok
    obtain ⟨v, hv⟩ := slice_some p 5 (by omega)
    rw [hv]
    dsimp only
    split <;> nr_close

theorem handleFindInfo_nr (srv : Server) (cap : Nat) (op : UInt8) (p : Bytes) : handleFindInfo srv cap op p ≠ .oobRead := by
  unfold handleFindInfo
  split
  · next hs => exact checkRange_stop _ _ _ _ _ _ _ (by omega) (by omega) hs
  · repeat' first | split | (dsimp only; split)
    all_goals nr_close

theorem handleFindByType_nr (srv : Server) (cap : Nat) (op : UInt8) (p : Bytes) : handleFindByType srv cap op p ≠ .oobRead := by
  unfold handleFindByType
  split
  · next hs => exact checkRange_stop _ _ _ _ _ _ _ (by omega) (by omega) hs
  · next hok =>
    have hl := checkRange_ok _ _ _ _ _ _ _ hok
    obtain ⟨t, ht⟩ := rd16_some p 5 (by omega)
    obtain ⟨v, hv⟩ := slice_some p 7 (by omega)
    rw [ht, hv]
    dsimp only
    split
    · nr_close
    · split <;> nr_close

theorem handleReadByGroup_nr (srv : Server) (cap : Nat) (op : UInt8) (p : Bytes) : handleReadByGroup srv cap op p ≠ .oobRead := by
  unfold handleReadByGroup
  split
  · next hs => exact checkRange_stop _ _ _ _ _ _ _ (by omega) (by omega) hs
  · next hok =>
    have hl := checkRange_ok _ _ _ _ _ _ _ hok
    obtain ⟨t, ht⟩ := rd16_some p 5 (by omega)
    rw [ht]
    dsimp only
    repeat' first | split | (dsimp only; split)
    all_goals nr_close

theorem multiLoop_nr (H : Handlers) (srv : Server) (cap : Nat) (op : UInt8) (cells : List Bytes) (c : Conn)
    (hs acc : Bytes) (he : hs.length % 2 = 0) : multiLoop H srv cap op cells c hs acc ≠ .oobRead := by
  fun_induction multiLoop H srv cap op cells c hs acc
  all_goals first
    | nr_close
    | (simp at he; done)
    | (rename_i ih; apply ih; simp only [List.length_cons] at he; omega)

theorem handleReadMultiple_nr (H : Handlers) (srv : Server) (cap : Nat) (op : UInt8) (p : Bytes) (cells : List Bytes) (c : Conn) :
    handleReadMultiple H srv cap op p cells c ≠ .oobRead := by
  unfold handleReadMultiple
  split
  · nr_close
  · next hl => exact multiLoop_nr _ _ _ _ _ _ _ _ (by simp only [List.length_drop]; omega)

theorem handleWrite_nr (H : Handlers) (srv : Server) (cap : Nat) (op : UInt8) (p : Bytes) (cells : List Bytes) (c : Conn) :
    (handleWrite H srv cap op p cells c).resp ≠ .oobRead := by
  unfold handleWrite
  split
  · nr_close
  · next hl =>
    split
    · next hs => exact checkHandle_stop _ _ _ _ _ (by omega) hs
    · repeat' split
      all_goals nr_close

theorem handleWriteCommand_nr (H : Handlers) (srv : Server) (cap : Nat) (op : UInt8) (p : Bytes) (cells : List Bytes) (c : Conn) :
    (handleWriteCommand H srv cap op p cells c).resp ≠ .oobRead := by
  unfold handleWriteCommand
  split
  · nr_close
  · apply handleWrite_nr

theorem dispatch_nr (H : Handlers) (srv : Server) (cells : List Bytes) (c : Conn) (op : UInt8) (p : Bytes) (cap : Nat) :
    (dispatch H srv cap op p cells c).resp ≠ .oobRead := by
  unfold dispatch
  by_cases h01 : op = 0x01
  · rw [if_pos h01]; nr_close
  rw [if_neg h01]
  by_cases h : op = 0x02
  · rw [if_pos h]; apply handleExchangeMtu_nr
  rw [if_neg h]; clear h
  by_cases h : op = 0x04
  · rw [if_pos h]; apply handleFindInfo_nr
  rw [if_neg h]; clear h
  by_cases h : op = 0x06
  · rw [if_pos h]; apply handleFindByType_nr
  rw [if_neg h]; clear h
  by_cases h : op = 0x08
  · rw [if_pos h]; apply handleReadByType_nr
  rw [if_neg h]; clear h
  by_cases h : op = 0x0A
  · rw [if_pos h]; apply handleRead_nr
  rw [if_neg h]; clear h
  by_cases h : op = 0x0C
  · rw [if_pos h]; apply handleReadBlob_nr
  rw [if_neg h]; clear h
  by_cases h : op = 0x10
  · rw [if_pos h]; apply handleReadByGroup_nr
  rw [if_neg h]; clear h
  by_cases h : op = 0x0E
  · rw [if_pos h]; apply handleReadMultiple_nr
  rw [if_neg h]; clear h
  by_cases h : op = 0x12
  · rw [if_pos h]; apply handleWrite_nr
  rw [if_neg h]; clear h
  by_cases h : op = 0x52
  · rw [if_pos h]; apply handleWriteCommand_nr
  rw [if_neg h]; clear h
  by_cases h : op = 0x16
  · rw [if_pos h]; nr_close
  rw [if_neg h]; clear h
  by_cases h : op = 0x18
  · rw [if_pos h]; nr_close
  rw [if_neg h]; clear h
  by_cases h : op = 0x1E
  · rw [if_pos h]; (unfold handleConfirmation; split <;> nr_close)
  rw [if_neg h]; clear h
  nr_close

/-- **C01 (input side)**: `l2cap_input` never reads outside the PDU it was given — for every server
    table, memory content, connection state, handler implementation, PDU and output buffer size -/
theorem step_no_oob_read (H : Handlers) (srv : Server) (cells : List Bytes) (c : Conn) (p : Bytes) (outSize : Nat) :
    (l2capInput H srv cells c p outSize).resp ≠ .oobRead := by
  cases p with
  | nil => rw [l2capInput]; nr_close
  | cons op rest =>
    rw [l2capInput]
    split
    · nr_close
    · apply dispatch_nr

end BluetoeModel.AttAccess
