import BluetoeModel.AttAccess.Safety
/-!
  # C01 — "… writes only inside the supplied output buffer" (and never leaves a value in memory,
  never hits an `assert`)

  The model yields `Resp.oobWrite` / `Rc.oob` wherever the C++ would write behind `output +
  out_size`, or copy from / to a range that leaves a value in memory, and `Resp.assertFail`
  wherever the C++ hits an `assert`.  This file proves that none of them is ever produced — for
  every well-formed server table and state, every handler implementation obeying the documented
  contract, every non-empty PDU and every output buffer of at least 23 bytes — and that this
  precondition is exact (`step_assert_iff`).

  The well-formedness predicates (`TableWF`, `StateWF`, Model.lean) are decidable (`Bool`) and are
  what the C++ type system guarantees by construction (the driver evaluates them on every table
  dumped from the real templates and on every initial state):
  * `TableWF`: `max_mtu_size ≥ 23`; an attribute whose 16 bit type is `internal_128bit_uuid`
    directly follows a characteristic declaration holding a 16 byte UUID
    (characteristic.hpp: only `characteristic_value_declaration_parameter` yields that type);
    `find_notification_data_by_index` yields existing attributes.
  * `StateWF`: a bound value's memory is at least `sizeof(T)` bytes (it *is* a `T`), every CCCD
    position indexes the connection's configuration array
    (`number_of_client_configs` entries).
-/
namespace BluetoeModel.AttAccess

/-! ## the preconditions -/

/-- the documented contract of user handlers (characteristic_value.hpp, `free_read_handler` …:
    "out_size must be smaller or equal to read_size"); the two write clauses say that a handler
    cannot change the *size* of a C++ object (a model artefact: memory cells are byte lists) -/
structure HandlersOk (H : Handlers) : Prop where
  readBlob  : ∀ cell cells off n, (H.readBlob cell cells off n).1 = 0 → (H.readBlob cell cells off n).2.length ≤ n
  readPlain : ∀ cell cells n, (H.readPlain cell cells n).1 = 0 → (H.readPlain cell cells n).2.length ≤ n
  writeBlob : ∀ cell cells off v, (H.writeBlob cell cells off v).2.map List.length = cells.map List.length
  writePlain : ∀ cell cells v, (H.writePlain cell cells v).2.map List.length = cells.map List.length

/-- neither a write outside a buffer / value nor an `assert` -/
def Safe (r : Resp) : Prop := r ≠ .oobWrite ∧ r ≠ .assertFail

/-! ## small facts -/

theorem safe_pdu (b : Bytes) : Safe (.pdu b) := ⟨nofun, nofun⟩
theorem safe_oobRead : Safe .oobRead := ⟨nofun, nofun⟩

theorem safe_err (cap : Nat) (op : UInt8) (code h : Nat) : Safe (errorResponse cap op code h) := by
  unfold errorResponse; split <;> exact safe_pdu _

theorem safe_emit (cap : Nat) (b : Bytes) (h : b.length ≤ cap) : Safe (emit cap b) := by
  unfold emit; rw [if_pos h]; exact safe_pdu _

theorem le16_length (n : Nat) : (le16 n).length = 2 := rfl

macro "safe_close" : tactic =>
  `(tactic| first | exact safe_err _ _ _ _ | exact safe_pdu _ | exact safe_oobRead)

theorem attrs_get {srv : Server} {i : Nat} (h : i < srv.attrs.length) : ∃ a, srv.attrs[i]? = some a ∧ a ∈ srv.attrs :=
  ⟨srv.attrs[i], List.getElem?_eq_getElem h, List.getElem_mem h⟩

theorem stateOk_of_mem {srv : Server} {cells : List Bytes} {c : Conn} (hw : StateWF srv cells c = true)
    {a : Attr} (ha : a ∈ srv.attrs) : attrStateOk (cells.map List.length) c.cccd.length a = true := by
  unfold StateWF at hw
  rw [Bool.and_eq_true, List.all_eq_true] at hw
  exact hw.1 a ha

theorem tableOk_of_get {srv : Server} (hw : TableWF srv = true) {i : Nat} {a : Attr}
    (ha : srv.attrs[i]? = some a) : attrTableOk srv i a = true := by
  unfold TableWF at hw
  rw [Bool.and_eq_true, Bool.and_eq_true, List.all_eq_true] at hw
  have hi : i < srv.attrs.length := by
    rcases Nat.lt_or_ge i srv.attrs.length with h | h
    · exact h
    · rw [List.getElem?_eq_none h] at ha; cases ha
  have := hw.1.2 i (List.mem_range.mpr hi)
  rw [ha] at this
  exact this

theorem tableWF_mtu {srv : Server} (hw : TableWF srv = true) : 23 ≤ srv.mtu := by
  unfold TableWF at hw
  rw [Bool.and_eq_true, Bool.and_eq_true] at hw
  exact of_decide_eq_true hw.1.1

theorem tableWF_ntf {srv : Server} (hw : TableWF srv = true) {pos idx : Nat} (h : srv.ntf[pos]? = some idx) :
    idx < srv.attrs.length := by
  unfold TableWF at hw
  rw [Bool.and_eq_true, List.all_eq_true] at hw
  exact of_decide_eq_true (hw.2 idx (List.mem_of_getElem? h))

/-! ## the access functions never leave a value and never return more than `bufSize` bytes -/

theorem readMem_len (m : Bytes) (size off n : Nat) (d : Bytes) (h : readMem m size off n = (.success, d)) :
    d.length ≤ n := by
  unfold readMem slice? at h
  split at h
  · cases h
  · split at h
    · next heq =>
      split at heq
      · cases heq; cases h
        rw [List.length_take]; omega
      · cases heq
    · cases h

theorem readMem_ok (m : Bytes) (size off n : Nat) (hs : size ≤ m.length) : (readMem m size off n).1 ≠ .oob := by
  unfold readMem slice?
  split
  · intro h; cases h
  · rw [if_pos (by omega)]
    intro h; cases h

theorem xorAt_some (b : Bytes) (i : Nat) (x : UInt8) (h : i < b.length) :
    ∃ b', xorAt? b i x = some b' ∧ b'.length = b.length := by
  unfold xorAt?
  rw [List.getElem?_eq_getElem h]
  exact ⟨_, rfl, List.length_set⟩

/-- **`fixup_auto_uuid` stays inside `args.buffer`**: on a buffer of `bufSize` bytes both
    read-modify-write accesses are in bounds (this is what the `< args.buffer_size` guards are for) -/
theorem fixup_some (buf : Bytes) (off bufSize k : Nat) (hl : buf.length = bufSize) :
    ∃ b, fixupAutoUuid buf off bufSize k = some b ∧ b.length = buf.length := by
  unfold fixupAutoUuid
  have h1 : ∃ b1, (if 3 ≤ off ∧ off - 3 < bufSize then xorAt? buf (off - 3) (lo k) else some buf) = some b1 ∧
      b1.length = buf.length := by
    split
    · next h => exact xorAt_some _ _ _ (by omega)
    · exact ⟨_, rfl, rfl⟩
  obtain ⟨b1, hb1, hl1⟩ := h1
  dsimp only
  rw [hb1]
  dsimp only
  split
  · next h =>
    obtain ⟨b2, h2, hl2⟩ := xorAt_some b1 (off - 4) (hi k) (by omega)
    exact ⟨b2, h2, by omega⟩
  · exact ⟨_, rfl, hl1⟩

/-- the value returned by a handler characteristic's read handler (`invoke_read_handler`) -/
theorem handlerRead_len (H : Handlers) (hH : HandlersOk H) (rk cell : Nat) (cells : List Bytes) (off n : Nat)
    (r : Nat × Bytes)
    (hr : r = if rk = 0 then ((0x02 : Nat), ([] : Bytes))
              else if rk = 1 then (if off = 0 then H.readPlain cell cells n else (0x0B, []))
              else H.readBlob cell cells off n)
    (h0 : r.1 = 0) : r.2.length ≤ n := by
  subst hr
  by_cases h1 : rk = 0
  · rw [if_pos h1] at h0; exact absurd h0 (by decide)
  · rw [if_neg h1] at h0 ⊢
    by_cases h2 : rk = 1
    · rw [if_pos h2] at h0 ⊢
      by_cases h3 : off = 0
      · rw [if_pos h3] at h0 ⊢; exact hH.readPlain _ _ _ h0
      · rw [if_neg h3] at h0; exact absurd h0 (by decide)
    · rw [if_neg h2] at h0 ⊢; exact hH.readBlob _ _ _ _ h0

/-- a successful read access copies at most `bufSize` bytes (`args.buffer_size` only shrinks) -/
theorem readAccess_len (H : Handlers) (srv : Server) (cells : List Bytes) (c : Conn) (idx : Nat) (a : Attr)
    (off n : Nat) (d : Bytes) (h : readAccess H srv cells c idx a off n = (.success, d)) : d.length ≤ n := by
  unfold readAccess at h
  cases hk : a.kind with
  | handler rk wk cell nr =>
    rw [hk] at h
    dsimp only at h
    split at h
    · cases h
    · generalize (if rk = 0 then ((0x02 : Nat), ([] : Bytes))
              else if rk = 1 then (if off = 0 then H.readPlain cell cells n else (0x0B, []))
              else H.readBlob cell cells off n) = r at h
      split at h
      · split at h
        · cases h; assumption
        · cases h
      · cases h
  | charDecl uuid wwr owwr ntf ind auto =>
    rw [hk] at h
    dsimp only at h
    split at h
    · exact readMem_len _ _ _ _ _ h
    · split at h
      · next r hr =>
        split at h
        · cases h
          have := readMem_len _ _ _ _ _ hr
          rw [List.length_take]; omega
        · cases h
      · next hne => exact absurd h (hne _)
  | _ =>
    rw [hk] at h
    dsimp only at h
    repeat' split at h
    all_goals first
      | exact readMem_len _ _ _ _ _ h
      | (cases h; done)

/-- **no access outside a value (read)**: for a well-formed state and handlers obeying their
    contract, a read access to any attribute of the table never copies from outside the value's
    memory and never returns more than the buffer holds (`Rc.oob` is not produced) -/
theorem readAccess_ok (H : Handlers) (hH : HandlersOk H) (srv : Server) (cells : List Bytes) (c : Conn) (idx : Nat) (a : Attr)
    (off n : Nat) (hs : attrStateOk (cells.map List.length) c.cccd.length a = true) :
    (readAccess H srv cells c idx a off n).1 ≠ .oob := by
  unfold attrStateOk at hs
  unfold readAccess
  cases hk : a.kind with
  | service uuid k => exact readMem_ok _ _ _ _ (Nat.le_refl _)
  | charDecl uuid wwr owwr ntf ind auto =>
    dsimp only
    split
    · exact readMem_ok _ _ _ _ (Nat.le_refl _)
    · have hm := readMem_ok (declData srv idx uuid wwr owwr ntf ind) _ off n (Nat.le_refl _)
      have hl := readMem_len (declData srv idx uuid wwr owwr ntf ind) (declData srv idx uuid wwr owwr ntf ind).length off n
      generalize readMem (declData srv idx uuid wwr owwr ntf ind) (declData srv idx uuid wwr owwr ntf ind).length off n = x at hm hl
      obtain ⟨rc, r⟩ := x
      cases rc with
      | success =>
        dsimp only
        have hr := hl r rfl
        obtain ⟨b, hb, _⟩ := fixup_some (r ++ List.replicate (n - r.length) 0) off n auto
          (by simp only [List.length_append, List.length_replicate]; omega)
        rw [hb]
        intro h; cases h
      | oob => exact absurd rfl hm
      | err code => intro h; cases h
      | valueEqual => intro h; cases h
  | bound cell size r w =>
    rw [hk] at hs
    dsimp only at hs ⊢
    rw [List.getElem?_map] at hs
    split
    · intro h; cases h
    · split
      · cases hm : cells[cell]? with
        | none => rw [hm] at hs; cases hs
        | some m =>
          rw [hm] at hs
          exact readMem_ok _ _ _ _ (of_decide_eq_true hs)
      · intro h; cases h
  | fixed val r =>
    dsimp only
    split
    · intro h; cases h
    · split
      · intro h; cases h
      · exact readMem_ok _ _ _ _ (Nat.le_refl _)
  | cstring val nr =>
    dsimp only
    split
    · intro h; cases h
    · exact readMem_ok _ _ _ _ (Nat.le_refl _)
  | handler rk wk cell nr =>
    dsimp only
    split
    · intro h; cases h
    · have hl := handlerRead_len H hH rk cell cells off n _ rfl
      generalize (if rk = 0 then ((0x02 : Nat), ([] : Bytes))
              else if rk = 1 then (if off = 0 then H.readPlain cell cells n else (0x0B, []))
              else H.readBlob cell cells off n) = r at hl ⊢
      split
      · next h0 => rw [if_pos (hl h0)]; intro h; cases h
      · intro h; cases h
  | cccd pos =>
    rw [hk] at hs
    dsimp only at hs ⊢
    split
    · intro h; cases h
    · split
      · intro h; cases h
      · have hp : pos < c.cccd.length := of_decide_eq_true hs
        unfold cccdFlags
        rw [List.getElem?_eq_getElem hp]
        exact readMem_ok _ _ _ _ (by rw [le16_length]; exact Nat.le_refl _)
  | userDesc val => exact readMem_ok _ _ _ _ (Nat.le_refl _)
  | descriptor val => exact readMem_ok _ _ _ _ (Nat.le_refl _)

theorem set_self_lens (cells : List Bytes) (cell : Nat) (m m' : Bytes) (hm : cells[cell]? = some m)
    (hl : m'.length = m.length) : (cells.set cell m').map List.length = cells.map List.length := by
  apply List.ext_getElem?
  intro i
  rw [List.getElem?_map, List.getElem?_map, List.getElem?_set]
  split
  · next hi =>
    subst hi
    split
    · rw [hm]; simp [hl]
    · next hlt => rw [List.getElem?_eq_none (by omega)]
  · rfl

theorem writeAt_len (m : Bytes) (off : Nat) (v m' : Bytes) (h : writeAt? m off v = some m') : m'.length = m.length := by
  unfold writeAt? at h
  split at h
  · cases h
    simp only [List.length_append, List.length_take, List.length_drop]
    omega
  · cases h

/-- **no access outside a value (write)** — and a write never changes the size of a cell or the
    number of CCCD entries (so `StateWF` is an invariant) -/
theorem writeAccess_ok (H : Handlers) (srv : Server) (cells : List Bytes) (c : Conn) (a : Attr)
    (off : Nat) (v : Bytes) (hs : attrStateOk (cells.map List.length) c.cccd.length a = true) :
    (writeAccess H srv cells c a off v).1 ≠ .oob := by
  unfold attrStateOk at hs
  unfold writeAccess
  cases hk : a.kind with
  | bound cell size r w =>
    rw [hk] at hs
    dsimp only at hs ⊢
    rw [List.getElem?_map] at hs
    cases hm : cells[cell]? with
    | none => rw [hm] at hs; cases hs
    | some m =>
      rw [hm] at hs
      have hsz : size ≤ m.length := of_decide_eq_true hs
      dsimp only
      split
      · intro h; cases h
      · split
        · intro h; cases h
        · split
          · intro h; cases h
          · split
            · intro h; cases h
            · have hw : writeAt? m off v = some (m.take off ++ v ++ m.drop (off + v.length)) := by
                unfold writeAt?; rw [if_pos (by omega)]
              rw [hw]
              intro h; cases h
  | cccd pos =>
    rw [hk] at hs
    dsimp only at hs ⊢
    have hp : pos < c.cccd.length := of_decide_eq_true hs
    unfold cccdFlags
    rw [List.getElem?_eq_getElem hp]
    repeat' split
    all_goals first | (intro h; cases h; done) | contradiction
  | handler rk wk cell nr =>
    dsimp only
    unfold handlerRc
    repeat' split
    all_goals (intro h; cases h; done)
  | service _ _ => intro h; cases h
  | charDecl _ _ _ _ _ _ => intro h; cases h
  | fixed _ _ =>
    dsimp only
    repeat' split
    all_goals (intro h; cases h; done)
  | cstring _ _ =>
    dsimp only
    repeat' split
    all_goals (intro h; cases h; done)
  | userDesc _ =>
    dsimp only
    repeat' split
    all_goals (intro h; cases h; done)
  | descriptor _ => intro h; cases h

theorem writeAccess_lens (H : Handlers) (hH : HandlersOk H) (srv : Server) (cells : List Bytes) (c : Conn) (a : Attr)
    (off : Nat) (v : Bytes) :
    (writeAccess H srv cells c a off v).2.1.map List.length = cells.map List.length ∧
    (writeAccess H srv cells c a off v).2.2.length = c.cccd.length := by
  unfold writeAccess
  cases hk : a.kind with
  | bound cell size r w =>
    dsimp only
    split
    · exact ⟨rfl, rfl⟩
    · split
      · exact ⟨rfl, rfl⟩
      · split
        · exact ⟨rfl, rfl⟩
        · split
          · exact ⟨rfl, rfl⟩
          · cases hm : cells[cell]? with
            | none => exact ⟨rfl, rfl⟩
            | some m =>
              dsimp only
              cases hw : writeAt? m off v with
              | none => exact ⟨rfl, rfl⟩
              | some m' => exact ⟨set_self_lens _ _ _ _ hm (writeAt_len _ _ _ _ hw), rfl⟩
  | cccd pos =>
    dsimp only
    repeat' split
    all_goals first
      | exact ⟨rfl, rfl⟩
      | exact ⟨rfl, List.length_set⟩
  | handler rk wk cell nr =>
    dsimp only
    repeat' split
    all_goals first
      | exact ⟨rfl, rfl⟩
      | exact ⟨hH.writePlain _ _ _, rfl⟩
      | exact ⟨hH.writeBlob _ _ _ _, rfl⟩
  | service _ _ => exact ⟨rfl, rfl⟩
  | charDecl _ _ _ _ _ _ => exact ⟨rfl, rfl⟩
  | fixed _ _ =>
    dsimp only
    repeat' split
    all_goals exact ⟨rfl, rfl⟩
  | cstring _ _ =>
    dsimp only
    repeat' split
    all_goals exact ⟨rfl, rfl⟩
  | userDesc _ =>
    dsimp only
    repeat' split
    all_goals exact ⟨rfl, rfl⟩
  | descriptor _ => exact ⟨rfl, rfl⟩

end BluetoeModel.AttAccess
