import BluetoeModel.AttAccess.ValueProps
import BluetoeModel.AttAccess.OutSafety
/-!
  # C06 — "Permission options (no_read_access, no_write_access, const values, fixed values,
  write-only handlers) are enforced for every access path, and the declared characteristic
  properties match what is actually permitted."

  All value kinds: bound, fixed, cstring / blob, handler.  The only excluded inputs are the two
  known findings: `no_read_access` is ignored by `value_handler_base` (handler values with a read
  handler) and by `cstring_wrapper` (cstring / fixed blob values).
-/
namespace BluetoeModel.AttAccess

/-- the attribute is a characteristic value -/
def isValue : Kind → Bool
  | .bound _ _ _ _ | .fixed _ _ | .cstring _ _ | .handler _ _ _ _ => true
  | _ => false

/-- the Write / Write Without Response bits of the declared properties come from
    `value_type::has_write_access` -/
def declaresWrite (k : Kind) : Bool := (valueAccessFlags k).2

/-- the characteristic was declared with the `no_read_access` option -/
def optNoRead : Kind → Bool
  | .bound _ _ r _ => !r
  | .fixed _ r => !r
  | .cstring _ nr => nr
  | .handler _ _ _ nr => nr
  | _ => false

/-- what `invoke_read_handler` / `invoke_write_handler` make of a handler's result -/
def ofReadHandler (r : Nat × Bytes) : Rc × Bytes := if r.1 = 0 then (.success, r.2) else (.err r.1, [])

/-! ## handler values under the documented contract -/

/-- **handler_read_refines**: with handlers obeying "out_size ≤ read_size", a read of a handler
    value is: Read Not Permitted without a read handler (write-only characteristic); the plain
    handler's result at offset 0 and Attribute Not Long (0x0B) at any other offset; the blob
    handler's result at every offset — never an out-of-bounds copy -/
theorem handler_read_refines (H : Handlers) (hH : HandlersOk H) (srv : Server) (cells : List Bytes) (c : Conn) (idx : Nat)
    (a : Attr) (rk wk cell : Nat) (nr : Bool) (off room : Nat)
    (hk : a.kind = .handler rk wk cell nr) (hs : SecOk srv c a) :
    readAccess H srv cells c idx a off room =
      if rk = 0 then (.err 0x02, [])
      else if rk = 1 then (if off = 0 then ofReadHandler (H.readPlain cell cells room) else (.err 0x0B, []))
      else ofReadHandler (H.readBlob cell cells off room) := by
  unfold SecOk at hs
  unfold readAccess ofReadHandler
  rw [hk]
  simp only [hs]
  by_cases h0 : rk = 0
  · simp [h0]
  · by_cases h1 : rk = 1
    · by_cases ho : off = 0
      · simp only [h1, ho, if_true, if_false, Nat.succ_ne_zero]
        split
        · next hz => rw [if_pos (hH.readPlain _ _ _ hz)]
        · rfl
      · simp [h1, ho]
    · simp only [h0, h1, if_false]
      split
      · next hz => rw [if_pos (hH.readBlob _ _ _ _ hz)]
      · rfl

/-- **handler_write_refines**: a write to a handler value is: Write Not Permitted without a write
    handler (read-only characteristic); the plain handler's result at offset 0 and Attribute Not
    Long at any other offset; the blob handler's result at every offset.  The CCCDs never change. -/
theorem handler_write_refines (H : Handlers) (srv : Server) (cells : List Bytes) (c : Conn) (a : Attr)
    (rk wk cell : Nat) (nr : Bool) (off : Nat) (v : Bytes)
    (hk : a.kind = .handler rk wk cell nr) (hs : SecOk srv c a) :
    writeAccess H srv cells c a off v =
      if wk = 0 then (.err 0x03, cells, c.cccd)
      else if wk = 1 then
        (if off = 0 then (handlerRc (H.writePlain cell cells v).1, (H.writePlain cell cells v).2, c.cccd)
         else (.err 0x0B, cells, c.cccd))
      else (handlerRc (H.writeBlob cell cells off v).1, (H.writeBlob cell cells off v).2, c.cccd) := by
  unfold SecOk at hs
  unfold writeAccess
  rw [hk]
  simp only [hs]

/-! ## declared properties ⇔ permissions -/

/-- **write property ⇒ permission, full strength, every value kind**: when the declaration carries
    neither Write nor Write Without Response (`has_write_access = false`: no_write_access, const,
    fixed, cstring / blob values, handler values without a write handler) every write — any
    offset, any length, encrypted or not — is refused and changes nothing -/
theorem write_property_matches_permission (H : Handlers) (srv : Server) (cells : List Bytes) (c : Conn) (a : Attr)
    (off : Nat) (v : Bytes) (hv : isValue a.kind = true) (hd : declaresWrite a.kind = false) :
    (∃ code, (writeAccess H srv cells c a off v).1 = .err code) ∧ (writeAccess H srv cells c a off v).2 = (cells, c.cccd) := by
  unfold writeAccess
  cases hk : a.kind with
  | bound cell size r w =>
    rw [hk] at hd
    simp [declaresWrite, valueAccessFlags] at hd
    subst hd
    dsimp only
    cases secCheck (requiresEnc srv.enc a) c <;> simp
  | fixed val r =>
    dsimp only
    cases secCheck (requiresEnc srv.enc a) c <;> cases r <;> simp
  | cstring val nr =>
    dsimp only
    cases secCheck (requiresEnc srv.enc a) c <;> simp
  | handler rk wk cell nr =>
    rw [hk] at hd
    simp [declaresWrite, valueAccessFlags] at hd
    subst hd
    dsimp only
    cases secCheck (requiresEnc srv.enc a) c <;> simp
  | service _ _ => rw [hk] at hv; cases hv
  | charDecl _ _ _ _ _ _ => rw [hk] at hv; cases hv
  | cccd _ => rw [hk] at hv; cases hv
  | userDesc _ => rw [hk] at hv; cases hv
  | descriptor _ => rw [hk] at hv; cases hv

/-- **write permission ⇒ not refused by the library**: a value whose declaration carries a write
    property is never answered Write Not Permitted (0x03) by the library itself once the security
    check has passed: bound values answer success / Invalid Offset / Invalid Attribute Value
    Length (`write_refines`), handler values answer what the handler answers
    (`handler_write_refines`) -/
theorem declared_write_permitted (H : Handlers) (srv : Server) (cells : List Bytes) (c : Conn) (a : Attr)
    (cell size : Nat) (r : Bool) (off : Nat) (v : Bytes) (hk : a.kind = .bound cell size r true) (hs : SecOk srv c a)
    (hw : attrStateOk (cells.map List.length) c.cccd.length a = true) :
    (writeAccess H srv cells c a off v).1 = .success ∨ (writeAccess H srv cells c a off v).1 = .err 0x07 ∨
      (writeAccess H srv cells c a off v).1 = .err 0x0D := by
  unfold attrStateOk at hw
  rw [hk] at hw
  dsimp only at hw
  rw [List.getElem?_map] at hw
  cases hm : cells[cell]? with
  | none => rw [hm] at hw; cases hw
  | some m =>
    rw [hm] at hw
    have hsz : size ≤ m.length := of_decide_eq_true hw
    unfold SecOk at hs
    unfold writeAccess
    rw [hk]
    simp only [hs, hm]
    by_cases h1 : off > size
    · simp [h1]
    · by_cases h2 : v.length + off > size
      · simp [h1, h2]
      · have : off + v.length ≤ m.length := by omega
        simp [h1, h2, writeAt?, this]

/-- full strength, read direction: a value whose declaration lacks the Read property cannot be read -/
def read_property_full : Prop :=
  ∀ (H : Handlers) (srv : Server) (cells : List Bytes) (c : Conn) (idx : Nat) (a : Attr) (off room : Nat),
    isValue a.kind = true → declaresRead a.kind = false → (readAccess H srv cells c idx a off room).1 ≠ .success

/-- the inputs excluded from the full statement: handler values with a read handler declared with
    `no_read_access` (finding C06:no_read_access-not-enforced:handler) -/
def readPropertyExcluded : Kind → Bool
  | .handler rk _ _ nr => rk != 0 && nr
  | _ => false

/-- **read property ⇒ permission (partial)**: holds for every value kind — bound, fixed, cstring /
    blob, handler — except exactly `readPropertyExcluded` -/
theorem read_property_matches_permission_partial (H : Handlers) (srv : Server) (cells : List Bytes) (c : Conn) (idx : Nat)
    (a : Attr) (off room : Nat) (hv : isValue a.kind = true) (hd : declaresRead a.kind = false)
    (hx : readPropertyExcluded a.kind = false) : (readAccess H srv cells c idx a off room).1 ≠ .success := by
  unfold readAccess
  cases hk : a.kind with
  | bound cell size r w =>
    rw [hk] at hd
    simp [declaresRead, valueAccessFlags] at hd
    subst hd
    dsimp only
    cases secCheck (requiresEnc srv.enc a) c <;> simp
  | fixed val r =>
    rw [hk] at hd
    simp [declaresRead, valueAccessFlags] at hd
    subst hd
    dsimp only
    cases secCheck (requiresEnc srv.enc a) c <;> simp
  | cstring val nr =>
    rw [hk] at hd
    simp [declaresRead, valueAccessFlags] at hd
  | handler rk wk cell nr =>
    rw [hk] at hd hx
    simp [declaresRead, valueAccessFlags] at hd
    simp [readPropertyExcluded] at hx
    have h0 : rk = 0 := by
      rcases Nat.eq_zero_or_pos rk with h | h
      · exact h
      · have := hd (by omega); have := hx (by omega); simp_all
    subst h0
    dsimp only
    cases secCheck (requiresEnc srv.enc a) c <;> simp
  | service _ _ => rw [hk] at hv; cases hv
  | charDecl _ _ _ _ _ _ => rw [hk] at hv; cases hv
  | cccd _ => rw [hk] at hv; cases hv
  | userDesc _ => rw [hk] at hv; cases hv
  | descriptor _ => rw [hk] at hv; cases hv

/-- the full statement is false of the code (same witness as `no_read_handler_witness`, stated for
    value attributes only) -/
theorem read_property_full_witness : ¬ read_property_full := by
  intro h
  exact h Handlers.std wHandlerSrv [[0x30, 0x31, 0x32, 0x33]] ⟨23, [], false, 0⟩ 0
    ⟨0x4003, .handler 1 0 0 true, default, default⟩ 0 22 (by decide) (by decide) (by decide)

/-- the exclusion is not larger than the finding: *every* excluded kind is readable although its
    declaration lacks Read (std handlers, one 1 byte cell) -/
theorem read_property_excluded_all_fail (rk wk : Nat) (hrk : rk ≠ 0) :
    declaresRead (.handler rk wk 0 true) = false ∧
    (readAccess Handlers.std wHandlerSrv [[0x30]] ⟨23, [], false, 0⟩ 0
      ⟨0x4003, .handler rk wk 0 true, ⟨false, false, false⟩, ⟨false, false, false⟩⟩ 0 22).1 = .success := by
  constructor
  · simp [declaresRead, valueAccessFlags]
  · by_cases h1 : rk = 1
    · simp [readAccess, secCheck, requiresEnc, encDefault, wHandlerSrv, h1, Handlers.std, stdReadPlain]
    · simp [readAccess, secCheck, requiresEnc, encDefault, wHandlerSrv, hrk, h1, Handlers.std, stdReadBlob]

/-- **read permission ⇒ not refused by the library**: a library-implemented value (bound, fixed,
    cstring / blob) whose declaration carries Read is, once the security check has passed, answered
    with its bytes or Invalid Offset — never Read Not Permitted, never an out-of-bounds copy
    (handler values: `handler_read_refines`) -/
theorem declared_read_permitted (H : Handlers) (srv : Server) (cells : List Bytes) (c : Conn) (idx : Nat) (a : Attr)
    (off room : Nat)
    (hk : (∃ cell size r w, a.kind = .bound cell size r w) ∨ (∃ val r, a.kind = .fixed val r) ∨ (∃ val nr, a.kind = .cstring val nr))
    (hd : declaresRead a.kind = true) (hs : SecOk srv c a)
    (hw : attrStateOk (cells.map List.length) c.cccd.length a = true) :
    (readAccess H srv cells c idx a off room).1 = .success ∨ (readAccess H srv cells c idx a off room).1 = .err 0x07 := by
  have hmem : ∀ (m : Bytes) (size : Nat), size ≤ m.length →
      (readMem m size off room).1 = .success ∨ (readMem m size off room).1 = .err 0x07 := by
    intro m size hsz
    unfold readMem slice?
    by_cases h1 : off > size
    · simp [h1]
    · have : off + min room (size - off) ≤ m.length := by omega
      simp [h1, this]
  unfold SecOk at hs
  unfold readAccess
  rcases hk with ⟨cell, size, r, w, hk⟩ | ⟨val, r, hk⟩ | ⟨val, nr, hk⟩
  · rw [hk] at hd
    simp [declaresRead, valueAccessFlags] at hd
    subst hd
    unfold attrStateOk at hw
    rw [hk] at hw
    dsimp only at hw
    rw [List.getElem?_map] at hw
    cases hm : cells[cell]? with
    | none => rw [hm] at hw; cases hw
    | some m =>
      rw [hm] at hw
      rw [hk]
      simp only [hs, hm, if_true]
      exact hmem m size (of_decide_eq_true hw)
  · rw [hk] at hd
    simp [declaresRead, valueAccessFlags] at hd
    subst hd
    rw [hk]
    simp only [hs]
    exact hmem val val.length (Nat.le_refl _)
  · rw [hk]
    simp only [hs]
    exact hmem val val.length (Nat.le_refl _)

/-! ## the `no_read_access` option -/

/-- full strength: a characteristic declared with `no_read_access` cannot be read -/
def no_read_access_enforced_full : Prop :=
  ∀ (H : Handlers) (srv : Server) (cells : List Bytes) (c : Conn) (idx : Nat) (a : Attr) (off room : Nat),
    isValue a.kind = true → optNoRead a.kind = true → (readAccess H srv cells c idx a off room).1 ≠ .success

/-- the inputs excluded from the full statement = the two known findings
    (C06:no_read_access-not-enforced:handler, …:cstring) -/
def noReadExcluded : Kind → Bool
  | .handler rk _ _ nr => rk != 0 && nr
  | .cstring _ nr => nr
  | _ => false

/-- **no_read_access enforced (partial)**: for bound values, fixed values and handler values
    without a read handler -/
theorem no_read_access_enforced_partial (H : Handlers) (srv : Server) (cells : List Bytes) (c : Conn) (idx : Nat)
    (a : Attr) (off room : Nat) (hv : isValue a.kind = true) (hn : optNoRead a.kind = true)
    (hx : noReadExcluded a.kind = false) : (readAccess H srv cells c idx a off room).1 ≠ .success := by
  unfold readAccess
  cases hk : a.kind with
  | bound cell size r w =>
    rw [hk] at hn
    simp [optNoRead] at hn
    subst hn
    dsimp only
    cases secCheck (requiresEnc srv.enc a) c <;> simp
  | fixed val r =>
    rw [hk] at hn
    simp [optNoRead] at hn
    subst hn
    dsimp only
    cases secCheck (requiresEnc srv.enc a) c <;> simp
  | cstring val nr =>
    rw [hk] at hn hx
    simp [optNoRead] at hn
    simp [noReadExcluded] at hx
    simp_all
  | handler rk wk cell nr =>
    rw [hk] at hn hx
    simp [optNoRead] at hn
    simp [noReadExcluded] at hx
    have h0 : rk = 0 := by
      rcases Nat.eq_zero_or_pos rk with h | h
      · exact h
      · have := hx (by omega); simp_all
    subst h0
    dsimp only
    cases secCheck (requiresEnc srv.enc a) c <;> simp
  | service _ _ => rw [hk] at hv; cases hv
  | charDecl _ _ _ _ _ _ => rw [hk] at hv; cases hv
  | cccd _ => rw [hk] at hv; cases hv
  | userDesc _ => rw [hk] at hv; cases hv
  | descriptor _ => rw [hk] at hv; cases hv

/-- the full statement is false of the code, witness 1: a handler value with `no_read_access` is read -/
theorem no_read_access_handler_witness : ¬ no_read_access_enforced_full := by
  intro h
  exact h Handlers.std wHandlerSrv [[0x30, 0x31, 0x32, 0x33]] ⟨23, [], false, 0⟩ 0
    ⟨0x4003, .handler 1 0 0 true, default, default⟩ 0 22 (by decide) (by decide) (by decide)

/-- witness 2: a cstring value with `no_read_access` is read (and, `valueAccessFlags`, declared
    readable: `cstring_wrapper::value_impl::has_read_access = true`) -/
theorem no_read_access_cstring_witness : ¬ no_read_access_enforced_full := by
  intro h
  exact h Handlers.std wHandlerSrv [] ⟨23, [], false, 0⟩ 0
    ⟨0x8001, .cstring [0x30, 0x31, 0x32, 0x33] true, default, default⟩ 0 22 (by decide) (by decide) (by decide)

/-- every excluded cstring value is readable: the exclusion is exactly the finding -/
theorem no_read_cstring_all_fail (H : Handlers) (srv : Server) (cells : List Bytes) (c : Conn) (idx : Nat) (a : Attr)
    (val : Bytes) (room : Nat) (hk : a.kind = .cstring val true) (hs : SecOk srv c a) :
    readAccess H srv cells c idx a 0 room = (.success, val.take room) := by
  unfold SecOk at hs
  unfold readAccess
  rw [hk]
  simp only [hs, readMem, slice?]
  have : min room val.length ≤ val.length := Nat.min_le_right _ _
  simp [this]

/-- **write-only handlers**: without a read handler every read is refused with Read Not Permitted,
    without a write handler every write with Write Not Permitted and nothing changes -/
theorem handler_permissions_enforced (H : Handlers) (srv : Server) (cells : List Bytes) (c : Conn) (idx : Nat) (a : Attr)
    (rk wk cell : Nat) (nr : Bool) (off room : Nat) (v : Bytes) (hk : a.kind = .handler rk wk cell nr) (hs : SecOk srv c a) :
    (rk = 0 → readAccess H srv cells c idx a off room = (.err 0x02, [])) ∧
    (wk = 0 → writeAccess H srv cells c a off v = (.err 0x03, cells, c.cccd)) := by
  unfold SecOk at hs
  constructor
  · intro h0
    unfold readAccess
    rw [hk]
    simp [hs, h0]
  · intro h0
    unfold writeAccess
    rw [hk]
    simp [hs, h0]

/-- non-vacuity of `declared_read_permitted` / `declared_write_permitted` /
    `write_property_matches_permission`: a readable, writable 4 byte bound value whose memory
    exists (`attrStateOk`), no encryption requirement (`SecOk`); a const one refuses the write -/
example : attrStateOk ([[1, 2, 3, 4]].map List.length) 0 ⟨0x1001, .bound 0 4 true true, default, default⟩ = true ∧
    secCheck (requiresEnc wHandlerSrv.enc ⟨0x1001, .bound 0 4 true true, default, default⟩) ⟨23, [], false, 0⟩ = none ∧
    declaresRead (.bound 0 4 true true) = true ∧
    readAccess Handlers.std wHandlerSrv [[1, 2, 3, 4]] ⟨23, [], false, 0⟩ 0 ⟨0x1001, .bound 0 4 true true, default, default⟩ 5 22
      = (.err 0x07, []) ∧
    declaresWrite (.bound 0 4 true false) = false ∧
    writeAccess Handlers.std wHandlerSrv [[1, 2, 3, 4]] ⟨23, [], false, 0⟩ ⟨0x1001, .bound 0 4 true false, default, default⟩ 0 [9]
      = (.err 0x03, [[1, 2, 3, 4]], []) := by decide

/-- non-vacuity: G4-like handler value (plain read handler, blob write handler) on an encrypted
    link — a read at offset 0 returns the handler's bytes, at offset 1 Attribute Not Long -/
example : readAccess Handlers.std wHandlerSrv [[0x30, 0x31]] ⟨23, [], true, 0⟩ 0
    ⟨0x4003, .handler 1 2 0 false, default, default⟩ 0 22 = (.success, [0x30, 0x31]) ∧
    readAccess Handlers.std wHandlerSrv [[0x30, 0x31]] ⟨23, [], true, 0⟩ 0
    ⟨0x4003, .handler 1 2 0 false, default, default⟩ 1 22 = (.err 0x0B, []) := by decide

end BluetoeModel.AttAccess
