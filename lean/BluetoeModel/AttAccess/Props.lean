import BluetoeModel.AttAccess.Lemmas
/-!
  # C01, C08, C06, C05 — property theorems about the model of `server::l2cap_input` / `l2cap_output`

  All theorems quantify over every server table (`Server` is a value), every memory content,
  every connection state, every handler implementation `H` and every PDU / history.
-/
namespace BluetoeModel.AttAccess

/-! ## C01 — "the server … never returns a response longer than the negotiated ATT MTU. Every
  request gets either its matching response opcode or an Error Response that names the request
  opcode; commands, confirmations, notifications and error responses from the client get no
  response." -/

/-- response opcode of the requests the server implements -/
def rspOf (op : UInt8) : Option UInt8 :=
  if op = 0x02 then some 0x03 else if op = 0x04 then some 0x05 else if op = 0x06 then some 0x07
  else if op = 0x08 then some 0x09 else if op = 0x0A then some 0x0B else if op = 0x0C then some 0x0D
  else if op = 0x0E then some 0x0F else if op = 0x10 then some 0x11 else if op = 0x12 then some 0x13
  else if op = 0x16 then some 0x17 else if op = 0x18 then some 0x19 else none

/-- opcodes with a dedicated branch in `l2cap_input` -/
def handled (op : UInt8) : Bool := (rspOf op).isSome || op = 0x01 || op = 0x52 || op = 0x1E

/-- every branch of `l2cap_input` yields a response that fits and is framed; `rsp` is the response
    opcode for requests and irrelevant (any) otherwise -/
theorem dispatch_good (H : Handlers) (srv : Server) (cells : List Bytes) (c : Conn) (op : UInt8) (p : Bytes)
    (cap : Nat) (rsp : UInt8) (hr : ∀ r, rspOf op = some r → r = rsp) :
    Good cap op rsp (dispatch H srv cap op p cells c).resp := by
  unfold dispatch
  by_cases h01 : op = 0x01
  · rw [if_pos h01]; good_close
  rw [if_neg h01]
  by_cases h : op = 0x02
  · rw [if_pos h]; subst h; have := hr 0x03 (by decide); subst this; exact good_handleExchangeMtu ..
  rw [if_neg h]; clear h
  by_cases h : op = 0x04
  · rw [if_pos h]; subst h; have := hr 0x05 (by decide); subst this; exact good_handleFindInfo ..
  rw [if_neg h]; clear h
  by_cases h : op = 0x06
  · rw [if_pos h]; subst h; have := hr 0x07 (by decide); subst this; exact good_handleFindByType ..
  rw [if_neg h]; clear h
  by_cases h : op = 0x08
  · rw [if_pos h]; subst h; have := hr 0x09 (by decide); subst this; exact good_handleReadByType ..
  rw [if_neg h]; clear h
  by_cases h : op = 0x0A
  · rw [if_pos h]; subst h; have := hr 0x0B (by decide); subst this; exact good_handleRead ..
  rw [if_neg h]; clear h
  by_cases h : op = 0x0C
  · rw [if_pos h]; subst h; have := hr 0x0D (by decide); subst this; exact good_handleReadBlob ..
  rw [if_neg h]; clear h
  by_cases h : op = 0x10
  · rw [if_pos h]; subst h; have := hr 0x11 (by decide); subst this; exact good_handleReadByGroup ..
  rw [if_neg h]; clear h
  by_cases h : op = 0x0E
  · rw [if_pos h]; subst h; have := hr 0x0F (by decide); subst this; exact good_handleReadMultiple ..
  rw [if_neg h]; clear h
  by_cases h : op = 0x12
  · rw [if_pos h]; subst h; have := hr 0x13 (by decide); subst this; exact good_handleWrite ..
  rw [if_neg h]; clear h
  by_cases h : op = 0x52
  · rw [if_pos h]
    unfold handleWriteCommand
    split
    · good_close
    · next hne => exact ⟨fun b hb => absurd hb (hne b), fun b hb => absurd hb (hne b)⟩
  rw [if_neg h]; clear h
  by_cases h : op = 0x16
  · rw [if_pos h]; good_close
  rw [if_neg h]; clear h
  by_cases h : op = 0x18
  · rw [if_pos h]; good_close
  rw [if_neg h]; clear h
  by_cases h : op = 0x1E
  · rw [if_pos h]; unfold handleConfirmation; split <;> good_close
  rw [if_neg h]; good_close

theorem step_good (H : Handlers) (srv : Server) (cells : List Bytes) (c : Conn) (op : UInt8) (rest : Bytes)
    (outSize : Nat) (rsp : UInt8) (hr : ∀ r, rspOf op = some r → r = rsp) :
    Good (min outSize (negotiatedMtu srv c)) op rsp (l2capInput H srv cells c (op :: rest) outSize).resp := by
  rw [l2capInput]
  split
  · good_close
  · exact dispatch_good H srv cells c op _ _ rsp hr

/-- **C01 length**: a response is never longer than min(out_size, negotiated MTU), for every
    server, state, handler implementation and PDU -/
theorem step_len_le_mtu (H : Handlers) (srv : Server) (cells : List Bytes) (c : Conn) (p : Bytes) (outSize : Nat)
    (b : Bytes) (h : (l2capInput H srv cells c p outSize).resp = .pdu b) :
    b.length ≤ min outSize (negotiatedMtu srv c) := by
  cases p with
  | nil => simp [l2capInput] at h
  | cons op rest =>
    cases hr : rspOf op with
    | none => exact (step_good H srv cells c op rest outSize 0 (by simp [hr])).1 b h
    | some r => exact (step_good H srv cells c op rest outSize r (by simp [hr])).1 b h

/-- **C01 framing (partial)**: every implemented request gets nothing (only when the buffer is
    shorter than 5 bytes — impossible for out_size ≥ 23, see `step_no_oob`), its response opcode,
    or an Error Response naming the request; every opcode without a branch gets an Error Response
    naming it.  Excluded from the full statement are exactly the PDUs of `SilentExpected` below that
    are not `handled`. -/
theorem step_framing_partial (H : Handlers) (srv : Server) (cells : List Bytes) (c : Conn) (op : UInt8) (rest : Bytes)
    (outSize : Nat) (b : Bytes) (h : (l2capInput H srv cells c (op :: rest) outSize).resp = .pdu b) :
    b = [] ∨ (∃ r, rspOf op = some r ∧ b.head? = some r) ∨ (∃ x y z, b = [0x01, op, x, y, z]) := by
  cases hr : rspOf op with
  | some r =>
    rcases (step_good H srv cells c op rest outSize r (by simp [hr])).2 b h with h1 | h2 | h3
    · exact .inl h1
    · exact .inr (.inl ⟨r, rfl, h2⟩)
    · exact .inr (.inr h3)
  | none =>
    -- no request branch is taken: the answer is empty or an Error Response
    have hne : op ≠ 0x02 ∧ op ≠ 0x04 ∧ op ≠ 0x06 ∧ op ≠ 0x08 ∧ op ≠ 0x0A ∧ op ≠ 0x0C ∧ op ≠ 0x10 ∧ op ≠ 0x0E ∧ op ≠ 0x12 ∧ op ≠ 0x16 ∧ op ≠ 0x18 := by
      refine ⟨?_, ?_, ?_, ?_, ?_, ?_, ?_, ?_, ?_, ?_, ?_⟩ <;> (intro e; subst e; simp [rspOf] at hr)
    obtain ⟨n1, n2, n3, n4, n5, n6, n7, n8, n9, n10, n11⟩ := hne
    have herr : ∀ cap code hd, errorResponse cap op code hd = .pdu b →
        b = [] ∨ (∃ r, (none : Option UInt8) = some r ∧ b.head? = some r) ∨ (∃ x y z, b = [0x01, op, x, y, z]) := by
      intro cap code hd he
      unfold errorResponse at he
      split at he <;> cases he
      · exact .inr (.inr ⟨_, _, _, rfl⟩)
      · exact .inl rfl
    rw [l2capInput] at h
    split at h
    · cases h
    unfold dispatch at h
    by_cases h01 : op = 0x01
    · rw [if_pos h01] at h; cases h; exact .inl rfl
    rw [if_neg h01, if_neg n1, if_neg n2, if_neg n3, if_neg n4, if_neg n5, if_neg n6, if_neg n7, if_neg n8, if_neg n9] at h
    by_cases h52 : op = 0x52
    · rw [if_pos h52] at h
      unfold handleWriteCommand at h
      split at h
      · cases h; exact .inl rfl
      · next hx => exact absurd h (hx b)
    rw [if_neg h52, if_neg n10, if_neg n11] at h
    by_cases h1e : op = 0x1E
    · rw [if_pos h1e] at h
      unfold handleConfirmation at h
      split at h
      · exact herr _ _ _ h
      · cases h; exact .inl rfl
    · rw [if_neg h1e] at h; exact herr _ _ _ h

/-- **C01 silence**: an Error Response from the client, a Write Command and a well-formed
    Confirmation never produce output -/
theorem step_silent (H : Handlers) (srv : Server) (cells : List Bytes) (c : Conn) (op : UInt8) (rest : Bytes)
    (outSize : Nat) (hop : op = 0x01 ∨ op = 0x52 ∨ (op = 0x1E ∧ rest = []))
    (b : Bytes) (h : (l2capInput H srv cells c (op :: rest) outSize).resp = .pdu b) : b = [] := by
  rw [l2capInput] at h
  split at h
  · cases h
  unfold dispatch at h
  rcases hop with rfl | rfl | ⟨rfl, rfl⟩
  · rw [if_pos rfl] at h; cases h; rfl
  · rw [if_neg (by decide), if_neg (by decide), if_neg (by decide), if_neg (by decide), if_neg (by decide),
      if_neg (by decide), if_neg (by decide), if_neg (by decide), if_neg (by decide), if_neg (by decide), if_pos rfl] at h
    unfold handleWriteCommand at h
    split at h
    · cases h; rfl
    · next hne => exact absurd h (hne b)
  · rw [if_neg (by decide), if_neg (by decide), if_neg (by decide), if_neg (by decide), if_neg (by decide),
      if_neg (by decide), if_neg (by decide), if_neg (by decide), if_neg (by decide), if_neg (by decide),
      if_neg (by decide), if_neg (by decide), if_neg (by decide), if_pos rfl] at h
    unfold handleConfirmation at h
    rw [if_neg (by simp)] at h
    cases h; rfl

/-- the PDUs that, by the property statement, must not be answered -/
def SilentExpected (p : Bytes) : Bool :=
  match p with
  | op :: _ => op = 0x01 || op = 0x1B || op = 0x1E || op.toNat / 64 % 2 = 1
  | [] => false

/-- the full strength framing statement: commands (bit 6), confirmations, notifications and
    error responses from the client get no response -/
def step_framing_full : Prop :=
  ∀ (H : Handlers) (srv : Server) (cells : List Bytes) (c : Conn) (p : Bytes) (outSize : Nat) (b : Bytes),
    SilentExpected p = true → (l2capInput H srv cells c p outSize).resp = .pdu b → b = []

def witnessConn : Conn := ⟨23, [], false, 0⟩
def witnessSrv : Server := ⟨23, ⟨false, false, false⟩, [], []⟩

/-- the full statement is false of the code: a Signed Write Command (0xD2) is answered with
    Error Response *Request Not Supported* (so are 0x65 — pinned by
    tests/att/request_not_supported_tests.cpp —, 0x1B, and `1E 00` — pinned by indication_tests.cpp) -/
theorem step_framing_full_witness : ¬ step_framing_full := by
  intro h
  have := h Handlers.std witnessSrv [] witnessConn [0xD2] 23 [0x01, 0xD2, 0x00, 0x00, 0x06] (by decide) (by decide)
  cases this

/-- non-vacuity of `step_framing_partial` / `step_len_le_mtu`: a Read Request on an empty table
    is answered with Error Response *Invalid Handle* -/
example : (l2capInput Handlers.std witnessSrv [] witnessConn [0x0A, 0x01, 0x00] 23).resp =
    .pdu [0x01, 0x0A, 0x01, 0x00, 0x01] := by decide

/-! ## C08 — "the MTU used for responses, notifications and indications is the minimum of the
  server's configured maximum and the last valid client MTU (at least 23). Exchange MTU requests
  with a client MTU below 23 or a wrong length are rejected and do not change the MTU." -/

/-- the client MTU carried by a valid Exchange MTU Request (length 3, value ≥ 23) -/
def validExchange (p : Bytes) : Option Nat :=
  match p with
  | [op, a, b] => if op = 0x02 ∧ 23 ≤ a.toNat + 256 * b.toNat then some (a.toNat + 256 * b.toNat) else none
  | _ => none

/-- the sentence's "last valid client MTU", 23 (resp. the initial value) if there was none -/
def specMtu (init : Nat) : List (Bytes × Nat) → Nat
  | [] => init
  | (p, _) :: rest => specMtu ((validExchange p).getD init) rest

/-- a history of `l2cap_input` calls on one connection -/
def runInput (H : Handlers) (srv : Server) (cells : List Bytes) (c : Conn) : List (Bytes × Nat) → List Bytes × Conn
  | [] => (cells, c)
  | (p, n) :: rest =>
    let o := l2capInput H srv cells c p n
    runInput H srv o.cells o.conn rest

theorem handleWrite_mtu (H : Handlers) (srv : Server) (cap : Nat) (op : UInt8) (p : Bytes) (cells : List Bytes) (c : Conn) :
    (handleWrite H srv cap op p cells c).conn.clientMtu = c.clientMtu := by
  unfold handleWrite
  repeat' split
  all_goals rfl

theorem dispatch_mtu (H : Handlers) (srv : Server) (cells : List Bytes) (c : Conn) (op : UInt8) (p : Bytes) (cap : Nat)
    (h2 : op ≠ 0x02) : (dispatch H srv cap op p cells c).conn.clientMtu = c.clientMtu := by
  unfold dispatch
  by_cases h01 : op = 0x01
  · rw [if_pos h01]
  rw [if_neg h01, if_neg h2]
  by_cases h : op = 0x04
  · rw [if_pos h]
  rw [if_neg h]; clear h
  by_cases h : op = 0x06
  · rw [if_pos h]
  rw [if_neg h]; clear h
  by_cases h : op = 0x08
  · rw [if_pos h]
  rw [if_neg h]; clear h
  by_cases h : op = 0x0A
  · rw [if_pos h]
  rw [if_neg h]; clear h
  by_cases h : op = 0x0C
  · rw [if_pos h]
  rw [if_neg h]; clear h
  by_cases h : op = 0x10
  · rw [if_pos h]
  rw [if_neg h]; clear h
  by_cases h : op = 0x0E
  · rw [if_pos h]
  rw [if_neg h]; clear h
  by_cases h : op = 0x12
  · rw [if_pos h]; exact handleWrite_mtu ..
  rw [if_neg h]; clear h
  by_cases h : op = 0x52
  · rw [if_pos h]; unfold handleWriteCommand; split <;> exact handleWrite_mtu ..
  rw [if_neg h]; clear h
  by_cases h : op = 0x16
  · rw [if_pos h]
  rw [if_neg h]; clear h
  by_cases h : op = 0x18
  · rw [if_pos h]
  rw [if_neg h]; clear h
  by_cases h : op = 0x1E
  · rw [if_pos h]
  rw [if_neg h]

theorem step_mtu (H : Handlers) (srv : Server) (cells : List Bytes) (c : Conn) (p : Bytes) (n : Nat)
    (hs : 23 ≤ srv.mtu) (hc : 23 ≤ c.clientMtu) (hn : 23 ≤ n) :
    (l2capInput H srv cells c p n).conn.clientMtu = (validExchange p).getD c.clientMtu := by
  have hcap : ¬ min n (negotiatedMtu srv c) < 23 := by unfold negotiatedMtu; omega
  cases p with
  | nil => simp [l2capInput, validExchange]
  | cons op rest =>
    rw [l2capInput, if_neg hcap]
    by_cases h2 : op = 0x02
    · subst h2
      unfold dispatch
      rw [if_neg (by decide), if_pos rfl]
      unfold handleExchangeMtu
      match rest with
      | [] => simp [validExchange]
      | [a] => simp [validExchange]
      | [a, b] =>
        by_cases hm : 23 ≤ a.toNat + 256 * b.toNat
        · have : ¬ a.toNat + 256 * b.toNat < 23 := by omega
          simp [validExchange, rd16?, hm, this]
        · have : a.toNat + 256 * b.toNat < 23 := by omega
          simp [validExchange, rd16?, hm, this]
      | a :: b :: d :: t => simp [validExchange]
    · have hv : validExchange (op :: rest) = none := by
        unfold validExchange; split <;> simp_all
      rw [hv, dispatch_mtu H srv cells c op _ _ h2]
      rfl

/-- **C08**: after any sequence of requests (any opcodes, any lengths) the client MTU is the last
    valid exchanged value, or 23 if there was none -/
theorem mtu_after_history (H : Handlers) (srv : Server) (cells : List Bytes) (c : Conn) (hist : List (Bytes × Nat))
    (hs : 23 ≤ srv.mtu) (hc : 23 ≤ c.clientMtu) (hn : ∀ x ∈ hist, 23 ≤ x.2) :
    (runInput H srv cells c hist).2.clientMtu = specMtu c.clientMtu hist ∧
    23 ≤ (runInput H srv cells c hist).2.clientMtu := by
  induction hist generalizing cells c with
  | nil => exact ⟨rfl, hc⟩
  | cons x rest ih =>
    obtain ⟨p, n⟩ := x
    have hstep := step_mtu H srv cells c p n hs hc (hn (p, n) (by simp))
    have hge : 23 ≤ (l2capInput H srv cells c p n).conn.clientMtu := by
      rw [hstep]
      cases hv : validExchange p with
      | none => simpa using hc
      | some m =>
        simp only [Option.getD_some]
        unfold validExchange at hv
        split at hv
        · split at hv
          · next hx => cases hv; exact hx.2
          · cases hv
        · cases hv
    have := ih (l2capInput H srv cells c p n).cells (l2capInput H srv cells c p n).conn hge
      (fun y hy => hn y (by simp [hy]))
    simp only [runInput, specMtu]
    rw [← hstep]
    exact this

/-- non-vacuity: 23 → exchange 100 → malformed exchange → exchange 22 (rejected) → 50 -/
example : specMtu 23 [([0x02, 100, 0], 23), ([0x02, 5], 23), ([0x02, 22, 0], 23), ([0x0A, 1, 0], 23), ([0x02, 50, 0], 23)] = 50 := by
  decide

/-- **C08**: an Exchange MTU Request with a wrong length or a client MTU below 23 is answered with
    an Error Response (Invalid PDU) and changes nothing -/
theorem invalid_exchange_rejected (H : Handlers) (srv : Server) (cells : List Bytes) (c : Conn) (rest : Bytes) (n : Nat)
    (hs : 23 ≤ srv.mtu) (hc : 23 ≤ c.clientMtu) (hn : 23 ≤ n) (hv : validExchange (0x02 :: rest) = none) :
    l2capInput H srv cells c (0x02 :: rest) n = ⟨.pdu [0x01, 0x02, 0x00, 0x00, 0x04], cells, c⟩ := by
  have hcap : ¬ min n (negotiatedMtu srv c) < 23 := by unfold negotiatedMtu; omega
  have hcap5 : min n (negotiatedMtu srv c) ≥ 5 := by unfold negotiatedMtu; omega
  have herr : errorResponse (min n (negotiatedMtu srv c)) 0x02 0x04 0 = .pdu [0x01, 0x02, 0x00, 0x00, 0x04] := by
    unfold errorResponse; rw [if_pos hcap5]; rfl
  rw [l2capInput, if_neg hcap]
  unfold dispatch
  rw [if_neg (by decide), if_pos rfl]
  unfold handleExchangeMtu
  match rest, hv with
  | [], _ => simp [herr]
  | [a], _ => simp [herr]
  | a :: b :: d :: t, _ => simp [herr]
  | [a, b], hv =>
    have hm : a.toNat + 256 * b.toNat < 23 := by
      simp [validExchange] at hv; omega
    simp [rd16?, herr, hm]

example : validExchange [0x02, 22, 0] = none ∧ validExchange [0x02, 23] = none := by decide

/-- **C08** (responses): = C01's length theorem, stated with the negotiated MTU -/
theorem response_le_negotiated (H : Handlers) (srv : Server) (cells : List Bytes) (c : Conn) (p : Bytes) (n : Nat)
    (b : Bytes) (h : (l2capInput H srv cells c p n).resp = .pdu b) : b.length ≤ negotiatedMtu srv c :=
  Nat.le_trans (step_len_le_mtu H srv cells c p n b h) (Nat.min_le_right _ _)

/-- **C08** (notifications / indications, with fix attaccess-01): never longer than
    min(out_size, negotiated MTU) -/
theorem notification_le_negotiated (H : Handlers) (srv : Server) (cells : List Bytes) (c : Conn) (ind : Bool) (pos n : Nat)
    (b : Bytes) (h : l2capOutput H srv cells c ind pos n = .pdu b) :
    b.length ≤ min n (negotiatedMtu srv c) := by
  unfold l2capOutput at h
  simp only [] at h
  repeat' split at h
  all_goals first
    | exact fits_emit _ _ b h
    | (cases h; simp)
    | cases h

def wSrv65 : Server :=
  ⟨65, ⟨false, false, false⟩,
   [⟨0x2800, .service [0x20, 0x18] 4, default, default⟩, ⟨0x2803, .charDecl [0x01, 0x20] false false true false 0, default, default⟩,
    ⟨0x2001, .bound 0 40 true true, default, default⟩, ⟨0x2902, .cccd 0, default, default⟩], [2]⟩

/-- the unpatched `l2cap_output` violates the statement: server `max_mtu_size<65>`, client never
    exchanged its MTU (23), output buffer 65: a 40 byte value yields a 43 byte notification -/
theorem notification_unfixed_witness :
    ∃ b, l2capOutputUnfixed Handlers.std wSrv65 [List.replicate 40 0x55] ⟨23, [1], false, 0⟩ false 0 65 = .pdu b ∧
      b.length = 43 ∧ ¬ b.length ≤ negotiatedMtu wSrv65 ⟨23, [1], false, 0⟩ := by
  refine ⟨0x1B :: 0x03 :: 0x00 :: List.replicate 40 0x55, ?_, ?_, ?_⟩ <;> decide

/-- … and the patched one clips it to 23 bytes -/
example : ∃ b, l2capOutput Handlers.std wSrv65 [List.replicate 40 0x55] ⟨23, [1], false, 0⟩ false 0 65 = .pdu b ∧ b.length = 23 :=
  ⟨0x1B :: 0x03 :: 0x00 :: List.replicate 20 0x55, by decide, by decide⟩

end BluetoeModel.AttAccess
