import BluetoeModel.AttAccess.StepSafety
/-!
  # Characteristics with auto-generated UUIDs (`fixup_auto_uuid`)

  Memory safety of the fix-up is part of C01 (`fixup_some`, used by `readAccess_ok` / `step_no_oob`).
  This file records what the fix-up computes.  Observation (outside the properties C01/C05/C06/C08,
  reported to the coordinator): the code uses `buffer_offset - 3` where the position of the UUID's
  least significant byte in the buffer is `3 - buffer_offset`, so
  * for the offsets 0, 1, 2 — every Read, Read By Type, Read Multiple, Find Information
    (`write_128bit_uuid`) — the fix-up does nothing: all auto-UUID characteristics of a service
    declare the *service's* UUID (`auto_decl_read_lt3`);
  * only a Read Blob at offset 3 yields the generated UUID (low byte; the high byte never);
  * a Read Blob at an offset ≥ 4 xors the index into a wrong byte of the UUID.
-/
namespace BluetoeModel.AttAccess

theorem fixup_noop_lt3 (buf : Bytes) (off n k : Nat) (h : off < 3) : fixupAutoUuid buf off n k = some buf := by
  unfold fixupAutoUuid
  rw [if_neg (by omega)]
  dsimp only
  rw [if_neg (by omega)]

/-- at the offsets 0, 1, 2 a declaration with auto-generated UUID reads exactly like the same
    declaration with the explicit UUID `uuid` (= the service's UUID): the index is not applied -/
theorem auto_decl_read_lt3 (H : Handlers) (srv : Server) (cells : List Bytes) (c : Conn) (idx : Nat) (a : Attr)
    (uuid : Bytes) (wwr owwr ntf ind : Bool) (k off n : Nat) (hk : a.kind = .charDecl uuid wwr owwr ntf ind k) (h : off < 3) :
    readAccess H srv cells c idx a off n =
      readMem (declData srv idx uuid wwr owwr ntf ind) (declData srv idx uuid wwr owwr ntf ind).length off n := by
  unfold readAccess
  rw [hk]
  dsimp only
  split
  · rfl
  · generalize readMem (declData srv idx uuid wwr owwr ntf ind) (declData srv idx uuid wwr owwr ntf ind).length off n = x
    obtain ⟨rc, r⟩ := x
    cases rc with
    | success =>
      dsimp only
      rw [fixup_noop_lt3 _ _ _ _ h]
      simp
    | oob => rfl
    | err code => rfl
    | valueEqual => rfl

def auSrv : Server :=
  ⟨23, ⟨false, false, false⟩,
   [⟨0x2800, .service [0xA9, 0x3C, 0xC7, 0x5B, 0xED, 0x4E, 0x8A, 0xA2, 0x9F, 0x49, 0xE2, 0x0D, 0x94, 0x40, 0x8B, 0x8C] 3, default, default⟩,
    ⟨0x2803, .charDecl [0xA9, 0x3C, 0xC7, 0x5B, 0xED, 0x4E, 0x8A, 0xA2, 0x9F, 0x49, 0xE2, 0x0D, 0x94, 0x40, 0x8B, 0x8C] false false false false 2,
      default, default⟩,
    ⟨0x0001, .bound 0 1 true true, default, default⟩], []⟩

/-- the real code's answers on server A1 (handle 4, char_index 2), reproduced by the model:
    offset 0 → service UUID `A9 3C …` (not generated), offset 3 → `AB 3C …` (generated),
    offset 4 → `3C C5 5B …` (0xC7 xor 2: a wrong byte), offset 5 → `C7 5B EF …` -/
example :
    (readAccess Handlers.std auSrv [[1]] ⟨23, [], false, 0⟩ 1
      ⟨0x2803, .charDecl [0xA9, 0x3C, 0xC7, 0x5B, 0xED, 0x4E, 0x8A, 0xA2, 0x9F, 0x49, 0xE2, 0x0D, 0x94, 0x40, 0x8B, 0x8C] false false false false 2, default, default⟩ 0 22).2.take 6
      = [0x0A, 0x03, 0x00, 0xA9, 0x3C, 0xC7] ∧
    (readAccess Handlers.std auSrv [[1]] ⟨23, [], false, 0⟩ 1
      ⟨0x2803, .charDecl [0xA9, 0x3C, 0xC7, 0x5B, 0xED, 0x4E, 0x8A, 0xA2, 0x9F, 0x49, 0xE2, 0x0D, 0x94, 0x40, 0x8B, 0x8C] false false false false 2, default, default⟩ 3 22).2.take 3
      = [0xAB, 0x3C, 0xC7] ∧
    (readAccess Handlers.std auSrv [[1]] ⟨23, [], false, 0⟩ 1
      ⟨0x2803, .charDecl [0xA9, 0x3C, 0xC7, 0x5B, 0xED, 0x4E, 0x8A, 0xA2, 0x9F, 0x49, 0xE2, 0x0D, 0x94, 0x40, 0x8B, 0x8C] false false false false 2, default, default⟩ 4 22).2.take 3
      = [0x3C, 0xC5, 0x5B] ∧
    (readAccess Handlers.std auSrv [[1]] ⟨23, [], false, 0⟩ 1
      ⟨0x2803, .charDecl [0xA9, 0x3C, 0xC7, 0x5B, 0xED, 0x4E, 0x8A, 0xA2, 0x9F, 0x49, 0xE2, 0x0D, 0x94, 0x40, 0x8B, 0x8C] false false false false 2, default, default⟩ 5 22).2.take 3
      = [0xC7, 0x5B, 0xEF] := by decide

/-- non-vacuity of `fixup_some` / the in-bounds claim: Read Multiple on `auSrv` with a 23 byte buffer
    in which the declaration is read into the last 3 bytes: a PDU, and the guard is what keeps the
    fix-up inside (`StepPre` holds) -/
example : StepPre auSrv [[1]] ⟨23, [], false, 0⟩ [0x0E, 0x02, 0x00, 0x02, 0x00] 23 = true ∧
    (l2capInput Handlers.std auSrv [[1]] ⟨23, [], false, 0⟩ [0x0E, 0x02, 0x00, 0x02, 0x00] 23).resp =
      .pdu ([0x0F, 0x0A, 0x03, 0x00, 0xA9, 0x3C, 0xC7, 0x5B, 0xED, 0x4E, 0x8A, 0xA2, 0x9F, 0x49, 0xE2, 0x0D, 0x94, 0x40, 0x8B, 0x8C] ++
            [0x0A, 0x03, 0x00]) := by decide

end BluetoeModel.AttAccess
