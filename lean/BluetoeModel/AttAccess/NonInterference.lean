import BluetoeModel.AttAccess.ValueProps
/-!
  # C05 — whole-PDU non-interference

  "a characteristic value … that requires encryption is never returned in any response,
  notification or indication … while the connection is not encrypted."

  Stated as non-interference: on an unencrypted link the response to every request that does not
  write (Exchange MTU, Find Information, Find By Type Value, Read By Type, Read, Read Blob, Read
  Multiple, Read By Group Type, Prepare / Execute Write without a queue, confirmations, unknown
  opcodes) and every notification / indication is the same for any two memories that look the same
  through the unprotected attributes — i.e. it is independent of the content of protected memory.
  (Write Request / Command: `protected_write_rejected`; the write queue's execute path is the attwq
  component's subject, it is not part of this model.)
-/
namespace BluetoeModel.AttAccess

/-- the attribute carries an encryption requirement on this server -/
def protectedAttr (srv : Server) (a : Attr) : Bool := protectable a.kind && requiresEnc srv.enc a

/-- the two memories are indistinguishable through every *unprotected* attribute of the table -/
def SameUnprotected (H : Handlers) (srv : Server) (c : Conn) (cells1 cells2 : List Bytes) : Prop :=
  ∀ idx a, srv.attrs[idx]? = some a → protectedAttr srv a = false →
    ∀ off n, readAccess H srv cells1 c idx a off n = readAccess H srv cells2 c idx a off n

/-- a sufficient, concrete condition: the memories agree on the cells of all unprotected bound
    values, and unprotected handler values have handlers that answer the same (handlers are user
    code: the library cannot keep a user handler from looking at other memory) -/
def AgreeUnprotected (H : Handlers) (srv : Server) (cells1 cells2 : List Bytes) : Prop :=
  ∀ a ∈ srv.attrs, protectedAttr srv a = false →
    match a.kind with
    | .bound cell _ _ _ => cells1[cell]? = cells2[cell]?
    | .handler _ _ cell _ => ∀ off n, H.readPlain cell cells1 n = H.readPlain cell cells2 n ∧
        H.readBlob cell cells1 off n = H.readBlob cell cells2 off n
    | _ => True

theorem sameUnprotected_of_agree (H : Handlers) (srv : Server) (c : Conn) (cells1 cells2 : List Bytes)
    (h : AgreeUnprotected H srv cells1 cells2) : SameUnprotected H srv c cells1 cells2 := by
  intro idx a ha hp off n
  have := h a (List.mem_of_getElem? ha) hp
  unfold readAccess
  cases hk : a.kind with
  | bound cell size r w => rw [hk] at this; simp only [this]
  | handler rk wk cell nr =>
    rw [hk] at this
    simp only [(this off n).2, (this 0 n).1]
  | _ => rfl

variable (H : Handlers) (srv : Server) (c : Conn) (cells1 cells2 : List Bytes)

/-- every read access — protected or not — yields the same result for both memories -/
theorem readAccess_ni (he : c.encrypted = false) (hs : SameUnprotected H srv c cells1 cells2)
    {idx : Nat} {a : Attr} (ha : srv.attrs[idx]? = some a) (off n : Nat) :
    readAccess H srv cells1 c idx a off n = readAccess H srv cells2 c idx a off n := by
  cases hp : protectedAttr srv a with
  | false => exact hs idx a ha hp off n
  | true =>
    unfold protectedAttr at hp
    rw [Bool.and_eq_true] at hp
    rw [protected_read_rejected H srv cells1 c idx a off n hp.1 hp.2 he,
        protected_read_rejected H srv cells2 c idx a off n hp.1 hp.2 he]

theorem readResponse_ni (he : c.encrypted = false) (hs : SameUnprotected H srv c cells1 cells2)
    (cap : Nat) (op rsp : UInt8) (h i off : Nat) :
    readResponse H srv cap op rsp cells1 c h i off = readResponse H srv cap op rsp cells2 c h i off := by
  unfold readResponse
  cases ha : srv.attrs[i]? with
  | none => rfl
  | some a => dsimp only; rw [readAccess_ni H srv c cells1 cells2 he hs ha]

theorem handleRead_ni (he : c.encrypted = false) (hs : SameUnprotected H srv c cells1 cells2)
    (cap : Nat) (op : UInt8) (p : Bytes) :
    handleRead H srv cap op p cells1 c = handleRead H srv cap op p cells2 c := by
  unfold handleRead
  cases checkSizeAndHandle srv cap op p 3 with
  | stop r => rfl
  | ok x => exact readResponse_ni H srv c cells1 cells2 he hs ..

theorem handleReadBlob_ni (he : c.encrypted = false) (hs : SameUnprotected H srv c cells1 cells2)
    (cap : Nat) (op : UInt8) (p : Bytes) :
    handleReadBlob H srv cap op p cells1 c = handleReadBlob H srv cap op p cells2 c := by
  unfold handleReadBlob
  cases checkSizeAndHandle srv cap op p 5 with
  | stop r => rfl
  | ok x =>
    dsimp only
    cases rd16? p 3 with
    | none => rfl
    | some off => exact readResponse_ni H srv c cells1 cells2 he hs ..

theorem collectStep_ni (he : c.encrypted = false) (hs : SameUnprotected H srv c cells1 cells2)
    (room : Nat) (st : Collect) {idx : Nat} {a : Attr} (ha : srv.attrs[idx]? = some a) :
    collectStep H srv cells1 c room st idx a = collectStep H srv cells2 c room st idx a := by
  unfold collectStep
  simp only [readAccess_ni H srv c cells1 cells2 he hs ha]

theorem collectLoop_ni (he : c.encrypted = false) (hs : SameUnprotected H srv c cells1 cells2)
    (room : Nat) (filter : Option Nat) (n idx : Nat) (st : Collect) :
    collectLoop H srv cells1 c room filter n idx st = collectLoop H srv cells2 c room filter n idx st := by
  induction n generalizing idx st with
  | zero => unfold collectLoop; rfl
  | succ n ih =>
    unfold collectLoop
    cases ha : srv.attrs[idx]? with
    | none => rfl
    | some a =>
      dsimp only
      rw [collectStep_ni H srv c cells1 cells2 he hs room st ha]
      exact ih ..

/-- **Read By Type** is independent of protected memory -/
theorem handleReadByType_ni (he : c.encrypted = false) (hs : SameUnprotected H srv c cells1 cells2)
    (cap : Nat) (op : UInt8) (p : Bytes) :
    handleReadByType H srv cap op p cells1 c = handleReadByType H srv cap op p cells2 c := by
  unfold handleReadByType
  simp only [collectLoop_ni H srv c cells1 cells2 he hs]

theorem multiLoop_ni (he : c.encrypted = false) (hs : SameUnprotected H srv c cells1 cells2)
    (cap : Nat) (op : UInt8) (hdl acc : Bytes) :
    multiLoop H srv cap op cells1 c hdl acc = multiLoop H srv cap op cells2 c hdl acc := by
  have key : ∀ n, ∀ hdl acc : Bytes, hdl.length ≤ n →
      multiLoop H srv cap op cells1 c hdl acc = multiLoop H srv cap op cells2 c hdl acc := by
    intro n
    induction n with
    | zero =>
      intro hdl acc hl
      cases hdl with
      | nil => unfold multiLoop; rfl
      | cons _ _ => simp at hl
    | succ n ih =>
      intro hdl acc hl
      match hdl with
      | [] => unfold multiLoop; rfl
      | [_] => unfold multiLoop; rfl
      | lo' :: hi' :: rest =>
        unfold multiLoop
        dsimp only
        split
        · rfl
        · cases hi : indexByHandle srv (lo'.toNat + 256 * hi'.toNat) with
          | none => rfl
          | some i =>
            dsimp only
            cases ha : srv.attrs[i]? with
            | none => rfl
            | some a =>
              dsimp only
              rw [readAccess_ni H srv c cells1 cells2 he hs ha]
              generalize readAccess H srv cells2 c i a 0 (cap - acc.length) = r
              obtain ⟨rc, d⟩ := r
              cases rc with
              | success =>
                dsimp only
                split
                · apply ih; simp only [List.length_cons] at hl; omega
                · rfl
              | oob => rfl
              | err code => rfl
              | valueEqual => rfl
  exact key _ _ _ (Nat.le_refl _)

/-- **Read Multiple** is independent of protected memory (and fails as soon as one of the handles
    is protected: `protected_read_rejected` in `multiLoop`) -/
theorem handleReadMultiple_ni (he : c.encrypted = false) (hs : SameUnprotected H srv c cells1 cells2)
    (cap : Nat) (op : UInt8) (p : Bytes) :
    handleReadMultiple H srv cap op p cells1 c = handleReadMultiple H srv cap op p cells2 c := by
  unfold handleReadMultiple
  split
  · rfl
  · exact multiLoop_ni H srv c cells1 cells2 he hs ..

theorem handleExchangeMtu_resp (cap : Nat) (op : UInt8) (p : Bytes) :
    (handleExchangeMtu srv cap op p cells1 c).resp = (handleExchangeMtu srv cap op p cells2 c).resp := by
  unfold handleExchangeMtu
  split
  · rfl
  · cases rd16? p 1 with
    | none => rfl
    | some mtu => dsimp only; split <;> rfl

/-- **C05 non-interference (requests)**: on an unencrypted link the response to every request other
    than Write Request / Write Command — in particular Read, Read Blob, Read Multiple, Read By
    Type, Find By Type Value, Find Information, Read By Group Type — is independent of the content
    of protected memory -/
theorem dispatch_noninterference (he : c.encrypted = false) (hs : SameUnprotected H srv c cells1 cells2)
    (cap : Nat) (op : UInt8) (p : Bytes) (hw1 : op ≠ 0x12) (hw2 : op ≠ 0x52) :
    (dispatch H srv cap op p cells1 c).resp = (dispatch H srv cap op p cells2 c).resp := by
  unfold dispatch
  by_cases h : op = 0x01
  · simp only [if_pos h]
  simp only [if_neg h]; clear h
  by_cases h : op = 0x02
  · simp only [if_pos h]; exact handleExchangeMtu_resp srv c cells1 cells2 ..
  simp only [if_neg h]; clear h
  by_cases h : op = 0x04
  · simp only [if_pos h]
  simp only [if_neg h]; clear h
  by_cases h : op = 0x06
  · simp only [if_pos h]
  simp only [if_neg h]; clear h
  by_cases h : op = 0x08
  · simp only [if_pos h]; exact handleReadByType_ni H srv c cells1 cells2 he hs ..
  simp only [if_neg h]; clear h
  by_cases h : op = 0x0A
  · simp only [if_pos h]; exact handleRead_ni H srv c cells1 cells2 he hs ..
  simp only [if_neg h]; clear h
  by_cases h : op = 0x0C
  · simp only [if_pos h]; exact handleReadBlob_ni H srv c cells1 cells2 he hs ..
  simp only [if_neg h]; clear h
  by_cases h : op = 0x10
  · simp only [if_pos h]
  simp only [if_neg h]; clear h
  by_cases h : op = 0x0E
  · simp only [if_pos h]; exact handleReadMultiple_ni H srv c cells1 cells2 he hs ..
  simp only [if_neg h, if_neg hw1, if_neg hw2]; clear h
  by_cases h : op = 0x16
  · simp only [if_pos h]
  simp only [if_neg h]; clear h
  by_cases h : op = 0x18
  · simp only [if_pos h]
  simp only [if_neg h]; clear h
  by_cases h : op = 0x1E
  · simp only [if_pos h]
  simp only [if_neg h]

/-- the same for `l2cap_input` -/
theorem step_noninterference (he : c.encrypted = false) (hs : SameUnprotected H srv c cells1 cells2)
    (op : UInt8) (rest : Bytes) (outSize : Nat) (hw1 : op ≠ 0x12) (hw2 : op ≠ 0x52) :
    (l2capInput H srv cells1 c (op :: rest) outSize).resp = (l2capInput H srv cells2 c (op :: rest) outSize).resp := by
  rw [l2capInput, l2capInput]
  split
  · rfl
  · exact dispatch_noninterference H srv c cells1 cells2 he hs _ _ _ hw1 hw2

/-- **C05 non-interference (notifications / indications)** -/
theorem notify_noninterference (he : c.encrypted = false) (hs : SameUnprotected H srv c cells1 cells2)
    (ind : Bool) (pos outSize : Nat) :
    l2capOutput H srv cells1 c ind pos outSize = l2capOutput H srv cells2 c ind pos outSize := by
  unfold l2capOutput
  dsimp only
  cases hn : srv.ntf[pos]? with
  | none => rfl
  | some idx =>
    cases hf : cccdFlags c pos with
    | none => rfl
    | some f =>
      dsimp only
      cases ha : srv.attrs[idx]? with
      | none => rfl
      | some a => simp only [readAccess_ni H srv c cells1 cells2 he hs ha]

/-! ## non-vacuity -/

/-- service with an unprotected 2 byte value (cell 0) and a protected 2 byte value (cell 1) -/
def niSrv : Server :=
  ⟨23, ⟨false, false, false⟩,
   [⟨0x2800, .service [0x20, 0x18] 5, default, default⟩,
    ⟨0x2803, .charDecl [0x01, 0x20] false false false false 0, default, default⟩,
    ⟨0x2001, .bound 0 2 true true, default, default⟩,
    ⟨0x2803, .charDecl [0x02, 0x20] false false false false 0, default, ⟨true, false, false⟩⟩,
    ⟨0x2002, .bound 1 2 true true, default, ⟨true, false, false⟩⟩], []⟩

/-- the hypothesis is satisfiable by memories that differ in the protected cell … -/
theorem niSrv_agree : AgreeUnprotected Handlers.std niSrv [[1, 2], [0xAA, 0xBB]] [[1, 2], [0xCC, 0xDD]] := by
  intro a ha hp
  simp only [niSrv, List.mem_cons, List.not_mem_nil, or_false] at ha
  rcases ha with rfl | rfl | rfl | rfl | rfl
  all_goals first
    | trivial
    | rfl
    | (exfalso; revert hp; decide)

/-- … and Read Multiple of both values is rejected identically (Insufficient Authentication for
    handle 5), Read Multiple of the unprotected one twice returns it -/
example : (l2capInput Handlers.std niSrv [[1, 2], [0xAA, 0xBB]] ⟨23, [], false, 0⟩ [0x0E, 3, 0, 5, 0] 23).resp =
      .pdu [0x01, 0x0E, 0x05, 0x00, 0x05] ∧
    (l2capInput Handlers.std niSrv [[1, 2], [0xCC, 0xDD]] ⟨23, [], false, 0⟩ [0x0E, 3, 0, 5, 0] 23).resp =
      .pdu [0x01, 0x0E, 0x05, 0x00, 0x05] ∧
    (l2capInput Handlers.std niSrv [[1, 2], [0xCC, 0xDD]] ⟨23, [], false, 0⟩ [0x0E, 3, 0, 3, 0] 23).resp =
      .pdu [0x0F, 1, 2, 1, 2] := by decide

end BluetoeModel.AttAccess
