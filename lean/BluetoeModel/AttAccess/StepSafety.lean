import BluetoeModel.AttAccess.OutSafety
import BluetoeModel.AttAccess.Props
/-!
  # C01 — output half of memory safety, lifted to `l2cap_input`, histories and `l2cap_output`

  "For any GATT server declaration, any connection state and any incoming ATT PDU of any length and
  content, the server … writes only inside the supplied output buffer".

  `step_no_oob`: for every well-formed table and state (decidable `StepPre`), every handler
  implementation obeying the documented contract, every non-empty PDU and `out_size ≥ 23` the
  result of `l2cap_input` is a PDU — never `oobWrite` / `assertFail` / `oobRead`.
  `step_assert_iff`: the precondition is exact — the `assert`s of `l2cap_input` fire iff it is
  violated.  `history_no_oob`: the same for every history of calls (the precondition is an
  invariant).  `notify_no_oob`: the same for `l2cap_output`.
-/
namespace BluetoeModel.AttAccess

/-! ## the common prefix checks -/

theorem safe_checkRange_stop (srv : Server) (cap : Nat) (op : UInt8) (p : Bytes) (A B : Nat) (r : Resp)
    (h : checkRange srv cap op p A B = .stop r) : Safe r := by
  unfold checkRange at h
  repeat' split at h
  all_goals first | (cases h; safe_close) | cases h

theorem safe_checkHandle_stop (srv : Server) (cap : Nat) (op : UInt8) (p : Bytes) (r : Resp)
    (h : checkHandle srv cap op p = .stop r) : Safe r := by
  unfold checkHandle at h
  repeat' split at h
  all_goals first | (cases h; safe_close) | cases h

theorem safe_checkSizeAndHandle_stop (srv : Server) (cap : Nat) (op : UInt8) (p : Bytes) (A : Nat) (r : Resp)
    (h : checkSizeAndHandle srv cap op p A = .stop r) : Safe r := by
  unfold checkSizeAndHandle at h
  split at h
  · cases h; safe_close
  · exact safe_checkHandle_stop _ _ _ _ _ h

/-- a starting handle accepted by `check_size_and_handle_range` addresses an existing attribute -/
theorem checkRange_ok_bounds (srv : Server) (cap : Nat) (op : UInt8) (p : Bytes) (A B s e : Nat)
    (h : checkRange srv cap op p A B = .ok (s, e)) : 1 ≤ s ∧ s ≤ srv.attrs.length := by
  unfold checkRange at h
  split at h
  · cases h
  · split at h
    · split at h
      · cases h
      · split at h
        · cases h
        · next h1 h2 =>
          cases h
          unfold firstIndex at h2
          split at h2
          · constructor <;> omega
          · exact absurd rfl h2
    · cases h

theorem indexByHandle_lt {srv : Server} {h i : Nat} (hi : indexByHandle srv h = some i) : i < srv.attrs.length := by
  unfold indexByHandle firstIndex at hi
  split at hi
  · next j hj =>
    split at hj
    · cases hj
      split at hi
      · cases hi; omega
      · cases hi
    · cases hj
  · cases hi

/-- the index produced by `check_handle` is inside the table (`attribute_at` does not assert) -/
theorem checkHandle_ok_lt {srv : Server} {cap : Nat} {op : UInt8} {p : Bytes} {h i : Nat}
    (hh : checkHandle srv cap op p = .ok (h, i)) : i < srv.attrs.length := by
  unfold checkHandle at hh
  split at hh
  · cases hh
  · split at hh
    · cases hh
    · split at hh
      · cases hh
      · next i' hi => cases hh; exact indexByHandle_lt hi

theorem checkSizeAndHandle_ok_lt {srv : Server} {cap : Nat} {op : UInt8} {p : Bytes} {A h i : Nat}
    (hh : checkSizeAndHandle srv cap op p A = .ok (h, i)) : i < srv.attrs.length := by
  unfold checkSizeAndHandle at hh
  split at hh
  · cases hh
  · exact checkHandle_ok_lt hh

/-! ## the handlers -/

theorem readResponse_safe (H : Handlers) (hH : HandlersOk H) (srv : Server) (cap : Nat) (op rsp : UInt8)
    (cells : List Bytes) (c : Conn) (h i off : Nat) (hw : StateWF srv cells c = true) (hi : i < srv.attrs.length)
    (hcap : 1 ≤ cap) : Safe (readResponse H srv cap op rsp cells c h i off) := by
  obtain ⟨a, ha, hmem⟩ := attrs_get hi
  unfold readResponse
  rw [ha]
  dsimp only
  have hok := readAccess_ok H hH srv cells c i a off (cap - 1) (stateOk_of_mem hw hmem)
  have hlen := readAccess_len H srv cells c i a off (cap - 1)
  generalize readAccess H srv cells c i a off (cap - 1) = r at hok hlen
  obtain ⟨rc, d⟩ := r
  cases rc with
  | success =>
    dsimp only
    have := hlen d rfl
    exact safe_emit _ _ (by simp only [List.length_cons]; omega)
  | oob => exact absurd rfl hok
  | err code => dsimp only; safe_close
  | valueEqual => dsimp only; safe_close

theorem handleExchangeMtu_safe (srv : Server) (cap : Nat) (op : UInt8) (p : Bytes) (cells : List Bytes) (c : Conn)
    (hcap : 3 ≤ cap) : Safe (handleExchangeMtu srv cap op p cells c).resp := by
  unfold handleExchangeMtu
  repeat' split
  all_goals first
    | safe_close
    | exact safe_emit _ _ (by simp only [List.length_cons, le16_length]; omega)

theorem handleRead_safe (H : Handlers) (hH : HandlersOk H) (srv : Server) (cap : Nat) (op : UInt8) (p : Bytes)
    (cells : List Bytes) (c : Conn) (hw : StateWF srv cells c = true) (hcap : 1 ≤ cap) :
    Safe (handleRead H srv cap op p cells c) := by
  unfold handleRead
  split
  · exact safe_checkSizeAndHandle_stop _ _ _ _ _ _ ‹_›
  · next hok => exact readResponse_safe H hH _ _ _ _ _ _ _ _ _ hw (checkSizeAndHandle_ok_lt hok) hcap

theorem handleReadBlob_safe (H : Handlers) (hH : HandlersOk H) (srv : Server) (cap : Nat) (op : UInt8) (p : Bytes)
    (cells : List Bytes) (c : Conn) (hw : StateWF srv cells c = true) (hcap : 1 ≤ cap) :
    Safe (handleReadBlob H srv cap op p cells c) := by
  unfold handleReadBlob
  split
  · exact safe_checkSizeAndHandle_stop _ _ _ _ _ _ ‹_›
  · next hok =>
    split
    · safe_close
    · exact readResponse_safe H hH _ _ _ _ _ _ _ _ _ hw (checkSizeAndHandle_ok_lt hok) hcap

/-- `collect_attributes::operator()` never writes behind `end_` -/
theorem collectStep_len (H : Handlers) (srv : Server) (cells : List Bytes) (c : Conn) (room : Nat) (st : Collect)
    (idx : Nat) (a : Attr) (h : st.acc.length ≤ room) : (collectStep H srv cells c room st idx a).acc.length ≤ room := by
  unfold collectStep
  split
  · next hroom =>
    dsimp only
    have hlen := readAccess_len H srv cells c idx a 0 (min (room - st.acc.length) 255 - 2)
    generalize readAccess H srv cells c idx a 0 (min (room - st.acc.length) 255 - 2) = r at hlen
    obtain ⟨rc, d⟩ := r
    cases rc with
    | success =>
      dsimp only
      have := hlen d rfl
      repeat' split
      all_goals first
        | exact h
        | (simp only [List.length_append, le16_length]; omega)
    | oob => exact h
    | err code => exact h
    | valueEqual => exact h
  · exact h

theorem collectLoop_len (H : Handlers) (srv : Server) (cells : List Bytes) (c : Conn) (room : Nat) (filter : Option Nat)
    (n idx : Nat) (st : Collect) (h : st.acc.length ≤ room) :
    (collectLoop H srv cells c room filter n idx st).acc.length ≤ room := by
  induction n generalizing idx st with
  | zero => unfold collectLoop; exact h
  | succ n ih =>
    unfold collectLoop
    split
    · exact h
    · apply ih
      split
      · exact collectStep_len _ _ _ _ _ _ _ _ h
      · exact h

theorem readByType_emit_len (cap : Nat) (st : Collect) (x y : UInt8) (h : st.acc.length ≤ cap - 2) (hcap : 2 ≤ cap) :
    ((x :: y :: st.acc).take (2 + st.acc.length % 256)).length ≤ cap := by
  rw [List.length_take]
  simp only [List.length_cons]
  omega

theorem handleReadByType_safe (H : Handlers) (srv : Server) (cap : Nat) (op : UInt8) (p : Bytes)
    (cells : List Bytes) (c : Conn) (hcap : 2 ≤ cap) : Safe (handleReadByType H srv cap op p cells c) := by
  unfold handleReadByType
  split
  · exact safe_checkRange_stop _ _ _ _ _ _ _ ‹_›
  · split
    · safe_close
    · dsimp only
      split
      · safe_close
      · apply safe_emit
        exact readByType_emit_len _ _ _ _ (collectLoop_len _ _ _ _ _ _ _ _ _ (Nat.zero_le _)) hcap

/-- `collect_handle_uuid_tuples` stays inside `[out, out_end)`, `attribute_at` / `write_128bit_uuid`
    do not assert -/
theorem infoLoop_some (srv : Server) (hw : TableWF srv = true) (only16 : Bool) (tuple : Nat) (endIdx : Option Nat)
    (room : Nat) (ht : tuple = if only16 then 4 else 18) (n : Nat) :
    ∀ idx acc, acc.length ≤ room →
      ∃ acc', infoLoop srv only16 tuple endIdx room n idx acc = some acc' ∧ acc'.length ≤ room := by
  induction n with
  | zero => intro idx acc h; exact ⟨acc, rfl, h⟩
  | succ n ih =>
    intro idx acc h
    unfold infoLoop
    split
    · next hc =>
      obtain ⟨_, hlt, hroom⟩ := hc
      obtain ⟨a, ha, _⟩ := attrs_get hlt
      have htab := tableOk_of_get hw ha
      rw [ha]
      dsimp only
      split
      · next heq =>
        split
        · next h16 =>
          apply ih
          rw [h16] at heq
          subst heq
          simp only [List.length_append, le16_length]
          simp only [if_true] at ht
          omega
        · next h128 =>
          have hu : a.uuid = 1 := by simpa using h128
          have h18 : tuple = 18 := by
            have : only16 = false := by rw [heq]; simpa using h128
            subst this; simpa using ht
          unfold attrTableOk at htab
          rw [if_pos hu, Bool.and_eq_true] at htab
          have h1 : 1 ≤ idx := of_decide_eq_true htab.1
          have h2 := htab.2
          cases hprev : srv.attrs[idx - 1]? with
          | none => rw [hprev] at h2; cases h2
          | some x =>
            rw [hprev] at h2
            obtain ⟨u, k, se, ce⟩ := x
            cases k with
            | charDecl uuid wwr owwr ntf ind auto =>
              dsimp only at h2 ⊢
              have hl : uuid.length = 16 := of_decide_eq_true h2
              rw [if_pos ⟨hl, h1⟩]
              apply ih
              simp only [List.length_append, le16_length]
              omega
            | _ => cases h2
      · exact ih _ _ h
    · exact ⟨acc, rfl, h⟩

theorem handleFindInfo_safe (srv : Server) (hw : TableWF srv = true) (cap : Nat) (op : UInt8) (p : Bytes) (hcap : 2 ≤ cap) :
    Safe (handleFindInfo srv cap op p) := by
  unfold handleFindInfo
  split
  · exact safe_checkRange_stop _ _ _ _ _ _ _ ‹_›
  · next s e hok =>
    have hb := checkRange_ok_bounds _ _ _ _ _ _ _ _ hok
    obtain ⟨a0, ha0, _⟩ := attrs_get (show s - 1 < srv.attrs.length by omega)
    rw [ha0]
    dsimp only
    rw [if_neg (by omega)]
    obtain ⟨acc, hacc, hlen⟩ := infoLoop_some srv hw (a0.uuid != 1) (if (a0.uuid != 1) = true then 4 else 18)
      (some (lastHandleIndex srv e)) (cap - 2) rfl srv.attrs.length (s - 1) [] (Nat.zero_le _)
    rw [hacc]
    dsimp only
    exact safe_emit _ _ (by simp only [List.length_cons]; omega)

/-- `collect_find_by_type_groups` stays inside `[begin_, end_)` -/
theorem groupLoop_len (value : Bytes) (startIdx : Nat) (endIdx : Option Nat) (room : Nat) (l : List (Nat × Nat × Bytes)) :
    ∀ acc, acc.length ≤ room → (groupLoop value startIdx endIdx room l acc).length ≤ room := by
  induction l with
  | nil => intro acc h; exact h
  | cons x rest ih =>
    intro acc h
    obtain ⟨i, n, u⟩ := x
    unfold groupLoop
    split
    · apply ih
      simp only [List.length_append, le16_length]
      omega
    · exact ih _ h

theorem findByType_emit_len (cap : Nat) (acc : Bytes) (x : UInt8) (h : acc.length ≤ cap - 1) (hcap : 1 ≤ cap) :
    ((x :: acc).take (1 + acc.length % 256)).length ≤ cap := by
  rw [List.length_take]
  simp only [List.length_cons]
  omega

theorem handleFindByType_safe (srv : Server) (cap : Nat) (op : UInt8) (p : Bytes) (hcap : 1 ≤ cap) :
    Safe (handleFindByType srv cap op p) := by
  unfold handleFindByType
  split
  · exact safe_checkRange_stop _ _ _ _ _ _ _ ‹_›
  · split
    · split
      · safe_close
      · dsimp only
        split
        · safe_close
        · apply safe_emit
          exact findByType_emit_len _ _ _ (groupLoop_len _ _ _ _ _ _ (Nat.zero_le _)) hcap
    · safe_close

/-- `collect_primary_services` / `read_primary_service_response` stay inside `[begin, end)` -/
theorem primLoop_len (startIdx endIdx room : Nat) (l : List (Nat × Nat × Bytes)) :
    ∀ st : Prim, st.acc.length ≤ room → (primLoop startIdx endIdx room l st).acc.length ≤ room := by
  induction l with
  | nil => intro st h; exact h
  | cons x rest ih =>
    intro st h
    obtain ⟨i, n, u⟩ := x
    unfold primLoop
    split
    · apply ih
      repeat' split
      all_goals first
        | exact h
        | (simp only [List.length_append, le16_length, List.length_take] at *; omega)
    · exact ih _ h

theorem readByGroup_emit_len (cap : Nat) (st : Prim) (x y : UInt8) (h : st.acc.length ≤ cap - 2) (hcap : 2 ≤ cap) :
    (x :: y :: st.acc).length ≤ cap := by
  simp only [List.length_cons]
  omega

theorem handleReadByGroup_safe (srv : Server) (cap : Nat) (op : UInt8) (p : Bytes) (hcap : 2 ≤ cap) :
    Safe (handleReadByGroup srv cap op p) := by
  unfold handleReadByGroup
  split
  · exact safe_checkRange_stop _ _ _ _ _ _ _ ‹_›
  · split
    · safe_close
    · split
      · safe_close
      · rw [if_neg (by omega)]
        dsimp only
        split
        · safe_close
        · apply safe_emit
          exact readByGroup_emit_len _ _ _ _ (primLoop_len _ _ _ _ _ (Nat.zero_le _)) hcap

theorem multiLoop_safe (H : Handlers) (hH : HandlersOk H) (srv : Server) (cap : Nat) (op : UInt8) (cells : List Bytes)
    (c : Conn) (hw : StateWF srv cells c = true) (hs acc : Bytes) (hacc : acc.length ≤ cap) :
    Safe (multiLoop H srv cap op cells c hs acc) := by
  -- the loop consumes two bytes per round: induction on a bound of the length
  have key : ∀ n, ∀ hs acc : Bytes, hs.length ≤ n → acc.length ≤ cap → Safe (multiLoop H srv cap op cells c hs acc) := by
    intro n
    induction n with
    | zero =>
      intro hs acc hl ha
      cases hs with
      | nil => unfold multiLoop; exact safe_emit _ _ ha
      | cons _ _ => simp at hl
    | succ n ih =>
      intro hs acc hl ha
      match hs with
      | [] => unfold multiLoop; exact safe_emit _ _ ha
      | [_] => unfold multiLoop; safe_close
      | lo' :: hi' :: rest =>
        unfold multiLoop
        dsimp only
        split
        · safe_close
        · split
          · safe_close
          · next i hi =>
            obtain ⟨a, hat, hmem⟩ := attrs_get (indexByHandle_lt hi)
            rw [hat]
            dsimp only
            have hok := readAccess_ok H hH srv cells c i a 0 (cap - acc.length) (stateOk_of_mem hw hmem)
            have hlen := readAccess_len H srv cells c i a 0 (cap - acc.length)
            generalize readAccess H srv cells c i a 0 (cap - acc.length) = r at hok hlen
            obtain ⟨rc, d⟩ := r
            cases rc with
            | success =>
              dsimp only
              have := hlen d rfl
              rw [if_pos (by omega)]
              apply ih
              · simp only [List.length_cons] at hl; omega
              · simp only [List.length_append]; omega
            | oob => exact absurd rfl hok
            | err code => dsimp only; safe_close
            | valueEqual => dsimp only; safe_close
  exact key _ _ _ (Nat.le_refl _) hacc

theorem handleReadMultiple_safe (H : Handlers) (hH : HandlersOk H) (srv : Server) (cap : Nat) (op : UInt8) (p : Bytes)
    (cells : List Bytes) (c : Conn) (hw : StateWF srv cells c = true) (hcap : 1 ≤ cap) :
    Safe (handleReadMultiple H srv cap op p cells c) := by
  unfold handleReadMultiple
  split
  · safe_close
  · exact multiLoop_safe H hH _ _ _ _ _ hw _ _ (by simpa using hcap)

theorem handleWrite_safe (H : Handlers) (srv : Server) (cap : Nat) (op : UInt8) (p : Bytes)
    (cells : List Bytes) (c : Conn) (hw : StateWF srv cells c = true) (hcap : 1 ≤ cap) :
    Safe (handleWrite H srv cap op p cells c).resp := by
  unfold handleWrite
  split
  · safe_close
  · split
    · exact safe_checkHandle_stop _ _ _ _ _ ‹_›
    · next h i hok =>
      obtain ⟨a, ha, hmem⟩ := attrs_get (checkHandle_ok_lt hok)
      rw [ha]
      dsimp only
      have hnoob := writeAccess_ok H srv cells c a 0 (p.drop 3) (stateOk_of_mem hw hmem)
      generalize writeAccess H srv cells c a 0 (p.drop 3) = r at hnoob
      obtain ⟨rc, cells', cccd'⟩ := r
      cases rc with
      | success => dsimp only; exact safe_emit _ _ (by simpa using hcap)
      | oob => exact absurd rfl hnoob
      | err code => dsimp only; safe_close
      | valueEqual => dsimp only; safe_close

theorem handleWriteCommand_safe (H : Handlers) (srv : Server) (cap : Nat) (op : UInt8) (p : Bytes)
    (cells : List Bytes) (c : Conn) (hw : StateWF srv cells c = true) (hcap : 1 ≤ cap) :
    Safe (handleWriteCommand H srv cap op p cells c).resp := by
  unfold handleWriteCommand
  split
  · safe_close
  · exact handleWrite_safe H srv cap op p cells c hw hcap

theorem dispatch_safe (H : Handlers) (hH : HandlersOk H) (srv : Server) (cells : List Bytes) (c : Conn) (op : UInt8)
    (p : Bytes) (cap : Nat) (ht : TableWF srv = true) (hw : StateWF srv cells c = true) (hcap : 3 ≤ cap) :
    Safe (dispatch H srv cap op p cells c).resp := by
  unfold dispatch
  by_cases h01 : op = 0x01
  · rw [if_pos h01]; safe_close
  rw [if_neg h01]
  by_cases h : op = 0x02
  · rw [if_pos h]; exact handleExchangeMtu_safe _ _ _ _ _ _ hcap
  rw [if_neg h]; clear h
  by_cases h : op = 0x04
  · rw [if_pos h]; exact handleFindInfo_safe _ ht _ _ _ (by omega)
  rw [if_neg h]; clear h
  by_cases h : op = 0x06
  · rw [if_pos h]; exact handleFindByType_safe _ _ _ _ (by omega)
  rw [if_neg h]; clear h
  by_cases h : op = 0x08
  · rw [if_pos h]; exact handleReadByType_safe _ _ _ _ _ _ _ (by omega)
  rw [if_neg h]; clear h
  by_cases h : op = 0x0A
  · rw [if_pos h]; exact handleRead_safe H hH _ _ _ _ _ _ hw (by omega)
  rw [if_neg h]; clear h
  by_cases h : op = 0x0C
  · rw [if_pos h]; exact handleReadBlob_safe H hH _ _ _ _ _ _ hw (by omega)
  rw [if_neg h]; clear h
  by_cases h : op = 0x10
  · rw [if_pos h]; exact handleReadByGroup_safe _ _ _ _ (by omega)
  rw [if_neg h]; clear h
  by_cases h : op = 0x0E
  · rw [if_pos h]; exact handleReadMultiple_safe H hH _ _ _ _ _ _ hw (by omega)
  rw [if_neg h]; clear h
  by_cases h : op = 0x12
  · rw [if_pos h]; exact handleWrite_safe H _ _ _ _ _ _ hw (by omega)
  rw [if_neg h]; clear h
  by_cases h : op = 0x52
  · rw [if_pos h]; exact handleWriteCommand_safe H _ _ _ _ _ _ hw (by omega)
  rw [if_neg h]; clear h
  by_cases h : op = 0x16
  · rw [if_pos h]; safe_close
  rw [if_neg h]; clear h
  by_cases h : op = 0x18
  · rw [if_pos h]; safe_close
  rw [if_neg h]; clear h
  by_cases h : op = 0x1E
  · rw [if_pos h]; (unfold handleConfirmation; split <;> safe_close)
  rw [if_neg h]; clear h
  safe_close

/-! ## the state invariant -/

theorem writeAccess_lens' {H : Handlers} (hH : HandlersOk H) {srv : Server} {cells : List Bytes} {c : Conn} {a : Attr}
    {off : Nat} {v : Bytes} {rc : Rc} {cells' : List Bytes} {cccd' : List Nat}
    (h : writeAccess H srv cells c a off v = (rc, cells', cccd')) :
    cells'.map List.length = cells.map List.length ∧ cccd'.length = c.cccd.length := by
  have := writeAccess_lens H hH srv cells c a off v
  rw [h] at this
  exact this

/-- no request changes the size of a memory cell or the number of CCCD entries -/
theorem handleWrite_lens (H : Handlers) (hH : HandlersOk H) (srv : Server) (cap : Nat) (op : UInt8) (p : Bytes)
    (cells : List Bytes) (c : Conn) :
    (handleWrite H srv cap op p cells c).cells.map List.length = cells.map List.length ∧
    (handleWrite H srv cap op p cells c).conn.cccd.length = c.cccd.length := by
  unfold handleWrite
  repeat' split
  all_goals first
    | exact ⟨rfl, rfl⟩
    | exact writeAccess_lens' hH ‹_›

theorem handleWriteCommand_lens (H : Handlers) (hH : HandlersOk H) (srv : Server) (cap : Nat) (op : UInt8) (p : Bytes)
    (cells : List Bytes) (c : Conn) :
    (handleWriteCommand H srv cap op p cells c).cells.map List.length = cells.map List.length ∧
    (handleWriteCommand H srv cap op p cells c).conn.cccd.length = c.cccd.length := by
  unfold handleWriteCommand
  split <;> exact handleWrite_lens H hH srv cap op p cells c

theorem handleExchangeMtu_lens (srv : Server) (cap : Nat) (op : UInt8) (p : Bytes) (cells : List Bytes) (c : Conn) :
    (handleExchangeMtu srv cap op p cells c).cells.map List.length = cells.map List.length ∧
    (handleExchangeMtu srv cap op p cells c).conn.cccd.length = c.cccd.length := by
  unfold handleExchangeMtu
  repeat' split
  all_goals exact ⟨rfl, rfl⟩

/-- sizes unchanged (as a predicate on the result) -/
def LensOk (cells : List Bytes) (c : Conn) (o : Out) : Prop :=
  o.cells.map List.length = cells.map List.length ∧ o.conn.cccd.length = c.cccd.length

theorem lensOk_ite {cells : List Bytes} {c : Conn} {q : Prop} [Decidable q] {a b : Out}
    (ha : LensOk cells c a) (hb : LensOk cells c b) : LensOk cells c (if q then a else b) := by
  split <;> assumption

theorem dispatch_lens (H : Handlers) (hH : HandlersOk H) (srv : Server) (cells : List Bytes) (c : Conn) (op : UInt8)
    (p : Bytes) (cap : Nat) : LensOk cells c (dispatch H srv cap op p cells c) := by
  unfold dispatch
  repeat' (first
    | exact ⟨rfl, rfl⟩
    | exact handleWrite_lens H hH ..
    | exact handleWriteCommand_lens H hH ..
    | exact handleExchangeMtu_lens ..
    | apply lensOk_ite)

theorem l2capInput_lens (H : Handlers) (hH : HandlersOk H) (srv : Server) (cells : List Bytes) (c : Conn) (p : Bytes)
    (outSize : Nat) :
    (l2capInput H srv cells c p outSize).cells.map List.length = cells.map List.length ∧
    (l2capInput H srv cells c p outSize).conn.cccd.length = c.cccd.length := by
  cases p with
  | nil => rw [l2capInput]; exact ⟨rfl, rfl⟩
  | cons op rest =>
    rw [l2capInput]
    split
    · exact ⟨rfl, rfl⟩
    · exact dispatch_lens H hH ..

theorem stateWF_congr {srv : Server} {cells cells' : List Bytes} {c c' : Conn}
    (h1 : cells'.map List.length = cells.map List.length) (h2 : c'.cccd.length = c.cccd.length) :
    StateWF srv cells' c' = StateWF srv cells c := by
  unfold StateWF; rw [h1, h2]

theorem validExchange_ge {p : Bytes} {m : Nat} (h : validExchange p = some m) : 23 ≤ m := by
  unfold validExchange at h
  split at h
  · split at h
    · next hx => cases h; exact hx.2
    · cases h
  · cases h

/-! ## `l2cap_input` -/

/-- the exact precondition of `l2cap_input` (decidable): well-formed table and state, a non-empty
    PDU, an output buffer of at least 23 bytes, a client MTU of at least 23 (an invariant, C08) -/
def StepPre (srv : Server) (cells : List Bytes) (c : Conn) (p : Bytes) (outSize : Nat) : Bool :=
  TableWF srv && StateWF srv cells c && !p.isEmpty && decide (23 ≤ outSize) && decide (23 ≤ c.clientMtu)

theorem step_safe (H : Handlers) (hH : HandlersOk H) (srv : Server) (cells : List Bytes) (c : Conn) (p : Bytes)
    (outSize : Nat) (ht : TableWF srv = true) (hs : StateWF srv cells c = true) (hp : p ≠ []) (hn : 23 ≤ outSize)
    (hc : 23 ≤ c.clientMtu) : Safe (l2capInput H srv cells c p outSize).resp := by
  have hm := tableWF_mtu ht
  have hcap : ¬ min outSize (negotiatedMtu srv c) < 23 := by unfold negotiatedMtu; omega
  cases p with
  | nil => exact absurd rfl hp
  | cons op rest =>
    rw [l2capInput, if_neg hcap]
    exact dispatch_safe H hH srv cells c op _ _ ht hs (by omega)

theorem stepPre_iff {srv : Server} {cells : List Bytes} {c : Conn} {p : Bytes} {outSize : Nat} :
    StepPre srv cells c p outSize = true ↔
      TableWF srv = true ∧ StateWF srv cells c = true ∧ p ≠ [] ∧ 23 ≤ outSize ∧ 23 ≤ c.clientMtu := by
  unfold StepPre
  cases p <;> simp [and_assoc]

/-- **C01 (output side)**: for every well-formed table and state, every handler implementation
    obeying the documented contract, every non-empty PDU and every output buffer of at least 23
    bytes, `l2cap_input` yields a PDU: it never writes outside the output buffer, never reads or
    writes outside a value in memory, never hits an `assert`, never reads outside the input -/
theorem step_no_oob (H : Handlers) (hH : HandlersOk H) (srv : Server) (cells : List Bytes) (c : Conn) (p : Bytes)
    (outSize : Nat) (hpre : StepPre srv cells c p outSize = true) :
    ∃ b, (l2capInput H srv cells c p outSize).resp = .pdu b := by
  obtain ⟨ht, hs, hp, hn, hc⟩ := stepPre_iff.mp hpre
  have h1 := step_safe H hH srv cells c p outSize ht hs hp hn hc
  have h2 := step_no_oob_read H srv cells c p outSize
  generalize (l2capInput H srv cells c p outSize).resp = r at h1 h2
  cases r with
  | pdu b => exact ⟨b, rfl⟩
  | oobRead => exact absurd rfl h2
  | oobWrite => exact absurd rfl h1.1
  | assertFail => exact absurd rfl h1.2

/-- the precondition is exact: on a well-formed table and state the two `assert`s of `l2cap_input`
    (`in_size != 0`, `out_size >= 23` after clipping) fire iff the PDU is empty, the buffer is
    shorter than 23 bytes or the client MTU is below 23 — and no other `assert` ever fires -/
theorem step_assert_iff (H : Handlers) (hH : HandlersOk H) (srv : Server) (cells : List Bytes) (c : Conn) (p : Bytes)
    (outSize : Nat) (ht : TableWF srv = true) (hs : StateWF srv cells c = true) :
    (l2capInput H srv cells c p outSize).resp = .assertFail ↔ (p = [] ∨ outSize < 23 ∨ c.clientMtu < 23) := by
  constructor
  · intro h
    by_cases hp : p = []
    · exact .inl hp
    · by_cases hn : outSize < 23
      · exact .inr (.inl hn)
      · by_cases hc : c.clientMtu < 23
        · exact .inr (.inr hc)
        · exact absurd h (step_safe H hH srv cells c p outSize ht hs hp (by omega) (by omega)).2
  · intro h
    cases p with
    | nil => rw [l2capInput]
    | cons op rest =>
      have : min outSize (negotiatedMtu srv c) < 23 := by
        unfold negotiatedMtu
        rcases h with h | h | h
        · cases h
        · omega
        · omega
      rw [l2capInput, if_pos this]

/-- the precondition is an invariant of `l2cap_input` -/
theorem step_preserves (H : Handlers) (hH : HandlersOk H) (srv : Server) (cells : List Bytes) (c : Conn) (p : Bytes)
    (outSize : Nat) (ht : TableWF srv = true) (hs : StateWF srv cells c = true) (hn : 23 ≤ outSize)
    (hc : 23 ≤ c.clientMtu) :
    StateWF srv (l2capInput H srv cells c p outSize).cells (l2capInput H srv cells c p outSize).conn = true ∧
    23 ≤ (l2capInput H srv cells c p outSize).conn.clientMtu := by
  obtain ⟨h1, h2⟩ := l2capInput_lens H hH srv cells c p outSize
  refine ⟨by rw [stateWF_congr h1 h2]; exact hs, ?_⟩
  rw [step_mtu H srv cells c p outSize (tableWF_mtu ht) hc hn]
  cases hv : validExchange p with
  | none => exact hc
  | some m => exact validExchange_ge hv

/-- the responses of a history of `l2cap_input` calls on one connection -/
def respsOf (H : Handlers) (srv : Server) (cells : List Bytes) (c : Conn) : List (Bytes × Nat) → List Resp
  | [] => []
  | (p, n) :: rest =>
    (l2capInput H srv cells c p n).resp ::
      respsOf H srv (l2capInput H srv cells c p n).cells (l2capInput H srv cells c p n).conn rest

/-- **C01 (output side, all histories)**: starting from a well-formed state, every response in every
    history of non-empty PDUs with output buffers of at least 23 bytes is a PDU -/
theorem history_no_oob (H : Handlers) (hH : HandlersOk H) (srv : Server) (ht : TableWF srv = true)
    (hist : List (Bytes × Nat)) : ∀ (cells : List Bytes) (c : Conn), StateWF srv cells c = true → 23 ≤ c.clientMtu →
      (∀ x ∈ hist, x.1 ≠ [] ∧ 23 ≤ x.2) → ∀ r ∈ respsOf H srv cells c hist, ∃ b, r = .pdu b := by
  induction hist with
  | nil => intro cells c _ _ _ r hr; cases hr
  | cons x rest ih =>
    intro cells c hs hc hh r hr
    obtain ⟨p, n⟩ := x
    have hx := hh (p, n) (List.mem_cons_self ..)
    unfold respsOf at hr
    rcases List.mem_cons.mp hr with h | h
    · subst h
      exact step_no_oob H hH srv cells c p n (stepPre_iff.mpr ⟨ht, hs, hx.1, hx.2, hc⟩)
    · obtain ⟨hs', hc'⟩ := step_preserves H hH srv cells c p n ht hs hx.2 hc
      exact ih _ _ hs' hc' (fun y hy => hh y (List.mem_cons_of_mem _ hy)) r h

/-! ## `l2cap_output` -/

theorem stateWF_ntf {srv : Server} {cells : List Bytes} {c : Conn} (hw : StateWF srv cells c = true) :
    srv.ntf.length ≤ c.cccd.length := by
  unfold StateWF at hw
  rw [Bool.and_eq_true] at hw
  exact of_decide_eq_true hw.2

/-- **C01 for `l2cap_output`**: for a queued notification / indication of an existing CCCD
    position the result is a PDU (possibly empty): no write outside the buffer, no `assert` -/
theorem notify_no_oob (H : Handlers) (hH : HandlersOk H) (srv : Server) (cells : List Bytes) (c : Conn) (ind : Bool)
    (pos outSize : Nat) (ht : TableWF srv = true) (hs : StateWF srv cells c = true) (hpos : pos < srv.ntf.length) :
    ∃ b, l2capOutput H srv cells c ind pos outSize = .pdu b := by
  have hn := stateWF_ntf hs
  have hidx : srv.ntf[pos]? = some srv.ntf[pos] := List.getElem?_eq_getElem hpos
  have hf : cccdFlags c pos = some (c.cccd[pos]'(by omega)) := by
    unfold cccdFlags; exact List.getElem?_eq_getElem (by omega)
  obtain ⟨a, ha, hmem⟩ := attrs_get (tableWF_ntf ht hidx)
  have hok := fun n => readAccess_ok H hH srv cells c srv.ntf[pos] a 0 n (stateOk_of_mem hs hmem)
  have hlen := fun n => readAccess_len H srv cells c srv.ntf[pos] a 0 n
  unfold l2capOutput
  rw [hidx, hf]
  cases ind
  all_goals
    simp only [Bool.false_eq_true, if_false, if_true]
    split
    · next hcond =>
      rw [ha]
      dsimp only
      have hok' := hok (min outSize (negotiatedMtu srv c) - 3)
      have hlen' := hlen (min outSize (negotiatedMtu srv c) - 3)
      generalize readAccess H srv cells c srv.ntf[pos] a 0 (min outSize (negotiatedMtu srv c) - 3) = r at hok' hlen'
      obtain ⟨rc, d⟩ := r
      cases rc with
      | success =>
        dsimp only
        have := hlen' d rfl
        unfold emit
        exact ⟨_, if_pos (by simp only [List.length_cons, List.length_append, le16_length]; omega)⟩
      | oob => exact absurd rfl hok'
      | err code => dsimp only; exact ⟨_, rfl⟩
      | valueEqual => dsimp only; exact ⟨_, rfl⟩
    · exact ⟨_, rfl⟩

/-! ## non-vacuity -/

/-- the handlers of the harness obey the contract -/
theorem handlersOk_std : HandlersOk Handlers.std where
  readBlob := by
    intro cell cells off n h
    change (stdReadBlob cell cells off n).1 = 0 at h
    show (stdReadBlob cell cells off n).2.length ≤ n
    unfold stdReadBlob at h ⊢
    cases hm : cells[cell]? with
    | none => rw [hm] at h; simp at h
    | some m =>
      rw [hm] at h
      dsimp only at h ⊢
      by_cases ho : off > m.length
      · rw [if_pos ho] at h; simp at h
      · rw [if_neg ho]; simp only [List.length_take, List.length_drop]; omega
  readPlain := by
    intro cell cells n h
    show (stdReadPlain cell cells n).2.length ≤ n
    unfold stdReadPlain
    cases hm : cells[cell]? with
    | none => exact Nat.zero_le _
    | some m => simp only [List.length_take]; omega
  writeBlob := by
    intro cell cells off v
    show (stdWriteBlob cell cells off v).2.map List.length = _
    unfold stdWriteBlob
    cases hm : cells[cell]? with
    | none => rfl
    | some m =>
      dsimp only
      by_cases h1 : off > m.length
      · rw [if_pos h1]
      · rw [if_neg h1]
        by_cases h2 : off + v.length > m.length
        · rw [if_pos h2]
        · rw [if_neg h2]
          exact set_self_lens _ _ _ _ hm (by simp only [List.length_append, List.length_take, List.length_drop]; omega)
  writePlain := by
    intro cell cells v
    show (stdWritePlain cell cells v).2.map List.length = _
    unfold stdWritePlain
    cases hm : cells[cell]? with
    | none => rfl
    | some m =>
      dsimp only
      by_cases h1 : v.length > m.length
      · rw [if_pos h1]
      · rw [if_neg h1]
        by_cases h2 : v.head? = some 0xEE
        · rw [if_pos h2]
        · rw [if_neg h2]
          exact set_self_lens _ _ _ _ hm (by simp only [List.length_append, List.length_drop]; omega)

/-- a concrete state satisfying the precondition: server `max_mtu_size<65>` with a 40 byte bound
    value and a CCCD (`wSrv65`), Read Request for handle 3, 23 byte buffer -/
example : StepPre wSrv65 [List.replicate 40 0x55] ⟨23, [1], false, 0⟩ [0x0A, 0x03, 0x00] 23 = true := by decide

example : (l2capInput Handlers.std wSrv65 [List.replicate 40 0x55] ⟨23, [1], false, 0⟩ [0x0A, 0x03, 0x00] 23).resp =
    .pdu (0x0B :: List.replicate 22 0x55) := by decide

/-- non-vacuity of `notify_no_oob` / `history_no_oob`: the same table and state, CCCD position 0,
    a two-step history (Exchange MTU 100, then a Read Blob) -/
example : TableWF wSrv65 = true ∧ StateWF wSrv65 [List.replicate 40 0x55] ⟨23, [1], false, 0⟩ = true ∧
    0 < wSrv65.ntf.length ∧
    respsOf Handlers.std wSrv65 [List.replicate 40 0x55] ⟨23, [1], false, 0⟩
      [([0x02, 100, 0], 65), ([0x0C, 0x03, 0x00, 38, 0], 65)] = [.pdu [0x03, 65, 0], .pdu [0x0D, 0x55, 0x55]] := by decide

/-- … and the hypotheses are needed: a bound value whose memory is shorter than its declared size
    (impossible in C++, `StateWF` = false) makes the model report the out-of-bounds copy -/
example : StateWF wSrv65 [List.replicate 10 0x55] ⟨23, [1], false, 0⟩ = false ∧
    (l2capInput Handlers.std wSrv65 [List.replicate 10 0x55] ⟨23, [1], false, 0⟩ [0x0A, 0x03, 0x00] 23).resp = .oobWrite := by
  decide

end BluetoeModel.AttAccess
